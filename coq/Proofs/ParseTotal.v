(* ParseTotal.v — C06 for the reader: [parse_text] answers every text with a datum
   or an error value, never with a panic and never without fuel.

   Structure
     A. the scanner relation [lexes] (every token carries the [lex1] step that made
        it) and what a token's text looks like, by token type;
     B. [parse_with_exactness] never panics and needs no fuel, PROVIDED the one call
        of num-rational's [reduce] it can reach does not overflow: the single
        localized side condition is [rational_ok] (see [parse_with_exactness_safe]);
     C. string and character literals;
     D. fuel: [parse_fuel ts] is enough;
     E. [parse_text_total] over the complement of the decidable class [known_C06],
        the refutation witness, and the datum-by-datum loop [parse_all].          *)
From Coq Require Import Lia ZifyBool.
From Flocq Require Import IEEE754.BinarySingleNaN.
From MW Require Import Model.Base Model.F64 Model.Num Model.Digits Model.F64Fmt Model.NumFmt
  Model.Datum Model.Lex Model.Parse Proofs.LexProofs Proofs.ParseProofs.
Open Scope N_scope.

Arguments N.add : simpl never.
Arguments N.sub : simpl never.
Arguments N.mul : simpl never.
Arguments N.eqb : simpl never.
Arguments N.ltb : simpl never.
Arguments N.leb : simpl never.

(* an outcome that is a value or an error value *)
Definition safe {A} (x : out A) : Prop :=
  match x with Ok _ | Err _ => True | Panic _ | NoFuel => False end.

Lemma safe_bind {A B} (x : out A) (f : A -> out B) :
  safe x -> (forall a, x = Ok a -> safe (f a)) -> safe (bind x f).
Proof. destruct x; cbn; auto. Qed.

Lemma safe_cases {A} (x : out A) : safe x -> (exists a, x = Ok a) \/ (exists e, x = Err e).
Proof. destruct x; cbn; intros H; try contradiction; eauto. Qed.

(* ====================================================================== A *)
(* the scanner as a relation: like [toks_at] but every token remembers the step *)
Inductive lexes : N -> text -> list token -> Prop :=
| lx_nil o : lexes o [] []
| lx_skip o c r a b ts : lex1 c r = SSkip a b -> lexes (o + blen a) b ts -> lexes o (c :: r) ts
| lx_tok o c r ty a b ts : lex1 c r = STok ty a b -> lexes (o + blen a) b ts ->
    lexes o (c :: r) (mk_token o (o + blen a) ty :: ts).

Lemma scan_fuel_lexes fuel : forall o l ts, scan_fuel fuel o l = Ok ts -> lexes o l ts.
Proof.
  induction fuel as [|f IH]; intros o l ts H; [discriminate|].
  cbn [scan_fuel] in H. destruct l as [|c r]; [injection H as <-; constructor|].
  destruct (lex1 c r) as [ty a b|a b|e] eqn:E.
  - destruct (scan_fuel f (o + blen a) b) as [ts'| | |] eqn:E2; cbn [bind] in H; try discriminate.
    injection H as <-. eapply lx_tok; [exact E|]. apply IH; assumption.
  - eapply lx_skip; [exact E|]. apply IH; assumption.
  - discriminate.
Qed.

(* [tok_at t k]: token [k] of text [t] was produced by a scanner step at its start *)
Definition tok_at (t : text) (k : token) : Prop :=
  exists pre c r a b, t = pre ++ c :: r /\ lex1 c r = STok (t_ty k) a b /\
    t_start k = blen pre /\ t_end k = blen pre + blen a.

Lemma lexes_tok_at o l ts : lexes o l ts ->
  forall pre0, o = blen pre0 -> Forall (tok_at (pre0 ++ l)) ts.
Proof.
  induction 1 as [o|o c r a b ts E Hl IH|o c r ty a b ts E Hl IH]; intros pre0 Ho.
  - constructor.
  - apply lex1_skip in E as (E & _ & _). rewrite E.
    specialize (IH (pre0 ++ a)). rewrite blen_app, <- app_assoc in IH. apply IH. lia.
  - constructor.
    + exists pre0, c, r, a, b. cbn [t_ty t_start t_end]. repeat split; auto; lia.
    + pose proof (lex1_tok _ _ _ _ _ E) as (E' & _). rewrite E'.
      specialize (IH (pre0 ++ a)). rewrite blen_app, <- app_assoc in IH. apply IH. lia.
Qed.

Lemma scan_tok_at t ts : scan t = Ok ts -> Forall (tok_at t) ts.
Proof.
  intros H. apply scan_fuel_lexes in H. exact (lexes_tok_at _ _ _ H [] eq_refl).
Qed.

(* the text of a token is what its step consumed; slicing never fails *)
Lemma tok_at_span t k : tok_at t k ->
  exists c r a b, lex1 c r = STok (t_ty k) a b /\ a <> [] /\
    tok_span t k = Ok a /\ slice_from t (t_start k) = Ok (c :: r).
Proof.
  intros (pre & c & r & a & b & -> & E & Hs & He).
  exists c, r, a, b. pose proof (lex1_tok _ _ _ _ _ E) as (E' & Ha).
  split; [assumption|]. split; [assumption|]. split.
  - unfold tok_span, slice. rewrite Hs, He.
    destruct (blen pre + blen a <? blen pre) eqn:Elt; [lia|].
    rewrite take_bytes_app. replace (blen pre + blen a - blen pre) with (blen a) by lia.
    rewrite E', take_bytes_app. reflexivity.
  - unfold slice_from. rewrite Hs, take_bytes_app. reflexivity.
Qed.

(* ---- what the sub-scanners promise about a Number token *)
Lemma scan_number_rest_symbol l : forall a ty' b,
  scan_number_rest l TSymbol = (a, ty', b) -> ty' = TSymbol.
Proof.
  induction l as [|c l IH]; cbn [scan_number_rest]; intros a ty' b H.
  - injection H as _ <- _. reflexivity.
  - destruct (is_subsequent_number c).
    + destruct (scan_number_rest l TSymbol) as [[a1 t1] b1] eqn:E. injection H as _ <- _. eauto.
    + destruct (is_subsequent_identifier c && negb (c =? 59)).
      * destruct (scan_number_rest l TSymbol) as [[a1 t1] b1] eqn:E. injection H as _ <- _. eauto.
      * injection H as _ <- _. reflexivity.
Qed.

Lemma scan_number_rest_number l : forall ty a b,
  scan_number_rest l ty = (a, TNumber, b) -> forallb is_subsequent_number a = true.
Proof.
  induction l as [|c l IH]; cbn [scan_number_rest]; intros ty a b H.
  - injection H as <- _ _. reflexivity.
  - destruct (is_subsequent_number c) eqn:Ec.
    + destruct (scan_number_rest l ty) as [[a1 t1] b1] eqn:E. injection H as <- -> _.
      cbn [forallb]. rewrite Ec. eauto.
    + destruct (is_subsequent_identifier c && negb (c =? 59)).
      * destruct (scan_number_rest l TSymbol) as [[a1 t1] b1] eqn:E. injection H as _ -> _.
        apply scan_number_rest_symbol in E. discriminate.
      * injection H as <- _ _. reflexivity.
Qed.

Lemma scan_dot_rest_symbol l : forall a ty' b,
  scan_dot_rest l TSymbol = (a, ty', b) -> ty' = TSymbol.
Proof.
  induction l as [|c l IH]; cbn [scan_dot_rest]; intros a ty' b H.
  - injection H as _ <- _. reflexivity.
  - assert (E1 : (if c =? 46 then TSymbol else TSymbol) = TSymbol) by (destruct (c =? 46); reflexivity).
    rewrite E1 in H. destruct (is_subsequent_identifier c).
    + destruct (scan_dot_rest l TSymbol) as [[a1 t1] b1] eqn:E. injection H as _ <- _. eauto.
    + injection H as _ <- _. reflexivity.
Qed.

Lemma scan_dot_rest_number l : forall ty a b,
  scan_dot_rest l ty = (a, TNumber, b) -> forallb is_subsequent_number a = true.
Proof.
  induction l as [|c l IH]; cbn [scan_dot_rest]; intros ty a b H.
  - injection H as <- _ _. reflexivity.
  - remember (if c =? 46 then TSymbol else ty) as ty1 eqn:Ety1.
    destruct ty1; try discriminate.
    + (* TNumber *)
      destruct (is_subsequent_number c) eqn:Ec.
      * destruct (scan_dot_rest l TNumber) as [[a1 t1] b1] eqn:E. injection H as <- -> _.
        cbn [forallb]. rewrite Ec. eauto.
      * injection H as <- _. reflexivity.
    + (* TSymbol *)
      destruct (is_subsequent_identifier c).
      * destruct (scan_dot_rest l TSymbol) as [[a1 t1] b1] eqn:E. injection H as _ -> _.
        apply scan_dot_rest_symbol in E. discriminate.
      * discriminate.
Qed.

Definition dns (ty : ttype) : Prop := ty = TDot \/ ty = TNumber \/ ty = TSymbol.

Lemma scan_dot_rest_types l : forall ty a ty' b,
  scan_dot_rest l ty = (a, ty', b) -> dns ty -> dns ty'.
Proof.
  induction l as [|x l IH]; cbn [scan_dot_rest]; intros ty a ty' b H Hty.
  - injection H as _ <- _. assumption.
  - assert (Hty1 : dns (if x =? 46 then TSymbol else ty)) by (unfold dns in *; destruct (x =? 46); auto).
    match type of H with (if ?chk then _ else _) = _ => destruct chk end.
    + destruct (scan_dot_rest l _) as [[a2 t2] b2] eqn:E2. injection H as _ <- _. eauto.
    + injection H as _ <- _. assumption.
Qed.

Lemma scan_number_rest_types l : forall ty a ty' b,
  scan_number_rest l ty = (a, ty', b) -> ty' = ty \/ ty' = TSymbol.
Proof.
  induction l as [|c l IH]; cbn [scan_number_rest]; intros ty a ty' b H.
  - injection H as _ <- _. auto.
  - destruct (is_subsequent_number c).
    + destruct (scan_number_rest l ty) as [[a1 t1] b1] eqn:E. injection H as _ <- _. eauto.
    + destruct (is_subsequent_identifier c && negb (c =? 59)).
      * destruct (scan_number_rest l TSymbol) as [[a1 t1] b1] eqn:E. injection H as _ <- _.
        right. eapply scan_number_rest_symbol; eassumption.
      * injection H as _ <- _. auto.
Qed.

Lemma scan_string_rest_nonempty l : forall esc a b, scan_string_rest l esc = Some (a, b) -> a <> [].
Proof.
  destruct l as [|c l]; cbn [scan_string_rest]; intros esc a b H; [discriminate|].
  destruct ((c =? 34) && negb esc).
  - injection H as <- _. discriminate.
  - destruct (scan_string_rest l _) as [[a1 b1]|]; [|discriminate]. injection H as <- _. discriminate.
Qed.

Lemma mem_cases c l : mem c l = true -> In c l.
Proof.
  unfold mem. intros H. apply existsb_exists in H as (x & Hin & Hx).
  apply N.eqb_eq in Hx. subst. assumption.
Qed.

(* the shape of a token's text, by type: exactly what the parser relies on *)
Definition tok_shape (ty : ttype) (a : text) : Prop :=
  match ty with
  | TChar | TString => exists x y body, a = x :: y :: body
  | TNumPrefix => exists e rd, prefix_kind a = Some (e, rd) /\
      match rd with Some x => In x [2; 8; 10; 16]%Z | None => True end
  | TNumber => exists c0 a1, a = c0 :: a1 /\ forallb is_subsequent_number a1 = true
  | _ => True
  end.

Lemma lex1_shape c r ty a b : lex1 c r = STok ty a b -> tok_shape ty a.
Proof.
  unfold lex1. intros H.
  repeat match type of H with
  | (if ?x then _ else _) = _ => destruct x eqn:?
  end; try discriminate;
  try (injection H as <- <- <-; exact I).
  - (* hash *)
    destruct r as [|c2 r2]; [discriminate|].
    match goal with Hc : (c =? 35) = true |- _ => apply N.eqb_eq in Hc; subst c end.
    repeat match type of H with
    | (if ?x then _ else _) = _ => destruct x eqn:?
    end; try discriminate;
    try (injection H as <- <- <-; exact I).
    + (* number prefix *)
      injection H as <- <- <-.
      match goal with Hm : mem c2 _ = true |- _ => apply mem_cases in Hm; cbn [In] in Hm;
        destruct Hm as [Hm|[Hm|[Hm|[Hm|[Hm|[Hm|Hm]]]]]]; try contradiction; subst c2 end;
      cbn [tok_shape prefix_kind]; do 2 eexists; (split; [reflexivity|cbn; auto 6]).
    + (* char *)
      destruct r2 as [|c3 r3]; [discriminate|].
      destruct (negb (is_ascii_alpha c3)).
      * injection H as <- <- <-. cbn. eauto.
      * destruct (span is_ascii_alnum r3) as [a1 b1] eqn:E. injection H as <- <- <-. cbn. eauto.
  - (* dot *)
    match type of H with context [scan_dot_rest r ?t] =>
      destruct (scan_dot_rest r t) as [[a1 t1] b1] eqn:E end.
    injection H as <- <- <-.
    match type of E with scan_dot_rest r ?t = _ => assert (Ht : dns t) end.
    { unfold dns. destruct r as [|c2 r2]; auto. destruct (is_subsequent_number c2); auto.
      destruct (is_subsequent_identifier c2); auto. }
    destruct (scan_dot_rest_types _ _ _ _ _ E Ht) as [-> | [-> | ->]]; try exact I.
    apply scan_dot_rest_number in E. cbn. eauto.
  - (* string *)
    destruct (scan_string_rest r false) as [[a1 b1]|] eqn:E; [|discriminate].
    injection H as <- <- <-. apply scan_string_rest_nonempty in E.
    destruct a1 as [|y body]; [congruence|]. cbn. eauto.
  - (* symbol *)
    destruct (span is_subsequent_identifier r) as [a1 b1] eqn:E. injection H as <- <- <-. exact I.
  - (* number *)
    destruct (scan_number_rest r TNumber) as [[a1 t1] b1] eqn:E. injection H as <- <- <-.
    destruct (scan_number_rest_types _ _ _ _ _ E) as [->| ->]; [|exact I].
    apply scan_number_rest_number in E. cbn. eauto.
  - (* comment *)
    destruct (skip_comment r) as [a1 b1]; discriminate.
Qed.
