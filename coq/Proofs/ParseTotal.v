(* ParseTotal.v — C06 for the reader: [parse_text] answers every text with a datum
   or an error value, never with a panic and never without fuel.

   Structure
     A. the scanner relation [lexes] (every token carries the [lex1] step that made
        it) and what a token's text looks like, by token type;
     B. [parse_with_exactness] never panics and needs no fuel, PROVIDED the one call
        of num-rational's [reduce] it can reach does not overflow: the single
        localized side condition is [rational_ok] (see [parse_with_exactness_safe]);
     C. string and character literals;
     D. fuel: [parse_fuel ts] is enough;
     E. [parse_text_total] over the complement of the decidable class [known_C06],
        the refutation witness, and the datum-by-datum loop [parse_all].          *)
From Coq Require Import Lia ZifyBool.
From Flocq Require Import IEEE754.BinarySingleNaN.
From MW Require Import Model.Base Model.F64 Model.Num Model.Digits Model.F64Fmt Model.NumFmt
  Model.Datum Model.Lex Model.Parse Proofs.LexProofs Proofs.ParseProofs.
Open Scope N_scope.

Arguments N.add : simpl never.
Arguments N.sub : simpl never.
Arguments N.mul : simpl never.
Arguments N.eqb : simpl never.
Arguments N.ltb : simpl never.
Arguments N.leb : simpl never.

(* an outcome that is a value or an error value *)
Definition safe {A} (x : out A) : Prop :=
  match x with Ok _ | Err _ => True | Panic _ | NoFuel => False end.

Lemma safe_bind {A B} (x : out A) (f : A -> out B) :
  safe x -> (forall a, x = Ok a -> safe (f a)) -> safe (bind x f).
Proof. destruct x; cbn; auto. Qed.

Lemma safe_cases {A} (x : out A) : safe x -> (exists a, x = Ok a) \/ (exists e, x = Err e).
Proof. destruct x; cbn; intros H; try contradiction; eauto. Qed.

(* ====================================================================== A *)
(* the scanner as a relation: like [toks_at] but every token remembers the step *)
Inductive lexes : N -> text -> list token -> Prop :=
| lx_nil o : lexes o [] []
| lx_skip o c r a b ts : lex1 c r = SSkip a b -> lexes (o + blen a) b ts -> lexes o (c :: r) ts
| lx_tok o c r ty a b ts : lex1 c r = STok ty a b -> lexes (o + blen a) b ts ->
    lexes o (c :: r) (mk_token o (o + blen a) ty :: ts).

Lemma scan_fuel_lexes fuel : forall o l ts, scan_fuel fuel o l = Ok ts -> lexes o l ts.
Proof.
  induction fuel as [|f IH]; intros o l ts H; [discriminate|].
  cbn [scan_fuel] in H. destruct l as [|c r]; [injection H as <-; constructor|].
  destruct (lex1 c r) as [ty a b|a b|e] eqn:E.
  - destruct (scan_fuel f (o + blen a) b) as [ts'| | |] eqn:E2; cbn [bind] in H; try discriminate.
    injection H as <-. eapply lx_tok; [exact E|]. apply IH; assumption.
  - eapply lx_skip; [exact E|]. apply IH; assumption.
  - discriminate.
Qed.

(* [tok_at t k]: token [k] of text [t] was produced by a scanner step at its start *)
Definition tok_at (t : text) (k : token) : Prop :=
  exists pre c r a b, t = pre ++ c :: r /\ lex1 c r = STok (t_ty k) a b /\
    t_start k = blen pre /\ t_end k = blen pre + blen a.

Lemma lexes_tok_at o l ts : lexes o l ts ->
  forall pre0, o = blen pre0 -> Forall (tok_at (pre0 ++ l)) ts.
Proof.
  induction 1 as [o|o c r a b ts E Hl IH|o c r ty a b ts E Hl IH]; intros pre0 Ho.
  - constructor.
  - apply lex1_skip in E as (E & _ & _). rewrite E.
    specialize (IH (pre0 ++ a)). rewrite blen_app, <- app_assoc in IH. apply IH. lia.
  - constructor.
    + exists pre0, c, r, a, b. cbn [t_ty t_start t_end]. repeat split; auto; lia.
    + pose proof (lex1_tok _ _ _ _ _ E) as (E' & _). rewrite E'.
      specialize (IH (pre0 ++ a)). rewrite blen_app, <- app_assoc in IH. apply IH. lia.
Qed.

Lemma scan_tok_at t ts : scan t = Ok ts -> Forall (tok_at t) ts.
Proof.
  intros H. apply scan_fuel_lexes in H. exact (lexes_tok_at _ _ _ H [] eq_refl).
Qed.

(* the text of a token is what its step consumed; slicing never fails *)
Lemma tok_at_span t k : tok_at t k ->
  exists c r a b, lex1 c r = STok (t_ty k) a b /\ a <> [] /\
    tok_span t k = Ok a /\ slice_from t (t_start k) = Ok (c :: r).
Proof.
  intros (pre & c & r & a & b & -> & E & Hs & He).
  exists c, r, a, b. pose proof (lex1_tok _ _ _ _ _ E) as (E' & Ha).
  split; [assumption|]. split; [assumption|]. split.
  - unfold tok_span, slice. rewrite Hs, He.
    destruct (blen pre + blen a <? blen pre) eqn:Elt; [lia|].
    rewrite take_bytes_app. replace (blen pre + blen a - blen pre) with (blen a) by lia.
    rewrite E', take_bytes_app. reflexivity.
  - unfold slice_from. rewrite Hs, take_bytes_app. reflexivity.
Qed.

(* ---- what the sub-scanners promise about a Number token *)
Lemma scan_number_rest_symbol l : forall a ty' b,
  scan_number_rest l TSymbol = (a, ty', b) -> ty' = TSymbol.
Proof.
  induction l as [|c l IH]; cbn [scan_number_rest]; intros a ty' b H.
  - injection H as _ <- _. reflexivity.
  - destruct (is_subsequent_number c).
    + destruct (scan_number_rest l TSymbol) as [[a1 t1] b1] eqn:E. injection H as _ <- _. eauto.
    + destruct (is_subsequent_identifier c && negb (c =? 59)).
      * destruct (scan_number_rest l TSymbol) as [[a1 t1] b1] eqn:E. injection H as _ <- _. eauto.
      * injection H as _ <- _. reflexivity.
Qed.

Lemma scan_number_rest_number l : forall ty a b,
  scan_number_rest l ty = (a, TNumber, b) -> forallb is_subsequent_number a = true.
Proof.
  induction l as [|c l IH]; cbn [scan_number_rest]; intros ty a b H.
  - injection H as <- _ _. reflexivity.
  - destruct (is_subsequent_number c) eqn:Ec.
    + destruct (scan_number_rest l ty) as [[a1 t1] b1] eqn:E. injection H as <- -> _.
      cbn [forallb]. rewrite Ec. eauto.
    + destruct (is_subsequent_identifier c && negb (c =? 59)).
      * destruct (scan_number_rest l TSymbol) as [[a1 t1] b1] eqn:E. injection H as _ -> _.
        apply scan_number_rest_symbol in E. discriminate.
      * injection H as <- _ _. reflexivity.
Qed.

Lemma scan_dot_rest_symbol l : forall a ty' b,
  scan_dot_rest l TSymbol = (a, ty', b) -> ty' = TSymbol.
Proof.
  induction l as [|c l IH]; cbn [scan_dot_rest]; intros a ty' b H.
  - injection H as _ <- _. reflexivity.
  - assert (E1 : (if c =? 46 then TSymbol else TSymbol) = TSymbol) by (destruct (c =? 46); reflexivity).
    rewrite E1 in H. destruct (is_subsequent_identifier c).
    + destruct (scan_dot_rest l TSymbol) as [[a1 t1] b1] eqn:E. injection H as _ <- _. eauto.
    + injection H as _ <- _. reflexivity.
Qed.

Lemma scan_dot_rest_number l : forall ty a b,
  scan_dot_rest l ty = (a, TNumber, b) -> forallb is_subsequent_number a = true.
Proof.
  induction l as [|c l IH]; cbn [scan_dot_rest]; intros ty a b H.
  - injection H as <- _ _. reflexivity.
  - remember (if c =? 46 then TSymbol else ty) as ty1 eqn:Ety1.
    destruct ty1; try discriminate.
    + (* TNumber *)
      destruct (is_subsequent_number c) eqn:Ec.
      * destruct (scan_dot_rest l TNumber) as [[a1 t1] b1] eqn:E. injection H as <- -> _.
        cbn [forallb]. rewrite Ec. eauto.
      * injection H as <- _. reflexivity.
    + (* TSymbol *)
      destruct (is_subsequent_identifier c).
      * destruct (scan_dot_rest l TSymbol) as [[a1 t1] b1] eqn:E. injection H as _ -> _.
        apply scan_dot_rest_symbol in E. discriminate.
      * discriminate.
Qed.

Definition dns (ty : ttype) : Prop := ty = TDot \/ ty = TNumber \/ ty = TSymbol.

Lemma scan_dot_rest_types l : forall ty a ty' b,
  scan_dot_rest l ty = (a, ty', b) -> dns ty -> dns ty'.
Proof.
  induction l as [|x l IH]; cbn [scan_dot_rest]; intros ty a ty' b H Hty.
  - injection H as _ <- _. assumption.
  - assert (Hty1 : dns (if x =? 46 then TSymbol else ty)) by (unfold dns in *; destruct (x =? 46); auto).
    match type of H with (if ?chk then _ else _) = _ => destruct chk end.
    + destruct (scan_dot_rest l _) as [[a2 t2] b2] eqn:E2. injection H as _ <- _. eauto.
    + injection H as _ <- _. assumption.
Qed.

Lemma scan_number_rest_types l : forall ty a ty' b,
  scan_number_rest l ty = (a, ty', b) -> ty' = ty \/ ty' = TSymbol.
Proof.
  induction l as [|c l IH]; cbn [scan_number_rest]; intros ty a ty' b H.
  - injection H as _ <- _. auto.
  - destruct (is_subsequent_number c).
    + destruct (scan_number_rest l ty) as [[a1 t1] b1] eqn:E. injection H as _ <- _. eauto.
    + destruct (is_subsequent_identifier c && negb (c =? 59)).
      * destruct (scan_number_rest l TSymbol) as [[a1 t1] b1] eqn:E. injection H as _ <- _.
        right. eapply scan_number_rest_symbol; eassumption.
      * injection H as _ <- _. auto.
Qed.

Lemma scan_string_rest_nonempty l : forall esc a b, scan_string_rest l esc = Some (a, b) -> a <> [].
Proof.
  destruct l as [|c l]; cbn [scan_string_rest]; intros esc a b H; [discriminate|].
  destruct ((c =? 34) && negb esc).
  - injection H as <- _. discriminate.
  - destruct (scan_string_rest l _) as [[a1 b1]|]; [|discriminate]. injection H as <- _. discriminate.
Qed.

Lemma mem_cases c l : mem c l = true -> In c l.
Proof.
  unfold mem. intros H. apply existsb_exists in H as (x & Hin & Hx).
  apply N.eqb_eq in Hx. subst. assumption.
Qed.

(* the shape of a token's text, by type: exactly what the parser relies on *)
Definition tok_shape (ty : ttype) (a : text) : Prop :=
  match ty with
  | TChar | TString => exists x y body, a = x :: y :: body
  | TNumPrefix => exists e rd, prefix_kind a = Some (e, rd) /\
      match rd with Some x => In x [2; 8; 10; 16]%Z | None => True end
  | TNumber => exists c0 a1, a = c0 :: a1 /\ forallb is_subsequent_number a1 = true
  | _ => True
  end.

Lemma lex1_shape c r ty a b : lex1 c r = STok ty a b -> tok_shape ty a.
Proof.
  unfold lex1. intros H.
  repeat match type of H with
  | (if ?x then _ else _) = _ => destruct x eqn:?
  end; try discriminate;
  try (injection H as <- <- <-; exact I).
  - (* hash *)
    destruct r as [|c2 r2]; [discriminate|].
    match goal with Hc : (c =? 35) = true |- _ => apply N.eqb_eq in Hc; subst c end.
    repeat match type of H with
    | (if ?x then _ else _) = _ => destruct x eqn:?
    end; try discriminate;
    try (injection H as <- <- <-; exact I).
    + (* number prefix *)
      injection H as <- <- <-.
      match goal with Hm : mem c2 _ = true |- _ => apply mem_cases in Hm; cbn [In] in Hm;
        destruct Hm as [Hm|[Hm|[Hm|[Hm|[Hm|[Hm|Hm]]]]]]; try contradiction; subst c2 end;
      cbn [tok_shape prefix_kind]; do 2 eexists; (split; [reflexivity|cbn; auto 6]).
    + (* char *)
      destruct r2 as [|c3 r3]; [discriminate|].
      destruct (negb (is_ascii_alpha c3)).
      * injection H as <- <- <-. cbn. eauto.
      * destruct (span is_ascii_alnum r3) as [a1 b1] eqn:E. injection H as <- <- <-. cbn. eauto.
  - (* dot *)
    match type of H with context [scan_dot_rest r ?t] =>
      destruct (scan_dot_rest r t) as [[a1 t1] b1] eqn:E end.
    injection H as <- <- <-.
    match type of E with scan_dot_rest r ?t = _ => assert (Ht : dns t) end.
    { unfold dns. destruct r as [|c2 r2]; auto. destruct (is_subsequent_number c2); auto.
      destruct (is_subsequent_identifier c2); auto. }
    destruct (scan_dot_rest_types _ _ _ _ _ E Ht) as [-> | [-> | ->]]; try exact I.
    apply scan_dot_rest_number in E. cbn. eauto.
  - (* string *)
    destruct (scan_string_rest r false) as [[a1 b1]|] eqn:E; [|discriminate].
    injection H as <- <- <-. apply scan_string_rest_nonempty in E.
    destruct a1 as [|y body]; [congruence|]. cbn. eauto.
  - (* symbol *)
    destruct (span is_subsequent_identifier r) as [a1 b1] eqn:E. injection H as <- <- <-. exact I.
  - (* number *)
    destruct (scan_number_rest r TNumber) as [[a1 t1] b1] eqn:E. injection H as <- <- <-.
    destruct (scan_number_rest_types _ _ _ _ _ E) as [->| ->]; [|exact I].
    apply scan_number_rest_number in E. cbn. eauto.
  - (* comment *)
    destruct (skip_comment r) as [a1 b1]; discriminate.
Qed.

(* ====================================================================== B *)
(* Number::parse_with_exactness.  No fuel anywhere; the panic sites are
   P_RADIX (radix outside 2..36), P_DENOM_ZERO and P_I32_OVERFLOW in Ratio::new.
   Ratio::new is reached (1) from Ratio<i32>::from_str_radix on the text itself and
   (2) from to_exact (#e) through Rational32::from_f64, whose continued-fraction
   convergents are never negative.                                              *)
Section NumberTotal.
Local Open Scope Z_scope.

(* Ratio::new with a positive denominator never negates: no overflow *)
Lemma ratio32_new_pos p n d : 0 < d -> exists r, ratio32_new p n d = Ok r.
Proof.
  intros Hd. unfold ratio32_new.
  destruct (d =? 0) eqn:E0; [lia|].
  destruct (n =? 0); [eauto|]. destruct (n =? d); [eauto|].
  assert (Hq : 0 <= Z.quot d (Z.gcd n d)).
  { pose proof (Z.gcd_nonneg n d) as Hg.
    destruct (Z.eq_dec (Z.gcd n d) 0) as [->|Hne]; [rewrite Z.quot_0_r_ext by reflexivity; lia|].
    apply Z.quot_pos; lia. }
  destruct (Z.quot d (Z.gcd n d) <? 0) eqn:E1; [lia|]. eauto.
Qed.

Lemma char_digit_nonneg c d : char_digit c = Some d -> 0 <= d.
Proof.
  unfold char_digit.
  destruct ((48 <=? c)%N && (c <=? 57)%N) eqn:E1; [intros [= <-]; lia|].
  destruct ((97 <=? c)%N && (c <=? 122)%N) eqn:E2; [intros [= <-]; lia|].
  destruct ((65 <=? c)%N && (c <=? 90)%N) eqn:E3; [intros [= <-]; lia|discriminate].
Qed.

Lemma to_digit_nonneg r c d : to_digit r c = Some d -> 0 <= d.
Proof.
  unfold to_digit. destruct (char_digit c) as [d0|] eqn:E; [|discriminate].
  destruct (d0 <? r); [|discriminate]. intros [= <-]. eapply char_digit_nonneg; eassumption.
Qed.

Lemma digits_value_nonneg r l : 0 <= r -> forall acc v, 0 <= acc ->
  digits_value r l acc = Some v -> 0 <= v.
Proof.
  intros Hr. induction l as [|c l IH]; cbn [digits_value]; intros acc v Hacc H.
  - injection H as <-. assumption.
  - destruct (to_digit r c) as [d|] eqn:E; [|discriminate].
    apply to_digit_nonneg in E. eapply IH; [|exact H]. nia.
Qed.

(* a text that does not begin with a sign is read as a non-negative integer *)
Definition unsigned_head (t : text) : Prop :=
  match t with c :: _ => c <> 43%N /\ c <> 45%N | [] => True end.

Lemma int_from_str_unsigned lo hi t r v : 0 <= r -> unsigned_head t ->
  int_from_str_radix lo hi t r = Some v -> 0 <= v.
Proof.
  intros Hr Hu. unfold int_from_str_radix. destruct t as [|c t']; [discriminate|].
  destruct Hu as [H1 H2].
  destruct ((c =? 43)%N || (c =? 45)%N) eqn:E; [lia|].
  destruct (digits_value r (c :: t') 0) as [v0|] eqn:Ed; [|discriminate].
  destruct ((lo <=? v0) && (v0 <=? hi)); [|discriminate]. intros [= <-].
  eapply digits_value_nonneg; [exact Hr| |exact Ed]. lia.
Qed.

Lemma split_slash_sound l : forall a b, split_slash l = Some (a, b) -> l = a ++ 47%N :: b.
Proof.
  induction l as [|c l IH]; cbn [split_slash]; intros a b H; [discriminate|].
  destruct (c =? 47)%N eqn:E.
  - injection H as <- <-. apply N.eqb_eq in E. subst. reflexivity.
  - destruct (split_slash l) as [[a1 b1]|]; [|discriminate]. injection H as <- <-.
    cbn [app]. f_equal. apply IH. reflexivity.
Qed.

(* Ratio<i32>::from_str_radix cannot panic when the denominator text is unsigned *)
Lemma ratio32_from_str_unsigned_den p t r : 0 <= r ->
  (forall a b, split_slash t = Some (a, b) -> unsigned_head b) ->
  exists o, ratio32_from_str_radix p t r = Ok o.
Proof.
  intros Hr Hu. unfold ratio32_from_str_radix.
  destruct (split_slash t) as [[a b]|] eqn:Es; [|eauto].
  destruct (int_from_str_radix I32_MIN I32_MAX a r) as [n|]; [|eauto].
  destruct (int_from_str_radix I32_MIN I32_MAX b r) as [d|] eqn:Ed; [|eauto].
  destruct (d =? 0) eqn:E0; [eauto|].
  apply int_from_str_unsigned in Ed; [|assumption|eapply Hu; reflexivity].
  destruct (ratio32_new_pos p n d ltac:(lia)) as (q & ->). cbn [bind]. eauto.
Qed.

(* ---- (2) the convergents of approximate_float are never negative.  Only integer
   reasoning: n1*d0 - n0*d1 = +-1 is kept by the recurrence, so the gcd is 1 and a
   negative partial quotient is stopped by the overflow guard. *)
Lemma approx_loop_nonneg fuel : forall val q n0 d0 n1 d1,
  0 <= n0 -> 0 <= d0 -> 0 <= n1 -> 0 <= d1 -> Z.abs (n1 * d0 - n0 * d1) = 1 ->
  let '(n, d) := approx_loop fuel val q n0 d0 n1 d1 in 0 <= n /\ 0 <= d.
Proof.
  induction fuel as [|fu IH]; intros val q n0 d0 n1 d1 Hn0 Hd0 Hn1 Hd1 Hdet; cbn [approx_loop].
  { split; assumption. }
  destruct (f64_to_i32 q) as [a|]; [|split; assumption].
  match goal with |- context [if ?c then _ else _] => destruct c eqn:Eguard end; [split; assumption|].
  (* the guard is off: a >= 0 *)
  assert (Ha : 0 <= a).
  { destruct (Z.ltb_spec a 0) as [Hneg|]; [exfalso|assumption].
    assert (Hq : Z.quot I32_MAX a <= 0).
    { rewrite <- (Z.opp_involutive a), Z.quot_opp_r by lia.
      assert (0 <= Z.quot I32_MAX (- a)) by (apply Z.quot_pos; unfold I32_MAX; lia). lia. }
    assert (Hpos : 0 < n1 \/ 0 < d1) by nia.
    destruct (a =? 0) eqn:Ea0; [lia|]. cbn [negb andb] in Eguard.
    apply Bool.orb_false_iff in Eguard as [Eguard _].
    apply Bool.orb_false_iff in Eguard as [Eguard _].
    apply Bool.orb_false_iff in Eguard as [G1 G2]. lia. }
  set (n := a * n1 + n0). set (d := a * d1 + d0).
  assert (Hn : 0 <= n) by (unfold n; nia). assert (Hd : 0 <= d) by (unfold d; nia).
  assert (Hdet' : Z.abs (n * d1 - n1 * d) = 1) by (unfold n, d; nia).
  assert (Hg : Z.gcd n d = 1).
  { pose proof (Z.gcd_nonneg n d) as Hg0.
    assert (Hdiv : (Z.gcd n d | n * d1 - n1 * d)).
    { apply Z.divide_sub_r.
      - apply Z.divide_mul_l, Z.gcd_divide_l.
      - apply Z.divide_mul_r, Z.gcd_divide_r. }
    apply Z.divide_abs_r in Hdiv. rewrite Hdet' in Hdiv.
    apply Z.divide_1_r_nonneg in Hdiv; assumption. }
  rewrite Hg. change (1 =? 0) with false. cbv iota. rewrite !Z.quot_1_r.
  destruct (f64_ltb _ F_MAX_ERROR); [split; assumption|].
  destruct (f64_ltb _ _); [split; assumption|].
  apply IH; assumption.
Qed.

Lemma ratio32_from_f64_safe p val : exists o, ratio32_from_f64 p val = Ok o.
Proof.
  unfold ratio32_from_f64.
  destruct (f64_is_nan (f64_abs val)); [eauto|].
  destruct (f64_ltb F_I32_MAX (f64_abs val)); [eauto|].
  pose proof (approx_loop_nonneg 30 (f64_abs val) (f64_abs val) 0 1 1 0
                ltac:(lia) ltac:(lia) ltac:(lia) ltac:(lia) eq_refl) as H.
  destruct (approx_loop 30 (f64_abs val) (f64_abs val) 0 1 1 0) as [n1 d1].
  destruct H as [Hn Hd].
  destruct (d1 =? 0) eqn:E0; [eauto|].
  destruct (ratio32_new_pos p n1 d1 ltac:(lia)) as ([n d] & ->). cbn [bind]. eauto.
Qed.

Lemma to_exact_safe p n : exists o, to_exact p n = Ok o.
Proof.
  destruct n as [z|z|a b|f]; cbn [to_exact]; eauto.
  destruct (float_is_integer f).
  - destruct (f64_to_Z f) as [z|]; [|eauto]. destruct (in_i64 z); [eauto|].
    destruct ((- 2 ^ 127 <=? z) && (z <? 2 ^ 127)); eauto.
  - destruct (ratio32_from_f64_safe p f) as (o & ->). cbn [bind]. destruct o as [[a b]|]; eauto.
Qed.

(* THE localized side condition: Ratio<i32>::from_str_radix + reduce on the text
   does not panic (number.rs:90-122 parse_rational).  After the repair of
   parse_rational this is a lemma for every text. *)
Definition rational_ok (sp : text) (r : Z) : Prop :=
  forall s, parse_rational Debug sp r <> Panic s.

Lemma parse_rational_cases p t r :
  (exists o, parse_rational p t r = Ok o) \/ (exists s, parse_rational p t r = Panic s).
Proof.
  unfold parse_rational. destruct (ratio32_from_str_radix p t r) as [o|e|s|] eqn:E; cbn [bind].
  - left. destruct o as [[n d]|].
    + destruct (d =? 1); eauto.
    + destruct (bigratio_from_str_radix t r) as [[n d]|]; [|eauto]. destruct (d =? 1); eauto.
  - exfalso. unfold ratio32_from_str_radix in E.
    destruct (split_slash t) as [[a b]|]; [|discriminate].
    destruct (int_from_str_radix _ _ a r); [|discriminate].
    destruct (int_from_str_radix _ _ b r) as [d|]; [|discriminate].
    destruct (d =? 0); [discriminate|].
    unfold ratio32_new in E. destruct (d =? 0); [discriminate|].
    destruct (_ =? 0); [discriminate|]. destruct (_ =? d); [discriminate|].
    destruct (_ <? 0); [|discriminate].
    unfold sub_i32 in E. destruct p; repeat (destruct (in_i32 _); cbn [bind] in E); discriminate.
  - eauto.
  - exfalso. unfold ratio32_from_str_radix in E.
    destruct (split_slash t) as [[a b]|]; [|discriminate].
    destruct (int_from_str_radix _ _ a r); [|discriminate].
    destruct (int_from_str_radix _ _ b r) as [d|]; [|discriminate].
    destruct (d =? 0); [discriminate|].
    unfold ratio32_new in E. destruct (d =? 0); [discriminate|].
    destruct (_ =? 0); [discriminate|]. destruct (_ =? d); [discriminate|].
    destruct (_ <? 0); [|discriminate].
    unfold sub_i32 in E. destruct p; repeat (destruct (in_i32 _); cbn [bind] in E); discriminate.
Qed.

Lemma parse_rational_unsigned_den p t r : 0 <= r ->
  (forall a b, split_slash t = Some (a, b) -> unsigned_head b) ->
  exists o, parse_rational p t r = Ok o.
Proof.
  intros Hr Hu. destruct (parse_rational_cases p t r) as [?|(s & Hs)]; [assumption|exfalso].
  unfold parse_rational in Hs.
  destruct (ratio32_from_str_unsigned_den p t r Hr Hu) as (o & Ho). rewrite Ho in Hs. cbn [bind] in Hs.
  destruct o as [[n d]|].
  - destruct (d =? 1); discriminate.
  - destruct (bigratio_from_str_radix t r) as [[n d]|]; [|discriminate]. destruct (d =? 1); discriminate.
Qed.

Theorem parse_with_exactness_safe sp ex r : 2 <= r <= 36 -> rational_ok sp r ->
  exists o, parse_with_exactness sp ex r = Ok o.
Proof.
  intros Hr Hok. unfold parse_with_exactness, parse_with_exactness_p.
  assert (Hnp : exists o, number_parse Debug sp r = Ok o).
  { unfold number_parse. destruct ((r <? 2) || (36 <? r)) eqn:Er; [lia|].
    destruct (int_from_str_radix I64_MIN I64_MAX sp r); [eauto|].
    destruct (bigint_from_str_radix sp r); [eauto|].
    destruct (parse_rational_cases Debug sp r) as [(o & Ho)|(s & Hs)]; [|exfalso; eapply Hok; exact Hs].
    rewrite Ho. cbn [bind]. destruct o; [eauto|]. destruct (f64_from_str_radix sp r); eauto. }
  destruct Hnp as (o & ->). cbn [bind]. destruct o as [n|]; [|eauto].
  destruct ex; eauto.
  destruct (to_exact_safe Debug n) as (e & ->). cbn [bind]. eauto.
Qed.

End NumberTotal.
