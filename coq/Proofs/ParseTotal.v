(* ParseTotal.v — C06 for the reader: [parse_text] answers every text with a datum
   or an error value, never with a panic and never without fuel.

   Structure
     A. the scanner relation [lexes] (every token carries the [lex1] step that made
        it) and what a token's text looks like, by token type;
     B. [parse_with_exactness] never panics and needs no fuel, PROVIDED the one call
        of num-rational's [reduce] it can reach does not overflow: the single
        localized side condition is [rational_ok] (see [parse_with_exactness_safe]);
     C. string and character literals;
     D. fuel: [parse_fuel ts] is enough;
     E. [parse_text_total] over the complement of the decidable class [known_C06],
        the refutation witness, and the datum-by-datum loop [parse_all].          *)
From Coq Require Import Lia ZifyBool.
From Flocq Require Import IEEE754.BinarySingleNaN.
From MW Require Import Model.Base Model.F64 Model.Num Model.Digits Model.F64Fmt Model.NumFmt
  Model.Datum Model.Lex Model.Parse Proofs.LexProofs Proofs.ParseProofs.
Open Scope N_scope.

Arguments N.add : simpl never.
Arguments N.sub : simpl never.
Arguments N.mul : simpl never.
Arguments N.eqb : simpl never.
Arguments N.ltb : simpl never.
Arguments N.leb : simpl never.

(* an outcome that is a value or an error value *)
Definition safe {A} (x : out A) : Prop :=
  match x with Ok _ | Err _ => True | Panic _ | NoFuel => False end.

Lemma safe_bind {A B} (x : out A) (f : A -> out B) :
  safe x -> (forall a, x = Ok a -> safe (f a)) -> safe (bind x f).
Proof. destruct x; cbn; auto. Qed.

Lemma safe_cases {A} (x : out A) : safe x -> (exists a, x = Ok a) \/ (exists e, x = Err e).
Proof. destruct x; cbn; intros H; try contradiction; eauto. Qed.

(* ====================================================================== A *)
(* the scanner as a relation: like [toks_at] but every token remembers the step *)
Inductive lexes : N -> text -> list token -> Prop :=
| lx_nil o : lexes o [] []
| lx_skip o c r a b ts : lex1 c r = SSkip a b -> lexes (o + blen a) b ts -> lexes o (c :: r) ts
| lx_tok o c r ty a b ts : lex1 c r = STok ty a b -> lexes (o + blen a) b ts ->
    lexes o (c :: r) (mk_token o (o + blen a) ty :: ts).

Lemma scan_fuel_lexes fuel : forall o l ts, scan_fuel fuel o l = Ok ts -> lexes o l ts.
Proof.
  induction fuel as [|f IH]; intros o l ts H; [discriminate|].
  cbn [scan_fuel] in H. destruct l as [|c r]; [injection H as <-; constructor|].
  destruct (lex1 c r) as [ty a b|a b|e] eqn:E.
  - destruct (scan_fuel f (o + blen a) b) as [ts'| | |] eqn:E2; cbn [bind] in H; try discriminate.
    injection H as <-. eapply lx_tok; [exact E|]. apply IH; assumption.
  - eapply lx_skip; [exact E|]. apply IH; assumption.
  - discriminate.
Qed.

(* [tok_at t k]: token [k] of text [t] was produced by a scanner step at its start *)
Definition tok_at (t : text) (k : token) : Prop :=
  exists pre c r a b, t = pre ++ c :: r /\ lex1 c r = STok (t_ty k) a b /\
    t_start k = blen pre /\ t_end k = blen pre + blen a.

Lemma lexes_tok_at o l ts : lexes o l ts ->
  forall pre0, o = blen pre0 -> Forall (tok_at (pre0 ++ l)) ts.
Proof.
  induction 1 as [o|o c r a b ts E Hl IH|o c r ty a b ts E Hl IH]; intros pre0 Ho.
  - constructor.
  - apply lex1_skip in E as (E & _ & _). rewrite E.
    specialize (IH (pre0 ++ a)). rewrite blen_app, <- app_assoc in IH. apply IH. lia.
  - constructor.
    + exists pre0, c, r, a, b. cbn [t_ty t_start t_end]. repeat split; auto; lia.
    + pose proof (lex1_tok _ _ _ _ _ E) as (E' & _). rewrite E'.
      specialize (IH (pre0 ++ a)). rewrite blen_app, <- app_assoc in IH. apply IH. lia.
Qed.

Lemma scan_tok_at t ts : scan t = Ok ts -> Forall (tok_at t) ts.
Proof.
  intros H. apply scan_fuel_lexes in H. exact (lexes_tok_at _ _ _ H [] eq_refl).
Qed.

(* the text of a token is what its step consumed; slicing never fails *)
Lemma tok_at_span t k : tok_at t k ->
  exists c r a b, lex1 c r = STok (t_ty k) a b /\ a <> [] /\
    tok_span t k = Ok a /\ slice_from t (t_start k) = Ok (c :: r).
Proof.
  intros (pre & c & r & a & b & -> & E & Hs & He).
  exists c, r, a, b. pose proof (lex1_tok _ _ _ _ _ E) as (E' & Ha).
  split; [assumption|]. split; [assumption|]. split.
  - unfold tok_span, slice. rewrite Hs, He.
    destruct (blen pre + blen a <? blen pre) eqn:Elt; [lia|].
    rewrite take_bytes_app. replace (blen pre + blen a - blen pre) with (blen a) by lia.
    rewrite E', take_bytes_app. reflexivity.
  - unfold slice_from. rewrite Hs, take_bytes_app. reflexivity.
Qed.

(* ---- what the sub-scanners promise about a Number token *)
Lemma scan_number_rest_symbol l : forall a ty' b,
  scan_number_rest l TSymbol = (a, ty', b) -> ty' = TSymbol.
Proof.
  induction l as [|c l IH]; cbn [scan_number_rest]; intros a ty' b H.
  - injection H as _ <- _. reflexivity.
  - destruct (is_subsequent_number c).
    + destruct (scan_number_rest l TSymbol) as [[a1 t1] b1] eqn:E. injection H as _ <- _. eauto.
    + destruct (is_subsequent_identifier c && negb (c =? 59)).
      * destruct (scan_number_rest l TSymbol) as [[a1 t1] b1] eqn:E. injection H as _ <- _. eauto.
      * injection H as _ <- _. reflexivity.
Qed.

Lemma scan_number_rest_number l : forall ty a b,
  scan_number_rest l ty = (a, TNumber, b) -> forallb is_subsequent_number a = true.
Proof.
  induction l as [|c l IH]; cbn [scan_number_rest]; intros ty a b H.
  - injection H as <- _ _. reflexivity.
  - destruct (is_subsequent_number c) eqn:Ec.
    + destruct (scan_number_rest l ty) as [[a1 t1] b1] eqn:E. injection H as <- -> _.
      cbn [forallb]. rewrite Ec. eauto.
    + destruct (is_subsequent_identifier c && negb (c =? 59)).
      * destruct (scan_number_rest l TSymbol) as [[a1 t1] b1] eqn:E. injection H as _ -> _.
        apply scan_number_rest_symbol in E. discriminate.
      * injection H as <- _ _. reflexivity.
Qed.

Lemma scan_dot_rest_symbol l : forall a ty' b,
  scan_dot_rest l TSymbol = (a, ty', b) -> ty' = TSymbol.
Proof.
  induction l as [|c l IH]; cbn [scan_dot_rest]; intros a ty' b H.
  - injection H as _ <- _. reflexivity.
  - assert (E1 : (if c =? 46 then TSymbol else TSymbol) = TSymbol) by (destruct (c =? 46); reflexivity).
    rewrite E1 in H. destruct (is_subsequent_identifier c).
    + destruct (scan_dot_rest l TSymbol) as [[a1 t1] b1] eqn:E. injection H as _ <- _. eauto.
    + injection H as _ <- _. reflexivity.
Qed.

Lemma scan_dot_rest_number l : forall ty a b,
  scan_dot_rest l ty = (a, TNumber, b) -> forallb is_subsequent_number a = true.
Proof.
  induction l as [|c l IH]; cbn [scan_dot_rest]; intros ty a b H.
  - injection H as <- _ _. reflexivity.
  - remember (if c =? 46 then TSymbol else ty) as ty1 eqn:Ety1.
    destruct ty1; try discriminate.
    + (* TNumber *)
      destruct (is_subsequent_number c) eqn:Ec.
      * destruct (scan_dot_rest l TNumber) as [[a1 t1] b1] eqn:E. injection H as <- -> _.
        cbn [forallb]. rewrite Ec. eauto.
      * injection H as <- _. reflexivity.
    + (* TSymbol *)
      destruct (is_subsequent_identifier c).
      * destruct (scan_dot_rest l TSymbol) as [[a1 t1] b1] eqn:E. injection H as _ -> _.
        apply scan_dot_rest_symbol in E. discriminate.
      * discriminate.
Qed.

Definition dns (ty : ttype) : Prop := ty = TDot \/ ty = TNumber \/ ty = TSymbol.

Lemma scan_dot_rest_types l : forall ty a ty' b,
  scan_dot_rest l ty = (a, ty', b) -> dns ty -> dns ty'.
Proof.
  induction l as [|x l IH]; cbn [scan_dot_rest]; intros ty a ty' b H Hty.
  - injection H as _ <- _. assumption.
  - assert (Hty1 : dns (if x =? 46 then TSymbol else ty)) by (unfold dns in *; destruct (x =? 46); auto).
    match type of H with (if ?chk then _ else _) = _ => destruct chk end.
    + destruct (scan_dot_rest l _) as [[a2 t2] b2] eqn:E2. injection H as _ <- _. eauto.
    + injection H as _ <- _. assumption.
Qed.

Lemma scan_number_rest_types l : forall ty a ty' b,
  scan_number_rest l ty = (a, ty', b) -> ty' = ty \/ ty' = TSymbol.
Proof.
  induction l as [|c l IH]; cbn [scan_number_rest]; intros ty a ty' b H.
  - injection H as _ <- _. auto.
  - destruct (is_subsequent_number c).
    + destruct (scan_number_rest l ty) as [[a1 t1] b1] eqn:E. injection H as _ <- _. eauto.
    + destruct (is_subsequent_identifier c && negb (c =? 59)).
      * destruct (scan_number_rest l TSymbol) as [[a1 t1] b1] eqn:E. injection H as _ <- _.
        right. eapply scan_number_rest_symbol; eassumption.
      * injection H as _ <- _. auto.
Qed.

Lemma scan_string_rest_nonempty l : forall esc a b, scan_string_rest l esc = Some (a, b) -> a <> [].
Proof.
  destruct l as [|c l]; cbn [scan_string_rest]; intros esc a b H; [discriminate|].
  destruct ((c =? 34) && negb esc).
  - injection H as <- _. discriminate.
  - destruct (scan_string_rest l _) as [[a1 b1]|]; [|discriminate]. injection H as <- _. discriminate.
Qed.

Lemma mem_cases c l : mem c l = true -> In c l.
Proof.
  unfold mem. intros H. apply existsb_exists in H as (x & Hin & Hx).
  apply N.eqb_eq in Hx. subst. assumption.
Qed.

(* the shape of a token's text, by type: exactly what the parser relies on *)
Definition tok_shape (ty : ttype) (a : text) : Prop :=
  match ty with
  | TChar | TString => exists x y body, a = x :: y :: body
  | TNumPrefix => exists e rd, prefix_kind a = Some (e, rd) /\
      match rd with Some x => In x [2; 8; 10; 16]%Z | None => True end
  | TNumber => exists c0 a1, a = c0 :: a1 /\ forallb is_subsequent_number a1 = true
  | _ => True
  end.

Lemma lex1_shape c r ty a b : lex1 c r = STok ty a b -> tok_shape ty a.
Proof.
  unfold lex1. intros H.
  repeat match type of H with
  | (if ?x then _ else _) = _ => destruct x eqn:?
  end; try discriminate;
  try (injection H as <- <- <-; exact I).
  - (* hash *)
    destruct r as [|c2 r2]; [discriminate|].
    match goal with Hc : (c =? 35) = true |- _ => apply N.eqb_eq in Hc; subst c end.
    repeat match type of H with
    | (if ?x then _ else _) = _ => destruct x eqn:?
    end; try discriminate;
    try (injection H as <- <- <-; exact I).
    + (* number prefix *)
      injection H as <- <- <-.
      match goal with Hm : mem c2 _ = true |- _ => apply mem_cases in Hm; cbn [In] in Hm;
        destruct Hm as [Hm|[Hm|[Hm|[Hm|[Hm|[Hm|Hm]]]]]]; try contradiction; subst c2 end;
      cbn [tok_shape prefix_kind]; do 2 eexists; (split; [reflexivity|cbn; auto 6]).
    + (* char *)
      destruct r2 as [|c3 r3]; [discriminate|].
      destruct (negb (is_ascii_alpha c3)).
      * injection H as <- <- <-. cbn. eauto.
      * destruct (span is_ascii_alnum r3) as [a1 b1] eqn:E. injection H as <- <- <-. cbn. eauto.
  - (* dot *)
    match type of H with context [scan_dot_rest r ?t] =>
      destruct (scan_dot_rest r t) as [[a1 t1] b1] eqn:E end.
    injection H as <- <- <-.
    match type of E with scan_dot_rest r ?t = _ => assert (Ht : dns t) end.
    { unfold dns. destruct r as [|c2 r2]; auto. destruct (is_subsequent_number c2); auto.
      destruct (is_subsequent_identifier c2); auto. }
    destruct (scan_dot_rest_types _ _ _ _ _ E Ht) as [-> | [-> | ->]]; try exact I.
    apply scan_dot_rest_number in E. cbn. eauto.
  - (* string *)
    destruct (scan_string_rest r false) as [[a1 b1]|] eqn:E; [|discriminate].
    injection H as <- <- <-. apply scan_string_rest_nonempty in E.
    destruct a1 as [|y body]; [congruence|]. cbn. eauto.
  - (* symbol *)
    destruct (span is_subsequent_identifier r) as [a1 b1] eqn:E. injection H as <- <- <-. exact I.
  - (* number *)
    destruct (scan_number_rest r TNumber) as [[a1 t1] b1] eqn:E. injection H as <- <- <-.
    destruct (scan_number_rest_types _ _ _ _ _ E) as [->| ->]; [|exact I].
    apply scan_number_rest_number in E. cbn. eauto.
  - (* comment *)
    destruct (skip_comment r) as [a1 b1]; discriminate.
Qed.

(* ====================================================================== B *)
(* Number::parse_with_exactness.  No fuel anywhere; the panic sites are
   P_RADIX (radix outside 2..36), P_DENOM_ZERO and P_I32_OVERFLOW in Ratio::new.
   Ratio::new is reached (1) from Ratio<i32>::from_str_radix on the text itself and
   (2) from to_exact (#e) through Rational32::from_f64, whose continued-fraction
   convergents are never negative.                                              *)
Section NumberTotal.
Local Open Scope Z_scope.

(* Ratio::new with a positive denominator never negates: no overflow *)
Lemma ratio32_new_pos p n d : 0 < d -> exists r, ratio32_new p n d = Ok r.
Proof.
  intros Hd. unfold ratio32_new.
  destruct (d =? 0) eqn:E0; [lia|].
  destruct (n =? 0); [eauto|]. destruct (n =? d); [eauto|].
  assert (Hq : 0 <= Z.quot d (Z.gcd n d)).
  { pose proof (Z.gcd_nonneg n d) as Hg.
    destruct (Z.eq_dec (Z.gcd n d) 0) as [->|Hne]; [rewrite Z.quot_0_r_ext by reflexivity; lia|].
    apply Z.quot_pos; lia. }
  destruct (Z.quot d (Z.gcd n d) <? 0) eqn:E1; [lia|]. eauto.
Qed.

Lemma char_digit_nonneg c d : char_digit c = Some d -> 0 <= d.
Proof.
  unfold char_digit.
  destruct ((48 <=? c)%N && (c <=? 57)%N) eqn:E1; [intros [= <-]; lia|].
  destruct ((97 <=? c)%N && (c <=? 122)%N) eqn:E2; [intros [= <-]; lia|].
  destruct ((65 <=? c)%N && (c <=? 90)%N) eqn:E3; [intros [= <-]; lia|discriminate].
Qed.

Lemma to_digit_nonneg r c d : to_digit r c = Some d -> 0 <= d.
Proof.
  unfold to_digit. destruct (char_digit c) as [d0|] eqn:E; [|discriminate].
  destruct (d0 <? r); [|discriminate]. intros [= <-]. eapply char_digit_nonneg; eassumption.
Qed.

Lemma digits_value_nonneg r l : 0 <= r -> forall acc v, 0 <= acc ->
  digits_value r l acc = Some v -> 0 <= v.
Proof.
  intros Hr. induction l as [|c l IH]; cbn [digits_value]; intros acc v Hacc H.
  - injection H as <-. assumption.
  - destruct (to_digit r c) as [d|] eqn:E; [|discriminate].
    apply to_digit_nonneg in E. eapply IH; [|exact H]. nia.
Qed.

(* a text that does not begin with a sign is read as a non-negative integer *)
Definition unsigned_head (t : text) : Prop :=
  match t with c :: _ => c <> 43%N /\ c <> 45%N | [] => True end.

Lemma int_from_str_unsigned lo hi t r v : 0 <= r -> unsigned_head t ->
  int_from_str_radix lo hi t r = Some v -> 0 <= v.
Proof.
  intros Hr Hu. unfold int_from_str_radix. destruct t as [|c t']; [discriminate|].
  destruct Hu as [H1 H2].
  destruct ((c =? 43)%N || (c =? 45)%N) eqn:E; [lia|].
  destruct (digits_value r (c :: t') 0) as [v0|] eqn:Ed; [|discriminate].
  destruct ((lo <=? v0) && (v0 <=? hi)); [|discriminate]. intros [= <-].
  eapply digits_value_nonneg; [exact Hr| |exact Ed]. lia.
Qed.

Lemma split_slash_sound l : forall a b, split_slash l = Some (a, b) -> l = a ++ 47%N :: b.
Proof.
  induction l as [|c l IH]; cbn [split_slash]; intros a b H; [discriminate|].
  destruct (c =? 47)%N eqn:E.
  - injection H as <- <-. apply N.eqb_eq in E. subst. reflexivity.
  - destruct (split_slash l) as [[a1 b1]|]; [|discriminate]. injection H as <- <-.
    cbn [app]. f_equal. apply IH. reflexivity.
Qed.

(* Ratio<i32>::from_str_radix cannot panic when the denominator text is unsigned *)
Lemma ratio32_from_str_unsigned_den p t r : 0 <= r ->
  (forall a b, split_slash t = Some (a, b) -> unsigned_head b) ->
  exists o, ratio32_from_str_radix p t r = Ok o.
Proof.
  intros Hr Hu. unfold ratio32_from_str_radix.
  destruct (split_slash t) as [[a b]|] eqn:Es; [|eauto].
  destruct (int_from_str_radix I32_MIN I32_MAX a r) as [n|]; [|eauto].
  destruct (int_from_str_radix I32_MIN I32_MAX b r) as [d|] eqn:Ed; [|eauto].
  destruct (d =? 0) eqn:E0; [eauto|].
  apply int_from_str_unsigned in Ed; [|assumption|eapply Hu; reflexivity].
  destruct (ratio32_new_pos p n d ltac:(lia)) as (q & ->). cbn [bind]. eauto.
Qed.

(* ---- (2) the convergents of approximate_float are never negative.  Only integer
   reasoning: n1*d0 - n0*d1 = +-1 is kept by the recurrence, so the gcd is 1 and a
   negative partial quotient is stopped by the overflow guard. *)
Lemma approx_loop_nonneg fuel : forall val q n0 d0 n1 d1,
  0 <= n0 -> 0 <= d0 -> 0 <= n1 -> 0 <= d1 -> Z.abs (n1 * d0 - n0 * d1) = 1 ->
  let '(n, d) := approx_loop fuel val q n0 d0 n1 d1 in 0 <= n /\ 0 <= d.
Proof.
  induction fuel as [|fu IH]; intros val q n0 d0 n1 d1 Hn0 Hd0 Hn1 Hd1 Hdet; cbn [approx_loop].
  { split; assumption. }
  destruct (f64_to_i32 q) as [a|]; [|split; assumption].
  match goal with |- context [if ?c then _ else _] => destruct c eqn:Eguard end; [split; assumption|].
  (* the guard is off: a >= 0 *)
  assert (Ha : 0 <= a).
  { destruct (Z.ltb_spec a 0) as [Hneg|]; [exfalso|assumption].
    assert (Hq : Z.quot I32_MAX a <= 0).
    { rewrite <- (Z.opp_involutive a), Z.quot_opp_r by lia.
      assert (0 <= Z.quot I32_MAX (- a)) by (apply Z.quot_pos; unfold I32_MAX; lia). lia. }
    assert (Hpos : 0 < n1 \/ 0 < d1) by nia.
    destruct (a =? 0) eqn:Ea0; [lia|]. cbn [negb andb] in Eguard.
    apply Bool.orb_false_iff in Eguard as [Eguard _].
    apply Bool.orb_false_iff in Eguard as [Eguard _].
    apply Bool.orb_false_iff in Eguard as [G1 G2]. lia. }
  set (n := a * n1 + n0). set (d := a * d1 + d0).
  assert (Hn : 0 <= n) by (unfold n; nia). assert (Hd : 0 <= d) by (unfold d; nia).
  assert (Hdet' : Z.abs (n * d1 - n1 * d) = 1) by (unfold n, d; nia).
  assert (Hg : Z.gcd n d = 1).
  { pose proof (Z.gcd_nonneg n d) as Hg0.
    assert (Hdiv : (Z.gcd n d | n * d1 - n1 * d)).
    { apply Z.divide_sub_r.
      - apply Z.divide_mul_l, Z.gcd_divide_l.
      - apply Z.divide_mul_r, Z.gcd_divide_r. }
    apply Z.divide_abs_r in Hdiv. rewrite Hdet' in Hdiv.
    apply Z.divide_1_r_nonneg in Hdiv; assumption. }
  rewrite Hg. change (1 =? 0) with false. cbv iota. rewrite !Z.quot_1_r.
  destruct (f64_ltb _ F_MAX_ERROR); [split; assumption|].
  destruct (f64_ltb _ _); [split; assumption|].
  apply IH; assumption.
Qed.

Lemma ratio32_from_f64_safe p val : exists o, ratio32_from_f64 p val = Ok o.
Proof.
  unfold ratio32_from_f64.
  destruct (f64_is_nan (f64_abs val)); [eauto|].
  destruct (f64_ltb F_I32_MAX (f64_abs val)); [eauto|].
  pose proof (approx_loop_nonneg 30 (f64_abs val) (f64_abs val) 0 1 1 0
                ltac:(lia) ltac:(lia) ltac:(lia) ltac:(lia) eq_refl) as H.
  destruct (approx_loop 30 (f64_abs val) (f64_abs val) 0 1 1 0) as [n1 d1].
  destruct H as [Hn Hd].
  destruct (d1 =? 0) eqn:E0; [eauto|].
  destruct (ratio32_new_pos p n1 d1 ltac:(lia)) as ([n d] & ->). cbn [bind]. eauto.
Qed.

Lemma to_exact_safe p n : exists o, to_exact p n = Ok o.
Proof.
  destruct n as [z|z|a b|f]; cbn [to_exact]; eauto.
  destruct (float_is_integer f).
  - destruct (f64_to_Z f) as [z|]; [|eauto]. destruct (in_i64 z); [eauto|].
    destruct ((- 2 ^ 127 <=? z) && (z <? 2 ^ 127)); eauto.
  - destruct (ratio32_from_f64_safe p f) as (o & ->). cbn [bind]. destruct o as [[a b]|]; eauto.
Qed.

(* THE localized side condition: Ratio<i32>::from_str_radix + reduce on the text
   does not panic (number.rs:90-122 parse_rational).  After the repair of
   parse_rational this is a lemma for every text. *)
Definition rational_ok (sp : text) (r : Z) : Prop :=
  forall s, parse_rational Debug sp r <> Panic s.

Lemma parse_rational_cases p t r :
  (exists o, parse_rational p t r = Ok o) \/ (exists s, parse_rational p t r = Panic s).
Proof.
  unfold parse_rational. destruct (signed_denominator t); [eauto|].
  destruct (ratio32_from_str_radix p t r) as [o|e|s|] eqn:E; cbn [bind].
  - left. destruct o as [[n d]|].
    + destruct (d =? 1); eauto.
    + destruct (bigratio_from_str_radix t r) as [[n d]|]; [|eauto]. destruct (d =? 1); eauto.
  - exfalso. unfold ratio32_from_str_radix in E.
    destruct (split_slash t) as [[a b]|]; [|discriminate].
    destruct (int_from_str_radix _ _ a r); [|discriminate].
    destruct (int_from_str_radix _ _ b r) as [d|]; [|discriminate].
    destruct (d =? 0); [discriminate|].
    unfold ratio32_new in E. destruct (d =? 0); [discriminate|].
    destruct (_ =? 0); [discriminate|]. destruct (_ =? d); [discriminate|].
    destruct (_ <? 0); [|discriminate].
    unfold sub_i32 in E. destruct p; repeat (destruct (in_i32 _); cbn [bind] in E); discriminate.
  - eauto.
  - exfalso. unfold ratio32_from_str_radix in E.
    destruct (split_slash t) as [[a b]|]; [|discriminate].
    destruct (int_from_str_radix _ _ a r); [|discriminate].
    destruct (int_from_str_radix _ _ b r) as [d|]; [|discriminate].
    destruct (d =? 0); [discriminate|].
    unfold ratio32_new in E. destruct (d =? 0); [discriminate|].
    destruct (_ =? 0); [discriminate|]. destruct (_ =? d); [discriminate|].
    destruct (_ <? 0); [|discriminate].
    unfold sub_i32 in E. destruct p; repeat (destruct (in_i32 _); cbn [bind] in E); discriminate.
Qed.

Lemma parse_rational_unsigned_den p t r : 0 <= r ->
  (forall a b, split_slash t = Some (a, b) -> unsigned_head b) ->
  exists o, parse_rational p t r = Ok o.
Proof.
  intros Hr Hu. destruct (parse_rational_cases p t r) as [?|(s & Hs)]; [assumption|exfalso].
  unfold parse_rational in Hs. destruct (signed_denominator t); [discriminate|].
  destruct (ratio32_from_str_unsigned_den p t r Hr Hu) as (o & Ho). rewrite Ho in Hs. cbn [bind] in Hs.
  destruct o as [[n d]|].
  - destruct (d =? 1); discriminate.
  - destruct (bigratio_from_str_radix t r) as [[n d]|]; [|discriminate]. destruct (d =? 1); discriminate.
Qed.

(* after fix e424813 the side condition holds for every text: a signed denominator is
   rejected before Ratio<i32>::from_str_radix is reached, and an unsigned one cannot
   make reduce() negate *)
Lemma rational_ok_all sp r : 0 <= r -> rational_ok sp r.
Proof.
  intros Hr s Hs. destruct (signed_denominator sp) eqn:Esd.
  - unfold parse_rational in Hs. rewrite Esd in Hs. discriminate.
  - destruct (parse_rational_unsigned_den Debug sp r Hr) as (o & Ho); [|congruence].
    intros a b Hab. unfold signed_denominator in Esd. rewrite Hab in Esd.
    destruct b as [|c b']; [exact I|]. cbn [unsigned_head].
    apply Bool.orb_false_elim in Esd as [E1 E2]. apply N.eqb_neq in E1, E2. auto.
Qed.

Theorem parse_with_exactness_safe sp ex r : 2 <= r <= 36 -> rational_ok sp r ->
  exists o, parse_with_exactness sp ex r = Ok o.
Proof.
  intros Hr Hok. unfold parse_with_exactness, parse_with_exactness_p.
  assert (Hnp : exists o, number_parse Debug sp r = Ok o).
  { unfold number_parse. destruct ((r <? 2) || (36 <? r)) eqn:Er; [lia|].
    destruct (int_from_str_radix I64_MIN I64_MAX sp r); [eauto|].
    destruct (bigint_from_str_radix sp r); [eauto|].
    destruct (parse_rational_cases Debug sp r) as [(o & Ho)|(s & Hs)]; [|exfalso; eapply Hok; exact Hs].
    rewrite Ho. cbn [bind]. destruct o; [eauto|]. destruct (f64_from_str_radix sp r); eauto. }
  destruct Hnp as (o & ->). cbn [bind]. destruct o as [n|]; [|eauto].
  destruct ex; eauto.
  destruct (to_exact_safe Debug n) as (e & ->). cbn [bind]. eauto.
Qed.

End NumberTotal.

(* ====================================================================== C *)
(* string literals: fuel = length is enough; character literals: no panic on a
   text of at least two characters *)
Lemma parse_string_hex_cases l : forall acc,
  (exists v r3, parse_string_hex l acc = Ok (v, r3) /\ (length r3 <= length l)%nat /\ r3 <> [])
  \/ (exists e, parse_string_hex l acc = Err e).
Proof.
  induction l as [|c r IH]; intros acc; cbn [parse_string_hex]; [right; eauto|].
  destruct (c =? 59).
  { left. exists acc, (c :: r). split; [reflexivity|]. split; [lia|discriminate]. }
  destruct (is_hex c); [|right; eauto].
  destruct (4294967295 <? acc * 16); [right; eauto|].
  destruct (4294967295 <? acc * 16 + hex_val c); [right; eauto|].
  destruct (IH (acc * 16 + hex_val c)) as [(v & r3 & H & Hl & Hne)|(e & H)].
  - left. exists v, r3. split; [assumption|]. split; [cbn [length]; lia|assumption].
  - right. eauto.
Qed.

Lemma parse_string_fuel_safe fuel : forall l acc, (length l <= fuel)%nat ->
  safe (parse_string_fuel fuel l acc).
Proof.
  induction fuel as [|f IH]; intros l acc Hl; cbn [parse_string_fuel].
  { destruct l; [exact I|cbn [length] in Hl; lia]. }
  destruct l as [|c r]; [exact I|]. cbn [length] in Hl.
  destruct (c =? 92); [|apply IH; lia].
  destruct r as [|e r2]; [exact I|]. cbn [length] in Hl.
  destruct (e =? 120); [|apply IH; lia].
  destruct (parse_string_hex_cases r2 0) as [(v & r3 & H & Hl3 & Hne)|(e' & H)]; rewrite H; cbn [bind]; [|exact I].
  destruct (is_scalar v); [|exact I]. apply IH.
  destruct r3 as [|x r3']; [congruence|]. cbn [tl length] in *. lia.
Qed.

Lemma parse_string_safe inner : safe (parse_string inner).
Proof.
  unfold parse_string. apply safe_bind; [apply parse_string_fuel_safe; lia|]. intros; exact I.
Qed.

Lemma parse_char_safe a : (exists x y body, a = x :: y :: body) -> safe (parse_char a).
Proof.
  intros (x & y & body & ->). unfold parse_char.
  repeat match goal with
  | |- safe (match ?x with _ => _ end) => destruct x
  end; exact I.
Qed.

(* ====================================================================== D *)
(* the known class (decidable): a token directly after a number-prefix token whose
   text makes Ratio<i32>::from_str_radix + reduce panic in one of the radices a
   prefix can select *)
Definition rational_panics (sp : text) : bool :=
  existsb (fun r => match parse_rational Debug sp r with Panic _ => true | _ => false end)
          [2; 8; 10; 16]%Z.

Fixpoint prefixed_panics (t : text) (ts : list token) : bool :=
  match ts with
  | [] => false
  | k :: r =>
      (ttype_eqb (t_ty k) TNumPrefix &&
       match r with
       | k' :: _ => match tok_span t k' with Ok sp => rational_panics sp | _ => false end
       | [] => false
       end) || prefixed_panics t r
  end.

Definition known_C06 (t : text) : bool :=
  match scan t with Ok ts => prefixed_panics t ts | _ => false end.

Lemma rational_panics_ok sp r : rational_panics sp = false -> In r [2; 8; 10; 16]%Z -> rational_ok sp r.
Proof.
  unfold rational_panics. intros H Hin s Hs.
  assert (Hex : existsb (fun r => match parse_rational Debug sp r with Panic _ => true | _ => false end)
                  [2; 8; 10; 16]%Z = true).
  { apply existsb_exists. exists r. split; [assumption|]. rewrite Hs. reflexivity. }
  congruence.
Qed.

Lemma prefixed_panics_tail t k r : prefixed_panics t (k :: r) = false -> prefixed_panics t r = false.
Proof. cbn [prefixed_panics]. intros H. apply Bool.orb_false_iff in H as [_ H]. exact H. Qed.

Lemma prefixed_panics_app t u r : prefixed_panics t (u ++ r) = false -> prefixed_panics t r = false.
Proof.
  induction u as [|k u IH]; cbn [app]; intros H; [assumption|].
  apply IH. eapply prefixed_panics_tail; eassumption.
Qed.

(* a Number token has no sign after its first character: its denominator is unsigned *)
Lemma number_shape_rational_ok a r : tok_shape TNumber a -> (0 <= r)%Z -> rational_ok a r.
Proof.
  intros (c0 & a1 & -> & Hall) Hr s Hs.
  destruct (parse_rational_unsigned_den Debug (c0 :: a1) r Hr) as (o & Ho); [|congruence].
  intros x y Hsp. apply split_slash_sound in Hsp.
  destruct y as [|c y']; [exact I|]. cbn [unsigned_head].
  assert (Hin : In c a1).
  { destruct x as [|x0 x']; cbn [app] in Hsp; injection Hsp as _ Hsp; subst a1.
    - left; reflexivity.
    - apply in_or_app. right. right. left. reflexivity. }
  rewrite forallb_forall in Hall. specialize (Hall c Hin).
  split; intros ->; vm_compute in Hall; discriminate.
Qed.

Lemma first_char_safe t k : tok_at t k -> exists c, first_char t k = Ok c.
Proof.
  intros Hk. destruct (tok_at_span t k Hk) as (c & r & a & b & E & Ha & Hs & _).
  unfold first_char. rewrite Hs. cbn [bind]. destruct a as [|x a']; [congruence|]. eauto.
Qed.

Lemma parse_number_safe t : forall ts k ex r,
  In r [2; 8; 10; 16]%Z -> tok_at t k -> Forall (tok_at t) ts ->
  prefixed_panics t (k :: ts) = false ->
  (t_ty k <> TNumPrefix -> forall sp, tok_span t k = Ok sp -> rational_ok sp r) ->
  safe (parse_number t k ts ex r).
Proof.
  assert (Hradix : forall r, In r [2; 8; 10; 16]%Z -> (2 <= r <= 36)%Z).
  { intros r Hin. cbn [In] in Hin. lia. }
  assert (Hleaf : forall ts k ex r, In r [2; 8; 10; 16]%Z -> tok_at t k -> t_ty k <> TNumPrefix ->
            (forall sp, tok_span t k = Ok sp -> rational_ok sp r) -> safe (parse_number t k ts ex r)).
  { intros ts k ex r Hr Hk Hty Hok. rewrite parse_number_leaf by assumption.
    destruct (tok_at_span t k Hk) as (c & r0 & a & b & E & Ha & Hs & _). rewrite Hs. cbn [bind].
    destruct (parse_with_exactness_safe a ex r (Hradix r Hr) (Hok a Hs)) as (o & ->). cbn [bind].
    destruct o; exact I. }
  induction ts as [|k' ts IH]; intros k ex r Hr Hk Hts Hpp Hok;
    (destruct (ttype_dec (t_ty k) TNumPrefix) as [Ek|Ek]; [|apply Hleaf; auto]).
  - cbn [parse_number]. rewrite Ek.
    destruct (tok_at_span t k Hk) as (c & r0 & a & b & E & Ha & Hs & _). rewrite Hs. cbn [bind].
    apply lex1_shape in E. rewrite Ek in E. destruct E as (e & rd & -> & _). exact I.
  - cbn [parse_number]. rewrite Ek.
    destruct (tok_at_span t k Hk) as (c & r0 & a & b & E & Ha & Hs & _). rewrite Hs. cbn [bind].
    apply lex1_shape in E. rewrite Ek in E. destruct E as (e & rd & -> & Hrd).
    inversion Hts as [|? ? Hk' Hts']; subst.
    cbn [prefixed_panics] in Hpp. apply Bool.orb_false_iff in Hpp as [Hp1 Hp2].
    rewrite Ek in Hp1. cbn [ttype_eqb andb] in Hp1.
    apply IH; try assumption.
    + destruct rd; assumption.
    + intros _ sp Hsp. rewrite Hsp in Hp1. apply rational_panics_ok; [assumption|]. destruct rd; assumption.
Qed.

(* fuel: parse needs 2n+1 units on n tokens, the list parsers 2n+2 *)
Theorem parse_safe : forall fuel t,
  (forall ts, Forall (tok_at t) ts -> prefixed_panics t ts = false ->
     (2 * length ts + 1 <= fuel)%nat -> safe (parse fuel t ts)) /\
  (forall ts start acc, Forall (tok_at t) ts -> prefixed_panics t ts = false -> tok_at t start ->
     (2 * length ts + 2 <= fuel)%nat -> safe (parse_list fuel t ts start acc)) /\
  (forall ts acc, Forall (tok_at t) ts -> prefixed_panics t ts = false ->
     (2 * length ts + 2 <= fuel)%nat -> safe (parse_vector fuel t ts acc)).
Proof.
  induction fuel as [|f IH]; intros t.
  { split; [|split]; intros; lia. }
  destruct (IH t) as (IHp & IHl & IHv). clear IH.
  (* what is left after a successful parse *)
  assert (Hrest : forall ts d r', Forall (tok_at t) ts -> prefixed_panics t ts = false ->
            parse f t ts = Ok (d, r') ->
            Forall (tok_at t) r' /\ prefixed_panics t r' = false /\ (length r' < length ts)%nat).
  { intros ts d r' Hts Hpp Hp.
    pose proof (proj1 (parse_rest_shorter f t) _ _ _ Hp) as Hlen.
    apply (proj1 (parse_good f t)) in Hp as (used & -> & _).
    split; [eapply Forall_app; eassumption|]. split; [eapply prefixed_panics_app; eassumption|assumption]. }
  split; [|split].
  - (* ------------------------------------------------------------ parse *)
    intros ts Hts Hpp Hf. cbn [parse]. destruct ts as [|k r]; [exact I|].
    inversion Hts as [|? ? Hk Hr]; subst. pose proof (prefixed_panics_tail _ _ _ Hpp) as Hppr.
    cbn [length] in Hf.
    destruct (tok_at_span t k Hk) as (c0 & r0 & a & b & E & Ha & Hs & _).
    pose proof (lex1_shape _ _ _ _ _ E) as Hshape.
    destruct (t_ty k) eqn:Ek; cbv beta iota; try exact I;
      try (apply safe_bind; [apply IHp; [assumption|assumption|lia]|intros [d r'] _; exact I]).
    + (* TChar *)
      rewrite Hs. cbn [bind]. apply safe_bind; [apply parse_char_safe; exact Hshape|intros; exact I].
    + (* TLeft *) apply IHl; try assumption. lia.
    + (* TNumber *)
      apply parse_number_safe; try assumption; [cbn; auto|].
      intros _ sp Hsp. rewrite Hs in Hsp. injection Hsp as <-.
      apply number_shape_rational_ok; [exact Hshape|lia].
    + (* TNumPrefix *)
      apply parse_number_safe; try assumption; [cbn; auto|]. intros Hne; congruence.
    + (* TString *)
      rewrite Hs. cbn [bind]. destruct Hshape as (x & y & body & ->).
      apply safe_bind; [apply parse_string_safe|intros; exact I].
    + (* TSymbol *) rewrite Hs. exact I.
    + (* THashParen *) apply IHv; try assumption. lia.
  - (* ------------------------------------------------------- parse_list *)
    intros ts start acc Hts Hpp Hstart Hf. cbn [parse_list]. destruct ts as [|k r]; [exact I|].
    inversion Hts as [|? ? Hk Hr]; subst. pose proof (prefixed_panics_tail _ _ _ Hpp) as Hppr.
    cbn [length] in Hf.
    assert (Hdefault : safe (do (d, r') <- parse f t (k :: r); parse_list f t r' start (d :: acc))).
    { apply safe_bind; [apply IHp; [assumption|assumption|cbn [length]; lia]|].
      intros [d r'] Hp. destruct (Hrest _ _ _ Hts Hpp Hp) as (H1 & H2 & H3). cbn [length] in H3.
      apply IHl; try assumption. lia. }
    destruct (t_ty k) eqn:Ek; cbv beta iota; try exact Hdefault.
    + (* TDot *)
      destruct acc as [|a0 acc']; [exact I|]. destruct r as [|k2 r2]; [exact I|].
      cbn [length] in Hf.
      destruct (t_ty k2); try exact I;
        (apply safe_bind; [apply IHp; [assumption|assumption|cbn [length]; lia]|];
         intros [d r2'] _; destruct r2' as [|k3 r3]; [exact I|]; destruct (t_ty k3); exact I).
    + (* TRight *)
      destruct (first_char_safe t start Hstart) as (sc & ->).
      destruct (first_char_safe t k Hk) as (ec & ->). cbn [bind].
      match goal with |- safe (if ?c then _ else _) => destruct c end; exact I.
  - (* ----------------------------------------------------- parse_vector *)
    intros ts acc Hts Hpp Hf. cbn [parse_vector]. destruct ts as [|k r]; [exact I|].
    inversion Hts as [|? ? Hk Hr]; subst.
    cbn [length] in Hf.
    assert (Hdefault : safe (do (d, r') <- parse f t (k :: r); parse_vector f t r' (d :: acc))).
    { apply safe_bind; [apply IHp; [assumption|assumption|cbn [length]; lia]|].
      intros [d r'] Hp. destruct (Hrest _ _ _ Hts Hpp Hp) as (H1 & H2 & H3). cbn [length] in H3.
      apply IHv; try assumption. lia. }
    destruct (t_ty k) eqn:Ek; cbv beta iota; try exact Hdefault; try exact I.
    destruct (first_char_safe t k Hk) as (ec & ->). cbn [bind].
    destruct (ec =? 41); exact I.
Qed.

(* ====================================================================== E *)
Definition parse_text_total_stmt : Prop :=
  forall t, (exists d r, parse_text t = Ok (d, r)) \/ (exists e, parse_text t = Err e).

Theorem parse_text_total t : known_C06 t = false ->
  (exists d r, parse_text t = Ok (d, r)) \/ (exists e, parse_text t = Err e).
Proof.
  intros Hk. unfold parse_text, known_C06 in *.
  destruct (scan_total t) as [(ts & Hs)|(e & He)]; [|rewrite He; right; exists e; reflexivity].
  rewrite Hs in *. cbn [bind].
  pose proof (scan_tok_at _ _ Hs) as Hts.
  pose proof (proj1 (parse_safe (parse_fuel ts) t) ts Hts Hk) as Hsafe.
  unfold parse_fuel in *. specialize (Hsafe ltac:(lia)).
  destruct (parse (S (2 * length ts)) t ts) as [[d rest]|e| |] eqn:Ep; try contradiction; cbn [bind];
    [|right; eauto].
  left. destruct rest as [|k rest']; [eauto|].
  apply (proj1 (parse_good _ t)) in Ep as (used & Hu & _).
  assert (Hin : tok_at t k).
  { rewrite Forall_forall in Hts. apply Hts. rewrite Hu. apply in_or_app. right. left. reflexivity. }
  destruct (tok_at_span t k Hin) as (c0 & r0 & a & b & _ & _ & _ & ->). cbn [bind]. eauto.
Qed.

(* the parser proper on scanner output never runs out of the fuel it is given *)
Theorem parse_fuel_enough t ts : scan t = Ok ts -> known_C06 t = false ->
  safe (parse (parse_fuel ts) t ts).
Proof.
  intros Hs Hk. unfold known_C06 in Hk. rewrite Hs in Hk.
  apply (proj1 (parse_safe (parse_fuel ts) t) ts (scan_tok_at _ _ Hs) Hk).
  unfold parse_fuel. lia.
Qed.

(* before fix e424813 the class was not empty ("#d1/-2147483648" panicked in a debug
   build); the former witness now reads as a symbol *)
Example former_witness_is_read :
  parse_text [35; 100; 49; 47; 45; 50; 49; 52; 55; 52; 56; 51; 54; 52; 56]
  = Ok (CSym [49; 47; 45; 50; 49; 52; 55; 52; 56; 51; 54; 52; 56], None).
Proof. vm_compute. reflexivity. Qed.

(* once [rational_ok] holds for every text (after the repair of parse_rational) the
   class is empty and the full statement follows: nothing else has to be redone *)
Lemma known_C06_empty :
  (forall sp r, In r [2; 8; 10; 16]%Z -> rational_ok sp r) -> forall t, known_C06 t = false.
Proof.
  intros Hok t. unfold known_C06. destruct (scan t) as [ts| | |]; try reflexivity.
  assert (Hrp : forall sp, rational_panics sp = false).
  { intros sp. unfold rational_panics.
    destruct (existsb _ _) eqn:E; [|reflexivity]. apply existsb_exists in E as (r & Hin & Hr).
    destruct (parse_rational Debug sp r) eqn:Ep; try discriminate. exfalso. eapply Hok; eassumption. }
  induction ts as [|k r IH]; cbn [prefixed_panics]; [reflexivity|].
  rewrite IH, Bool.orb_false_r. destruct (ttype_eqb (t_ty k) TNumPrefix); [|reflexivity].
  destruct r as [|k' r']; [reflexivity|]. destruct (tok_span t k'); try reflexivity. apply Hrp.
Qed.

Theorem parse_text_total_of_rational_ok :
  (forall sp r, In r [2; 8; 10; 16]%Z -> rational_ok sp r) -> parse_text_total_stmt.
Proof. intros Hok t. apply parse_text_total, known_C06_empty, Hok. Qed.

(* the class is empty and the reader is total on EVERY text *)
Lemma known_C06_never t : known_C06 t = false.
Proof. apply known_C06_empty. intros sp r Hin. apply rational_ok_all. cbn in Hin. lia. Qed.

Theorem parse_text_total_full : parse_text_total_stmt.
Proof. apply parse_text_total_of_rational_ok. intros sp r Hin. apply rational_ok_all. cbn in Hin. lia. Qed.

(* ====================================================================== F *)
(* the remaining text of a successful [parse_text] is again outside the class, and
   shorter: what the datum-by-datum loop of the front ends needs.
   [lexT l xs]: the token types and token texts of [l], independent of offsets. *)
Inductive lexT : text -> list (ttype * text) -> Prop :=
| lt_nil : lexT [] []
| lt_skip c r a b xs : lex1 c r = SSkip a b -> lexT b xs -> lexT (c :: r) xs
| lt_tok c r ty a b xs : lex1 c r = STok ty a b -> lexT b xs -> lexT (c :: r) ((ty, a) :: xs).

Lemma lexT_det l xs : lexT l xs -> forall xs', lexT l xs' -> xs = xs'.
Proof.
  induction 1 as [|c r a b xs E Hl IH|c r ty a b xs E Hl IH]; intros xs' H'; inversion H'; subst;
    try congruence.
  - match goal with H1 : lex1 c r = SSkip ?a' ?b' |- _ => rewrite E in H1; injection H1 as <- <- end. auto.
  - match goal with H1 : lex1 c r = STok ?ty' ?a' ?b' |- _ => rewrite E in H1; injection H1 as <- <- <- end.
    f_equal. auto.
Qed.

Definition tok_is (T : text) (k : token) (x : ttype * text) : Prop :=
  t_ty k = fst x /\ tok_span T k = Ok (snd x).

Lemma lexes_spans o l ts : lexes o l ts -> forall pre0, o = blen pre0 ->
  exists xs, lexT l xs /\ Forall2 (tok_is (pre0 ++ l)) ts xs.
Proof.
  induction 1 as [o|o c r a b ts E Hl IH|o c r ty a b ts E Hl IH]; intros pre0 Ho.
  - exists []. split; constructor.
  - pose proof (lex1_skip _ _ _ _ E) as (E' & _ & _).
    destruct (IH (pre0 ++ a)) as (xs & Hx & Hf); [rewrite blen_app; lia|].
    exists xs. split; [eapply lt_skip; eassumption|]. rewrite E'. rewrite <- app_assoc in Hf. exact Hf.
  - pose proof (lex1_tok _ _ _ _ _ E) as (E' & Ha).
    destruct (IH (pre0 ++ a)) as (xs & Hx & Hf); [rewrite blen_app; lia|].
    exists ((ty, a) :: xs). split; [eapply lt_tok; eassumption|].
    constructor; [|rewrite E'; rewrite <- app_assoc in Hf; exact Hf].
    split; [reflexivity|]. cbn [snd].
    unfold tok_span, slice. cbn [t_start t_end].
    destruct (o + blen a <? o) eqn:Elt; [lia|]. subst o. rewrite take_bytes_app.
    replace (blen pre0 + blen a - blen pre0) with (blen a) by lia.
    rewrite E', take_bytes_app. reflexivity.
Qed.

Lemma lexes_split o l ts : lexes o l ts -> forall pre0 u k r, o = blen pre0 -> ts = u ++ k :: r ->
  exists pre s xs, l = pre ++ s /\ t_start k = blen pre0 + blen pre /\ (u <> [] -> pre <> []) /\
    lexT s xs /\ Forall2 (tok_is (pre0 ++ l)) (k :: r) xs.
Proof.
  induction 1 as [o|o c r0 a b ts E Hl IH|o c r0 ty a b ts E Hl IH]; intros pre0 u k r Ho Hts.
  - destruct u; discriminate.
  - pose proof (lex1_skip _ _ _ _ E) as (E' & Ha & _).
    destruct (IH (pre0 ++ a) u k r) as (pre & s & xs & Hb & Hst & _ & Hx & Hf);
      [rewrite blen_app; lia|assumption|].
    exists (a ++ pre), s, xs. rewrite E', <- app_assoc, Hb.
    split; [reflexivity|]. split; [rewrite blen_app in *; lia|].
    split; [intros _; destruct a; [congruence|discriminate]|]. split; [assumption|].
    rewrite <- app_assoc, Hb in Hf. exact Hf.
  - pose proof (lex1_tok _ _ _ _ _ E) as (E' & Ha).
    destruct u as [|x u'].
    + cbn [app] in Hts. injection Hts as <- <-.
      destruct (lexes_spans o (c :: r0) _ (lx_tok _ _ _ _ _ _ _ E Hl) pre0 Ho) as (xs & Hx & Hf).
      exists [], (c :: r0), xs. cbn [app blen t_start].
      split; [reflexivity|]. split; [lia|]. split; [congruence|]. split; assumption.
    + cbn [app] in Hts. injection Hts as _ Hts.
      destruct (IH (pre0 ++ a) u' k r) as (pre & s & xs & Hb & Hst & _ & Hx & Hf);
        [rewrite blen_app; lia|assumption|].
      exists (a ++ pre), s, xs. rewrite E', <- app_assoc, Hb.
      split; [reflexivity|]. split; [rewrite blen_app in *; lia|].
      split; [intros _; destruct a; [congruence|discriminate]|]. split; [assumption|].
      rewrite <- app_assoc, Hb in Hf. exact Hf.
Qed.

Fixpoint pp_x (xs : list (ttype * text)) : bool :=
  match xs with
  | [] => false
  | x :: r =>
      (ttype_eqb (fst x) TNumPrefix &&
       match r with x' :: _ => rational_panics (snd x') | [] => false end) || pp_x r
  end.

Lemma prefixed_panics_pp_x T ts xs : Forall2 (tok_is T) ts xs -> prefixed_panics T ts = pp_x xs.
Proof.
  induction 1 as [|k x ts xs [Hty Hsp] Hf IH]; cbn [prefixed_panics pp_x]; [reflexivity|].
  rewrite IH, Hty. f_equal. f_equal.
  destruct Hf as [|k' x' ts' xs' [_ Hsp'] _]; [reflexivity|]. rewrite Hsp'. reflexivity.
Qed.

Theorem parse_text_rest t d s : known_C06 t = false -> parse_text t = Ok (d, Some s) ->
  known_C06 s = false /\ (length s < length t)%nat.
Proof.
  intros Hk H. unfold parse_text in H.
  apply bind_ok in H as (ts & Hs & H). apply bind_ok in H as ([d0 rest] & Hp & H).
  destruct rest as [|k rest']; [discriminate|].
  apply bind_ok in H as (s0 & Hsl & H). injection H as _ <-.
  unfold known_C06 in Hk. rewrite Hs in Hk.
  apply (proj1 (parse_good _ t)) in Hp as (used & Hu & Hne & _).
  pose proof (scan_fuel_lexes _ _ _ _ Hs) as Hlex.
  destruct (lexes_split _ _ _ Hlex [] used k rest' eq_refl Hu)
    as (pre & s & xs & Ht & Hst & Hpre & Hx & Hf).
  cbn [app blen] in *.
  assert (s0 = s).
  { unfold slice_from in Hsl. rewrite Hst, Ht in Hsl. replace (0 + blen pre) with (blen pre) in Hsl by lia.
    rewrite take_bytes_app in Hsl. injection Hsl as <-. reflexivity. }
  subst s0. split.
  - unfold known_C06. destruct (scan s) as [ts2| | |] eqn:Hs2; try reflexivity.
    apply scan_fuel_lexes in Hs2.
    destruct (lexes_spans _ _ _ Hs2 [] eq_refl) as (xs2 & Hx2 & Hf2). cbn [app] in Hf2.
    rewrite (prefixed_panics_pp_x _ _ _ Hf2), <- (lexT_det _ _ Hx _ Hx2),
      <- (prefixed_panics_pp_x _ _ _ Hf).
    rewrite Hu in Hk. eapply prefixed_panics_app; eassumption.
  - rewrite Ht. apply app_length_lt. auto.
Qed.
