(* GcIsoSched2.v — C03, part 13: runs under a schedule of collections, whole instruction set. *)
From Coq Require Import Lia List Permutation.
From MW Require Import Model.Base Model.Num Model.VmTypes Model.Heap Model.Gc Model.VmBase Model.Vm
  Proofs.GcProofs Proofs.SymtabProofs Proofs.GcObsProofs Proofs.GcIso Proofs.GcIsoPrim Proofs.GcIsoStep
  Proofs.GcIsoSched Proofs.GcIsoAlloc Proofs.GcIsoHmi Proofs.GcIsoCall Proofs.GcIsoClos Proofs.GcIsoAll.
Open Scope N_scope.

Section SchedAll.
Variable ob : N -> M vcell.
Variable gc : vm -> vm -> Prop.

(* every instruction executed by the plain run is covered (extended set) and leaves a heap that
   fits a usize *)
Fixpoint plain_ok_all (n : nat) (s : vm) : Prop :=
  match n with
  | O => True
  | S k => covered_all ob s /\
           match run_one ob s with
           | ROk false s' => bounded s' /\ plain_ok_all k s'
           | ROk true s' => bounded s'
           | RErr _ _ s' => bounded s'
           | _ => True
           end
  end.

Hypothesis gc_ok : forall s1 s2 s2', related s1 s2 -> gc s2 s2' -> related s1 s2'.
Hypothesis gc_total : forall s1 s2, related s1 s2 -> exists s2', gc s2 s2'.

Theorem sched_unobservable_all : forall sched s1 s2,
  related s1 s2 -> plain_ok_all (length sched) s1 ->
  match run_plain ob (length sched) s1 with
  | ROk b s1' => exists s2', run_sched ob gc sched s2 (ROk b s2') /\ related s1' s2'
  | RErr e msg s1' => exists s2', run_sched ob gc sched s2 (RErr e msg s2') /\ related s1' s2'
  | _ => True
  end.
Proof.
  induction sched as [|b r IH]; intros s1 s2 Rel Hok.
  - cbn [length run_plain]. exists s2. split; [constructor|exact Rel].
  - cbn [length run_plain plain_ok_all] in *. destruct Hok as [Hc Hrest].
    assert (G : exists s0, (if b then gc s2 s0 else s0 = s2) /\ related s1 s0).
    { destruct b; [|exists s2; split; [reflexivity|exact Rel]].
      destruct (gc_total s1 s2 Rel) as [s0 Hg]. exists s0. split; [exact Hg|exact (gc_ok _ _ _ Rel Hg)]. }
    destruct G as (s0 & Hg & [W R0]).
    pose proof (run_one_iso_all ob W s1 s0 R0 Hc) as O. unfold outcome in O.
    destruct (run_one ob s1) as [[|] s1'|e msg s1'| |] eqn:E1; try exact I.
    + destruct (O Hrest) as (a2 & s2' & W' & E2 & _ & R' & Q). red in Q. subst a2.
      exists s2'. split; [|exists W'; exact R'].
      eapply rs_stop; [exact Hg|exact E2|]. intros s' Hx. discriminate.
    + destruct Hrest as [Hb Hk]. destruct (O Hb) as (a2 & s2' & W' & E2 & _ & R' & Q). red in Q. subst a2.
      specialize (IH s1' s2' (ex_intro _ W' R') Hk).
      destruct (run_plain ob (length r) s1') as [b' s1''|e msg s1''| |]; try exact I.
      * destruct IH as (s2'' & Hr & Rel'). exists s2''. split; [|exact Rel'].
        eapply rs_step; [exact Hg|exact E2|exact Hr].
      * destruct IH as (s2'' & Hr & Rel'). exists s2''. split; [|exact Rel'].
        eapply rs_step; [exact Hg|exact E2|exact Hr].
    + destruct (O Hrest) as (s2' & W' & E2 & _ & R').
      exists s2'. split; [|exists W'; exact R'].
      eapply rs_stop; [exact Hg|exact E2|]. intros s' Hx. discriminate.
Qed.
End SchedAll.

(* ------------------------------------------------------------------ the collector on arbitrary worlds *)
(* The invariant under which the collector's edge relation ([GcProofs.cref] / [vref], with the
   asymmetries of heap.rs kept) coincides with the natural one on the state, so that the set
   { a live in W | reach s2 (wf W a) } is closed and a world can be shrunk to it:
   no heap cell holds VLexPtr / VIp (mark does not follow them from a CELL), no VLexEnv occurs
   as a VALUE outside a heap cell (mark_vcell does not traverse it), a global slot is a pointer
   or carries no address and no payload id (only VPtr slots are roots). *)
Definition no_lexenv (v : vcell) : Prop := forall i, v <> VLexEnv i.
Definition followed_cell (c : vcell) : Prop := (forall e i, c <> VLexPtr e i) /\ (forall l i, c <> VIp l i).
Definition slot_ok (v : vcell) : Prop := (exists p, v = VPtr p) \/ (vaddrs v = [] /\ vids v = []).
Record gc_natural (s : vm) : Prop := {
  gn_cells : forall a, allocated (hp s) a -> followed_cell (cell_at (hp s) a);
  gn_acc : no_lexenv (acc s);
  gn_stack : forall i, i <= sp s -> no_lexenv (sget s i);
  gn_slots : Forall slot_ok (g_slots s);
  gn_vecs : forall i l, tget (vecs (st s)) i = Some l -> Forall no_lexenv l;
  gn_envs : forall i l, tget (envs (st s)) i = Some l -> Forall no_lexenv l;
  gn_conts : forall i k, tget (conts (st s)) i = Some k -> Forall no_lexenv (k_stack k);
  gn_lams : forall i l, tget (lams (st s)) i = Some l ->
              Forall no_lexenv (l_bc l) /\ Forall no_lexenv (l_args l) /\ Forall no_lexenv (map fst (l_envmap l))
}.
