(* TailProofs.v — C04: a tail call re-uses the caller's frame.  The frame of a
   procedure invoked with n arguments at base pointer bp occupies
       args:  bp-n+1 .. bp     [bp+1] = Argc n   [bp+2] = Ep   [bp+3] = Ip   [bp+4] = Bp
   and its BASE is bp - n, the stack pointer of its caller before the arguments
   were pushed.  Theorem [tcall_frame_effect]: TCALL with m freshly pushed arguments
   — through either branch of run.rs:204-235 — rebuilds the frame on the SAME base,
   with the caller's return information, at height base + m + 3 whatever n and m. *)
From Coq Require Import Lia FMapPositive.
From MW Require Import Model.Base Model.F64 Model.Num Model.Datum Model.TransformDef Model.Transform
  Model.VmTypes Model.Heap Model.VmBase Model.Compile Model.Vm Proofs.VmProofs0.
Open Scope N_scope.

Definition slot (t : tbl vcell) (i : N) : vcell := match tget t i with Some v => v | None => VUndef end.
Lemma sget_slot s i : sget s i = slot (stack s) i. Proof. reflexivity. Qed.
Lemma slot_tset t i j v : slot (tset t i v) j = if i =? j then v else slot t j.
Proof. unfold slot. rewrite tget_tset. destruct (i =? j); reflexivity. Qed.


(* decide every comparison occurring in the goal, then arithmetic *)
Ltac cmp_cases :=
  repeat match goal with
  | |- context [?a <? ?b] => destruct (N.ltb_spec a b)
  | |- context [?a <=? ?b] => destruct (N.leb_spec a b)
  | |- context [?a =? ?b] => destruct (N.eqb_spec a b)
  end; cbn [andb]; try lia; try reflexivity; try (f_equal; lia).

(* ------------------------------------------------ unfolding the primitives *)
Lemma stack_get_ok i s : i < scap s -> stack_get i s = ROk (sget s i) s.
Proof. intros H. unfold stack_get. apply N.ltb_lt in H. rewrite H. reflexivity. Qed.

Lemma stack_put_ok i v s : i < scap s ->
  stack_put i v s = ROk tt (with_stack s (tset (stack s) i v) (sp s)).
Proof. intros H. unfold stack_put. apply N.ltb_lt in H. rewrite H. reflexivity. Qed.

Lemma stack_get_offset_ok k s : k <= sp s -> sp s - k < scap s ->
  stack_get_offset (- Z.of_N k)%Z s = ROk (sget s (sp s - k)) s.
Proof.
  intros H1 H2. unfold stack_get_offset.
  destruct (Z.of_N (sp s) + - Z.of_N k <? 0)%Z eqn:E; [apply Z.ltb_lt in E; lia|].
  replace (Z.to_N (Z.of_N (sp s) + - Z.of_N k)) with (sp s - k) by lia.
  apply stack_get_ok. exact H2.
Qed.

Lemma push_ok v s : sp s + 1 < scap s ->
  push v s = ROk tt (with_stack s (tset (stack s) (sp s + 1) v) (sp s + 1)).
Proof.
  intros H. unfold push. apply N.ltb_lt in H. rewrite H.
  unfold with_scap, with_stack. cbn. reflexivity.
Qed.

Lemma usub_ok a b s : b <= a -> usub a b s = ROk (a - b) s.
Proof. intros H. unfold usub. destruct (a <? b) eqn:E; [apply N.ltb_lt in E; lia|reflexivity]. Qed.

(* ------------------------------------------------------- the two copy loops *)
(* same-argc branch: for it in 0..argc: stack[bp - it] = stack[sp - 1 - it] *)
Fixpoint copy_tbl (k : nat) (it spv bpv : N) (t : tbl vcell) : tbl vcell :=
  match k with
  | O => t
  | S k' => copy_tbl k' (it + 1) spv bpv (tset t (bpv - it) (slot t (spv - 1 - it)))
  end.

Lemma tcall_copy_ok k : forall it s,
  it + N.of_nat k <= bp s -> it + N.of_nat k <= sp s -> sp s < scap s -> bp s < scap s ->
  tcall_copy k it s = ROk tt (with_stack s (copy_tbl k it (sp s) (bp s) (stack s)) (sp s)).
Proof.
  induction k as [|k IH]; intros it s H1 H2 H3 H4; cbn [tcall_copy copy_tbl].
  - unfold ret, with_stack. destruct s; reflexivity.
  - unfold bindM at 1.
    replace (-1 - Z.of_N it)%Z with (- Z.of_N (1 + it))%Z by lia.
    rewrite stack_get_offset_ok by lia.
    unfold bindM at 1. unfold get_vm. unfold bindM at 1. rewrite usub_ok by lia.
    unfold bindM at 1. rewrite stack_put_ok by lia.
    rewrite IH; cbn [bp sp scap stack with_stack]; try lia.
    replace (sp s - (1 + it)) with (sp s - 1 - it) by lia.
    reflexivity.
Qed.

(* sources lie strictly above every destination: the copy reads original values *)
Lemma copy_tbl_slot k : forall it spv bpv t j,
  it + N.of_nat k <= bpv -> bpv < spv - 1 - (it + N.of_nat k) + 1 ->
  slot (copy_tbl k it spv bpv t) j =
  if (bpv - (it + N.of_nat k) <? j) && (j <=? bpv - it) then slot t (spv - 1 - (bpv - j)) else slot t j.
Proof.
  induction k as [|k IH]; intros it spv bpv t j H1 H2; cbn [copy_tbl].
  - replace (it + N.of_nat 0) with it by lia. cmp_cases.
  - rewrite IH by lia. rewrite !slot_tset.
    replace (it + 1 + N.of_nat k) with (it + N.of_nat (S k)) by lia.
    cmp_cases.
Qed.

(* different-argc branch: after sp := base, for it in (0..argc).rev():
   push(stack[saved_sp - it - 1]) *)
Fixpoint rebuild_tbl (k : nat) (saved_sp p : N) (t : tbl vcell) : tbl vcell :=
  match k with
  | O => t
  | S k' => rebuild_tbl k' saved_sp (p + 1) (tset t (p + 1) (slot t (saved_sp - (N.of_nat k' + 1))))
  end.

Lemma tcall_rebuild_ok k : forall saved_sp s,
  N.of_nat k <= saved_sp -> saved_sp < scap s -> sp s + N.of_nat k < scap s ->
  tcall_rebuild k saved_sp s =
  ROk tt (with_stack s (rebuild_tbl k saved_sp (sp s) (stack s)) (sp s + N.of_nat k)).
Proof.
  induction k as [|k IH]; intros saved_sp s H1 H2 H3; cbn [tcall_rebuild rebuild_tbl].
  - unfold ret, with_stack. replace (sp s + N.of_nat 0) with (sp s) by lia. destruct s; reflexivity.
  - unfold bindM at 1. rewrite usub_ok by lia.
    unfold bindM at 1. rewrite stack_get_ok by lia.
    unfold bindM at 1. rewrite push_ok by lia.
    rewrite IH; cbn [bp sp scap stack with_stack]; try lia.
    replace (sp s + 1 + N.of_nat k) with (sp s + N.of_nat (S k)) by lia.
    reflexivity.
Qed.

(* the slot written in round r (0-based) is p+1+r and receives the ORIGINAL slot
   saved_sp - k + r, because every read index is above every earlier write index *)
Lemma rebuild_tbl_slot k : forall saved_sp p t j,
  N.of_nat k <= saved_sp -> p + 1 <= saved_sp - N.of_nat k ->
  slot (rebuild_tbl k saved_sp p t) j =
  if (p <? j) && (j <=? p + N.of_nat k) then slot t (saved_sp - N.of_nat k + (j - p - 1)) else slot t j.
Proof.
  induction k as [|k IH]; intros saved_sp p t j H1 H2; cbn [rebuild_tbl].
  - replace (p + N.of_nat 0) with p by lia. cmp_cases.
  - rewrite IH by lia. rewrite !slot_tset.
    replace (p + 1 + N.of_nat k) with (p + N.of_nat (S k)) by lia.
    cmp_cases.
Qed.

(* ------------------------------------------------------------ the theorem *)
(* the current frame: n arguments, return information (e, i, b) *)
Definition frame_at (s : vm) (n e : N) (i : N * N) (b : N) : Prop :=
  sget s (bp s + 1) = VArgc n /\ sget s (bp s + 2) = VEp e /\
  sget s (bp s + 3) = VIp (fst i) (snd i) /\ sget s (bp s + 4) = VBp b /\ n <= bp s.

Theorem tcall_frame_effect lam s n e i b m :
  frame_at s n e i b ->
  sget s (sp s) = VArgc m ->          (* the m new arguments are in sp-m .. sp-1 *)
  bp s + 4 + m < sp s ->              (* ... above the current frame *)
  sp s < scap s ->
  let base := bp s - n in
  exists T,
    tcall_frame lam s = ROk false (with_ip (with_bp (with_stack s T (base + m + 3)) b) (lam, 0)) /\
    (forall j, j < m -> slot T (base + 1 + j) = sget s (sp s - m + j)) /\
    slot T (base + m + 1) = VArgc m /\ slot T (base + m + 2) = VEp e /\
    slot T (base + m + 3) = VIp (fst i) (snd i) /\
    (forall j, j <= base -> slot T j = sget s j).
Proof.
  intros (Hargc & Hep & Hip & Hbp & Hn) Hm Habove Hcap base.
  unfold tcall_frame.
  unfold bindM at 1. change 0%Z with (- Z.of_N 0)%Z. rewrite stack_get_offset_ok by lia.
  rewrite N.sub_0_r, Hm. unfold as_argc at 1. unfold bindM at 1. unfold ret at 1.
  unfold bindM at 1. unfold get_vm at 1.
  unfold bindM at 1. rewrite stack_get_ok by lia. rewrite Hargc.
  unfold as_argc at 1. unfold bindM at 1. unfold ret at 1.
  destruct (N.eqb_spec m n) as [->|Hne].
  - (* same argument count: copy in place *)
    unfold bindM at 1. rewrite stack_get_ok by lia. rewrite Hbp.
    unfold bindM at 1. rewrite tcall_copy_ok by lia.
    unfold bindM at 1. unfold set_sp at 1.
    unfold as_bp at 1. unfold bindM at 1. unfold ret at 1.
    unfold bindM at 1. unfold set_bp at 1.
    unfold bindM at 1. unfold set_ip at 1. unfold ret.
    cbn [with_sp with_stack stack sp bp].
    exists (copy_tbl (N.to_nat n) 0 (sp s) (bp s) (stack s)).
    split.
    { unfold with_ip, with_bp, with_stack. cbn. do 2 f_equal. unfold base. lia. }
    assert (Hslot : forall j, slot (copy_tbl (N.to_nat n) 0 (sp s) (bp s) (stack s)) j =
       if (bp s - n <? j) && (j <=? bp s) then slot (stack s) (sp s - 1 - (bp s - j)) else slot (stack s) j).
    { intros j. rewrite copy_tbl_slot by lia. rewrite N.add_0_l, N2Nat.id, N.sub_0_r. reflexivity. }
    unfold base. rewrite <- ?sget_slot in *. rewrite sget_slot in Hargc, Hep, Hip.
    split; [|split; [|split; [|split]]].
    + intros j Hj. rewrite Hslot, sget_slot. cmp_cases.
    + rewrite Hslot, <- Hargc. cmp_cases.
    + rewrite Hslot, <- Hep. cmp_cases.
    + rewrite Hslot, <- Hip. cmp_cases.
    + intros j Hj. rewrite Hslot, sget_slot. cmp_cases.
  - (* different argument count: rebuild the frame at the base *)
    unfold bindM at 1. rewrite stack_get_ok by lia. rewrite Hep.
    unfold bindM at 1. rewrite stack_get_ok by lia. rewrite Hip.
    unfold bindM at 1. rewrite stack_get_ok by lia. rewrite Hbp.
    unfold bindM at 1. rewrite usub_ok by lia.
    unfold bindM at 1. unfold set_sp at 1.
    unfold bindM at 1.
    rewrite tcall_rebuild_ok; cbn [with_sp with_stack stack sp bp scap]; try lia.
    rewrite N2Nat.id.
    set (T1 := rebuild_tbl (N.to_nat m) (sp s) (bp s - n) (stack s)).
    unfold bindM at 1. rewrite push_ok; cbn [with_sp with_stack stack sp scap]; try lia.
    unfold bindM at 1. rewrite push_ok; cbn [with_sp with_stack stack sp scap]; try lia.
    unfold bindM at 1. rewrite push_ok; cbn [with_sp with_stack stack sp scap]; try lia.
    unfold as_bp at 1. unfold bindM at 1. unfold ret at 1.
    unfold bindM at 1. unfold set_bp at 1.
    unfold bindM at 1. unfold set_ip at 1. unfold ret.
    eexists. split.
    { unfold with_ip, with_bp, with_stack. cbn. do 2 f_equal. unfold base. lia. }
    assert (Hslot : forall j, slot T1 j =
       if (bp s - n <? j) && (j <=? bp s - n + m) then slot (stack s) (sp s - m + (j - (bp s - n) - 1))
       else slot (stack s) j).
    { intros j. unfold T1. rewrite rebuild_tbl_slot by lia. rewrite N2Nat.id. reflexivity. }
    unfold base.
    split; [|split; [|split; [|split]]].
    + intros j Hj. rewrite !slot_tset, Hslot, sget_slot. cmp_cases.
    + rewrite !slot_tset. cmp_cases.
    + rewrite !slot_tset. cmp_cases.
    + rewrite !slot_tset. cmp_cases.
    + intros j Hj. rewrite !slot_tset, Hslot, sget_slot. cmp_cases.
Qed.

(* ------------------------------------------------------------------ ENTER *)
(* computations that only read the machine *)
Definition pure {A} (m : M A) : Prop :=
  forall s, match m s with ROk _ s' => s' = s | RErr _ _ s' => s' = s | _ => True end.

Lemma pure_ret {A} (a : A) : pure (ret a). Proof. intros s; reflexivity. Qed.
Lemma pure_fail {A} e : pure (@fail A e). Proof. intros s; reflexivity. Qed.
Lemma pure_panic {A} k : pure (@panic A k). Proof. intros s; exact I. Qed.
Lemma pure_get_vm : pure get_vm. Proof. intros s; reflexivity. Qed.
Lemma pure_lift {A} (o : out A) : pure (lift o). Proof. intros s; unfold lift; destruct o; auto. Qed.
Lemma pure_bind {A B} (m : M A) (f : A -> M B) : pure m -> (forall a, pure (f a)) -> pure (bindM m f).
Proof.
  intros Hm Hf s. unfold bindM. specialize (Hm s). destruct (m s) as [a s1|e msg s1|k|]; auto.
  subst s1. apply Hf.
Qed.
Lemma pure_stack_get i : pure (stack_get i).
Proof. intros s; unfold stack_get; destruct (i <? scap s); reflexivity. Qed.
Lemma pure_stack_get_offset z : pure (stack_get_offset z).
Proof. intros s; unfold stack_get_offset. destruct (_ <? 0)%Z; [reflexivity|apply pure_stack_get]. Qed.
Lemma pure_hget p : pure (hget p). Proof. intros s; unfold hget; apply pure_lift. Qed.
Lemma pure_hderef v : pure (hderef v). Proof. intros s; unfold hderef; apply pure_lift. Qed.
Lemma pure_usub a b : pure (usub a b).
Proof. intros s; unfold usub; destruct (a <? b); [exact I|reflexivity]. Qed.
Lemma pure_as_ptr v : pure (as_ptr v). Proof. destruct v; try apply pure_fail; apply pure_ret. Qed.
Lemma pure_as_argc v : pure (as_argc v). Proof. destruct v; try apply pure_fail; apply pure_ret. Qed.
Lemma pure_as_lexenv v : pure (as_lexenv v). Proof. destruct v; try apply pure_fail; apply pure_ret. Qed.
Lemma pure_get_lambda lid : pure (get_lambda lid).
Proof. intros s; unfold get_lambda; destruct (tget _ _); [reflexivity|exact I]. Qed.
Lemma pure_as_lambda v : pure (as_lambda v).
Proof. destruct v; try apply pure_fail. apply pure_get_lambda. Qed.
Lemma pure_env_slots eid : pure (env_slots eid).
Proof. intros s; unfold env_slots; destruct (tget _ _); [reflexivity|exact I]. Qed.
Lemma pure_env_get eid i : pure (env_get eid i).
Proof.
  unfold env_get. apply pure_bind; [apply pure_env_slots|]. intros l.
  destruct (list_get l i); [apply pure_ret|apply pure_panic].
Qed.

Lemma pure_build_lexical_environment l cep cenv : pure (build_lexical_environment l cep cenv).
Proof.
  unfold build_lexical_environment.
  match goal with |- pure (?g _ _ _) => assert (H : forall m slot0 env0, pure (g m slot0 env0)) end.
  2:{ apply H. }
  induction m as [|[sym src] r IH]; intros slot0 env0; cbn.
  - apply pure_ret.
  - destruct src.
    + apply IH.
    + apply pure_bind; [apply pure_get_vm|]. intros s0.
      apply pure_bind; [apply pure_usub|]. intros k.
      apply pure_bind; [apply pure_usub|]. intros base.
      apply pure_bind; [apply pure_stack_get|]. intros v. apply IH.
    + destruct (list_get cenv slot0) as [[]|]; try apply pure_panic; try apply IH;
        (destruct (slot0 <? len env0); [apply IH|apply pure_panic]).
    + destruct (list_get cenv slot0) as [[]|]; try apply pure_panic; try apply IH;
        (destruct (slot0 <? len env0); [apply IH|apply pure_panic]).
    + apply IH.
Qed.

Lemma bind_pure_ok {A B} (m : M A) (f : A -> M B) s r s' :
  pure m -> bindM m f s = ROk r s' -> exists a, m s = ROk a s /\ f a s = ROk r s'.
Proof.
  intros Hp H. unfold bindM in H. specialize (Hp s).
  destruct (m s) as [a s1|e msg s1|k|]; try discriminate. subst s1. eauto.
Qed.

(* ENTER pushes the caller's base pointer and makes the frame current: the stack
   grows by exactly one slot, whatever the procedure (plain lambda or closure: the
   activation environment lives on the heap) *)
Theorem enter_frame_effect s r s' :
  enter_frame s = ROk r s' -> sp s + 1 < scap s ->
  r = false /\ sp s' = sp s + 1 /\ bp s' + 3 = sp s /\ 3 <= sp s /\
  stack s' = tset (stack s) (sp s + 1) (VBp (bp s)) /\ scap s' = scap s /\
  ip s' = ip s /\ acc s' = acc s /\ g_bind s' = g_bind s /\ g_slots s' = g_slots s /\
  out_log s' = out_log s.
Proof.
  intros H Hcap. unfold enter_frame in H.
  apply bind_pure_ok in H as (s0 & E0 & H); [|apply pure_get_vm]. injection E0 as <-.
  apply bind_pure_ok in H as (target & _ & H); [|apply pure_hderef].
  apply bind_pure_ok in H as ([lp cenv] & _ & H).
  2:{ destruct target; try apply pure_fail; try apply pure_ret.
      apply pure_bind; [apply pure_as_ptr|]. intros; apply pure_ret. }
  apply bind_pure_ok in H as (lv & _ & H); [|apply pure_hget].
  apply bind_pure_ok in H as (l & _ & H); [|apply pure_as_lambda].
  apply bind_pure_ok in H as (a & _ & H); [|apply pure_stack_get_offset].
  apply bind_pure_ok in H as (argc & _ & H); [|apply pure_as_argc].
  destruct (negb (argc =? len (l_args l))); [discriminate|].
  unfold bindM at 1 in H. rewrite push_ok in H by assumption.
  unfold bindM at 1 in H. unfold get_vm at 1 in H.
  cbn [sp with_stack] in H.
  unfold bindM at 1 in H. unfold usub at 1 in H.
  destruct (sp s + 1 <? 4) eqn:E4; [discriminate|]. apply N.ltb_ge in E4.
  unfold bindM at 1 in H. unfold set_bp at 1 in H.
  set (s1 := with_bp (with_stack s (tset (stack s) (sp s + 1) (VBp (bp s))) (sp s + 1)) (sp s + 1 - 4)) in H.
  assert (Hs1 : sp s1 = sp s + 1 /\ bp s1 + 3 = sp s /\ stack s1 = tset (stack s) (sp s + 1) (VBp (bp s)) /\
                scap s1 = scap s /\ ip s1 = ip s /\ acc s1 = acc s /\ g_bind s1 = g_bind s /\
                g_slots s1 = g_slots s /\ out_log s1 = out_log s).
  { unfold s1. cbn. repeat split; lia. }
  destruct cenv as [cep|].
  - apply bind_pure_ok in H as (cev & _ & H); [|apply pure_hget].
    apply bind_pure_ok in H as (ceid & _ & H); [|apply pure_as_lexenv].
    apply bind_pure_ok in H as (cslots & _ & H); [|apply pure_env_slots].
    apply bind_pure_ok in H as (env & _ & H); [|apply pure_build_lexical_environment].
    unfold bindM, env_new, hput, set_ep, ret in H.
    match type of H with context [new_env ?a ?b] => destruct (new_env a b) as [eid x] eqn:Ene end.
    cbn [hp with_store] in H.
    match type of H with context [heap_put ?a ?b] => destruct (heap_put a b) as [evp h1] eqn:Ehp end.
    destruct evp; cbn [as_ptr fail ret] in H; try discriminate.
    injection H as <- <-.
    destruct Hs1 as (A1 & A2 & A3 & A4 & A5 & A6 & A7 & A8 & A9).
    cbn. repeat split; auto; lia.
  - unfold ret in H. injection H as <- <-.
    destruct Hs1 as (A1 & A2 & A3 & A4 & A5 & A6 & A7 & A8 & A9).
    repeat split; auto; lia.
Qed.
