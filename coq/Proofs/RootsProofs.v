(* RootsProofs.v — C03, roots_complete for the concrete machine of Model/Vm.v, first
   instance: a VARIABLE REFERENCE / ASSIGNMENT (load_lex_slot / store_lex_slot,
   run.rs:394-401, 424-437).  Two halves:
     (1) every heap address the access dereferences ([lex_derefs]) is reachable from
         the root set run_gc marks (Proofs/GcProofs.v [root], [reach]);
     (2) [lex_derefs] is complete: the outcome of the access depends on the heap only
         through the cells at those addresses (two machines that agree there, and on
         the Rc payloads and %ep, read the same value).                              *)
From Coq Require Import Lia List.
From MW Require Import Model.Base Model.F64 Model.Num Model.Datum Model.TransformDef Model.Transform
  Model.VmTypes Model.Heap Model.Gc Model.VmBase Model.Compile Model.Vm
  Proofs.GcProofs Proofs.SymtabProofs Proofs.VmProofs0 Proofs.TailProofs Proofs.ScopeProofs Proofs.EnvProofs.
Open Scope N_scope.

(* the addresses handed to Heap::get by a slot access: %ep, and the environment a
   pointer slot leads to *)
Definition lex_derefs (k : N) (s : vm) : list N :=
  ep s :: match env_at s (ep s) with
          | Some (_, l) => match list_get l k with Some (VLexPtr q _) => [q] | _ => [] end
          | None => []
          end.

Theorem lex_derefs_reachable k s a : In a (lex_derefs k s) -> reach s a.
Proof.
  unfold lex_derefs, reach. intros [<-|Hin].
  - apply rf_root. unfold root. do 5 right. reflexivity.
  - destruct (env_at s (ep s)) as [[eid l]|] eqn:Ee; [|destruct Hin].
    destruct (list_get l k) as [c|] eqn:Ec; [|destruct Hin].
    destruct c; try (destruct Hin; fail). destruct Hin as [<-|[]].
    apply env_at_some in Ee as (L & C & E).
    apply rf_step with (a := ep s); [apply rf_root; unfold root; do 5 right; reflexivity|exact L|].
    rewrite C. exists 1%nat. cbn [cell_refs]. rewrite E. apply in_flat_map.
    exists (VLexPtr env i). split; [eapply nth_error_In; exact Ec|]. cbn. left. reflexivity.
Qed.

Lemma env_at_agree s s2 p : st s2 = st s -> hlen (hp s2) = hlen (hp s) ->
  cell_at (hp s2) p = cell_at (hp s) p -> env_at s2 p = env_at s p.
Proof. intros Hs Hl Hc. unfold env_at. rewrite !heap_get_cell_at, Hs, Hl, Hc. reflexivity. Qed.

Lemma location_agree k s s2 : st s2 = st s -> ep s2 = ep s -> hlen (hp s2) = hlen (hp s) ->
  (forall a, In a (lex_derefs k s) -> cell_at (hp s2) a = cell_at (hp s) a) ->
  location s2 (ep s2) k = location s (ep s) k.
Proof.
  intros Hs He Hl Hc. unfold location. rewrite He.
  rewrite (env_at_agree s s2 (ep s) Hs Hl) by (apply Hc; left; reflexivity).
  unfold lex_derefs in Hc.
  destruct (env_at s (ep s)) as [[eid l]|]; [|reflexivity].
  destruct (list_get l k) as [c|]; [|reflexivity].
  destruct c; try reflexivity.
  rewrite (env_at_agree s s2 env Hs Hl) by (apply Hc; right; left; reflexivity). reflexivity.
Qed.

Theorem load_depends_on_derefs k s s2 v :
  st s2 = st s -> ep s2 = ep s -> hlen (hp s2) = hlen (hp s) ->
  (forall a, In a (lex_derefs k s) -> cell_at (hp s2) a = cell_at (hp s) a) ->
  load_lex_slot k s = ROk v s -> load_lex_slot k s2 = ROk v s2.
Proof.
  intros Hs He Hl Hc H. apply load_lex_slot_inv in H as (_ & e & j & l & Hloc & Hle & Hv).
  eapply load_reads_location; [rewrite (location_agree k s s2 Hs He Hl Hc); exact Hloc| |exact Hv].
  rewrite Hs. exact Hle.
Qed.

Theorem store_depends_on_derefs k v s s2 u s' :
  st s2 = st s -> ep s2 = ep s -> hlen (hp s2) = hlen (hp s) ->
  (forall a, In a (lex_derefs k s) -> cell_at (hp s2) a = cell_at (hp s) a) ->
  store_lex_slot k v s = ROk u s' ->
  exists s2', store_lex_slot k v s2 = ROk tt s2' /\ st s2' = st s' /\ hp s2' = hp s2.
Proof.
  intros Hs He Hl Hc H. destruct (store_lex_slot_inv k v s u s' H) as (e & j & l & Hloc & Hle & Hj & ->).
  eexists. split.
  - eapply store_writes_location; [rewrite (location_agree k s s2 Hs He Hl Hc); exact Hloc| |exact Hj].
    rewrite Hs. exact Hle.
  - cbn [st hp with_store]. rewrite Hs. auto.
Qed.

(* non-vacuity: in the example machine after ENTER, slot 1 is a pointer; the access
   dereferences %ep = 3 and the closure environment 1, both reachable *)
Lemma ex_lex_derefs : lex_derefs 1 ex_s1 = [3; 1] /\
  load_lex_slot 1 ex_s1 = ROk (VBool true) ex_s1.
Proof. vm_compute. auto. Qed.
