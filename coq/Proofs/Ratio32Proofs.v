(* Ratio32Proofs.v — the num-rational port (Model/Ratio32.v) against Q:
   reduce, the continued-fraction comparison (termination and correctness),
   the checked operations.  Well-formed operands: components in range of the
   machine width, positive denominator.                                        *)
From Coq Require Import ZArith Lia Znumtheory Bool QArith.
From MW Require Import Model.Base Model.Num Model.Ratio32 Proofs.GcdProofs.
Open Scope Z_scope.

(* in range, positive denominator *)
Definition rok (w : Z) (r : ratio) : Prop :=
  in_int w (fst r) = true /\ in_int w (snd r) = true /\ 0 < snd r.
(* additionally in lowest terms *)
Definition rwf (w : Z) (r : ratio) : Prop := rok w r /\ Z.gcd (fst r) (snd r) = 1.

Definition rq (r : ratio) : Q := fst r # Z.to_pos (snd r).

Lemma rq_eq (a b : ratio) : 0 < snd a -> 0 < snd b ->
  (rq a == rq b)%Q <-> fst a * snd b = fst b * snd a.
Proof.
  intros Ha Hb. unfold rq, Qeq. cbn [Qnum Qden]. rewrite !Z2Pos.id by assumption. tauto.
Qed.

Lemma rq_compare (a b : ratio) : 0 < snd a -> 0 < snd b ->
  (rq a ?= rq b)%Q = (fst a * snd b ?= fst b * snd a).
Proof.
  intros Ha Hb. unfold rq, Qcompare. cbn [Qnum Qden]. now rewrite !Z2Pos.id by assumption.
Qed.

(* ---------------------------------------------------------- floor division *)
Lemma idiv_mod_floor_pos p w a b : 2 <= w ->
  in_int w a = true -> in_int w b = true -> 0 < b ->
  idiv_mod_floor p w a b = Ok (a / b, a mod b).
Proof.
  intros Hw Ha Hb Pb. unfold idiv_mod_floor.
  rewrite idiv_ok, irem_ok by lia. cbn [bind].
  pose proof (Z.quot_rem' a b) as E.
  apply in_int_iff in Ha. apply in_int_iff in Hb.
  assert (P2 : 0 < 2 ^ (w - 1)) by (apply Z.pow_pos_nonneg; lia).
  pose proof (Z.rem_bound_abs a b ltac:(lia)) as RB.
  assert (S1 : 0 <= a -> 0 <= Z.rem a b) by (intros; apply Z.rem_nonneg; lia).
  assert (S2 : a <= 0 -> Z.rem a b <= 0) by (intros; apply Z.rem_nonpos; lia).
  destruct (Z.ltb_spec b 0) as [Bn|Bn]; [lia|]. rewrite andb_false_r. cbn [orb].
  destruct (Z.ltb_spec 0 b) as [Bp|Bp]; [|lia]. rewrite andb_true_r.
  destruct (Z.ltb_spec (Z.rem a b) 0) as [Rn|Rn].
  - (* r < 0: adjust *)
    assert (a < 0) by lia.
    assert (B2 : 2 <= b).
    { destruct (Z.eq_dec b 1) as [B1|B1]; [subst b; rewrite Z.rem_1_r in Rn; lia|lia]. }
    assert (Qb : imin w <= Z.quot a b - 1).
    { unfold imin, imax in *. assert (Z.quot a b * b >= a) by nia. nia. }
    unfold isub, iadd. rewrite !ovf_ok; cbn [bind].
    + f_equal. f_equal; [apply Z.div_unique_pos with (Z.rem a b + b)|apply Z.mod_unique_pos with (Z.quot a b - 1)]; lia.
    + apply in_int_iff. unfold imin, imax in *. lia.
    + apply in_int_iff. unfold imin, imax in *. assert (Z.quot a b <= 0) by nia. lia.
  - f_equal. f_equal; [apply Z.div_unique_pos with (Z.rem a b)|apply Z.mod_unique_pos with (Z.quot a b)]; lia.
Qed.

(* ------------------------------------------------- the comparison: nr:326-380 *)
Definition mu (an ad : Z) : Z := if ad <? an then an * ad else 2 * ad * ad.

Lemma cmp_mul_r c x y : 0 < c -> (x * c ?= y * c) = (x ?= y).
Proof.
  intros H. destruct (Z.compare_spec x y);
    [apply Z.compare_eq_iff|apply Z.compare_lt_iff|apply Z.compare_gt_iff]; nia.
Qed.
Lemma cmp_mul_l c x y : 0 < c -> (c * x ?= c * y) = (x ?= y).
Proof. intros H. rewrite !(Z.mul_comm c). now apply cmp_mul_r. Qed.
Lemma cmp_mul_neg_l c x y : c < 0 -> (c * x ?= c * y) = (y ?= x).
Proof.
  intros H. destruct (Z.compare_spec y x);
    [apply Z.compare_eq_iff|apply Z.compare_lt_iff|apply Z.compare_gt_iff]; nia.
Qed.

Lemma compare_antisym_opp x y : CompOpp (x ?= y) = (y ?= x).
Proof. symmetry. apply Z.compare_antisym. Qed.

Lemma rcmp_fuel_correct p w : 2 <= w -> forall fuel an ad bn bd,
  rok w (an, ad) -> rok w (bn, bd) ->
  mu an ad < 2 ^ Z.of_nat fuel ->
  rcmp_fuel (S fuel) p w (an, ad) (bn, bd) = Ok (an * bd ?= bn * ad).
Proof.
  intros Hw. induction fuel as [|f IH]; intros an ad bn bd [Ra [Rad Pa]] [Rb [Rbd Pb]] Hmu;
    cbn [fst snd] in *.
  { exfalso. unfold mu in Hmu. change (2 ^ Z.of_nat 0) with 1 in Hmu. destruct (Z.ltb_spec ad an); nia. }
  remember (S f) as f1 eqn:Ef1. cbn [rcmp_fuel]. subst f1.
  destruct (Z.eqb_spec ad bd) as [Ed|Ed].
  { subst bd. destruct (Z.ltb_spec ad 0); [lia|]. f_equal.
    symmetry. now apply cmp_mul_r. }
  destruct (Z.eqb_spec an bn) as [En|En].
  { subst bn. destruct (Z.eqb_spec an 0) as [A0|A0].
    - subst an. reflexivity.
    - f_equal. destruct (Z.ltb_spec an 0) as [An|An]; unfold cmp_rev.
      + (* negative numerator: an*bd ?= an*ad  =  ad ?= bd *)
        symmetry. now apply cmp_mul_neg_l.
      + rewrite compare_antisym_opp. symmetry. apply cmp_mul_l. lia. }
  rewrite !idiv_mod_floor_pos by assumption. cbn [bind].
  pose proof (Z.div_mod an ad ltac:(lia)) as Da. pose proof (Z.mod_pos_bound an ad Pa) as Ma.
  pose proof (Z.div_mod bn bd ltac:(lia)) as Db. pose proof (Z.mod_pos_bound bn bd Pb) as Mb.
  set (qa := an / ad) in *. set (ra := an mod ad) in *.
  set (qb := bn / bd) in *. set (rb := bn mod bd) in *.
  destruct (Z.compare_spec qa qb) as [Eq|Lq|Gq].
  - (* equal integer parts *)
    assert (Hd : an * bd - bn * ad = ra * bd - rb * ad) by (rewrite Da, Db, Eq; ring).
    destruct (Z.eqb_spec ra 0) as [Ra0|Ra0]; destruct (Z.eqb_spec rb 0) as [Rb0|Rb0].
    + f_equal. symmetry. apply Z.compare_eq_iff. lia.
    + f_equal. symmetry. apply Z.compare_lt_iff. nia.
    + f_equal. symmetry. apply Z.compare_gt_iff. nia.
    + rewrite IH.
      * cbn [bind]. f_equal. unfold cmp_rev. rewrite compare_antisym_opp.
        destruct (Z.compare_spec (bd * ra) (ad * rb)); symmetry;
          [apply Z.compare_eq_iff|apply Z.compare_lt_iff|apply Z.compare_gt_iff]; lia.
      * unfold rok; cbn [fst snd]. repeat split; try assumption; try lia.
        apply in_int_iff. apply in_int_iff in Rad. pose proof (imin_neg w ltac:(lia)). lia.
      * unfold rok; cbn [fst snd]. repeat split; try assumption; try lia.
        apply in_int_iff. apply in_int_iff in Rbd. pose proof (imin_neg w ltac:(lia)). lia.
      * (* the measure halves *)
        rewrite Nat2Z.inj_succ, Z.pow_succ_r in Hmu by lia.
        unfold mu in *. destruct (Z.ltb_spec ra ad); [|lia].
        destruct (Z.ltb_spec ad an).
        -- assert (1 <= qa) by (subst qa; apply Z.div_le_lower_bound; lia). nia.
        -- nia.
  - f_equal. symmetry. apply Z.compare_lt_iff.
    assert (an * bd < ad * bd * (qa + 1)) by (rewrite Da; nia).
    assert (ad * bd * (qa + 1) <= ad * bd * qb) by (apply Z.mul_le_mono_nonneg_l; nia).
    assert (ad * bd * qb <= bn * ad) by (rewrite Db; nia). lia.
  - f_equal. symmetry. apply Z.compare_gt_iff.
    assert (bn * ad < ad * bd * (qb + 1)) by (rewrite Db; nia).
    assert (ad * bd * (qb + 1) <= ad * bd * qa) by (apply Z.mul_le_mono_nonneg_l; nia).
    assert (ad * bd * qa <= an * bd) by (rewrite Da; nia). lia.
Qed.

Lemma mu_bound w an ad : 2 <= w -> in_int w an = true -> in_int w ad = true -> 0 < ad ->
  mu an ad < 2 ^ (2 * w).
Proof.
  intros Hw Ha Hd Pd. apply in_int_iff in Ha. apply in_int_iff in Hd. unfold imin, imax, mu in *.
  assert (P : 0 < 2 ^ (w - 1)) by (apply Z.pow_pos_nonneg; lia).
  replace (2 * w) with ((w - 1) + (w - 1) + 2) by lia.
  rewrite !Z.pow_add_r by lia. change (2 ^ 2) with 4.
  destruct (Z.ltb_spec ad an); nia.
Qed.

(* Ratio32.cmp terminates (never NoFuel, never panics) on in-range ratios with
   positive denominators and equals the comparison of a*d with c*b *)
Theorem rcmp_correct p w a b : 2 <= w <= 64 -> rok w a -> rok w b ->
  rcmp p w a b = Ok (fst a * snd b ?= fst b * snd a).
Proof.
  intros Hw Ha Hb. destruct a as [an ad], b as [bn bd]. unfold rcmp, RCMP_FUEL.
  change 140%nat with (S 139). apply rcmp_fuel_correct; try assumption; try lia.
  destruct Ha as [Ha [Hd Pd]]. cbn [fst snd] in *.
  pose proof (mu_bound w an ad ltac:(lia) Ha Hd Pd).
  assert (2 ^ (2 * w) <= 2 ^ Z.of_nat 139) by (apply Z.pow_le_mono_r; lia). lia.
Qed.

Corollary rcmp_Q p w a b : 2 <= w <= 64 -> rok w a -> rok w b ->
  rcmp p w a b = Ok (rq a ?= rq b)%Q.
Proof.
  intros Hw Ha Hb. rewrite rcmp_correct by assumption. f_equal. symmetry.
  apply rq_compare; [apply Ha|apply Hb].
Qed.

(* ------------------------------------------------------------ reduce, d > 0 *)
Lemma in_int_0 w : 2 <= w -> in_int w 0 = true.
Proof.
  intros. apply in_int_iff. unfold imin, imax.
  assert (0 < 2 ^ (w - 1)) by (apply Z.pow_pos_nonneg; lia). lia.
Qed.
Lemma in_int_1 w : 2 <= w -> in_int w 1 = true.
Proof.
  intros. apply in_int_iff. unfold imin, imax.
  assert (2 ^ 1 <= 2 ^ (w - 1)) by (apply Z.pow_le_mono_r; lia). change (2 ^ 1) with 2 in *. lia.
Qed.

Lemma rwf_zero w : 2 <= w -> rwf w (0, 1).
Proof. intros. repeat split; cbn [fst snd]; auto using in_int_0, in_int_1; lia. Qed.
Lemma rwf_one w : 2 <= w -> rwf w (1, 1).
Proof. intros. repeat split; cbn [fst snd]; auto using in_int_1; lia. Qed.

Lemma rreduce_pos p w n d : 2 <= w -> in_int w n = true -> in_int w d = true -> 0 < d ->
  exists n' d', rreduce p w (n, d) = Ok (n', d') /\ rwf w (n', d') /\ n' * d = n * d'.
Proof.
  intros Hw Hn Hd Pd. unfold rreduce.
  destruct (Z.eqb_spec d 0); [lia|].
  destruct (Z.eqb_spec n 0) as [N0|N0].
  { exists 0, 1. subst n. split; [reflexivity|]. split; [now apply rwf_zero|lia]. }
  destruct (Z.eqb_spec n d) as [ND|ND].
  { exists 1, 1. subst n. split; [reflexivity|]. split; [now apply rwf_one|lia]. }
  assert (MINneg : imin w < 0) by (apply imin_neg; lia).
  rewrite igcd_spec; try assumption.
  2:{ split; intros E; [split; [lia|]|]; apply in_int_iff in Hd; lia. }
  cbn [bind].
  set (g := Z.gcd n d).
  assert (Pg : 0 < g).
  { pose proof (Z.gcd_nonneg n d). destruct (Z.eq_dec g 0) as [G0|G0]; [|subst g; lia].
    apply Z.gcd_eq_0_r in G0. lia. }
  destruct (Z.gcd_divide_l n d) as [n1 En]. destruct (Z.gcd_divide_r n d) as [d1 Ed]. fold g in En, Ed.
  rewrite !idiv_ok by lia. cbn [bind].
  assert (Qn : Z.quot n g = n1) by (rewrite En; apply Z.quot_mul; lia).
  assert (Qd : Z.quot d g = d1) by (rewrite Ed; apply Z.quot_mul; lia).
  rewrite Qn, Qd.
  assert (Pd1 : 0 < d1) by nia.
  destruct (Z.ltb_spec d1 0); [lia|].
  exists n1, d1. split; [reflexivity|]. split.
  - split; [|cbn [fst snd]].
    + unfold rok; cbn [fst snd]. repeat split; try lia.
      * apply in_int_iff in Hn. apply in_int_iff. unfold imin, imax in *. nia.
      * apply in_int_iff in Hd. apply in_int_iff. unfold imin, imax in *. nia.
    + (* coprime *)
      assert (G : Z.gcd (n / g) (d / g) = 1) by (apply Z.gcd_div_gcd; [lia|reflexivity]).
      rewrite En, Ed, !Z.div_mul in G by lia. exact G.
  - clearbody g. subst n d. ring.
Qed.

(* ---------------------------------------------------- CheckedAdd / CheckedSub *)
Lemma rchecked_addsub_spec (sub : bool) p w a b : 2 <= w -> rok w a -> rok w b ->
  rchecked_addsub sub p w a b = Ok None \/
  exists r, rchecked_addsub sub p w a b = Ok (Some r) /\ rwf w r /\
            (rq r == if sub then rq a - rq b else rq a + rq b)%Q.
Proof.
  intros Hw [Han [Had Pa]] [Hbn [Hbd Pb]]. destruct a as [an ad], b as [bn bd]. cbn [fst snd] in *.
  unfold rchecked_addsub.
  assert (MINneg : imin w < 0) by (apply imin_neg; lia).
  rewrite igcd_spec; try assumption.
  2:{ split; intros E; apply in_int_iff in Had; apply in_int_iff in Hbd; lia. }
  cbn [bind]. set (g := Z.gcd ad bd).
  assert (Pg : 0 < g).
  { pose proof (Z.gcd_nonneg ad bd). destruct (Z.eq_dec g 0) as [G0|G0]; [|subst g; lia].
    apply Z.gcd_eq_0_r in G0. lia. }
  destruct (Z.gcd_divide_l ad bd) as [a1 Ea]. destruct (Z.gcd_divide_r ad bd) as [b1 Eb]. fold g in Ea, Eb.
  assert (Pa1 : 0 < a1) by nia. assert (Pb1 : 0 < b1) by nia.
  rewrite idiv_ok by lia. cbn [bind].
  assert (Qa : Z.quot ad g = a1) by (rewrite Ea; apply Z.quot_mul; lia). rewrite Qa.
  unfold ichecked_mul.
  destruct (ichecked w (a1 * bd)) as [lcm|] eqn:Hl; [|left; reflexivity].
  apply ichecked_some in Hl. destruct Hl as [El Rl]. subst lcm.
  assert (Pl : 0 < a1 * bd) by nia.
  rewrite idiv_ok by lia. cbn [bind].
  assert (Q1 : Z.quot (a1 * bd) ad = b1).
  { rewrite Eb, Ea. replace (a1 * (b1 * g)) with (b1 * (a1 * g)) by ring. apply Z.quot_mul. nia. }
  rewrite Q1.
  destruct (ichecked w (b1 * an)) as [ln|] eqn:H1; [|left; reflexivity].
  apply ichecked_some in H1. destruct H1 as [E1 R1]. subst ln.
  rewrite idiv_ok by lia. cbn [bind].
  assert (Q2 : Z.quot (a1 * bd) bd = a1) by (apply Z.quot_mul; lia).
  rewrite Q2.
  destruct (ichecked w (a1 * bn)) as [rn|] eqn:H2; [|left; reflexivity].
  apply ichecked_some in H2. destruct H2 as [E2 R2]. subst rn.
  set (num := if sub then b1 * an - a1 * bn else b1 * an + a1 * bn).
  assert (Hs : (if sub then ichecked_sub w (b1 * an) (a1 * bn) else ichecked_add w (b1 * an) (a1 * bn))
               = ichecked w num) by (subst num; destruct sub; reflexivity).
  rewrite Hs.
  destruct (ichecked w num) as [s|] eqn:H3; [|left; reflexivity].
  apply ichecked_some in H3. destruct H3 as [E3 R3]. subst s.
  destruct (rreduce_pos p w num (a1 * bd) Hw R3 Rl Pl) as [rn [rd [Hr [Wr Er]]]].
  unfold rnew. rewrite Hr. cbn [bind]. right. exists (rn, rd). split; [reflexivity|]. split; [exact Wr|].
  destruct Wr as [[_ [_ Prd]] _]. cbn [fst snd] in *.
  unfold rq, Qeq, Qminus, Qplus, Qopp; destruct sub; cbn [Qnum Qden fst snd];
    rewrite Pos2Z.inj_mul, !Z2Pos.id by lia; subst num; clearbody g; subst ad bd.
  - replace (rn * (a1 * g * (b1 * g))) with (g * (rn * (a1 * (b1 * g)))) by ring. rewrite Er. ring.
  - replace (rn * (a1 * g * (b1 * g))) with (g * (rn * (a1 * (b1 * g)))) by ring. rewrite Er. ring.
Qed.

(* ------------------------------------------------------------------ CheckedMul *)
Lemma gcd_pos_r a b : 0 < b -> 0 < Z.gcd a b.
Proof.
  intros Hb. pose proof (Z.gcd_nonneg a b). destruct (Z.eq_dec (Z.gcd a b) 0) as [G0|G0]; [|lia].
  apply Z.gcd_eq_0_r in G0. lia.
Qed.

Lemma rchecked_mul_spec p w a b : 2 <= w -> rok w a -> rok w b ->
  rchecked_mul p w a b = Ok None \/
  exists r, rchecked_mul p w a b = Ok (Some r) /\ rwf w r /\ (rq r == rq a * rq b)%Q.
Proof.
  intros Hw [Han [Had Pa]] [Hbn [Hbd Pb]]. destruct a as [an ad], b as [bn bd]. cbn [fst snd] in *.
  unfold rchecked_mul.
  assert (MINneg : imin w < 0) by (apply imin_neg; lia).
  rewrite (igcd_spec p w an bd); try assumption.
  2:{ split; intros E; [split|]; apply in_int_iff in Hbd; lia. }
  cbn [bind].
  rewrite (igcd_spec p w ad bn); try assumption.
  2:{ split; intros E; [|split]; apply in_int_iff in Had; lia. }
  cbn [bind].
  set (g1 := Z.gcd an bd). set (g2 := Z.gcd ad bn).
  assert (P1 : 0 < g1) by (apply gcd_pos_r; exact Pb).
  assert (P2 : 0 < g2) by (subst g2; rewrite Z.gcd_comm; apply gcd_pos_r; exact Pa).
  destruct (Z.gcd_divide_l an bd) as [x1 E1]. destruct (Z.gcd_divide_r an bd) as [y2 E2].
  destruct (Z.gcd_divide_l ad bn) as [y1 E3]. destruct (Z.gcd_divide_r ad bn) as [x2 E4].
  fold g1 in E1, E2. fold g2 in E3, E4.
  rewrite !idiv_ok by lia. cbn [bind].
  assert (Q1 : Z.quot an g1 = x1) by (rewrite E1; apply Z.quot_mul; lia).
  assert (Q2 : Z.quot bn g2 = x2) by (rewrite E4; apply Z.quot_mul; lia).
  assert (Q3 : Z.quot ad g2 = y1) by (rewrite E3; apply Z.quot_mul; lia).
  assert (Q4 : Z.quot bd g1 = y2) by (rewrite E2; apply Z.quot_mul; lia).
  rewrite Q1, Q2. unfold ichecked_mul.
  destruct (ichecked w (x1 * x2)) as [nn|] eqn:Hn; [|left; reflexivity].
  apply ichecked_some in Hn. destruct Hn as [En Rn]. subst nn.
  rewrite ?idiv_ok by lia. cbn [bind]. rewrite Q3, Q4.
  destruct (ichecked w (y1 * y2)) as [dd|] eqn:Hd; [|left; reflexivity].
  apply ichecked_some in Hd. destruct Hd as [Ed Rd]. subst dd.
  assert (Py1 : 0 < y1) by nia. assert (Py2 : 0 < y2) by nia.
  assert (Pd : 0 < y1 * y2) by nia.
  destruct (rreduce_pos p w (x1 * x2) (y1 * y2) Hw Rn Rd Pd) as [rn [rd [Hr [Wr Er]]]].
  unfold rnew. rewrite Hr. cbn [bind]. right. exists (rn, rd). split; [reflexivity|]. split; [exact Wr|].
  destruct Wr as [[_ [_ Prd]] _]. cbn [fst snd] in *.
  unfold rq, Qeq, Qmult; cbn [Qnum Qden fst snd].
  rewrite Pos2Z.inj_mul, !Z2Pos.id by lia. clearbody g1 g2. subst an bd ad bn.
  replace (rn * (y1 * g2 * (y2 * g1))) with (g1 * g2 * (rn * (y1 * y2))) by ring. rewrite Er. ring.
Qed.

(* --------------------------------------------------------- trunc / to_integer *)
Lemma rto_integer_wf w a : 2 <= w -> rok w a -> rto_integer w a = Ok (Z.quot (fst a) (snd a)).
Proof. intros Hw [_ [_ P]]. unfold rto_integer. apply idiv_ok; lia. Qed.
