(* GcIsoClos.v — C03, part 11: CLOSURE and ENTER (closure environments). *)
From Coq Require Import Lia List.
From MW Require Import Model.Base Model.Num Model.VmTypes Model.Heap Model.Gc Model.VmBase Model.Vm
  Proofs.GcProofs Proofs.SymtabProofs Proofs.GcIso Proofs.GcIsoPrim Proofs.GcIsoStep Proofs.GcIsoAlloc
  Proofs.GcIsoHmi Proofs.GcIsoPayload Proofs.GcIsoStep2 Proofs.GcIsoCall.
Open Scope N_scope.
Arguments N.add : simpl never.
Arguments N.sub : simpl never.
Arguments N.eqb : simpl never.
Arguments N.ltb : simpl never.
Arguments N.leb : simpl never.
Arguments N.mul : simpl never.

(* get_vm inside a reader: the continuation knows the state is the snapshot *)
Lemma rsim_bind_get_vm {B1 B2} W (G : vm -> Prop) (Q : B1 -> B2 -> Prop) (k1 : vm -> M B1) (k2 : vm -> M B2) :
  (forall x1 x2, snap W x1 x2 -> G x1 -> rsim W (fun s => s = x1) Q (k1 x1) (k2 x2)) ->
  rsim W G Q (bindM get_vm k1) (bindM get_vm k2).
Proof. intros H s1 s2 R g. unfold bindM, get_vm. exact (H s1 s2 (srel_snap _ _ _ R) g s1 s2 R eq_refl). Qed.

Lemma lr_cons W v1 v2 l1 l2 : vr W v1 v2 -> lr W l1 l2 -> lr W (v1 :: l1) (v2 :: l2).
Proof. intros [-> Lv] [-> Ll]. split; [reflexivity|constructor; assumption]. Qed.
Lemma lr_nil W : lr W [] []. Proof. split; [reflexivity|constructor]. Qed.
Lemma lr_rev W l1 l2 : lr W l1 l2 -> lr W (rev l1) (rev l2).
Proof. intros [-> L]. split; [symmetry; apply map_rev|apply Forall_rev, L]. Qed.
Lemma vr_undef W : vr W VUndef VUndef. Proof. apply vr_plain; reflexivity. Qed.
Lemma vr_lexptr W e1 e2 i : ar W e1 e2 -> vr W (VLexPtr e1 i) (VLexPtr e2 i).
Proof. intros [-> La]. split; [reflexivity|]. split; [|intros j []]. intros x [<-|[]]. exact La. Qed.

(* ------------------------------------------------------------------ load_arg *)
Definition arg_ok (a : N) (s : vm) : Prop :=
  bp s + 1 <= sp s /\ forall n, sget s (bp s + 1) = VArgc n -> n <= bp s -> bp s - n + a + 1 <= sp s.

Lemma rsim_load_arg W (G : vm -> Prop) a : (forall s, G s -> arg_ok a s) -> rsim W G (vr W) (load_arg a) (load_arg a).
Proof.
  intros HG. unfold load_arg. apply rsim_bind_get_vm. intros x1 x2 Hs g. destruct (HG x1 g) as [g1 g2].
  rewrite (sn_bp _ _ _ Hs).
  intros s1 s2 R ->. unfold bindM, stack_get. rewrite (sr_scap _ _ _ R).
  destruct (bp x1 + 1 <? scap x1); [|split; reflexivity].
  destruct (sr_stack _ _ _ R (bp x1 + 1)) as [E1 L1]; [pose proof (sr_top _ _ _ R); lia|].
  rewrite E1. specialize (g2).
  destruct (sget x1 (bp x1 + 1)) eqn:Ea; cbn [vmap as_argc]; unfold fail, ret; try (split; reflexivity).
  unfold usub. destruct (N.ltb_spec (bp x1) n) as [|Hn]; [exact I|]. unfold ret.
  specialize (g2 n eq_refl Hn). rewrite (sr_scap _ _ _ R).
  destruct (bp x1 - n + a + 1 <? scap x1); (split; [reflexivity|]); [|reflexivity].
  eexists. split; [reflexivity|]. apply (sr_stack _ _ _ R). pose proof (sr_top _ _ _ R). lia.
Qed.

(* ------------------------------------------------------------------ build_closure_environment *)
Fixpoint bce_go (m : list (vcell * bsrc)) (acc : list vcell) : M (list vcell) :=
  match m with
  | [] => ret (rev acc)
  | (_, src) :: r =>
      match src with
      | BIofArgument a => dom v <- load_arg a; bce_go r (v :: acc)
      | BIofEnvironment iof_slot =>
          dom s <- get_vm;
          dom ev <- hget (ep s); dom eid <- as_lexenv ev;
          dom cur <- env_get eid iof_slot;
          match cur with
          | VLexPtr _ _ => bce_go r (cur :: acc)
          | _ => bce_go r (VLexPtr (ep s) iof_slot :: acc)
          end
      | _ => bce_go r (VUndef :: acc)
      end
  end.
Lemma bce_eq m : build_closure_environment m = bce_go m [].
Proof. reflexivity. Qed.

Definition args_ok (m : list (vcell * bsrc)) (s : vm) : Prop :=
  forall x a, In (x, BIofArgument a) m -> arg_ok a s.

Lemma rsim_bce W (G : vm -> Prop) : forall m1 m2 acc1 acc2,
  map snd m2 = map snd m1 -> (forall s, G s -> args_ok m1 s) -> lr W acc1 acc2 ->
  rsim W G (lr W) (bce_go m1 acc1) (bce_go m2 acc2).
Proof.
  induction m1 as [|[x1 src] r1 IH]; intros m2 acc1 acc2 Em HG Ha; destruct m2 as [|[x2 src2] r2]; try discriminate.
  - apply rsim_ret, lr_rev, Ha.
  - cbn [map snd] in Em. injection Em as -> Er. cbn [bce_go].
    assert (HG' : forall s, G s -> args_ok r1 s) by (intros s g y a Hy; apply (HG s g y a); now right).
    destruct src.
    + apply IH; [exact Er|exact HG'|apply lr_cons; [apply vr_undef|exact Ha]].
    + apply IH; [exact Er|exact HG'|apply lr_cons; [apply vr_undef|exact Ha]].
    + eapply rsim_bind; [apply rsim_load_arg; intros s g; apply (HG s g x1 n); now left|].
      intros v1 v2 Hv. apply IH; [exact Er|exact HG'|apply lr_cons; assumption].
    + apply rsim_bind_get_vm. intros y1 y2 Hs g.
      assert (HGy : forall s, s = y1 -> args_ok r1 s) by (intros s ->; apply HG', g).
      eapply rsim_bind; [apply rsim_hget, (sn_ep _ _ _ Hs)|]. intros ev1 ev2 Hev.
      eapply rsim_bind; [apply rsim_as_lexenv, Hev|]. intros e1 e2 He.
      eapply rsim_bind; [apply rsim_env_get, He|]. intros c1 c2 Hc. pose proof Hc as [-> Lc].
      destruct c1; cbn [vmap];
        try (eapply rsim_weaken; [|apply (IH r2 _ _ Er HG')]; [intros ? ->; exact g|];
             apply lr_cons; [apply vr_lexptr, (sn_ep _ _ _ Hs)|exact Ha]).
      eapply rsim_weaken; [|apply (IH r2 _ _ Er HG')]; [intros ? ->; exact g|].
      apply lr_cons; [exact Hc|exact Ha].
    + apply IH; [exact Er|exact HG'|apply lr_cons; [apply vr_undef|exact Ha]].
Qed.

Lemma lmap_envmap_snd f l : map snd (l_envmap (lmap f l)) = map snd (l_envmap l).
Proof. unfold lmap. cbn [l_envmap]. rewrite map_map. reflexivity. Qed.
Lemma lmap_args_len f l : len (l_args (lmap f l)) = len (l_args l).
Proof. unfold lmap, len. cbn [l_args]. now rewrite map_length. Qed.

Lemma hmi_load_arg a : hmi (load_arg a). Proof. unfold load_arg. hmi. Qed.
Lemma hmi_env_get e i : hmi (env_get e i). Proof. unfold env_get. hmi. Qed.
#[export] Hint Resolve hmi_load_arg hmi_env_get : hmi.
Lemma hmi_bce m : forall acc, hmi (bce_go m acc).
Proof. induction m as [|[x src] r IH]; intros acc; cbn [bce_go]; hmi; try apply IH. Qed.
Lemma hmi_build_closure_environment m : hmi (build_closure_environment m).
Proof. rewrite bce_eq. apply hmi_bce. Qed.
#[export] Hint Resolve hmi_build_closure_environment : hmi.

(* ------------------------------------------------------------------ a reader, then a simulation *)
Lemma rsimg_bind {A1 A2 B1 B2} W (G : vm -> Prop) (P : A1 -> A2 -> Prop) (Q : world -> B1 -> B2 -> Prop)
      (m1 : M A1) (m2 : M A2) (k1 : A1 -> M B1) (k2 : A2 -> M B2) :
  rsim W G P m1 m2 ->
  (forall a1 a2, P a1 a2 -> simg W (fun s => G s /\ m1 s = ROk a1 s) Q (k1 a1) (k2 a2)) ->
  simg W G Q (bindM m1 k1) (bindM m2 k2).
Proof.
  intros Hm Hk s1 s2 R g. unfold bindM. specialize (Hm s1 s2 R g).
  destruct (m1 s1) as [a1 s1'|e msg s1'| |] eqn:E; try exact I.
  - destruct Hm as (-> & a2 & -> & HP). apply (Hk a1 a2 HP s1 s2 R). split; assumption.
  - destruct Hm as (-> & ->). intros _. exists s2, W. split; [reflexivity|]. split; [apply ext_refl|exact R].
Qed.

Lemma rsim_as_ptr W G v1 v2 : vr W v1 v2 -> rsim W G (ar W) (as_ptr v1) (as_ptr v2).
Proof.
  intros [-> L]. destruct v1; cbn [vmap as_ptr]; try apply rsim_fail.
  apply rsim_ret. split; [reflexivity|]. apply (vlive_addr _ _ _ L). now left.
Qed.
Lemma rsim_as_lambda W G v1 v2 : vr W v1 v2 -> rsim W G (lamr W) (as_lambda v1) (as_lambda v2).
Proof.
  intros [-> L]. destruct v1; cbn [vmap as_lambda]; try apply rsim_fail.
  assert (Hi : wi W (PLam lid)) by (apply (vlive_id _ _ _ L); now left).
  intros s1 s2 R g. unfold get_lambda.
  pose proof (sr_lams _ _ _ (sr_store _ _ _ R) lid Hi) as H.
  destruct (tget (lams (st s1)) lid) as [l1|], (tget (lams (st s2)) lid) as [l2|]; cbn [orel] in H; try contradiction; [|exact I].
  split; [reflexivity|]. exists l2. split; [reflexivity|exact H].
Qed.
Lemma rsim_stack_get_offset W G off : (off <= 0)%Z -> rsim W G (vr W) (stack_get_offset off) (stack_get_offset off).
Proof.
  intros Ho s1 s2 R g. unfold stack_get_offset. rewrite (sr_sp _ _ _ R).
  destruct (Z.of_N (sp s1) + off <? 0)%Z eqn:E; [split; reflexivity|].
  refine (rsim_stack_get W (fun s => s = s1) _ _ s1 s2 R eq_refl). intros s ->. lia.
Qed.

Lemma vr_closure W l1 l2 e1 e2 : ar W l1 l2 -> ar W e1 e2 -> vr W (VClosure l1 e1) (VClosure l2 e2).
Proof.
  intros [-> La] [-> Ld]. split; [reflexivity|]. split; [|intros i []].
  intros x [<-|[<-|[]]]; assumption.
Qed.

(* ------------------------------------------------------------------ CLOSURE *)
Definition clo_head : M lambda :=
  dom s <- get_vm; dom lp <- as_ptr (acc s); dom lv <- hget lp; as_lambda lv.
Definition clo_ok (s : vm) : Prop := forall l s', clo_head s = ROk l s' -> args_ok (l_envmap l) s.

Definition closure_tail (lp : N) (env : list vcell) : M bool :=
  dom ev <- env_new env; dom evp <- hput ev; dom ei <- as_ptr evp;
  dom cp <- hput (VClosure lp ei);
  dom _ <- set_acc cp; ret false.
Definition closure_body : M bool :=
  dom s <- get_vm;
  dom lp <- as_ptr (acc s);
  dom lv <- hget lp; dom l <- as_lambda lv;
  dom env <- build_closure_environment (l_envmap l);
  closure_tail lp env.

Lemma sim_closure_tail W p1 p2 l1 l2 : ar W p1 p2 -> lr W l1 l2 -> sim W eqr (closure_tail p1 l1) (closure_tail p2 l2).
Proof.
  intros Hp Hl. unfold closure_tail.
  sb ltac:(apply sim_env_new, Hl). intros W1 ev1 ev2 E1 Hev.
  sb ltac:(apply sim_hput, Hev). intros W2 evp1 evp2 E2 Hevp.
  sb ltac:(apply sim_as_ptr, Hevp). intros W3 ei1 ei2 E3 Hei.
  sb ltac:(apply sim_hput, vr_closure; [eapply ar_x; [|exact Hp]; xt|exact Hei]). intros W4 cp1 cp2 E4 Hcp.
  sb ltac:(apply sim_set_acc, Hcp). intros. apply sim_ret. reflexivity.
Qed.

Lemma simg_closure W : simg W clo_ok eqr closure_body closure_body.
Proof.
  unfold closure_body.
  eapply rsimg_bind; [apply rsim_get_vm|]. intros x1 x2 (Hs & g0 & _).
  eapply rsimg_bind; [apply rsim_as_ptr, (sn_acc _ _ _ Hs)|]. intros p1 p2 Hp.
  eapply rsimg_bind; [apply rsim_hget, Hp|]. intros lv1 lv2 Hlv.
  eapply rsimg_bind; [apply rsim_as_lambda, Hlv|]. intros l1 l2 [-> Ll].
  rewrite !bce_eq.
  eapply rsimg_bind.
  - apply rsim_bce; [apply lmap_envmap_snd| |apply lr_nil].
    intros s ((((g & Eg) & Ep) & Eh) & El). apply (g l1 s). unfold clo_head, bindM.
    rewrite Eg. unfold get_vm in Eg. injection Eg as <-. rewrite Ep, Eh. exact El.
  - intros e1 e2 He. apply simg_of_sim, sim_closure_tail; assumption.
Qed.

(* ------------------------------------------------------------------ build_lexical_environment *)
Section Ble.
Variables (argc cep : N) (cenv : list vcell).
Fixpoint ble_go (m : list (vcell * bsrc)) (slot : N) (env : list vcell) : M (list vcell) :=
  match m with
  | [] => ret env
  | (_, src) :: r =>
      match src with
      | BArgument a =>
          dom s <- get_vm;
          dom k <- usub argc a;
          dom base <- usub (bp s) k;
          dom v <- stack_get (base + 1);
          ble_go r (slot + 1) (list_set env slot v)
      | BIofArgument _ | BIofEnvironment _ =>
          match list_get cenv slot with
          | None => panic 44
          | Some (VLexPtr _ _) => ble_go r (slot + 1) env
          | Some _ =>
              if slot <? len env then ble_go r (slot + 1) (list_set env slot (VLexPtr cep slot))
              else panic 44
          end
      | _ => ble_go r (slot + 1) env
      end
  end.
End Ble.
Lemma ble_eq l cep cenv :
  build_lexical_environment l cep cenv = ble_go (len (l_args l)) cep cenv (l_envmap l) 0 cenv.
Proof. reflexivity. Qed.

Lemma hmi_ble argc cep cenv m : forall slot env, hmi (ble_go argc cep cenv m slot env).
Proof. induction m as [|[x src] r IH]; intros slot env; cbn [ble_go]; hmi; try apply IH. Qed.
Lemma hmi_build_lexical_environment l cep cenv : hmi (build_lexical_environment l cep cenv).
Proof. rewrite ble_eq. apply hmi_ble. Qed.
#[export] Hint Resolve hmi_build_lexical_environment : hmi.

Lemma rsim_ble W (G : vm -> Prop) argc cep1 cep2 cenv1 cenv2 :
  (forall s, G s -> bp s + 1 <= sp s) -> ar W cep1 cep2 -> lr W cenv1 cenv2 ->
  forall m1 m2 slot env1 env2, map snd m2 = map snd m1 -> lr W env1 env2 ->
  rsim W G (lr W) (ble_go argc cep1 cenv1 m1 slot env1) (ble_go argc cep2 cenv2 m2 slot env2).
Proof.
  intros HG Hcep Hcenv.
  induction m1 as [|[x1 src] r1 IH]; intros m2 slot env1 env2 Em He; destruct m2 as [|[x2 src2] r2]; try discriminate.
  - apply rsim_ret, He.
  - cbn [map snd] in Em. injection Em as -> Er. cbn [ble_go].
    assert (Iof : rsim W G (lr W)
              match list_get cenv1 slot with
              | None => panic 44
              | Some (VLexPtr _ _) => ble_go argc cep1 cenv1 r1 (slot + 1) env1
              | Some _ => if slot <? len env1 then ble_go argc cep1 cenv1 r1 (slot + 1) (list_set env1 slot (VLexPtr cep1 slot))
                          else panic 44
              end
              match list_get cenv2 slot with
              | None => panic 44
              | Some (VLexPtr _ _) => ble_go argc cep2 cenv2 r2 (slot + 1) env2
              | Some _ => if slot <? len env2 then ble_go argc cep2 cenv2 r2 (slot + 1) (list_set env2 slot (VLexPtr cep2 slot))
                          else panic 44
              end).
    { pose proof (lr_get W _ _ slot Hcenv) as H. destruct (list_get cenv1 slot) as [v1|]; [|apply rsim_panic].
      destruct H as (v2 & -> & [-> Lv]). rewrite (lr_len _ _ _ He).
      destruct v1; cbn [vmap]; try (apply IH; assumption);
        (destruct (slot <? len env1); [|apply rsim_panic]; apply IH; [exact Er|];
         apply lr_set; [exact He|apply vr_lexptr, Hcep]). }
    destruct src; try exact Iof; try (apply IH; assumption).
    apply rsim_bind_get_vm. intros y1 y2 Hs g. rewrite (sn_bp _ _ _ Hs).
    eapply rsim_bind; [apply rsim_usub|]. intros k1 k2 [-> Hk].
    eapply rsim_bind; [apply rsim_usub|]. intros b1 b2 [-> Hb].
    eapply rsim_bind; [apply rsim_stack_get; intros s ->; specialize (HG y1 g); lia|]. intros v1 v2 Hv.
    eapply rsim_weaken; [|apply IH; [exact Er|apply lr_set; assumption]]. intros s ->. exact g.
Qed.

(* ------------------------------------------------------------------ ENTER *)
Definition enter_tail (l : lambda) (cenv : option N) : M bool :=
  match cenv with
  | None => ret false
  | Some cep =>
      dom cev <- hget cep; dom ceid <- as_lexenv cev; dom cslots <- env_slots ceid;
      dom env <- build_lexical_environment l cep cslots;
      dom ev <- env_new env; dom evp <- hput ev; dom ei <- as_ptr evp;
      dom _ <- set_ep ei; ret false
  end.
Lemma enter_frame_eq :
  enter_frame =
  (dom s <- get_vm;
   dom target <- hderef (acc s);
   dom (lp, cenv) <- (match target with
                      | VClosure lam env => ret (lam, Some env)
                      | VLambda _ => dom p <- as_ptr (acc s); ret (p, None)
                      | _ => fail E_OTHER
                      end);
   dom lv <- hget lp; dom l <- as_lambda lv;
   dom a <- stack_get_offset (-2); dom argc <- as_argc a;
   if negb (argc =? len (l_args l)) then fail E_OTHER else
   dom _ <- push (VBp (bp s));
   dom s1 <- get_vm;
   dom nb <- usub (sp s1) 4;
   dom _ <- set_bp nb;
   enter_tail l cenv).
Proof. reflexivity. Qed.

Lemma hmi_enter_tail l c : hmi (enter_tail l c).
Proof. unfold enter_tail. hmi. Qed.
#[export] Hint Resolve hmi_enter_tail : hmi.

Definition framed (s : vm) : Prop := bp s + 4 = sp s.
Lemma simg_enter_tail W l1 c1 c2 : llive W l1 -> orel (ar W) c1 c2 ->
  simg W framed eqr (enter_tail l1 c1) (enter_tail (lmap (wf W) l1) c2).
Proof.
  intros Ll Hc. destruct c1 as [p1|], c2 as [p2|]; cbn [orel] in Hc; try contradiction; cbn [enter_tail];
    [|apply simg_of_sim, sim_ret; reflexivity].
  eapply rsimg_bind; [apply rsim_hget, Hc|]. intros v1 v2 Hv.
  eapply rsimg_bind; [apply rsim_as_lexenv, Hv|]. intros e1 e2 He.
  eapply rsimg_bind; [apply rsim_env_slots, He|]. intros s1 s2 Hsl.
  rewrite !ble_eq, lmap_args_len.
  eapply rsimg_bind.
  - apply rsim_ble; [|exact Hc|exact Hsl|apply lmap_envmap_snd|exact Hsl].
    intros s (((g & _) & _) & _). unfold framed in g. lia.
  - intros env1 env2 Henv. apply simg_of_sim.
    sb ltac:(apply sim_env_new, Henv). intros W1 ev1 ev2 E1 Hev.
    sb ltac:(apply sim_hput, Hev). intros W2 evp1 evp2 E2 Hevp.
    sb ltac:(apply sim_as_ptr, Hevp). intros W3 ei1 ei2 E3 Hei.
    sb ltac:(apply sim_set_ep, Hei). intros. apply sim_ret. reflexivity.
Qed.

Lemma vr_bp W n : vr W (VBp n) (VBp n). Proof. apply vr_plain; reflexivity. Qed.

Definition prel (W : world) (x1 x2 : N * option N) : Prop :=
  ar W (fst x1) (fst x2) /\ orel (ar W) (snd x1) (snd x2).

Lemma llive_x W W' l : ext W W' -> llive W l -> llive W' l /\ lmap (wf W') l = lmap (wf W) l.
Proof.
  intros [E _] Ll. destruct (lamr_ext W W' l (lmap (wf W) l) E (conj eq_refl Ll)) as [A B]. split; [exact B|symmetry; exact A].
Qed.

Lemma simg_enter W : simg W gtrue eqr enter_frame enter_frame.
Proof.
  rewrite enter_frame_eq.
  eapply rsimg_bind; [apply rsim_get_vm|]. intros x1 x2 (Hs & _ & _).
  eapply rsimg_bind; [apply rsim_hderef, (sn_acc _ _ _ Hs)|]. intros t1 t2 [-> Lt].
  eapply rsimg_bind with (P := prel W).
  { destruct t1; cbn [vmap]; try apply rsim_fail.
    - apply rsim_ret. split; cbn [fst snd orel]; (split; [reflexivity|apply (vlive_addr _ _ _ Lt)]); [now left|right; now left].
    - eapply rsim_bind; [apply rsim_as_ptr, (sn_acc _ _ _ Hs)|]. intros p1 p2 Hp. apply rsim_ret. split; [exact Hp|exact I]. }
  intros [p1 c1] [p2 c2] [Hp Hc]. cbn [fst snd] in Hp, Hc. cbv beta iota.
  eapply rsimg_bind; [apply rsim_hget, Hp|]. intros lv1 lv2 Hlv.
  eapply rsimg_bind; [apply rsim_as_lambda, Hlv|]. intros l1 l2 [-> Ll].
  eapply rsimg_bind; [apply rsim_stack_get_offset; lia|]. intros a1 a2 Ha.
  eapply rsimg_bind; [apply rsim_as_argc, Ha|]. intros n1 n2 <-.
  rewrite lmap_args_len. destruct (negb (n1 =? len (l_args l1))); [apply simg_of_sim, sim_fail|].
  rewrite (sn_bp _ _ _ Hs).
  eapply simg_bind; [apply simg_of_sim, sim_push, vr_bp|hmi|intros; hmi|]. intros W1 ? ? E1 _.
  apply (simg_weaken W1 gtrue); [intros; exact I|].
  destruct (llive_x W W1 l1 E1 Ll) as [Ll1 El1]. rewrite <- El1.
  assert (Hc1 : orel (ar W1) c1 c2) by (eapply orel_impl; [|exact Hc]; intros a b; apply ar_x, E1).
  eapply rsimg_bind; [apply rsim_get_vm|]. intros y1 y2 (Hy & _ & _). rewrite (sn_sp _ _ _ Hy).
  eapply rsimg_bind; [apply rsim_usub|]. intros b1 b2 [-> Hb].
  eapply simg_bind; [apply simg_of_sim, sim_set_bp|hmi|intros; hmi|]. intros W2 ? ? E2 _.
  destruct (llive_x W1 W2 l1 E2 Ll1) as [Ll2 El2]. rewrite <- El2.
  eapply simg_weaken; [|apply simg_enter_tail; [exact Ll2|eapply orel_impl; [|exact Hc1]; intros a b; apply ar_x, E2]].
  intros s (s0 & ((_ & Eg) & _) & Es). unfold get_vm in Eg. injection Eg as ->.
  unfold set_bp in Es. injection Es as Es. subst s. unfold framed. cbn [with_bp bp sp]. exact Hb.
Qed.
