(* StrHeapProofs.v — C15: the heap list built by string->list (string.rs:161-165) reads
   back as the selected characters.  Needs the allocator's invariants (free list in range
   and duplicate free, heap length a positive multiple of the chunk size).            *)
From Coq Require Import Lia FMapPositive.
From MW Require Import Model.Base Model.F64 Model.Num Model.Datum Model.TransformDef
  Model.VmTypes Model.Heap Model.VmBase Model.Str Proofs.VmProofs0 Proofs.StrProofs.
Open Scope N_scope.

(* ------------------------------------------------------------- range_asc *)
Lemma range_asc_In n : forall a x, In x (range_asc a n) <-> a <= x < a + N.of_nat n.
Proof.
  induction n as [|n IH]; intros a x; cbn [range_asc In].
  - split; [tauto|]. cbn. lia.
  - rewrite IH. lia.
Qed.

Lemma range_asc_NoDup n : forall a, NoDup (range_asc a n).
Proof.
  induction n as [|n IH]; intro a; cbn [range_asc]; constructor.
  - rewrite range_asc_In. lia.
  - apply IH.
Qed.

(* ------------------------------------------------- allocator invariants *)
Definition hwf (h : heap) : Prop :=
  (forall p, In p (free_list h) -> p < hlen h) /\ NoDup (free_list h) /\
  0 < chunk h /\ exists k, 0 < k /\ hlen h = k * chunk h.

(* a cell in use: readable and not on the free list *)
Definition used (h : heap) (p : N) (v : vcell) : Prop :=
  heap_get h p = Ok v /\ ~ In p (free_list h).

Lemma heap_get_lt h p v : heap_get h p = Ok v -> p < hlen h.
Proof. unfold heap_get. destruct (N.ltb_spec p (hlen h)); [auto|discriminate]. Qed.

Lemma heap_grow_spec h :
  hwf h -> free_list h = [] ->
  hwf (heap_grow h) /\ free_list (heap_grow h) <> [] /\
  cells (heap_grow h) = cells h /\ hlen h <= hlen (heap_grow h) /\
  (forall p, In p (free_list (heap_grow h)) -> hlen h <= p).
Proof.
  intros (Hr & Hnd & Hc & k & Hk & Hl) Hfl. unfold heap_grow. rewrite Hfl, app_nil_r.
  cbn [free_list hlen cells chunk].
  set (nc := (hlen h / chunk h * 3 + 1) / 2).
  assert (Hdiv : hlen h / chunk h = k) by (rewrite Hl; apply N.div_mul; lia).
  assert (Hnc : k + 1 <= nc).
  { unfold nc. rewrite Hdiv. apply N.div_le_lower_bound; lia. }
  assert (Hsz : hlen h + chunk h <= nc * chunk h) by (rewrite Hl; nia).
  assert (Hex : exists k', 0 < k' /\ nc * chunk h = k' * chunk h) by (exists nc; split; [lia|reflexivity]).
  set (m := nc * chunk h) in *. clearbody m.
  unfold hwf. cbn [free_list hlen cells chunk].
  split; [|split; [|split; [reflexivity|split; [lia|]]]].
  - split; [|split; [|split; [exact Hc|]]].
    + intros p Hp. apply in_rev, range_asc_In in Hp. lia.
    + apply NoDup_rev, range_asc_NoDup.
    + exact Hex.
  - intro E. apply (f_equal (@length N)) in E. rewrite rev_length in E.
    assert (Hn : (0 < N.to_nat (m - hlen h))%nat) by lia.
    destruct (N.to_nat (m - hlen h)); [lia|]. cbn in E. discriminate.
  - intros p Hp. apply in_rev, range_asc_In in Hp. lia.
Qed.

(* Heap::put of a value that is neither a pointer nor a symbol *)
Definition plain (v : vcell) : Prop :=
  match v with VPtr _ | VSym _ => False | _ => True end.

Lemma heap_put_spec h v :
  hwf h -> plain v ->
  exists q h', heap_put h v = (VPtr q, h') /\ hwf h' /\ used h' q v /\
    symtab h' = symtab h /\
    forall p x, used h p x -> used h' p x.
Proof.
  intros Hwf Hp.
  assert (Hput : heap_put h v = let '(p, h1) := heap_store_new h v in (VPtr p, h1))
    by (destruct v; cbn in Hp; try contradiction; reflexivity).
  rewrite Hput. clear Hput. unfold heap_store_new, heap_alloc.
  (* the heap the cell is taken from *)
  set (h1 := match free_list h with [] => heap_grow h | _ :: _ => h end).
  assert (H1 : hwf h1 /\ free_list h1 <> [] /\ cells h1 = cells h /\ hlen h <= hlen h1 /\
               symtab h1 = symtab h /\
               forall p, In p (free_list h1) -> In p (free_list h) \/ hlen h <= p).
  { unfold h1. destruct (free_list h) as [|q fl] eqn:Hfl.
    - destruct (heap_grow_spec h Hwf Hfl) as (A & B & C & D & E).
      split; [exact A|]. split; [exact B|]. split; [exact C|]. split; [exact D|].
      split; [reflexivity|]. intros p Hin. right. now apply E.
    - split; [exact Hwf|]. split; [rewrite Hfl; discriminate|]. split; [reflexivity|]. split; [lia|].
      split; [reflexivity|]. intros p Hin. left. now rewrite <- Hfl. }
  destruct H1 as (Hwf1 & Hne & Hcells & Hlen & Hsym & Hfree).
  destruct (free_list h1) as [|q fl] eqn:Hfl1; [congruence|].
  destruct Hwf1 as (Hr1 & Hnd1 & Hc1 & Hk1).
  exists q. eexists. split; [reflexivity|].
  assert (Hq : q < hlen h1) by (apply Hr1; rewrite Hfl1; now left).
  rewrite Hfl1 in Hnd1. inversion Hnd1 as [|x l Hqfl Hndfl]. subst x l.
  split; [|split; [|split]].
  - split; [|split; [|split]]; cbn [free_list hlen chunk].
    + intros p Hin. apply Hr1. rewrite Hfl1. now right.
    + exact Hndfl.
    + exact Hc1.
    + exact Hk1.
  - split; cbn [free_list].
    + unfold heap_get. cbn [hlen cells].
      replace (q <? hlen h1) with true by (symmetry; now apply N.ltb_lt).
      now rewrite tget_tset_same.
    + exact Hqfl.
  - cbn [symtab]. exact Hsym.
  - intros p x [Hg Hnf]. pose proof (heap_get_lt _ _ _ Hg) as Hlt.
    assert (Hpq : q <> p).
    { intro E. subst p. destruct (Hfree q ltac:(rewrite ?Hfl1; now left)) as [Hin|Hge]; [contradiction|lia]. }
    split; cbn [free_list].
    + unfold heap_get in *. cbn [hlen cells].
      replace (p <? hlen h1) with true by (symmetry; apply N.ltb_lt; lia).
      replace (p <? hlen h) with true in Hg by (symmetry; now apply N.ltb_lt).
      rewrite tget_tset_other by exact Hpq. now rewrite Hcells.
    + intro Hin. destruct (Hfree p ltac:(rewrite ?Hfl1; now right)) as [Hin'|Hge]; [contradiction|lia].
Qed.

(* a list of characters held in used cells, addressed by the cell that holds its head *)
Inductive good_list (h : heap) : N -> text -> Prop :=
| gl_nil p : used h p VNil -> good_list h p []
| gl_cons p a d c cs :
    used h p (VPair a d) -> used h a (VChar c) -> good_list h d cs -> good_list h p (c :: cs).

Lemma good_list_mono h h' :
  (forall p x, used h p x -> used h' p x) ->
  forall p cs, good_list h p cs -> good_list h' p cs.
Proof.
  intros Hm p cs H. induction H.
  - apply gl_nil. now apply Hm.
  - eapply gl_cons; eauto.
Qed.

Lemma good_list_chars h p cs :
  good_list h p cs -> exists v, heap_get h p = Ok v /\ heap_chars h v cs.
Proof.
  induction 1 as [p [Hg _]|p a d c cs [Hg _] [Ha _] Hrest (v & Hv & Hc)].
  - exists VNil. split; [exact Hg|constructor].
  - exists (VPair a d). split; [exact Hg|]. econstructor; eauto.
Qed.

Lemma hput_run s v q h' : heap_put (hp s) v = (VPtr q, h') -> hput v s = ROk (VPtr q) (with_heap s h').
Proof. intro H. unfold hput. now rewrite H. Qed.

Lemma chars_to_list_spec r : forall s p acc,
  hwf (hp s) -> good_list (hp s) p acc ->
  exists p' s', chars_to_list r (VPtr p) s = ROk (VPtr p') s' /\
    hwf (hp s') /\ good_list (hp s') p' (rev r ++ acc) /\ st s' = st s /\ sp s' = sp s.
Proof.
  induction r as [|c r IH]; intros s p acc Hwf Hgl; cbn [chars_to_list rev app].
  - exists p, s. split; [reflexivity|]. split; [exact Hwf|]. split; [exact Hgl|]. split; reflexivity.
  - destruct (heap_put_spec (hp s) (VChar c) Hwf I) as (q1 & h1 & Hp1 & Hwf1 & Hu1 & _ & Hm1).
    rewrite (bindM_ok _ _ _ _ _ (hput_run s _ _ _ Hp1)). cbn [as_ptr].
    unfold ret at 1. rewrite (bindM_ok _ _ _ q1 _ eq_refl).
    unfold ret at 1. rewrite (bindM_ok _ _ _ p _ eq_refl).
    destruct (heap_put_spec h1 (VPair q1 p) Hwf1 I) as (q2 & h2 & Hp2 & Hwf2 & Hu2 & _ & Hm2).
    rewrite (bindM_ok _ _ _ _ _ (hput_run (with_heap s h1) _ _ _ Hp2)).
    assert (Hgl2 : good_list h2 q2 (c :: acc)).
    { eapply gl_cons; [exact Hu2 | apply Hm2; exact Hu1 |].
      eapply good_list_mono; [exact Hm2|]. eapply good_list_mono; [exact Hm1|]. exact Hgl. }
    destruct (IH (with_heap (with_heap s h1) h2) q2 (c :: acc) Hwf2 Hgl2)
      as (p' & s' & Hrun & Hwf' & Hgl' & Hst' & Hsp').
    exists p', s'. rewrite Hrun. rewrite <- app_assoc. cbn [app].
    split; [reflexivity|]. split; [exact Hwf'|]. split; [exact Hgl'|]. split; [exact Hst'|exact Hsp'].
Qed.

(* string->list's construction: from a well-formed heap, the result is a pointer to a
   proper list of exactly the given characters, and the Rc store is untouched *)
Theorem string_list_heap s cs :
  hwf (hp s) ->
  exists v v' s', (dom nl <- hput VNil; chars_to_list (rev cs) nl) s = ROk v s' /\
                  st s' = st s /\ sp s' = sp s /\
                  heap_deref (hp s') v = Ok v' /\ heap_chars (hp s') v' cs.
Proof.
  intro Hwf.
  destruct (heap_put_spec (hp s) VNil Hwf I) as (q & h1 & Hp & Hwf1 & Hu & _ & _).
  rewrite (bindM_ok _ _ _ _ _ (hput_run s _ _ _ Hp)).
  destruct (chars_to_list_spec (rev cs) (with_heap s h1) q [] Hwf1 (gl_nil _ _ Hu))
    as (p' & s' & Hrun & Hwf' & Hgl & Hst & Hsp).
  rewrite rev_involutive, app_nil_r in Hgl.
  destruct (good_list_chars _ _ _ Hgl) as (v' & Hv & Hc).
  exists (VPtr p'), v', s'. split; [exact Hrun|]. split; [exact Hst|]. split; [exact Hsp|].
  split; [exact Hv|exact Hc].
Qed.

(* the heap of a freshly created machine is well formed *)
Lemma heap_new_wf c : 0 < c -> hwf (heap_new c).
Proof.
  intro Hc. unfold heap_new, hwf. cbn [free_list hlen chunk].
  split; [|split; [|split; [exact Hc|]]].
  - intros p Hp. apply range_asc_In in Hp. lia.
  - apply range_asc_NoDup.
  - exists 1. split; lia.
Qed.
