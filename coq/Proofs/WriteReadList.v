(* WriteReadList.v — C10 (e): the composite theorem.  For every readable datum d
   (nested lists proper and improper, vectors, quote forms, without bound):
     parse_text (write d) = Ok (reread_cell d, None)     write_read
     write (reread_cell d) = write d                     write_stable
   where reread_cell only normalises the representation of exact numbers.
   Method ("separable token rendering"): [wr_ok d d']: wherever the written form of d
   stands in a text, followed by a delimiter, the scanner produces a block of tokens
   for it and continues behind it, and the parser turns exactly that block into d'.
   The written form of a pair/vector is cut into the pieces the printer emits
   ([wrest], [vrest]) and the invariant is carried through parse_list/parse_vector. *)
From Coq Require Import String ZArith List Bool Lia.
From Flocq Require Import IEEE754.BinarySingleNaN.
From MW Require Import Model.Base Model.F64 Model.Num Model.Digits Model.F64Fmt Model.NumFmt
  Model.Datum Model.Lex Model.Parse
  Proofs.LexProofs Proofs.ParseProofs Proofs.NumFmtProofs Proofs.LiteralProofs Proofs.WriteReadProofs.
Open Scope N_scope.

(* ------------------------------------------------------------ the scanner *)
(* scanning [l] from byte offset [o] yields [ts], for every sufficient fuel *)
Definition Scans (o : N) (l : list N) (ts : list token) : Prop :=
  forall fuel, (length l < fuel)%nat -> scan_fuel fuel o l = Ok ts.

Lemma Scans_nil o : Scans o [] [].
Proof. intros fuel Hf. destruct fuel; [lia|reflexivity]. Qed.

Lemma Scans_tok o (c : N) (r : list N) ty a b ts : lex1 c r = STok ty a b -> Scans (o + blen a) b ts ->
  Scans o (c :: r) (mk_token o (o + blen a) ty :: ts).
Proof.
  intros H Hs fuel Hf. destruct fuel as [|f]; [lia|]. cbn [scan_fuel]. rewrite H.
  destruct (lex1_tok _ _ _ _ _ H) as [E Ha]. pose proof (app_length_lt a b Ha) as Hlt.
  unfold cp, text in *. rewrite <- E in Hlt. cbn [length] in *. rewrite (Hs f) by lia. reflexivity.
Qed.

Lemma Scans_skip o (c : N) (r : list N) a b ts : lex1 c r = SSkip a b -> Scans (o + blen a) b ts ->
  Scans o (c :: r) ts.
Proof.
  intros H Hs fuel Hf. destruct fuel as [|f]; [lia|]. cbn [scan_fuel]. rewrite H.
  destruct (lex1_skip _ _ _ _ H) as (E & Ha & _). pose proof (app_length_lt a b Ha) as Hlt.
  unfold cp, text in *. rewrite <- E in Hlt. cbn [length] in *. apply Hs. lia.
Qed.

Lemma Scans_scan (t : list N) ts : Scans 0 t ts -> scan t = Ok ts.
Proof. intros H. unfold scan. apply H. apply Nat.lt_succ_diag_r. Qed.

Lemma Scans_eq o o' (l : list N) ts : o = o' -> Scans o l ts -> Scans o' l ts.
Proof. intros ->. auto. Qed.

Ltac u8 := change (utf8_len 32) with 1 in *; change (utf8_len 40) with 1 in *;
           change (utf8_len 41) with 1 in *; change (utf8_len 39) with 1 in *;
           change (utf8_len 35) with 1 in *; change (utf8_len 46) with 1 in *.
(* the offset reached by a scan, up to arithmetic *)
Ltac offs H := eapply Scans_eq; [|exact H]; clear; u8; lia.

(* the punctuation the printer emits *)
Lemma Scans_space o (r : list N) ts : Scans (o + 1) r ts -> Scans o (32 :: r) ts.
Proof. intros H. apply (Scans_skip o 32 r [32] r); [reflexivity|exact H]. Qed.
Lemma Scans_left o (r : list N) ts : Scans (o + 1) r ts -> Scans o (40 :: r) (mk_token o (o + 1) TLeft :: ts).
Proof. intros H. apply (Scans_tok o 40 r TLeft [40] r); [reflexivity|exact H]. Qed.
Lemma Scans_right o (r : list N) ts : Scans (o + 1) r ts -> Scans o (41 :: r) (mk_token o (o + 1) TRight :: ts).
Proof. intros H. apply (Scans_tok o 41 r TRight [41] r); [reflexivity|exact H]. Qed.
Lemma Scans_quote o (r : list N) ts : Scans (o + 1) r ts -> Scans o (39 :: r) (mk_token o (o + 1) TQuote :: ts).
Proof. intros H. apply (Scans_tok o 39 r TQuote [39] r); [reflexivity|exact H]. Qed.
Lemma Scans_hashparen o (r : list N) ts : Scans (o + 2) r ts ->
  Scans o (35 :: 40 :: r) (mk_token o (o + 2) THashParen :: ts).
Proof. intros H. apply (Scans_tok o 35 (40 :: r) THashParen [35; 40] r); [reflexivity|exact H]. Qed.
(* " . " between the last element and an improper tail: the dot is followed by a space *)
Lemma Scans_dot o (r : list N) ts : Scans (o + 1) (32 :: r) ts ->
  Scans o (46 :: 32 :: r) (mk_token o (o + 1) TDot :: ts).
Proof. intros H. apply (Scans_tok o 46 (32 :: r) TDot [46] (32 :: r)); [reflexivity|exact H]. Qed.

(* ------------------------------------------------ the pieces of a written datum *)
(* the tail of a written list after its first element (the inner [rest] of show_cell) *)
Fixpoint wrest (d : cell) : text :=
  match d with
  | CNil => [41]
  | CPair na nd => [32] ++ write na ++ wrest nd
  | other => [32; 46; 32] ++ write other ++ [41]
  end.
(* the tail of a written vector after its first element *)
Fixpoint vrest (l : list cell) : text :=
  match l with
  | [] => [41]
  | x :: r => [32] ++ write x ++ vrest r
  end.

Definition is_quote_form (a d : cell) : bool :=
  match d with CPair _ CNil => sym_is a QUOTE | _ => false end.

Lemma write_pair a d : write (CPair a d) =
  match d with
  | CPair x CNil => if sym_is a QUOTE then 39 :: write x else 40 :: write a ++ wrest d
  | _ => 40 :: write a ++ wrest d
  end.
Proof.
  assert (Hrest : forall d0,
    (fix rest (d : cell) : text :=
       match d with
       | CNil => [41]
       | CPair na nd => [32] ++ show_cell true na ++ rest nd
       | other => [32; 46; 32] ++ show_cell true other ++ [41]
       end) d0 = wrest d0).
  { intros d0. reflexivity. }
  unfold write. cbn [show_cell]. rewrite Hrest.
  destruct d as [| | | |x y| | | | | | | |]; reflexivity.
Qed.

Fixpoint velems (l : list cell) : text :=
  match l with
  | [] => []
  | [x] => write x
  | x :: (_ :: _) as r => write x ++ [32] ++ velems r
  end.

Lemma velems_vrest l : velems l ++ [41] = match l with [] => [41] | x :: r => write x ++ vrest r end.
Proof.
  induction l as [|x r IH]; [reflexivity|]. destruct r as [|y r']; [reflexivity|].
  change (velems (x :: y :: r')) with (write x ++ [32] ++ velems (y :: r')).
  unfold cp, text in *. rewrite <- !app_assoc. rewrite IH. reflexivity.
Qed.

Lemma write_vec l : write (CVec l) =
  35 :: 40 :: match l with [] => [41] | x :: r => write x ++ vrest r end.
Proof.
  change (write (CVec l)) with ([35; 40] ++ velems l ++ [41]). rewrite velems_vrest. reflexivity.
Qed.

(* ---------------------------------------------------------------- positions *)
(* the piece [w] stands in the text [t] at byte offset [o] *)
Definition at_pos (t : list N) (o : N) (w : list N) : Prop :=
  exists pre post, t = pre ++ w ++ post /\ blen pre = o.

Lemma at_pos_sub t o (a w b : list N) : at_pos t o (a ++ w ++ b) -> at_pos t (o + blen a) w.
Proof.
  intros (pre & post & -> & <-). exists (pre ++ a), (b ++ post). split.
  - rewrite <- !app_assoc. reflexivity.
  - apply blen_app.
Qed.

Lemma at_pos_head t o (w b : list N) : at_pos t o (w ++ b) -> at_pos t o w.
Proof.
  intros H. pose proof (at_pos_sub t o [] w b H) as H'. cbn [blen] in H'. rewrite N.add_0_r in H'. exact H'.
Qed.

Lemma at_pos_span t o w ty : at_pos t o w -> tok_span t (mk_token o (o + blen w) ty) = Ok w.
Proof. intros (pre & post & -> & <-). unfold tok_span. cbn [t_start t_end]. apply slice_mid. Qed.

Lemma at_pos_first_char t o (c : N) (w : list N) ty : utf8_len c = 1 -> at_pos t o (c :: w) ->
  first_char t (mk_token o (o + 1) ty) = Ok c.
Proof.
  intros Hu H. change (c :: w) with ([c] ++ w) in H. apply at_pos_head in H.
  pose proof (at_pos_span t o [c] ty H) as Hs. cbn [blen] in Hs. rewrite Hu, N.add_0_r in Hs.
  unfold first_char. unfold cp, text in *. rewrite Hs. reflexivity.
Qed.

(* ------------------------------------------------------------ the invariants *)
Definition starts_datum (k : token) : Prop := t_ty k <> TRight /\ t_ty k <> TDot.

Definition wr_ok (d d' : cell) : Prop :=
  forall o (post : list N) ts, delim post -> Scans (o + blen (write d)) post ts ->
  exists k0 tsd n, (n <= S (length tsd))%nat /\ starts_datum k0 /\ Scans o (write d ++ post) (k0 :: tsd ++ ts) /\
    forall t, at_pos t o (write d) ->
      forall fuel rest, (n <= fuel)%nat -> parse fuel t (k0 :: tsd ++ rest) = Ok (d', rest).

Definition rest_ok (d d' : cell) : Prop :=
  forall o (post : list N) ts, Scans (o + blen (wrest d)) post ts ->
  exists tsd n, (1 <= length tsd)%nat /\ (n <= length tsd)%nat /\ Scans o (wrest d ++ post) (tsd ++ ts) /\
    forall t, at_pos t o (wrest d) ->
      forall start acc fuel rest, acc <> [] -> first_char t start = Ok 40 -> (n <= fuel)%nat ->
        parse_list fuel t (tsd ++ rest) start acc = Ok (mk_list (rev acc) d', rest).

Definition vrest_ok (l l' : list cell) : Prop :=
  forall o (post : list N) ts, Scans (o + blen (vrest l)) post ts ->
  exists tsd n, (1 <= length tsd)%nat /\ (n <= length tsd)%nat /\ Scans o (vrest l ++ post) (tsd ++ ts) /\
    forall t, at_pos t o (vrest l) ->
      forall acc fuel rest, (n <= fuel)%nat ->
        parse_vector fuel t (tsd ++ rest) acc = Ok (CVec (rev acc ++ l'), rest).

Lemma wrest_delim d (post : list N) : delim (wrest d ++ post).
Proof. destruct d; cbn; auto. Qed.
Lemma vrest_delim l (post : list N) : delim (vrest l ++ post).
Proof. destruct l; cbn; auto. Qed.

Lemma mk_list_app l1 l2 tl : mk_list (l1 ++ l2) tl = mk_list l1 (mk_list l2 tl).
Proof. induction l1 as [|x l1 IH]; cbn [app mk_list]; [reflexivity|rewrite IH; reflexivity]. Qed.

(* the default arm of parse_list / parse_vector: the next token starts a datum *)
Lemma parse_list_elem f t k r start acc : starts_datum k ->
  parse_list (S f) t (k :: r) start acc =
  (do (d, r') <- parse f t (k :: r); parse_list f t r' start (d :: acc)).
Proof. intros [H1 H2]. cbn [parse_list]. destruct (t_ty k); try reflexivity; congruence. Qed.

Lemma parse_vector_elem f t k r acc : starts_datum k ->
  parse_vector (S f) t (k :: r) acc =
  (do (d, r') <- parse f t (k :: r); parse_vector f t r' (d :: acc)).
Proof. intros [H1 H2]. cbn [parse_vector]. destruct (t_ty k); try reflexivity; congruence. Qed.

(* ------------------------------------------------------------------ atoms *)
Lemma atom_wr_ok a a' : atom_ok a a' -> wr_ok a a'.
Proof.
  intros (c & r & ty & Ew & Hty & Hlex & Hp) o post ts Hd Hs.
  exists (mk_token o (o + blen (c :: r)) ty), [], 1%nat. split; [cbn; lia|]. split; [|split].
  - unfold starts_datum. cbn [t_ty].
    destruct Hty as [-> | [-> | [-> | [-> | [-> | ->]]]]]; split; discriminate.
  - rewrite Ew in *. cbn [app]. apply (Scans_tok o c (r ++ post) ty (c :: r) post); [apply Hlex, Hd|exact Hs].
  - intros t Hpos fuel rest Hf. destruct fuel as [|f]; [lia|]. cbn [app].
    rewrite Ew in Hpos.
    rewrite (parse_leaf f t (mk_token o (o + blen (c :: r)) ty) rest ty (c :: r) eq_refl Hty (at_pos_span t o (c :: r) ty Hpos)).
    unfold cp, text in *. rewrite Hp. reflexivity.
Qed.

Lemma nil_wr_ok : wr_ok CNil CNil.
Proof.
  intros o post ts Hd Hs. change (write CNil) with [40; 41] in *. cbn [blen utf8_len] in Hs.
  exists (mk_token o (o + 1) TLeft), [mk_token (o + 1) (o + 1 + 1) TRight], 2%nat. split; [cbn; lia|]. split; [|split].
  - split; discriminate.
  - cbn [app]. apply Scans_left, Scans_right.
    replace (o + 1 + 1) with (o + (1 + (1 + 0))) by lia. exact Hs.
  - intros t Hpos fuel rest Hf. destruct fuel as [|[|f]]; try lia. cbn [app parse t_ty parse_list].
    assert (F1 : first_char t (mk_token o (o + 1) TLeft) = Ok 40)
      by (apply (at_pos_first_char t o 40 [41]); [reflexivity|exact Hpos]).
    assert (F2 : first_char t (mk_token (o + 1) (o + 1 + 1) TRight) = Ok 41).
    { apply (at_pos_first_char t (o + 1) 41 []); [reflexivity|].
      apply (at_pos_sub t o [40] [41] []). exact Hpos. }
    rewrite F1, F2. reflexivity.
Qed.

Lemma nil_rest_ok : rest_ok CNil CNil.
Proof.
  intros o post ts Hs. cbn [wrest blen utf8_len] in *.
  exists [mk_token o (o + 1) TRight], 1%nat. split; [cbn; lia|]. split; [cbn; lia|]. split.
  - cbn [app]. apply Scans_right. replace (o + 1) with (o + (1 + 0)) by lia. exact Hs.
  - intros t Hpos start acc fuel rest Hacc Hst Hf. destruct fuel as [|f]; [lia|].
    cbn [app parse_list t_ty]. rewrite Hst. cbn [bind].
    rewrite (at_pos_first_char t o 41 [] TRight eq_refl Hpos). reflexivity.
Qed.

(* a non-list tail: " . <datum>)" *)
Lemma other_rest_ok d d' : wr_ok d d' -> d <> CNil -> (forall a b, d <> CPair a b) -> rest_ok d d'.
Proof.
  intros Hw Hn Hp o post ts Hs.
  assert (Ew : wrest d = [32; 46; 32] ++ write d ++ [41]).
  { destruct d; try reflexivity; [congruence|exfalso; eapply Hp; reflexivity]. }
  rewrite Ew in *. rewrite !blen_app in Hs. cbn [blen utf8_len] in Hs.
  destruct (Hw (o + 3) (41 :: post) (mk_token (o + 3 + blen (write d)) (o + 3 + blen (write d) + 1) TRight :: ts))
    as (k0 & tsd & n & Hb & Hk0 & Hsc & Hpar).
  { cbn. auto. }
  { apply Scans_right. replace (o + 3 + blen (write d) + 1) with (o + (1 + (1 + (1 + 0)) + (blen (write d) + (1 + 0)))) by lia.
    exact Hs. }
  exists (mk_token (o + 1) (o + 1 + 1) TDot :: (k0 :: tsd) ++ [mk_token (o + 3 + blen (write d)) (o + 3 + blen (write d) + 1) TRight]),
         (S (S n)). split; [cbn [length]; lia|]. split; [cbn [length]; rewrite app_length; cbn [length]; lia|]. split.
  - cbn [app]. apply Scans_space, Scans_dot, Scans_space.
    replace (o + 1 + 1 + 1) with (o + 3) by lia.
    rewrite <- !app_assoc. cbn [app]. exact Hsc.
  - intros t Hpos start acc fuel rest Hacc Hst Hf. destruct fuel as [|f]; [lia|].
    cbn [app parse_list t_ty]. destruct acc as [|a0 acc']; [congruence|].
    destruct Hk0 as [K1 K2].
    assert (Hsel : forall (A : Type) (x y : A), match t_ty k0 with TDot | TRight => x | _ => y end = y)
      by (intros; destruct (t_ty k0); congruence).
    rewrite <- app_assoc. cbn [app]. rewrite Hsel.
    assert (Hpos' : at_pos t (o + 3) (write d)).
    { pose proof (at_pos_sub t o [32; 46; 32] (write d) [41] Hpos) as H. cbn [blen utf8_len] in H.
      replace (o + (1 + (1 + (1 + 0)))) with (o + 3) in H by lia. exact H. }
    rewrite (Hpar t Hpos' f _ ltac:(lia)). cbn [bind t_ty].
    unfold new_improper_list. destruct (rev (a0 :: acc')) eqn:Er; [|reflexivity].
    apply (f_equal (@length cell)) in Er. rewrite rev_length in Er. discriminate.
Qed.

(* one more element in the tail of a list: " <datum><tail>" *)
Lemma cons_rest_ok na na' nd nd' : wr_ok na na' -> rest_ok nd nd' -> rest_ok (CPair na nd) (CPair na' nd').
Proof.
  intros Hw Hr o post ts Hs. cbn [wrest] in *. rewrite !blen_app in Hs. cbn [blen] in Hs.
  destruct (Hr (o + 1 + blen (write na)) post ts) as (ts2 & n2 & L2 & B2 & Hsc2 & Hpar2).
  { offs Hs. }
  destruct (Hw (o + 1) (wrest nd ++ post) (ts2 ++ ts) (wrest_delim nd post) Hsc2) as (k0 & ts1 & n1 & B1 & Hk0 & Hsc1 & Hpar1).
  exists ((k0 :: ts1) ++ ts2), (S (Nat.max n1 n2)).
  split; [rewrite app_length; cbn [length]; lia|]. split; [rewrite app_length; cbn [length]; lia|]. split.
  - cbn [app]. apply Scans_space. rewrite <- !app_assoc. cbn [app]. exact Hsc1.
  - intros t Hpos start acc fuel rest Hacc Hst Hf. destruct fuel as [|f]; [lia|].
    rewrite <- app_assoc. cbn [app]. rewrite (parse_list_elem f t k0 _ start acc Hk0).
    assert (P1 : at_pos t (o + 1) (write na)).
    { pose proof (at_pos_sub t o [32] (write na) (wrest nd) Hpos) as H. cbn in H.
      replace (o + 1) with (o + (1 + 0)) by lia. exact H. }
    assert (P2 : at_pos t (o + 1 + blen (write na)) (wrest nd)).
    { pose proof (at_pos_sub t o ([32] ++ write na) (wrest nd) []) as H. rewrite app_nil_r, <- app_assoc in H.
      specialize (H Hpos). rewrite blen_app in H. cbn in H.
      replace (o + 1 + blen (write na)) with (o + (1 + 0 + blen (write na))) by lia. exact H. }
    rewrite (Hpar1 t P1 f (ts2 ++ rest) ltac:(lia)). cbn [bind].
    rewrite (Hpar2 t P2 start (na' :: acc) f rest ltac:(discriminate) Hst ltac:(lia)).
    cbn [rev]. rewrite mk_list_app. reflexivity.
Qed.

(* a list written with parentheses: "(<first><tail>" *)
Lemma pair_wr_ok a a' d d' : write (CPair a d) = 40 :: write a ++ wrest d ->
  wr_ok a a' -> rest_ok d d' -> wr_ok (CPair a d) (CPair a' d').
Proof.
  intros Ew Hw Hr o post ts Hd Hs. rewrite Ew in *. cbn [blen] in Hs. rewrite blen_app in Hs.
  destruct (Hr (o + 1 + blen (write a)) post ts) as (ts2 & n2 & L2 & B2 & Hsc2 & Hpar2).
  { offs Hs. }
  destruct (Hw (o + 1) (wrest d ++ post) (ts2 ++ ts) (wrest_delim d post) Hsc2) as (k0 & ts1 & n1 & B1 & Hk0 & Hsc1 & Hpar1).
  exists (mk_token o (o + 1) TLeft), ((k0 :: ts1) ++ ts2), (S (S (Nat.max n1 n2))).
  split; [rewrite app_length; cbn [length]; lia|]. split; [|split].
  - split; discriminate.
  - cbn [app]. apply Scans_left. rewrite <- !app_assoc. cbn [app]. exact Hsc1.
  - intros t Hpos fuel rest Hf. destruct fuel as [|[|f]]; try lia.
    cbn [parse t_ty]. rewrite <- app_assoc. cbn [app]. rewrite (parse_list_elem f t k0 _ _ [] Hk0).
    assert (P1 : at_pos t (o + 1) (write a)).
    { pose proof (at_pos_sub t o [40] (write a) (wrest d) Hpos) as H. cbn in H.
      replace (o + 1) with (o + (1 + 0)) by lia. exact H. }
    assert (P2 : at_pos t (o + 1 + blen (write a)) (wrest d)).
    { pose proof (at_pos_sub t o ([40] ++ write a) (wrest d) []) as H. rewrite app_nil_r, <- app_assoc in H.
      specialize (H Hpos). rewrite blen_app in H. cbn in H.
      replace (o + 1 + blen (write a)) with (o + (1 + 0 + blen (write a))) by lia. exact H. }
    rewrite (Hpar1 t P1 f (ts2 ++ rest) ltac:(lia)). cbn [bind].
    assert (F1 : first_char t (mk_token o (o + 1) TLeft) = Ok 40)
      by (apply (at_pos_first_char t o 40 (write a ++ wrest d)); [reflexivity|exact Hpos]).
    rewrite (Hpar2 t P2 _ [a'] f rest ltac:(discriminate) F1 ltac:(lia)). reflexivity.
Qed.

(* the quote sugar: 'x *)
Lemma quote_wr_ok x x' : wr_ok x x' ->
  wr_ok (CPair (CSym QUOTE) (CPair x CNil)) (CPair (CSym QUOTE) (CPair x' CNil)).
Proof.
  intros Hw o post ts Hd Hs.
  assert (Ew : write (CPair (CSym QUOTE) (CPair x CNil)) = 39 :: write x) by (rewrite write_pair; reflexivity).
  rewrite Ew in *. cbn [blen] in Hs.
  destruct (Hw (o + 1) post ts Hd) as (k0 & ts1 & n1 & B1 & Hk0 & Hsc1 & Hpar1).
  { offs Hs. }
  exists (mk_token o (o + 1) TQuote), (k0 :: ts1), (S n1). split; [cbn [length]; lia|]. split; [|split].
  - split; discriminate.
  - cbn [app]. apply Scans_quote. exact Hsc1.
  - intros t Hpos fuel rest Hf. destruct fuel as [|f]; [lia|]. cbn [parse t_ty app].
    assert (P1 : at_pos t (o + 1) (write x)).
    { pose proof (at_pos_sub t o [39] (write x) []) as H. rewrite app_nil_r in H. specialize (H Hpos). cbn in H.
      replace (o + 1) with (o + (1 + 0)) by lia. exact H. }
    rewrite (Hpar1 t P1 f rest ltac:(lia)). reflexivity.
Qed.

(* vectors *)
Lemma nil_vrest_ok : vrest_ok [] [].
Proof.
  intros o post ts Hs. cbn [vrest blen utf8_len] in *.
  exists [mk_token o (o + 1) TRight], 1%nat. split; [cbn; lia|]. split; [cbn; lia|]. split.
  - cbn [app]. apply Scans_right. replace (o + 1) with (o + (1 + 0)) by lia. exact Hs.
  - intros t Hpos acc fuel rest Hf. destruct fuel as [|f]; [lia|].
    cbn [app parse_vector t_ty]. rewrite (at_pos_first_char t o 41 [] TRight eq_refl Hpos).
    cbn [bind]. rewrite app_nil_r. reflexivity.
Qed.

Lemma cons_vrest_ok x x' l l' : wr_ok x x' -> vrest_ok l l' -> vrest_ok (x :: l) (x' :: l').
Proof.
  intros Hw Hr o post ts Hs. cbn [vrest] in *. rewrite !blen_app in Hs. cbn [blen] in Hs.
  destruct (Hr (o + 1 + blen (write x)) post ts) as (ts2 & n2 & L2 & B2 & Hsc2 & Hpar2).
  { offs Hs. }
  destruct (Hw (o + 1) (vrest l ++ post) (ts2 ++ ts) (vrest_delim l post) Hsc2) as (k0 & ts1 & n1 & B1 & Hk0 & Hsc1 & Hpar1).
  exists ((k0 :: ts1) ++ ts2), (S (Nat.max n1 n2)).
  split; [rewrite app_length; cbn [length]; lia|]. split; [rewrite app_length; cbn [length]; lia|]. split.
  - cbn [app]. apply Scans_space. rewrite <- !app_assoc. cbn [app]. exact Hsc1.
  - intros t Hpos acc fuel rest Hf. destruct fuel as [|f]; [lia|].
    rewrite <- app_assoc. cbn [app]. rewrite (parse_vector_elem f t k0 _ acc Hk0).
    assert (P1 : at_pos t (o + 1) (write x)).
    { pose proof (at_pos_sub t o [32] (write x) (vrest l) Hpos) as H. cbn in H.
      replace (o + 1) with (o + (1 + 0)) by lia. exact H. }
    assert (P2 : at_pos t (o + 1 + blen (write x)) (vrest l)).
    { pose proof (at_pos_sub t o ([32] ++ write x) (vrest l) []) as H. rewrite app_nil_r, <- app_assoc in H.
      specialize (H Hpos). rewrite blen_app in H. cbn in H.
      replace (o + 1 + blen (write x)) with (o + (1 + 0 + blen (write x))) by lia. exact H. }
    rewrite (Hpar1 t P1 f (ts2 ++ rest) ltac:(lia)). cbn [bind].
    rewrite (Hpar2 t P2 (x' :: acc) f rest ltac:(lia)).
    cbn [rev]. rewrite <- app_assoc. reflexivity.
Qed.

Lemma vec_wr_ok l l' : Forall2 wr_ok l l' -> wr_ok (CVec l) (CVec l').
Proof.
  intros HF o post ts Hd Hs. rewrite write_vec in *.
  assert (Hvr : forall m m', Forall2 wr_ok m m' -> vrest_ok m m').
  { induction 1; [apply nil_vrest_ok|apply cons_vrest_ok; assumption]. }
  destruct HF as [|x x' r r' Hx Hr].
  - (* #() *)
    cbn [blen utf8_len] in Hs.
    exists (mk_token o (o + 2) THashParen), [mk_token (o + 2) (o + 2 + 1) TRight], 2%nat. split; [cbn; lia|]. split; [|split].
    + split; discriminate.
    + cbn [app]. apply Scans_hashparen, Scans_right.
      replace (o + 2 + 1) with (o + (1 + (1 + (1 + 0)))) by lia. exact Hs.
    + intros t Hpos fuel rest Hf. destruct fuel as [|[|f]]; try lia. cbn [app parse t_ty parse_vector].
      assert (F : first_char t (mk_token (o + 2) (o + 2 + 1) TRight) = Ok 41).
      { apply (at_pos_first_char t (o + 2) 41 []); [reflexivity|].
        pose proof (at_pos_sub t o [35; 40] [41] [] Hpos) as H. cbn in H.
        replace (o + 2) with (o + (1 + (1 + 0))) by lia. exact H. }
      rewrite F. reflexivity.
  - cbn [blen] in Hs. rewrite blen_app in Hs.
    destruct (Hvr r r' Hr (o + 2 + blen (write x)) post ts) as (ts2 & n2 & L2 & B2 & Hsc2 & Hpar2).
    { offs Hs. }
    destruct (Hx (o + 2) (vrest r ++ post) (ts2 ++ ts) (vrest_delim r post) Hsc2) as (k0 & ts1 & n1 & B1 & Hk0 & Hsc1 & Hpar1).
    exists (mk_token o (o + 2) THashParen), ((k0 :: ts1) ++ ts2), (S (S (Nat.max n1 n2))).
    split; [rewrite app_length; cbn [length]; lia|]. split; [|split].
    + split; discriminate.
    + cbn [app]. apply Scans_hashparen. rewrite <- !app_assoc. cbn [app]. exact Hsc1.
    + intros t Hpos fuel rest Hf. destruct fuel as [|[|f]]; try lia.
      cbn [parse t_ty]. rewrite <- app_assoc. cbn [app]. rewrite (parse_vector_elem f t k0 _ [] Hk0).
      assert (P1 : at_pos t (o + 2) (write x)).
      { pose proof (at_pos_sub t o [35; 40] (write x) (vrest r) Hpos) as H. cbn in H.
        replace (o + 2) with (o + (1 + (1 + 0))) by lia. exact H. }
      assert (P2 : at_pos t (o + 2 + blen (write x)) (vrest r)).
      { pose proof (at_pos_sub t o ([35; 40] ++ write x) (vrest r) []) as H. rewrite app_nil_r, <- app_assoc in H.
        specialize (H Hpos). rewrite blen_app in H. cbn in H.
        replace (o + 2 + blen (write x)) with (o + (1 + (1 + 0) + blen (write x))) by lia. exact H. }
      rewrite (Hpar1 t P1 f (ts2 ++ rest) ltac:(lia)). cbn [bind].
      rewrite (Hpar2 t P2 [x'] f rest ltac:(lia)). reflexivity.
Qed.

(* ------------------------------------------------------------ readable data *)
(* what reading the written form yields: the same datum, exact numbers in their normal
   representation (C16 [reread]: a small bignum comes back as a fixnum) *)
Fixpoint reread_cell (d : cell) : cell :=
  match d with
  | CNum n => CNum (reread n)
  | CPair a b => CPair (reread_cell a) (reread_cell b)
  | CVec l => CVec (map reread_cell l)
  | _ => d
  end.

(* the data of the property: booleans, characters, strings of scalar values, the
   reader's symbols, exact numbers in every representation, finite doubles, the empty
   list, pairs (hence proper and improper lists, quote forms) and vectors of such,
   nested without bound *)
Fixpoint readable (d : cell) : Prop :=
  match d with
  | CBool _ | CChar _ | CNil => True
  | CStr s => Forall (fun c => is_scalar c = true) s
  | CSym s => reader_symbol s
  | CNum (Float x) => is_finite x = true
  | CNum n => exact_wf n
  | CPair a b => readable a /\ readable b
  | CVec l => (fix all (l : list cell) : Prop :=
                 match l with [] => True | x :: r => readable x /\ all r end) l
  | _ => False
  end.

Lemma readable_vec l : readable (CVec l) <-> Forall readable l.
Proof.
  cbn [readable]. induction l as [|x r IH]; [split; constructor|].
  split.
  - intros [Hx Hr]. constructor; [exact Hx|apply IH; exact Hr].
  - intros H. inversion H; subst. split; [assumption|apply IH; assumption].
Qed.

Section CellInd.
Variable P : cell -> Prop.
Hypothesis Hatom : forall c, (forall a d, c <> CPair a d) -> (forall l, c <> CVec l) -> P c.
Hypothesis Hpair : forall a d, P a -> P d -> P (CPair a d).
Hypothesis Hvec : forall l, Forall P l -> P (CVec l).
Fixpoint cell_ind3 (c : cell) : P c :=
  match c with
  | CPair a d => Hpair a d (cell_ind3 a) (cell_ind3 d)
  | CVec l => Hvec l ((fix go (l : list cell) : Forall P l :=
                         match l with
                         | [] => Forall_nil P
                         | x :: r => Forall_cons x (cell_ind3 x) (go r)
                         end) l)
  | c' => Hatom c' ltac:(discriminate) ltac:(discriminate)
  end.
End CellInd.

Lemma sym_is_eq a name : sym_is a name = true -> a = CSym name.
Proof.
  destruct a; cbn [sym_is]; try discriminate.
  destruct (list_eq_dec N.eq_dec s name) as [->|]; [reflexivity|discriminate].
Qed.

Lemma quote_form_cases a d :
  (exists x, d = CPair x CNil /\ a = CSym QUOTE) \/ write (CPair a d) = 40 :: write a ++ wrest d.
Proof.
  rewrite write_pair. destruct d as [| | | |x y| | | | | | | |]; try (right; reflexivity).
  destruct y; try (right; reflexivity).
  destruct (sym_is a QUOTE) eqn:E; [|right; reflexivity].
  left. exists x. split; [reflexivity|apply sym_is_eq; exact E].
Qed.

Section Composite.
  (* the three OPEN statements of Props/C16.v about the specification of std's float
     formatting and parsing; used for float atoms only *)
  Hypothesis std_roundtrip : forall x : f64, is_finite x = true -> dec2flt (num_display (Float x)) = Some x.
  Hypothesis display_point : forall x : f64, is_finite x = true ->
    f64_ltb F_1E10 x = false -> float_is_integer x = false -> In 46%N (fmt_display x).
  Hypothesis no_inner_minus : forall x : f64, is_finite x = true -> ~ In 45%N (tl (num_display (Float x))).

  Definition all_ok (d : cell) : Prop :=
    readable d ->
    wr_ok d (reread_cell d) /\ rest_ok d (reread_cell d) /\
    (forall x y, d = CPair x y -> wr_ok x (reread_cell x)).

  Lemma atom_all_ok c : (forall a d, c <> CPair a d) -> (forall l, c <> CVec l) -> all_ok c.
  Proof.
    intros Hnp Hnv Hr.
    assert (Hother : forall c', c <> CNil -> atom_ok c c' -> wr_ok c c' /\ rest_ok c c' /\
              (forall x y, c = CPair x y -> wr_ok x (reread_cell x))).
    { intros c' Hn Ha. pose proof (atom_wr_ok c c' Ha) as Hw. split; [exact Hw|]. split.
      - apply other_rest_ok; assumption.
      - intros x y E. exfalso. eapply Hnp; exact E. }
    destruct c; cbn [readable] in Hr; try contradiction.
    - apply Hother; [discriminate|apply atom_bool].
    - apply Hother; [discriminate|apply atom_char].
    - split; [apply nil_wr_ok|]. split; [apply nil_rest_ok|]. intros x y E; discriminate.
    - cbn [reread_cell]. apply Hother; [discriminate|].
      destruct n; try (apply atom_exact; exact Hr).
      apply atom_float; assumption.
    - exfalso. eapply Hnp; reflexivity.
    - apply Hother; [discriminate|apply atom_string; exact Hr].
    - apply Hother; [discriminate|apply atom_symbol; exact Hr].
    - exfalso. eapply Hnv; reflexivity.
  Qed.

  Theorem readable_all_ok : forall d, all_ok d.
  Proof.
    induction d as [c Hnp Hnv|a d IHa IHd|l HF] using cell_ind3.
    - apply atom_all_ok; assumption.
    - intros [Ra Rd]. destruct (IHa Ra) as (Wa & _ & _). destruct (IHd Rd) as (Wd & Rsd & Xd).
      cbn [reread_cell]. split; [|split].
      + destruct (quote_form_cases a d) as [(x & -> & ->)|Ew].
        * cbn [reread_cell]. apply quote_wr_ok. apply (Xd x CNil eq_refl).
        * apply pair_wr_ok; assumption.
      + apply cons_rest_ok; assumption.
      + intros x y E. injection E as <- <-. exact Wa.
    - intros Rl. apply readable_vec in Rl.
      assert (HF2 : Forall2 wr_ok l (map reread_cell l)).
      { induction HF as [|x r Hx _ IH]; [constructor|]. inversion Rl; subst. cbn [map].
        constructor; [apply Hx; assumption|apply IH; assumption]. }
      pose proof (vec_wr_ok l (map reread_cell l) HF2) as Wv.
      cbn [reread_cell]. split; [exact Wv|]. split.
      + apply other_rest_ok; [exact Wv|discriminate|discriminate].
      + intros x y E; discriminate.
  Qed.

  (* C10 write_read: reading the written form of a readable datum gives the datum back
     (exact numbers in their normal representation), and nothing remains *)
  Theorem write_read d : readable d -> parse_text (write d) = Ok (reread_cell d, None).
  Proof.
    intros Hr. destruct (readable_all_ok d Hr) as (Hw & _ & _).
    destruct (Hw 0 [] [] I) as (k0 & tsd & n & Hb & _ & Hsc & Hpar).
    { apply Scans_nil. }
    rewrite !app_nil_r in Hsc. apply Scans_scan in Hsc.
    unfold parse_text. unfold cp, text in *. rewrite Hsc. cbn [bind].
    assert (Hpos : at_pos (write d) 0 (write d)).
    { exists [], []. split; [rewrite app_nil_r; reflexivity|reflexivity]. }
    pose proof (Hpar (write d) Hpos (parse_fuel (k0 :: tsd)) []) as Hp. rewrite app_nil_r in Hp.
    unfold cp, text in *. rewrite Hp; [reflexivity|]. unfold parse_fuel. cbn [length]. lia.
  Qed.
End Composite.

(* C10 write_stable: writing the re-read datum gives the same text *)
Lemma num_display_reread n : exact_wf n -> num_display (reread n) = num_display n.
Proof.
  destruct n as [z|z|a b|f]; cbn [reread exact_wf]; intros H; try reflexivity.
  - destruct (in_i64 z); reflexivity.
  - destruct (b =? 1)%Z eqn:E; [|reflexivity]. cbn [num_display]. unfold ratio_fmt. rewrite E. reflexivity.
Qed.

Lemma sym_is_reread a name : sym_is (reread_cell a) name = sym_is a name.
Proof. destruct a; reflexivity. Qed.

Definition stable (d : cell) : Prop :=
  readable d ->
  write (reread_cell d) = write d /\ wrest (reread_cell d) = wrest d /\
  (forall x y, d = CPair x y -> write (reread_cell x) = write x).

Lemma stable_all : forall d, stable d.
Proof.
  induction d as [c Hnp Hnv|a d IHa IHd|l HF] using cell_ind3.
  - intros Hr.
    assert (Hw : write (reread_cell c) = write c).
    { destruct c; try reflexivity;
        try (exfalso; eapply Hnp; reflexivity); try (exfalso; eapply Hnv; reflexivity).
      cbn [reread_cell]. cbn [readable] in Hr.
      destruct n; try (apply num_display_reread; exact Hr). reflexivity. }
    split; [exact Hw|]. split.
    + destruct c; try reflexivity; try contradiction.
      * cbn [reread_cell wrest] in *. unfold cp, text in *. rewrite Hw. reflexivity.
      * exfalso. eapply Hnp; reflexivity.
      * exfalso. eapply Hnv; reflexivity.
    + intros x y E. exfalso. eapply Hnp; exact E.
  - intros [Ra Rd]. destruct (IHa Ra) as (Wa & _ & _). destruct (IHd Rd) as (Wd & Rsd & Xd).
    cbn [reread_cell]. split; [|split].
    + rewrite !write_pair. rewrite sym_is_reread.
      destruct d as [| | | |x y| | | | | | | |]; cbn [reread_cell] in *;
        try (f_equal; f_equal; first [exact Wa | exact Rsd]).
      destruct y; cbn [reread_cell] in *; try (f_equal; f_equal; first [exact Wa | exact Rsd]).
      destruct (sym_is a QUOTE); [|f_equal; f_equal; first [exact Wa | exact Rsd]].
      f_equal. exact (Xd x CNil eq_refl).
    + cbn [wrest]. f_equal. f_equal; first [exact Wa | exact Rsd].
    + intros x y E. injection E as <- <-. exact Wa.
  - intros Rl. apply readable_vec in Rl.
    assert (Hv : Forall (fun x => write (reread_cell x) = write x) l).
    { induction HF as [|x r Hx _ IH]; [constructor|]. inversion Rl; subst.
      constructor; [apply Hx; assumption|apply IH; assumption]. }
    assert (Hvr : forall m, Forall (fun x => write (reread_cell x) = write x) m ->
              vrest (map reread_cell m) = vrest m).
    { induction 1 as [|x r Hx _ IH]; [reflexivity|]. cbn [map vrest]. unfold cp, text in *. rewrite Hx, IH. reflexivity. }
    assert (Hw : write (reread_cell (CVec l)) = write (CVec l)).
    { cbn [reread_cell]. rewrite !write_vec. destruct Hv as [|x r Hx Hr]; [reflexivity|].
      cbn [map]. unfold cp, text in *. rewrite Hx, (Hvr r Hr). reflexivity. }
    split; [exact Hw|]. split.
    + cbn [reread_cell wrest] in *. unfold cp, text in *. rewrite Hw. reflexivity.
    + intros x y E; discriminate.
Qed.

Theorem write_stable d : readable d -> write (reread_cell d) = write d.
Proof. intros Hr. apply (stable_all d Hr). Qed.

(* data whose exact numbers are already in the representation the reader produces
   (a bignum outside i64, a rational with denominator other than 1) read back
   literally *)
Definition normal_num (n : num) : Prop :=
  match n with
  | BigInt z => in_i64 z = false
  | Rational _ b => b <> 1%Z
  | _ => True
  end.
Fixpoint normal (d : cell) : Prop :=
  match d with
  | CNum n => normal_num n
  | CPair a b => normal a /\ normal b
  | CVec l => (fix all (l : list cell) : Prop :=
                 match l with [] => True | x :: r => normal x /\ all r end) l
  | _ => True
  end.

Lemma reread_normal n : normal_num n -> reread n = n.
Proof.
  destruct n as [z|z|a b|f]; cbn [normal_num reread]; intros H; try reflexivity.
  - rewrite H. reflexivity.
  - destruct (b =? 1)%Z eqn:E; [apply Z.eqb_eq in E; contradiction|reflexivity].
Qed.

Lemma reread_cell_normal : forall d, normal d -> reread_cell d = d.
Proof.
  induction d as [c Hnp Hnv|a d IHa IHd|l HF] using cell_ind3; intros Hn.
  - destruct c; try reflexivity.
    + cbn [reread_cell normal] in *. rewrite reread_normal by assumption. reflexivity.
    + exfalso. eapply Hnp; reflexivity.
    + exfalso. eapply Hnv; reflexivity.
  - destruct Hn as [Ha Hd]. cbn [reread_cell]. rewrite IHa, IHd by assumption. reflexivity.
  - cbn [reread_cell]. f_equal. cbn [normal] in Hn.
    induction HF as [|x r Hx _ IH]; [reflexivity|]. destruct Hn as [Hnx Hnr]. cbn [map].
    rewrite Hx by assumption. rewrite IH by assumption. reflexivity.
Qed.

Lemma reread_idem n : reread (reread n) = reread n.
Proof.
  destruct n as [z|z|a b|f]; cbn [reread]; try reflexivity.
  - destruct (in_i64 z) eqn:E; cbn [reread]; [reflexivity|rewrite E; reflexivity].
  - destruct (b =? 1)%Z eqn:E; cbn [reread]; [reflexivity|rewrite E; reflexivity].
Qed.
