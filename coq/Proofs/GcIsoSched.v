(* GcIsoSched.v — C03, part 5: a collection keeps [srel]; runs under a schedule of collections. *)
From Coq Require Import Lia List Permutation.
From MW Require Import Model.Base Model.Num Model.VmTypes Model.Heap Model.Gc Model.VmBase Model.Vm
  Proofs.GcProofs Proofs.SymtabProofs Proofs.GcObsProofs Proofs.GcIso Proofs.GcIsoPrim Proofs.GcIsoStep.
Open Scope N_scope.
Arguments N.add : simpl never.
Arguments N.sub : simpl never.
Arguments N.eqb : simpl never.
Arguments N.ltb : simpl never.
Arguments N.leb : simpl never.

(* the world is tight for s2: the image of every live address is reachable from the roots the
   collector marks; and nothing the collector reaches in s2 is a freed cell *)
Definition tight (W : world) (s2 : vm) : Prop := forall a, wa W a -> reach s2 (wf W a).
Definition reach_allocated (s : vm) : Prop :=
  forall a, a < hlen (hp s) -> reach s a -> g_get (gcmap (hp s)) a <> GFree.

Theorem collect_srel W s1 s2 vd fuel order h' :
  srel W s1 s2 -> tight W s2 -> reach_allocated s2 ->
  no_used (hp s2) -> Permutation order (map fst (g_bind s2)) ->
  collect vd fuel order s2 = Ok h' -> srel W s1 (with_heap s2 h').
Proof.
  intros R T ND Hnu P H.
  assert (Live : forall a, wa W a ->
            g_get (gcmap h') (wf W a) = GAllocated /\ cell_at h' (wf W a) = cell_at (hp s2) (wf W a)).
  { intros a Ha. destruct (sr_al2 _ _ _ R a Ha) as [L _].
    apply (gc_preserves_live vd fuel order s2 h' Hnu H _ L).
    apply (reach_perm s2 order _ P). apply T, Ha. }
  assert (HI : heap_inv h').
  { apply (heap_inv_collect vd fuel order s2 h' (sr_hi2 _ _ _ R) Hnu); [|exact H].
    intros a L Ra. apply ND; [exact L|]. apply (reach_perm s2 order a P), Ra. }
  pose proof (collect_hlen _ _ _ _ _ H) as Hl.
  destruct R as [R1 R2 R3 R4 R5 R6 R7 R8 R9 R10 R11 R12 R13 R14 R15 R16 R17 R18 R19 R20].
  constructor; sr_simpl; try assumption.
  - intros a Ha. destruct (Live a Ha) as [G _]. destruct (R5 a Ha) as [L _].
    split; [rewrite Hl; exact L|rewrite G; discriminate].
  - intros a Ha. destruct (Live a Ha) as [_ C]. rewrite C. apply R8, Ha.
Qed.

(* ------------------------------------------------------------------ schedules *)
Section Sched.
Variable ob : N -> M vcell.
(* the collector, as a relation between the state before and after *)
Variable gc : vm -> vm -> Prop.

(* run at most [length sched] instructions; [true] in the schedule = collect before that
   instruction.  Result: the outcome of the last instruction executed (HALT = ROk true). *)
Inductive run_sched : list bool -> vm -> res bool -> Prop :=
| rs_nil : forall s, run_sched [] s (ROk false s)
| rs_step : forall (b : bool) r s s0 s' out,
    (if b then gc s s0 else s0 = s) -> run_one ob s0 = ROk false s' -> run_sched r s' out ->
    run_sched (b :: r) s out
| rs_stop : forall (b : bool) r s s0 out,
    (if b then gc s s0 else s0 = s) -> run_one ob s0 = out ->
    (forall s', out <> ROk false s') -> run_sched (b :: r) s out.

(* the run without collections, as a function *)
Fixpoint run_plain (n : nat) (s : vm) : res bool :=
  match n with
  | O => ROk false s
  | S k => match run_one ob s with
           | ROk false s' => run_plain k s'
           | other => other
           end
  end.
(* every instruction executed by the plain run is covered and leaves a heap that fits a usize *)
Fixpoint plain_ok (n : nat) (s : vm) : Prop :=
  match n with
  | O => True
  | S k => covered s /\
           match run_one ob s with
           | ROk false s' => bounded s' /\ plain_ok k s'
           | ROk true s' => bounded s'
           | RErr _ _ s' => bounded s'
           | _ => True
           end
  end.

Definition related (s1 s2 : vm) : Prop := exists W, srel W s1 s2.
Hypothesis gc_ok : forall s1 s2 s2', related s1 s2 -> gc s2 s2' -> related s1 s2'.
Hypothesis gc_total : forall s1 s2, related s1 s2 -> exists s2', gc s2 s2'.

Theorem sched_unobservable : forall sched s1 s2,
  related s1 s2 -> plain_ok (length sched) s1 ->
  match run_plain (length sched) s1 with
  | ROk b s1' => exists s2', run_sched sched s2 (ROk b s2') /\ related s1' s2'
  | RErr e msg s1' => exists s2', run_sched sched s2 (RErr e msg s2') /\ related s1' s2'
  | _ => True
  end.
Proof.
  induction sched as [|b r IH]; intros s1 s2 Rel Hok.
  - cbn [length run_plain]. exists s2. split; [constructor|exact Rel].
  - cbn [length run_plain plain_ok] in *. destruct Hok as [Hc Hrest].
    assert (G : exists s0, (if b then gc s2 s0 else s0 = s2) /\ related s1 s0).
    { destruct b; [|exists s2; split; [reflexivity|exact Rel]].
      destruct (gc_total s1 s2 Rel) as [s0 Hg]. exists s0. split; [exact Hg|exact (gc_ok _ _ _ Rel Hg)]. }
    destruct G as (s0 & Hg & [W R0]).
    pose proof (run_one_iso ob W s1 s0 R0 Hc) as O. unfold outcome in O.
    destruct (run_one ob s1) as [[|] s1'|e msg s1'| |] eqn:E1; try exact I.
    + destruct (O Hrest) as (a2 & s2' & W' & E2 & _ & R' & Q). red in Q. subst a2.
      exists s2'. split; [|exists W'; exact R'].
      eapply rs_stop; [exact Hg|exact E2|]. intros s' Hx. discriminate.
    + destruct Hrest as [Hb Hk]. destruct (O Hb) as (a2 & s2' & W' & E2 & _ & R' & Q). red in Q. subst a2.
      specialize (IH s1' s2' (ex_intro _ W' R') Hk).
      destruct (run_plain (length r) s1') as [b' s1''|e msg s1''| |]; try exact I.
      * destruct IH as (s2'' & Hr & Rel'). exists s2''. split; [|exact Rel'].
        eapply rs_step; [exact Hg|exact E2|exact Hr].
      * destruct IH as (s2'' & Hr & Rel'). exists s2''. split; [|exact Rel'].
        eapply rs_step; [exact Hg|exact E2|exact Hr].
    + destruct (O Hrest) as (s2' & W' & E2 & _ & R').
      exists s2'. split; [|exists W'; exact R'].
      eapply rs_stop; [exact Hg|exact E2|]. intros s' Hx. discriminate.
Qed.
End Sched.

(* ------------------------------------------------------------------ the OPEN statement of Props/C03.v *)
Definition step_of (ob : N -> M vcell) (s : vm) : out (vm * bool) :=
  match run_one ob s with
  | ROk b s' => Ok (s', b)
  | RErr e _ _ => Err e
  | RPanic k => Panic k
  | RNoFuel => NoFuel
  end.
Definition heap_iso (f : N -> N) (v1 v2 : vm) : Prop := exists W, wf W = f /\ srel W v1 v2.

Theorem step_respects_heap_iso_covered ob f v1 v2 v1' halt :
  heap_iso f v1 v2 -> covered v1 -> bounded v1' -> step_of ob v1 = Ok (v1', halt) ->
  exists f' v2', step_of ob v2 = Ok (v2', halt) /\ heap_iso f' v1' v2'.
Proof.
  intros (W & <- & R) C B H. unfold step_of in *.
  pose proof (run_one_iso ob W v1 v2 R C) as O. unfold outcome in O.
  destruct (run_one ob v1) as [b s1'|e msg s1'| |]; try discriminate.
  injection H as <- <-. destruct (O B) as (a2 & s2' & W' & E2 & X & R' & Q). red in Q. subst a2.
  exists (wf W'), s2'. rewrite E2. split; [reflexivity|]. exists W'. split; [reflexivity|exact R'].
Qed.

(* a state related to itself is not dangling on its live set; with [tight] the live set is
   exactly what the collector keeps *)
Theorem srel_live_allocated W s1 s2 a : srel W s1 s2 -> wa W a ->
  allocated (hp s1) a /\ allocated (hp s2) (wf W a).
Proof. intros R Ha. split; [apply (sr_al1 _ _ _ R), Ha|apply (sr_al2 _ _ _ R), Ha]. Qed.
