(* HighlightProofs.v — the counter scan of find_matching_bracket computes the
   partner of the standard stack matching; shape and totality of highlight.   *)
From Coq Require Import Lia.
From MW Require Import Model.Base Model.Lex Model.Highlight Proofs.LexProofs.
Open Scope N_scope.

(* ------------------------------------------------ the stack-matching spec *)
Inductive kind := KOpen | KClose | KOther.
Definition kind_of (t : token) : kind :=
  match norm_ty (t_ty t) with TLeft => KOpen | TRight => KClose | _ => KOther end.

(* positions of the brackets currently open, innermost first *)
Definition stack_step (t : token) (pos : nat) (st : list nat) : list nat :=
  match kind_of t with KOpen => pos :: st | KClose => tl st | KOther => st end.
Fixpoint stack_run (ts : list token) (pos : nat) (st : list nat) : list nat :=
  match ts with
  | [] => st
  | t :: r => stack_run r (S pos) (stack_step t pos st)
  end.
Definition stack_before (ts : list token) (j : nat) : list nat := stack_run (firstn j ts) 0%nat [].

Definition kind_at (ts : list token) (i : nat) : option kind := option_map kind_of (nth_error ts i).

(* [partner ts i j]: the closing bracket at position j pops the opening bracket
   at position i in the left-to-right stack matching of the whole token list *)
Definition partner (ts : list token) (i j : nat) : Prop :=
  (i < j)%nat /\ kind_at ts i = Some KOpen /\ kind_at ts j = Some KClose /\
  hd_error (stack_before ts j) = Some i.

Lemma stack_run_app a b pos st :
  stack_run (a ++ b) pos st = stack_run b (pos + length a)%nat (stack_run a pos st).
Proof.
  revert pos st; induction a as [|x a IH]; intros pos st; cbn [app stack_run length].
  - f_equal. lia.
  - rewrite IH. f_equal. lia.
Qed.

(* ------------------------------------------------ index version of the scan *)
Fixpoint mscan (have want : ttype) (stack : nat) (ts : list token) : option nat :=
  match ts with
  | [] => None
  | t :: r =>
      let ty := norm_ty (t_ty t) in
      let stack := if ttype_eqb ty have then S stack else stack in
      if ttype_eqb ty want then
        match stack with
        | O => Some O
        | S s => option_map S (mscan have want s r)
        end
      else option_map S (mscan have want stack r)
  end.

Lemma match_scan_mscan h w ts : forall s,
  match_scan h w s ts = match mscan h w s ts with Some k => nth_error ts k | None => None end.
Proof.
  induction ts as [|t r IH]; intros s; cbn [match_scan mscan]; [reflexivity|].
  set (s' := if ttype_eqb (norm_ty (t_ty t)) h then S s else s).
  destruct (ttype_eqb (norm_ty (t_ty t)) w).
  - destruct s' as [|s'']; [reflexivity|]. rewrite IH. destruct (mscan h w s'' r); reflexivity.
  - rewrite IH. destruct (mscan h w s' r); reflexivity.
Qed.

Lemma mscan_lt h w ts : forall s k, mscan h w s ts = Some k -> (k < length ts)%nat.
Proof.
  induction ts as [|t r IH]; intros s k; cbn [mscan length]; [discriminate|].
  set (s' := if ttype_eqb (norm_ty (t_ty t)) h then S s else s).
  destruct (ttype_eqb (norm_ty (t_ty t)) w).
  - destruct s' as [|s''].
    + intros [= <-]. lia.
    + destruct (mscan h w s'' r) eqn:E; cbn; [|discriminate]. intros [= <-]. apply IH in E. lia.
  - destruct (mscan h w s' r) eqn:E; cbn; [|discriminate]. intros [= <-]. apply IH in E. lia.
Qed.

Lemma ttype_eqb_eq a b : ttype_eqb a b = true <-> a = b.
Proof. destruct a, b; cbn; split; intros H; try reflexivity; discriminate. Qed.

Lemma mscan_want h w ts : forall s k t, mscan h w s ts = Some k -> nth_error ts k = Some t ->
  norm_ty (t_ty t) = w.
Proof.
  induction ts as [|x r IH]; intros s k t; cbn [mscan]; [discriminate|].
  set (s' := if ttype_eqb (norm_ty (t_ty x)) h then S s else s).
  destruct (ttype_eqb (norm_ty (t_ty x)) w) eqn:Ew.
  - destruct s' as [|s''].
    + intros [= <-]. cbn. intros [= <-]. apply ttype_eqb_eq; assumption.
    + destruct (mscan h w s'' r) eqn:E; cbn; [|discriminate]. intros [= <-]. cbn. eapply IH; eassumption.
  - destruct (mscan h w s' r) eqn:E; cbn; [|discriminate]. intros [= <-]. cbn. eapply IH; eassumption.
Qed.

Lemma kind_open t : kind_of t = KOpen <-> norm_ty (t_ty t) = TLeft.
Proof. unfold kind_of. destruct (norm_ty (t_ty t)); split; intros; try reflexivity; discriminate. Qed.
Lemma kind_close t : kind_of t = KClose <-> norm_ty (t_ty t) = TRight.
Proof. unfold kind_of. destruct (norm_ty (t_ty t)); split; intros; try reflexivity; discriminate. Qed.

(* ------------------------------------------------------- backward direction *)
Lemma nth_error_tl {A} (l : list A) d : nth_error (tl l) d = nth_error l (S d).
Proof. destruct l; [destruct d|]; reflexivity. Qed.

Lemma bwd_scan p : forall d,
  option_map (fun k => (length p - 1 - k)%nat) (mscan TRight TLeft d (rev p))
  = nth_error (stack_run p 0%nat []) d.
Proof.
  induction p as [|x p IH] using rev_ind; intros d.
  - destruct d; reflexivity.
  - rewrite rev_app_distr, stack_run_app. cbn [rev app stack_run mscan]. rewrite app_length.
    cbn [length]. rewrite Nat.add_0_l. unfold stack_step.
    destruct (kind_of x) eqn:K.
    + apply kind_open in K. rewrite K. cbn [ttype_eqb].
      destruct d as [|d]; cbn [nth_error option_map].
      * f_equal. lia.
      * rewrite <- IH. destruct (mscan TRight TLeft d (rev p)); cbn [option_map]; [|reflexivity].
        f_equal. lia.
    + apply kind_close in K. rewrite K. cbn [ttype_eqb].
      rewrite nth_error_tl, <- IH.
      destruct (mscan TRight TLeft (S d) (rev p)); cbn [option_map]; [|reflexivity]. f_equal. lia.
    + assert (ttype_eqb (norm_ty (t_ty x)) TRight = false /\ ttype_eqb (norm_ty (t_ty x)) TLeft = false) as [E1 E2].
      { unfold kind_of in K. destruct (norm_ty (t_ty x)); try discriminate; split; reflexivity. }
      rewrite E1, E2, <- IH.
      destruct (mscan TRight TLeft d (rev p)); cbn [option_map]; [|reflexivity]. f_equal. lia.
Qed.

Lemma stack_run_lt ts : forall pos st e,
  In e (stack_run ts pos st) -> In e st \/ (pos <= e < pos + length ts)%nat.
Proof.
  induction ts as [|t r IH]; intros pos st e; cbn [stack_run length]; [auto|].
  intros H. apply IH in H as [H|H]; [|right; lia].
  unfold stack_step in H. destruct (kind_of t).
  - destruct H as [<-|H]; [right; lia|auto].
  - left. destruct st; [contradiction|right; assumption].
  - auto.
Qed.

Lemma nth_error_rev_lt {A} (l : list A) k : (k < length l)%nat ->
  nth_error (rev l) k = nth_error l (length l - S k)%nat.
Proof.
  intros Hk. destruct l as [|d l']; [cbn in Hk; lia|]. set (l := d :: l') in *.
  rewrite (nth_error_nth' (rev l) d) by (rewrite rev_length; lia).
  rewrite (nth_error_nth' l d) by lia. f_equal. apply rev_nth. lia.
Qed.

Lemma nth_error_firstn_lt {A} (l : list A) : forall n m, (m < n)%nat ->
  nth_error (firstn n l) m = nth_error l m.
Proof.
  induction l as [|x l IH]; intros n m H.
  - rewrite firstn_nil. reflexivity.
  - destruct n; [lia|]. destruct m; [reflexivity|]. cbn. apply IH. lia.
Qed.

Theorem backward_partner ts j t p :
  nth_error ts j = Some t -> kind_of t = KClose ->
  (find_matching_bracket ts (j, t) = Some p <-> exists i, partner ts i j /\ nth_error ts i = Some p).
Proof.
  intros Hj K. unfold find_matching_bracket. cbn [fst snd].
  pose proof K as K'. apply kind_close in K'. rewrite K'.
  rewrite match_scan_mscan.
  pose proof (bwd_scan (firstn j ts) 0) as B. fold (stack_before ts j) in B.
  assert (Hlen : length (firstn j ts) = j).
  { apply firstn_length_le. apply Nat.lt_le_incl. apply nth_error_Some. congruence. }
  rewrite Hlen in B.
  destruct (mscan TRight TLeft 0 (rev (firstn j ts))) as [k|] eqn:E.
  - cbn [option_map] in B.
    pose proof (mscan_lt _ _ _ _ _ E) as Hk. rewrite rev_length, Hlen in Hk.
    assert (Hnth : nth_error (rev (firstn j ts)) k = nth_error ts (j - 1 - k)%nat).
    { rewrite nth_error_rev_lt by (rewrite Hlen; lia). rewrite Hlen.
      rewrite nth_error_firstn_lt by lia. f_equal. lia. }
    split.
    + intros Hp. exists (j - 1 - k)%nat. split; [|congruence].
      unfold partner. split; [lia|]. split.
      * unfold kind_at. rewrite <- Hnth, Hp. cbn. f_equal. apply kind_open.
        eapply mscan_want; eassumption.
      * split; [unfold kind_at; rewrite Hj; cbn; congruence|].
        destruct (stack_before ts j); [discriminate|]. cbn in B |- *. congruence.
    + intros (i & (Hlt & _ & _ & Hhd) & Hp).
      destruct (stack_before ts j) as [|i' st]; [discriminate|]. cbn in B, Hhd.
      rewrite Hnth. congruence.
  - cbn [option_map] in B. split; [discriminate|].
    intros (i & (_ & _ & _ & Hhd) & _). destruct (stack_before ts j); discriminate.
Qed.

(* -------------------------------------------------------- forward direction *)
Lemma fwd_scan_some i r : forall q top st d k,
  stack_run q 0%nat [] = top ++ i :: st -> length top = d ->
  mscan TLeft TRight d r = Some k ->
  hd_error (stack_run (q ++ firstn k r) 0%nat []) = Some i /\ option_map kind_of (nth_error r k) = Some KClose.
Proof.
  induction r as [|x r IH]; intros q top st d k Hq Hd; cbn [mscan]; [discriminate|].
  assert (Hstep : stack_run (q ++ [x]) 0%nat [] = stack_step x (length q) (top ++ i :: st)).
  { rewrite stack_run_app, Hq. reflexivity. }
  assert (Happ : forall k', q ++ firstn (S k') (x :: r) = (q ++ [x]) ++ firstn k' r).
  { intros. cbn [firstn]. rewrite <- app_assoc. reflexivity. }
  unfold stack_step in Hstep.
  destruct (kind_of x) eqn:K.
  - pose proof K as K'. apply kind_open in K'. rewrite K'. cbn [ttype_eqb].
    destruct (mscan TLeft TRight (S d) r) as [k'|] eqn:E; cbn [option_map]; [|discriminate].
    intros [= <-]. rewrite Happ. cbn [nth_error].
    eapply (IH (q ++ [x]) (length q :: top) _ (S d)); [rewrite Hstep; reflexivity|cbn; lia|exact E].
  - pose proof K as K'. apply kind_close in K'. rewrite K'. cbn [ttype_eqb].
    destruct d as [|d].
    + intros [= <-]. destruct top; [|discriminate]. cbn [firstn]. rewrite app_nil_r, Hq.
      split; [reflexivity|cbn; congruence].
    + destruct (mscan TLeft TRight d r) as [k'|] eqn:E; cbn [option_map]; [|discriminate].
      intros [= <-]. rewrite Happ. cbn [nth_error].
      destruct top as [|e top]; [discriminate|]. cbn [app tl] in Hstep.
      eapply (IH (q ++ [x]) top _ d); [rewrite Hstep; reflexivity|cbn in Hd; lia|exact E].
  - assert (ttype_eqb (norm_ty (t_ty x)) TRight = false /\ ttype_eqb (norm_ty (t_ty x)) TLeft = false) as [E1 E2].
    { unfold kind_of in K. destruct (norm_ty (t_ty x)); try discriminate; split; reflexivity. }
    rewrite E1, E2.
    destruct (mscan TLeft TRight d r) as [k'|] eqn:E; cbn [option_map]; [|discriminate].
    intros [= <-]. rewrite Happ. cbn [nth_error].
    eapply (IH (q ++ [x]) top _ d); [rewrite Hstep; reflexivity|exact Hd|exact E].
Qed.

(* before the position the scan returns (or anywhere, when it returns nothing) no
   closing bracket has i on top of the stack *)
Lemma fwd_scan_first i r : forall q top st d,
  stack_run q 0%nat [] = top ++ i :: st -> length top = d -> ~ In i top -> (i < length q)%nat ->
  forall k', (match mscan TLeft TRight d r with Some k => k' < k | None => True end)%nat ->
  ~ (option_map kind_of (nth_error r k') = Some KClose /\
     hd_error (stack_run (q ++ firstn k' r) 0%nat []) = Some i).
Proof.
  induction r as [|x r IH]; intros q top st d Hq Hd Hni Hlt k'; cbn [mscan].
  - intros _ [H _]. destruct k'; discriminate.
  - assert (Hstep : stack_run (q ++ [x]) 0%nat [] = stack_step x (length q) (top ++ i :: st)).
    { rewrite stack_run_app, Hq. reflexivity. }
    assert (Happ : forall k', q ++ firstn (S k') (x :: r) = (q ++ [x]) ++ firstn k' r).
    { intros. cbn [firstn]. rewrite <- app_assoc. reflexivity. }
    assert (Hlen : length (q ++ [x]) = S (length q)) by (rewrite app_length; cbn; lia).
    unfold stack_step in Hstep.
    destruct (kind_of x) eqn:K.
    + pose proof K as K'. apply kind_open in K'. rewrite K'. cbn [ttype_eqb].
      destruct k' as [|k'].
      * intros _ [H _]. cbn in H. congruence.
      * intros Hk. rewrite Happ. cbn [nth_error].
        eapply (IH (q ++ [x]) (length q :: top) _ (S d)); [rewrite Hstep; reflexivity|cbn; lia| |lia|].
        -- intros [H|H]; [lia|contradiction].
        -- destruct (mscan TLeft TRight (S d) r); cbn [option_map] in Hk |- *; [lia|exact I].
    + pose proof K as K'. apply kind_close in K'. rewrite K'. cbn [ttype_eqb].
      destruct d as [|d].
      * intros Hk. lia.
      * destruct top as [|e top]; [discriminate|]. cbn [app tl] in Hstep.
        destruct k' as [|k'].
        -- intros _ [_ H]. cbn [firstn] in H. rewrite app_nil_r, Hq in H. cbn in H.
           injection H as ->. apply Hni. left; reflexivity.
        -- intros Hk. rewrite Happ. cbn [nth_error].
           eapply (IH (q ++ [x]) top _ d); [rewrite Hstep; reflexivity|cbn in Hd; lia| |lia|].
           ++ intros H. apply Hni. right; assumption.
           ++ destruct (mscan TLeft TRight d r); cbn [option_map] in Hk |- *; [lia|exact I].
    + assert (ttype_eqb (norm_ty (t_ty x)) TRight = false /\ ttype_eqb (norm_ty (t_ty x)) TLeft = false) as [E1 E2].
      { unfold kind_of in K. destruct (norm_ty (t_ty x)); try discriminate; split; reflexivity. }
      rewrite E1, E2.
      destruct k' as [|k'].
      * intros _ [H _]. cbn in H. congruence.
      * intros Hk. rewrite Happ. cbn [nth_error].
        eapply (IH (q ++ [x]) top _ d); [rewrite Hstep; reflexivity|exact Hd|exact Hni|lia|].
        destruct (mscan TLeft TRight d r); cbn [option_map] in Hk |- *; [lia|exact I].
Qed.

Lemma split_at_nth {A} (ts : list A) i t : nth_error ts i = Some t ->
  ts = firstn i ts ++ t :: skipn (S i) ts /\ length (firstn i ts) = i.
Proof.
  intros H. split.
  - rewrite <- (firstn_skipn i ts) at 1. f_equal.
    revert i H; induction ts as [|x ts IH]; intros [|i] H; try discriminate.
    + injection H as <-. reflexivity.
    + cbn in H |- *. apply IH in H. exact H.
  - apply firstn_length_le. apply Nat.lt_le_incl. apply nth_error_Some. congruence.
Qed.

Lemma firstn_app_exact {A} (a b : list A) n : firstn (length a + n) (a ++ b) = a ++ firstn n b.
Proof. apply firstn_app_2. Qed.

Theorem forward_partner ts i t :
  nth_error ts i = Some t -> kind_of t = KOpen ->
  match find_matching_bracket ts (i, t) with
  | Some p => exists j, nth_error ts j = Some p /\ partner ts i j /\
                        forall j', (i < j' < j)%nat -> ~ partner ts i j'
  | None => forall j, ~ partner ts i j
  end.
Proof.
  intros Hi K. unfold find_matching_bracket. cbn [fst snd].
  pose proof K as K'. apply kind_open in K'. rewrite K'. rewrite match_scan_mscan.
  destruct (split_at_nth _ _ _ Hi) as [Hsplit Hlen].
  set (q := firstn i ts ++ [t]). set (r := skipn (S i) ts).
  assert (Hts : ts = q ++ r). { unfold q, r. rewrite <- app_assoc. exact Hsplit. }
  assert (Hq : stack_run q 0%nat [] = [] ++ i :: stack_run (firstn i ts) 0%nat []).
  { unfold q. rewrite stack_run_app. cbn [stack_run]. unfold stack_step. rewrite K, Hlen. reflexivity. }
  assert (Hql : length q = S i). { unfold q. rewrite app_length, Hlen. cbn. lia. }
  assert (Hfirst : forall k, firstn (S i + k) ts = q ++ firstn k r).
  { intros k. rewrite Hts at 1. rewrite <- Hql. apply firstn_app_exact. }
  assert (Hnth : forall k, nth_error ts (S i + k) = nth_error r k).
  { intros k. rewrite Hts at 1. rewrite nth_error_app2 by lia. f_equal. lia. }
  assert (Hpart : forall k, partner ts i (S i + k) <->
            (option_map kind_of (nth_error r k) = Some KClose /\
             hd_error (stack_run (q ++ firstn k r) 0%nat []) = Some i)).
  { intros k. unfold partner, stack_before, kind_at. rewrite Hfirst, Hnth, Hi. cbn [option_map].
    rewrite K. intuition lia. }
  destruct (mscan TLeft TRight 0 r) as [k|] eqn:E.
  - destruct (nth_error r k) as [p|] eqn:Ep.
    2:{ apply mscan_lt in E. apply nth_error_None in Ep. lia. }
    exists (S i + k)%nat. split; [rewrite Hnth; exact Ep|]. split.
    + apply Hpart. destruct (fwd_scan_some i r q [] _ 0%nat k Hq eq_refl E) as [H1 H2]. auto.
    + intros j' Hj' Hp. replace j' with (S i + (j' - S i))%nat in Hp by lia. apply Hpart in Hp.
      eapply (fwd_scan_first i r q [] _ 0%nat Hq eq_refl); [intros []|lia| |exact Hp].
      rewrite E. lia.
  - intros j Hp. destruct Hp as (Hlt & Hp'). pose proof (conj Hlt Hp') as Hp.
    replace j with (S i + (j - S i))%nat in Hp by lia. apply Hpart in Hp.
    eapply (fwd_scan_first i r q [] _ 0%nat Hq eq_refl); [intros []|lia| |exact Hp].
    rewrite E. exact I.
Qed.

(* --------------------------------------------------- cursor token lookup *)
Lemma find_token_at_index_spec ts : forall i0 index k t,
  find_token_at_index ts i0 index = Some (k, t) ->
  (i0 <= k)%nat /\ nth_error ts (k - i0) = Some t /\ t_start t <= index < t_end t.
Proof.
  induction ts as [|x ts IH]; intros i0 index k t; cbn [find_token_at_index]; [discriminate|].
  destruct ((t_start x <=? index) && (index <? t_end x)) eqn:E.
  - intros [= <- <-]. apply andb_prop in E as [E1 E2]. apply N.leb_le in E1. apply N.ltb_lt in E2.
    rewrite Nat.sub_diag. cbn. auto.
  - intros H. apply IH in H as (Hle & Hn & Hr). split; [lia|]. split; [|exact Hr].
    replace (k - i0)%nat with (S (k - S i0)) by lia. exact Hn.
Qed.

Lemma find_token_at_cursor_spec ts index k t :
  find_token_at_cursor ts index = Some (k, t) ->
  nth_error ts k = Some t /\
  (t_start t <= index < t_end t \/ (0 < index /\ t_start t <= index - 1 < t_end t)).
Proof.
  unfold find_token_at_cursor. destruct (find_token_at_index ts 0 index) as [[k' t']|] eqn:E.
  - intros [= <- <-]. apply find_token_at_index_spec in E as (_ & Hn & Hr).
    rewrite Nat.sub_0_r in Hn. auto.
  - destruct (0 <? index) eqn:E0; [|discriminate]. intros H.
    apply find_token_at_index_spec in H as (_ & Hn & Hr). rewrite Nat.sub_0_r in Hn.
    apply N.ltb_lt in E0. auto.
Qed.

(* ----------------------------------------------------------- slices *)
Lemma slice_mid pre mid post :
  slice (pre ++ mid ++ post) (blen pre) (blen pre + blen mid) = Ok mid.
Proof.
  unfold slice. destruct (blen pre + blen mid <? blen pre) eqn:E; [apply N.ltb_lt in E; lia|].
  rewrite take_bytes_app. replace (blen pre + blen mid - blen pre) with (blen mid) by lia.
  rewrite take_bytes_app. reflexivity.
Qed.

Lemma slice_pre pre rest : slice (pre ++ rest) 0 (blen pre) = Ok pre.
Proof. apply (slice_mid [] pre rest). Qed.

Lemma slice_from_post pre post : slice_from (pre ++ post) (blen pre) = Ok post.
Proof. unfold slice_from. rewrite take_bytes_app. reflexivity. Qed.

Lemma match_scan_in h w ts : forall s p, match_scan h w s ts = Some p -> In p ts.
Proof.
  intros s p. rewrite match_scan_mscan. destruct (mscan h w s ts); [|discriminate].
  apply nth_error_In.
Qed.

Lemma find_matching_bracket_in ts b p : find_matching_bracket ts b = Some p -> In p ts.
Proof.
  unfold find_matching_bracket. destruct (norm_ty (t_ty (snd b))); try discriminate; intros H;
    apply match_scan_in in H.
  - rewrite <- (firstn_skipn (S (fst b)) ts). apply in_or_app. right; assumption.
  - apply in_rev in H. rewrite <- (firstn_skipn (fst b) ts). apply in_or_app. left; assumption.
Qed.

(* ------------------------------------------------- highlight: full shape *)
Theorem highlight_spec t index :
  match scan t with
  | Ok ts =>
      match find_token_at_cursor ts index with
      | Some cur =>
          match find_matching_bracket ts cur with
          | Some p => exists pre mid post,
              t = pre ++ mid ++ post /\ mid <> [] /\
              t_start p = blen pre /\ t_end p = blen pre + blen mid /\
              highlight t index = Ok (pre ++ ESC_ON ++ mid ++ ESC_OFF ++ post)
          | None => highlight t index = Ok t
          end
      | None => highlight t index = Ok t
      end
  | _ => highlight t index = Ok t
  end.
Proof.
  destruct (scan_total t) as [[ts Hs]|[e Hs]]; rewrite Hs; [|unfold highlight; rewrite Hs; reflexivity].
  destruct (find_token_at_cursor ts index) as [cur|] eqn:Ec;
    [|unfold highlight; rewrite Hs, Ec; reflexivity].
  destruct (find_matching_bracket ts cur) as [p|] eqn:Em;
    [|unfold highlight; rewrite Hs, Ec, Em; reflexivity].
  pose proof (find_matching_bracket_in _ _ _ Em) as Hin.
  destruct (toks_at_in _ _ _ _ (scan_wf _ _ Hs) Hin) as (pre & mid & post & Ht & Hm & Hst & Hen).
  exists pre, mid, post. rewrite N.add_0_l in Hst. repeat split; auto; [lia|].
  unfold highlight. rewrite Hs, Ec, Em. rewrite Hst, Hen, Hst. subst t.
  rewrite slice_mid. cbn [bind]. rewrite slice_pre. cbn [bind].
  replace (pre ++ mid ++ post) with ((pre ++ mid) ++ post) by (rewrite app_assoc; reflexivity).
  replace (blen pre + blen mid) with (blen (pre ++ mid)) by apply blen_app.
  rewrite slice_from_post. reflexivity.
Qed.

Theorem highlight_total t index : exists r, highlight t index = Ok r.
Proof.
  pose proof (highlight_spec t index) as H.
  destruct (scan t) as [ts|e|s|]; eauto.
  destruct (find_token_at_cursor ts index) as [cur|]; eauto.
  destruct (find_matching_bracket ts cur) as [p|]; eauto.
  destruct H as (pre & mid & post & _ & _ & _ & _ & H). eauto.
Qed.

Definition is_paren (k : token) : bool := match t_ty k with TLeft | TRight => true | _ => false end.

Theorem highlight_check_sound t index :
  (exists b, highlight_check t index = Ok b) /\
  (highlight_check t index = Ok true ->
   exists ts k, scan t = Ok ts /\ In k ts /\ is_paren k = true /\
                t_start k <= index /\ index <= t_end k + 1).
Proof.
  unfold highlight_check.
  destruct (scan_total t) as [[ts Hs]|[e Hs]]; rewrite Hs.
  - destruct (find_token_at_cursor ts (index - 1)) as [[n k]|] eqn:Ec.
    + split; [eauto|]. intros [= Hb]. apply find_token_at_cursor_spec in Ec as [Hn Hr].
      exists ts, k. split; [reflexivity|]. split; [eapply nth_error_In; eassumption|].
      split; [unfold is_paren; destruct (t_ty k); try discriminate; reflexivity|]. lia.
    + split; [eauto|discriminate].
  - split; [eauto|discriminate].
Qed.
