(* MonoCont.v — C05: a captured continuation stays LIVE ([klive]: the continuation object is
   still in the Rc table and the stack vector is long enough) through every instruction,
   every builtin, every compilation and every whole evaluation that follows — successful or
   failed — hence in every later top-level evaluation.  [later s s']: s' is reached from s by
   any sequence of instructions, run slices, compilations and whole evaluations.          *)
From Coq Require Import Lia List String.
From MW Require Import Model.Base Model.F64 Model.Num Model.Datum Model.TransformDef Model.Transform
  Model.VmTypes Model.Heap Model.VmBase Model.Compile Model.Vm Model.Builtins
  Proofs.VmProofs0 Proofs.TailProofs Proofs.RunProofs Proofs.RunProofs2 Proofs.CompileCorrect Proofs.ContProofs
  Proofs.MonoBase Proofs.MonoCompile Proofs.MonoStep Proofs.MonoBuiltins.
Open Scope N_scope.
Arguments N.add : simpl never.
Arguments N.sub : simpl never.
Arguments N.eqb : simpl never.
Arguments N.ltb : simpl never.
Arguments N.leb : simpl never.
Arguments N.mul : simpl never.

Lemma klive_kmono cid k s s' : klive cid k s -> cid < next_id (st s) -> kmono s s' ->
  klive cid k s' /\ cid < next_id (st s').
Proof.
  intros [H1 H2] Hc [C [N1 N2]]. split; [split|lia]; [rewrite N2; assumption|lia].
Qed.

Lemma scap_pushed s v : scap s <= scap (pushed s v).
Proof. unfold pushed. cbn [scap with_scap]. destruct (sp s + 1 <? scap s); lia. Qed.

Section K.
Variable ob : N -> M vcell.
Hypothesis OB : forall b, km (ob b).

Inductive later : vm -> vm -> Prop :=
| lt_refl s : later s s
| lt_step s r s1 s' : run_one ob s = ROk r s1 -> later s1 s' -> later s s'
| lt_run s fuel cyc count res s1 s' : run_loop ob fuel cyc count s = ROk res s1 -> later s1 s' -> later s s'
| lt_prepare s c u s1 s' : prepare_eval c s = ROk u s1 -> later s1 s' -> later s s'
| lt_eval s fuel c res s1 s' : eval ob fuel c s = ROk res s1 -> later s1 s' -> later s s'.

Lemma later_trans a b c : later a b -> later b c -> later a c.
Proof.
  induction 1 as [s|s r s1 s' H _ IH|s fuel cyc count res s1 s' H _ IH|s c0 u s1 s' H _ IH|s fuel c0 res s1 s' H _ IH];
    intros H2; [exact H2| | | |].
  - eapply lt_step; [exact H|exact (IH H2)].
  - eapply lt_run; [exact H|exact (IH H2)].
  - eapply lt_prepare; [exact H|exact (IH H2)].
  - eapply lt_eval; [exact H|exact (IH H2)].
Qed.
Lemma later_one_step s r s1 : run_one ob s = ROk r s1 -> later s s1.
Proof. intros H. eapply lt_step; [exact H|apply lt_refl]. Qed.
Lemma later_steps n : forall s s', steps ob n s = Some s' -> later s s'.
Proof.
  induction n as [|n IH]; intros s s' H; cbn [steps] in H.
  - injection H as <-. apply lt_refl.
  - destruct (run_one ob s) as [[|] s1| | |] eqn:E; try discriminate.
    eapply lt_step; [exact E|exact (IH _ _ H)].
Qed.

Theorem later_kmono s s' : later s s' -> kmono s s'.
Proof.
  induction 1 as [s|s r s1 s' H _ IH|s fuel cyc count res s1 s' H _ IH|s c u s1 s' H _ IH|s fuel c res s1 s' H _ IH].
  - apply kmono_refl.
  - eapply kmono_trans; [exact (step_kmono ob OB _ _ _ H)|exact IH].
  - pose proof (run_loop_kmono ob OB fuel cyc count s) as K. rewrite H in K. eapply kmono_trans; eassumption.
  - pose proof (prepare_eval_kmono c s) as K. rewrite H in K. eapply kmono_trans; eassumption.
  - pose proof (eval_kmono ob OB fuel c s) as K. rewrite H in K. eapply kmono_trans; eassumption.
Qed.

Theorem klive_later cid k s s' : klive cid k s -> cid < next_id (st s) -> later s s' ->
  klive cid k s' /\ cid < next_id (st s').
Proof. intros H Hc L. exact (klive_kmono _ _ _ _ H Hc (later_kmono _ _ L)). Qed.

Theorem klive_step cid k s r s' : klive cid k s -> cid < next_id (st s) -> run_one ob s = ROk r s' ->
  klive cid k s' /\ cid < next_id (st s').
Proof. intros H Hc E. exact (klive_kmono _ _ _ _ H Hc (step_kmono ob OB _ _ _ E)). Qed.

(* whole evaluations, whatever the outcome (value, run-time failure, compile-time failure) *)
Theorem klive_eval cid k s fuel c res s' : klive cid k s -> cid < next_id (st s) ->
  eval ob fuel c s = ROk res s' -> klive cid k s' /\ cid < next_id (st s').
Proof.
  intros H Hc E. pose proof (eval_kmono ob OB fuel c s) as K. rewrite E in K.
  exact (klive_kmono _ _ _ _ H Hc K).
Qed.
Theorem klive_prepare cid k s c u s' : klive cid k s -> cid < next_id (st s) ->
  prepare_eval c s = ROk u s' -> klive cid k s' /\ cid < next_id (st s').
Proof.
  intros H Hc E. pose proof (prepare_eval_kmono c s) as K. rewrite E in K.
  exact (klive_kmono _ _ _ _ H Hc K).
Qed.

(* the capture itself — no heap hypothesis *)
Lemma klive_s_cap_any m lp i bc tail fp pv : at_callcc ob m lp i bc tail fp pv ->
  klive (next_id (st m)) (k_cap m lp i) (s_cap m lp i fp) /\
  next_id (st m) < next_id (st (s_cap m lp i fp)).
Proof.
  intros [_ _ _ _ _ Hsp Hcap _ _ _].
  assert (Est : st (s_cap m lp i fp) = snd (new_cont (st m) (k_cap m lp i))) by reflexivity.
  split; [split|].
  - rewrite Est. cbn [new_cont snd conts]. apply tget_tset_same.
  - unfold k_cap. rewrite cc_cont_len. cbn [sp with_ip].
    unfold s_cap, cc_state. cbn [scap with_acc with_ip].
    eapply N.le_trans; [|apply scap_pushed]. eapply N.le_trans; [|apply scap_pushed].
    cbn [scap with_heap with_store with_sp with_stack with_ip]. lia.
  - rewrite Est. cbn [new_cont snd next_id]. lia.
Qed.

(* a continuation captured at [m] is live in EVERY later state: later in the same evaluation,
   after that evaluation ended (normally or not), in any later top-level evaluation *)
Theorem captured_live_later m lp i bc tail fp pv s' : at_callcc ob m lp i bc tail fp pv ->
  later (s_cap m lp i fp) s' -> klive (next_id (st m)) (k_cap m lp i) s'.
Proof.
  intros H L. destruct (klive_s_cap_any _ _ _ _ _ _ _ H) as [K C].
  exact (proj1 (klive_later _ _ _ _ K C L)).
Qed.

(* invoke = return with NO liveness side condition: any later state that applies k *)
Theorem invoke_equals_return_later m lp i bc fp pv mr lq iq bq s' tail' v :
  at_callcc ob m lp i bc false fp pv ->
  in_cc_frame m lp i mr -> code_in mr lq bq -> ip mr = (lq, iq) -> seg bq iq [VOp ORet] -> acc mr = v ->
  later (s_cap m lp i fp) s' -> at_invoke s' (next_id (st m)) tail' ->
  sget s' (sp s' - 1) = v ->
  exists s_ret s_inv,
    run_one ob mr = ROk false s_ret /\ run_one ob s' = ROk false s_inv /\
    same_cont_state s_inv s_ret /\
    sp s_ret = sp m - 2 /\ bp s_ret = bp m /\ ep s_ret = ep m /\ ip s_ret = (lp, i + 1) /\ acc s_ret = v /\
    (forall j, j <= sp m - 2 -> sget s_ret j = sget m j) /\
    hp s_inv = hp s' /\ st s_inv = st s' /\ g_bind s_inv = g_bind s' /\ g_slots s_inv = g_slots s' /\
    out_log s_inv = out_log s' /\ scap s_inv = scap s' /\
    later (s_cap m lp i fp) s_inv.
Proof.
  intros H F Hc Hip Hs Hv L AI Hv'.
  pose proof (captured_live_later _ _ _ _ _ _ _ _ H L) as KL.
  destruct (invoke_equals_return ob m lp i bc fp pv mr lq iq bq s' tail' v H F Hc Hip Hs Hv KL AI Hv')
    as (s_ret & s_inv & E1 & E2 & R).
  exists s_ret, s_inv. split; [exact E1|]. split; [exact E2|].
  destruct R as (R1 & R2 & R3 & R4 & R5 & R6 & R7 & R8 & R9 & R10 & R11 & R12 & R13 & R14 & _).
  do 13 (split; [assumption|]).
  eapply later_trans; [exact L|exact (later_one_step _ _ _ E2)].
Qed.

(* escapes likewise *)
Theorem escape_discards_later m lp i bc tail fp pv s' tail' :
  at_callcc ob m lp i bc tail fp pv ->
  later (s_cap m lp i fp) s' -> at_invoke s' (next_id (st m)) tail' ->
  exists s_inv, run_one ob s' = ROk false s_inv /\
    sp s_inv = sp m - 2 /\ bp s_inv = bp m /\ ep s_inv = ep m /\ ip s_inv = (lp, i + 1) /\
    (forall j, j <= sp m - 2 -> sget s_inv j = sget m j) /\
    (forall j, sp m - 2 < j -> sget s_inv j = sget s' j).
Proof.
  intros H L AI. exact (escape_discards ob _ _ _ _ _ _ _ s' tail' H (captured_live_later _ _ _ _ _ _ _ _ H L) AI).
Qed.
End K.
