(* FlatPkg.v — C02: the builtins of the work packages dispatched by [pkg_builtin]
   (Model/Builtins.v) before its last branch [lv_builtin]: number.rs (value-level models
   under [num_builtin]), number->string / string->number ([cell_builtin]), string.rs /
   char.rs (Model/Str.v) and symbol.rs keep [finv] and answer a value that is not a
   VLexPtr.  The value-level models ([out _]) are never unfolded: they enter through
   [lift] or a pure match. *)
From Coq Require Import Lia List String.
From MW Require Import Model.Base Model.F64 Model.Num Model.Datum Model.TransformDef Model.Transform
  Model.VmTypes Model.Heap Model.Gc Model.VmBase Model.Compile Model.Vm Model.Builtins
  Proofs.GcProofs Proofs.SymtabProofs Proofs.VmProofs0 Proofs.TailProofs Proofs.ScopeProofs
  Proofs.EnvProofs Proofs.FlatProofs Proofs.FlatPrims.
From MW Require Model.NumArith Model.NumProc Model.Str Model.SymbolB.
Open Scope N_scope.
Arguments N.add : simpl never.
Arguments N.sub : simpl never.
Arguments N.eqb : simpl never.
Arguments N.ltb : simpl never.
Arguments N.leb : simpl never.
Arguments N.mul : simpl never.

(* ------------------------------------------------------------------ the poppers of Str.v *)
Lemma pres_str_pop_integer : pres Str.pop_integer T.
Proof.
  unfold Str.pop_integer. eapply pres_bind; [apply pres_pop_number|intros n _].
  destruct (Str.num_is_integer n); [apply pres_ret; exact I|apply pres_fail].
Qed.
Lemma pres_str_pop_usize : pres Str.pop_usize T.
Proof.
  unfold Str.pop_usize. eapply pres_bind; [apply pres_pop_number|intros n _].
  destruct (Str.num_is_integer n && Str.num_ge_zero n); [|apply pres_fail].
  destruct (Str.num_to_usize n); [apply pres_ret; exact I|apply pres_fail].
Qed.
Lemma pres_str_pop_index : pres Str.pop_index T.
Proof.
  unfold Str.pop_index. eapply pres_bind; [apply pres_pop_value|intros v _].
  destruct v; try apply pres_fail.
  destruct (Str.num_to_usize n); [apply pres_ret; exact I|apply pres_fail].
Qed.
Lemma pres_str_opt_pop_index b : pres (Str.opt_pop_index b) T.
Proof.
  unfold Str.opt_pop_index. destruct b; [|apply pres_ret; exact I].
  eapply pres_bind; [apply pres_str_pop_index|intros i _]. apply pres_ret. exact I.
Qed.

(* one step of a builtin: a typed popper, a payload access, a value-level model *)
Ltac sprim :=
  first [ apply pres_pop_argc | apply pres_pop_string | apply pres_pop_char | apply pres_pop_symbol
        | apply pres_pop_vector | apply pres_pop_number | apply pres_pop_value
        | apply pres_str_pop_index | apply pres_str_pop_usize | apply pres_str_pop_integer
        | apply pres_str_opt_pop_index
        | apply pres_str_get | apply pres_str_set | apply pres_lift | apply pres_vec_get'
        | apply pres_as_argc | apply pres_to_cell | apply pres_as_ptr
        | pprim | pside ].
Ltac sb := eapply pres_bind; [ sprim | intros ? ?; cbv beta in * ].
Tactic Notation "sbn" ident(x) ident(H) := eapply pres_bind; [ sprim | intros x H; cbv beta in * ].

(* ------------------------------------------------------------------ number.rs *)
Lemma pres_pop_values k : forall acc0, pres (pop_values k acc0) T.
Proof.
  induction k as [|k IH]; intros acc0; cbn [pop_values]; [apply pres_ret; exact I|].
  sbn v Hv. apply IH.
Qed.

Lemma pres_num_builtin f : pres (num_builtin f) no_lexptr.
Proof.
  unfold num_builtin. sbn a Ha. sbn argc Hargc.
  eapply pres_bind; [apply pres_pop_values|intros vs _].
  destruct (f Debug (map to_arg vs)) as [r|e|k|].
  - apply pres_ret. destruct r; exact I.
  - destruct (e =? NumArith.E_LIBM); [apply pres_panic|apply pres_fail].
  - apply pres_panic.
  - apply pres_nofuel.
Qed.

(* ------------------------------------------------------------------ number->string / string->number *)
Lemma pres_pop_cells k : forall acc0, pres (pop_cells k acc0) T.
Proof.
  induction k as [|k IH]; intros acc0; cbn [pop_cells]; [apply pres_ret; exact I|].
  sbn v Hv. sbn c Hc. apply IH.
Qed.

Lemma pres_cell_builtin f :
  (forall c, pres (maybe_put_cell_m c) no_lexptr) -> pres (cell_builtin f) no_lexptr.
Proof.
  intros Hput. unfold cell_builtin. sbn a Ha. sbn argc Hargc.
  eapply pres_bind; [apply pres_pop_cells|intros cs _].
  sbn r Hr. apply Hput.
Qed.

(* ------------------------------------------------------------------ string.rs *)
Lemma pres_string_append_loop n : forall output, pres (Str.string_append_loop n output) T.
Proof.
  induction n as [|n IH]; intros output; cbn [Str.string_append_loop]; [apply pres_ret; exact I|].
  sbn sid Hsid. sbn t Ht. apply IH.
Qed.
Lemma pres_string_append : pres Str.string_append no_lexptr.
Proof.
  unfold Str.string_append. sbn argc Hargc.
  eapply pres_bind; [apply pres_string_append_loop|intros out _]. apply pres_str_new.
Qed.

Lemma pres_string_length : pres Str.string_length no_lexptr.
Proof. unfold Str.string_length. sb. sbn sid Hsid. sbn t Ht. apply pres_ret. exact I. Qed.
Lemma pres_string_downcase : pres Str.string_downcase no_lexptr.
Proof. unfold Str.string_downcase. sb. sbn sid Hsid. sbn t Ht. apply pres_str_new. Qed.
Lemma pres_string_upcase : pres Str.string_upcase no_lexptr.
Proof. unfold Str.string_upcase. sb. sbn sid Hsid. sbn t Ht. apply pres_str_new. Qed.
Lemma pres_string_foldcase : pres Str.string_foldcase no_lexptr.
Proof. unfold Str.string_foldcase. sb. sbn sid Hsid. sbn t Ht. apply pres_str_new. Qed.

Lemma pres_string_ref : pres Str.string_ref no_lexptr.
Proof.
  unfold Str.string_ref. sb. sbn idx Hidx. sbn sid Hsid. sbn t Ht. sbn c Hc. apply pres_ret. exact I.
Qed.

Lemma pres_chars_to_list r : forall l, no_lexptr l -> pres (Str.chars_to_list r l) no_lexptr.
Proof.
  induction r as [|c r IH]; intros l Hl; cbn [Str.chars_to_list]; [apply pres_ret; exact Hl|].
  sbn pc Hpc. sbn a Ha. sbn d Hd. sbn l' Hl'. apply IH. clean.
Qed.
Lemma pres_string_list : pres Str.string_list no_lexptr.
Proof.
  unfold Str.string_list. sbn argc Hargc. sbn end_ Hend. sbn start Hstart.
  sbn sid Hsid. sbn t Ht. sbn sub Hsub. sbn nl Hnl. apply pres_chars_to_list. clean.
Qed.

Lemma pres_string_vector : pres Str.string_vector no_lexptr.
Proof.
  unfold Str.string_vector. sb. sbn sid Hsid. sbn t Ht.
  apply pres_vec_new. apply clean_map. intros c. exact I.
Qed.

Lemma pres_vector_string_loop l : forall s0, clean_list l -> pres (Str.vector_string_loop l s0) T.
Proof.
  induction l as [|x r IH]; intros s0 Hl; cbn [Str.vector_string_loop]; [apply pres_ret; exact I|].
  apply clean_cons_inv in Hl as [Hx Hr].
  eapply pres_bind; [apply pres_hderef; exact Hx|intros v Hv].
  destruct v; try apply pres_fail. apply IH. exact Hr.
Qed.
Lemma pres_vector_string : pres Str.vector_string no_lexptr.
Proof.
  unfold Str.vector_string. sb. sbn vid Hvid. sbn l Hl.
  eapply pres_bind; [apply pres_vector_string_loop; exact Hl|intros s0 _]. apply pres_str_new.
Qed.

Lemma pres_list_string_loop fuel : forall rest s0, pres (Str.list_string_loop fuel rest s0) T.
Proof.
  induction fuel as [|fuel IH]; intros rest s0; cbn [Str.list_string_loop]; [apply pres_nofuel|].
  destruct rest; try (apply pres_ret; exact I).
  sbn v Hv. destruct v; try apply pres_fail. sbn rest' Hrest'. apply IH.
Qed.
Lemma pres_list_string : pres Str.list_string no_lexptr.
Proof.
  unfold Str.list_string. sb. sbn rest Hrest.
  destruct rest; try apply pres_fail;
    (sbn h Hh; eapply pres_bind; [apply pres_list_string_loop|intros s0 _]; apply pres_str_new).
Qed.

Lemma pres_string_copy : pres Str.string_copy no_lexptr.
Proof.
  unfold Str.string_copy. sbn argc Hargc. sbn end_ Hend. sbn start Hstart.
  sbn sid Hsid. sbn t Ht. sbn sub Hsub. apply pres_str_new.
Qed.
Lemma pres_string_fill : pres Str.string_fill no_lexptr.
Proof.
  unfold Str.string_fill. sbn argc Hargc. sbn end_ Hend. sbn start Hstart. sbn c Hc.
  sbn sid Hsid. sbn t Ht. sbn t' Ht'. sb. apply pres_ret. exact I.
Qed.
Lemma pres_string_set : pres Str.string_set no_lexptr.
Proof.
  unfold Str.string_set. sb. sbn c Hc. sbn idx Hidx.
  sbn sid Hsid. sbn t Ht. sbn t' Ht'. sb. apply pres_ret. exact I.
Qed.
Lemma pres_make_string : pres Str.make_string no_lexptr.
Proof.
  unfold Str.make_string. sbn argc Hargc.
  eapply pres_bind with (Q := T);
    [destruct (argc =? 1); [apply pres_ret; exact I|apply pres_pop_char]|intros c _].
  sbn size Hsize. apply pres_str_new.
Qed.

Lemma pres_string_loop n : forall v, pres (Str.string_loop n v) T.
Proof.
  induction n as [|n IH]; intros v; cbn [Str.string_loop]; [apply pres_ret; exact I|].
  sbn c Hc. apply IH.
Qed.
Lemma pres_string_ : pres Str.string_ no_lexptr.
Proof.
  unfold Str.string_. sbn argc Hargc.
  eapply pres_bind; [apply pres_string_loop|intros v _]. apply pres_str_new.
Qed.

Lemma pres_string_comp_loop comp n : forall y result, pres (Str.string_comp_loop comp n y result) T.
Proof.
  induction n as [|n IH]; intros y result; cbn [Str.string_comp_loop]; [apply pres_ret; exact I|].
  sbn x Hx. sbn ys Hys. sbn xs Hxs. apply IH.
Qed.
Lemma pres_string_comp comp : pres (Str.string_comp comp) no_lexptr.
Proof.
  unfold Str.string_comp. sbn argc Hargc. sbn y Hy.
  eapply pres_bind; [apply pres_string_comp_loop|intros r _]. apply pres_ret. exact I.
Qed.
Lemma pres_string_cmp o : pres (Str.string_cmp o) no_lexptr.
Proof. apply pres_string_comp. Qed.
Lemma pres_string_ci_cmp o : pres (Str.string_ci_cmp o) no_lexptr.
Proof. apply pres_string_comp. Qed.

(* ------------------------------------------------------------------ char.rs *)
Lemma pres_char_pred p : pres (Str.char_pred p) no_lexptr.
Proof. unfold Str.char_pred. sb. sbn c Hc. apply pres_ret. exact I. Qed.
Lemma pres_char_is_alphabetic : pres Str.char_is_alphabetic no_lexptr.
Proof. apply pres_char_pred. Qed.
Lemma pres_char_is_numeric : pres Str.char_is_numeric no_lexptr.
Proof. apply pres_char_pred. Qed.
Lemma pres_char_is_lower_case : pres Str.char_is_lower_case no_lexptr.
Proof. apply pres_char_pred. Qed.
Lemma pres_char_is_upper_case : pres Str.char_is_upper_case no_lexptr.
Proof. apply pres_char_pred. Qed.
Lemma pres_char_is_whitespace : pres Str.char_is_whitespace no_lexptr.
Proof. apply pres_char_pred. Qed.

Lemma pres_integer_to_char : pres Str.integer_to_char no_lexptr.
Proof.
  unfold Str.integer_to_char. sb. sbn n Hn.
  destruct (Str.num_to_u32 n) as [u|]; [|apply pres_fail].
  destruct (is_scalar u); [apply pres_ret; exact I|apply pres_fail].
Qed.
Lemma pres_char_to_integer : pres Str.char_to_integer no_lexptr.
Proof. unfold Str.char_to_integer. sb. sbn c Hc. apply pres_ret. exact I. Qed.

Lemma pres_char_map f : pres (Str.char_map f) no_lexptr.
Proof. unfold Str.char_map. sb. sbn c Hc. apply pres_ret. exact I. Qed.
Lemma pres_char_upcase : pres Str.char_upcase no_lexptr.
Proof. apply pres_char_map. Qed.
Lemma pres_char_downcase : pres Str.char_downcase no_lexptr.
Proof. apply pres_char_map. Qed.
Lemma pres_char_foldcase : pres Str.char_foldcase no_lexptr.
Proof. apply pres_char_map. Qed.

Lemma pres_digit_value : pres Str.digit_value no_lexptr.
Proof.
  unfold Str.digit_value. sb. sbn c Hc.
  destruct (negb (is_digit c)); apply pres_ret; exact I.
Qed.

Lemma pres_char_comp_loop comp n : forall y result, pres (Str.char_comp_loop comp n y result) T.
Proof.
  induction n as [|n IH]; intros y result; cbn [Str.char_comp_loop]; [apply pres_ret; exact I|].
  sbn x Hx. apply IH.
Qed.
Lemma pres_char_comp comp : pres (Str.char_comp comp) no_lexptr.
Proof.
  unfold Str.char_comp. sbn argc Hargc. sbn y Hy.
  eapply pres_bind; [apply pres_char_comp_loop|intros r _]. apply pres_ret. exact I.
Qed.
Lemma pres_char_cmp o : pres (Str.char_cmp o) no_lexptr.
Proof. apply pres_char_comp. Qed.
Lemma pres_char_ci_cmp o : pres (Str.char_ci_cmp o) no_lexptr.
Proof. apply pres_char_comp. Qed.

(* ------------------------------------------------------------------ symbol.rs *)
Lemma pres_b_string_symbol : pres b_string_symbol no_lexptr.
Proof. unfold b_string_symbol. sb. sbn sid Hsid. sbn t Ht. apply pres_ret. exact I. Qed.
Lemma pres_b_symbol_string : pres b_symbol_string no_lexptr.
Proof. unfold b_symbol_string. sb. sbn name Hname. sbn t Ht. apply pres_str_new. Qed.
Lemma pres_symbol_eq_loop k : forall y result, pres (symbol_eq_loop k y result) T.
Proof.
  induction k as [|k IH]; intros y result; cbn [symbol_eq_loop]; [apply pres_ret; exact I|].
  sbn x Hx. apply IH.
Qed.
Lemma pres_b_symbol_eq : pres b_symbol_eq no_lexptr.
Proof.
  unfold b_symbol_eq. sbn argc Hargc. sbn y Hy.
  eapply pres_bind; [apply pres_symbol_eq_loop|intros r _]. apply pres_ret. exact I.
Qed.

(* ------------------------------------------------------------------ the dispatch *)
Theorem pres_pkg_builtin :
  (forall c, pres (maybe_put_cell_m c) no_lexptr) -> (forall b, pres (lv_builtin b) no_lexptr) ->
  forall b, pres (pkg_builtin b) no_lexptr.
Proof.
  intros Hput Hlv b. unfold pkg_builtin. cbv zeta.
  repeat match goal with
         | |- pres (if ?c then _ else _) _ => destruct c
         end;
    lazymatch goal with
    | |- pres (num_builtin _) _ => apply pres_num_builtin
    | |- pres (cell_builtin _) _ => apply pres_cell_builtin; exact Hput
    | |- pres (lv_builtin _) _ => apply Hlv
    | |- pres Str.string_length _ => exact pres_string_length
    | |- pres Str.string_ref _ => exact pres_string_ref
    | |- pres Str.string_set _ => exact pres_string_set
    | |- pres Str.string_copy _ => exact pres_string_copy
    | |- pres Str.string_fill _ => exact pres_string_fill
    | |- pres Str.string_list _ => exact pres_string_list
    | |- pres Str.string_vector _ => exact pres_string_vector
    | |- pres Str.vector_string _ => exact pres_vector_string
    | |- pres Str.list_string _ => exact pres_list_string
    | |- pres Str.string_ _ => exact pres_string_
    | |- pres Str.make_string _ => exact pres_make_string
    | |- pres Str.string_append _ => exact pres_string_append
    | |- pres (Str.string_cmp _) _ => apply pres_string_cmp
    | |- pres (Str.string_ci_cmp _) _ => apply pres_string_ci_cmp
    | |- pres Str.string_upcase _ => exact pres_string_upcase
    | |- pres Str.string_downcase _ => exact pres_string_downcase
    | |- pres Str.string_foldcase _ => exact pres_string_foldcase
    | |- pres Str.char_to_integer _ => exact pres_char_to_integer
    | |- pres Str.integer_to_char _ => exact pres_integer_to_char
    | |- pres Str.char_is_alphabetic _ => exact pres_char_is_alphabetic
    | |- pres Str.char_is_numeric _ => exact pres_char_is_numeric
    | |- pres Str.char_is_whitespace _ => exact pres_char_is_whitespace
    | |- pres Str.char_is_upper_case _ => exact pres_char_is_upper_case
    | |- pres Str.char_is_lower_case _ => exact pres_char_is_lower_case
    | |- pres Str.char_upcase _ => exact pres_char_upcase
    | |- pres Str.char_downcase _ => exact pres_char_downcase
    | |- pres Str.char_foldcase _ => exact pres_char_foldcase
    | |- pres Str.digit_value _ => exact pres_digit_value
    | |- pres (Str.char_cmp _) _ => apply pres_char_cmp
    | |- pres (Str.char_ci_cmp _) _ => apply pres_char_ci_cmp
    | |- pres b_string_symbol _ => exact pres_b_string_symbol
    | |- pres b_symbol_string _ => exact pres_b_symbol_string
    | |- pres b_symbol_eq _ => exact pres_b_symbol_eq
    end.
Qed.
