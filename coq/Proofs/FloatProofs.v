(* FloatProofs.v — finite doubles survive number->string / string->number in
   radix 10 (C16 float_roundtrip).

   What is proved here is marwood's own part: the choice among {:e} / {:.1} / {}
   always yields a text that the three exact parsers of Number::parse reject
   (it has an 'e' or a '.', and no '/'), so the text reaches the float parser,
   whatever sign and digits it has.  The numeric heart — the digits that the
   specification of std's shortest formatting (Model/F64Fmt.v) picks convert back,
   under the specification of std's correctly rounded parsing, to the same double —
   enters as the two hypotheses of the section; they are closed, decidable
   statements about executable definitions, checked in-kernel on a palette
   (Props/C16.v) and against the real std on every run of the check.            *)
From Coq Require Import ZArith List Bool Lia.
From Flocq Require Import IEEE754.BinarySingleNaN.
From MW Require Import Model.Base Model.F64 Model.Num Model.Digits Model.F64Fmt Model.NumFmt
  Model.Datum Model.NumProc Proofs.DigitsProofs Proofs.NumFmtProofs.
Open Scope Z_scope.

(* a text with a character that is neither a decimal digit, '_', '+' nor '-' , and
   without '/' *)
Definition float_text_ok (t : text) : Prop :=
  (exists c, In c t /\ to_digit 10 c = None /\ (c =? 95)%N = false /\ (c =? 43)%N = false /\ (c =? 45)%N = false)
  /\ ~ In 47%N t.

Lemma int_from_str_float_text lo hi t : float_text_ok t -> int_from_str_radix lo hi t 10 = None.
Proof.
  intros ((c & Hin & Hd & _ & H43 & H45) & _). unfold int_from_str_radix.
  destruct t as [|c0 r]. inversion Hin.
  destruct ((c0 =? 43) || (c0 =? 45))%N eqn:E.
  - assert (Hr : In c r).
    { destruct Hin as [->|H]; [|assumption]. rewrite H43, H45 in E. cbn in E. discriminate. }
    destruct r as [|c1 r']. inversion Hr.
    rewrite (digits_value_none 10 c (c1 :: r') Hr Hd). destruct (c0 =? 45)%N; reflexivity.
  - now rewrite (digits_value_none 10 c (c0 :: r) Hin Hd).
Qed.

Lemma to_digit_minus : to_digit 10 45%N = None. Proof. reflexivity. Qed.
Lemma to_digit_plus : to_digit 10 43%N = None. Proof. reflexivity. Qed.

Lemma biguint_from_str_float_text t c : In c t -> to_digit 10 c = None -> (c =? 95)%N = false ->
  (c =? 43)%N = false -> biguint_from_str_radix t 10 = None.
Proof.
  intros Hin Hd H95 H43. unfold biguint_from_str_radix.
  assert (Hs : strip_plus t = t \/ exists tl, t = 43%N :: tl /\ strip_plus t = tl /\ In c tl).
  { unfold strip_plus. destruct t as [|c0 tl]. now left.
    destruct (c0 =? 43)%N eqn:E; [|now left].
    apply N.eqb_eq in E. subst c0.
    destruct Hin as [<-|Hin]; [rewrite N.eqb_refl in H43; discriminate|].
    destruct tl as [|c2 tl']. inversion Hin.
    destruct (c2 =? 43)%N; [now left|]. right. exists (c2 :: tl'). auto. }
  destruct Hs as [->|(tl & -> & -> & Hin')].
  - destruct t as [|c0 tl]. reflexivity.
    destruct (c0 =? 95)%N; [reflexivity|]. now apply (big_digits_none 10 c).
  - destruct tl as [|c0 tl']. reflexivity.
    destruct (c0 =? 95)%N; [reflexivity|]. now apply (big_digits_none 10 c).
Qed.

Lemma bigint_from_str_float_text t : float_text_ok t -> bigint_from_str_radix t 10 = None.
Proof.
  intros ((c & Hin & Hd & H95 & H43 & H45) & _). unfold bigint_from_str_radix.
  destruct t as [|c0 tl]. inversion Hin.
  destruct (c0 =? 45)%N eqn:E.
  - apply N.eqb_eq in E. subst c0.
    assert (Hin' : In c tl). { destruct Hin as [<-|H]; [rewrite N.eqb_refl in H45; discriminate|assumption]. }
    destruct tl as [|c2 tl']. inversion Hin'.
    cbv beta iota zeta.
    assert (A : biguint_from_str_radix (45%N :: c2 :: tl') 10 = None).
    { apply (biguint_from_str_float_text _ 45%N); try reflexivity. now left. }
    assert (B : biguint_from_str_radix (c2 :: tl') 10 = None).
    { apply (biguint_from_str_float_text _ c); assumption. }
    destruct (c2 =? 43)%N; [exact (f_equal (option_map Z.opp) A)|exact (f_equal (option_map Z.opp) B)].
  - now apply (biguint_from_str_float_text (c0 :: tl) c).
Qed.

(* Number::parse on such a text is the float parser *)
Theorem number_parse_float_text p t : float_text_ok t ->
  number_parse p t 10 = Ok (match dec2flt t with Some f => Some (Float f) | None => None end).
Proof.
  intros H. unfold number_parse. cbn [Z.ltb Z.compare orb].
  rewrite int_from_str_float_text, bigint_from_str_float_text by assumption.
  rewrite parse_rational_no_slash by apply H. cbn [bind].
  unfold f64_from_str_radix. cbn [Z.eqb Pos.eqb]. destruct (dec2flt t); reflexivity.
Qed.

(* ----------------------------------------------- the characters of a float text *)
Definition fchar (c : cp) : Prop := hexdigit c \/ c = 45%N \/ c = 46%N \/ c = 101%N.

Lemma fchar_not_slash l : Forall fchar l -> ~ In 47%N l.
Proof.
  intros H Hin. rewrite Forall_forall in H. destruct (H _ Hin) as [Hd|[?|[?|?]]]; try discriminate.
  pose proof (digit_char_neqb 47%N 47%N (hexdigit_is_digit_char _ Hd) ltac:(lia)) as E. now rewrite N.eqb_refl in E.
Qed.

Lemma Forall_fchar_digits r n : 2 <= r <= 16 -> 0 <= n -> Forall fchar (show_nat_radix r n).
Proof. intros. eapply Forall_impl; [|apply show_nat_radix_hex_all; eassumption]. now left. Qed.

Lemma Forall_fchar_int z : Forall fchar (show_int_radix 10 z).
Proof.
  destruct (Z_lt_le_dec z 0) as [Hz|Hz].
  - rewrite show_int_radix_neg by assumption. constructor; [right; now left|].
    apply Forall_fchar_digits; lia.
  - rewrite show_int_radix_pos by assumption. apply Forall_fchar_digits; lia.
Qed.

Lemma fchar_zero : fchar 48%N.
Proof. left. exists 0. split; [lia|reflexivity]. Qed.
Lemma fchar_minus : fchar 45%N. Proof. right; now left. Qed.
Lemma fchar_dot : fchar 46%N. Proof. right; right; now left. Qed.
Lemma fchar_e : fchar 101%N. Proof. right; right; now right. Qed.

Lemma Forall_fchar_zeros n : Forall fchar (zeros n).
Proof. unfold zeros. apply Forall_forall. intros c H. apply repeat_spec in H. subst. apply fchar_zero. Qed.

Lemma Forall_fchar_sign s : Forall fchar (sign_text s).
Proof. destruct s; cbn [sign_text]; [constructor; [apply fchar_minus|constructor]|constructor]. Qed.

Lemma Forall_firstn {A} (P : A -> Prop) n l : Forall P l -> Forall P (firstn n l).
Proof. intros H. rewrite <- (firstn_skipn n l) in H. apply Forall_app in H. tauto. Qed.
Lemma Forall_skipn {A} (P : A -> Prop) n l : Forall P l -> Forall P (skipn n l).
Proof. intros H. rewrite <- (firstn_skipn n l) in H. apply Forall_app in H. tauto. Qed.

Lemma dec_str_fchar ds e : Forall fchar ds -> Forall fchar (dec_str ds e).
Proof.
  intros H. unfold dec_str.
  destruct (e <=? 0). { repeat (apply Forall_app; split); auto using Forall_fchar_zeros.
                        constructor; [apply fchar_zero|]. constructor; [apply fchar_dot|constructor]. }
  destruct (e <? _).
  - repeat (apply Forall_app; split); auto using Forall_firstn, Forall_skipn.
    constructor; [apply fchar_dot|constructor].
  - apply Forall_app; split; auto using Forall_fchar_zeros.
Qed.

Lemma exp_str_fchar ds e : Forall fchar ds -> Forall fchar (exp_str ds e).
Proof.
  intros H. unfold exp_str. repeat (apply Forall_app; split).
  - destruct ds as [|d [|d2 r]]; [constructor|assumption|].
    inversion H; subst. constructor; [assumption|]. constructor; [apply fchar_dot|assumption].
  - constructor; [apply fchar_e|constructor].
  - apply Forall_fchar_int.
Qed.

Lemma strip10_pos fuel : forall d k, 0 < d -> 0 < fst (strip10 fuel d k).
Proof.
  induction fuel as [|f IH]; intros d k Hd. exact Hd.
  cbn [strip10]. destruct ((0 <? d) && (d mod 10 =? 0)) eqn:E; [|exact Hd].
  apply andb_true_iff in E. destruct E as (_ & E). apply Z.eqb_eq in E.
  apply IH. pose proof (Z.div_mod d 10). assert (10 * (d / 10) = d) by lia.
  destruct (Z_lt_le_dec 0 (d / 10)); lia.
Qed.

Lemma exact_decimal_pos m e : 0 < m -> 0 < fst (exact_decimal m e).
Proof.
  intros Hm. unfold exact_decimal. destruct (0 <=? e) eqn:E; cbn [fst].
  - apply Z.leb_le in E. apply Z.mul_pos_pos; [assumption|]. apply Z.pow_pos_nonneg; lia.
  - apply Z.leb_gt in E. apply Z.mul_pos_pos; [assumption|]. apply Z.pow_pos_nonneg; lia.
Qed.

Lemma shortest_pos m e : 0 < m -> 0 < fst (shortest m e).
Proof.
  intros Hm. unfold shortest. destruct (interval m e) as ((((j, den), X), Lmin), Hmax).
  destruct (shortest_loop _ _ _ _ _ _ _ _) as [(d, k)|].
  - destruct ((0 <? d) && (0 <=? k) && (Lmin <=? d * 10 ^ k) && (d * 10 ^ k <=? Hmax)) eqn:E.
    + apply strip10_pos. apply andb_true_iff in E. destruct E as (E & _).
      apply andb_true_iff in E. destruct E as (E & _). apply andb_true_iff in E. destruct E as (E & _).
      now apply Z.ltb_lt.
    + apply strip10_pos, exact_decimal_pos, Hm.
  - apply strip10_pos, exact_decimal_pos, Hm.
Qed.

Lemma tenths_nonneg m e : 0 < m -> 0 <= tenths m e.
Proof.
  intros Hm. unfold tenths. destruct (0 <=? e) eqn:E.
  - apply Z.leb_le in E. assert (0 < 2 ^ e) by (apply Z.pow_pos_nonneg; lia). nia.
  - assert (0 <= m * 10 / 2 ^ (- e)) by (apply Z.div_pos; [lia|apply Z.pow_pos_nonneg; lia]).
    destruct (_ <? _); [assumption|]. destruct (_ <? _); [lia|]. destruct (Z.even _); lia.
Qed.

(* the text of a finite float consists of digits, '-', '.', 'e' *)
Lemma num_display_float_fchar x : is_finite x = true -> Forall fchar (num_display (Float x)).
Proof.
  intros Hf. cbn [num_display].
  destruct x as [s| | |s m e Hb]; try discriminate.
  - (* zero: integer-valued, {:.1} *)
    destruct s; vm_compute; repeat (first [apply Forall_nil | apply Forall_cons]);
      first [apply fchar_zero | apply fchar_minus | apply fchar_dot].
  - destruct (f64_ltb F_1E10 (B754_finite s m e Hb)); [|destruct (float_is_integer (B754_finite s m e Hb))].
    + cbn [fmt_exp]. pose proof (shortest_pos (Z.pos m) e ltac:(lia)) as Hp.
      destruct (shortest (Z.pos m) e) as (D, k). cbn [fst] in Hp.
      apply Forall_app; split; [apply Forall_fchar_sign|].
      apply exp_str_fchar. apply Forall_fchar_digits; lia.
    + cbn [fmt_fixed1]. apply Forall_app; split; [apply Forall_fchar_sign|].
      apply Forall_app; split.
      * assert (0 <= tenths (Z.pos m) e / 10) by (apply Z.div_pos; [apply tenths_nonneg; lia|lia]).
        apply Forall_fchar_digits; lia.
      * constructor; [apply fchar_dot|]. constructor; [|constructor].
        left. exists (tenths (Z.pos m) e mod 10). split; [|reflexivity].
        pose proof (Z.mod_pos_bound (tenths (Z.pos m) e) 10). lia.
    + cbn [fmt_display]. pose proof (shortest_pos (Z.pos m) e ltac:(lia)) as Hp.
      destruct (shortest (Z.pos m) e) as (D, k). cbn [fst] in Hp.
      apply Forall_app; split; [apply Forall_fchar_sign|].
      apply dec_str_fchar. apply Forall_fchar_digits; lia.
Qed.

Lemma to_digit_e : to_digit 10 101%N = None. Proof. reflexivity. Qed.
Lemma to_digit_dot : to_digit 10 46%N = None. Proof. reflexivity. Qed.

Section FloatRoundtrip.
  (* the numeric heart: about the executable specifications of std's formatting and
     parsing only (Model/F64Fmt.v), for every finite double *)
  Hypothesis std_roundtrip : forall x, is_finite x = true -> dec2flt (num_display (Float x)) = Some x.
  (* a non-integer double at most 1e10 prints with a decimal point *)
  Hypothesis display_point : forall x, is_finite x = true ->
    f64_ltb F_1E10 x = false -> float_is_integer x = false -> In 46%N (fmt_display x).

  Lemma num_display_float_text_ok x : is_finite x = true -> float_text_ok (num_display (Float x)).
  Proof.
    intros Hf. split; [|apply fchar_not_slash, num_display_float_fchar, Hf].
    cbn [num_display].
    destruct (f64_ltb F_1E10 x) eqn:E1; [|destruct (float_is_integer x) eqn:E2].
    - (* {:e}: there is an 'e' *)
      exists 101%N. split; [|repeat split; reflexivity].
      destruct x as [s| | |s m e Hb]; try (cbn in Hf; discriminate Hf).
      + destruct s; vm_compute in E1; discriminate E1.
      + cbn [fmt_exp]. destruct (shortest (Z.pos m) e) as (D, k).
        apply in_or_app; right. unfold exp_str. apply in_or_app; right. apply in_or_app; left. now left.
    - (* {:.1}: there is a '.' *)
      exists 46%N. split; [|repeat split; reflexivity].
      destruct x as [s| | |s m e Hb]; try (cbn in Hf; discriminate Hf).
      + destruct s; vm_compute; tauto.
      + cbn [fmt_fixed1]. apply in_or_app; right. apply in_or_app; right. now left.
    - exists 46%N. split; [|repeat split; reflexivity]. now apply display_point.
  Qed.

  (* C16 float_roundtrip: radix 10, every finite double *)
  Theorem float_roundtrip x : is_finite x = true ->
    number_string [CNum (Float x)] = Ok (CStr (num_display (Float x))) /\
    string_number [CStr (num_display (Float x))] = Ok (CNum (Float x)).
  Proof.
    intros Hf. split. reflexivity.
    unfold string_number, string_to_number. cbn [Z.ltb Z.compare orb].
    unfold parse_with_exactness_p.
    rewrite number_parse_float_text by (apply num_display_float_text_ok; assumption).
    rewrite std_roundtrip by assumption. reflexivity.
  Qed.

  (* the same with an explicit radix argument 10 *)
  Theorem float_roundtrip_radix10 x rc : is_finite x = true -> pop_usize rc = Ok 10 ->
    number_string [CNum (Float x); rc] = Ok (CStr (num_display (Float x))) /\
    string_number [CStr (num_display (Float x)); rc] = Ok (CNum (Float x)).
  Proof.
    intros Hf Hrc. split.
    - unfold number_string. rewrite Hrc. reflexivity.
    - unfold string_number. rewrite Hrc. cbn [bind Z.ltb Z.compare orb].
      unfold string_to_number. cbn [Z.ltb Z.compare orb]. unfold parse_with_exactness_p.
      rewrite number_parse_float_text by (apply num_display_float_text_ok; assumption).
      rewrite std_roundtrip by assumption. reflexivity.
  Qed.
End FloatRoundtrip.
