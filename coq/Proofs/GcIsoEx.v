(* GcIsoEx.v — C03: a small machine meeting the hypotheses of the renaming theorems: one code
   object (PUSH %acc; HALT) in heap cell 0, %ip = (0, 0), everything else empty. *)
From Coq Require Import Lia List.
From MW Require Import Model.Base Model.Num Model.VmTypes Model.Heap Model.Gc Model.VmBase Model.Vm
  Proofs.GcProofs Proofs.SymtabProofs Proofs.GcIso Proofs.GcIsoPrim Proofs.GcIsoStep Proofs.GcIsoSched.
Open Scope N_scope.

Definition ix_lam : lambda := mk_lambda true false [] [] [VOp OPushAcc; VOp OHalt] None.
Definition ix_heap : heap := snd (heap_put (heap_new 4) (VLambda 0)).
Definition ix_store : store := mk_store tempty tempty tempty (tset tempty 0 ix_lam) tempty tempty 1.
Definition ix_vm : vm := mk_vm ix_heap ix_store [] [] tempty 256 0 0 USIZE_MAX (0, 0) VUndef [].
Definition ix_W : world := mk_world (fun a => a = 0) (fun i => i = PLam 0) (fun a => a) 0.

Lemma ix_heap_inv : heap_inv ix_heap.
Proof. apply heap_inv_put_any, heap_inv_new. reflexivity. Qed.

Lemma ix_srel : srel ix_W ix_vm ix_vm.
Proof.
  assert (A0 : allocated ix_heap 0) by (split; [reflexivity|vm_compute; discriminate]).
  constructor; cbn [ix_W ix_vm wa wi wf wtop hp st g_bind g_slots stack scap sp bp ep ip acc out_log fst snd].
  - reflexivity.
  - vm_compute. discriminate.
  - intros a b -> ->. reflexivity.
  - intros a ->. exact A0.
  - intros a ->. exact A0.
  - exact ix_heap_inv.
  - exact ix_heap_inv.
  - intros a ->. change (cell_at ix_heap 0) with (VLambda 0). split; [reflexivity|].
    split; [intros x []|intros i [<-|[]]; reflexivity].
  - constructor; try reflexivity; intros i Hi; try discriminate Hi.
    injection Hi as ->. cbn [ix_store lams]. rewrite tget_tset_same. cbn [orel]. split; [reflexivity|].
    split; [|split; constructor].
    cbn [bclive ix_lam l_bc is_jump]. repeat split; intros x [].
  - split; [reflexivity|intros x []].
  - split; [reflexivity|constructor].
  - intros i Hi. unfold sget. cbn [stack ix_vm]. rewrite tget_tempty. apply vr_plain; reflexivity.
  - reflexivity.
  - reflexivity.
  - reflexivity.
  - reflexivity.
  - split; [reflexivity|right; reflexivity].
  - split; [split; [reflexivity|left; reflexivity]|reflexivity].
  - apply vr_plain; reflexivity.
  - reflexivity.
Qed.

Lemma ix_ok ob : related ix_vm ix_vm /\ plain_ok ob 2 ix_vm
  /\ exists s', run_plain ob 2 ix_vm = ROk true s' /\ sget s' 1 = VUndef /\ sp s' = 1.
Proof.
  split; [exists ix_W; exact ix_srel|]. split.
  - cbn [plain_ok]. split.
    + intros op s' E. vm_compute in E. injection E as <- <-. exact I.
    + assert (E : exists s', run_one ob ix_vm = ROk false s' /\ bounded s' /\ covered s' /\
                             exists s'', run_one ob s' = ROk true s'' /\ bounded s'').
      { eexists. split; [vm_compute; reflexivity|]. split; [vm_compute; discriminate|]. split.
        - intros op s' E. vm_compute in E. injection E as <- <-. exact I.
        - eexists. split; [vm_compute; reflexivity|vm_compute; discriminate]. }
      destruct E as (s' & -> & B & C & s'' & E2 & B2). split; [exact B|]. split; [exact C|].
      rewrite E2. exact B2.
  - eexists. split; [vm_compute; reflexivity|]. split; reflexivity.
Qed.
