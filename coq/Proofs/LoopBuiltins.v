(* LoopBuiltins.v — the builtins `not`, `cdr`, `null?` against the specification style of
   Proofs/CompileCorrect.v ([builtin_ok], proved there for `not`) and Proofs/CompileCorrect2.v
   ([builtin_envs]).

   Results:
     B_CDR, B_NULLP                 indices in Gen.Builtins.builtin_table (like B_NOT);
     walk_indices_distinct          the three indices are pairwise distinct;
     run_builtin_cdr / _nullp       which model function the dispatch selects;
     bsem_walk                      the specification table knowing not, cdr, null?;
     bsem_walk_not / _cdr / _nullp  its unfolding lemmas;
     builtin_envs_walk              all three leave the lexical environments alone
                                    (they leave the whole store alone: run_builtin_walk_st);
     bsem_walk0, builtin_ok_walk0   [builtin_ok] for the table knowing `not` and `null?` only;
     builtin_ok_cdr_refuted         [builtin_ok] is FALSE for `cdr` under every specification
                                    table that gives (cdr '(#t)) a value.

   Why `cdr` cannot be specified in the [builtin_ok] style.  list::cdr (Model/ListVec.v, [cdr])
   pops its argument through ONE pointer, and for a pair cell [VPair x y] answers [VPtr y], the
   address in the cdr FIELD.  [builtin_ok] demands [vrep (VPtr y) (RDatum d)], whose [one_ptr]
   part says that the cell at y is not itself a pointer cell.  Nothing in [minv] / [heap_inv]
   or in [reads] excludes a cdr field that points to a pointer cell: get_as_cell follows such a
   chain transparently (Model/Heap.v, the arm `other => get_as_cell f other` under VPair).
   The heap
        p: VPair t y      t: VBool true      y: VPtr n      n: VNil
   satisfies heap_inv, [VPtr p] represents '(#t) in the sense of [vrep], cdr answers [VPtr y],
   and [one_ptr (VPtr y)] fails.  The datum cannot tell, so no restriction of the specification
   to particular data (proper lists, lists of symbols, ...) repairs the statement; the minimal
   sound restriction under [builtin_ok] as it stands is the table without cdr ([bsem_walk0]).
   (cdr never FAILS on a value representing a pair: get_as_cell answers a CPair for VPair
   cells only.) *)
From Coq Require Import String Lia FMapPositive.
From MW Require Import Model.Base Model.F64 Model.Num Model.Datum Model.TransformDef Model.Transform
  Model.VmTypes Model.Heap Model.Gc Model.VmBase Model.Compile Model.Vm
  Proofs.VmProofs0 Proofs.GcProofs Proofs.SymtabProofs Proofs.QuoteHeapProofs
  Proofs.CompileProofs Proofs.RunProofs Proofs.CompileCorrect Proofs.CompileCorrect2.
From MW Require Model.ListVec Model.Builtins.
Open Scope N_scope.

Arguments N.add : simpl never.
Arguments N.sub : simpl never.
Arguments N.mul : simpl never.
Arguments N.eqb : simpl never.
Arguments N.ltb : simpl never.
Arguments N.leb : simpl never.

(* ============================================================ the indices *)
Definition B_CDR : N :=
  match find_index (fun e => text_eqb (fst e) (S_ "cdr")) Gen.Builtins.builtin_table 0 with
  | Some i => i | None => 0 end.
Definition B_NULLP : N :=
  match find_index (fun e => text_eqb (fst e) (S_ "null?")) Gen.Builtins.builtin_table 0 with
  | Some i => i | None => 0 end.

Lemma walk_indices_distinct : B_NOT <> B_CDR /\ B_NOT <> B_NULLP /\ B_CDR <> B_NULLP.
Proof. vm_compute. repeat split; discriminate. Qed.

Lemma B_CDR_eqb_NOT : (B_CDR =? B_NOT) = false.
Proof. vm_compute. reflexivity. Qed.
Lemma B_NULLP_eqb_NOT : (B_NULLP =? B_NOT) = false.
Proof. vm_compute. reflexivity. Qed.
Lemma B_NULLP_eqb_CDR : (B_NULLP =? B_CDR) = false.
Proof. vm_compute. reflexivity. Qed.

(* the fuel of the error rendering is not computed (it is a large unary number) *)
Lemma run_builtin_cdr : Vm.run_builtin Builtins.other_builtin B_CDR = ListVec.cdr Builtins.LV_FUEL_VM.
Proof. lazy -[ListVec.cdr Builtins.LV_FUEL_VM]. reflexivity. Qed.
Lemma run_builtin_nullp : Vm.run_builtin Builtins.other_builtin B_NULLP = ListVec.is_null.
Proof. vm_compute. reflexivity. Qed.

(* ============================================================ the specification table *)
Definition is_nil_cell (d : cell) : bool := match d with CNil => true | _ => false end.

Definition bsem_walk (b : N) (rs : list rval) : option rval :=
  if b =? B_NOT then match rs with [r] => Some (RDatum (CBool (is_false r))) | _ => None end
  else if b =? B_CDR then match rs with [RDatum (CPair a d)] => Some (RDatum d) | _ => None end
  else if b =? B_NULLP then match rs with [RDatum d] => Some (RDatum (CBool (is_nil_cell d))) | _ => None end
  else None.

Lemma bsem_walk_not r : bsem_walk B_NOT [r] = Some (RDatum (CBool (is_false r))).
Proof. unfold bsem_walk. rewrite N.eqb_refl. reflexivity. Qed.
Lemma bsem_walk_cdr a d : bsem_walk B_CDR [RDatum (CPair a d)] = Some (RDatum d).
Proof. unfold bsem_walk. rewrite B_CDR_eqb_NOT, N.eqb_refl. reflexivity. Qed.
Lemma bsem_walk_nullp d : bsem_walk B_NULLP [RDatum d] = Some (RDatum (CBool (is_nil_cell d))).
Proof. unfold bsem_walk. rewrite B_NULLP_eqb_NOT, B_NULLP_eqb_CDR, N.eqb_refl. reflexivity. Qed.

(* the table without cdr: what [builtin_ok] can be proved for *)
Definition bsem_walk0 (b : N) (rs : list rval) : option rval :=
  if b =? B_NOT then match rs with [r] => Some (RDatum (CBool (is_false r))) | _ => None end
  else if b =? B_NULLP then match rs with [RDatum d] => Some (RDatum (CBool (is_nil_cell d))) | _ => None end
  else None.

Lemma bsem_walk0_not r : bsem_walk0 B_NOT [r] = Some (RDatum (CBool (is_false r))).
Proof. unfold bsem_walk0. rewrite N.eqb_refl. reflexivity. Qed.
Lemma bsem_walk0_nullp d : bsem_walk0 B_NULLP [RDatum d] = Some (RDatum (CBool (is_nil_cell d))).
Proof. unfold bsem_walk0. rewrite B_NULLP_eqb_NOT, N.eqb_refl. reflexivity. Qed.
(* bsem_walk0 is bsem_walk with the cdr case removed *)
Lemma bsem_walk0_sub b rs r : bsem_walk0 b rs = Some r -> bsem_walk b rs = Some r.
Proof.
  unfold bsem_walk0, bsem_walk. destruct (b =? B_NOT); [auto|].
  destruct (N.eqb_spec b B_NULLP) as [->|]; [|discriminate]. rewrite B_NULLP_eqb_CDR. auto.
Qed.

(* ============================================================ the store is left alone *)
Lemma pop_argc_st mn mx m n m' : pop_argc mn mx m = ROk n m' -> st m' = st m.
Proof.
  unfold pop_argc. intros H. apply bind_ok_inv2 in H as (v0 & s0 & P0 & H).
  rewrite <- (pop_raw_st _ _ _ P0).
  destruct v0; try discriminate. destruct ((_ <? _) || _); [discriminate|]. injection H as _ <-. reflexivity.
Qed.
Lemma pop_value_st m v m' : pop_value m = ROk v m' -> st m' = st m.
Proof.
  unfold pop_value, pop_deref. intros H. apply bind_ok_inv2 in H as (v1 & s1 & P1 & H).
  unfold hderef, lift in H. destruct (heap_deref (hp s1) v1); try discriminate. injection H as _ <-.
  apply (pop_raw_st _ _ _ P1).
Qed.
Lemma cdr_st f m v m' : ListVec.cdr f m = ROk v m' -> st m' = st m.
Proof.
  unfold ListVec.cdr. intros H.
  apply bind_ok_inv2 in H as (n & s1 & H1 & H).
  apply bind_ok_inv2 in H as (w & s2 & H2 & H).
  rewrite <- (pop_argc_st _ _ _ _ _ H1), <- (pop_value_st _ _ _ H2).
  destruct w; try (unfold ret in H; injection H as _ <-; reflexivity);
    (unfold ListVec.fail_cell in H; apply bind_ok_inv2 in H as (c0 & s3 & _ & H); discriminate).
Qed.
Lemma is_null_st m v m' : ListVec.is_null m = ROk v m' -> st m' = st m.
Proof.
  unfold ListVec.is_null, ListVec.type_pred. intros H.
  apply bind_ok_inv2 in H as (n & s1 & H1 & H).
  apply bind_ok_inv2 in H as (w & s2 & H2 & H). unfold ret in H. injection H as _ <-.
  rewrite (pop_value_st _ _ _ H2). apply (pop_argc_st _ _ _ _ _ H1).
Qed.

Lemma run_builtin_walk_st b m v m' rs r : bsem_walk b rs = Some r ->
  Vm.run_builtin Builtins.other_builtin b m = ROk v m' -> st m' = st m.
Proof.
  unfold bsem_walk. intros Hsem Hrun.
  destruct (N.eqb_spec b B_NOT) as [->|_]; [rewrite run_builtin_not in Hrun; exact (not_b_st _ _ _ Hrun)|].
  destruct (N.eqb_spec b B_CDR) as [->|_]; [rewrite run_builtin_cdr in Hrun; exact (cdr_st _ _ _ _ Hrun)|].
  destruct (N.eqb_spec b B_NULLP) as [->|_]; [|discriminate].
  rewrite run_builtin_nullp in Hrun. exact (is_null_st _ _ _ Hrun).
Qed.

Theorem builtin_envs_walk : forall b, builtin_envs Builtins.other_builtin bsem_walk b.
Proof.
  intros b m v m' rs r Hsem Hrun. rewrite (run_builtin_walk_st b m v m' rs r Hsem Hrun). reflexivity.
Qed.
Theorem builtin_envs_walk0 : forall b, builtin_envs Builtins.other_builtin bsem_walk0 b.
Proof.
  intros b m v m' rs r Hsem Hrun. apply bsem_walk0_sub in Hsem.
  exact (builtin_envs_walk b m v m' rs r Hsem Hrun).
Qed.

(* ============================================================ null? *)
(* the cell read through at most one pointer is Nil exactly when the datum is the empty list *)
Lemma gac_nil h s n w c : (forall q, w <> VPtr q) ->
  get_as_cell builtin_name h s (S n) w = Ok c -> ListVec.is_nil w = is_nil_cell c.
Proof.
  intros Hnp H1. destruct w; cbn [get_as_cell] in H1; try discriminate;
    try (exfalso; eapply Hnp; reflexivity);
    try (injection H1 as <-; reflexivity);
    repeat match type of H1 with
           | (do _ <- ?X; _) = _ => destruct X; cbn [bind] in H1; try discriminate
           | match ?X with _ => _ end = _ => destruct X; try discriminate
           end;
    try (injection H1 as <-; reflexivity).
Qed.

Lemma vrep_nil v d h s : vrep v (RDatum d) h s ->
  exists w, heap_deref h v = Ok w /\ ListVec.is_nil w = is_nil_cell d.
Proof.
  intros H. destruct (vrep_deref v _ h s H) as (w & Hd & Hnp & [n Hn]). exists w. split; [exact Hd|].
  eapply gac_nil; [exact Hnp|]. apply (Hn (S n)). lia.
Qed.

Lemma builtin_ok_nullp bsem :
  (forall rs r, bsem B_NULLP rs = Some r -> exists d, rs = [RDatum d] /\ r = RDatum (CBool (is_nil_cell d))) ->
  builtin_ok Builtins.other_builtin bsem B_NULLP.
Proof.
  intros Hspec m sp0 vs rs r MI Hsp Htop Hargs Hvs Hsem.
  destruct (Hspec rs r Hsem) as (d & -> & ->).
  inversion Hvs as [|v1 r1' vs1 rs1 V1 Hnil]; subst. inversion Hnil; subst.
  change (len [v1]) with 1 in *.
  pose proof (Hargs 0 v1 eq_refl) as H1. rewrite N.add_0_r in H1.
  destruct (vrep_nil _ _ _ _ V1) as (w & Hw & Hwn).
  pose proof (mi_sp _ MI) as Hcap.
  rewrite run_builtin_nullp. unfold ListVec.is_null, ListVec.type_pred.
  unfold bindM at 1. unfold pop_argc. unfold bindM at 1. unfold pop_raw at 1.
  destruct (N.eqb_spec (sp m) 0) as [E0|_]; [lia|].
  destruct (N.ltb_spec (sp m) (scap m)) as [_|]; [|lia].
  rewrite Htop. change ((1 <? 1) || (1 <? 1)) with false. cbv iota. unfold ret at 1.
  unfold bindM at 1. unfold pop_value, pop_deref. unfold bindM at 1. unfold pop_raw.
  cbn [sp scap with_sp with_stack].
  destruct (N.eqb_spec (sp m - 1) 0) as [E0|_]; [lia|].
  destruct (N.ltb_spec (sp m - 1) (scap m)) as [_|]; [|lia].
  change (sget (with_sp m (sp m - 1)) (sp m - 1)) with (sget m (sp m - 1)).
  replace (sp m - 1) with (sp0 + 1) by lia. rewrite H1.
  unfold hderef, lift. cbn [hp with_sp with_stack]. rewrite Hw. unfold ret.
  set (m' := with_sp (with_sp m (sp0 + 1)) (sp0 + 1 - 1)).
  rewrite Hwn. exists (VBool (is_nil_cell d)), m'. split; [reflexivity|].
  split; [destruct MI as [HI GI SP]; constructor; [exact HI|exact GI|cbn [sp scap m' with_sp with_stack]; lia]|].
  split; [apply cext_same; try reflexivity; lia|]. split; [apply vrep_bool|].
  split; [cbn [sp m' with_sp with_stack]; lia|]. split; [intros j _; reflexivity|].
  repeat split.
Qed.

(* ============================================================ not + null? *)
Theorem builtin_ok_walk0 : forall b, builtin_ok Builtins.other_builtin bsem_walk0 b.
Proof.
  intros b. destruct (N.eqb_spec b B_NOT) as [->|Hn].
  - (* not: builtin_ok_not *)
    intros m sp0 vs rs r MI Hsp Htop Hargs Hvs Hsem.
    apply (builtin_ok_not B_NOT m sp0 vs rs r MI Hsp Htop Hargs Hvs).
    unfold bsem_walk0 in Hsem. unfold bsem_not. rewrite N.eqb_refl in *. exact Hsem.
  - destruct (N.eqb_spec b B_NULLP) as [->|Hp].
    + apply builtin_ok_nullp. intros rs r Hsem. unfold bsem_walk0 in Hsem.
      rewrite B_NULLP_eqb_NOT, N.eqb_refl in Hsem.
      destruct rs as [|[d|b0] [|? ?]]; try discriminate. injection Hsem as <-. exists d. split; reflexivity.
    + intros m sp0 vs rs r _ _ _ _ _ Hsem. unfold bsem_walk0 in Hsem.
      apply N.eqb_neq in Hn, Hp. rewrite Hn, Hp in Hsem. discriminate.
Qed.

(* ============================================================ cdr *)
(* what list::cdr does on an argument that is a pair behind at most one pointer: it answers
   the address in the cdr field, as a pointer *)
Lemma cdr_run f m sp0 v1 x y :
  sp m = sp0 + 2 -> sp m < scap m -> sget m (sp m) = VArgc 1 -> sget m (sp0 + 1) = v1 ->
  heap_deref (hp m) v1 = Ok (VPair x y) ->
  ListVec.cdr f m = ROk (VPtr y) (with_sp (with_sp m (sp0 + 1)) (sp0 + 1 - 1)).
Proof.
  intros Hsp Hcap Htop H1 Hw. unfold ListVec.cdr.
  unfold bindM at 1. unfold pop_argc. unfold bindM at 1. unfold pop_raw at 1.
  destruct (N.eqb_spec (sp m) 0) as [E0|_]; [lia|].
  destruct (N.ltb_spec (sp m) (scap m)) as [_|]; [|lia].
  rewrite Htop. change ((1 <? 1) || (1 <? 1)) with false. cbv iota. unfold ret at 1.
  unfold bindM at 1. unfold pop_value, pop_deref. unfold bindM at 1. unfold pop_raw.
  cbn [sp scap with_sp with_stack].
  destruct (N.eqb_spec (sp m - 1) 0) as [E0|_]; [lia|].
  destruct (N.ltb_spec (sp m - 1) (scap m)) as [_|]; [|lia].
  change (sget (with_sp m (sp m - 1)) (sp m - 1)) with (sget m (sp m - 1)).
  replace (sp m - 1) with (sp0 + 1) by lia. rewrite H1.
  unfold hderef, lift. cbn [hp with_sp with_stack]. rewrite Hw. reflexivity.
Qed.

(* ------------------------------------------------------------ the refutation of builtin_ok *)
(* a heap satisfying the invariant on which the list (#t) is stored with a pointer cell
   between the pair and the empty list:  p: VPair t y   t: VBool true   y: VPtr n   n: VNil *)
Lemma cx_heap : exists h p t y n,
  heap_inv h /\ allocated h p /\ allocated h t /\ allocated h y /\ allocated h n /\
  cell_at h p = VPair t y /\ cell_at h t = VBool true /\ cell_at h y = VPtr n /\ cell_at h n = VNil.
Proof.
  assert (HI0 : heap_inv (heap_new 8)) by (apply heap_inv_new; lia).
  destruct (heap_put (heap_new 8) VNil) as [r1 h1] eqn:E1.
  destruct (heap_put_frame _ _ _ _ HI0 E1 ltac:(discriminate)) as (n & -> & An & Cn & HI1 & X1).
  destruct (heap_put h1 (VBool true)) as [r2 h2] eqn:E2.
  destruct (heap_put_frame _ _ _ _ HI1 E2 ltac:(discriminate)) as (t & -> & At & Ct & HI2 & X2).
  destruct (heap_put h2 VVoid) as [r3 h3] eqn:E3.
  destruct (heap_put_frame _ _ _ _ HI2 E3 ltac:(discriminate)) as (y & -> & Ay & Cy & HI3 & X3).
  (* n and t in h3 *)
  destruct (X2 n An) as [An2 Cn2]. destruct (X3 n An2) as [An3 Cn3].
  destruct (X3 t At) as [At3 Ct3].
  assert (Hny : n <> y) by (intros ->; rewrite Cy, Cn2, Cn in Cn3; discriminate).
  assert (Hty : t <> y) by (intros ->; rewrite Cy, Ct in Ct3; discriminate).
  (* overwrite the cell y with a pointer to n *)
  set (h4 := mk_heap (tset (cells h3) y (VPtr n)) (hlen h3) (free_list h3) (gcmap h3) (symtab h3) (chunk h3)).
  assert (HI4 : heap_inv h4).
  { apply heap_inv_store; [exact HI3|apply Ay|apply Ay|rewrite Cy; discriminate|discriminate]. }
  assert (A4 : forall q, allocated h3 q -> allocated h4 q) by (intros q A; exact A).
  assert (C4 : forall q, cell_at h4 q = if q =? y then VPtr n else cell_at h3 q) by (intros q; apply cell_at_set).
  destruct (heap_put h4 (VPair t y)) as [r5 h5] eqn:E5.
  destruct (heap_put_frame _ _ _ _ HI4 E5 ltac:(discriminate)) as (p & -> & Ap & Cp & HI5 & X5).
  destruct (X5 t (A4 t At3)) as [At5 Ct5]. destruct (X5 y (A4 y Ay)) as [Ay5 Cy5].
  destruct (X5 n (A4 n An3)) as [An5 Cn5].
  exists h5, p, t, y, n. repeat (split; [assumption|]).
  split; [rewrite Ct5, C4; destruct (N.eqb_spec t y); [contradiction|congruence]|].
  split; [rewrite Cy5, C4, N.eqb_refl; reflexivity|].
  rewrite Cn5, C4. destruct (N.eqb_spec n y); [contradiction|congruence].
Qed.

(* the machine: that heap, the argument [VPtr p] and Argc 1 on the stack *)
Definition cx_vm (h : heap) (p : N) : vm :=
  with_stack (with_heap (vm_empty 8) h) (tset (tset tempty 1 (VPtr p)) 2 (VArgc 1)) 2.

Lemma cx_vm_minv h p : heap_inv h -> minv (cx_vm h p).
Proof.
  intros HI. constructor.
  - exact HI.
  - split; intros; discriminate.
  - reflexivity.
Qed.
Lemma cx_vm_top h p : sget (cx_vm h p) 2 = VArgc 1.
Proof. unfold sget. cbn [stack cx_vm with_stack]. rewrite tget_tset_same. reflexivity. Qed.
Lemma cx_vm_arg h p : sget (cx_vm h p) 1 = VPtr p.
Proof.
  unfold sget. cbn [stack cx_vm with_stack]. rewrite tget_tset_other by discriminate.
  rewrite tget_tset_same. reflexivity.
Qed.

(* [VPtr p] represents the list (#t) *)
Lemma cx_vrep h s p t y n :
  allocated h p -> allocated h t -> allocated h y -> allocated h n ->
  cell_at h p = VPair t y -> cell_at h t = VBool true -> cell_at h y = VPtr n -> cell_at h n = VNil ->
  vrep (VPtr p) (RDatum (CPair (CBool true) CNil)) h s.
Proof.
  intros Ap At Ay An Cp Ct Cy Cn. split.
  - apply (reads_ptr builtin_name p (VPair t y)); [exact Ap|exact Cp|].
    apply reads_pair.
    + apply (reads_ptr builtin_name t (VBool true)); [exact At|exact Ct|]. apply reads_imm; intros; reflexivity.
    + apply (reads_ptr builtin_name y (VPtr n)); [exact Ay|exact Cy|].
      apply (reads_ptr builtin_name n VNil); [exact An|exact Cn|]. apply reads_imm; intros; reflexivity.
  - intros q [= <-]. split; [exact Ap|]. rewrite Cp. discriminate.
Qed.

(* no specification table that gives (cdr '(#t)) a value -- whatever the value -- satisfies
   [builtin_ok] for cdr *)
Theorem builtin_ok_cdr_refuted : forall bsem r,
  bsem B_CDR [RDatum (CPair (CBool true) CNil)] = Some r ->
  ~ builtin_ok Builtins.other_builtin bsem B_CDR.
Proof.
  intros bsem r Hsem Hok.
  destruct cx_heap as (h & p & t & y & n & HI & Ap & At & Ay & An & Cp & Ct & Cy & Cn).
  set (m := cx_vm h p).
  assert (Hargs : forall i v, list_get [VPtr p] i = Some v -> sget m (0 + 1 + i) = v).
  { intros i v Hi. pose proof (list_get_lt _ _ _ Hi) as Hlt. change (len [VPtr p]) with 1 in Hlt.
    assert (i = 0) as -> by lia. change (Some (VPtr p) = Some v) in Hi. injection Hi as <-.
    change (0 + 1 + 0) with 1. apply cx_vm_arg. }
  assert (Hvs : Forall2 (fun v r => vrep v r (hp m) (st m)) [VPtr p] [RDatum (CPair (CBool true) CNil)]).
  { constructor; [|constructor]. change (hp m) with h. exact (cx_vrep h _ p t y n Ap At Ay An Cp Ct Cy Cn). }
  destruct (Hok m 0 [VPtr p] [RDatum (CPair (CBool true) CNil)] r (cx_vm_minv h p HI)
              eq_refl (cx_vm_top h p) Hargs Hvs Hsem) as (v & m' & Hrun & _ & _ & V & _).
  rewrite run_builtin_cdr in Hrun.
  rewrite (cdr_run _ m 0 (VPtr p) t y eq_refl eq_refl (cx_vm_top h p) (cx_vm_arg h p)) in Hrun.
  2:{ change (hp m) with h. cbn [heap_deref]. rewrite (heap_get_alloc h p Ap), Cp. reflexivity. }
  injection Hrun as <- <-. change (hp _) with h in V.
  destruct r as [c|b]; cbn [vrep] in V.
  - destruct V as [_ O]. destruct (O y eq_refl) as [_ C]. exact (C n Cy).
  - destruct V as (q & [= <-] & _ & C). rewrite Cy in C. discriminate.
Qed.

(* in particular the table [bsem_walk] with its cdr case *)
Corollary builtin_ok_walk_refuted : ~ (forall b, builtin_ok Builtins.other_builtin bsem_walk b).
Proof.
  intros H. exact (builtin_ok_cdr_refuted bsem_walk _ (bsem_walk_cdr (CBool true) CNil) (H B_CDR)).
Qed.

Print Assumptions builtin_ok_walk0.
Print Assumptions builtin_envs_walk.
Print Assumptions builtin_ok_cdr_refuted.
