(* NoPanicAll.v — C06: the VM-level no-panic theorem for the real builtin table, the booted
   machine and every session state. *)
From Coq Require Import Lia List.
From MW Require Import Model.Base Model.F64 Model.Num Model.Datum Model.Lex Model.Parse Model.TransformDef Model.Transform
  Model.VmTypes Model.Heap Model.Gc Model.VmBase Model.Compile Model.Vm Model.Builtins
  Proofs.GcProofs Proofs.SymtabProofs Proofs.VmProofs0 Proofs.TailProofs Proofs.EnvProofs
  Proofs.FlatProofs Proofs.FlatCompile Proofs.FlatAll Proofs.KeepCalc Proofs.KeepCompile Proofs.KeepRun Proofs.BootMinv
  Proofs.NoPanicBase Proofs.NoPanicPrims Proofs.NoPanicPrims2 Proofs.NoPanicPrims3 Proofs.NoPanicPutCell
  Proofs.NoPanicListVec Proofs.NoPanicPkg Proofs.NoPanicCompile Proofs.NoPanicRun.
Open Scope N_scope.
Arguments N.add : simpl never.
Arguments N.sub : simpl never.
Arguments N.eqb : simpl never.
Arguments N.ltb : simpl never.
Arguments N.leb : simpl never.
Arguments N.mul : simpl never.

Lemma wfm_empty c : 0 < c -> wfm (vm_empty c).
Proof.
  intros Hc. constructor.
  - apply heap_inv_new, Hc.
  - intros a k H. cbn in H. discriminate.
  - intros v H. destruct H as [a|i| |i v E|id l i v E1 E2|id l i v E1 E2|id l i v E1 E2|id k i v E1 E2|id k E1];
      cbn [vm_empty hp st acc g_slots store_empty vecs envs lams conts] in *;
      try (rewrite tget_tempty in E1; discriminate).
    + unfold cell_at, heap_new. cbn [cells]. rewrite tget_tempty. exact I.
    + unfold sget. cbn [stack vm_empty stack_new]. rewrite tget_tempty. exact I.
    + exact I.
    + unfold list_get in E. destruct (N.to_nat i); discriminate.
  - intros id k H. cbn in H. rewrite tget_tempty in H. discriminate.
  - intros id l H. cbn in H. rewrite tget_tempty in H. discriminate.
Qed.

Lemma np_load_builtins_from l : forall i s, wfm s -> npo s (load_builtins_from l i s) T_.
Proof.
  induction l as [|[name x] r IH]; intros i s W; cbn [load_builtins_from]; [apply npost_ret; [exact W|exact I]|].
  eapply npost_bind; [apply np_hput; [exact W|exact I]|]. intros sc s1 W1 G1 (q & ->).
  eapply npost_bind; [apply np_hput; [exact W1|exact I]|]. intros sym s2 W2 G2 _.
  eapply npost_bind; [apply np_as_ptr, W2|]. intros p s3 W3 G3 _.
  eapply npost_bind; [apply np_get_binding, W3|]. intros slot s4 W4 G4 _.
  eapply npost_bind; [apply (np_set_global slot (VPtr q) s4 W4 I)|]. intros u s5 W5 G5 _.
  apply IH, W5.
Qed.

Section Num.
Hypothesis Hnum : num_panics_ok.

Lemma np_ob : forall b s, wfm s -> npo s (other_builtin b s) V.
Proof. exact (np_other_builtin_with np_maybe_put_cell_m Hnum np_lv_builtin). Qed.

Definition winv (s : vm) : Prop := wfm s /\ finv s /\ J s.

Theorem eval_lpost fuel e s : winv s -> lpost (eval other_builtin fuel e s).
Proof.
  intros (W & F & Hj). apply (np_eval other_builtin np_ob kp_other_builtin builtins_ok_other fuel e s W Hj F).
Qed.

Theorem eval_winv fuel e s res s' : winv s -> eval other_builtin fuel e s = ROk res s' -> winv s'.
Proof.
  intros Hw E. pose proof (eval_lpost fuel e s Hw) as H. rewrite E in H. cbn [lpost] in H.
  destruct Hw as (W & F & Hj). pose proof (eval_rinv_ok fuel e s res s' (conj F Hj) E) as [F' J'].
  split; [exact H|split; assumption].
Qed.

Theorem eval_no_panic_x fuel e s k : winv s -> eval other_builtin fuel e s = RPanic k -> xsiteb k = false.
Proof. intros Hw E. pose proof (eval_lpost fuel e s Hw) as H. rewrite E in H. exact H. Qed.

Theorem evals_winv s s' : evals s s' -> winv s -> winv s'.
Proof. induction 1 as [s|s fuel e res s1 s2 E _ IH]; intros Hw; [exact Hw|]. apply IH. eapply eval_winv; eassumption. Qed.
End Num.

Section Boot.
Hypothesis Hnum : num_panics_ok.

Theorem load_builtins_winv s u s' : winv s -> load_builtins s = ROk u s' -> winv s'.
Proof.
  intros (W & F & Hj) E. pose proof (np_load_builtins_from Gen.Builtins.builtin_table 0 s W) as H.
  fold load_builtins in H. rewrite E in H. cbn [npost] in H.
  pose proof (load_builtins_rinv s (conj F Hj)) as P. rewrite E in P. cbn [rpost] in P. destruct P as [F' J'].
  split; [apply H|split; assumption].
Qed.

Lemma eval_cell_lpost ef d s : winv s -> lpost (eval_cell_f ef d s).
Proof. intros Hw. exact (eval_lpost Hnum ef d s Hw). Qed.

Theorem eval_text_all_winv ef fuel : forall t s acc rs s',
  winv s -> eval_text_all_f ef fuel t s acc = (rs, s') -> winv s'.
Proof.
  induction fuel as [|f IH]; intros t s acc rs s' Hw H.
  - cbn [eval_text_all_f] in H. injection H as _ <-. exact Hw.
  - rewrite eval_text_all_f_S in H. destruct (parse_text t) as [[d rest]| | |]; try (injection H as _ <-; exact Hw).
    pose proof (eval_cell_lpost ef d s Hw) as HL. destruct Hw as (W & F & Hj).
    pose proof (eval_cell_rpost ef d s (conj F Hj)) as HR.
    destruct (eval_cell_f ef d s) as [res s1|e m s1|k|]; cbn [lpost rpost] in HL, HR;
      try (injection H as _ <-; split; [assumption|split; [apply HR|apply HR]]);
      try (injection H as _ <-; split; [assumption|split; assumption]).
    assert (P : winv s1) by (split; [exact HL|split; apply HR]).
    destruct res as [c| |e m tr].
    + destruct rest as [r|]; [exact (IH r s1 _ rs s' P H)|injection H as _ <-; exact P].
    + injection H as _ <-; exact P.
    + destruct rest as [r|]; [exact (IH r s1 _ rs s' P H)|injection H as _ <-; exact P].
Qed.

Theorem winv_empty c : 0 < c -> winv (vm_empty c).
Proof. intros Hc. destruct (rinv_empty c Hc) as [F Hj]. split; [apply wfm_empty, Hc|split; assumption]. Qed.

Theorem boot_with_winv prelude s : boot_with prelude = Some s -> winv s.
Proof.
  unfold boot_with. intros H.
  assert (W0 : winv (vm_empty 8192)) by (apply winv_empty; reflexivity).
  destruct (load_builtins (vm_empty 8192)) as [u s0| | |] eqn:E0; try discriminate H.
  pose proof (load_builtins_winv _ _ _ W0 E0) as P.
  assert (G : (let '(rs, s1) := eval_text_all (S (length prelude)) prelude s0 [] in
               if forallb (fun r => match r with FOk _ => true | _ => false end) rs then Some s1 else None)
              = Some s -> winv s).
  { unfold eval_text_all.
    destruct (eval_text_all_f EVAL_FUEL (S (length prelude)) prelude s0 []) as [rs s1] eqn:E.
    destruct (forallb _ rs); [|discriminate]. intros [= <-].
    exact (eval_text_all_winv _ _ _ _ _ _ _ P E). }
  destruct (scan prelude) as [[|tk tks]| | |]; try exact (G H).
  injection H as <-. exact P.
Qed.

(* the headline: from the booted machine (any prelude text) and any session state, Vm::eval of ANY
   datum with ANY fuel never panics at a site of X *)
Theorem eval_no_vm_panic prelude s0 s fuel e k :
  boot_with prelude = Some s0 -> evals s0 s -> eval other_builtin fuel e s = RPanic k -> xsiteb k = false.
Proof.
  intros B Ev E. eapply (eval_no_panic_x Hnum); [|exact E]. eapply (evals_winv Hnum); [exact Ev|]. exact (boot_with_winv prelude s0 B).
Qed.
End Boot.

(* ------------------------------------------------------------------ statements for Props/C06.v *)
Lemma xsiteb_unfold k : xsiteb k = true <->
  (k = 11 \/ k = 12 \/ k = 13 \/ k = 41 \/ k = 42 \/ k = 43 \/ k = 45 \/ k = 46 \/ k = 47 \/ k = 48 \/ k = 49 \/ k = 50 \/ k = 51).
Proof.
  unfold xsiteb. rewrite !Bool.orb_true_iff, !N.eqb_eq. tauto.
Qed.

Theorem step_no_vm_panic (ob : N -> M vcell) :
  (forall b s, wfm s -> npost okp s (ob b s) vwf) ->
  forall s, wfm s -> lamcell s (fst (ip s)) -> J s -> finv s ->
  match run_one ob s with
  | ROk _ s' => wfm s' /\ lamcell s' (fst (ip s'))
  | RErr _ _ s' => wfm s' /\ 1 <= snd (ip s') /\ lamcell s' (fst (ip s'))
  | RPanic k => xsiteb k = false
  | RNoFuel => True
  end.
Proof.
  intros Hob s W Hl Hj F. pose proof (np_run_one ob Hob s W Hl Hj F) as H.
  destruct (run_one ob s); cbn [step_post] in H; auto.
  - destruct H as (H1 & _ & H3). auto.
  - destruct H as (H1 & _ & H3 & H4). auto.
Qed.

Theorem stack_trace_no_vm_panic s : wfm s -> 1 <= snd (ip s) -> lamcell s (fst (ip s)) ->
  match stack_trace s with Ok _ => True | Err _ => False | Panic k => xsiteb k = false | NoFuel => True end.
Proof. intros W H1 H2. exact (stack_trace_ok s W (conj H1 H2)). Qed.

Theorem builtin_no_vm_panic : num_panics_ok -> forall b s, wfm s ->
  match other_builtin b s with
  | ROk v s' => wfm s' /\ vwf s' v
  | RErr _ _ s' => wfm s'
  | RPanic k => xsiteb k = false
  | RNoFuel => True
  end.
Proof.
  intros Hn b s W. pose proof (np_ob Hn b s W) as H. destruct (other_builtin b s); cbn [npost] in H; auto.
  - destruct H as (H1 & _ & H3). auto.
  - apply H.
Qed.

Theorem prepare_eval_no_vm_panic e s : wfm s ->
  match prepare_eval e s with
  | ROk _ s' => wfm s' /\ lamcell s' (fst (ip s'))
  | RErr _ _ s' => wfm s'
  | RPanic k => xsiteb k = false
  | RNoFuel => True
  end.
Proof.
  intros W. pose proof (np_prepare_eval e s W) as H. destruct (prepare_eval e s); cbn [npost0] in H; auto.
  - destruct H as (H1 & _ & H3 & _). auto.
  - apply H.
Qed.

Theorem eval_vm_outcome : num_panics_ok -> forall fuel e s, wfm s -> finv s -> J s ->
  match eval other_builtin fuel e s with
  | ROk _ s' => wfm s' /\ finv s' /\ J s'
  | RErr _ _ s' => wfm s' /\ finv s' /\ J s'
  | RPanic k => xsiteb k = false
  | RNoFuel => True
  end.
Proof.
  intros Hn fuel e s W F Hj. pose proof (eval_lpost Hn fuel e s (conj W (conj F Hj))) as H1.
  pose proof (eval_rinv fuel e s (conj F Hj)) as H2.
  destruct (eval other_builtin fuel e s); cbn [lpost rpost] in *; auto; destruct H2; auto.
Qed.

Theorem boot_invariant : num_panics_ok -> forall prelude s0 s, boot_with prelude = Some s0 -> evals s0 s ->
  wfm s /\ finv s /\ J s.
Proof. intros Hn prelude s0 s B Ev. apply (evals_winv Hn s0 s Ev). exact (boot_with_winv Hn prelude s0 B). Qed.

Theorem eval_no_vm_panic_plain : num_panics_ok -> forall prelude s0 s fuel e k,
  boot_with prelude = Some s0 -> evals s0 s -> eval other_builtin fuel e s = RPanic k ->
  k <> 11 /\ k <> 12 /\ k <> 13 /\ k <> 41 /\ k <> 42 /\ k <> 43 /\ k <> 45 /\ k <> 46 /\ k <> 47 /\ k <> 48 /\ k <> 49 /\ k <> 50 /\ k <> 51.
Proof.
  intros Hn prelude s0 s fuel e k B Ev E. pose proof (eval_no_vm_panic Hn prelude s0 s fuel e k B Ev E) as H.
  assert (N : ~ (xsiteb k = true)) by (rewrite H; discriminate). rewrite xsiteb_unfold in N. tauto.
Qed.
