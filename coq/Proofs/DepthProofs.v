(* DepthProofs.v — recursion depth of the depth-instrumented models (Model/Depth.v) on the
   direction families of property C19: exact values or bounds by induction on the nesting. *)
From Coq Require Import Lia FMapPositive String.
From MW Require Import Model.Base Model.F64 Model.Num Model.NumArith Model.Datum Model.Lex Model.Parse
  Model.TransformDef Model.Transform Model.VmTypes Model.Heap Model.VmBase Model.Compile Model.Gc
  Model.Depth.
Open Scope nat_scope.

Local Ltac nm := unfold nmax in *.

(* ================================================== structural passes on data *)
(* ---- Display *)
Lemma display_nest_car : forall k, display_depth (nest_car k) = S k.
Proof.
  induction k as [|k IH]; [reflexivity|].
  cbn [nest_car]. cbn [display_depth]. fold display_depth. rewrite IH. nm.
  destruct (nest_car k); cbn; lia.
Qed.

Lemma display_chain_cdr : forall k, display_depth (chain_cdr k) <= 2.
Proof.
  assert (R : forall k,
    (fix rest (d : cell) : nat :=
       match d with
       | CNil => 0
       | CPair na nd => nmax (display_depth na) (rest nd)
       | other => display_depth other
       end) (chain_cdr k) <= 1).
  { induction k as [|k IH]; cbn [chain_cdr]; [lia|]. cbn [display_depth]. nm. lia. }
  destruct k as [|k]; [cbn; lia|].
  cbn [chain_cdr display_depth]. fold display_depth.
  specialize (R k). nm.
  destruct (chain_cdr k) eqn:E; cbn [sym_is]; try (cbn in *; lia).
  destruct c2; lia.
Qed.

Lemma display_nest_vec : forall k, display_depth (nest_vec k) = S k.
Proof.
  induction k as [|k IH]; [reflexivity|].
  cbn [nest_vec display_depth]. fold display_depth. rewrite IH. nm. lia.
Qed.

Lemma sym_is_quote : sym_is (CSym QUOTE) QUOTE = true.
Proof. reflexivity. Qed.

Lemma display_quote_chain : forall k, display_depth (quote_chain k) = S k.
Proof.
  induction k as [|k IH]; [reflexivity|].
  cbn [quote_chain]. cbn [display_depth]. fold display_depth.
  rewrite sym_is_quote, IH. reflexivity.
Qed.

(* ---- Drop / Clone: structural on BOTH boxes *)
Lemma drop_nest_car : forall k, drop_depth (nest_car k) = S k.
Proof. induction k as [|k IH]; [reflexivity|]. cbn [nest_car drop_depth]. rewrite IH. nm. cbn. lia. Qed.
Lemma drop_chain_cdr : forall k, drop_depth (chain_cdr k) = S k.
Proof. induction k as [|k IH]; [reflexivity|]. cbn [chain_cdr drop_depth]. rewrite IH. nm. cbn. lia. Qed.
Lemma drop_nest_vec : forall k, drop_depth (nest_vec k) = S k.
Proof. induction k as [|k IH]; [reflexivity|]. cbn [nest_vec drop_depth]. fold drop_depth. rewrite IH. nm. lia. Qed.
Lemma drop_quote_chain : forall k, drop_depth (quote_chain k) = S (2 * k).
Proof.
  induction k as [|k IH]; [reflexivity|]. cbn [quote_chain drop_depth]. rewrite IH. nm. cbn [Nat.max]. lia.
Qed.

(* ---- put_cell / maybe_put_cell: put_cell on the car AND on the cdr *)
Lemma put_nest_car : forall k, maybe_put_cell_depth (nest_car k) = S (2 * k).
Proof.
  induction k as [|k IH]; [reflexivity|]. cbn [nest_car maybe_put_cell_depth]. rewrite IH. nm. cbn [Nat.max]. lia.
Qed.
Lemma put_chain_cdr : forall k, maybe_put_cell_depth (chain_cdr k) = S (2 * k).
Proof.
  induction k as [|k IH]; [reflexivity|]. cbn [chain_cdr maybe_put_cell_depth]. rewrite IH. nm. cbn [Nat.max]. lia.
Qed.
Lemma put_nest_vec : forall k, maybe_put_cell_depth (nest_vec k) = S k.
Proof.
  induction k as [|k IH]; [reflexivity|]. cbn [nest_vec maybe_put_cell_depth]. fold maybe_put_cell_depth.
  rewrite IH. nm. lia.
Qed.
Lemma put_quote_chain : forall k, maybe_put_cell_depth (quote_chain k) = S (4 * k).
Proof.
  induction k as [|k IH]; [reflexivity|]. cbn [quote_chain maybe_put_cell_depth]. rewrite IH. nm. cbn [Nat.max]. lia.
Qed.

(* ================================================================== parse *)
(* what the list/vector loops do on an element: the depth is at least the element's *)
Lemma plist_elem_ge : forall f t k r start acc,
  match t_ty k with TRight | TDot => False | _ => True end ->
  fst (plist_d (S f) t (k :: r) start acc) >= fst (parse_d f t (k :: r)).
Proof.
  intros f t k r start acc H. cbn [plist_d].
  destruct (t_ty k) eqn:E; try contradiction;
    (destruct (parse_d f t (k :: r)) as [d o]; destruct o as [[x r']| | |]; cbn [fst];
     [destruct (plist_d f t r' start (x :: acc)) as [d2 o2]; cbn [fst]; nm; lia | lia | lia | lia]).
Qed.
Lemma pvec_elem_ge : forall f t k r acc,
  match t_ty k with TRight | TDot => False | _ => True end ->
  fst (pvec_d (S f) t (k :: r) acc) >= fst (parse_d f t (k :: r)).
Proof.
  intros f t k r acc H. cbn [pvec_d].
  destruct (t_ty k) eqn:E; try contradiction;
    (destruct (parse_d f t (k :: r)) as [d o]; destruct o as [[x r']| | |]; cbn [fst];
     [destruct (pvec_d f t r' (x :: acc)) as [d2 o2]; cbn [fst]; nm; lia | lia | lia | lia]).
Qed.

Lemma parse_lefts_ge : forall k fuel t i rest,
  fuel >= 2 * k -> fst (parse_d fuel t (toks TLeft i k ++ rest)) >= 2 * k.
Proof.
  induction k as [|k IH]; intros fuel t i rest Hf; [lia|].
  destruct fuel as [|f]; [lia|].
  cbn [toks app parse_d tok t_ty].
  destruct (plist_d f t (toks TLeft (i + 1) k ++ rest) (tok TLeft i) []) as [d o] eqn:E. cbn [fst].
  assert (d >= 2 * k); [|lia].
  destruct k as [|k']; [lia|].
  destruct f as [|f']; [lia|].
  change d with (fst (d, o)). rewrite <- E. cbn [toks app].
  eapply Nat.le_trans; [|apply plist_elem_ge; exact I].
  change (tok TLeft (i + 1) :: toks TLeft (i + 1 + 1) k' ++ rest) with (toks TLeft (i + 1) (S k') ++ rest).
  apply IH. lia.
Qed.

Lemma parse_hashes_ge : forall k fuel t i rest,
  fuel >= 2 * k -> fst (parse_d fuel t (hash_toks i k ++ rest)) >= 2 * k.
Proof.
  induction k as [|k IH]; intros fuel t i rest Hf; [lia|].
  destruct fuel as [|f]; [lia|].
  cbn [hash_toks app parse_d t_ty].
  destruct (pvec_d f t (hash_toks (i + 2) k ++ rest) []) as [d o] eqn:E. cbn [fst].
  assert (d >= 2 * k); [|lia].
  destruct k as [|k']; [lia|].
  destruct f as [|f']; [lia|].
  change d with (fst (d, o)). rewrite <- E. cbn [hash_toks app].
  eapply Nat.le_trans; [|apply pvec_elem_ge; exact I].
  change (mk_token (i + 2) (i + 2 + 2) THashParen :: hash_toks (i + 2 + 2) k' ++ rest)
    with (hash_toks (i + 2) (S k') ++ rest).
  apply IH. lia.
Qed.

Lemma parse_quotes_ge : forall k fuel t i rest,
  fuel >= k -> fst (parse_d fuel t (toks TQuote i k ++ rest)) >= k.
Proof.
  induction k as [|k IH]; intros fuel t i rest Hf; [lia|].
  destruct fuel as [|f]; [lia|].
  cbn [toks app parse_d tok t_ty].
  specialize (IH f t (i + 1)%N rest).
  destruct (parse_d f t (toks TQuote (i + 1) k ++ rest)) as [d o]. cbn [fst] in *. lia.
Qed.


(* a list of atoms: the list loop runs in one frame *)
Lemma parse1_symbol_rest : forall t k r x r',
  t_ty k = TSymbol -> parse 1 t (k :: r) = Ok (x, r') -> r' = r.
Proof.
  intros t k r x r' Hk H. cbn [parse] in H. rewrite Hk in H.
  destruct (tok_span t k); cbn [bind] in H; inversion H; reflexivity.
Qed.

Lemma plist_syms_le : forall k f t i tr start acc,
  t_ty tr = TRight ->
  fst (plist_d f t (sym_toks i k ++ [tr]) start acc) <= 1.
Proof.
  induction k as [|k IH]; intros f t i tr start acc Htr.
  - destruct f as [|f]; cbn [sym_toks app plist_d fst]; [lia|]. rewrite Htr. cbn [fst]. lia.
  - destruct f as [|f]; cbn [sym_toks app plist_d fst t_ty]; [lia|].
    destruct f as [|f]; cbn [parse_d fst]; [lia|]. cbn [t_ty].
    destruct (parse 1 t (mk_token i (i + 1) TSymbol :: sym_toks (i + 2) k ++ [tr])) as [[x r']| | |] eqn:E;
      cbn [fst]; try lia.
    apply parse1_symbol_rest in E; [|reflexivity]. subst r'.
    specialize (IH (S f) t (i + 2)%N tr start (x :: acc) Htr).
    destruct (plist_d (S f) t (sym_toks (i + 2) k ++ [tr]) start (x :: acc)) as [d2 o2].
    cbn [fst] in *. nm. lia.
Qed.

Lemma parse_chain_cdr_le : forall k fuel t, fst (parse_d fuel t (chain_cdr_tokens k)) <= 3.
Proof.
  intros k fuel t. unfold chain_cdr_tokens, syms.
  destruct fuel as [|f]; cbn [parse_d fst t_ty]; [lia|].
  pose proof (plist_syms_le k f t 1%N
                (mk_token (1 + 2 * N.of_nat k) (2 + 2 * N.of_nat k) TRight) (mk_token 0 1 TLeft) [] eq_refl) as H.
  destruct (plist_d f t _ _ _) as [d o]. cbn [fst] in *. lia.
Qed.
(* ============================================================ heap families *)
Lemma succ_pos_inj : forall a b, N.succ_pos a = N.succ_pos b -> a = b.
Proof.
  intros a b H. apply (f_equal Npos) in H. rewrite !N.succ_pos_spec in H. lia.
Qed.
Lemma tget_tset_eq : forall A (t : tbl A) i a, tget (tset t i a) i = Some a.
Proof. intros. unfold tget, tset. apply PositiveMap.gss. Qed.
Lemma tget_tset_neq : forall A (t : tbl A) i j a, i <> j -> tget (tset t i a) j = tget t j.
Proof.
  intros. unfold tget, tset. apply PositiveMap.gso. intro E. apply succ_pos_inj in E. congruence.
Qed.
Lemma tget_tempty : forall A i, tget (@tempty A) i = None.
Proof. intros. unfold tget, tempty. apply PositiveMap.gempty. Qed.

Lemma tbl_fill_get : forall A (f : N -> A) n i,
  i < n -> tget (tbl_fill f n tempty) (N.of_nat i) = Some (f (N.of_nat i)).
Proof.
  induction n as [|n IH]; intros i Hi; [lia|].
  cbn [tbl_fill]. destruct (Nat.eq_dec i n) as [->|Hne].
  - apply tget_tset_eq.
  - rewrite tget_tset_neq by lia. apply IH. lia.
Qed.

Lemma heap_of_fun_get : forall f n p,
  (p < N.of_nat n)%N -> heap_get (heap_of_fun f n) p = Ok (f p).
Proof.
  intros f n p Hp. unfold heap_get, heap_of_fun. cbn [hlen cells].
  apply N.ltb_lt in Hp. rewrite Hp.
  apply N.ltb_lt in Hp.
  replace p with (N.of_nat (N.to_nat p)) by lia.
  rewrite tbl_fill_get by lia. reflexivity.
Qed.
Lemma heap_of_fun_cell_at : forall f n p,
  (p < N.of_nat n)%N -> cell_at (heap_of_fun f n) p = f p.
Proof.
  intros f n p Hp. unfold cell_at, heap_of_fun. cbn [cells].
  replace p with (N.of_nat (N.to_nat p)) by lia.
  rewrite tbl_fill_get by lia. reflexivity.
Qed.

Lemma car_cells_S : forall k, car_cells (N.of_nat (S k)) = VPair (N.of_nat k) 0.
Proof.
  intro k. unfold car_cells. destruct (N.eqb_spec (N.of_nat (S k)) 0); [lia|].
  f_equal. lia.
Qed.
Lemma cdr_cells_S : forall k, cdr_cells (N.of_nat (S k)) = VPair 0 (N.of_nat k).
Proof.
  intro k. unfold cdr_cells. destruct (N.eqb_spec (N.of_nat (S k)) 0); [lia|].
  f_equal. lia.
Qed.

(* ============================================================== get_as_cell *)
Section GacProofs.
Variable bname : N -> text.
Variable s : store.

Lemma gac_loop_eq : forall h f a d,
  gac_loop_d bname h s (S f) a d =
  let '(d1, o1) := gac_d bname h s f (VPtr a) in
  match o1 with
  | Ok ca =>
      match heap_get h d with
      | Ok (VPair a' d') =>
          let '(d2, o2) := gac_loop_d bname h s f a' d' in (nmax d1 d2, do rest <- o2; Ok (CPair ca rest))
      | Ok VNil => (d1, Ok (CPair ca CNil))
      | Ok other =>
          let '(d2, o2) := gac_d bname h s f other in (nmax d1 d2, do cd <- o2; Ok (CPair ca cd))
      | Err e => (d1, Err e) | Panic q => (d1, Panic q) | NoFuel => (d1, NoFuel)
      end
  | Err e => (d1, Err e) | Panic q => (d1, Panic q) | NoFuel => (d1, NoFuel)
  end.
Proof. reflexivity. Qed.
Lemma gac_ptr_eq : forall h f p,
  gac_d bname h s (S f) (VPtr p) =
  match heap_get h p with
  | Ok x => let '(n, o) := gac_d bname h s f x in (S n, o)
  | Err e => (1, Err e) | Panic q => (1, Panic q) | NoFuel => (1, NoFuel)
  end.
Proof. reflexivity. Qed.
Lemma gac_pair_eq : forall h f a d,
  gac_d bname h s (S f) (VPair a d) = let '(n, o) := gac_loop_d bname h s f a d in (S n, o).
Proof. reflexivity. Qed.
Lemma gac_nil_eq : forall h f, gac_d bname h s (S f) VNil = (1, Ok CNil).
Proof. reflexivity. Qed.
Lemma gac_O : forall h v, gac_d bname h s 0 v = (1, NoFuel).
Proof. reflexivity. Qed.
Lemma gac_loop_O : forall h a d, gac_loop_d bname h s 0 a d = (0, NoFuel).
Proof. reflexivity. Qed.

Lemma car_heap_get0 : forall n, heap_get (car_heap n) 0 = Ok VNil.
Proof. intro n. unfold car_heap. rewrite heap_of_fun_get by lia. reflexivity. Qed.
Lemma car_heap_getS : forall n k, k < n -> heap_get (car_heap n) (N.of_nat (S k)) = Ok (VPair (N.of_nat k) 0).
Proof. intros n k H. unfold car_heap. rewrite heap_of_fun_get by lia. now rewrite car_cells_S. Qed.

Lemma gac_car_exact : forall n k fuel, k <= n -> fuel >= 3 * k + 2 ->
  gac_d bname (car_heap n) s fuel (VPtr (N.of_nat k)) = (2 * k + 2, Ok (nest_car k)).
Proof.
  intros n. induction k as [|k IH]; intros fuel Hk Hf.
  - destruct fuel as [|[|f]]; try lia.
    rewrite gac_ptr_eq. cbn [N.of_nat]. rewrite car_heap_get0, gac_nil_eq. reflexivity.
  - destruct fuel as [|[|[|f]]]; try lia.
    rewrite gac_ptr_eq, car_heap_getS by lia. rewrite gac_pair_eq, gac_loop_eq.
    rewrite IH by lia. rewrite car_heap_get0. cbn [nest_car]. f_equal. lia.
Qed.

Lemma cdr_heap_get0 : forall n, heap_get (cdr_heap n) 0 = Ok VNil.
Proof. intro n. unfold cdr_heap. rewrite heap_of_fun_get by lia. reflexivity. Qed.
Lemma cdr_heap_getS : forall n k, k < n -> heap_get (cdr_heap n) (N.of_nat (S k)) = Ok (VPair 0 (N.of_nat k)).
Proof. intros n k H. unfold cdr_heap. rewrite heap_of_fun_get by lia. now rewrite cdr_cells_S. Qed.

Lemma gac_ptr0_cdr_le : forall n f, fst (gac_d bname (cdr_heap n) s f (VPtr 0)) <= 2.
Proof.
  intros n f. destruct f as [|[|f]]; [rewrite gac_O; cbn; lia| |];
    rewrite gac_ptr_eq, cdr_heap_get0; [rewrite gac_O | rewrite gac_nil_eq]; cbn; lia.
Qed.

Lemma gac_loop_cdr_le : forall n k f, k <= n ->
  fst (gac_loop_d bname (cdr_heap n) s f 0 (N.of_nat k)) <= 2.
Proof.
  intros n. induction k as [|k IH]; intros f Hk.
  - destruct f as [|f]; [rewrite gac_loop_O; cbn; lia|]. rewrite gac_loop_eq.
    pose proof (gac_ptr0_cdr_le n f) as H0.
    destruct (gac_d bname (cdr_heap n) s f (VPtr 0)) as [d1 o1]. cbn [fst] in *.
    destruct o1; cbn [fst]; try lia.
    cbn [N.of_nat]. rewrite cdr_heap_get0. cbn [fst]. lia.
  - destruct f as [|f]; [rewrite gac_loop_O; cbn; lia|]. rewrite gac_loop_eq.
    pose proof (gac_ptr0_cdr_le n f) as H0.
    destruct (gac_d bname (cdr_heap n) s f (VPtr 0)) as [d1 o1]. cbn [fst] in *.
    destruct o1; cbn [fst]; try lia.
    rewrite cdr_heap_getS by lia.
    specialize (IH f ltac:(lia)).
    destruct (gac_loop_d bname (cdr_heap n) s f 0 (N.of_nat k)) as [d2 o2]. cbn [fst] in *. nm. lia.
Qed.

Lemma gac_cdr_le : forall n k fuel, k <= n ->
  fst (gac_d bname (cdr_heap n) s fuel (VPtr (N.of_nat k))) <= 4.
Proof.
  intros n k fuel Hk. destruct fuel as [|f]; [rewrite gac_O; cbn; lia|].
  rewrite gac_ptr_eq.
  destruct k as [|k].
  - cbn [N.of_nat]. rewrite cdr_heap_get0. destruct f; [rewrite gac_O|rewrite gac_nil_eq]; cbn; lia.
  - rewrite cdr_heap_getS by lia. destruct f as [|f]; [rewrite gac_O; cbn; lia|].
    rewrite gac_pair_eq.
    pose proof (gac_loop_cdr_le n k f ltac:(lia)) as H.
    destruct (gac_loop_d bname (cdr_heap n) s f 0 (N.of_nat k)) as [d o]. cbn [fst] in *. lia.
Qed.
End GacProofs.
(* ===================================================================== mark *)
Section MarkProofs.
Variable s : store.
Variable vd : nat.

Lemma mark_loop_O : forall h p m, mark_loop_d h s vd 0 p m = (0, NoFuel).
Proof. reflexivity. Qed.
Lemma mark_loop_out : forall h f p m, (p <? hlen h)%N = false -> mark_loop_d h s vd (S f) p m = (0, Ok m).
Proof. intros h f p m H. cbn [mark_loop_d]. rewrite H. reflexivity. Qed.
Lemma mark_loop_used : forall h f p m, g_is_used m p = true -> fst (mark_loop_d h s vd (S f) p m) = 0.
Proof.
  intros h f p m H. cbn [mark_loop_d]. destruct (negb (p <? hlen h)%N); [reflexivity|]. rewrite H. reflexivity.
Qed.
Lemma mark_loop_nil : forall h f p m, cell_at h p = VNil -> fst (mark_loop_d h s vd (S f) p m) = 0.
Proof.
  intros h f p m H. cbn [mark_loop_d]. destruct (negb (p <? hlen h)%N); [reflexivity|].
  destruct (g_is_used m p); [reflexivity|]. rewrite H. reflexivity.
Qed.
Lemma mark_loop_pair : forall h f p m car cdr,
  (p <? hlen h)%N = true -> g_is_used m p = false -> cell_at h p = VPair car cdr ->
  mark_loop_d h s vd (S f) p m =
  let '(d, o) := mark_loop_d h s vd f car (tset m p GUsed) in
  match o with
  | Ok m1 => let '(d2, o2) := mark_loop_d h s vd f cdr m1 in (nmax (S d) d2, o2)
  | _ => (S d, o)
  end.
Proof.
  intros h f p m car cdr H1 H2 H3. cbn [mark_loop_d]. rewrite H1, H2, H3. cbn [negb].
  destruct (mark_loop_d h s vd f car (tset m p GUsed)) as [d o]. destruct o; reflexivity.
Qed.

Lemma g_is_used_tset_neq : forall m i j x, i <> j -> g_is_used (tset m i x) j = g_is_used m j.
Proof. intros. unfold g_is_used, g_get. rewrite tget_tset_neq by assumption. reflexivity. Qed.

Lemma hlen_heap_of_fun : forall f n, hlen (heap_of_fun f n) = N.of_nat n.
Proof. reflexivity. Qed.

(* along the car: one frame of mark per level *)
Lemma mark_loop_car_ge : forall n k fuel m, k <= n -> fuel >= k ->
  (forall j, j <= k -> g_is_used m (N.of_nat j) = false) ->
  fst (mark_loop_d (car_heap n) s vd fuel (N.of_nat k) m) >= k.
Proof.
  intros n. induction k as [|k IH]; intros fuel m Hk Hf Hm; [lia|].
  destruct fuel as [|f]; [lia|].
  rewrite (mark_loop_pair _ _ _ _ (N.of_nat k) 0%N).
  - specialize (IH f (tset m (N.of_nat (S k)) GUsed) ltac:(lia) ltac:(lia)).
    assert (Hm' : forall j, j <= k -> g_is_used (tset m (N.of_nat (S k)) GUsed) (N.of_nat j) = false).
    { intros j Hj. rewrite g_is_used_tset_neq by lia. apply Hm. lia. }
    specialize (IH Hm').
    destruct (mark_loop_d (car_heap n) s vd f (N.of_nat k) _) as [d o]. cbn [fst] in IH.
    destruct o; cbn [fst]; try lia.
    destruct (mark_loop_d (car_heap n) s vd f 0%N a) as [d2 o2]. cbn [fst]. nm. lia.
  - unfold car_heap. rewrite hlen_heap_of_fun. apply N.ltb_lt. lia.
  - apply Hm. lia.
  - unfold car_heap. rewrite heap_of_fun_cell_at by lia. apply car_cells_S.
Qed.

(* along the cdr: the loop of mark follows the cdr in one frame; any start address *)
Lemma mark_loop_cdr_le : forall n f p m, fst (mark_loop_d (cdr_heap n) s vd f p m) <= 1.
Proof.
  intros n. induction f as [|f IH]; intros p m; [rewrite mark_loop_O; cbn; lia|].
  destruct (p <? hlen (cdr_heap n))%N eqn:Hr; [|rewrite mark_loop_out by assumption; cbn; lia].
  destruct (g_is_used m p) eqn:Hu; [rewrite mark_loop_used by assumption; lia|].
  assert (Hp : (p < N.of_nat (S n))%N) by (apply N.ltb_lt in Hr; exact Hr).
  assert (Hc : cell_at (cdr_heap n) p = cdr_cells p) by (unfold cdr_heap; apply heap_of_fun_cell_at; exact Hp).
  unfold cdr_cells in Hc. destruct (N.eqb_spec p 0) as [->|Hne].
  - rewrite mark_loop_nil by assumption. lia.
  - rewrite (mark_loop_pair _ _ _ _ 0%N (p - 1)%N) by assumption.
    assert (H0 : fst (mark_loop_d (cdr_heap n) s vd f 0%N (tset m p GUsed)) = 0).
    { destruct f as [|f']; [reflexivity|].
      apply mark_loop_nil. unfold cdr_heap. rewrite heap_of_fun_cell_at by lia. reflexivity. }
    destruct (mark_loop_d (cdr_heap n) s vd f 0%N (tset m p GUsed)) as [d o]. cbn [fst] in H0. subst d.
    destruct o; cbn [fst]; try lia.
    specialize (IH (p - 1)%N a).
    destruct (mark_loop_d (cdr_heap n) s vd f (p - 1)%N a) as [d2 o2]. cbn [fst] in *. nm. lia.
Qed.

Lemma mark_car_ge : forall n k fuel, k <= n -> fuel >= k ->
  fst (mark_d (car_heap n) s vd fuel (N.of_nat k) tempty) >= S k.
Proof.
  intros n k fuel Hk Hf. unfold mark_d.
  pose proof (mark_loop_car_ge n k fuel tempty Hk Hf) as H.
  destruct (mark_loop_d (car_heap n) s vd fuel (N.of_nat k) tempty) as [d o]. cbn [fst] in *.
  assert (d >= k); [|lia]. apply H. intros j _. unfold g_is_used, g_get. rewrite tget_tempty. reflexivity.
Qed.
Lemma mark_cdr_le : forall n fuel p m, fst (mark_d (cdr_heap n) s vd fuel p m) <= 2.
Proof.
  intros. unfold mark_d. pose proof (mark_loop_cdr_le n fuel p m) as H.
  destruct (mark_loop_d (cdr_heap n) s vd fuel p m) as [d o]. cbn [fst] in *. lia.
Qed.
End MarkProofs.
(* ==================================================================== equal *)
Section EqualProofs.
Variable prof : profile.
Variable s : store.

Lemma car2_get : forall n j, (3 <= j)%N -> (j < N.of_nat (S (2 * n)))%N ->
  heap_get (car2_heap n) j = Ok (VPair (j - 2) 0).
Proof.
  intros n j H3 Hj. unfold car2_heap. rewrite heap_of_fun_get by exact Hj. unfold car2_cells.
  destruct (N.eqb_spec j 0); [lia|]. destruct (N.leb_spec j 2); [lia|]. reflexivity.
Qed.
Lemma car2_get12 : forall n j, (1 <= j <= 2)%N -> (j < N.of_nat (S (2 * n)))%N ->
  heap_get (car2_heap n) j = Ok (VPair 0 0).
Proof.
  intros n j H3 Hj. unfold car2_heap. rewrite heap_of_fun_get by exact Hj. unfold car2_cells.
  destruct (N.eqb_spec j 0); [lia|]. destruct (N.leb_spec j 2); [reflexivity|lia].
Qed.
Lemma car2_get0 : forall n, heap_get (car2_heap n) 0 = Ok VNil.
Proof. intro n. unfold car2_heap. rewrite heap_of_fun_get by lia. reflexivity. Qed.

Lemma equal_eq : forall h f left right,
  equal_d prof h s (S f) left right =
      match eqv_m prof h s left right with
      | Ok true => (1%nat, Ok true)
      | Ok false =>
          match deref1 h left, deref1 h right with
          | Ok l', Ok r' =>
              match l', r' with
              | VPair _ _, VPair _ _ => let '(n, o) := cmp_pair_loop_d prof h s f l' r' in (S (S n), o)
              | VVec x, VVec y =>
                  match tget (vecs s) x, tget (vecs s) y with
                  | Some lx, Some ly =>
                      if negb (length lx =? length ly)%nat then (2%nat, Ok false) else
                      let fix elems (lx ly : list vcell) : dbool :=
                        match lx, ly with
                        | a :: ra, b :: rb =>
                            let '(d1, o1) := equal_d prof h s f a b in
                            match o1 with
                            | Ok true => let '(d2, o2) := elems ra rb in (nmax d1 d2, o2)
                            | _ => (d1, o1)
                            end
                        | _, _ => (O, Ok true)
                        end in
                      let '(n, o) := elems lx ly in (S (S n), o)
                  | _, _ => (2%nat, Panic 13)
                  end
              | VStr x, VStr y =>
                  match tget (strs s) x, tget (strs s) y with
                  | Some tx, Some ty => (1%nat, Ok (text_eqb tx ty))
                  | _, _ => (1%nat, Panic 13)
                  end
              | _, _ => (1%nat, eqv_m prof h s l' r')
              end
          | Ok _, bad => (1%nat, do _ <- bad; Ok false)
          | bad, _ => (1%nat, do _ <- bad; Ok false)
          end
      | bad => (1%nat, bad)
      end.
Proof. reflexivity. Qed.

Lemma cmp_pair_loop_eq : forall h f lcar lcdr rcar rcdr,
  cmp_pair_loop_d prof h s (S f) (VPair lcar lcdr) (VPair rcar rcdr) =
  let '(d1, o1) := equal_d prof h s f (VPtr lcar) (VPtr rcar) in
  match o1 with
  | Ok true =>
      match heap_get h lcdr, heap_get h rcdr with
      | Ok l', Ok r' =>
          if is_vpair l' && is_vpair r'
          then let '(d2, o2) := cmp_pair_loop_d prof h s f l' r' in (nmax d1 d2, o2)
          else let '(d2, o2) := equal_d prof h s f (VPtr lcdr) (VPtr rcdr) in (nmax d1 d2, o2)
      | Ok _, bad => (d1, do _ <- bad; Ok false)
      | bad, _ => (d1, do _ <- bad; Ok false)
      end
  | _ => (d1, o1)
  end.
Proof. reflexivity. Qed.

Lemma cmp_pair_loop_ge : forall h f lcar lcdr rcar rcdr,
  fst (cmp_pair_loop_d prof h s (S f) (VPair lcar lcdr) (VPair rcar rcdr))
  >= fst (equal_d prof h s f (VPtr lcar) (VPtr rcar)).
Proof.
  intros. rewrite cmp_pair_loop_eq.
  destruct (equal_d prof h s f (VPtr lcar) (VPtr rcar)) as [d1 o1]. cbn [fst].
  destruct o1 as [[|]| | |]; cbn [fst]; try lia.
  destruct (heap_get h lcdr) as [l'| | |]; destruct (heap_get h rcdr) as [r'| | |]; cbn [fst]; try lia.
  destruct (is_vpair l' && is_vpair r').
  - destruct (cmp_pair_loop_d prof h s f l' r') as [d2 o2]. cbn [fst]. unfold nmax. lia.
  - destruct (equal_d prof h s f (VPtr lcdr) (VPtr rcdr)) as [d2 o2]. cbn [fst]. unfold nmax. lia.
Qed.

(* the two nests sit at odd / even addresses: level i at 2i-1 and 2i *)
Lemma equal_car_ge : forall n i fuel, 1 <= i -> i <= n -> fuel >= 2 * i ->
  fst (equal_d prof (car2_heap n) s fuel (VPtr (N.of_nat (2 * i - 1))) (VPtr (N.of_nat (2 * i)))) >= 2 * i - 1.
Proof.
  intros n. induction i as [|i IH]; intros fuel H1 Hn Hf; [lia|].
  destruct fuel as [|f]; [lia|].
  destruct i as [|i'].
  - (* level 1: both cells are (0 . 0): eqv says #t at once *)
    rewrite equal_eq. unfold eqv_m.
    replace (N.of_nat (2 * 1 - 1) =? N.of_nat (2 * 1))%N with false by (symmetry; apply N.eqb_neq; lia).
    rewrite !car2_get12 by lia. cbn. lia.
  - set (a := N.of_nat (2 * S (S i') - 1)). set (b := N.of_nat (2 * S (S i'))).
    assert (Ha : heap_get (car2_heap n) a = Ok (VPair (a - 2) 0)) by (apply car2_get; subst a; lia).
    assert (Hb : heap_get (car2_heap n) b = Ok (VPair (b - 2) 0)) by (apply car2_get; subst b; lia).
    destruct f as [|f']; [lia|].
    rewrite equal_eq. unfold eqv_m, deref1.
    replace (a =? b)%N with false by (symmetry; apply N.eqb_neq; subst a b; lia).
    rewrite Ha, Hb. cbn [bind].
    replace ((a - 2 =? b - 2) && (0 =? 0))%N%bool with false
      by (symmetry; apply andb_false_iff; left; apply N.eqb_neq; subst a b; lia).
    pose proof (cmp_pair_loop_ge (car2_heap n) f' (a - 2)%N 0%N (b - 2)%N 0%N) as Hc.
    destruct (cmp_pair_loop_d prof (car2_heap n) s (S f') (VPair (a - 2) 0) (VPair (b - 2) 0)) as [d o].
    cbn [fst] in *.
    replace (a - 2)%N with (N.of_nat (2 * S i' - 1)) in Hc by (subst a; lia).
    replace (b - 2)%N with (N.of_nat (2 * S i')) in Hc by (subst b; lia).
    specialize (IH f' ltac:(lia) ltac:(lia) ltac:(lia)). lia.
Qed.
End EqualProofs.
(* ========================================== transform, compile, free symbols *)
Lemma macro_of_empty : forall c p, macro_of (vm_empty c) p = None.
Proof. intros c p. destruct p; reflexivity. Qed.

Lemma transform_nest_app_ge : forall k fuel c, fuel >= k + 1 ->
  fst (transform_d fuel (vm_empty c) (nest_app k)) >= k + 1.
Proof.
  induction k as [|k IH]; intros fuel c Hf.
  - destruct fuel as [|f]; [lia|]. cbn. lia.
  - destruct fuel as [|f]; [lia|]. cbn [nest_app transform_d].
    change (sym_eq (CSym [102%N]) "quote" || sym_eq (CSym [102%N]) "define-syntax") with false.
    cbv iota. rewrite macro_of_empty.
    destruct f as [|f']; [lia|].
    change (transform_d (S f') (vm_empty c) (CSym [102%N])) with (1, Ok (CSym [102%N])).
    cbv iota beta.
    specialize (IH (S f') c ltac:(lia)).
    destruct (transform_d (S f') (vm_empty c) (nest_app k)) as [dx ox]. cbn [fst] in IH.
    destruct ox; cbn [fst]; unfold nmax; lia.
Qed.

Lemma ce_nest_app_ge : forall k fuel, fuel >= k + 1 -> fst (ce_d fuel (nest_app k)) >= k + 1.
Proof.
  induction k as [|k IH]; intros fuel Hf.
  - destruct fuel as [|f]; [lia|]. cbn. lia.
  - destruct fuel as [|f]; [lia|]. cbn [nest_app ce_d].
    change (sym_eq (CSym [102%N]) "define") with false.
    change (sym_eq (CSym [102%N]) "define-syntax") with false.
    change (sym_eq (CSym [102%N]) "lambda" || sym_is (CSym [102%N]) [955%N]) with false.
    change (sym_eq (CSym [102%N]) "quasiquote") with false.
    change (sym_eq (CSym [102%N]) "quote") with false.
    change (sym_eq (CSym [102%N]) "if") with false.
    change (sym_eq (CSym [102%N]) "set!") with false.
    cbv iota. specialize (IH f ltac:(lia)).
    unfold up, pmax. cbn [fst snd]. unfold nmax. lia.
Qed.

Lemma ffs_nest_app_ge : forall k fuel, fuel >= k + 1 -> ffs_d fuel (nest_app k) >= k + 1.
Proof.
  induction k as [|k IH]; intros fuel Hf.
  - destruct fuel as [|f]; [lia|]. cbn. lia.
  - destruct fuel as [|f]; [lia|]. cbn [nest_app ffs_d].
    change (sym_is (CSym [102%N]) QUOTE || sym_is (CSym [102%N]) QUASIQUOTE) with false.
    change (sym_eq (CSym [102%N]) "define" || sym_eq (CSym [102%N]) "lambda") with false.
    cbv iota. cbn [is_pair]. specialize (IH f ltac:(lia)). unfold nmax. lia.
Qed.

Lemma cq_nest_qq_ge : forall k fuel, fuel >= k + 1 -> fst (cq_d fuel (nest_qq k) 0) >= k + 1.
Proof.
  induction k as [|k IH]; intros fuel Hf.
  - destruct fuel as [|f]; [lia|]. cbn. lia.
  - destruct fuel as [|f]; [lia|]. cbn [nest_qq cq_d].
    change (sym_is (CSym [97%N]) UNQUOTE) with false.
    change (sym_is (CSym [97%N]) QUASIQUOTE) with false.
    cbv iota. cbn [andb]. cbv iota. specialize (IH f ltac:(lia)).
    unfold up, pmax. cbn [fst snd]. unfold nmax. lia.
Qed.

Lemma cell_size_nest_app : forall k, cell_size (nest_app k) = 4 * k + 1.
Proof. induction k as [|k IH]; [reflexivity|]. cbn [nest_app]. change (cell_size (CPair (CSym [102%N]) (CPair (nest_app k) CNil))) with (S (1 + S (cell_size (nest_app k) + 1))). rewrite IH. lia. Qed.

Lemma compile_nest_app_ge : forall k, fst (compile_depth (nest_app k)) >= k + 1.
Proof. intro k. unfold compile_depth. apply ce_nest_app_ge. rewrite cell_size_nest_app. lia. Qed.
Lemma ffs_depth_nest_app_ge : forall k, ffs_depth (nest_app k) >= k + 1.
Proof. intro k. unfold ffs_depth. apply ffs_nest_app_ge. rewrite cell_size_nest_app. lia. Qed.

(* ==================================================== statements for Props/C19.v *)
Lemma unb_of_eq : forall X (fam : nat -> X) (d : X -> nat) (g : nat -> nat),
  (forall k, d (fam k) = g k) -> (forall k, g k >= k) -> depth_unbounded fam d.
Proof. intros X fam d g H1 H2 K. rewrite H1. specialize (H2 (S K)). lia. Qed.

Lemma display_car_unbounded : depth_unbounded nest_car display_depth.
Proof. apply (unb_of_eq _ _ _ S display_nest_car). lia. Qed.
Lemma display_vec_unbounded : depth_unbounded nest_vec display_depth.
Proof. apply (unb_of_eq _ _ _ S display_nest_vec). lia. Qed.
Lemma display_quote_unbounded : depth_unbounded quote_chain display_depth.
Proof. apply (unb_of_eq _ _ _ S display_quote_chain). lia. Qed.
Lemma display_cdr_bounded : depth_bounded chain_cdr display_depth.
Proof. exists 2. exact display_chain_cdr. Qed.

Lemma drop_car_unbounded : depth_unbounded nest_car drop_depth.
Proof. apply (unb_of_eq _ _ _ S drop_nest_car). lia. Qed.
Lemma drop_cdr_unbounded : depth_unbounded chain_cdr drop_depth.
Proof. apply (unb_of_eq _ _ _ S drop_chain_cdr). lia. Qed.
Lemma drop_vec_unbounded : depth_unbounded nest_vec drop_depth.
Proof. apply (unb_of_eq _ _ _ S drop_nest_vec). lia. Qed.
Lemma drop_quote_unbounded : depth_unbounded quote_chain drop_depth.
Proof. apply (unb_of_eq _ _ _ (fun k => S (2 * k)) drop_quote_chain). lia. Qed.

Lemma put_car_unbounded : depth_unbounded nest_car maybe_put_cell_depth.
Proof. apply (unb_of_eq _ _ _ (fun k => S (2 * k)) put_nest_car). lia. Qed.
Lemma put_cdr_unbounded : depth_unbounded chain_cdr maybe_put_cell_depth.
Proof. apply (unb_of_eq _ _ _ (fun k => S (2 * k)) put_chain_cdr). lia. Qed.
Lemma put_vec_unbounded : depth_unbounded nest_vec maybe_put_cell_depth.
Proof. apply (unb_of_eq _ _ _ S put_nest_vec). lia. Qed.
Lemma put_quote_unbounded : depth_unbounded quote_chain maybe_put_cell_depth.
Proof. apply (unb_of_eq _ _ _ (fun k => S (4 * k)) put_quote_chain). lia. Qed.

(* parse: the depth on the token list of the family's text *)
Definition parse_depth_on (t : text) (ts : list token) : nat := fst (parse_d (parse_fuel ts) t ts).

Lemma toks_length : forall ty i k, length (toks ty i k) = k.
Proof. intros ty i k; revert i; induction k as [|k IH]; intro i; [reflexivity|]. cbn [toks length]. now rewrite IH. Qed.
Lemma hash_toks_length : forall i k, length (hash_toks i k) = k.
Proof. intros i k; revert i; induction k as [|k IH]; intro i; [reflexivity|]. cbn [hash_toks length]. now rewrite IH. Qed.

Lemma parse_car_unbounded :
  depth_unbounded (fun k => (nest_car_text k, nest_car_tokens k)) (fun x => parse_depth_on (fst x) (snd x)).
Proof.
  intro K. cbn [fst snd]. unfold parse_depth_on, nest_car_tokens, lefts.
  pose proof (parse_lefts_ge (S K) (parse_fuel (toks TLeft 0 (S K) ++ rights (N.of_nat (S K)) (S K)))
                (nest_car_text (S K)) 0%N (rights (N.of_nat (S K)) (S K))) as H.
  assert (Hf : parse_fuel (toks TLeft 0 (S K) ++ rights (N.of_nat (S K)) (S K)) >= 2 * S K).
  { unfold parse_fuel. rewrite app_length, toks_length. lia. }
  specialize (H Hf). lia.
Qed.
Lemma parse_vec_unbounded :
  depth_unbounded (fun k => (nest_vec_text k, nest_vec_tokens k)) (fun x => parse_depth_on (fst x) (snd x)).
Proof.
  intro K. cbn [fst snd]. unfold parse_depth_on, nest_vec_tokens, hashes.
  pose proof (parse_hashes_ge (S K) (parse_fuel (hash_toks 0 (S K) ++ rights (2 * N.of_nat (S K)) (S K)))
                (nest_vec_text (S K)) 0%N (rights (2 * N.of_nat (S K)) (S K))) as H.
  assert (Hf : parse_fuel (hash_toks 0 (S K) ++ rights (2 * N.of_nat (S K)) (S K)) >= 2 * S K).
  { unfold parse_fuel. rewrite app_length, hash_toks_length. lia. }
  specialize (H Hf). lia.
Qed.
Lemma parse_quote_unbounded :
  depth_unbounded (fun k => (quote_chain_text k, quote_chain_tokens k)) (fun x => parse_depth_on (fst x) (snd x)).
Proof.
  intro K. cbn [fst snd]. unfold parse_depth_on, quote_chain_tokens, quotes.
  set (rest := [mk_token (N.of_nat (S K)) (N.of_nat (S K) + 1) TSymbol]).
  pose proof (parse_quotes_ge (S K) (parse_fuel (toks TQuote 0 (S K) ++ rest))
                (quote_chain_text (S K)) 0%N rest) as H.
  assert (Hf : parse_fuel (toks TQuote 0 (S K) ++ rest) >= S K).
  { unfold parse_fuel. rewrite app_length, toks_length. lia. }
  specialize (H Hf). lia.
Qed.
Lemma parse_cdr_bounded :
  depth_bounded (fun k => (chain_cdr_text k, chain_cdr_tokens k)) (fun x => parse_depth_on (fst x) (snd x)).
Proof. exists 3. intro k. cbn [fst snd]. apply parse_chain_cdr_le. Qed.

Lemma compile_nested_unbounded : depth_unbounded nest_app (fun e => fst (compile_depth e)).
Proof. intro K. pose proof (compile_nest_app_ge (S K)). lia. Qed.
Lemma ffs_nested_unbounded : depth_unbounded nest_app ffs_depth.
Proof. intro K. pose proof (ffs_depth_nest_app_ge (S K)). lia. Qed.
Lemma transform_nested_unbounded : forall c K fuel, fuel >= K + 2 ->
  fst (transform_d fuel (vm_empty c) (nest_app (S K))) > K.
Proof. intros c K fuel Hf. pose proof (transform_nest_app_ge (S K) fuel c ltac:(lia)). lia. Qed.
Lemma cq_nested_unbounded : forall K fuel, fuel >= K + 2 -> fst (cq_d fuel (nest_qq (S K)) 0) > K.
Proof. intros K fuel Hf. pose proof (cq_nest_qq_ge (S K) fuel ltac:(lia)). lia. Qed.

Lemma unbounded_not_bounded : forall X (fam : nat -> X) (d : X -> nat),
  depth_unbounded fam d -> ~ depth_bounded fam d.
Proof. intros X fam d Hu [K Hb]. specialize (Hu K). specialize (Hb (S K)). lia. Qed.
