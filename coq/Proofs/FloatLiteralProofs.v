(* FloatLiteralProofs.v — the printed form of a finite double is ONE Number token,
   provided no '-' occurs after its first character (i.e. the {:e} exponent is not
   negative — true for every double above 1e10, which is when {:e} is used; that
   fact needs the interval analysis left OPEN in Props/C16.v, so it is a hypothesis
   here, decidable per double).  For C16 (literal clause on floats) and C10.     *)
From Coq Require Import ZArith List Bool Lia.
From Flocq Require Import IEEE754.BinarySingleNaN.
From MW Require Import Model.Base Model.F64 Model.Num Model.Digits Model.F64Fmt Model.NumFmt
  Model.Datum Model.NumProc Model.Lex Model.Parse
  Proofs.LexProofs Proofs.DigitsProofs Proofs.NumFmtProofs Proofs.LiteralProofs Proofs.FloatProofs.
Open Scope N_scope.

Definition decdigit (c : cp) : Prop := 48 <= c <= 57.

Lemma lex1_number c rest : (c = 45 \/ decdigit c) -> Forall numch rest ->
  lex1 c rest = STok TNumber (c :: rest) [].
Proof.
  intros Hc Hrest. destruct Hc as [->|H].
  - change (lex1 45 rest) with (let '(a, ty, b) := scan_number_rest rest TNumber in STok ty (45 :: a) b).
    now rewrite scan_number_rest_all.
  - unfold decdigit in H.
    assert (Hd : c = 48 \/ c = 49 \/ c = 50 \/ c = 51 \/ c = 52 \/ c = 53 \/ c = 54 \/ c = 55 \/ c = 56 \/ c = 57) by lia.
    repeat (destruct Hd as [->|Hd]); try subst c;
    match goal with |- lex1 ?k rest = _ =>
      change (lex1 k rest) with (let '(a, ty, b) := scan_number_rest rest TNumber in STok ty (k :: a) b) end;
    now rewrite scan_number_rest_all.
Qed.

Lemma show_nat_radix10_head n : (0 <= n)%Z ->
  exists c l, show_nat_radix 10 n = c :: l /\ decdigit c.
Proof.
  intros Hn. unfold show_nat_radix.
  destruct (to_digits_spec 10 n) as (_ & Hok & Hne & _); [lia|lia|].
  destruct (to_digits 10 n) as [|d l]; [congruence|].
  inversion Hok; subst. exists (digit_char d), (map digit_char l). split; [reflexivity|].
  unfold decdigit, digit_char. assert (E : (d <? 10)%Z = true) by (apply Z.ltb_lt; lia). rewrite E. lia.
Qed.

Lemma dec_str_head ds e c l : ds = c :: l -> decdigit c -> exists c' l', dec_str ds e = c' :: l' /\ decdigit c'.
Proof.
  intros -> Hc. unfold dec_str. destruct (e <=? 0)%Z eqn:E0.
  - exists 48, (46 :: zeros (- e) ++ c :: l). split; [reflexivity|unfold decdigit; lia].
  - apply Z.leb_gt in E0. destruct (e <? _)%Z.
    + destruct (Z.to_nat e) as [|k] eqn:Ek; [lia|]. cbn [firstn app]. eexists _, _. split; [reflexivity|assumption].
    + cbn [app]. eexists _, _. split; [reflexivity|assumption].
Qed.

Lemma exp_str_head ds e c l : ds = c :: l -> decdigit c -> exists l', exp_str ds e = c :: l'.
Proof. intros -> Hc. unfold exp_str. destruct l; cbn [app]; eexists; reflexivity. Qed.

(* the first character is '-' or a decimal digit *)
Lemma num_display_float_head x : is_finite x = true ->
  exists c rest, num_display (Float x) = c :: rest /\ (c = 45 \/ decdigit c).
Proof.
  intros Hf. cbn [num_display].
  destruct x as [s| | |s m e Hb]; try discriminate.
  - destruct s; vm_compute; eexists _, _; (split; [reflexivity|]); [left; reflexivity|right; split; discriminate].
  - assert (Hsign : forall body c l, body = c :: l -> decdigit c ->
              exists c' rest, sign_text s ++ body = c' :: rest /\ (c' = 45 \/ decdigit c')).
    { intros body c l -> Hc. destruct s; cbn [sign_text app]; eexists _, _; (split; [reflexivity|]); auto. }
    destruct (f64_ltb F_1E10 (B754_finite s m e Hb)); [|destruct (float_is_integer (B754_finite s m e Hb))].
    + cbn [fmt_exp]. pose proof (shortest_pos (Z.pos m) e ltac:(lia)) as Hp.
      destruct (shortest (Z.pos m) e) as (D, k). cbn [fst] in Hp.
      destruct (show_nat_radix10_head D ltac:(lia)) as (c & l & E & Hc).
      destruct (exp_str_head _ (k + Z.of_nat (length (show_nat_radix 10 D))) c l E Hc) as (l' & E').
      apply (Hsign _ c l' E' Hc).
    + cbn [fmt_fixed1].
      assert (0 <= tenths (Z.pos m) e / 10)%Z by (apply Z.div_pos; [apply tenths_nonneg; lia|lia]).
      destruct (show_nat_radix10_head _ H) as (c & l & E & Hc).
      rewrite E. cbn [app]. apply (Hsign _ c _ eq_refl Hc).
    + cbn [fmt_display]. pose proof (shortest_pos (Z.pos m) e ltac:(lia)) as Hp.
      destruct (shortest (Z.pos m) e) as (D, k). cbn [fst] in Hp.
      destruct (show_nat_radix10_head D ltac:(lia)) as (c & l & E & Hc).
      destruct (dec_str_head _ (k + Z.of_nat (length (show_nat_radix 10 D))) c l E Hc) as (c' & l' & E' & Hc').
      apply (Hsign _ c' l' E' Hc').
Qed.

Lemma fchar_numch c : fchar c -> c <> 45 -> numch c.
Proof.
  intros [H|[H|[H|H]]] Hn.
  - right; now right.
  - contradiction.
  - right; now left.
  - right; right. subst. exists 14%Z. split; [lia|reflexivity].
Qed.

(* the printed form of a finite double is one Number token *)
Theorem float_spelling_one_token x : is_finite x = true ->
  ~ In 45 (tl (num_display (Float x))) ->
  exists c rest, num_display (Float x) = c :: rest /\ lex1 c rest = STok TNumber (c :: rest) [].
Proof.
  intros Hf Hminus.
  destruct (num_display_float_head x Hf) as (c & rest & E & Hc).
  exists c, rest. split; [assumption|].
  apply lex1_number; [assumption|].
  pose proof (num_display_float_fchar x Hf) as Hall. rewrite E in Hall, Hminus. cbn [tl] in Hminus.
  inversion Hall; subst. apply Forall_forall. intros a Ha.
  apply fchar_numch. rewrite Forall_forall in H2. now apply H2.
  intros ->. contradiction.
Qed.

(* ... hence, written bare, it scans as that single token *)
Theorem float_spelling_scan x : is_finite x = true ->
  ~ In 45 (tl (num_display (Float x))) ->
  scan (num_display (Float x)) = Ok [mk_token 0 (blen (num_display (Float x))) TNumber].
Proof.
  intros Hf Hminus. destruct (float_spelling_one_token x Hf Hminus) as (c & rest & E & Hlex).
  rewrite E. unfold scan. cbn [length]. rewrite (scan_fuel_tok _ _ _ _ _ _ _ Hlex).
  destruct rest; reflexivity.
Qed.

(* ... and after #d it is a literal for what string->number gives it *)
Theorem float_literal x : is_finite x = true ->
  ~ In 45 (tl (num_display (Float x))) ->
  parse_text (radix_prefix 10 ++ num_display (Float x)) =
    (do v <- string_to_number Debug (num_display (Float x)) 10;
     Ok (match v with CNum n => CNum n | _ => CSym (num_display (Float x)) end, None)).
Proof.
  intros Hf Hminus. destruct (float_spelling_one_token x Hf Hminus) as (c & rest & E & Hlex).
  rewrite E. apply (literal_is_string_to_number 10 c rest TNumber); [|assumption|now left].
  unfold is_prefix_radix. cbn. tauto.
Qed.
