(* StrProofs.v — C15: the byte-offset code of builtin/string.rs (Model/Str.v) refines a
   specification in which a string is a vector of Unicode scalar values.            *)
From Coq Require Import Lia FMapPositive.
From MW Require Import Model.Base Model.F64 Model.Num Model.Datum Model.TransformDef
  Model.VmTypes Model.Heap Model.VmBase Model.Str Proofs.VmProofs0.
Open Scope N_scope.

(* ------------------------------------------------------------------ lists *)
Lemma len_length {A} (l : list A) : len l = N.of_nat (length l).
Proof. reflexivity. Qed.

Lemma nth_error_split_firstn {A} (l : list A) (i : nat) (x : A) :
  nth_error l i = Some x -> l = firstn i l ++ x :: skipn (S i) l.
Proof.
  revert i. induction l as [|a l IH]; intros [|i] H; cbn in *; try discriminate.
  - inversion H; reflexivity.
  - f_equal. apply IH; exact H.
Qed.

Lemma firstn_firstn_skipn {A} (l : list A) (a b : nat) :
  (a <= b)%nat -> firstn b l = firstn a l ++ firstn (b - a) (skipn a l).
Proof.
  revert a b. induction l as [|x l IH]; intros a b Hab.
  - now rewrite !firstn_nil, skipn_nil, firstn_nil.
  - destruct a as [|a].
    + cbn [firstn skipn app]. now rewrite Nat.sub_0_r.
    + destruct b as [|b]; [lia|].
      cbn [firstn skipn app Nat.sub]. f_equal. apply IH; lia.
Qed.

Lemma split3 {A} (l : list A) (a b : nat) :
  (a <= b)%nat -> l = firstn a l ++ firstn (b - a) (skipn a l) ++ skipn b l.
Proof.
  intro Hab. rewrite app_assoc, <- firstn_firstn_skipn by exact Hab.
  symmetry; apply firstn_skipn.
Qed.

(* ------------------------------------------------------ UTF-8 primitives *)
Lemma utf8_len_pos c : 0 < utf8_len c.
Proof.
  unfold utf8_len.
  destruct (c <? 128); [lia|]. destruct (c <? 2048); [lia|]. destruct (c <? 65536); lia.
Qed.

Lemma blen_app a b : blen (a ++ b) = blen a + blen b.
Proof. induction a as [|c a IH]; cbn [blen app]; [reflexivity|]. rewrite IH; lia. Qed.

Lemma take_bytes_nil n : take_bytes n [] = if n =? 0 then Some ([], []) else None.
Proof. reflexivity. Qed.

Lemma take_bytes_cons n c r :
  take_bytes n (c :: r) =
  if n =? 0 then Some ([], c :: r) else
  if utf8_len c <=? n then
    match take_bytes (n - utf8_len c) r with Some (a, b) => Some (c :: a, b) | None => None end
  else None.
Proof. reflexivity. Qed.

Lemma take_bytes_0 l : take_bytes 0 l = Some ([], l).
Proof. destruct l; reflexivity. Qed.

Lemma take_bytes_app a b : take_bytes (blen a) (a ++ b) = Some (a, b).
Proof.
  induction a as [|c a IH]; cbn [blen app].
  - apply take_bytes_0.
  - rewrite take_bytes_cons. pose proof (utf8_len_pos c) as Hc.
    replace (utf8_len c + blen a =? 0) with false by (symmetry; apply N.eqb_neq; lia).
    replace (utf8_len c <=? utf8_len c + blen a) with true by (symmetry; apply N.leb_le; lia).
    replace (utf8_len c + blen a - utf8_len c) with (blen a) by lia.
    now rewrite IH.
Qed.

Lemma slice_bytes_app pre mid post :
  slice_bytes (pre ++ mid ++ post) (blen pre) (blen pre + blen mid) = Ok mid.
Proof.
  unfold slice_bytes.
  replace (blen pre + blen mid <? blen pre) with false by (symmetry; apply N.ltb_ge; lia).
  rewrite take_bytes_app.
  replace (blen pre + blen mid - blen pre) with (blen mid) by lia.
  now rewrite take_bytes_app.
Qed.

Lemma replace_range_app pre mid post w :
  replace_range (pre ++ mid ++ post) (blen pre) (blen pre + blen mid) w = Ok (pre ++ w ++ post).
Proof.
  unfold replace_range.
  replace (blen pre + blen mid <? blen pre) with false by (symmetry; apply N.ltb_ge; lia).
  rewrite take_bytes_app.
  replace (blen pre + blen mid - blen pre) with (blen mid) by lia.
  now rewrite take_bytes_app.
Qed.

Lemma slice_bytes_00 t : slice_bytes t 0 0 = Ok [].
Proof.
  unfold slice_bytes. change (0 <? 0) with false. cbn iota. rewrite take_bytes_0.
  change (0 - 0) with 0. now rewrite take_bytes_0.
Qed.

Lemma replace_range_00 t w : replace_range t 0 0 w = Ok (w ++ t).
Proof.
  unfold replace_range. change (0 <? 0) with false. cbn iota. rewrite take_bytes_0.
  change (0 - 0) with 0. now rewrite take_bytes_0.
Qed.

(* s.char_indices().nth(idx): the idx-th character and the byte length of what precedes *)
Lemma ci_nth_spec t : forall off idx,
  ci_nth t off idx =
  match nth_error t (N.to_nat idx) with
  | Some c => Some (off + blen (firstn (N.to_nat idx) t), c)
  | None => None
  end.
Proof.
  induction t as [|c r IH]; intros off idx; cbn [ci_nth].
  - now destruct (N.to_nat idx).
  - destruct (N.eqb_spec idx 0) as [->|Hne].
    + cbn. f_equal. f_equal. lia.
    + rewrite IH. replace (N.to_nat idx) with (S (N.to_nat (idx - 1))) by lia.
      cbn [nth_error firstn blen].
      destruct (nth_error r (N.to_nat (idx - 1))); [|reflexivity].
      f_equal. f_equal. lia.
Qed.

Lemma nth_error_None_len {A} (l : list A) (i : N) : nth_error l (N.to_nat i) = None <-> len l <= i.
Proof. rewrite nth_error_None, len_length. lia. Qed.

Lemma nth_error_Some_len {A} (l : list A) (i : N) : nth_error l (N.to_nat i) <> None <-> i < len l.
Proof. rewrite nth_error_Some, len_length. lia. Qed.

(* ================================================================ the spec *)
(* A string is a vector of scalar values; indices are character positions. *)
Definition spec_ref (t : text) (i : N) : option cp := nth_error t (N.to_nat i).
Definition spec_set (t : text) (i : N) (c : cp) : text :=
  firstn (N.to_nat i) t ++ c :: skipn (S (N.to_nat i)) t.
Definition spec_sub (t : text) (a b : N) : text :=
  firstn (N.to_nat b - N.to_nat a) (skipn (N.to_nat a) t).
Definition spec_fill (t : text) (a b : N) (c : cp) : text :=
  firstn (N.to_nat a) t ++ repeat c (N.to_nat b - N.to_nat a) ++ skipn (N.to_nat b) t.

Definition range_start (start : option N) : N := match start with Some s => s | None => 0 end.
Definition range_end (t : text) (end_ : option N) : N := match end_ with Some e => e | None => len t end.
(* a range is valid when 0 <= start <= end <= length *)
Definition range_ok (t : text) (start end_ : option N) : bool :=
  (range_start start <=? range_end t end_) && (range_end t end_ <=? len t).

(* ---------------------------------------------------------- string-ref *)
Lemma string_ref_core_spec t i :
  string_ref_core t i = match spec_ref t i with Some c => Ok c | None => Err E_OTHER end.
Proof.
  unfold string_ref_core, spec_ref. rewrite ci_nth_spec.
  now destruct (nth_error t (N.to_nat i)).
Qed.

Lemma string_ref_errors_iff_invalid t i :
  (exists e, string_ref_core t i = Err e) <-> len t <= i.
Proof.
  rewrite string_ref_core_spec, <- nth_error_None_len. unfold spec_ref.
  destruct (nth_error t (N.to_nat i)); split; intro H; try discriminate; try (destruct H; discriminate).
  - reflexivity.
  - now exists E_OTHER.
Qed.

(* --------------------------------------------------------- string-set! *)
Lemma string_set_core_spec t i c :
  string_set_core t i c = if i <? len t then Ok (spec_set t i c) else Err E_OTHER.
Proof.
  unfold string_set_core. rewrite ci_nth_spec.
  destruct (nth_error t (N.to_nat i)) as [old|] eqn:Hn.
  - assert (Hlt : i < len t) by (apply nth_error_Some_len; congruence).
    replace (i <? len t) with true by (symmetry; now apply N.ltb_lt).
    pose proof (nth_error_split_firstn _ _ _ Hn) as Hs.
    set (pre := firstn (N.to_nat i) t) in *. set (post := skipn (S (N.to_nat i)) t) in *.
    rewrite Hs at 1. change (old :: post) with ([old] ++ post).
    rewrite N.add_0_l.
    replace (utf8_len old) with (blen [old]) by (cbn; lia).
    rewrite replace_range_app. reflexivity.
  - apply nth_error_None_len in Hn.
    replace (i <? len t) with false by (symmetry; now apply N.ltb_ge). reflexivity.
Qed.

(* exactly the addressed character changes, whatever the byte widths *)
Lemma spec_set_length t i c : i < len t -> length (spec_set t i c) = length t.
Proof.
  intro H. rewrite len_length in H. unfold spec_set.
  rewrite app_length, firstn_length. cbn [length]. rewrite skipn_length. lia.
Qed.

Lemma spec_set_nth t i c j :
  i < len t ->
  nth_error (spec_set t i c) (N.to_nat j) = if j =? i then Some c else nth_error t (N.to_nat j).
Proof.
  intro H. rewrite len_length in H. unfold spec_set.
  assert (Hfl : length (firstn (N.to_nat i) t) = N.to_nat i) by (rewrite firstn_length; lia).
  destruct (N.eqb_spec j i) as [->|Hne].
  - rewrite nth_error_app2 by lia. rewrite Hfl, Nat.sub_diag. reflexivity.
  - destruct (Nat.lt_ge_cases (N.to_nat j) (N.to_nat i)) as [Hlt|Hge].
    + rewrite nth_error_app1 by lia.
      rewrite <- (firstn_skipn (N.to_nat i) t) at 2. now rewrite nth_error_app1 by lia.
    + rewrite nth_error_app2 by lia. rewrite Hfl.
      replace (N.to_nat j - N.to_nat i)%nat with (S (N.to_nat j - S (N.to_nat i))) by lia.
      cbn [nth_error].
      rewrite <- (firstn_skipn (S (N.to_nat i)) t) at 2.
      rewrite nth_error_app2 by (rewrite firstn_length; lia).
      rewrite firstn_length. f_equal. lia.
Qed.

(* ------------------------------------------------ substring / string-copy *)
Lemma blen_firstn_succ t k c :
  nth_error t k = Some c -> blen (firstn (S k) t) = blen (firstn k t) + utf8_len c.
Proof.
  revert k. induction t as [|x t IH]; intros [|k] H; cbn in H; try discriminate.
  - inversion H; subst. cbn. lia.
  - rewrite !firstn_cons. cbn [blen]. rewrite (IH _ H). lia.
Qed.

Lemma char_offset_spec t s :
  s < len t -> char_offset t s = Ok (blen (firstn (N.to_nat s) t)).
Proof.
  intro H. unfold char_offset. rewrite ci_nth_spec.
  destruct (nth_error t (N.to_nat s)) eqn:Hn.
  - now rewrite N.add_0_l.
  - apply nth_error_None_len in Hn. lia.
Qed.

Lemma char_offset_inclusive_spec t e :
  0 < e -> e <= len t -> char_offset_inclusive t (e - 1) = Ok (blen (firstn (N.to_nat e) t)).
Proof.
  intros H0 H. unfold char_offset_inclusive. rewrite ci_nth_spec.
  destruct (nth_error t (N.to_nat (e - 1))) eqn:Hn.
  - rewrite N.add_0_l. replace (N.to_nat e) with (S (N.to_nat (e - 1))) by lia.
    now rewrite (blen_firstn_succ _ _ _ Hn).
  - apply nth_error_None_len in Hn. lia.
Qed.

(* the discipline of the three callers: an end index is only ever given together
   with a start index (argc = 3 resp. 4) *)
Definition args_ok (start end_ : option N) : Prop := start = None -> end_ = None.

Lemma firstn_all_len {A} (l : list A) : firstn (N.to_nat (len l)) l = l.
Proof. rewrite len_length, Nat2N.id. apply firstn_all. Qed.

Lemma skipn_all_len {A} (l : list A) : skipn (N.to_nat (len l)) l = [].
Proof. rewrite len_length, Nat2N.id. apply skipn_all. Qed.

(* what the offsets are used for: the two byte offsets cut the string at the two
   character positions (or denote an empty range at the front) *)
Inductive offsets_for (t : text) (a b : N) : N * N -> Prop :=
| off_exact : offsets_for t a b (blen (firstn (N.to_nat a) t), blen (firstn (N.to_nat b) t))
| off_empty : a = b -> offsets_for t a b (0, 0).

Lemma char_substring_offset_spec t start end_ :
  args_ok start end_ ->
  if range_ok t start end_
  then exists ab, char_substring_offset t start end_ = Ok ab /\
                  offsets_for t (range_start start) (range_end t end_) ab
  else char_substring_offset t start end_ = Err E_OTHER.
Proof.
  intro Hargs. unfold range_ok, char_substring_offset, char_count.
  destruct start as [s|]; destruct end_ as [e|]; cbn [range_start range_end].
  - (* start and end *)
    destruct (N.ltb_spec (len t) s) as [Hs|Hs].
    { replace ((s <=? e) && (e <=? len t)) with false; [reflexivity|].
      symmetry. apply andb_false_iff. destruct (N.leb_spec e (len t)); [left; apply N.leb_gt; lia | now right]. }
    destruct (N.ltb_spec (len t) e) as [He|He].
    { replace (e <=? len t) with false by (symmetry; apply N.leb_gt; lia). now rewrite andb_false_r. }
    replace (e <=? len t) with true by (symmetry; apply N.leb_le; lia). rewrite andb_true_r.
    destruct (N.eqb_spec s e) as [->|Hne].
    { rewrite N.leb_refl. eexists; split; [reflexivity|]. now apply off_empty. }
    destruct (N.ltb_spec e s) as [Hlt|Hge].
    { replace (s <=? e) with false by (symmetry; apply N.leb_gt; lia). reflexivity. }
    replace (s <=? e) with true by (symmetry; apply N.leb_le; lia).
    replace (s =? len t) with false by (symmetry; apply N.eqb_neq; lia).
    rewrite char_offset_spec by lia. cbn [bind].
    unfold usize_sub. replace (e <? 1) with false by (symmetry; apply N.ltb_ge; lia). cbn [bind].
    rewrite char_offset_inclusive_spec by lia. cbn [bind].
    eexists; split; [reflexivity|]. apply off_exact.
  - (* start only *)
    destruct (N.ltb_spec (len t) s) as [Hs|Hs].
    { replace (s <=? len t) with false by (symmetry; apply N.leb_gt; lia). reflexivity. }
    replace (s <=? len t) with true by (symmetry; apply N.leb_le; lia). rewrite N.leb_refl. cbn [andb].
    destruct (N.eqb_spec s (len t)) as [->|Hne].
    { eexists; split; [reflexivity|]. now apply off_empty. }
    rewrite char_offset_spec by lia. cbn [bind].
    eexists; split; [reflexivity|].
    replace (blen t) with (blen (firstn (N.to_nat (len t)) t)) by (now rewrite firstn_all_len).
    apply off_exact.
  - discriminate (Hargs eq_refl).
  - rewrite N.leb_refl. cbn [andb bind N.leb]. replace (0 <=? len t) with true by (symmetry; apply N.leb_le; lia).
    cbn [andb]. eexists; split; [reflexivity|].
    replace (blen t) with (blen (firstn (N.to_nat (len t)) t)) by (now rewrite firstn_all_len).
    apply (off_exact t 0 (len t)).
Qed.

Lemma range_ok_bounds t start end_ :
  range_ok t start end_ = true ->
  (N.to_nat (range_start start) <= N.to_nat (range_end t end_))%nat /\
  (N.to_nat (range_end t end_) <= length t)%nat.
Proof.
  unfold range_ok. intro H. apply andb_true_iff in H. destruct H as [H1 H2].
  apply N.leb_le in H1, H2. rewrite len_length in H2. lia.
Qed.

Lemma substring_core_spec t start end_ :
  args_ok start end_ ->
  substring_core t start end_ =
  if range_ok t start end_ then Ok (spec_sub t (range_start start) (range_end t end_)) else Err E_OTHER.
Proof.
  intro Hargs. unfold substring_core.
  pose proof (char_substring_offset_spec t start end_ Hargs) as H.
  destruct (range_ok t start end_) eqn:Hr.
  - destruct H as [ab [-> Hoff]]. cbn [bind].
    destruct (range_ok_bounds _ _ _ Hr) as [Hab Hb].
    set (a := range_start start) in *. set (b := range_end t end_) in *.
    unfold spec_sub. inversion Hoff as [|Heq]; subst.
    + rewrite (split3 t (N.to_nat a) (N.to_nat b) Hab) at 1.
      rewrite (firstn_firstn_skipn t _ _ Hab), blen_app.
      apply slice_bytes_app.
    + rewrite Heq, Nat.sub_diag. cbn [firstn]. apply slice_bytes_00.
  - now rewrite H.
Qed.

(* ---------------------------------------------------------- string-fill! *)
Lemma string_fill_core_spec t start end_ c :
  args_ok start end_ ->
  string_fill_core t start end_ c =
  if range_ok t start end_ then Ok (spec_fill t (range_start start) (range_end t end_) c) else Err E_OTHER.
Proof.
  intro Hargs. unfold string_fill_core.
  pose proof (char_substring_offset_spec t start end_ Hargs) as H.
  destruct (range_ok t start end_) eqn:Hr.
  - destruct H as [ab [-> Hoff]]. cbn [bind].
    destruct (range_ok_bounds _ _ _ Hr) as [Hab Hb].
    (* the count is end - start in every arm that reaches this point *)
    assert (Hcount :
      N.to_nat (match start, end_ with
                | Some s, Some e => if s <=? e then e - s else char_count t
                | Some s, None => sat_sub (char_count t) s
                | _, _ => char_count t
                end) = (N.to_nat (range_end t end_) - N.to_nat (range_start start))%nat).
    { unfold range_ok in Hr. apply andb_true_iff in Hr. destruct Hr as [H1 H2].
      destruct start as [s|]; destruct end_ as [e|]; cbn [range_start range_end] in *; unfold sat_sub, char_count.
      - rewrite H1. lia.
      - lia.
      - discriminate (Hargs eq_refl).
      - lia. }
    rewrite Hcount.
    set (a := range_start start) in *. set (b := range_end t end_) in *.
    unfold spec_fill. inversion Hoff as [|Heq]; subst.
    + rewrite (split3 t (N.to_nat a) (N.to_nat b) Hab) at 1.
      rewrite (firstn_firstn_skipn t _ _ Hab), blen_app.
      apply replace_range_app.
    + rewrite Heq, Nat.sub_diag. cbn [repeat app].
      rewrite replace_range_00. cbn [app]. now rewrite firstn_skipn.
  - now rewrite H.
Qed.

Lemma spec_fill_length t a b c :
  a <= b -> b <= len t -> length (spec_fill t a b c) = length t.
Proof.
  intros Hab Hb. rewrite len_length in Hb. unfold spec_fill.
  rewrite !app_length, firstn_length, repeat_length, skipn_length. lia.
Qed.

(* exactly the characters of the range change *)
Lemma spec_fill_nth t a b c j :
  a <= b -> b <= len t -> j < len t ->
  nth_error (spec_fill t a b c) (N.to_nat j) =
  if (a <=? j) && (j <? b) then Some c else nth_error t (N.to_nat j).
Proof.
  intros Hab Hb Hj. rewrite len_length in Hb, Hj. unfold spec_fill.
  assert (Hfl : length (firstn (N.to_nat a) t) = N.to_nat a) by (rewrite firstn_length; lia).
  destruct (N.leb_spec a j) as [Haj|Haj]; cbn [andb].
  - rewrite nth_error_app2 by lia. rewrite Hfl.
    destruct (N.ltb_spec j b) as [Hjb|Hjb].
    + rewrite nth_error_app1 by (rewrite repeat_length; lia).
      apply nth_error_repeat. lia.
    + rewrite nth_error_app2 by (rewrite repeat_length; lia). rewrite repeat_length.
      rewrite <- (firstn_skipn (N.to_nat b) t) at 2.
      rewrite nth_error_app2 by (rewrite firstn_length; lia).
      rewrite firstn_length. f_equal. lia.
  - rewrite nth_error_app1 by lia.
    rewrite <- (firstn_skipn (N.to_nat a) t) at 2. now rewrite nth_error_app1 by lia.
Qed.

Lemma nth_error_firstn_lt {A} (l : list A) : forall n i,
  (i < n)%nat -> nth_error (firstn n l) i = nth_error l i.
Proof.
  induction l as [|x l IH]; intros [|n] [|i] H; cbn; try reflexivity; try lia.
  apply IH. lia.
Qed.

Lemma nth_error_skipn_add {A} (l : list A) : forall a i,
  nth_error (skipn a l) i = nth_error l (a + i).
Proof.
  induction l as [|x l IH]; intros [|a] i; cbn [skipn Nat.add]; try reflexivity.
  - now destruct i.
  - cbn [nth_error]. apply IH.
Qed.

Lemma spec_sub_nth t a b j :
  a <= b -> b <= len t ->
  nth_error (spec_sub t a b) (N.to_nat j) = if j <? b - a then nth_error t (N.to_nat (a + j)) else None.
Proof.
  intros Hab Hb. rewrite len_length in Hb. unfold spec_sub.
  destruct (N.ltb_spec j (b - a)) as [H|H].
  - rewrite nth_error_firstn_lt by lia. rewrite nth_error_skipn_add. f_equal. lia.
  - apply nth_error_None. rewrite firstn_length, skipn_length. lia.
Qed.

(* ============================================ ordering: UTF-8 bytes vs scalars *)
Lemma lex_head_lt x y a b : x < y -> lex_cmp (x :: a) (y :: b) = Lt.
Proof. intro H. cbn [lex_cmp]. now rewrite (proj2 (N.compare_lt_iff x y) H). Qed.

Lemma lex_head_eq x y a b : x = y -> lex_cmp (x :: a) (y :: b) = lex_cmp a b.
Proof. intros ->. cbn [lex_cmp]. now rewrite N.compare_refl. Qed.

Lemma lex_cmp_app_same l r1 r2 : lex_cmp (l ++ r1) (l ++ r2) = lex_cmp r1 r2.
Proof. induction l as [|x l IH]; [reflexivity|]. cbn [app]. now rewrite lex_head_eq. Qed.

Lemma lex_cmp_antisym a : forall b, lex_cmp a b = CompOpp (lex_cmp b a).
Proof.
  induction a as [|x a IH]; intros [|y b]; cbn [lex_cmp CompOpp]; try reflexivity.
  rewrite (N.compare_antisym x y). destruct (x ?= y); cbn [CompOpp]; auto.
Qed.

Lemma lex_cmp_refl a : lex_cmp a a = Eq.
Proof. induction a as [|x a IH]; [reflexivity|]. now rewrite lex_head_eq. Qed.

Lemma lex_cmp_eq a : forall b, lex_cmp a b = Eq <-> a = b.
Proof.
  induction a as [|x a IH]; intros [|y b]; cbn [lex_cmp]; split; intro H; try discriminate; try reflexivity.
  - destruct (N.compare_spec x y) as [->| |]; try discriminate. f_equal. now apply IH.
  - inversion H; subst. rewrite N.compare_refl. now apply IH.
Qed.

(* lexicographic order, spelled out: a proper prefix, or a first differing position *)
Lemma lex_cmp_lt a : forall b,
  lex_cmp a b = Lt <->
  exists p, (exists y q, a = p /\ b = p ++ y :: q) \/
            (exists x y q1 q2, a = p ++ x :: q1 /\ b = p ++ y :: q2 /\ x < y).
Proof.
  induction a as [|x a IH]; intros [|y b]; cbn [lex_cmp]; split; intro H; try discriminate.
  - destruct H as [p [[y [q [<- Hb]]]|[x [y [q1 [q2 [Ha _]]]]]]].
    + now destruct q.
    + now destruct p.
  - exists []. left. now exists y, b.
  - reflexivity.
  - destruct H as [p [[y [q [Ha Hb]]]|[x' [y [q1 [q2 [_ [Hb _]]]]]]]]; destruct p; discriminate.
  - destruct (N.compare_spec x y) as [->|Hlt|Hgt]; try discriminate.
    + apply IH in H. destruct H as [p [[y' [q [-> ->]]]|[x' [y' [q1 [q2 [-> [-> Hxy]]]]]]]].
      * exists (y :: p). left. now exists y', q.
      * exists (y :: p). right. now exists x', y', q1, q2.
    + exists []. right. now exists x, y, a, b.
  - destruct H as [p [[y' [q [Ha Hb]]]|[x' [y' [q1 [q2 [Ha [Hb Hxy]]]]]]]].
    + subst p. cbn [app] in Hb. inversion Hb; subst. rewrite N.compare_refl.
      apply IH. exists a. left. now exists y', q.
    + destruct p as [|z p]; cbn [app] in Ha, Hb; inversion Ha; inversion Hb; subst.
      * now rewrite (proj2 (N.compare_lt_iff _ _) Hxy).
      * rewrite N.compare_refl. apply IH. exists p. right. now exists x', y', q1, q2.
Qed.

(* the digits of a code point in base 64, as the UTF-8 encoder cuts them *)
Lemma base64_digits c :
  c = 64 * (c / 64) + c mod 64 /\ c mod 64 < 64 /\
  c / 64 = 64 * (c / 4096) + (c / 64) mod 64 /\ (c / 64) mod 64 < 64 /\
  c / 4096 = 64 * (c / 262144) + (c / 4096) mod 64 /\ (c / 4096) mod 64 < 64.
Proof.
  assert (H64 : 64 <> 0) by discriminate.
  repeat split.
  - apply N.div_mod'.
  - now apply N.mod_lt.
  - replace (c / 4096) with (c / 64 / 64) by (rewrite N.div_div by discriminate; reflexivity).
    apply N.div_mod'.
  - now apply N.mod_lt.
  - replace (c / 262144) with (c / 4096 / 64) by (rewrite N.div_div by discriminate; reflexivity).
    apply N.div_mod'.
  - now apply N.mod_lt.
Qed.

Ltac bytes_lt :=
  lazymatch goal with
  | |- lex_cmp (?x :: _) (?y :: _) = Lt =>
      let Hlt := fresh "Hlt" in let Heq := fresh "Heq" in let Hgt := fresh "Hgt" in
      destruct (N.lt_trichotomy x y) as [Hlt|[Heq|Hgt]];
      [ apply lex_head_lt; exact Hlt
      | rewrite (lex_head_eq _ _ _ _ Heq); bytes_lt
      | exfalso; lia ]
  | |- _ => exfalso; lia
  end.

(* UTF-8 is order preserving and prefix free: the encodings of two different code
   points differ at a byte before either ends, in the direction of the code points *)
Lemma utf8_bytes_lt c1 c2 r1 r2 :
  c1 < c2 -> lex_cmp (utf8_bytes c1 ++ r1) (utf8_bytes c2 ++ r2) = Lt.
Proof.
  intro Hlt.
  destruct (base64_digits c1) as (A1 & A2 & A3 & A4 & A5 & A6).
  destruct (base64_digits c2) as (B1 & B2 & B3 & B4 & B5 & B6).
  unfold utf8_bytes.
  (* name the digits so that only linear facts remain *)
  remember (c1 / 64) as q1 eqn:E; clear E. remember (q1 mod 64) as b1 eqn:E; clear E.
  remember (c1 / 4096) as a1 eqn:E; clear E. remember (a1 mod 64) as f1 eqn:E; clear E.
  remember (c1 / 262144) as e1 eqn:E; clear E. remember (c1 mod 64) as m1 eqn:E; clear E.
  remember (c2 / 64) as q2 eqn:E; clear E. remember (q2 mod 64) as b2 eqn:E; clear E.
  remember (c2 / 4096) as a2 eqn:E; clear E. remember (a2 mod 64) as f2 eqn:E; clear E.
  remember (c2 / 262144) as e2 eqn:E; clear E. remember (c2 mod 64) as m2 eqn:E; clear E.
  destruct (N.ltb_spec c1 128) as [H1|H1]; [|destruct (N.ltb_spec c1 2048) as [H2|H2];
    [|destruct (N.ltb_spec c1 65536) as [H3|H3]]];
  (destruct (N.ltb_spec c2 128) as [K1|K1]; [|destruct (N.ltb_spec c2 2048) as [K2|K2];
    [|destruct (N.ltb_spec c2 65536) as [K3|K3]]]);
  cbn [app]; bytes_lt.
Qed.

Lemma utf8_bytes_cmp c1 c2 r1 r2 :
  lex_cmp (utf8_bytes c1 ++ r1) (utf8_bytes c2 ++ r2) =
  match c1 ?= c2 with Eq => lex_cmp r1 r2 | c => c end.
Proof.
  destruct (N.compare_spec c1 c2) as [->|Hlt|Hgt].
  - apply lex_cmp_app_same.
  - now apply utf8_bytes_lt.
  - rewrite lex_cmp_antisym, (utf8_bytes_lt c2 c1 r2 r1 Hgt). reflexivity.
Qed.

Lemma utf8_bytes_nonempty c : exists b r, utf8_bytes c = b :: r.
Proof.
  unfold utf8_bytes. destruct (c <? 128); [eauto|]. destruct (c <? 2048); [eauto|].
  destruct (c <? 65536); eauto.
Qed.

(* `x < y` on &str (bytewise) is the lexicographic order on the scalar values *)
Theorem str_cmp_code_points x : forall y, str_cmp x y = lex_cmp x y.
Proof.
  unfold str_cmp, str_bytes.
  induction x as [|c x IH]; intros [|d y]; cbn [flat_map lex_cmp].
  - reflexivity.
  - destruct (utf8_bytes_nonempty d) as (b & r & ->). reflexivity.
  - destruct (utf8_bytes_nonempty c) as (b & r & ->). reflexivity.
  - rewrite utf8_bytes_cmp, IH. reflexivity.
Qed.

Corollary str_comp_spec o x y : str_comp o x y = cmp_holds o (lex_cmp x y).
Proof. unfold str_comp. now rewrite str_cmp_code_points. Qed.

Corollary str_ci_comp_spec o x y :
  str_ci_comp o x y = cmp_holds o (lex_cmp (str_to_lowercase x) (str_to_lowercase y)).
Proof. unfold str_ci_comp. now rewrite str_cmp_code_points. Qed.

(* ======================================================= the VM level: stack *)
(* the stack (stack.rs) is a table of slots with capacity [scap]; [sp] indexes the top *)
Definition stack_ok (s : vm) : Prop := sp s < scap s.

(* the values on top of the stack, topmost first *)
Definition top_is (s : vm) (vs : list vcell) : Prop :=
  N.of_nat (length vs) <= sp s /\ sp s < scap s /\
  forall k v, nth_error vs k = Some v -> sget s (sp s - N.of_nat k) = v.

(* what a builtin may change: only the string/vector store and the stack pointer *)
Definition same_but_sp (s s' : vm) : Prop :=
  st s' = st s /\ hp s' = hp s /\ stack s' = stack s.

Lemma top_is_nil s : stack_ok s -> top_is s [].
Proof. intro H. split; [cbn; lia|]. split; [exact H|]. intros [|k] v Hk; discriminate. Qed.

Lemma push_spec s v vs :
  stack_ok s -> top_is s vs ->
  exists s1, push v s = ROk tt s1 /\ stack_ok s1 /\ top_is s1 (v :: vs) /\
             st s1 = st s /\ hp s1 = hp s /\ sp s1 = sp s + 1.
Proof.
  intros Hok (Hlen & _ & Htop). unfold stack_ok in Hok. unfold push.
  set (cap := if sp s + 1 <? scap s then scap s else scap s * 2).
  assert (Hcap : sp s + 1 < cap).
  { unfold cap. destruct (N.ltb_spec (sp s + 1) (scap s)) as [H|H]; lia. }
  eexists. split; [reflexivity|].
  split; [exact Hcap|]. split; [|split; [reflexivity|split; reflexivity]].
  split; [cbn [length sp with_scap with_stack]; lia|]. split; [exact Hcap|].
  intros k w Hk. unfold sget. cbn [sp stack with_scap with_stack].
  destruct k as [|k]; cbn [nth_error] in Hk.
  - inversion Hk; subst. replace (sp s + 1 - N.of_nat 0) with (sp s + 1) by (cbn; lia).
    now rewrite tget_tset_same.
  - assert (Hk' : (k < length vs)%nat) by (apply nth_error_Some; congruence).
    rewrite tget_tset_other by lia.
    replace (sp s + 1 - N.of_nat (S k)) with (sp s - N.of_nat k) by lia.
    now apply Htop.
Qed.

Lemma pop_raw_top s v vs :
  top_is s (v :: vs) ->
  pop_raw s = ROk v (with_sp s (sp s - 1)) /\ top_is (with_sp s (sp s - 1)) vs.
Proof.
  intros (Hlen & Hcap & Htop). cbn [length] in Hlen. unfold pop_raw.
  replace (sp s =? 0) with false by (symmetry; apply N.eqb_neq; lia).
  replace (sp s <? scap s) with true by (symmetry; now apply N.ltb_lt).
  pose proof (Htop 0%nat v eq_refl) as H0. replace (sp s - N.of_nat 0) with (sp s) in H0 by (cbn; lia).
  rewrite H0. split; [reflexivity|].
  split; [cbn [sp with_sp with_stack]; lia|]. split; [cbn [sp scap with_sp with_stack]; lia|].
  intros k w Hk. change (sget (with_sp s (sp s - 1)) ?i) with (sget s i).
  cbn [sp with_sp with_stack].
  replace (sp s - 1 - N.of_nat k) with (sp s - N.of_nat (S k)) by lia.
  now apply Htop.
Qed.

Definition pop1 (s : vm) : vm := with_sp s (sp s - 1).

Lemma bindM_ok {A B} (m : M A) (f : A -> M B) s a s' : m s = ROk a s' -> bindM m f s = f a s'.
Proof. intro H. unfold bindM. now rewrite H. Qed.

Lemma bindM_err {A B} (m : M A) (f : A -> M B) s e msg s' :
  m s = RErr e msg s' -> bindM m f s = RErr e msg s'.
Proof. intro H. unfold bindM. now rewrite H. Qed.

Lemma pop_argc_top s n vs mn mx :
  top_is s (VArgc n :: vs) ->
  pop_argc mn mx s =
    (if (n <? mn) || match mx with Some m => m <? n | None => false end
     then RErr E_OTHER [] (pop1 s) else ROk n (pop1 s))
  /\ top_is (pop1 s) vs.
Proof.
  intro H. destruct (pop_raw_top _ _ _ H) as [Hp Ht]. split; [|exact Ht].
  unfold pop_argc. rewrite (bindM_ok _ _ _ _ _ Hp).
  now destruct ((n <? mn) || match mx with Some m => m <? n | None => false end).
Qed.

Definition imm (v : vcell) : Prop := match v with VPtr _ => False | _ => True end.

Lemma pop_value_top s v vs :
  top_is s (v :: vs) -> imm v -> pop_value s = ROk v (pop1 s) /\ top_is (pop1 s) vs.
Proof.
  intros H Hi. destruct (pop_raw_top _ _ _ H) as [Hp Ht]. split; [|exact Ht].
  unfold pop_value, pop_deref. rewrite (bindM_ok _ _ _ _ _ Hp).
  unfold hderef, lift. destruct v; cbn in *; try reflexivity. contradiction.
Qed.

Definition as_string (v : vcell) : option N := match v with VStr sid => Some sid | _ => None end.
Definition as_char (v : vcell) : option cp := match v with VChar c => Some c | _ => None end.
Definition as_number (v : vcell) : option num := match v with VNum n => Some n | _ => None end.
Definition as_index (v : vcell) : option N :=
  match v with VNum n => num_to_usize n | _ => None end.

Definition opt_res {A} (o : option A) (s : vm) : res A :=
  match o with Some a => ROk a s | None => RErr E_OTHER [] s end.

Lemma pop_string_top s v vs :
  top_is s (v :: vs) -> imm v ->
  pop_string s = opt_res (as_string v) (pop1 s) /\ top_is (pop1 s) vs.
Proof.
  intros H Hi. destruct (pop_value_top _ _ _ H Hi) as [Hp Ht]. split; [|exact Ht].
  unfold pop_string. rewrite (bindM_ok _ _ _ _ _ Hp). now destruct v.
Qed.

Lemma pop_char_top s v vs :
  top_is s (v :: vs) -> imm v ->
  pop_char s = opt_res (as_char v) (pop1 s) /\ top_is (pop1 s) vs.
Proof.
  intros H Hi. destruct (pop_value_top _ _ _ H Hi) as [Hp Ht]. split; [|exact Ht].
  unfold pop_char. rewrite (bindM_ok _ _ _ _ _ Hp). now destruct v.
Qed.

Lemma pop_number_top s v vs :
  top_is s (v :: vs) -> imm v ->
  pop_number s = opt_res (as_number v) (pop1 s) /\ top_is (pop1 s) vs.
Proof.
  intros H Hi. destruct (pop_value_top _ _ _ H Hi) as [Hp Ht]. split; [|exact Ht].
  unfold pop_number. rewrite (bindM_ok _ _ _ _ _ Hp). now destruct v.
Qed.

Lemma pop_index_top s v vs :
  top_is s (v :: vs) -> imm v ->
  pop_index s = opt_res (as_index v) (pop1 s) /\ top_is (pop1 s) vs.
Proof.
  intros H Hi. destruct (pop_value_top _ _ _ H Hi) as [Hp Ht]. split; [|exact Ht].
  unfold pop_index. rewrite (bindM_ok _ _ _ _ _ Hp).
  destruct v; try reflexivity. cbn [as_index]. now destruct (num_to_usize n).
Qed.

Lemma push_all_spec args : forall s vs,
  stack_ok s -> top_is s vs ->
  exists s1, push_all args s = ROk tt s1 /\ stack_ok s1 /\ top_is s1 (rev args ++ vs) /\
             st s1 = st s /\ hp s1 = hp s /\ sp s1 = sp s + len args.
Proof.
  induction args as [|a args IH]; intros s vs Hok Ht.
  - exists s. cbn [push_all rev app].
    split; [reflexivity|]. split; [exact Hok|]. split; [exact Ht|].
    split; [reflexivity|]. split; [reflexivity|]. unfold len; cbn [length N.of_nat]; lia.
  - destruct (push_spec s a vs Hok Ht) as (s1 & Hp & Hok1 & Ht1 & Hst & Hhp & Hsp).
    destruct (IH s1 (a :: vs) Hok1 Ht1) as (s2 & Hp2 & Hok2 & Ht2 & Hst2 & Hhp2 & Hsp2).
    exists s2. cbn [push_all]. rewrite (bindM_ok _ _ _ _ _ Hp).
    split; [exact Hp2|]. split; [exact Hok2|].
    split; [cbn [rev]; now rewrite <- app_assoc|].
    split; [congruence|]. split; [congruence|].
    rewrite Hsp2, Hsp, !len_length. cbn [length]. lia.
Qed.

(* entering a builtin called with [args]: the state the body runs in *)
Lemma call_enter f args s :
  stack_ok s ->
  exists s1, run_builtin f args s = f s1 /\ top_is s1 (VArgc (len args) :: rev args) /\
             st s1 = st s /\ hp s1 = hp s /\ sp s1 = sp s + len args + 1.
Proof.
  intro Hok.
  destruct (push_all_spec args s [] Hok (top_is_nil s Hok)) as (s1 & Hp & Hok1 & Ht1 & Hst & Hhp & Hsp).
  destruct (push_spec s1 (VArgc (len args)) _ Hok1 Ht1) as (s2 & Hp2 & Hok2 & Ht2 & Hst2 & Hhp2 & Hsp2).
  exists s2. unfold run_builtin. rewrite (bindM_ok _ _ _ _ _ Hp), (bindM_ok _ _ _ _ _ Hp2).
  rewrite app_nil_r in Ht2.
  split; [reflexivity|]. split; [exact Ht2|]. split; [congruence|]. split; [congruence|]. lia.
Qed.

(* ============================================= the VM level: the procedures *)
(* outcome of a call made in state [s]: a value and the new Rc store, the heap and the
   stack pointer as before the call; or an error with store and heap untouched *)
Definition returns (r : res vcell) (s : vm) (v : vcell) (x : store) : Prop :=
  exists s', r = ROk v s' /\ st s' = x /\ hp s' = hp s /\ sp s' = sp s.
Definition fails (r : res vcell) (s : vm) : Prop :=
  exists e msg s', r = RErr e msg s' /\ st s' = st s /\ hp s' = hp s.
Definition no_panic (r : res vcell) : Prop :=
  (exists v s', r = ROk v s') \/ (exists e msg s', r = RErr e msg s').

Lemma returns_no_panic r s v x : returns r s v x -> no_panic r.
Proof. intros (s' & -> & _). left; eauto. Qed.
Lemma fails_no_panic r s : fails r s -> no_panic r.
Proof. intros (e & msg & s' & -> & _). right; eauto. Qed.

Lemma pop_argc_ok s n vs mn mx :
  top_is s (VArgc n :: vs) -> mn <= n -> (forall m, mx = Some m -> n <= m) ->
  pop_argc mn mx s = ROk n (pop1 s) /\ top_is (pop1 s) vs.
Proof.
  intros H H1 H2. destruct (pop_argc_top s n vs mn mx H) as [He Ht]. split; [|exact Ht].
  rewrite He. replace (n <? mn) with false by (symmetry; apply N.ltb_ge; lia).
  destruct mx as [m|]; [|reflexivity].
  pose proof (H2 m eq_refl). replace (m <? n) with false by (symmetry; apply N.ltb_ge; lia). reflexivity.
Qed.

Lemma pop_argc_bad s n vs mn mx :
  top_is s (VArgc n :: vs) -> (n < mn \/ exists m, mx = Some m /\ m < n) ->
  pop_argc mn mx s = RErr E_OTHER [] (pop1 s).
Proof.
  intros H Hb. destruct (pop_argc_top s n vs mn mx H) as [He _]. rewrite He.
  destruct Hb as [Hb|(m & -> & Hb)].
  - now replace (n <? mn) with true by (symmetry; apply N.ltb_lt; lia).
  - replace (m <? n) with true by (symmetry; apply N.ltb_lt; lia). now rewrite orb_true_r.
Qed.

Lemma str_get_ok s sid t : tget (strs (st s)) sid = Some t -> str_get sid s = ROk t s.
Proof. intro H. unfold str_get. now rewrite H. Qed.

(* projections through the state updates used below *)
Lemma st_pop1 s : st (pop1 s) = st s. Proof. reflexivity. Qed.
Lemma hp_pop1 s : hp (pop1 s) = hp s. Proof. reflexivity. Qed.
Lemma sp_pop1 s : sp (pop1 s) = sp s - 1. Proof. reflexivity. Qed.

Ltac reduce_len :=
  cbn [len length N.of_nat Pos.of_succ_nat Pos.succ rev app] in *.

(* enter the body of a builtin called on the listed arguments *)
Ltac enter Hok s1 :=
  let Hrun := fresh "Hrun" in
  match goal with
  | |- context [run_builtin ?f ?args ?s] =>
      destruct (call_enter f args s Hok) as (s1 & Hrun & ?Htop & ?Hst1 & ?Hhp1 & ?Hsp1);
      rewrite Hrun; clear Hrun; reduce_len
  end.

(* resolve the str_get at the head of the goal, knowing the string in the initial state *)
Ltac get_str sid t :=
  match goal with
  | |- context [bindM (str_get sid) ?k ?s0] =>
      let H := fresh "Hget" in
      assert (H : str_get sid s0 = ROk t s0) by (apply str_get_ok; rewrite ?st_pop1; congruence);
      rewrite (bindM_ok _ _ _ _ _ H); clear H
  end.

Ltac enter_raw Hok s1 :=
  let Hrun := fresh "Hrun" in
  match goal with
  | |- context [run_builtin ?f ?args ?s] =>
      destruct (call_enter f args s Hok) as (s1 & Hrun & ?Htop & ?Hst1 & ?Hhp1 & ?Hsp1);
      rewrite Hrun; clear Hrun
  end.

Ltac close_fail :=
  do 3 eexists; split; [reflexivity|]; rewrite ?st_pop1, ?hp_pop1; split; congruence.

Ltac close_ret :=
  eexists; split; [reflexivity|];
  rewrite ?st_pop1, ?hp_pop1, ?sp_pop1; repeat split; try congruence; try lia.

(* string-ref *)
Theorem string_ref_refines s sid t iv :
  stack_ok s -> tget (strs (st s)) sid = Some t -> imm iv ->
  let r := run_builtin string_ref [VStr sid; iv] s in
  match as_index iv with
  | Some i =>
      match spec_ref t i with
      | Some c => returns r s (VChar c) (st s)
      | None => fails r s
      end
  | None => fails r s
  end.
Proof.
  intros Hok Hs Hi r. subst r. enter Hok s1. unfold string_ref.
  destruct (pop_argc_ok _ _ _ 2 (Some 2) Htop) as [E1 T1]; [lia | intros m [= <-]; lia |].
  rewrite (bindM_ok _ _ _ _ _ E1).
  destruct (pop_index_top _ _ _ T1 Hi) as [E2 T2].
  destruct (as_index iv) as [i|]; cbn [opt_res] in E2.
  2:{ rewrite (bindM_err _ _ _ _ _ _ E2). close_fail. }
  rewrite (bindM_ok _ _ _ _ _ E2).
  destruct (pop_string_top _ _ _ T2 I) as [E3 T3]. cbn [as_string opt_res] in E3.
  rewrite (bindM_ok _ _ _ _ _ E3).
  get_str sid t.
  rewrite string_ref_core_spec.
  destruct (spec_ref t i) as [c|]; cbn [lift bindM ret].
  - close_ret.
  - close_fail.
Qed.

(* --------------------------------------------------------- store lemmas *)
Lemma st_with_store s x : st (with_store s x) = x. Proof. reflexivity. Qed.
Lemma hp_with_store s x : hp (with_store s x) = hp s. Proof. reflexivity. Qed.
Lemma sp_with_store s x : sp (with_store s x) = sp s. Proof. reflexivity. Qed.

Lemma str_new_run t s0 :
  str_new t s0 = ROk (VStr (next_id (st s0))) (with_store s0 (snd (new_str (st s0) t))).
Proof. reflexivity. Qed.
Lemma vec_new_run l s0 :
  vec_new l s0 = ROk (VVec (next_id (st s0))) (with_store s0 (snd (new_vec (st s0) l))).
Proof. reflexivity. Qed.
Lemma str_set_run sid t s0 : str_set sid t s0 = ROk tt (with_store s0 (set_str (st s0) sid t)).
Proof. reflexivity. Qed.

(* a fresh string: its id is new, it holds the text, no other string changes *)
Lemma new_str_strs x t j :
  tget (strs (snd (new_str x t))) j = if j =? next_id x then Some t else tget (strs x) j.
Proof.
  cbn [new_str snd strs]. destruct (N.eqb_spec j (next_id x)) as [->|H].
  - apply tget_tset_same.
  - apply tget_tset_other. congruence.
Qed.
(* a mutated string: exactly that string changes *)
Lemma set_str_strs x i t j :
  tget (strs (set_str x i t)) j = if j =? i then Some t else tget (strs x) j.
Proof.
  cbn [set_str strs]. destruct (N.eqb_spec j i) as [->|H].
  - apply tget_tset_same.
  - apply tget_tset_other. congruence.
Qed.

Ltac norm_state :=
  rewrite ?st_with_store, ?hp_with_store, ?sp_with_store, ?st_pop1, ?hp_pop1, ?sp_pop1.

Ltac finish_ret :=
  eexists; split; [reflexivity|]; norm_state; repeat split; try congruence; try lia.
Ltac finish_fail :=
  do 3 eexists; split; [reflexivity|]; norm_state; split; congruence.

(* pop the argc pushed by [enter] *)
Ltac pop_argc_ mn mx :=
  match goal with
  | Ht : top_is ?s0 (VArgc ?n :: ?vs) |- _ =>
      let E := fresh "E" in let T := fresh "T" in
      destruct (pop_argc_ok s0 n vs mn mx Ht) as [E T];
      [ lia | first [ intros ? [= <-]; lia | intros ? [=] ] | ];
      rewrite (bindM_ok _ _ _ _ _ E); clear E Ht
  end.
(* pop one argument with the given popper lemma; leaves [opt_res (as_.. v) ..] to analyse *)
Ltac pop_with lem E :=
  match goal with
  | Ht : top_is ?s0 (?v :: ?vs) |- _ =>
      let T := fresh "T" in
      destruct (lem s0 v vs Ht ltac:(first [exact I | assumption])) as [E T]; clear Ht
  end.
Ltac use_ok E := rewrite (bindM_ok _ _ _ _ _ E); clear E.
Ltac use_err E := rewrite (bindM_err _ _ _ _ _ _ E); clear E.

(* string-length *)
Theorem string_length_refines s sid t :
  stack_ok s -> tget (strs (st s)) sid = Some t ->
  returns (run_builtin string_length [VStr sid] s) s (VNum (num_of_usize (len t))) (st s).
Proof.
  intros Hok Hs. enter Hok s1. unfold string_length.
  pop_argc_ 1 (Some 1).
  pop_with pop_string_top E. cbn [as_string opt_res] in E. use_ok E.
  get_str sid t. unfold ret, char_count. finish_ret.
Qed.

(* string-set! *)
Theorem string_set_refines s sid t iv c :
  stack_ok s -> tget (strs (st s)) sid = Some t -> imm iv ->
  let r := run_builtin string_set [VStr sid; iv; VChar c] s in
  match as_index iv with
  | Some i =>
      if i <? len t then returns r s VVoid (set_str (st s) sid (spec_set t i c)) else fails r s
  | None => fails r s
  end.
Proof.
  intros Hok Hs Hi r. subst r. enter Hok s1. unfold string_set.
  pop_argc_ 3 (Some 3).
  pop_with pop_char_top E. cbn [as_char opt_res] in E. use_ok E.
  pop_with pop_index_top E.
  destruct (as_index iv) as [i|]; cbn [opt_res] in E; [use_ok E | use_err E; finish_fail].
  pop_with pop_string_top E. cbn [as_string opt_res] in E. use_ok E.
  get_str sid t. rewrite string_set_core_spec.
  destruct (i <? len t); cbn [lift bindM].
  - rewrite (bindM_ok _ _ _ _ _ (str_set_run _ _ _)). unfold ret. norm_state. rewrite Hst1. finish_ret.
  - finish_fail.
Qed.

(* the optional start / end arguments as they are passed *)
Definition range_args (a b : option vcell) : list vcell :=
  match a, b with
  | Some x, Some y => [x; y]
  | Some x, None => [x]
  | None, _ => []
  end.
Definition range_end_arg (a b : option vcell) : option vcell :=
  match a with Some _ => b | None => None end.
(* decoded: None = some index argument is not an index *)
Definition range_decode (a b : option vcell) : option (option N * option N) :=
  match a, range_end_arg a b with
  | None, _ => Some (None, None)
  | Some x, None => match as_index x with Some i => Some (Some i, None) | None => None end
  | Some x, Some y =>
      match as_index x, as_index y with
      | Some i, Some j => Some (Some i, Some j)
      | _, _ => None
      end
  end.
Definition opt_imm (a : option vcell) : Prop := match a with Some v => imm v | None => True end.

Lemma range_decode_args_ok a b se : range_decode a b = Some se -> args_ok (fst se) (snd se).
Proof.
  unfold range_decode, range_end_arg, args_ok. destruct a as [x|].
  - destruct b as [y|].
    + destruct (as_index x), (as_index y); intros [= <-]; cbn; congruence.
    + destruct (as_index x); intros [= <-]; cbn; congruence.
  - intros [= <-]. reflexivity.
Qed.

Lemma opt_pop_index_true_top s v vs :
  top_is s (v :: vs) -> imm v ->
  opt_pop_index true s = opt_res (option_map Some (as_index v)) (pop1 s) /\ top_is (pop1 s) vs.
Proof.
  intros H Hi. destruct (pop_index_top _ _ _ H Hi) as [E T]. split; [|exact T].
  cbn [opt_pop_index]. destruct (as_index v); cbn [opt_res option_map] in *.
  - now rewrite (bindM_ok _ _ _ _ _ E).
  - now rewrite (bindM_err _ _ _ _ _ _ E).
Qed.
Lemma opt_pop_index_false s : opt_pop_index false s = ROk None s.
Proof. reflexivity. Qed.

(* string-copy (one to three arguments) *)
Theorem string_copy_refines s sid t a b :
  stack_ok s -> tget (strs (st s)) sid = Some t -> opt_imm a -> opt_imm b ->
  let r := run_builtin string_copy (VStr sid :: range_args a b) s in
  match range_decode a b with
  | Some (start, end_) =>
      if range_ok t start end_
      then returns r s (VStr (next_id (st s)))
             (snd (new_str (st s) (spec_sub t (range_start start) (range_end t end_))))
      else fails r s
  | None => fails r s
  end.
Proof.
  intros Hok Hs Ha Hb r. subst r.
  destruct (range_decode a b) as [[start end_]|] eqn:Hd.
  - pose proof (range_decode_args_ok _ _ _ Hd) as Hargs. cbn [fst snd] in Hargs.
    pose proof (substring_core_spec t start end_ Hargs) as Hcore.
    unfold range_decode, range_end_arg in Hd.
    destruct a as [x|]; [destruct b as [y|]|]; cbn [range_args opt_imm] in *.
    + destruct (as_index x) as [i|] eqn:Hx; [|discriminate].
      destruct (as_index y) as [j|] eqn:Hy; [|discriminate]. injection Hd as <- <-.
      enter Hok s1. unfold string_copy. pop_argc_ 1 (Some 3).
      cbn [N.eqb Pos.eqb orb].
      pop_with opt_pop_index_true_top E. rewrite Hy in E. cbn [opt_res option_map] in E. use_ok E.
      pop_with opt_pop_index_true_top E. rewrite Hx in E. cbn [opt_res option_map] in E. use_ok E.
      pop_with pop_string_top E. cbn [as_string opt_res] in E. use_ok E.
      get_str sid t. rewrite Hcore.
      destruct (range_ok t (Some i) (Some j)); cbn [lift bindM].
      * rewrite str_new_run. norm_state. rewrite Hst1. finish_ret.
      * finish_fail.
    + destruct (as_index x) as [i|] eqn:Hx; [|discriminate]. injection Hd as <- <-.
      enter Hok s1. unfold string_copy. pop_argc_ 1 (Some 3).
      cbn [N.eqb Pos.eqb orb].
      rewrite (bindM_ok _ _ _ _ _ (opt_pop_index_false _)).
      pop_with opt_pop_index_true_top E. rewrite Hx in E. cbn [opt_res option_map] in E. use_ok E.
      pop_with pop_string_top E. cbn [as_string opt_res] in E. use_ok E.
      get_str sid t. rewrite Hcore.
      destruct (range_ok t (Some i) None); cbn [lift bindM].
      * rewrite str_new_run. norm_state. rewrite Hst1. finish_ret.
      * finish_fail.
    + injection Hd as <- <-.
      enter Hok s1. unfold string_copy. pop_argc_ 1 (Some 3).
      cbn [N.eqb Pos.eqb orb].
      rewrite (bindM_ok _ _ _ _ _ (opt_pop_index_false _)).
      rewrite (bindM_ok _ _ _ _ _ (opt_pop_index_false _)).
      pop_with pop_string_top E. cbn [as_string opt_res] in E. use_ok E.
      get_str sid t. rewrite Hcore.
      destruct (range_ok t None None); cbn [lift bindM].
      * rewrite str_new_run. norm_state. rewrite Hst1. finish_ret.
      * finish_fail.
  - unfold range_decode, range_end_arg in Hd.
    destruct a as [x|]; [destruct b as [y|]|]; cbn [range_args opt_imm] in *; [| |discriminate].
    + enter Hok s1. unfold string_copy. pop_argc_ 1 (Some 3).
      cbn [N.eqb Pos.eqb orb].
      pop_with opt_pop_index_true_top E.
      destruct (as_index y) as [j|] eqn:Hy; cbn [opt_res option_map] in E.
      2:{ use_err E. finish_fail. }
      use_ok E.
      pop_with opt_pop_index_true_top E.
      destruct (as_index x) as [i|] eqn:Hx; [discriminate|]. cbn [opt_res option_map] in E.
      use_err E. finish_fail.
    + enter Hok s1. unfold string_copy. pop_argc_ 1 (Some 3).
      cbn [N.eqb Pos.eqb orb].
      rewrite (bindM_ok _ _ _ _ _ (opt_pop_index_false _)).
      pop_with opt_pop_index_true_top E.
      destruct (as_index x) as [i|] eqn:Hx; [discriminate|]. cbn [opt_res option_map] in E.
      use_err E. finish_fail.
Qed.

(* the common prefix of string-copy / string->list / string-fill!: the end index is
   popped first, then the start index *)
Definition is_some {A} (o : option A) : bool := match o with Some _ => true | None => false end.

Lemma pop_range {A} (k : option N -> option N -> M A) s0 a b rest :
  top_is s0 (rev (range_args a b) ++ rest) -> opt_imm a -> opt_imm b ->
  exists s2, st s2 = st s0 /\ hp s2 = hp s0 /\
    match range_decode a b with
    | Some (start, end_) =>
        (dom e <- opt_pop_index (is_some (range_end_arg a b));
         dom st <- opt_pop_index (is_some a); k st e) s0 = k start end_ s2
        /\ top_is s2 rest /\ sp s2 = sp s0 - len (range_args a b)
    | None =>
        (dom e <- opt_pop_index (is_some (range_end_arg a b));
         dom st <- opt_pop_index (is_some a); k st e) s0 = RErr E_OTHER [] s2
    end.
Proof.
  intros Ht Ha Hb. unfold range_decode.
  destruct a as [x|]; [destruct b as [y|]|]; cbn [range_args range_end_arg is_some rev app opt_imm] in *.
  - destruct (opt_pop_index_true_top _ _ _ Ht Hb) as [E1 T1].
    destruct (opt_pop_index_true_top _ _ _ T1 Ha) as [E2 T2].
    destruct (as_index y) as [j|]; cbn [opt_res option_map] in E1.
    + rewrite (bindM_ok _ _ _ _ _ E1).
      destruct (as_index x) as [i|]; cbn [opt_res option_map] in E2.
      * exists (pop1 (pop1 s0)). rewrite (bindM_ok _ _ _ _ _ E2).
        split; [reflexivity|]. split; [reflexivity|]. split; [reflexivity|]. split; [exact T2|].
        rewrite !sp_pop1. reduce_len. lia.
      * exists (pop1 (pop1 s0)). rewrite (bindM_err _ _ _ _ _ _ E2).
        split; [reflexivity|]. split; reflexivity.
    + exists (pop1 s0). rewrite (bindM_err _ _ _ _ _ _ E1).
      split; [reflexivity|]. split; [reflexivity|]. now destruct (as_index x).
  - destruct (opt_pop_index_true_top _ _ _ Ht Ha) as [E2 T2].
    rewrite (bindM_ok _ _ _ _ _ (opt_pop_index_false _)).
    destruct (as_index x) as [i|]; cbn [opt_res option_map] in E2.
    + exists (pop1 s0). rewrite (bindM_ok _ _ _ _ _ E2).
      split; [reflexivity|]. split; [reflexivity|]. split; [reflexivity|]. split; [exact T2|].
      rewrite !sp_pop1. reduce_len. lia.
    + exists (pop1 s0). rewrite (bindM_err _ _ _ _ _ _ E2).
      split; [reflexivity|]. split; reflexivity.
  - exists s0. rewrite (bindM_ok _ _ _ _ _ (opt_pop_index_false _)).
    rewrite (bindM_ok _ _ _ _ _ (opt_pop_index_false _)).
    split; [reflexivity|]. split; [reflexivity|]. split; [reflexivity|]. split; [exact Ht|].
    reduce_len. lia.
Qed.

Lemma range_args_len a b : len (range_args a b) <= 2.
Proof. destruct a, b; unfold len; cbn; lia. Qed.

Lemma range_flag_end k a b :
  (k + len (range_args a b) =? k + 2) = is_some (range_end_arg a b).
Proof.
  destruct a, b; cbn [range_args range_end_arg is_some]; unfold len; cbn [length N.of_nat Pos.of_succ_nat Pos.succ];
    [apply N.eqb_refl | apply N.eqb_neq; lia | apply N.eqb_neq; lia | apply N.eqb_neq; lia].
Qed.
Lemma range_flag_start k a b :
  ((k + len (range_args a b) =? k + 1) || (k + len (range_args a b) =? k + 2)) = is_some a.
Proof.
  destruct a, b; cbn [range_args is_some]; unfold len; cbn [length N.of_nat Pos.of_succ_nat Pos.succ].
  - replace (k + 2 =? k + 1) with false by (symmetry; apply N.eqb_neq; lia). now rewrite N.eqb_refl.
  - now rewrite N.eqb_refl.
  - replace (k + 0 =? k + 1) with false by (symmetry; apply N.eqb_neq; lia).
    now replace (k + 0 =? k + 2) with false by (symmetry; apply N.eqb_neq; lia).
  - replace (k + 0 =? k + 1) with false by (symmetry; apply N.eqb_neq; lia).
    now replace (k + 0 =? k + 2) with false by (symmetry; apply N.eqb_neq; lia).
Qed.

(* apply pop_range to the two optional pops at the head of the goal *)
Ltac pop_range_ a b rest :=
  match goal with
  | Ht : top_is ?s0 _
    |- context [bindM (opt_pop_index _) (fun e => bindM (opt_pop_index _) (fun st => @?k st e)) ?s0] =>
      let s2 := fresh "s2" in
      destruct (pop_range k s0 a b rest Ht ltac:(assumption) ltac:(assumption))
        as (s2 & ?Hst2 & ?Hhp2 & ?Hm); clear Ht
  end.

(* string-fill! (two to four arguments) *)
Theorem string_fill_refines s sid t c a b :
  stack_ok s -> tget (strs (st s)) sid = Some t -> opt_imm a -> opt_imm b ->
  let r := run_builtin string_fill (VStr sid :: VChar c :: range_args a b) s in
  match range_decode a b with
  | Some (start, end_) =>
      if range_ok t start end_
      then returns r s VVoid
             (set_str (st s) sid (spec_fill t (range_start start) (range_end t end_) c))
      else fails r s
  | None => fails r s
  end.
Proof.
  intros Hok Hs Ha Hb r. subst r.
  pose proof (range_args_len a b) as Hl.
  (* the pops up to and including start / end, common to the three outcomes *)
  assert (Hpre : exists s2, st s2 = st s /\ hp s2 = hp s /\
     match range_decode a b with
     | Some (start, end_) =>
         run_builtin string_fill (VStr sid :: VChar c :: range_args a b) s =
         (dom c <- pop_char; dom sid <- pop_string; dom t <- str_get sid;
          dom t' <- lift (string_fill_core t start end_ c);
          dom _ <- str_set sid t'; ret VVoid) s2
         /\ top_is s2 [VChar c; VStr sid] /\ sp s2 = sp s + 2
     | None => run_builtin string_fill (VStr sid :: VChar c :: range_args a b) s = RErr E_OTHER [] s2
     end).
  { enter_raw Hok s1.
    replace (len (VStr sid :: VChar c :: range_args a b)) with (2 + len (range_args a b)) in *
      by (rewrite !len_length; cbn [length]; lia).
    cbn [rev] in Htop. rewrite <- !app_assoc in Htop. cbn [app] in Htop.
    unfold string_fill. pop_argc_ 2 (Some 4).
    rewrite (range_flag_start 2 a b :
      ((2 + len (range_args a b) =? 3) || (2 + len (range_args a b) =? 4)) = is_some a).
    rewrite (range_flag_end 2 a b : (2 + len (range_args a b) =? 4) = is_some (range_end_arg a b)).
    pop_range_ a b [VChar c; VStr sid]. rewrite st_pop1 in Hst2. rewrite hp_pop1 in Hhp2.
    exists s2. split; [congruence|]. split; [congruence|].
    destruct (range_decode a b) as [[start end_]|].
    - destruct Hm as (Hm & T2 & Hsp2). split; [exact Hm|]. split; [exact T2|].
      rewrite sp_pop1 in Hsp2. lia.
    - exact Hm. }
  destruct Hpre as (s2 & Hst2 & Hhp2 & Hm).
  destruct (range_decode a b) as [[start end_]|] eqn:Hd.
  - destruct Hm as (Hm & T2 & Hsp2). rewrite Hm.
    pose proof (range_decode_args_ok _ _ _ Hd) as Hargs. cbn [fst snd] in Hargs.
    pop_with pop_char_top E. cbn [as_char opt_res] in E. use_ok E.
    pop_with pop_string_top E. cbn [as_string opt_res] in E. use_ok E.
    assert (Hg : str_get sid (pop1 (pop1 s2)) = ROk t (pop1 (pop1 s2)))
      by (apply str_get_ok; rewrite !st_pop1; congruence).
    rewrite (bindM_ok _ _ _ _ _ Hg).
    rewrite (string_fill_core_spec t start end_ c Hargs).
    destruct (range_ok t start end_); cbn [lift bindM].
    + rewrite (bindM_ok _ _ _ _ _ (str_set_run _ _ _)). unfold ret. norm_state.
      rewrite Hst2. eexists. split; [reflexivity|]. norm_state.
      repeat split; try congruence. lia.
    + do 3 eexists. split; [reflexivity|]. norm_state. split; congruence.
  - rewrite Hm. do 3 eexists. split; [reflexivity|]. split; congruence.
Qed.

(* string->list: the selected characters are handed, last first, to the heap list
   builder, on a machine that differs from the caller's only above the stack pointer *)
Theorem string_list_refines s sid t a b :
  stack_ok s -> tget (strs (st s)) sid = Some t -> opt_imm a -> opt_imm b ->
  let r := run_builtin string_list (VStr sid :: range_args a b) s in
  match range_decode a b with
  | Some (start, end_) =>
      if range_ok t start end_
      then exists s2, st s2 = st s /\ hp s2 = hp s /\ sp s2 = sp s /\
             r = (dom nl <- hput VNil;
                  chars_to_list (rev (spec_sub t (range_start start) (range_end t end_))) nl) s2
      else fails r s
  | None => fails r s
  end.
Proof.
  intros Hok Hs Ha Hb r. subst r.
  pose proof (range_args_len a b) as Hl.
  assert (Hpre : exists s2, st s2 = st s /\ hp s2 = hp s /\
     match range_decode a b with
     | Some (start, end_) =>
         run_builtin string_list (VStr sid :: range_args a b) s =
         (dom sid <- pop_string; dom t <- str_get sid;
          dom sub <- lift (substring_core t start end_);
          dom nl <- hput VNil; chars_to_list (rev sub) nl) s2
         /\ top_is s2 [VStr sid] /\ sp s2 = sp s + 1
     | None => run_builtin string_list (VStr sid :: range_args a b) s = RErr E_OTHER [] s2
     end).
  { enter_raw Hok s1.
    replace (len (VStr sid :: range_args a b)) with (1 + len (range_args a b)) in *
      by (rewrite !len_length; cbn [length]; lia).
    cbn [rev] in Htop. rewrite <- ?app_assoc in Htop. cbn [app] in Htop.
    unfold string_list. pop_argc_ 1 (Some 3).
    rewrite (range_flag_start 1 a b :
      ((1 + len (range_args a b) =? 2) || (1 + len (range_args a b) =? 3)) = is_some a).
    rewrite (range_flag_end 1 a b : (1 + len (range_args a b) =? 3) = is_some (range_end_arg a b)).
    pop_range_ a b [VStr sid]. rewrite st_pop1 in Hst2. rewrite hp_pop1 in Hhp2.
    exists s2. split; [congruence|]. split; [congruence|].
    destruct (range_decode a b) as [[start end_]|].
    - destruct Hm as (Hm & T2 & Hsp2). split; [exact Hm|]. split; [exact T2|].
      rewrite sp_pop1 in Hsp2. lia.
    - exact Hm. }
  destruct Hpre as (s2 & Hst2 & Hhp2 & Hm).
  destruct (range_decode a b) as [[start end_]|] eqn:Hd.
  - destruct Hm as (Hm & T2 & Hsp2). rewrite Hm.
    pose proof (range_decode_args_ok _ _ _ Hd) as Hargs. cbn [fst snd] in Hargs.
    pop_with pop_string_top E. cbn [as_string opt_res] in E. use_ok E.
    assert (Hg : str_get sid (pop1 s2) = ROk t (pop1 s2))
      by (apply str_get_ok; rewrite !st_pop1; congruence).
    rewrite (bindM_ok _ _ _ _ _ Hg).
    rewrite (substring_core_spec t start end_ Hargs).
    destruct (range_ok t start end_); cbn [lift].
    + exists (pop1 s2). norm_state. split; [congruence|]. split; [congruence|]. split; [lia|].
      reflexivity.
    + do 3 eexists. split; [reflexivity|]. norm_state. split; congruence.
  - rewrite Hm. do 3 eexists. split; [reflexivity|]. split; congruence.
Qed.

(* ----------------------------------------------------- one-argument builtins *)
Lemma one_char_arg (k : cp -> M vcell) s c :
  stack_ok s ->
  exists s2, st s2 = st s /\ hp s2 = hp s /\ sp s2 = sp s /\
    run_builtin (dom _ <- pop_argc 1 (Some 1); dom c <- pop_char; k c) [VChar c] s = k c s2.
Proof.
  intro Hok. enter Hok s1. pop_argc_ 1 (Some 1).
  pop_with pop_char_top E. cbn [as_char opt_res] in E. use_ok E.
  exists (pop1 (pop1 s1)). norm_state. repeat split; try congruence. lia.
Qed.

Lemma one_string_arg (k : text -> M vcell) s sid t :
  stack_ok s -> tget (strs (st s)) sid = Some t ->
  exists s2, st s2 = st s /\ hp s2 = hp s /\ sp s2 = sp s /\
    run_builtin (dom _ <- pop_argc 1 (Some 1); dom sid <- pop_string; dom t <- str_get sid; k t)
      [VStr sid] s = k t s2.
Proof.
  intros Hok Hs. enter Hok s1. pop_argc_ 1 (Some 1).
  pop_with pop_string_top E. cbn [as_string opt_res] in E. use_ok E.
  get_str sid t.
  exists (pop1 (pop1 s1)). norm_state. repeat split; try congruence. lia.
Qed.

Theorem char_pred_refines p s c :
  stack_ok s -> returns (run_builtin (char_pred p) [VChar c] s) s (VBool (p c)) (st s).
Proof.
  intro Hok. destruct (one_char_arg (fun c => ret (VBool (p c))) s c Hok) as (s2 & H1 & H2 & H3 & E).
  unfold char_pred. rewrite E. unfold ret. exists s2. auto.
Qed.

Theorem char_map_refines f s c :
  stack_ok s -> returns (run_builtin (char_map f) [VChar c] s) s (VChar (f c)) (st s).
Proof.
  intro Hok. destruct (one_char_arg (fun c => ret (VChar (f c))) s c Hok) as (s2 & H1 & H2 & H3 & E).
  unfold char_map. rewrite E. unfold ret. exists s2. auto.
Qed.

Theorem char_to_integer_refines s c :
  stack_ok s -> returns (run_builtin char_to_integer [VChar c] s) s (VNum (Fixnum (Z.of_N c))) (st s).
Proof.
  intro Hok.
  destruct (one_char_arg (fun c => ret (VNum (Fixnum (Z.of_N c)))) s c Hok) as (s2 & H1 & H2 & H3 & E).
  unfold char_to_integer. rewrite E. unfold ret. exists s2. auto.
Qed.

Theorem digit_value_refines s c :
  stack_ok s ->
  returns (run_builtin digit_value [VChar c] s) s
    (if is_digit c then VNum (Fixnum (Z.of_N (c - 48))) else VBool false) (st s).
Proof.
  intro Hok.
  destruct (one_char_arg (fun c => if negb (is_digit c) then ret (VBool false)
                                   else ret (VNum (Fixnum (Z.of_N (c - 48))))) s c Hok)
    as (s2 & H1 & H2 & H3 & E).
  unfold digit_value. rewrite E. exists s2. destruct (is_digit c); cbn [negb]; unfold ret; auto.
Qed.

Definition as_integer (v : vcell) : option num :=
  match v with VNum n => if num_is_integer n then Some n else None | _ => None end.

Lemma pop_integer_top s v vs :
  top_is s (v :: vs) -> imm v ->
  pop_integer s = opt_res (as_integer v) (pop1 s) /\ top_is (pop1 s) vs.
Proof.
  intros H Hi. destruct (pop_number_top _ _ _ H Hi) as [E T]. split; [|exact T].
  unfold pop_integer. destruct v; cbn [as_number as_integer opt_res] in *;
    try (now rewrite (bindM_err _ _ _ _ _ _ E)).
  rewrite (bindM_ok _ _ _ _ _ E). now destruct (num_is_integer n).
Qed.

(* integer->char: a character exactly for the scalar values *)
Theorem integer_to_char_refines s n :
  stack_ok s ->
  let r := run_builtin integer_to_char [VNum n] s in
  match (if num_is_integer n then num_to_u32 n else None) with
  | Some u => if is_scalar u then returns r s (VChar u) (st s) else fails r s
  | None => fails r s
  end.
Proof.
  intros Hok r. subst r. enter Hok s1. unfold integer_to_char. pop_argc_ 1 (Some 1).
  pop_with pop_integer_top E. cbn [as_integer] in E.
  destruct (num_is_integer n); cbn [opt_res] in E.
  - use_ok E.
    destruct (num_to_u32 n) as [u|]; [destruct (is_scalar u)|]; unfold ret, fail.
    + finish_ret.
    + finish_fail.
    + finish_fail.
  - use_err E. finish_fail.
Qed.

Lemma is_scalar_spec u : is_scalar u = true <-> (u < 0xD800 \/ (0xDFFF < u /\ u < 0x110000)).
Proof.
  unfold is_scalar. rewrite orb_true_iff, andb_true_iff, !N.ltb_lt. reflexivity.
Qed.

(* for an exact integer argument: an error exactly below 0, on the surrogates and
   above 0x10FFFF *)
Corollary integer_to_char_fixnum s z :
  stack_ok s ->
  let r := run_builtin integer_to_char [VNum (Fixnum z)] s in
  if ((0 <=? z) && (z <? 0xD800) || (0xDFFF <? z) && (z <? 0x110000))%Z
  then returns r s (VChar (Z.to_N z)) (st s) else fails r s.
Proof.
  intros Hok r. subst r. pose proof (integer_to_char_refines s (Fixnum z) Hok) as H.
  cbn [num_is_integer num_to_u32] in H. unfold U32_MAX in H.
  destruct (Z.leb_spec 0 z) as [H0|H0]; cbn [andb orb].
  - destruct (Z.leb_spec z 4294967295) as [H1|H1]; cbn [andb] in H.
    + destruct (is_scalar (Z.to_N z)) eqn:Hs.
      * apply is_scalar_spec in Hs.
        replace ((z <? 55296) || (57343 <? z) && (z <? 1114112))%Z with true; [exact H|].
        symmetry. apply orb_true_iff. rewrite andb_true_iff, !Z.ltb_lt. lia.
      * replace ((z <? 55296) || (57343 <? z) && (z <? 1114112))%Z with false; [exact H|].
        symmetry. apply orb_false_iff. rewrite andb_false_iff, !Z.ltb_ge.
        assert (Hn : ~ (Z.to_N z < 55296 \/ 57343 < Z.to_N z /\ Z.to_N z < 1114112))
          by (rewrite <- is_scalar_spec; congruence).
        lia.
    + replace ((z <? 55296) || (57343 <? z) && (z <? 1114112))%Z with false; [exact H|].
      symmetry. apply orb_false_iff. rewrite andb_false_iff, !Z.ltb_ge. lia.
  - replace (0 <=? z)%Z with false in H by (symmetry; apply Z.leb_gt; lia). cbn [andb] in H.
    replace ((57343 <? z) && (z <? 1114112))%Z with false; [exact H|].
    symmetry. apply andb_false_iff. rewrite !Z.ltb_ge. lia.
Qed.

(* char->integer then integer->char is the identity on scalar values *)
Corollary integer_char_roundtrip s c :
  stack_ok s -> is_scalar c = true ->
  returns (run_builtin integer_to_char [VNum (Fixnum (Z.of_N c))] s) s (VChar c) (st s).
Proof.
  intros Hok Hs. pose proof (integer_to_char_fixnum s (Z.of_N c) Hok) as H.
  apply is_scalar_spec in Hs. rewrite N2Z.id in H.
  replace ((0 <=? Z.of_N c) && (Z.of_N c <? 55296) || (57343 <? Z.of_N c) && (Z.of_N c <? 1114112))%Z
    with true in H; [exact H|].
  symmetry. apply orb_true_iff. rewrite !andb_true_iff, Z.leb_le, !Z.ltb_lt. lia.
Qed.

(* case conversion of strings: a fresh string holding std's conversion of the text *)
Theorem string_case_refines (conv : text -> text) s sid t :
  stack_ok s -> tget (strs (st s)) sid = Some t ->
  returns (run_builtin (dom _ <- pop_argc 1 (Some 1); dom sid <- pop_string; dom t <- str_get sid;
                        str_new (conv t)) [VStr sid] s)
    s (VStr (next_id (st s))) (snd (new_str (st s) (conv t))).
Proof.
  intros Hok Hs.
  destruct (one_string_arg (fun t => str_new (conv t)) s sid t Hok Hs) as (s2 & H1 & H2 & H3 & E).
  rewrite E, str_new_run, H1. finish_ret.
Qed.

Theorem string_vector_refines s sid t :
  stack_ok s -> tget (strs (st s)) sid = Some t ->
  returns (run_builtin string_vector [VStr sid] s) s (VVec (next_id (st s)))
    (snd (new_vec (st s) (map VChar t))).
Proof.
  intros Hok Hs.
  destruct (one_string_arg (fun t => vec_new (map VChar t)) s sid t Hok Hs) as (s2 & H1 & H2 & H3 & E).
  unfold string_vector. rewrite E, vec_new_run, H1. finish_ret.
Qed.

(* ------------------------------------------------------- n-ary builtins *)
Fixpoint popn (n : nat) (s : vm) : vm := match n with O => s | S k => popn k (pop1 s) end.
Lemma st_popn n : forall s, st (popn n s) = st s.
Proof. induction n; intro s; cbn [popn]; [reflexivity|]. now rewrite IHn. Qed.
Lemma hp_popn n : forall s, hp (popn n s) = hp s.
Proof. induction n; intro s; cbn [popn]; [reflexivity|]. now rewrite IHn. Qed.
Lemma sp_popn n : forall s, sp (popn n s) = sp s - N.of_nat n.
Proof.
  induction n; intro s; cbn [popn]; [cbn; lia|]. rewrite IHn, sp_pop1. lia.
Qed.

(* all adjacent pairs of the argument list are related *)
Fixpoint chain {A} (r : A -> A -> bool) (l : list A) : bool :=
  match l with
  | x :: ((y :: _) as tl) => r x y && chain r tl
  | _ => true
  end.
(* the fold as the Rust loops run it: from the last argument backwards *)
Fixpoint chain_from {A} (comp : A -> A -> bool) (y : A) (l : list A) (res : bool) : bool :=
  match l with
  | [] => res
  | x :: l' => chain_from comp x l' (if comp x y then res else false)
  end.

Lemma chain_snoc {A} (r : A -> A -> bool) m x y :
  chain r (m ++ [x; y]) = chain r (m ++ [x]) && r x y.
Proof.
  induction m as [|a m IH].
  - cbn. now rewrite andb_true_r.
  - destruct m as [|b m].
    + cbn. now rewrite !andb_true_r.
    + change ((a :: b :: m) ++ [x; y]) with (a :: (b :: m) ++ [x; y]).
      change ((a :: b :: m) ++ [x]) with (a :: (b :: m) ++ [x]).
      cbn [chain app] in *. rewrite IH. now rewrite andb_assoc.
Qed.

Lemma chain_from_spec {A} (comp : A -> A -> bool) l : forall y res,
  chain_from comp y l res = res && chain comp (rev l ++ [y]).
Proof.
  induction l as [|x l IH]; intros y res; cbn [chain_from rev app].
  - cbn. now rewrite andb_true_r.
  - rewrite IH. rewrite <- app_assoc. cbn [app]. rewrite chain_snoc.
    destruct (comp x y), res; cbn; try reflexivity; now rewrite ?andb_true_r, ?andb_false_r.
Qed.

(* string *)
Lemma string_loop_spec l : forall acc s0 rest,
  top_is s0 (map VChar l ++ rest) ->
  string_loop (length l) acc s0 = ROk (rev l ++ acc) (popn (length l) s0)
  /\ top_is (popn (length l) s0) rest.
Proof.
  induction l as [|c l IH]; intros acc s0 rest Ht; cbn [map app length string_loop popn rev] in *.
  - split; [reflexivity|exact Ht].
  - destruct (pop_char_top _ _ _ Ht I) as [E T]. cbn [as_char opt_res] in E.
    rewrite (bindM_ok _ _ _ _ _ E). destruct (IH (c :: acc) _ _ T) as [E2 T2].
    rewrite E2, <- app_assoc. split; [reflexivity|exact T2].
Qed.

Theorem string_refines s cs :
  stack_ok s ->
  returns (run_builtin string_ (map VChar cs) s) s (VStr (next_id (st s))) (snd (new_str (st s) cs)).
Proof.
  intro Hok. enter_raw Hok s1. unfold string_.
  pop_argc_ 0 (@None N).
  rewrite len_length, Nat2N.id, map_length, <- (rev_length cs).
  rewrite <- map_rev in T. rewrite <- (app_nil_r (map VChar (rev cs))) in T.
  destruct (string_loop_spec _ [] _ _ T) as [E T2].
  rewrite (bindM_ok _ _ _ _ _ E). rewrite rev_involutive, app_nil_r, str_new_run.
  rewrite st_popn, st_pop1, Hst1.
  eexists. split; [reflexivity|]. norm_state. rewrite hp_popn, sp_popn, hp_pop1, sp_pop1.
  repeat split; try congruence. rewrite Hsp1, rev_length, len_length, map_length. lia.
Qed.

(* string-append *)
Definition lookup (s : vm) (sid : N) (t : text) : Prop := tget (strs (st s)) sid = Some t.

Lemma string_append_loop_spec s l : forall ts out s0 rest,
  Forall2 (lookup s) l ts -> st s0 = st s ->
  top_is s0 (map VStr l ++ rest) ->
  string_append_loop (length l) out s0 = ROk (concat (rev ts) ++ out) (popn (length l) s0)
  /\ top_is (popn (length l) s0) rest.
Proof.
  induction l as [|sid l IH]; intros ts out s0 rest HF Hst Ht; inversion HF; subst;
    cbn [map app length string_append_loop popn rev concat] in *.
  - split; [reflexivity|exact Ht].
  - destruct (pop_string_top _ _ _ Ht I) as [E T]. cbn [as_string opt_res] in E.
    rewrite (bindM_ok _ _ _ _ _ E).
    rewrite (bindM_ok _ _ _ _ _ (str_get_ok (pop1 s0) sid y ltac:(rewrite st_pop1, Hst; assumption))).
    destruct (IH l' (y ++ out) (pop1 s0) rest H3 ltac:(now rewrite st_pop1) T) as [E2 T2].
    rewrite E2. split; [|exact T2].
    rewrite concat_app. cbn [concat]. now rewrite app_nil_r, <- app_assoc.
Qed.

Lemma Forall2_snoc {A B} (R : A -> B -> Prop) l l' x y :
  Forall2 R l l' -> R x y -> Forall2 R (l ++ [x]) (l' ++ [y]).
Proof. induction 1; intro Hxy; cbn; constructor; auto. Qed.

Lemma Forall2_rev' {A B} (R : A -> B -> Prop) l l' :
  Forall2 R l l' -> Forall2 R (rev l) (rev l').
Proof. induction 1; cbn [rev]; [constructor|]. now apply Forall2_snoc. Qed.

Theorem string_append_refines s sids ts :
  stack_ok s -> Forall2 (lookup s) sids ts ->
  returns (run_builtin string_append (map VStr sids) s) s (VStr (next_id (st s)))
    (snd (new_str (st s) (concat ts))).
Proof.
  intros Hok HF. enter_raw Hok s1. unfold string_append.
  pop_argc_ 0 (@None N).
  rewrite len_length, Nat2N.id, map_length, <- (rev_length sids).
  rewrite <- map_rev in T. rewrite <- (app_nil_r (map VStr (rev sids))) in T.
  assert (HF' : Forall2 (lookup s) (rev sids) (rev ts)) by now apply Forall2_rev'.
  destruct (string_append_loop_spec s _ _ [] _ _ HF' ltac:(rewrite st_pop1; exact Hst1) T) as [E T2].
  rewrite (bindM_ok _ _ _ _ _ E). rewrite rev_involutive, app_nil_r, str_new_run.
  rewrite st_popn, st_pop1, Hst1.
  eexists. split; [reflexivity|]. norm_state. rewrite hp_popn, sp_popn, hp_pop1, sp_pop1.
  repeat split; try congruence. rewrite Hsp1, rev_length, len_length, map_length. lia.
Qed.

(* string comparison folds *)
Lemma string_comp_loop_spec comp s l : forall ts y ty res s0 rest,
  Forall2 (lookup s) l ts -> lookup s y ty -> st s0 = st s ->
  top_is s0 (map VStr l ++ rest) ->
  string_comp_loop comp (length l) y res s0 = ROk (chain_from comp ty ts res) (popn (length l) s0)
  /\ top_is (popn (length l) s0) rest.
Proof.
  induction l as [|x l IH]; intros ts y ty res s0 rest HF Hy Hst Ht; inversion HF; subst;
    cbn [map app length string_comp_loop popn chain_from] in *.
  - split; [reflexivity|exact Ht].
  - destruct (pop_string_top _ _ _ Ht I) as [E T]. cbn [as_string opt_res] in E.
    rewrite (bindM_ok _ _ _ _ _ E).
    rewrite (bindM_ok _ _ _ _ _ (str_get_ok (pop1 s0) y ty ltac:(rewrite st_pop1, Hst; assumption))).
    rewrite (bindM_ok _ _ _ _ _ (str_get_ok (pop1 s0) x y0 ltac:(rewrite st_pop1, Hst; assumption))).
    apply (IH l' x y0 _ (pop1 s0) rest H3 H1 ltac:(now rewrite st_pop1) T).
Qed.

Theorem string_comp_refines comp s sids ts :
  stack_ok s -> Forall2 (lookup s) sids ts -> sids <> [] ->
  returns (run_builtin (string_comp comp) (map VStr sids) s) s (VBool (chain comp ts)) (st s).
Proof.
  intros Hok HF Hne. enter_raw Hok s1. unfold string_comp.
  assert (Hlen : 1 <= len (map VStr sids)).
  { rewrite len_length, map_length. destruct sids; [congruence|cbn [length]; lia]. }
  pop_argc_ 1 (@None N).
  apply Forall2_rev' in HF. rewrite <- map_rev in T.
  destruct (rev sids) as [|y l] eqn:Hr.
  { apply (f_equal (@rev N)) in Hr. rewrite rev_involutive in Hr. cbn in Hr. congruence. }
  inversion HF as [|? ty ? tl Hy HF' E1 E2]; subst. cbn [map] in T.
  destruct (pop_string_top _ _ _ T I) as [E T2]. cbn [as_string opt_res] in E.
  rewrite (bindM_ok _ _ _ _ _ E).
  replace (N.to_nat (len (map VStr sids) - 1)) with (length l).
  2:{ rewrite len_length, map_length, <- (rev_length sids), Hr. cbn [length]. lia. }
  rewrite <- (app_nil_r (map VStr l)) in T2.
  destruct (string_comp_loop_spec comp s l tl y ty true (pop1 (pop1 s1)) [] HF' Hy Hst1 T2) as [E3 T3].
  rewrite (bindM_ok _ _ _ _ _ E3). unfold ret.
  rewrite chain_from_spec. cbn [andb].
  replace (rev tl ++ [ty]) with ts.
  2:{ rewrite <- (rev_involutive ts), <- E2. reflexivity. }
  eexists. split; [reflexivity|]. rewrite st_popn, hp_popn, sp_popn. norm_state.
  repeat split; try congruence.
  rewrite Hsp1, len_length, map_length, <- (rev_length sids), Hr. cbn [length]. lia.
Qed.

(* the orderings: every adjacent pair in lexicographic order of the scalar values *)
Corollary string_cmp_refines o s sids ts :
  stack_ok s -> Forall2 (lookup s) sids ts -> sids <> [] ->
  returns (run_builtin (string_cmp o) (map VStr sids) s) s
    (VBool (chain (fun x y => cmp_holds o (lex_cmp x y)) ts)) (st s).
Proof.
  intros Hok HF Hne. pose proof (string_comp_refines (str_comp o) s sids ts Hok HF Hne) as H.
  replace (chain (fun x y => cmp_holds o (lex_cmp x y)) ts) with (chain (str_comp o) ts); [exact H|].
  clear. induction ts as [|x [|y tl] IH]; cbn [chain] in *; try reflexivity.
  now rewrite IH, str_comp_spec.
Qed.

Corollary string_ci_cmp_refines o s sids ts :
  stack_ok s -> Forall2 (lookup s) sids ts -> sids <> [] ->
  returns (run_builtin (string_ci_cmp o) (map VStr sids) s) s
    (VBool (chain (fun x y => cmp_holds o (lex_cmp (str_to_lowercase x) (str_to_lowercase y))) ts)) (st s).
Proof.
  intros Hok HF Hne. pose proof (string_comp_refines (str_ci_comp o) s sids ts Hok HF Hne) as H.
  replace (chain (fun x y => cmp_holds o (lex_cmp (str_to_lowercase x) (str_to_lowercase y))) ts)
    with (chain (str_ci_comp o) ts); [exact H|].
  clear. induction ts as [|x [|y tl] IH]; cbn [chain] in *; try reflexivity.
  now rewrite IH, str_ci_comp_spec.
Qed.

(* character comparison folds *)
Lemma char_comp_loop_spec comp l : forall y res s0 rest,
  top_is s0 (map VChar l ++ rest) ->
  char_comp_loop comp (length l) y res s0 = ROk (chain_from comp y l res) (popn (length l) s0)
  /\ top_is (popn (length l) s0) rest.
Proof.
  induction l as [|x l IH]; intros y res s0 rest Ht;
    cbn [map app length char_comp_loop popn chain_from] in *.
  - split; [reflexivity|exact Ht].
  - destruct (pop_char_top _ _ _ Ht I) as [E T]. cbn [as_char opt_res] in E.
    rewrite (bindM_ok _ _ _ _ _ E). apply (IH x _ (pop1 s0) rest T).
Qed.

Theorem char_comp_refines comp s cs :
  stack_ok s -> cs <> [] ->
  returns (run_builtin (char_comp comp) (map VChar cs) s) s (VBool (chain comp cs)) (st s).
Proof.
  intros Hok Hne. enter_raw Hok s1. unfold char_comp.
  assert (Hlen : 1 <= len (map VChar cs)).
  { rewrite len_length, map_length. destruct cs; [congruence|cbn [length]; lia]. }
  pop_argc_ 1 (@None N).
  rewrite <- map_rev in T.
  destruct (rev cs) as [|y l] eqn:Hr.
  { exfalso. apply Hne. rewrite <- (rev_involutive cs), Hr. reflexivity. }
  cbn [map] in T.
  destruct (pop_char_top _ _ _ T I) as [E T2]. cbn [as_char opt_res] in E.
  rewrite (bindM_ok _ _ _ _ _ E).
  replace (N.to_nat (len (map VChar cs) - 1)) with (length l).
  2:{ rewrite len_length, map_length, <- (rev_length cs), Hr. cbn [length]. lia. }
  rewrite <- (app_nil_r (map VChar l)) in T2.
  destruct (char_comp_loop_spec comp l y true _ [] T2) as [E3 T3].
  rewrite (bindM_ok _ _ _ _ _ E3). unfold ret.
  rewrite chain_from_spec. cbn [andb].
  replace (rev l ++ [y]) with cs.
  2:{ rewrite <- (rev_involutive cs), Hr. reflexivity. }
  eexists. split; [reflexivity|]. rewrite st_popn, hp_popn, sp_popn. norm_state.
  repeat split; try congruence.
  rewrite Hsp1, len_length, map_length, <- (rev_length cs), Hr. cbn [length]. lia.
Qed.

(* make-string *)
Definition as_usize (v : vcell) : option N :=
  match v with
  | VNum n => if num_is_integer n && num_ge_zero n then num_to_usize n else None
  | _ => None
  end.

Lemma pop_usize_top s v vs :
  top_is s (v :: vs) -> imm v ->
  pop_usize s = opt_res (as_usize v) (pop1 s) /\ top_is (pop1 s) vs.
Proof.
  intros H Hi. destruct (pop_number_top _ _ _ H Hi) as [E T]. split; [|exact T].
  unfold pop_usize. destruct v; cbn [as_number as_usize opt_res] in *;
    try (now rewrite (bindM_err _ _ _ _ _ _ E)).
  rewrite (bindM_ok _ _ _ _ _ E).
  destruct (num_is_integer n && num_ge_zero n); [|reflexivity].
  now destruct (num_to_usize n).
Qed.

Lemma as_usize_fixnum z :
  as_usize (VNum (Fixnum z)) = if (0 <=? z)%Z then Some (Z.to_N z) else None.
Proof. cbn. now destruct (0 <=? z)%Z. Qed.

Definition fill_arg (oc : option cp) : list vcell := match oc with Some c => [VChar c] | None => [] end.
Definition fill_char (oc : option cp) : cp := match oc with Some c => c | None => 0 end.

Theorem make_string_refines s kv oc :
  stack_ok s -> imm kv ->
  let r := run_builtin make_string (kv :: fill_arg oc) s in
  match as_usize kv with
  | Some k => returns r s (VStr (next_id (st s)))
                (snd (new_str (st s) (repeat (fill_char oc) (N.to_nat k))))
  | None => fails r s
  end.
Proof.
  intros Hok Hi r. subst r.
  destruct (as_usize kv) as [k|] eqn:Hk; destruct oc as [c|]; cbn [fill_arg fill_char];
    enter Hok s1; unfold make_string; pop_argc_ 1 (Some 2); cbn [N.eqb Pos.eqb].
  - pop_with pop_char_top E. cbn [as_char opt_res] in E. use_ok E.
    pop_with pop_usize_top E. rewrite Hk in E. cbn [opt_res] in E. use_ok E.
    rewrite str_new_run. norm_state. rewrite Hst1. finish_ret.
  - unfold ret at 1. rewrite (bindM_ok _ _ _ 0 _ eq_refl).
    pop_with pop_usize_top E. rewrite Hk in E. cbn [opt_res] in E. use_ok E.
    rewrite str_new_run. norm_state. rewrite Hst1. finish_ret.
  - pop_with pop_char_top E. cbn [as_char opt_res] in E. use_ok E.
    pop_with pop_usize_top E. rewrite Hk in E. cbn [opt_res] in E. use_err E. finish_fail.
  - unfold ret at 1. rewrite (bindM_ok _ _ _ 0 _ eq_refl).
    pop_with pop_usize_top E. rewrite Hk in E. cbn [opt_res] in E. use_err E. finish_fail.
Qed.

(* vector->string *)
Fixpoint chars_of (l : list vcell) : option text :=
  match l with
  | [] => Some []
  | VChar c :: r => match chars_of r with Some cs => Some (c :: cs) | None => None end
  | _ => None
  end.

Lemma hderef_imm v s : imm v -> hderef v s = ROk v s.
Proof. intro H. unfold hderef, lift. destruct v; cbn in *; try reflexivity. contradiction. Qed.

Lemma vector_string_loop_spec l : forall acc s0,
  Forall imm l ->
  vector_string_loop l acc s0 =
  match chars_of l with Some cs => ROk (acc ++ cs) s0 | None => RErr E_OTHER [] s0 end.
Proof.
  induction l as [|x l IH]; intros acc s0 HF; cbn [vector_string_loop chars_of].
  - now rewrite app_nil_r.
  - inversion HF; subst. rewrite (bindM_ok _ _ _ _ _ (hderef_imm x s0 H1)).
    destruct x; try reflexivity.
    rewrite IH by assumption. destruct (chars_of l); [|reflexivity].
    now rewrite <- app_assoc.
Qed.

Lemma vec_get_ok s vid l : tget (vecs (st s)) vid = Some l -> vec_get vid s = ROk l s.
Proof. intro H. unfold vec_get. now rewrite H. Qed.

Definition as_vector (v : vcell) : option N := match v with VVec vid => Some vid | _ => None end.
Lemma pop_vector_top s v vs :
  top_is s (v :: vs) -> imm v ->
  pop_vector s = opt_res (as_vector v) (pop1 s) /\ top_is (pop1 s) vs.
Proof.
  intros H Hi. destruct (pop_value_top _ _ _ H Hi) as [Hp Ht]. split; [|exact Ht].
  unfold pop_vector. rewrite (bindM_ok _ _ _ _ _ Hp). now destruct v.
Qed.

Theorem vector_string_refines s vid l :
  stack_ok s -> tget (vecs (st s)) vid = Some l -> Forall imm l ->
  let r := run_builtin vector_string [VVec vid] s in
  match chars_of l with
  | Some cs => returns r s (VStr (next_id (st s))) (snd (new_str (st s) cs))
  | None => fails r s
  end.
Proof.
  intros Hok Hv HF r. subst r.
  destruct (chars_of l) as [cs|] eqn:Hc;
    enter Hok s1; unfold vector_string; pop_argc_ 1 (Some 1);
    pop_with pop_vector_top E; cbn [as_vector opt_res] in E; use_ok E;
    rewrite (bindM_ok _ _ _ _ _ (vec_get_ok (pop1 (pop1 s1)) vid l
               ltac:(rewrite 2!st_pop1, Hst1; exact Hv)));
    pose proof (vector_string_loop_spec l [] (pop1 (pop1 s1)) HF) as Hloop; rewrite Hc in Hloop.
  - rewrite (bindM_ok _ _ _ _ _ Hloop). cbn [app]. rewrite str_new_run. norm_state. rewrite Hst1. finish_ret.
  - rewrite (bindM_err _ _ _ _ _ _ Hloop). finish_fail.
Qed.

(* list->string: a proper list of characters in the heap *)
Inductive heap_chars (h : heap) : vcell -> text -> Prop :=
| hc_nil : heap_chars h VNil []
| hc_cons a d c rest cs :
    heap_get h a = Ok (VChar c) -> heap_get h d = Ok rest -> heap_chars h rest cs ->
    heap_chars h (VPair a d) (c :: cs).

Lemma hget_ok s p v : heap_get (hp s) p = Ok v -> hget p s = ROk v s.
Proof. intro H. unfold hget, lift. now rewrite H. Qed.

Lemma list_string_loop_spec h v cs :
  heap_chars h v cs -> forall fuel acc s0, hp s0 = h -> (length cs < fuel)%nat ->
  list_string_loop fuel v acc s0 = ROk (acc ++ cs) s0.
Proof.
  induction 1 as [|a d c rest cs Ha Hd Hrest IH]; intros fuel acc s0 Hh Hf;
    (destruct fuel as [|f]; [cbn in Hf; lia|]); cbn [list_string_loop].
  - unfold ret. now rewrite app_nil_r.
  - subst h. rewrite (bindM_ok _ _ _ _ _ (hget_ok _ _ _ Ha)).
    rewrite (bindM_ok _ _ _ _ _ (hget_ok _ _ _ Hd)).
    rewrite IH by (auto; cbn [length] in Hf; lia). now rewrite <- app_assoc.
Qed.

Lemma pop_value_deref s v v' vs :
  top_is s (v :: vs) -> heap_deref (hp s) v = Ok v' ->
  pop_value s = ROk v' (pop1 s) /\ top_is (pop1 s) vs.
Proof.
  intros H Hd. destruct (pop_raw_top _ _ _ H) as [Hp Ht]. split; [|exact Ht].
  unfold pop_value, pop_deref. rewrite (bindM_ok _ _ _ _ _ Hp).
  unfold hderef, lift. change (hp (with_sp s (sp s - 1))) with (hp s). rewrite Hd. reflexivity.
Qed.

(* the hypothesis on the length is the acyclicity of the list (each pair occupies its own
   heap cell); without it the loop runs out of fuel, i.e. the Rust loop does not terminate *)
Theorem list_string_refines s arg v cs :
  stack_ok s -> heap_deref (hp s) arg = Ok v -> heap_chars (hp s) v cs ->
  (length cs <= N.to_nat (hlen (hp s)))%nat ->
  returns (run_builtin list_string [arg] s) s (VStr (next_id (st s))) (snd (new_str (st s) cs)).
Proof.
  intros Hok Hd Hc Hlen. enter Hok s1. unfold list_string. pop_argc_ 1 (Some 1).
  destruct (pop_value_deref _ _ v _ T ltac:(rewrite hp_pop1, Hhp1; exact Hd)) as [E T2].
  rewrite (bindM_ok _ _ _ _ _ E).
  assert (Hrun : forall s0, hp s0 = hp s -> st s0 = st s -> sp s0 = sp s ->
            returns ((dom h <- get_vm;
                      dom s2 <- list_string_loop (S (N.to_nat (hlen (hp h)))) v []; str_new s2) s0)
                    s (VStr (next_id (st s))) (snd (new_str (st s) cs))).
  { intros s0 H1 H2 H3. rewrite (bindM_ok get_vm _ s0 s0 s0 eq_refl).
    assert (Hloop : list_string_loop (S (N.to_nat (hlen (hp s0)))) v [] s0 = ROk ([] ++ cs) s0)
      by (apply (list_string_loop_spec (hp s0) v cs); rewrite ?H1; auto; lia).
    rewrite (bindM_ok _ _ _ _ _ Hloop). cbn [app]. rewrite str_new_run, H2. finish_ret. }
  inversion Hc; subst; apply Hrun; norm_state; try congruence; lia.
Qed.

(* ------------------------------------------- named instances and corollaries *)
Corollary string_upcase_refines s sid t :
  stack_ok s -> tget (strs (st s)) sid = Some t ->
  returns (run_builtin string_upcase [VStr sid] s) s (VStr (next_id (st s)))
    (snd (new_str (st s) (str_to_uppercase t))).
Proof. exact (string_case_refines str_to_uppercase s sid t). Qed.
Corollary string_downcase_refines s sid t :
  stack_ok s -> tget (strs (st s)) sid = Some t ->
  returns (run_builtin string_downcase [VStr sid] s) s (VStr (next_id (st s)))
    (snd (new_str (st s) (str_to_lowercase t))).
Proof. exact (string_case_refines str_to_lowercase s sid t). Qed.
Corollary string_foldcase_refines s sid t :
  stack_ok s -> tget (strs (st s)) sid = Some t ->
  returns (run_builtin string_foldcase [VStr sid] s) s (VStr (next_id (st s)))
    (snd (new_str (st s) (str_to_lowercase t))).
Proof. exact (string_case_refines str_to_lowercase s sid t). Qed.

(* substring = string-copy with exactly three arguments (prelude.scm) *)
Corollary substring_refines s sid t x y :
  stack_ok s -> tget (strs (st s)) sid = Some t -> imm x -> imm y ->
  let r := run_builtin (substring 3) [VStr sid; x; y] s in
  match as_index x, as_index y with
  | Some i, Some j =>
      if range_ok t (Some i) (Some j)
      then returns r s (VStr (next_id (st s))) (snd (new_str (st s) (spec_sub t i j)))
      else fails r s
  | _, _ => fails r s
  end.
Proof.
  intros Hok Hs Hx Hy.
  pose proof (string_copy_refines s sid t (Some x) (Some y) Hok Hs Hx Hy) as H.
  cbn [range_args range_decode range_end_arg] in H. cbn [substring N.eqb Pos.eqb].
  destruct (as_index x), (as_index y); exact H.
Qed.

Lemma returns_not_fails r s v x : returns r s v x -> ~ fails r s.
Proof. intros (s' & -> & _) (e & msg & s'' & H & _). discriminate. Qed.

Corollary string_ref_errors_iff_invalid_vm s sid t iv i :
  stack_ok s -> tget (strs (st s)) sid = Some t -> imm iv -> as_index iv = Some i ->
  (fails (run_builtin string_ref [VStr sid; iv] s) s <-> len t <= i).
Proof.
  intros Hok Hs Hi Hidx. pose proof (string_ref_refines s sid t iv Hok Hs Hi) as H.
  cbn zeta in H. rewrite Hidx in H. unfold spec_ref in H. rewrite <- nth_error_None_len.
  destruct (nth_error t (N.to_nat i)); split; intro H'; try congruence; try exact H.
  exfalso. exact (returns_not_fails _ _ _ _ H H').
Qed.

Corollary string_set_errors_iff_invalid s sid t iv i c :
  stack_ok s -> tget (strs (st s)) sid = Some t -> imm iv -> as_index iv = Some i ->
  (fails (run_builtin string_set [VStr sid; iv; VChar c] s) s <-> len t <= i).
Proof.
  intros Hok Hs Hi Hidx. pose proof (string_set_refines s sid t iv c Hok Hs Hi) as H.
  cbn zeta in H. rewrite Hidx in H.
  destruct (N.ltb_spec i (len t)) as [Hlt|Hge]; split; intro H'; try lia; try exact H.
  exfalso. exact (returns_not_fails _ _ _ _ H H').
Qed.

Corollary string_copy_errors_iff_invalid s sid t a b start end_ :
  stack_ok s -> tget (strs (st s)) sid = Some t -> opt_imm a -> opt_imm b ->
  range_decode a b = Some (start, end_) ->
  (fails (run_builtin string_copy (VStr sid :: range_args a b) s) s <-> range_ok t start end_ = false).
Proof.
  intros Hok Hs Ha Hb Hd. pose proof (string_copy_refines s sid t a b Hok Hs Ha Hb) as H.
  cbn zeta in H. rewrite Hd in H.
  destruct (range_ok t start end_); split; intro H'; try congruence; try exact H.
  exfalso. exact (returns_not_fails _ _ _ _ H H').
Qed.

Corollary string_fill_errors_iff_invalid s sid t c a b start end_ :
  stack_ok s -> tget (strs (st s)) sid = Some t -> opt_imm a -> opt_imm b ->
  range_decode a b = Some (start, end_) ->
  (fails (run_builtin string_fill (VStr sid :: VChar c :: range_args a b) s) s
   <-> range_ok t start end_ = false).
Proof.
  intros Hok Hs Ha Hb Hd. pose proof (string_fill_refines s sid t c a b Hok Hs Ha Hb) as H.
  cbn zeta in H. rewrite Hd in H.
  destruct (range_ok t start end_); split; intro H'; try congruence; try exact H.
  exfalso. exact (returns_not_fails _ _ _ _ H H').
Qed.

(* no argument vector of immediates makes the index/range procedures panic *)
Corollary string_ref_no_panic s sid t iv :
  stack_ok s -> tget (strs (st s)) sid = Some t -> imm iv ->
  no_panic (run_builtin string_ref [VStr sid; iv] s).
Proof.
  intros Hok Hs Hi. pose proof (string_ref_refines s sid t iv Hok Hs Hi) as H. cbn zeta in H.
  destruct (as_index iv) as [i|]; [destruct (spec_ref t i)|];
    eauto using returns_no_panic, fails_no_panic.
Qed.

Corollary string_set_no_panic s sid t iv c :
  stack_ok s -> tget (strs (st s)) sid = Some t -> imm iv ->
  no_panic (run_builtin string_set [VStr sid; iv; VChar c] s).
Proof.
  intros Hok Hs Hi. pose proof (string_set_refines s sid t iv c Hok Hs Hi) as H. cbn zeta in H.
  destruct (as_index iv) as [i|]; [destruct (i <? len t)|];
    eauto using returns_no_panic, fails_no_panic.
Qed.

Corollary string_copy_no_panic s sid t a b :
  stack_ok s -> tget (strs (st s)) sid = Some t -> opt_imm a -> opt_imm b ->
  no_panic (run_builtin string_copy (VStr sid :: range_args a b) s).
Proof.
  intros Hok Hs Ha Hb. pose proof (string_copy_refines s sid t a b Hok Hs Ha Hb) as H. cbn zeta in H.
  destruct (range_decode a b) as [[st e]|]; [destruct (range_ok t st e)|];
    eauto using returns_no_panic, fails_no_panic.
Qed.

Corollary string_fill_no_panic s sid t c a b :
  stack_ok s -> tget (strs (st s)) sid = Some t -> opt_imm a -> opt_imm b ->
  no_panic (run_builtin string_fill (VStr sid :: VChar c :: range_args a b) s).
Proof.
  intros Hok Hs Ha Hb. pose proof (string_fill_refines s sid t c a b Hok Hs Ha Hb) as H. cbn zeta in H.
  destruct (range_decode a b) as [[st e]|]; [destruct (range_ok t st e)|];
    eauto using returns_no_panic, fails_no_panic.
Qed.

Corollary integer_to_char_no_panic s n :
  stack_ok s -> no_panic (run_builtin integer_to_char [VNum n] s).
Proof.
  intro Hok. pose proof (integer_to_char_refines s n Hok) as H. cbn zeta in H.
  destruct (if num_is_integer n then num_to_u32 n else None) as [u|]; [destruct (is_scalar u)|];
    eauto using returns_no_panic, fails_no_panic.
Qed.

(* the pure cores never panic, for any text and any index / range arguments that a
   caller can produce *)
Corollary cores_no_panic t :
  (forall i, exists r, string_ref_core t i = Ok r \/ string_ref_core t i = Err E_OTHER) /\
  (forall i c, exists r, string_set_core t i c = Ok r \/ string_set_core t i c = Err E_OTHER) /\
  (forall a b, args_ok a b ->
     exists r, substring_core t a b = Ok r \/ substring_core t a b = Err E_OTHER) /\
  (forall a b c, args_ok a b ->
     exists r, string_fill_core t a b c = Ok r \/ string_fill_core t a b c = Err E_OTHER).
Proof.
  repeat split.
  - intro i. rewrite string_ref_core_spec. destruct (spec_ref t i); [eexists; left; reflexivity | exists 0; right; reflexivity].
  - intros i c. rewrite string_set_core_spec. destruct (i <? len t); [eexists; left; reflexivity | exists []; right; reflexivity].
  - intros a b H. rewrite (substring_core_spec t a b H). destruct (range_ok t a b); [eexists; left; reflexivity | exists []; right; reflexivity].
  - intros a b c H. rewrite (string_fill_core_spec t a b c H). destruct (range_ok t a b); [eexists; left; reflexivity | exists []; right; reflexivity].
Qed.
