(* StrProofs.v — C15: the byte-offset code of builtin/string.rs (Model/Str.v) refines a
   specification in which a string is a vector of Unicode scalar values.            *)
From Coq Require Import Lia.
From MW Require Import Model.Base Model.F64 Model.Num Model.Datum Model.TransformDef
  Model.VmTypes Model.Heap Model.VmBase Model.Str.
Open Scope N_scope.

(* ------------------------------------------------------------------ lists *)
Lemma len_length {A} (l : list A) : len l = N.of_nat (length l).
Proof. reflexivity. Qed.

Lemma nth_error_split_firstn {A} (l : list A) (i : nat) (x : A) :
  nth_error l i = Some x -> l = firstn i l ++ x :: skipn (S i) l.
Proof.
  revert i. induction l as [|a l IH]; intros [|i] H; cbn in *; try discriminate.
  - inversion H; reflexivity.
  - f_equal. apply IH; exact H.
Qed.

Lemma firstn_firstn_skipn {A} (l : list A) (a b : nat) :
  (a <= b)%nat -> firstn b l = firstn a l ++ firstn (b - a) (skipn a l).
Proof.
  revert a b. induction l as [|x l IH]; intros a b Hab.
  - now rewrite !firstn_nil, skipn_nil, firstn_nil.
  - destruct a as [|a].
    + cbn [firstn skipn app]. now rewrite Nat.sub_0_r.
    + destruct b as [|b]; [lia|].
      cbn [firstn skipn app Nat.sub]. f_equal. apply IH; lia.
Qed.

Lemma split3 {A} (l : list A) (a b : nat) :
  (a <= b)%nat -> l = firstn a l ++ firstn (b - a) (skipn a l) ++ skipn b l.
Proof.
  intro Hab. rewrite app_assoc, <- firstn_firstn_skipn by exact Hab.
  symmetry; apply firstn_skipn.
Qed.

(* ------------------------------------------------------ UTF-8 primitives *)
Lemma utf8_len_pos c : 0 < utf8_len c.
Proof.
  unfold utf8_len.
  destruct (c <? 128); [lia|]. destruct (c <? 2048); [lia|]. destruct (c <? 65536); lia.
Qed.

Lemma blen_app a b : blen (a ++ b) = blen a + blen b.
Proof. induction a as [|c a IH]; cbn [blen app]; [reflexivity|]. rewrite IH; lia. Qed.

Lemma take_bytes_nil n : take_bytes n [] = if n =? 0 then Some ([], []) else None.
Proof. reflexivity. Qed.

Lemma take_bytes_cons n c r :
  take_bytes n (c :: r) =
  if n =? 0 then Some ([], c :: r) else
  if utf8_len c <=? n then
    match take_bytes (n - utf8_len c) r with Some (a, b) => Some (c :: a, b) | None => None end
  else None.
Proof. reflexivity. Qed.

Lemma take_bytes_0 l : take_bytes 0 l = Some ([], l).
Proof. destruct l; reflexivity. Qed.

Lemma take_bytes_app a b : take_bytes (blen a) (a ++ b) = Some (a, b).
Proof.
  induction a as [|c a IH]; cbn [blen app].
  - apply take_bytes_0.
  - rewrite take_bytes_cons. pose proof (utf8_len_pos c) as Hc.
    replace (utf8_len c + blen a =? 0) with false by (symmetry; apply N.eqb_neq; lia).
    replace (utf8_len c <=? utf8_len c + blen a) with true by (symmetry; apply N.leb_le; lia).
    replace (utf8_len c + blen a - utf8_len c) with (blen a) by lia.
    now rewrite IH.
Qed.

Lemma slice_bytes_app pre mid post :
  slice_bytes (pre ++ mid ++ post) (blen pre) (blen pre + blen mid) = Ok mid.
Proof.
  unfold slice_bytes.
  replace (blen pre + blen mid <? blen pre) with false by (symmetry; apply N.ltb_ge; lia).
  rewrite take_bytes_app.
  replace (blen pre + blen mid - blen pre) with (blen mid) by lia.
  now rewrite take_bytes_app.
Qed.

Lemma replace_range_app pre mid post w :
  replace_range (pre ++ mid ++ post) (blen pre) (blen pre + blen mid) w = Ok (pre ++ w ++ post).
Proof.
  unfold replace_range.
  replace (blen pre + blen mid <? blen pre) with false by (symmetry; apply N.ltb_ge; lia).
  rewrite take_bytes_app.
  replace (blen pre + blen mid - blen pre) with (blen mid) by lia.
  now rewrite take_bytes_app.
Qed.

Lemma slice_bytes_00 t : slice_bytes t 0 0 = Ok [].
Proof.
  unfold slice_bytes. change (0 <? 0) with false. cbn iota. rewrite take_bytes_0.
  change (0 - 0) with 0. now rewrite take_bytes_0.
Qed.

Lemma replace_range_00 t w : replace_range t 0 0 w = Ok (w ++ t).
Proof.
  unfold replace_range. change (0 <? 0) with false. cbn iota. rewrite take_bytes_0.
  change (0 - 0) with 0. now rewrite take_bytes_0.
Qed.

(* s.char_indices().nth(idx): the idx-th character and the byte length of what precedes *)
Lemma ci_nth_spec t : forall off idx,
  ci_nth t off idx =
  match nth_error t (N.to_nat idx) with
  | Some c => Some (off + blen (firstn (N.to_nat idx) t), c)
  | None => None
  end.
Proof.
  induction t as [|c r IH]; intros off idx; cbn [ci_nth].
  - now destruct (N.to_nat idx).
  - destruct (N.eqb_spec idx 0) as [->|Hne].
    + cbn. f_equal. f_equal. lia.
    + rewrite IH. replace (N.to_nat idx) with (S (N.to_nat (idx - 1))) by lia.
      cbn [nth_error firstn blen].
      destruct (nth_error r (N.to_nat (idx - 1))); [|reflexivity].
      f_equal. f_equal. lia.
Qed.

Lemma nth_error_None_len {A} (l : list A) (i : N) : nth_error l (N.to_nat i) = None <-> len l <= i.
Proof. rewrite nth_error_None, len_length. lia. Qed.

Lemma nth_error_Some_len {A} (l : list A) (i : N) : nth_error l (N.to_nat i) <> None <-> i < len l.
Proof. rewrite nth_error_Some, len_length. lia. Qed.

(* ================================================================ the spec *)
(* A string is a vector of scalar values; indices are character positions. *)
Definition spec_ref (t : text) (i : N) : option cp := nth_error t (N.to_nat i).
Definition spec_set (t : text) (i : N) (c : cp) : text :=
  firstn (N.to_nat i) t ++ c :: skipn (S (N.to_nat i)) t.
Definition spec_sub (t : text) (a b : N) : text :=
  firstn (N.to_nat b - N.to_nat a) (skipn (N.to_nat a) t).
Definition spec_fill (t : text) (a b : N) (c : cp) : text :=
  firstn (N.to_nat a) t ++ repeat c (N.to_nat b - N.to_nat a) ++ skipn (N.to_nat b) t.

Definition range_start (start : option N) : N := match start with Some s => s | None => 0 end.
Definition range_end (t : text) (end_ : option N) : N := match end_ with Some e => e | None => len t end.
(* a range is valid when 0 <= start <= end <= length *)
Definition range_ok (t : text) (start end_ : option N) : bool :=
  (range_start start <=? range_end t end_) && (range_end t end_ <=? len t).

(* ---------------------------------------------------------- string-ref *)
Lemma string_ref_core_spec t i :
  string_ref_core t i = match spec_ref t i with Some c => Ok c | None => Err E_OTHER end.
Proof.
  unfold string_ref_core, spec_ref. rewrite ci_nth_spec.
  now destruct (nth_error t (N.to_nat i)).
Qed.

Lemma string_ref_errors_iff_invalid t i :
  (exists e, string_ref_core t i = Err e) <-> len t <= i.
Proof.
  rewrite string_ref_core_spec, <- nth_error_None_len. unfold spec_ref.
  destruct (nth_error t (N.to_nat i)); split; intro H; try discriminate; try (destruct H; discriminate).
  - reflexivity.
  - now exists E_OTHER.
Qed.

(* --------------------------------------------------------- string-set! *)
Lemma string_set_core_spec t i c :
  string_set_core t i c = if i <? len t then Ok (spec_set t i c) else Err E_OTHER.
Proof.
  unfold string_set_core. rewrite ci_nth_spec.
  destruct (nth_error t (N.to_nat i)) as [old|] eqn:Hn.
  - assert (Hlt : i < len t) by (apply nth_error_Some_len; congruence).
    replace (i <? len t) with true by (symmetry; now apply N.ltb_lt).
    pose proof (nth_error_split_firstn _ _ _ Hn) as Hs.
    set (pre := firstn (N.to_nat i) t) in *. set (post := skipn (S (N.to_nat i)) t) in *.
    rewrite Hs at 1. change (old :: post) with ([old] ++ post).
    rewrite N.add_0_l.
    replace (utf8_len old) with (blen [old]) by (cbn; lia).
    rewrite replace_range_app. reflexivity.
  - apply nth_error_None_len in Hn.
    replace (i <? len t) with false by (symmetry; now apply N.ltb_ge). reflexivity.
Qed.

(* exactly the addressed character changes, whatever the byte widths *)
Lemma spec_set_length t i c : i < len t -> length (spec_set t i c) = length t.
Proof.
  intro H. rewrite len_length in H. unfold spec_set.
  rewrite app_length, firstn_length. cbn [length]. rewrite skipn_length. lia.
Qed.

Lemma spec_set_nth t i c j :
  i < len t ->
  nth_error (spec_set t i c) (N.to_nat j) = if j =? i then Some c else nth_error t (N.to_nat j).
Proof.
  intro H. rewrite len_length in H. unfold spec_set.
  assert (Hfl : length (firstn (N.to_nat i) t) = N.to_nat i) by (rewrite firstn_length; lia).
  destruct (N.eqb_spec j i) as [->|Hne].
  - rewrite nth_error_app2 by lia. rewrite Hfl, Nat.sub_diag. reflexivity.
  - destruct (Nat.lt_ge_cases (N.to_nat j) (N.to_nat i)) as [Hlt|Hge].
    + rewrite nth_error_app1 by lia.
      rewrite <- (firstn_skipn (N.to_nat i) t) at 2. now rewrite nth_error_app1 by lia.
    + rewrite nth_error_app2 by lia. rewrite Hfl.
      replace (N.to_nat j - N.to_nat i)%nat with (S (N.to_nat j - S (N.to_nat i))) by lia.
      cbn [nth_error].
      rewrite <- (firstn_skipn (S (N.to_nat i)) t) at 2.
      rewrite nth_error_app2 by (rewrite firstn_length; lia).
      rewrite firstn_length. f_equal. lia.
Qed.

(* ------------------------------------------------ substring / string-copy *)
Lemma blen_firstn_succ t k c :
  nth_error t k = Some c -> blen (firstn (S k) t) = blen (firstn k t) + utf8_len c.
Proof.
  revert k. induction t as [|x t IH]; intros [|k] H; cbn in H; try discriminate.
  - inversion H; subst. cbn. lia.
  - rewrite !firstn_cons. cbn [blen]. rewrite (IH _ H). lia.
Qed.

Lemma char_offset_spec t s :
  s < len t -> char_offset t s = Ok (blen (firstn (N.to_nat s) t)).
Proof.
  intro H. unfold char_offset. rewrite ci_nth_spec.
  destruct (nth_error t (N.to_nat s)) eqn:Hn.
  - now rewrite N.add_0_l.
  - apply nth_error_None_len in Hn. lia.
Qed.

Lemma char_offset_inclusive_spec t e :
  0 < e -> e <= len t -> char_offset_inclusive t (e - 1) = Ok (blen (firstn (N.to_nat e) t)).
Proof.
  intros H0 H. unfold char_offset_inclusive. rewrite ci_nth_spec.
  destruct (nth_error t (N.to_nat (e - 1))) eqn:Hn.
  - rewrite N.add_0_l. replace (N.to_nat e) with (S (N.to_nat (e - 1))) by lia.
    now rewrite (blen_firstn_succ _ _ _ Hn).
  - apply nth_error_None_len in Hn. lia.
Qed.

(* the discipline of the three callers: an end index is only ever given together
   with a start index (argc = 3 resp. 4) *)
Definition args_ok (start end_ : option N) : Prop := start = None -> end_ = None.

Lemma firstn_all_len {A} (l : list A) : firstn (N.to_nat (len l)) l = l.
Proof. rewrite len_length, Nat2N.id. apply firstn_all. Qed.

Lemma skipn_all_len {A} (l : list A) : skipn (N.to_nat (len l)) l = [].
Proof. rewrite len_length, Nat2N.id. apply skipn_all. Qed.

(* what the offsets are used for: the two byte offsets cut the string at the two
   character positions (or denote an empty range at the front) *)
Inductive offsets_for (t : text) (a b : N) : N * N -> Prop :=
| off_exact : offsets_for t a b (blen (firstn (N.to_nat a) t), blen (firstn (N.to_nat b) t))
| off_empty : a = b -> offsets_for t a b (0, 0).

Lemma char_substring_offset_spec t start end_ :
  args_ok start end_ ->
  if range_ok t start end_
  then exists ab, char_substring_offset t start end_ = Ok ab /\
                  offsets_for t (range_start start) (range_end t end_) ab
  else char_substring_offset t start end_ = Err E_OTHER.
Proof.
  intro Hargs. unfold range_ok, char_substring_offset, char_count.
  destruct start as [s|]; destruct end_ as [e|]; cbn [range_start range_end].
  - (* start and end *)
    destruct (N.ltb_spec (len t) s) as [Hs|Hs].
    { replace ((s <=? e) && (e <=? len t)) with false; [reflexivity|].
      symmetry. apply andb_false_iff. destruct (N.leb_spec e (len t)); [left; apply N.leb_gt; lia | now right]. }
    destruct (N.ltb_spec (len t) e) as [He|He].
    { replace (e <=? len t) with false by (symmetry; apply N.leb_gt; lia). now rewrite andb_false_r. }
    replace (e <=? len t) with true by (symmetry; apply N.leb_le; lia). rewrite andb_true_r.
    destruct (N.eqb_spec s e) as [->|Hne].
    { rewrite N.leb_refl. eexists; split; [reflexivity|]. now apply off_empty. }
    destruct (N.ltb_spec e s) as [Hlt|Hge].
    { replace (s <=? e) with false by (symmetry; apply N.leb_gt; lia). reflexivity. }
    replace (s <=? e) with true by (symmetry; apply N.leb_le; lia).
    replace (s =? len t) with false by (symmetry; apply N.eqb_neq; lia).
    rewrite char_offset_spec by lia. cbn [bind].
    unfold usize_sub. replace (e <? 1) with false by (symmetry; apply N.ltb_ge; lia). cbn [bind].
    rewrite char_offset_inclusive_spec by lia. cbn [bind].
    eexists; split; [reflexivity|]. apply off_exact.
  - (* start only *)
    destruct (N.ltb_spec (len t) s) as [Hs|Hs].
    { replace (s <=? len t) with false by (symmetry; apply N.leb_gt; lia). reflexivity. }
    replace (s <=? len t) with true by (symmetry; apply N.leb_le; lia). rewrite N.leb_refl. cbn [andb].
    destruct (N.eqb_spec s (len t)) as [->|Hne].
    { eexists; split; [reflexivity|]. now apply off_empty. }
    rewrite char_offset_spec by lia. cbn [bind].
    eexists; split; [reflexivity|].
    replace (blen t) with (blen (firstn (N.to_nat (len t)) t)) by (now rewrite firstn_all_len).
    apply off_exact.
  - discriminate (Hargs eq_refl).
  - rewrite N.leb_refl. cbn [andb bind N.leb]. replace (0 <=? len t) with true by (symmetry; apply N.leb_le; lia).
    cbn [andb]. eexists; split; [reflexivity|].
    replace (blen t) with (blen (firstn (N.to_nat (len t)) t)) by (now rewrite firstn_all_len).
    apply (off_exact t 0 (len t)).
Qed.

Lemma range_ok_bounds t start end_ :
  range_ok t start end_ = true ->
  (N.to_nat (range_start start) <= N.to_nat (range_end t end_))%nat /\
  (N.to_nat (range_end t end_) <= length t)%nat.
Proof.
  unfold range_ok. intro H. apply andb_true_iff in H. destruct H as [H1 H2].
  apply N.leb_le in H1, H2. rewrite len_length in H2. lia.
Qed.

Lemma substring_core_spec t start end_ :
  args_ok start end_ ->
  substring_core t start end_ =
  if range_ok t start end_ then Ok (spec_sub t (range_start start) (range_end t end_)) else Err E_OTHER.
Proof.
  intro Hargs. unfold substring_core.
  pose proof (char_substring_offset_spec t start end_ Hargs) as H.
  destruct (range_ok t start end_) eqn:Hr.
  - destruct H as [ab [-> Hoff]]. cbn [bind].
    destruct (range_ok_bounds _ _ _ Hr) as [Hab Hb].
    set (a := range_start start) in *. set (b := range_end t end_) in *.
    unfold spec_sub. inversion Hoff as [|Heq]; subst.
    + rewrite (split3 t (N.to_nat a) (N.to_nat b) Hab) at 1.
      rewrite (firstn_firstn_skipn t _ _ Hab), blen_app.
      apply slice_bytes_app.
    + rewrite Heq, Nat.sub_diag. cbn [firstn]. apply slice_bytes_00.
  - now rewrite H.
Qed.

(* ---------------------------------------------------------- string-fill! *)
Lemma string_fill_core_spec t start end_ c :
  args_ok start end_ ->
  string_fill_core t start end_ c =
  if range_ok t start end_ then Ok (spec_fill t (range_start start) (range_end t end_) c) else Err E_OTHER.
Proof.
  intro Hargs. unfold string_fill_core.
  pose proof (char_substring_offset_spec t start end_ Hargs) as H.
  destruct (range_ok t start end_) eqn:Hr.
  - destruct H as [ab [-> Hoff]]. cbn [bind].
    destruct (range_ok_bounds _ _ _ Hr) as [Hab Hb].
    (* the count is end - start in every arm that reaches this point *)
    assert (Hcount :
      N.to_nat (match start, end_ with
                | Some s, Some e => if s <=? e then e - s else char_count t
                | Some s, None => sat_sub (char_count t) s
                | _, _ => char_count t
                end) = (N.to_nat (range_end t end_) - N.to_nat (range_start start))%nat).
    { unfold range_ok in Hr. apply andb_true_iff in Hr. destruct Hr as [H1 H2].
      destruct start as [s|]; destruct end_ as [e|]; cbn [range_start range_end] in *; unfold sat_sub, char_count.
      - rewrite H1. lia.
      - lia.
      - discriminate (Hargs eq_refl).
      - lia. }
    rewrite Hcount.
    set (a := range_start start) in *. set (b := range_end t end_) in *.
    unfold spec_fill. inversion Hoff as [|Heq]; subst.
    + rewrite (split3 t (N.to_nat a) (N.to_nat b) Hab) at 1.
      rewrite (firstn_firstn_skipn t _ _ Hab), blen_app.
      apply replace_range_app.
    + rewrite Heq, Nat.sub_diag. cbn [repeat app].
      rewrite replace_range_00. cbn [app]. now rewrite firstn_skipn.
  - now rewrite H.
Qed.

Lemma spec_fill_length t a b c :
  a <= b -> b <= len t -> length (spec_fill t a b c) = length t.
Proof.
  intros Hab Hb. rewrite len_length in Hb. unfold spec_fill.
  rewrite !app_length, firstn_length, repeat_length, skipn_length. lia.
Qed.

(* exactly the characters of the range change *)
Lemma spec_fill_nth t a b c j :
  a <= b -> b <= len t -> j < len t ->
  nth_error (spec_fill t a b c) (N.to_nat j) =
  if (a <=? j) && (j <? b) then Some c else nth_error t (N.to_nat j).
Proof.
  intros Hab Hb Hj. rewrite len_length in Hb, Hj. unfold spec_fill.
  assert (Hfl : length (firstn (N.to_nat a) t) = N.to_nat a) by (rewrite firstn_length; lia).
  destruct (N.leb_spec a j) as [Haj|Haj]; cbn [andb].
  - rewrite nth_error_app2 by lia. rewrite Hfl.
    destruct (N.ltb_spec j b) as [Hjb|Hjb].
    + rewrite nth_error_app1 by (rewrite repeat_length; lia).
      apply nth_error_repeat. lia.
    + rewrite nth_error_app2 by (rewrite repeat_length; lia). rewrite repeat_length.
      rewrite <- (firstn_skipn (N.to_nat b) t) at 2.
      rewrite nth_error_app2 by (rewrite firstn_length; lia).
      rewrite firstn_length. f_equal. lia.
  - rewrite nth_error_app1 by lia.
    rewrite <- (firstn_skipn (N.to_nat a) t) at 2. now rewrite nth_error_app1 by lia.
Qed.

Lemma nth_error_firstn_lt {A} (l : list A) : forall n i,
  (i < n)%nat -> nth_error (firstn n l) i = nth_error l i.
Proof.
  induction l as [|x l IH]; intros [|n] [|i] H; cbn; try reflexivity; try lia.
  apply IH. lia.
Qed.

Lemma nth_error_skipn_add {A} (l : list A) : forall a i,
  nth_error (skipn a l) i = nth_error l (a + i).
Proof.
  induction l as [|x l IH]; intros [|a] i; cbn [skipn Nat.add]; try reflexivity.
  - now destruct i.
  - cbn [nth_error]. apply IH.
Qed.

Lemma spec_sub_nth t a b j :
  a <= b -> b <= len t ->
  nth_error (spec_sub t a b) (N.to_nat j) = if j <? b - a then nth_error t (N.to_nat (a + j)) else None.
Proof.
  intros Hab Hb. rewrite len_length in Hb. unfold spec_sub.
  destruct (N.ltb_spec j (b - a)) as [H|H].
  - rewrite nth_error_firstn_lt by lia. rewrite nth_error_skipn_add. f_equal. lia.
  - apply nth_error_None. rewrite firstn_length, skipn_length. lia.
Qed.

(* ============================================ ordering: UTF-8 bytes vs scalars *)
Lemma lex_head_lt x y a b : x < y -> lex_cmp (x :: a) (y :: b) = Lt.
Proof. intro H. cbn [lex_cmp]. now rewrite (proj2 (N.compare_lt_iff x y) H). Qed.

Lemma lex_head_eq x y a b : x = y -> lex_cmp (x :: a) (y :: b) = lex_cmp a b.
Proof. intros ->. cbn [lex_cmp]. now rewrite N.compare_refl. Qed.

Lemma lex_cmp_app_same l r1 r2 : lex_cmp (l ++ r1) (l ++ r2) = lex_cmp r1 r2.
Proof. induction l as [|x l IH]; [reflexivity|]. cbn [app]. now rewrite lex_head_eq. Qed.

Lemma lex_cmp_antisym a : forall b, lex_cmp a b = CompOpp (lex_cmp b a).
Proof.
  induction a as [|x a IH]; intros [|y b]; cbn [lex_cmp CompOpp]; try reflexivity.
  rewrite (N.compare_antisym x y). destruct (x ?= y); cbn [CompOpp]; auto.
Qed.

Lemma lex_cmp_refl a : lex_cmp a a = Eq.
Proof. induction a as [|x a IH]; [reflexivity|]. now rewrite lex_head_eq. Qed.

Lemma lex_cmp_eq a : forall b, lex_cmp a b = Eq <-> a = b.
Proof.
  induction a as [|x a IH]; intros [|y b]; cbn [lex_cmp]; split; intro H; try discriminate; try reflexivity.
  - destruct (N.compare_spec x y) as [->| |]; try discriminate. f_equal. now apply IH.
  - inversion H; subst. rewrite N.compare_refl. now apply IH.
Qed.

(* lexicographic order, spelled out: a proper prefix, or a first differing position *)
Lemma lex_cmp_lt a : forall b,
  lex_cmp a b = Lt <->
  exists p, (exists y q, a = p /\ b = p ++ y :: q) \/
            (exists x y q1 q2, a = p ++ x :: q1 /\ b = p ++ y :: q2 /\ x < y).
Proof.
  induction a as [|x a IH]; intros [|y b]; cbn [lex_cmp]; split; intro H; try discriminate.
  - destruct H as [p [[y [q [<- Hb]]]|[x [y [q1 [q2 [Ha _]]]]]]].
    + now destruct q.
    + now destruct p.
  - exists []. left. now exists y, b.
  - reflexivity.
  - destruct H as [p [[y [q [Ha Hb]]]|[x' [y [q1 [q2 [_ [Hb _]]]]]]]]; destruct p; discriminate.
  - destruct (N.compare_spec x y) as [->|Hlt|Hgt]; try discriminate.
    + apply IH in H. destruct H as [p [[y' [q [-> ->]]]|[x' [y' [q1 [q2 [-> [-> Hxy]]]]]]]].
      * exists (y :: p). left. now exists y', q.
      * exists (y :: p). right. now exists x', y', q1, q2.
    + exists []. right. now exists x, y, a, b.
  - destruct H as [p [[y' [q [Ha Hb]]]|[x' [y' [q1 [q2 [Ha [Hb Hxy]]]]]]]].
    + subst p. cbn [app] in Hb. inversion Hb; subst. rewrite N.compare_refl.
      apply IH. exists a. left. now exists y', q.
    + destruct p as [|z p]; cbn [app] in Ha, Hb; inversion Ha; inversion Hb; subst.
      * now rewrite (proj2 (N.compare_lt_iff _ _) Hxy).
      * rewrite N.compare_refl. apply IH. exists p. right. now exists x', y', q1, q2.
Qed.

(* the digits of a code point in base 64, as the UTF-8 encoder cuts them *)
Lemma base64_digits c :
  c = 64 * (c / 64) + c mod 64 /\ c mod 64 < 64 /\
  c / 64 = 64 * (c / 4096) + (c / 64) mod 64 /\ (c / 64) mod 64 < 64 /\
  c / 4096 = 64 * (c / 262144) + (c / 4096) mod 64 /\ (c / 4096) mod 64 < 64.
Proof.
  assert (H64 : 64 <> 0) by discriminate.
  repeat split.
  - apply N.div_mod'.
  - now apply N.mod_lt.
  - replace (c / 4096) with (c / 64 / 64) by (rewrite N.div_div by discriminate; reflexivity).
    apply N.div_mod'.
  - now apply N.mod_lt.
  - replace (c / 262144) with (c / 4096 / 64) by (rewrite N.div_div by discriminate; reflexivity).
    apply N.div_mod'.
  - now apply N.mod_lt.
Qed.

Ltac bytes_lt :=
  lazymatch goal with
  | |- lex_cmp (?x :: _) (?y :: _) = Lt =>
      let Hlt := fresh "Hlt" in let Heq := fresh "Heq" in let Hgt := fresh "Hgt" in
      destruct (N.lt_trichotomy x y) as [Hlt|[Heq|Hgt]];
      [ apply lex_head_lt; exact Hlt
      | rewrite (lex_head_eq _ _ _ _ Heq); bytes_lt
      | exfalso; lia ]
  | |- _ => exfalso; lia
  end.

(* UTF-8 is order preserving and prefix free: the encodings of two different code
   points differ at a byte before either ends, in the direction of the code points *)
Lemma utf8_bytes_lt c1 c2 r1 r2 :
  c1 < c2 -> lex_cmp (utf8_bytes c1 ++ r1) (utf8_bytes c2 ++ r2) = Lt.
Proof.
  intro Hlt.
  destruct (base64_digits c1) as (A1 & A2 & A3 & A4 & A5 & A6).
  destruct (base64_digits c2) as (B1 & B2 & B3 & B4 & B5 & B6).
  unfold utf8_bytes.
  (* name the digits so that only linear facts remain *)
  remember (c1 / 64) as q1 eqn:E; clear E. remember (q1 mod 64) as b1 eqn:E; clear E.
  remember (c1 / 4096) as a1 eqn:E; clear E. remember (a1 mod 64) as f1 eqn:E; clear E.
  remember (c1 / 262144) as e1 eqn:E; clear E. remember (c1 mod 64) as m1 eqn:E; clear E.
  remember (c2 / 64) as q2 eqn:E; clear E. remember (q2 mod 64) as b2 eqn:E; clear E.
  remember (c2 / 4096) as a2 eqn:E; clear E. remember (a2 mod 64) as f2 eqn:E; clear E.
  remember (c2 / 262144) as e2 eqn:E; clear E. remember (c2 mod 64) as m2 eqn:E; clear E.
  destruct (N.ltb_spec c1 128) as [H1|H1]; [|destruct (N.ltb_spec c1 2048) as [H2|H2];
    [|destruct (N.ltb_spec c1 65536) as [H3|H3]]];
  (destruct (N.ltb_spec c2 128) as [K1|K1]; [|destruct (N.ltb_spec c2 2048) as [K2|K2];
    [|destruct (N.ltb_spec c2 65536) as [K3|K3]]]);
  cbn [app]; bytes_lt.
Qed.

Lemma utf8_bytes_cmp c1 c2 r1 r2 :
  lex_cmp (utf8_bytes c1 ++ r1) (utf8_bytes c2 ++ r2) =
  match c1 ?= c2 with Eq => lex_cmp r1 r2 | c => c end.
Proof.
  destruct (N.compare_spec c1 c2) as [->|Hlt|Hgt].
  - apply lex_cmp_app_same.
  - now apply utf8_bytes_lt.
  - rewrite lex_cmp_antisym, (utf8_bytes_lt c2 c1 r2 r1 Hgt). reflexivity.
Qed.

Lemma utf8_bytes_nonempty c : exists b r, utf8_bytes c = b :: r.
Proof.
  unfold utf8_bytes. destruct (c <? 128); [eauto|]. destruct (c <? 2048); [eauto|].
  destruct (c <? 65536); eauto.
Qed.

(* `x < y` on &str (bytewise) is the lexicographic order on the scalar values *)
Theorem str_cmp_code_points x : forall y, str_cmp x y = lex_cmp x y.
Proof.
  unfold str_cmp, str_bytes.
  induction x as [|c x IH]; intros [|d y]; cbn [flat_map lex_cmp].
  - reflexivity.
  - destruct (utf8_bytes_nonempty d) as (b & r & ->). reflexivity.
  - destruct (utf8_bytes_nonempty c) as (b & r & ->). reflexivity.
  - rewrite utf8_bytes_cmp, IH. reflexivity.
Qed.

Corollary str_comp_spec o x y : str_comp o x y = cmp_holds o (lex_cmp x y).
Proof. unfold str_comp. now rewrite str_cmp_code_points. Qed.

Corollary str_ci_comp_spec o x y :
  str_ci_comp o x y = cmp_holds o (lex_cmp (str_to_lowercase x) (str_to_lowercase y)).
Proof. unfold str_ci_comp. now rewrite str_cmp_code_points. Qed.
