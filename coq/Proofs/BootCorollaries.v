(* BootCorollaries.v — C01 (R2) / C10: the fragment theorems instantiated on the BOOTED machine
   and on every state of a session started from it ([minv] discharged by BootMinv.v), and
   examples for the preservation theorems.                                                *)
From Coq Require Import Lia List String.
From MW Require Import Model.Base Model.F64 Model.Num Model.Datum Model.Lex Model.Parse Model.TransformDef
  Model.Transform Model.VmTypes Model.Heap Model.Gc Model.VmBase Model.Compile Model.Vm Model.Builtins
  Proofs.GcProofs Proofs.SymtabProofs Proofs.VmProofs0 Proofs.FlatProofs Proofs.FlatAll
  Proofs.QuoteHeapProofs Proofs.RunProofs Proofs.CompileCorrect Proofs.CellFuelProofs Proofs.CompileCorrect2
  Proofs.FragmentCorollaries Proofs.Closures3 Proofs.EvalFragment3
  Proofs.KeepCalc Proofs.KeepRun Proofs.BootMinv Proofs.BootGenv.
Open Scope N_scope.

(* ------------------------------------------------------------------ (quote d) *)
Theorem quote_eval_vm_session (ob : N -> M vcell) d s0 s : booted = Some s0 -> evals s0 s -> heap_datum d ->
  exists n m, cext s m /\ sp m = sp s /\ bp m = bp s /\ ep m = ep s /\ out_log m = out_log s /\
    (forall fuel, (n <= fuel)%nat -> eval ob fuel (quote_of d) s = halt_result m) /\
    (halt_result m <> RNoFuel \/ (no_ptr_cells (hp m) /\ (rcost (RDatum d) <= cell_fuel m)%nat) ->
     forall fuel, (n <= fuel)%nat ->
       eval ob fuel (quote_of d) s = ROk (Done d) (with_stack m tempty (sp m))).
Proof. intros B R Hd. exact (quote_eval_vm ob d s Hd (session_minv s0 s B R)). Qed.

Theorem quote_eval_vm_booted (ob : N -> M vcell) d s : booted = Some s -> heap_datum d ->
  exists n m, cext s m /\ sp m = sp s /\ bp m = bp s /\ ep m = ep s /\ out_log m = out_log s /\
    (forall fuel, (n <= fuel)%nat -> eval ob fuel (quote_of d) s = halt_result m) /\
    (halt_result m <> RNoFuel \/ (no_ptr_cells (hp m) /\ (rcost (RDatum d) <= cell_fuel m)%nat) ->
     forall fuel, (n <= fuel)%nat ->
       eval ob fuel (quote_of d) s = ROk (Done d) (with_stack m tempty (sp m))).
Proof. intros B. exact (quote_eval_vm_session ob d s s B (evals_refl s)). Qed.

(* the body of C10_quote_eval_vm_stmt, up to the model's fuels *)
Theorem quote_eval_cell_booted d s0 : booted = Some s0 -> heap_datum d ->
  eval_cell (quote_of d) s0 = RNoFuel \/ exists s1, eval_cell (quote_of d) s0 = ROk (Done d) s1.
Proof. intros B Hd. exact (quote_eval_vm_outcome other_builtin d s0 Hd (booted_minv s0 B) EVAL_FUEL). Qed.

(* ------------------------------------------------------------------ fragment 3 *)
Theorem eval_fragment3_session (ob : N -> M vcell) (bsem : N -> list rval -> option rval) :
  (forall b, builtin_ok ob bsem b) -> (forall b, builtin_envs ob bsem b) ->
  forall e rho r rho' s0 s,
  booted = Some s0 -> evals s0 s ->
  wf3 e [] -> ref_eval3 bsem [] [] rho e r rho' -> genv_rel3 rho s ->
  transform_expr TRANSFORM_FUEL s (cell_of3 e) = Ok (cell_of3 e) ->
  exists n m, (forall fuel, (n <= fuel)%nat -> eval ob fuel (cell_of3 e) s = halt_result m) /\
    vrep3 m (acc m) r /\ genv_rel3 rho' m /\ minv m /\ cext s m /\
    sp m = sp s /\ bp m = bp s /\ ep m = ep s /\ out_log m = out_log s.
Proof.
  intros Hb He e rho r rho' s0 s B R Hwf HR G Ht.
  exact (eval_fragment3 ob bsem Hb He e rho r rho' s Hwf HR (session_minv s0 s B R) G Ht).
Qed.

Theorem eval_fragment3_booted (ob : N -> M vcell) (bsem : N -> list rval -> option rval) :
  (forall b, builtin_ok ob bsem b) -> (forall b, builtin_envs ob bsem b) ->
  forall e rho r rho' s,
  booted = Some s ->
  wf3 e [] -> ref_eval3 bsem [] [] rho e r rho' -> genv_rel3 rho s ->
  transform_expr TRANSFORM_FUEL s (cell_of3 e) = Ok (cell_of3 e) ->
  exists n m, (forall fuel, (n <= fuel)%nat -> eval ob fuel (cell_of3 e) s = halt_result m) /\
    vrep3 m (acc m) r /\ genv_rel3 rho' m /\ minv m /\ cext s m /\
    sp m = sp s /\ bp m = bp s /\ ep m = ep s /\ out_log m = out_log s.
Proof.
  intros Hb He e rho r rho' s B. exact (eval_fragment3_session ob bsem Hb He e rho r rho' s s B (evals_refl s)).
Qed.

(* ------------------------------------------------------------------ examples *)
(* a datum OUTSIDE every proved fragment — a body of two expressions with `set!` on a local
   variable — evaluates on the empty machine to 2; the final state satisfies rinv (by the
   theorem), hence minv *)
Definition bx_src : text := S_ "((lambda (x) (set! x 2) x) 1)"%string.
Definition bx_datum : cell := match parse_text bx_src with Ok (d, _) => d | _ => CNil end.
Example bx_done :
  exists s', eval other_builtin 200 bx_datum (vm_empty 8192) = ROk (Done (CNum (Fixnum 2))) s' /\ rinv s' /\ minv s'.
Proof.
  assert (H : match eval other_builtin 200 bx_datum (vm_empty 8192) with
              | ROk (Done (CNum (Fixnum z))) s' => Z.eqb z 2
              | _ => false end = true) by (vm_compute; reflexivity).
  assert (F0 : rinv (vm_empty 8192)) by (apply rinv_empty; reflexivity).
  destruct (eval other_builtin 200 bx_datum (vm_empty 8192)) as [res s'| | |] eqn:E; try discriminate H.
  destruct res as [c| |]; try discriminate H. destruct c; try discriminate H. destruct n; try discriminate H.
  apply Z.eqb_eq in H. subst z.
  exists s'. split; [reflexivity|]. pose proof (eval_rinv_ok _ _ _ _ _ F0 E) as R. split; [exact R|apply rinv_minv, R].
Qed.

(* the machine of Vm::new WITHOUT the prelude text: load_builtins over the whole generated table
   succeeds, the result satisfies minv and binds every builtin name *)
Lemma boot_bare :
  exists s, boot_with [] = Some s /\ load_builtins (vm_empty 8192) = ROk tt s /\ rinv s /\ minv s /\
            genv_rel builtin_rho s /\ genv_rel3 builtin_rho3 s.
Proof.
  destruct (load_builtins_empty 8192 eq_refl) as (s0 & E & M & G1 & G3). exists s0.
  pose proof (load_builtins_rinv (vm_empty 8192) (rinv_empty 8192 eq_refl)) as R. rewrite E in R.
  unfold boot_with. rewrite E. split; [reflexivity|]. auto.
Qed.

(* (not '#f) on that machine: the operator is the GLOBAL `not` bound by load_builtins; every
   hypothesis of eval_fragment3 holds there with the environment of ALL builtin names ... *)
Definition bn_e : expr3 := YApp (YVar (S_ "not")) [YQuote (CBool false)].
Lemma bn_hypotheses :
  exists s, load_builtins (vm_empty 8192) = ROk tt s /\ minv s /\ genv_rel3 builtin_rho3 s /\ wf3 bn_e [] /\
    ref_eval3 bsem_not [] [] builtin_rho3 bn_e (R3Base (RDatum (CBool true))) builtin_rho3 /\
    transform_expr TRANSFORM_FUEL s (cell_of3 bn_e) = Ok (cell_of3 bn_e).
Proof.
  destruct boot_bare as (s & _ & E & _ & M & _ & G3). exists s.
  split; [exact E|]. split; [exact M|]. split; [exact G3|]. split.
  { apply wf3_app. split; [reflexivity|]. split; [reflexivity|]. repeat constructor. }
  split.
  { eapply (R3_app_builtin bsem_not [] [] _ _ _ [RDatum (CBool false)] _ B_NOT).
    - cbn [map]. eapply R3_cons; [apply R3_quote|apply R3_nil].
    - apply R3_global; [reflexivity|vm_compute; reflexivity|discriminate].
    - reflexivity. }
  assert (H : match load_builtins (vm_empty 8192) with
              | ROk _ s0 => transform_expr TRANSFORM_FUEL s0 (cell_of3 bn_e)
              | _ => Err 0 end = Ok (cell_of3 bn_e)) by (vm_compute; reflexivity).
  rewrite E in H. exact H.
Qed.
(* ... and the model computes #t *)
Lemma bn_run :
  match load_builtins (vm_empty 8192) with
  | ROk _ s => match eval other_builtin 200 (cell_of3 bn_e) s with
               | ROk (Done c) s' => c = CBool true /\ sp s' = 0 /\ bp s' = 0 /\ ep s' = USIZE_MAX
               | _ => False end
  | _ => False end.
Proof. vm_compute. repeat split. Qed.

(* (quote d) on the machine with the builtins loaded: hypotheses and run *)
Lemma qb_example :
  exists s, boot_with [] = Some s /\ heap_datum qex_datum /\ minv s /\
    match eval other_builtin 100 (quote_of qex_datum) s with
    | ROk (Done c) s' => c = qex_datum /\ sp s' = 0 /\ bp s' = 0 /\ ep s' = USIZE_MAX
    | _ => False
    end.
Proof.
  destruct boot_bare as (s & B & E & _ & M & _). exists s.
  split; [exact B|]. split; [exact qex_heap_datum|]. split; [exact M|].
  assert (H : match load_builtins (vm_empty 8192) with
              | ROk _ s0 => match eval other_builtin 100 (quote_of qex_datum) s0 with
                            | ROk (Done c) s' => c = qex_datum /\ sp s' = 0 /\ bp s' = 0 /\ ep s' = USIZE_MAX
                            | _ => False end
              | _ => False end) by (vm_compute; repeat split).
  rewrite E in H. exact H.
Qed.
