(* DerivedTail.v — C04: the R7RS tail sub-forms of the derived forms shipped in the
   GENERATED prelude land in tail position of the code the model compiler emits.
   Decided by reflection: the real expander (Transform.v over the prelude's macros,
   installed by booting the model VM on Gen/Prelude.v) and the real compiler run on
   every composition of tail contexts up to depth three; in the emitted bytecode of
   every lambda created, each call of the marker procedure [k] must be TCALL and
   each call of the marker [j] (placed in non-tail positions) must be CALL.      *)
From Coq Require Import String.
From MW Require Import Model.Base Model.F64 Model.Num Model.NumFmt Model.Datum Model.Lex Model.Parse
  Model.TransformDef Model.Transform Model.VmTypes Model.Heap Model.VmBase Model.Compile Model.Vm
  Model.Builtins.
Open Scope N_scope.

Definition Sy (s : String.string) : cell := CSym (S_ s).
Definition L (l : list cell) : cell := new_list l.
Definition I (z : Z) : cell := CNum (Fixnum z).
Definition callk : cell := L [Sy "k"].                 (* tail marker *)
Definition callk2 : cell := L [Sy "k"; I 1; I 2].
Definition callj : cell := L [Sy "j"].                 (* non-tail marker *)

(* one-hole contexts whose hole is an R7RS tail position of the context *)
Definition contexts : list (cell -> cell) := [
  (fun h => L [Sy "if"; Sy "x"; h; callk]);
  (fun h => L [Sy "if"; Sy "x"; callk; h]);
  (fun h => L [Sy "if"; callj; h]);
  (fun h => L [Sy "cond"; L [Sy "x"; callj; h]]);
  (fun h => L [Sy "cond"; L [callj; callk]; L [Sy "else"; callj; h]]);
  (fun h => L [Sy "cond"; L [Sy "x"; h]; L [Sy "y"; Sy "=>"; Sy "k"]; L [Sy "else"; callk]]);
  (fun h => L [Sy "cond"; L [Sy "x"]; L [Sy "y"; h]]);
  (fun h => L [Sy "case"; Sy "x"; L [L [I 1; I 2]; callj; h]; L [Sy "else"; callk]]);
  (fun h => L [Sy "case"; callj; L [L [I 1]; callk]; L [Sy "else"; callj; h]]);
  (fun h => L [Sy "case"; Sy "x"; L [L [I 1]; Sy "=>"; Sy "k"]; L [L [I 2]; h]]);
  (fun h => L [Sy "and"; callj; Sy "x"; h]);
  (fun h => L [Sy "or"; callj; Sy "x"; h]);
  (fun h => L [Sy "when"; callj; callj; h]);
  (fun h => L [Sy "unless"; Sy "x"; callj; h]);
  (fun h => L [Sy "let"; L [L [Sy "y"; callj]]; callj; h]);
  (fun h => L [Sy "let*"; L [L [Sy "y"; callj]; L [Sy "z"; Sy "y"]]; h]);
  (fun h => L [Sy "letrec"; L [L [Sy "g"; L [Sy "lambda"; L []; callj; I 1]]]; callj; h]);
  (fun h => L [Sy "let"; Sy "loop"; L [L [Sy "i"; callj]]; callj; h]);
  (fun h => L [Sy "begin"; callj; h])
].
Definition leaves : list cell := [callk; callk2].

Definition depth1 : list cell := flat_map (fun c => map c leaves) contexts.
(* Deeper compositions over one leaf.  Depth two: one representative context per
   derived form (if, cond, case, and, or, when, let, named let, begin) at both levels;
   depth three: the forms the prelude implements by recursive macros or by
   (lambda () ...) thunks (cond, case, and, let, begin) at all three levels.  Macro
   expansion inside vm_compute costs ~0.5 s per depth-three form, which bounds what
   is affordable here; the differential check of C04 covers the rest of the product. *)
Definition core_contexts : list (cell -> cell) :=
  map (fun i => nth i contexts (fun h => h)) [0; 4; 8; 10; 11; 12; 14; 17; 18]%nat.
Definition inner_contexts : list (cell -> cell) :=
  map (fun i => nth i contexts (fun h => h)) [4; 8; 10; 14; 18]%nat.
Definition depth2 : list cell :=
  flat_map (fun c1 => map (fun c2 => c1 (c2 callk)) core_contexts) core_contexts.
Definition depth3 : list cell :=
  flat_map (fun c1 => flat_map (fun c2 => map (fun c3 => c1 (c2 (c3 callk))) inner_contexts) inner_contexts)
           inner_contexts.

(* (define (f x y) FORM): FORM is the last body expression *)
Definition wrap (form : cell) : cell :=
  L [Sy "define"; L [Sy "f"; Sy "x"; Sy "y"]; form].

Definition gslot_of (s : vm) (name : text) : option N :=
  match symtab_find (symtab (hp s)) name with
  | Some p => assoc_find (g_bind s) p
  | None => None
  end.

(* every [Mov genv[slot] %acc] immediately followed by a call instruction *)
Fixpoint calls_ok (bc : list vcell) (kslot jslot : N) : bool :=
  match bc with
  | x :: tl =>
      match x, tl with
      | VOp OMov, VGSlot g :: VAcc :: VOp op :: _ =>
          if g =? kslot then match op with OTCallAcc => true | _ => false end
          else if g =? jslot then match op with OCallAcc => true | _ => false end
          else true
      | _, _ => true
      end && calls_ok tl kslot jslot
  | [] => true
  end.

Fixpoint count_calls (bc : list vcell) (slot : N) : nat :=
  match bc with
  | x :: tl =>
      (match x, tl with
       | VOp OMov, VGSlot g :: VAcc :: VOp op :: _ => if (g =? slot)%N then 1 else 0
       | _, _ => 0
       end + count_calls tl slot)%nat
  | [] => O
  end.

(* compile (define (f x y) form) on the booted machine [s0] (in which k and j have
   global slots) and check every lambda the compilation created *)
Definition check_form (s0 : vm) (kslot jslot : N) (form : cell) : bool :=
  match compile_runnable (wrap form) s0 with
  | ROk _ s1 =>
      let first := next_id (st s0) in
      let n := N.to_nat (next_id (st s1) - first) in
      let ids := map (fun i => first + N.of_nat i) (seq 0 n) in
      forallb (fun id => match tget (lams (st s1)) id with
                         | Some l => calls_ok (l_bc l) kslot jslot
                         | None => true end) ids
      (* at least one tail call of k must have been emitted: the check is not vacuous *)
      && (0 <? fold_right (fun id acc => match tget (lams (st s1)) id with
                                        | Some l => acc + count_calls (l_bc l) kslot
                                        | None => acc end)%nat O ids)%nat
  | _ => false
  end.

Definition prepare : option (vm * N * N) :=
  match booted with
  | None => None
  | Some s0 =>
      (* make sure k and j own global slots, as (define k ..) would *)
      match (dom pk <- put_cell_m (Sy "k"); dom ak <- as_ptr pk; dom sk <- get_binding ak;
             dom pj <- put_cell_m (Sy "j"); dom aj <- as_ptr pj; dom sj <- get_binding aj;
             ret (sk, sj)) s0 with
      | ROk (sk, sj) s1 => Some (s1, sk, sj)
      | _ => None
      end
  end.

Definition all_forms : list cell := depth1 ++ depth2 ++ depth3.

Definition derived_tail_check : bool :=
  match prepare with
  | Some (s1, sk, sj) => forallb (check_form s1 sk sj) all_forms
  | None => false
  end.

Lemma derived_tail_holds : derived_tail_check = true.
Proof. vm_compute. reflexivity. Qed.

(* the statement in terms of individual forms *)
Theorem derived_tail : forall s1 sk sj form,
  prepare = Some (s1, sk, sj) -> In form all_forms -> check_form s1 sk sj form = true.
Proof.
  intros s1 sk sj form Hp Hin. pose proof derived_tail_holds as H.
  unfold derived_tail_check in H. rewrite Hp in H.
  rewrite forallb_forall in H. apply H. exact Hin.
Qed.
