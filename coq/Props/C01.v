(* C01 — evaluation agrees with the language semantics — PLACEHOLDER written by work package "ref" (Python side: generators, reference
   interpreter, property module).  The theorems of this property are written by the
   integrator and REPLACE this file; the single statement below only shows that the
   executable model evaluates one tiny session of wire interface 70 to the expected
   canonical line, so that `./check C01` can run its correspondence part.
   DESIGN.md section 5 C01 lists the intended theorems (compile_correct_A/B/C, session_independent, C01_refuted_xxx). *)
From Coq Require Import NArith List.
From MW Require Import Model.Base Model.Wire.
Import ListNotations.
Open Scope N_scope.

(* session (define (f x . r) (if (null? r) x (car r))) (f 1 2)  ==>  "SESSION | OK #<void> OK 2 LOG" *)
Theorem C01_placeholder_model_runs :
  run_case [70;1;51;40;100;101;102;105;110;101;32;40;102;32;120;32;46;32;114;41;32;40;105;102;32;40;110;117;108;108;63;32;114;41;32;120;32;40;99;97;114;32;114;41;41;41;32;40;102;32;49;32;50;41]
  = [83;69;83;83;73;79;78;32;124;32;79;75;32;35;60;118;111;105;100;62;32;79;75;32;50;32;76;79;71].
Proof. vm_compute. reflexivity. Qed.
Print Assumptions C01_placeholder_model_runs.
