(* C01 — evaluation agrees with the language semantics for core and derived forms.
   What is PROVED here about the model of the real pipeline (Model/Compile.v,
   Model/Vm.v, Model/Transform.v over the GENERATED prelude):
     * operand evaluation order and the CALL protocol (bytecode shape of an application);
     * `if` compiles test / consequent / alternate with the tail flag inherited;
     * the model reproduces, on concrete sessions, each recorded defect class
       (refutation witnesses) — the property is FALSE on the pinned tree for those;
   together with the scoping theorems of C02, the frame theorems of C04, the
   continuation theorems of C05 and the run-loop theorems of C07/C13.
   OPEN: the semantic compile-correctness theorem (C01_compile_correct_stmt). The
   reference semantics used as the spec oracle by the check is lib/scheme_ref.py.  *)
From Coq Require Import String.
From MW Require Import Model.Base Model.Datum Model.VmTypes Model.Heap Model.VmBase Model.Compile Model.Vm
  Model.Builtins Model.WireVm Proofs.CompileProofs.
Open Scope N_scope.

(* operands strictly left to right, each compiled as a non-tail expression and
   pushed; then the argument count; then the operator; then TCALL in tail position
   and CALL otherwise (compile.rs:530-558) *)
Theorem C01_application_shape : forall f l tail proc rest,
  special_head proc = false ->
  compile_expression (S f) l tail (CPair proc rest) =
  (dom (l1, n) <- args_loop (compile_expression f) rest l 0;
   dom l3 <- compile_expression f (emit (emit_op l1 OPushImmediate) (VArgc n)) false proc;
   ret (emit_op l3 (if tail then OTCallAcc else OCallAcc))).
Proof. exact compile_application_eq. Qed.
Print Assumptions C01_application_shape.

Theorem C01_application_call_kind : forall f l tail proc rest l' s s',
  special_head proc = false ->
  compile_expression (S f) l tail (CPair proc rest) s = ROk l' s' ->
  hd VUndef (l_bc l') = VOp (if tail then OTCallAcc else OCallAcc).
Proof. exact application_call_kind. Qed.
Print Assumptions C01_application_call_kind.

(* `if` (compile.rs:577-624): JNT over the consequent, JMP over the alternate, both
   branches compiled with the tail flag of the whole form, #<void> for a missing
   alternate *)
Theorem C01_if_shape : forall f l tail rest,
  compile_expression (S f) l tail (CPair (CSym (S_ "if")) rest) =
  (if is_nil rest || negb (is_list rest) then fail E_OTHER else
   dom (test, conseq, alt) <-
     (match cell_iter rest with
      | [t; c] => ret (t, c, None)
      | [t; c; a] => ret (t, c, Some a)
      | _ => fail E_OTHER
      end);
   dom l1 <- compile_expression f l false test;
   let l2 := emit_op l1 OJnt in
   let jnt_operand := bc_len l2 in
   let l3 := emit l2 (VPtr CAFEBEEF) in
   dom l4 <- compile_expression f l3 tail conseq;
   let l5 := emit_op l4 OJmp in
   let jmp_operand := bc_len l5 in
   let l6 := emit l5 (VPtr CAFEBEEF) in
   let l7 := bc_patch l6 jnt_operand (VPtr (bc_len l6)) in
   dom l8 <- (match alt with
              | Some a => compile_expression f l7 tail a
              | None => ret (emit (emit (emit_op l7 OMovImmediate) VVoid) VAcc)
              end);
   ret (bc_patch l8 jmp_operand (VPtr (bc_len l8)))).
Proof. exact compile_if_eq. Qed.
Print Assumptions C01_if_shape.

(* The full statement, kept visible.  OPEN. *)
Definition C01_compile_correct_stmt : Prop :=
  forall (reference : list text -> list N) (forms : list text),
    (* for every session of the generator grammar outside the recorded defect classes *)
    run_session forms = reference forms.

(* Refutation witnesses: the model (as the implementation) gives, for these sessions,
   an answer R7RS does not prescribe: unquote of a captured variable inside a nested
   lambda is "not bound"; a quasiquoted vector literal accumulates across
   evaluations; a top-level (begin (define ..)) defines nothing; the prelude's `or`
   captures a user variable named var1; a macro use inside a quasiquote template is
   expanded; a dotted unquote is left unevaluated. *)
Definition witness_session : list text :=
  map S_ ["(define (f x) (lambda () `(,x)))"; "((f 1))"; "(define (g) `#(1 2))"; "(g)"; "(g)";
          "(begin (define z 1))"; "z"; "(let ((var1 5)) (or #f var1))"; "`(and 1 2)";
          "`(a . ,(+ 1 2))"]%string.
Theorem C01_refuted_witnesses :
  run_session witness_session =
  S_ "SESSION | OK #<void> | ERR | OK #<void> | OK #(1 2) | OK #(1 2 1 2) | OK #<void> | ERR | OK #f | OK (if 1 2 #f) | OK (a unquote (+ 1 2)) LOG"%string.
Proof. vm_compute. reflexivity. Qed.
Print Assumptions C01_refuted_witnesses.
