(* C01 — evaluation agrees with the language semantics for core and derived forms.
   What is PROVED here about the model of the real pipeline (Model/Compile.v,
   Model/Vm.v, Model/Transform.v over the GENERATED prelude):
     * operand evaluation order and the CALL protocol (bytecode shape of an application);
     * `if` compiles test / consequent / alternate with the tail flag inherited;
     * the model reproduces, on concrete sessions, each recorded defect class
       (refutation witnesses) — the property is FALSE on the pinned tree for those;
     * SEMANTIC compile + run correctness for a FRAGMENT, by induction over all its
       expressions (Proofs/CompileCorrect.v): self-evaluating constants, (quote d), two- and
       one-armed `if`, global variable reference, global `define` / `set!`, application of an
       expression that evaluates to a builtin procedure (builtins abstract: [builtin_ok];
       proved for the real builtin `not`) — C01_fragment_correct below;
     * the same for the fragment EXTENDED with local variables: lambda expressions applied in
       place, ((lambda (x ...) body) e ...) = what `let` expands to, parameters read from the
       activation environment, calls in tail (TCALL) and non-tail (CALL) position, with the
       frame conditions (Proofs/CompileCorrect2.v) — C01_fragment2_correct, C01_eval_fragment2;
     * the same for the fragment extended with CLOSURES AS VALUES: lambda expressions in any
       expression position, inner lambdas capturing variables of enclosing lambdas (captured
       slots are pointers to the slot of the activation environment that owns the variable),
       application of an operator that evaluates to a closure (CALL and TCALL), named procedures
       by (define f (lambda ...)) called by name from later expressions, recursion through the
       global — by induction on the reference derivation (Proofs/Closures3.v, CompileStatic3.v,
       CompileCorrect3.v, EvalFragment3.v) — C01_fragment3_static, C01_fragment3_correct,
       C01_eval_fragment3;
     * the final conversion of the value at HALT (Heap::get_as_cell, whose fuel is an artefact
       of the model): monotone in the fuel, correct whenever the fuel does not run out, and a
       counterexample to "heap size + 1 suffices" (Proofs/CellFuelProofs.v);
     * R2: the machine invariant [minv] assumed by all of the above holds for the BOOTED machine
       and for every state of a session started from it, by preservation (never by evaluating
       [booted]): finv /\ J is kept by the compiler on ANY datum, every instruction, every
       builtin of the generated table, the run loop (also on the error path), Vm::eval and the
       boot sequence — C01_eval_preserves_rinv, C01_booted_minv, C01_session_minv (at the end of
       this file; Proofs/KeepCalc.v .. KeepRun.v, BootMinv.v); load_builtins binds every
       registered builtin name to its VBuiltin cell — C01_load_builtins_ok (Proofs/BootGenv.v);
     * the same for fragment 4 = fragment 3 + lambda BODIES OF SEVERAL EXPRESSIONS (the non-last ones
       compiled in non-tail position and evaluated for effect; `begin` is not a core form of the
       compiler) — C01_fragment4_static, C01_fragment4_correct, C01_eval_fragment4
       (Proofs/Closures4.v .. EvalFragment4.v);
     * the same for fragment 6 = fragment 4 + `set!` ON LOCAL VARIABLES, captured or not, against a
       reference semantics with a STORE OF LOCATIONS (environment = locations, closures capture
       locations; machine side: a growing location map, closure values represented by pointer slots
       only, the frame condition on environments weakened to "pointer slots unchanged, direct slots
       stay direct") — C01_fragment6_static, C01_fragment6_correct, C01_eval_fragment6; the counter
       ((lambda (n) ((lambda (inc) (inc) (inc)) (lambda () (set! n (if n #f #t)) n))) #f) is inside
       the fragment (C01_counter6) (Proofs/FrameSteps5.v, StoreLocal5.v, Closures6.v .. EvalFragment6.v);
     * the (define (f x1 ... xn) body ...) SPELLING: the compiler treats it, as an M-computation,
       exactly as (define f (lambda (x1 ... xn) body ...)) with one level of fuel less —
       C01_define_spelling — and fragment 6's theorems hold for the sugared datum —
       C01_sugar_compile6, C01_eval_fragment6_sugar(_session) (Proofs/DefineSugar.v, DefineSugar6.v);
     * VARARG binds the rest parameter to a fresh proper list of the surplus argument values in
       order — C01_vararg_rest_list (Proofs/VarArgList.v; machine level only);
   together with the scoping theorems of C02, the frame theorems of C04, the
   continuation theorems of C05 and the run-loop theorems of C07/C13.
   OPEN: the semantic compile-correctness theorem for the whole language
   (C01_compile_correct_stmt): internal definitions, variadic lambdas (as expressions), the dotted
   (define (f . args) ...) spelling, builtins applied to closures, quasiquote, define-syntax and the derived forms of the
   prelude are outside the proved fragments. The
   reference semantics used as the spec oracle by the check is lib/scheme_ref.py.  *)
From Coq Require Import String.
From MW Require Import Model.Base Model.Datum Model.VmTypes Model.Heap Model.VmBase Model.Compile Model.Vm
  Model.Builtins Model.WireVm Proofs.CompileProofs Proofs.RunProofs Proofs.CompileCorrect
  Proofs.QuoteHeapProofs Proofs.TailProofs Proofs.FrameSteps Proofs.CellFuelProofs Proofs.CompileCorrect2
  Proofs.FreeSymProofs Proofs.FrameSteps3 Proofs.Closures3 Proofs.CompileCorrect3 Proofs.CompileStatic3
  Proofs.EvalFragment3.
From MW Require Import Model.Gc Proofs.SymtabProofs.
Open Scope N_scope.

(* operands strictly left to right, each compiled as a non-tail expression and
   pushed; then the argument count; then the operator; then TCALL in tail position
   and CALL otherwise (compile.rs:530-558) *)
Theorem C01_application_shape : forall f l tail proc rest,
  special_head proc = false ->
  compile_expression (S f) l tail (CPair proc rest) =
  (dom (l1, n) <- args_loop (compile_expression f) rest l 0;
   dom l3 <- compile_expression f (emit (emit_op l1 OPushImmediate) (VArgc n)) false proc;
   ret (emit_op l3 (if tail then OTCallAcc else OCallAcc))).
Proof. exact compile_application_eq. Qed.
Print Assumptions C01_application_shape.

Theorem C01_application_call_kind : forall f l tail proc rest l' s s',
  special_head proc = false ->
  compile_expression (S f) l tail (CPair proc rest) s = ROk l' s' ->
  hd VUndef (l_bc l') = VOp (if tail then OTCallAcc else OCallAcc).
Proof. exact application_call_kind. Qed.
Print Assumptions C01_application_call_kind.

(* `if` (compile.rs:577-624): JNT over the consequent, JMP over the alternate, both
   branches compiled with the tail flag of the whole form, #<void> for a missing
   alternate *)
Theorem C01_if_shape : forall f l tail rest,
  compile_expression (S f) l tail (CPair (CSym (S_ "if")) rest) =
  (if is_nil rest || negb (is_list rest) then fail E_OTHER else
   dom (test, conseq, alt) <-
     (match cell_iter rest with
      | [t; c] => ret (t, c, None)
      | [t; c; a] => ret (t, c, Some a)
      | _ => fail E_OTHER
      end);
   dom l1 <- compile_expression f l false test;
   let l2 := emit_op l1 OJnt in
   let jnt_operand := bc_len l2 in
   let l3 := emit l2 (VPtr CAFEBEEF) in
   dom l4 <- compile_expression f l3 tail conseq;
   let l5 := emit_op l4 OJmp in
   let jmp_operand := bc_len l5 in
   let l6 := emit l5 (VPtr CAFEBEEF) in
   let l7 := bc_patch l6 jnt_operand (VPtr (bc_len l6)) in
   dom l8 <- (match alt with
              | Some a => compile_expression f l7 tail a
              | None => ret (emit (emit (emit_op l7 OMovImmediate) VVoid) VAcc)
              end);
   ret (bc_patch l8 jmp_operand (VPtr (bc_len l8)))).
Proof. exact compile_if_eq. Qed.
Print Assumptions C01_if_shape.

(* ---------------------------------------------------------------------------------
   Semantic correctness of compile_expression + the VM for the fragment
     e ::= c | (quote d) | (if e e e) | (if e e) | x | (define x e) | (set! x e) | (e e ...)
   (x global; the operator of an application evaluates to a builtin), arbitrary nesting.
   For every well-formed e, every lambda under construction l whose header is that of a
   top-level lambda, either tail flag, every fuel above the size of the form and every
   machine s satisfying the invariant [minv] (interning invariant of the heap, global
   slots allocated injectively, sp < capacity):
     - compile_expression SUCCEEDS, appends a code segment to l (header unchanged), only
       extends heap / Rc tables / global bindings [cext], leaves the registers alone;
     - on EVERY later machine m that extends s', satisfies minv, holds that segment at
       positions [p, p + len code) of the lambda at lp, has ip = (lp, p) and a global
       environment agreeing with rho: if the reference semantics gives e the value r and
       the environment rho', then finitely many instructions (none halting or failing) lead
       to ip = (lp, p + len code) with a representation of r in %acc (read through at most
       one pointer, stable under later allocation), the globals agreeing with rho', and
       sp, bp, ep, the output log and every stack slot up to sp unchanged [frame].
   JNT/JMP operands are the patched absolute positions; CALL and TCALL of a builtin agree.
   Hypothesis on builtins: [builtin_ok ob bsem b] for every b (satisfiable for every table
   with the empty specification; C01_builtin_not_ok proves it for the real `not`). *)
Theorem C01_fragment_correct :
  forall (ob : N -> M vcell) (bsem : N -> list rval -> option rval),
  (forall b, builtin_ok ob bsem b) ->
  forall e, wf_expr e ->
  forall f l tail s, (cell_size (cell_of e) < f)%nat -> top_hdr l -> minv s ->
  exists l' s' code, compile_expression f l tail (cell_of e) s = ROk l' s' /\
    fwd l' = fwd l ++ code /\ same_hdr l l' /\ minv s' /\ cext s s' /\ same_regs s s' /\
    forall rho r rho', ref_eval bsem rho e r rho' ->
    forall m lp bc,
      cext s' m -> minv m -> code_in m lp bc -> seg bc (len (fwd l)) code -> ip m = (lp, len (fwd l)) ->
      genv_rel rho m ->
      exists n m', steps ob n m = Some m' /\ frame m m' /\ minv m' /\
        ip m' = (lp, len (fwd l) + len code) /\
        vrep (acc m') r (hp m') (st m') /\ genv_rel rho' m'.
Proof. exact compile_correct. Qed.
Print Assumptions C01_fragment_correct.

(* Vm::eval (compile_runnable, put_lambda of the body and of the entry lambda, then the run
   loop through PUSH Argc 0 / MOV / CALL / ENTER / code of e / RET / HALT) on a fragment
   expression whose reference value is r: for every sufficient fuel the evaluation is the
   HALT exit [halt_result m] of a machine m whose %acc represents r, whose globals agree
   with rho', which extends s and has the sp, bp, ep and output log of s.  The macro
   expander must leave the form alone (explicit premise; it does whenever no head symbol of
   the form is bound to a macro). *)
Theorem C01_eval_fragment :
  forall (ob : N -> M vcell) (bsem : N -> list rval -> option rval),
  (forall b, builtin_ok ob bsem b) ->
  forall e rho r rho' s,
  wf_expr e -> ref_eval bsem rho e r rho' -> minv s -> genv_rel rho s ->
  transform_expr TRANSFORM_FUEL s (cell_of e) = Ok (cell_of e) ->
  exists n m, (forall fuel, (n <= fuel)%nat -> eval ob fuel (cell_of e) s = halt_result m) /\
    vrep (acc m) r (hp m) (st m) /\ genv_rel rho' m /\ minv m /\ cext s m /\
    sp m = sp s /\ bp m = bp s /\ ep m = ep s /\ out_log m = out_log s.
Proof. exact eval_fragment. Qed.
Print Assumptions C01_eval_fragment.

(* ... and the HALT exit converts %acc to the reference value (for a builtin: its
   #<procedure> datum) and wipes the stack, provided the fuel of the model's get_as_cell
   ([cell_fuel] = heap size + 1) covers the depth k of the value.  That the heap size
   always covers it is FALSE (C01_cell_fuel_insufficient below); the usable forms of this
   statement are C01_halt_result_done_nofuel and C01_halt_result_done_cost. *)
Theorem C01_halt_result_done : forall m r, vrep (acc m) r (hp m) (st m) ->
  exists k, (k <= cell_fuel m)%nat ->
    halt_result m = ROk (Done (rcell r)) (with_stack m tempty (sp m)).
Proof. exact halt_result_done. Qed.
Print Assumptions C01_halt_result_done.

(* ---------------------------------------------------------------------------------
   R1: the fuel of the model's get_as_cell.  The Rust Heap::get_as_cell has no bound (it does
   not terminate on cyclic data); the model passes a fuel that bounds the DEPTH of the
   traversal.  A result other than NoFuel is the result for every larger fuel. *)
Theorem C01_gac_fuel_monotone : forall bname h s f g v, (f <= g)%nat ->
  get_as_cell bname h s f v <> NoFuel -> get_as_cell bname h s g v = get_as_cell bname h s f v.
Proof. exact gac_mono_le. Qed.
Print Assumptions C01_gac_fuel_monotone.

(* the honest premise: unless the model's fuel runs out, HALT yields the reference value *)
Theorem C01_halt_result_done_nofuel : forall m r, vrep (acc m) r (hp m) (st m) ->
  halt_result m <> RNoFuel ->
  halt_result m = ROk (Done (rcell r)) (with_stack m tempty (sp m)).
Proof. exact halt_result_done_nofuel. Qed.
Print Assumptions C01_halt_result_done_nofuel.

(* a sufficient structural bound: on a heap without pointer chains the fuel [rcost r] =
   1 + dcost (car and vector nesting counted twice, cdr nesting once) is enough *)
Theorem C01_gac_cost : forall bname h s, no_ptr_cells h -> forall f v c,
  get_as_cell bname h s f v = Ok c ->
  get_as_cell bname h s (S (dcost c)) v = Ok c /\
  ((forall q, v <> VPtr q) -> get_as_cell bname h s (dcost c) v = Ok c).
Proof. exact gac_cost. Qed.
Print Assumptions C01_gac_cost.

Theorem C01_halt_result_done_cost : forall m r, vrep (acc m) r (hp m) (st m) ->
  no_ptr_cells (hp m) -> (rcost r <= cell_fuel m)%nat ->
  halt_result m = ROk (Done (rcell r)) (with_stack m tempty (sp m)).
Proof. exact halt_result_done_cost. Qed.
Print Assumptions C01_halt_result_done_cost.

(* C01_eval_fragment with `Done (rcell r)` as its conclusion, under either premise *)
Theorem C01_eval_fragment_done :
  forall (ob : N -> M vcell) (bsem : N -> list rval -> option rval),
  (forall b, builtin_ok ob bsem b) ->
  forall e rho r rho' s,
  wf_expr e -> ref_eval bsem rho e r rho' -> minv s -> genv_rel rho s ->
  transform_expr TRANSFORM_FUEL s (cell_of e) = Ok (cell_of e) ->
  exists n m,
    vrep (acc m) r (hp m) (st m) /\ genv_rel rho' m /\ minv m /\ cext s m /\
    sp m = sp s /\ bp m = bp s /\ ep m = ep s /\ out_log m = out_log s /\
    (forall fuel, (n <= fuel)%nat -> eval ob fuel (cell_of e) s = halt_result m) /\
    (halt_result m <> RNoFuel \/ (no_ptr_cells (hp m) /\ (rcost r <= cell_fuel m)%nat) ->
     forall fuel, (n <= fuel)%nat ->
       eval ob fuel (cell_of e) s = ROk (Done (rcell r)) (with_stack m tempty (sp m))).
Proof. exact eval_fragment_done. Qed.
Print Assumptions C01_eval_fragment_done.

(* heap size + 1 is NOT a sufficient fuel, even for tree-shaped acyclic data: the constant
   #(#(#(#(#(#(#(#(1)))))))) satisfies every hypothesis of C01_eval_fragment on a machine with
   a 2-cell chunk; at HALT the heap has 10 cells (fuel 11), the value needs 18, the model
   answers NoFuel (where the Rust prints the vector), and 18 units convert it *)
Example C01_cell_fuel_insufficient :
  wf_expr nv_e /\ ref_eval (fun _ _ => None) rho_empty nv_e (RDatum (nest_vec 8)) rho_empty /\
  minv (vm_empty 2) /\
  transform_expr TRANSFORM_FUEL (vm_empty 2) (cell_of nv_e) = Ok (cell_of nv_e) /\
  rcost (RDatum (nest_vec 8)) = 18%nat /\
  (match prepare_eval (cell_of nv_e) (vm_empty 2) with
   | ROk _ s0 =>
      match steps other_builtin 6 s0 with
      | Some m6 =>
          match run_one other_builtin m6 with
          | ROk true m => cell_fuel m = 11%nat /\ halt_result m = RNoFuel /\
                          get_as_cell builtin_name (hp m) (st m) 18 (acc m) = Ok (nest_vec 8)
          | _ => False
          end
      | None => False
      end
   | _ => False
   end) /\
  eval other_builtin 1000 (cell_of nv_e) (vm_empty 2) = RNoFuel.
Proof. exact fuel_insufficient_example. Qed.

(* n instructions that neither halt nor fail are n iterations of the run loop *)
Theorem C01_steps_run_loop : forall ob n m m' f cyc, steps ob n m = Some m' ->
  run_loop ob (n + f) cyc None m = run_loop ob f 0 None m'.
Proof. exact run_loop_steps. Qed.
Print Assumptions C01_steps_run_loop.

(* the builtin hypothesis holds for the real `not` of the generated table, with the
   specification "not of one argument is #t exactly on #f" *)
Theorem C01_builtin_not_ok : forall b, builtin_ok other_builtin bsem_not b.
Proof. exact builtin_ok_not. Qed.
Print Assumptions C01_builtin_not_ok.

(* ... and trivially for any table with the empty specification *)
Theorem C01_builtin_ok_satisfiable : forall ob b, builtin_ok ob (fun _ _ => None) b.
Proof. exact builtin_ok_unspecified. Qed.
Print Assumptions C01_builtin_ok_satisfiable.

(* non-vacuity: the hypotheses of C01_fragment_correct hold for
   (if (define x '(#t)) x #f) on the empty machine, whose reference value is (#t) *)
Example C01_fragment_example :
  wf_expr ex_e /\ minv (vm_empty 8192) /\ genv_rel rho_empty (vm_empty 8192) /\
  ref_eval bsem_not rho_empty ex_e (RDatum ex_datum) (upd rho_empty (S_ "x") (RDatum ex_datum)).
Proof. exact ex_hypotheses. Qed.
(* the model evaluates that form on the empty machine to (#t), as C01_eval_fragment and
   C01_halt_result_done predict (the premise on transform_expr holds by computation) *)
Example C01_fragment_example_run :
  transform_expr TRANSFORM_FUEL (vm_empty 8192) (cell_of ex_e) = Ok (cell_of ex_e) /\
  match eval other_builtin 100 (cell_of ex_e) (vm_empty 8192) with
  | ROk (Done c) s' => c = ex_datum /\ sp s' = 0 /\ bp s' = 0 /\ ep s' = USIZE_MAX
  | _ => False
  end.
Proof. vm_compute. repeat split. Qed.
(* (not (not '#f)) has the reference value #f wherever `not` is bound to the builtin *)
Example C01_fragment_example_app : forall rho, rho (S_ "not") = Some (RBuiltin B_NOT) ->
  wf_expr ex_app /\ ref_eval bsem_not rho ex_app (RDatum (CBool false)) rho.
Proof. exact ex_app_ref. Qed.

(* ---------------------------------------------------------------------------------
   The fragment extended with LOCAL VARIABLES of lambda expressions applied in place:
     e ::= ... | ((lambda (x1 ... xn) body) e1 ... en)      (what `let` expands to)
   body again in the fragment; a variable is a parameter of the innermost enclosing lambda
   ([pindex]) or a global; define / set! on globals only; nothing captured ([nocapture]: the
   compiler's free-symbol analysis of the lambda finds no parameter of the enclosing lambda;
   implied by the syntactic [swf_expr2], C01_wf2_syntactic below).
   As marwood compiles it: a parameter is a slot of the activation ENVIRONMENT (every formal
   is an (sym, Argument i) entry of the environment map), read by MOV (lexical slot i); the
   lambda expression is MOV_IMMEDIATE + CLOSURE; the call is CALL, or TCALL in tail position.
   [hdr l ps s]: the lambda under construction has the parameters ps (interned in s) and an
   environment map consisting of them.  [lrel lv m]: the environment %ep points to holds the
   values lv.  The code either ends at its last instruction with sp / bp / ep / output log /
   the stack up to sp / the existing environments unchanged ([ok_n], [frame2]), or — only
   for code compiled in tail position inside a frame [tframe] — by a tail call whose callee
   returns from that frame ([ok_t]: sp = frame base, ep / ip / bp = the saved ones, the stack
   up to the base unchanged). *)
Theorem C01_fragment2_correct :
  forall (ob : N -> M vcell) (bsem : N -> list rval -> option rval),
  (forall b, builtin_ok ob bsem b) -> (forall b, builtin_envs ob bsem b) ->
  forall e ps, wf_expr2 e ps ->
  forall f l tail s, (cell_size (cell_of2 e) < f)%nat -> hdr l ps s -> minv s ->
  exists l' s' code, compile_expression f l tail (cell_of2 e) s = ROk l' s' /\
    fwd l' = fwd l ++ code /\ same_hdr l l' /\ minv s' /\ cext s s' /\ same_regs s s' /\
    forall lv rho r rho', ref_eval2 bsem ps lv rho e r rho' ->
    forall m lp bc,
      cext s' m -> minv m -> code_in m lp bc -> seg bc (len (fwd l)) code -> ip m = (lp, len (fwd l)) ->
      genv_rel rho m -> lrel lv m -> (tail = true -> tframe m) ->
      ok_n ob m lp (len (fwd l) + len code) r rho' \/ (tail = true /\ ok_t ob m r rho').
Proof. exact compile_correct2. Qed.
Print Assumptions C01_fragment2_correct.

(* [wf_expr2] states "nothing is captured" through the compiler's analysis [free_symbols]; it
   follows from the purely syntactic [swf_expr2]: same conditions, with [nocapture] replaced by
   "every variable (or set! target) mentioned anywhere in the body of a lambda is one of ITS
   parameters or is not a parameter of the enclosing lambda".  Behind it: the analysis [ffs]
   succeeds on the fragment and reports only variables that occur in the expression and are
   not bound by the environment it is given (Proofs/FreeSymProofs.v). *)
Theorem C01_wf2_syntactic : forall e ps, swf_expr2 e ps -> wf_expr2 e ps.
Proof. exact swf_wf. Qed.
Print Assumptions C01_wf2_syntactic.
Theorem C01_free_symbols_sound : forall e ps, swf_expr2 e ps ->
  forall f env fs0, (cell_size (cell_of2 e) < f)%nat ->
  exists fs1, ffs f (cell_of2 e) env (map CSym fs0) = Ok (map CSym (fs0 ++ fs1)) /\
    forall x, In x fs1 -> In x (allvars e) /\ cell_in_syms (CSym x) env = false.
Proof. exact ffs_spec_swf. Qed.
Print Assumptions C01_free_symbols_sound.
Example C01_fragment2_examples_syntactic : swf_expr2 ex2_e [] /\ swf_expr2 ex3_e [].
Proof. exact (conj ex2_swf ex3_swf). Qed.

(* the two outcomes, spelled out *)
Theorem C01_ok_n_unfold : forall ob m lp q r rho', ok_n ob m lp q r rho' <->
  exists n m', steps ob n m = Some m' /\ frame2 m m' /\ minv m' /\ ip m' = (lp, q) /\
    vrep (acc m') r (hp m') (st m') /\ genv_rel rho' m'.
Proof. intros; reflexivity. Qed.
Print Assumptions C01_ok_n_unfold.
Theorem C01_ok_t_unfold : forall ob m r rho', ok_t ob m r rho' <->
  exists n m' k e i b, steps ob n m = Some m' /\ frame_at m k e i b /\ rext m m' /\ minv m' /\
    vrep (acc m') r (hp m') (st m') /\ genv_rel rho' m' /\
    sp m' = bp m - k /\ ep m' = e /\ ip m' = i /\ bp m' = b /\ out_log m' = out_log m /\
    (forall j, j <= bp m - k -> sget m' j = sget m j).
Proof. intros; reflexivity. Qed.
Print Assumptions C01_ok_t_unfold.

(* Vm::eval on an expression of the extended fragment *)
Theorem C01_eval_fragment2 :
  forall (ob : N -> M vcell) (bsem : N -> list rval -> option rval),
  (forall b, builtin_ok ob bsem b) -> (forall b, builtin_envs ob bsem b) ->
  forall e rho r rho' s,
  wf_expr2 e [] -> ref_eval2 bsem [] [] rho e r rho' -> minv s -> genv_rel rho s ->
  transform_expr TRANSFORM_FUEL s (cell_of2 e) = Ok (cell_of2 e) ->
  exists n m, (forall fuel, (n <= fuel)%nat -> eval ob fuel (cell_of2 e) s = halt_result m) /\
    vrep (acc m) r (hp m) (st m) /\ genv_rel rho' m /\ minv m /\ cext s m /\
    sp m = sp s /\ bp m = bp s /\ ep m = ep s /\ out_log m = out_log s.
Proof. exact eval_fragment2. Qed.
Print Assumptions C01_eval_fragment2.

Theorem C01_eval_fragment2_done :
  forall (ob : N -> M vcell) (bsem : N -> list rval -> option rval),
  (forall b, builtin_ok ob bsem b) -> (forall b, builtin_envs ob bsem b) ->
  forall e rho r rho' s,
  wf_expr2 e [] -> ref_eval2 bsem [] [] rho e r rho' -> minv s -> genv_rel rho s ->
  transform_expr TRANSFORM_FUEL s (cell_of2 e) = Ok (cell_of2 e) ->
  exists n m,
    vrep (acc m) r (hp m) (st m) /\ genv_rel rho' m /\ minv m /\ cext s m /\
    sp m = sp s /\ bp m = bp s /\ ep m = ep s /\ out_log m = out_log s /\
    (forall fuel, (n <= fuel)%nat -> eval ob fuel (cell_of2 e) s = halt_result m) /\
    (halt_result m <> RNoFuel \/ (no_ptr_cells (hp m) /\ (rcost r <= cell_fuel m)%nat) ->
     forall fuel, (n <= fuel)%nat ->
       eval ob fuel (cell_of2 e) s = ROk (Done (rcell r)) (with_stack m tempty (sp m))).
Proof. exact eval_fragment2_done. Qed.
Print Assumptions C01_eval_fragment2_done.

(* the second hypothesis on builtins (a builtin with a specified result leaves the lexical
   environments alone) holds for the real `not`, and for any table with the empty specification *)
Theorem C01_builtin_not_envs : forall b, builtin_envs other_builtin bsem_not b.
Proof. exact builtin_envs_not. Qed.
Print Assumptions C01_builtin_not_envs.
Theorem C01_builtin_envs_satisfiable : forall ob b, builtin_envs ob (fun _ _ => None) b.
Proof. exact builtin_envs_unspecified. Qed.
Print Assumptions C01_builtin_envs_satisfiable.

(* non-vacuity: ((lambda (x y) (if x y 'no)) #t '(1 2)) satisfies the hypotheses on the empty
   machine and has the reference value (1 2) ... *)
Example C01_fragment2_example :
  wf_expr2 ex2_e [] /\ minv (vm_empty 8192) /\ genv_rel rho_empty (vm_empty 8192) /\
  ref_eval2 bsem_not [] [] rho_empty ex2_e (RDatum ex2_list) rho_empty.
Proof. exact ex2_hypotheses. Qed.
(* ... and the model evaluates it to (1 2) with the registers of the start *)
Example C01_fragment2_example_run :
  transform_expr TRANSFORM_FUEL (vm_empty 8192) (cell_of2 ex2_e) = Ok (cell_of2 ex2_e) /\
  match eval other_builtin 100 (cell_of2 ex2_e) (vm_empty 8192) with
  | ROk (Done c) s' => c = ex2_list /\ sp s' = 0 /\ bp s' = 0 /\ ep s' = USIZE_MAX
  | _ => False
  end.
Proof. vm_compute. repeat split. Qed.
(* nested, both applications in tail position (two TCALLs that rebuild the frame), an operand
   that is a parameter: ((lambda (x) ((lambda (y z) (if y z 'no)) x '(1 2))) #t) *)
Example C01_fragment2_example_tail :
  wf_expr2 ex3_e [] /\ ref_eval2 bsem_not [] [] rho_empty ex3_e (RDatum ex2_list) rho_empty.
Proof. exact ex3_hypotheses. Qed.
Example C01_fragment2_example_tail_run :
  transform_expr TRANSFORM_FUEL (vm_empty 8192) (cell_of2 ex3_e) = Ok (cell_of2 ex3_e) /\
  match eval other_builtin 100 (cell_of2 ex3_e) (vm_empty 8192) with
  | ROk (Done c) s' => c = ex2_list /\ sp s' = 0 /\ bp s' = 0 /\ ep s' = USIZE_MAX
  | _ => False
  end.
Proof. vm_compute. repeat split. Qed.

(* ---------------------------------------------------------------------------------
   The fragment extended with CLOSURES AS VALUES (Proofs/Closures3.v):
     e ::= ... | (lambda (x1 ... xn) body)   in ANY position; body: one expression of the fragment
             | (e0 e1 ... en)                e0 evaluates to a builtin or to a CLOSURE
   An inner lambda may mention the variables of the enclosing lambdas: they are CAPTURED.  A
   variable is a parameter of an enclosing lambda or a global; define / set! act on globals
   (local variables are immutable in this fragment), so (define f (lambda ...)) names a
   procedure, later expressions call it by name, and it may call itself through its global.
   [YLam ps fs body] carries the compiler's free-symbol list fs as an annotation; [wf3] demands
   `free_symbols (lambda form) = Ok fs` and that fs covers every variable of the body that the
   enclosing scope binds.  Values [rval3]: data, builtins, closures (parameters, captured names,
   body, captured values).  [ref_eval3 sc lv rho e r rho']: sc / lv = the names / values the
   environment of the running lambda binds (parameters, then captured variables).
   As marwood compiles it: the environment map of a lambda = its parameters, then the free
   symbols of the lambda expression that the enclosing map binds ([hdr3]); CLOSURE builds the
   closure environment (captured slots = pointers (environment address, slot) to the slot of the
   activation environment that owns the variable; an existing pointer is copied: at most one
   indirection); ENTER copies arguments and pointers into a new activation environment; a
   variable reference is MOV (lexical slot i) which follows at most one pointer.
   [vrep3 m v r]: for a closure, v points to a VClosure cell whose lambda holds ENTER; the code
   compile_expression emitted for the body in tail position; RET, and whose environment's
   captured slots point to slots holding representations of the captured values. *)

(* compile time: compile_expression succeeds on every well-formed expression, under every header
   binding the scope sc, and leaves the lexical-environment table alone *)
Theorem C01_fragment3_static : forall e sc, wf3 e sc ->
  forall f l tail s, (cell_size (cell_of3 e) < f)%nat -> hdr3 l sc s -> minv s ->
  exists l' s' code, compile_expression f l tail (cell_of3 e) s = ROk l' s' /\
    fwd l' = fwd l ++ code /\ same_hdr l l' /\ minv s' /\ cext s s' /\ same_regs s s' /\
    envs (st s') = envs (st s).
Proof. exact static3. Qed.
Print Assumptions C01_fragment3_static.

(* run time, by induction on the REFERENCE DERIVATION (closures make induction over the
   expression insufficient: the body that runs at a call is not a subterm of the call): for every
   derivation `ref_eval3 sc lv rho e r rho'` and every compilation of e (any lambda under
   construction whose environment map binds sc, any tail flag, any sufficient fuel, any state
   with minv) that produced `code`: on every later machine m that holds code at
   [p, p + len code) of the lambda at lp, with ip = (lp, p), globals agreeing with rho [genv_rel3],
   the environment %ep points to holding lv directly or through one pointer [lrel3], and — for
   tail code — a frame below sp [tframe]: finitely many instructions lead to ip = (lp, p + len code)
   with a representation of r in %acc, globals agreeing with rho', sp / bp / ep / output log / the
   stack up to sp / all existing environments unchanged; or, only for tail code, to the state the
   RET of the current frame produces (a TCALL re-used the frame and the callee returned from it). *)
Theorem C01_fragment3_correct :
  forall (ob : N -> M vcell) (bsem : N -> list rval -> option rval),
  (forall b, builtin_ok ob bsem b) -> (forall b, builtin_envs ob bsem b) ->
  forall sc lv rho e r rho', ref_eval3 bsem sc lv rho e r rho' ->
  forall f l tail s l' s' code, wf3 e sc -> (cell_size (cell_of3 e) < f)%nat -> hdr3 l sc s -> minv s ->
    compile_expression f l tail (cell_of3 e) s = ROk l' s' -> fwd l' = fwd l ++ code ->
    forall m lp bc,
      cext s' m -> minv m -> code_in m lp bc -> seg bc (len (fwd l)) code -> ip m = (lp, len (fwd l)) ->
      genv_rel3 rho m -> lrel3 lv m -> (tail = true -> tframe m) ->
      ok_n3 ob m lp (len (fwd l) + len code) r rho' \/ (tail = true /\ ok_t3 ob m r rho').
Proof. exact compile_correct3. Qed.
Print Assumptions C01_fragment3_correct.

(* the two outcomes, spelled out *)
Theorem C01_ok_n3_unfold : forall ob m lp q r rho', ok_n3 ob m lp q r rho' <->
  exists n m', steps ob n m = Some m' /\ frame2 m m' /\ minv m' /\ ip m' = (lp, q) /\
    vrep3 m' (acc m') r /\ genv_rel3 rho' m'.
Proof. intros; reflexivity. Qed.
Print Assumptions C01_ok_n3_unfold.
Theorem C01_ok_t3_unfold : forall ob m r rho', ok_t3 ob m r rho' <->
  exists n m' k e i b, steps ob n m = Some m' /\ frame_at m k e i b /\ rext m m' /\ minv m' /\
    vrep3 m' (acc m') r /\ genv_rel3 rho' m' /\
    sp m' = bp m - k /\ ep m' = e /\ ip m' = i /\ bp m' = b /\ out_log m' = out_log m /\
    (forall j, j <= bp m - k -> sget m' j = sget m j).
Proof. intros; reflexivity. Qed.
Print Assumptions C01_ok_t3_unfold.

(* the representation of a closure value, spelled out *)
Theorem C01_vrep3_closure_unfold : forall m v ps cs body cvals, vrep3 m v (R3Clo ps cs body cvals) <->
  exists cp lamp cep ceid cslots, v = VPtr cp /\
    allocated (hp m) cp /\ cell_at (hp m) cp = VClosure lamp cep /\
    allocated (hp m) cep /\ cell_at (hp m) cep = VLexEnv ceid /\ ceid < next_id (st m) /\
    tget (envs (st m)) ceid = Some cslots /\ len cslots = len ps + len cs /\
    length cvals = length cs /\ closure_code m lamp ps cs body /\
    all_idx (fun i cv => exists v', list_get cslots i = Some v' /\ ptr_slot m v' (fun w => vrep3 m w cv))
            cvals (len ps).
Proof. intros; reflexivity. Qed.
Print Assumptions C01_vrep3_closure_unfold.

(* Vm::eval on a top-level expression of the closure fragment: for every sufficient fuel the
   evaluation is the HALT exit of a machine whose %acc represents the reference value (possibly a
   closure), whose globals agree with rho', with the registers of the start *)
Theorem C01_eval_fragment3 :
  forall (ob : N -> M vcell) (bsem : N -> list rval -> option rval),
  (forall b, builtin_ok ob bsem b) -> (forall b, builtin_envs ob bsem b) ->
  forall e rho r rho' s,
  wf3 e [] -> ref_eval3 bsem [] [] rho e r rho' -> minv s -> genv_rel3 rho s ->
  transform_expr TRANSFORM_FUEL s (cell_of3 e) = Ok (cell_of3 e) ->
  exists n m, (forall fuel, (n <= fuel)%nat -> eval ob fuel (cell_of3 e) s = halt_result m) /\
    vrep3 m (acc m) r /\ genv_rel3 rho' m /\ minv m /\ cext s m /\
    sp m = sp s /\ bp m = bp s /\ ep m = ep s /\ out_log m = out_log s.
Proof. exact eval_fragment3. Qed.
Print Assumptions C01_eval_fragment3.

(* ... with `Done (rcell b)` when the reference value is a datum or a builtin (R1 premise) *)
Theorem C01_eval_fragment3_done :
  forall (ob : N -> M vcell) (bsem : N -> list rval -> option rval),
  (forall b, builtin_ok ob bsem b) -> (forall b, builtin_envs ob bsem b) ->
  forall e rho b rho' s,
  wf3 e [] -> ref_eval3 bsem [] [] rho e (R3Base b) rho' -> minv s -> genv_rel3 rho s ->
  transform_expr TRANSFORM_FUEL s (cell_of3 e) = Ok (cell_of3 e) ->
  exists n m,
    vrep (acc m) b (hp m) (st m) /\ genv_rel3 rho' m /\ minv m /\ cext s m /\
    sp m = sp s /\ bp m = bp s /\ ep m = ep s /\ out_log m = out_log s /\
    (forall fuel, (n <= fuel)%nat -> eval ob fuel (cell_of3 e) s = halt_result m) /\
    (halt_result m <> RNoFuel \/ (no_ptr_cells (hp m) /\ (rcost b <= cell_fuel m)%nat) ->
     forall fuel, (n <= fuel)%nat ->
       eval ob fuel (cell_of3 e) s = ROk (Done (rcell b)) (with_stack m tempty (sp m))).
Proof. exact eval_fragment3_done. Qed.
Print Assumptions C01_eval_fragment3_done.

(* sessions compose: the state a `Done` evaluation returns (the stack wiped) satisfies the
   hypotheses of the next evaluation with the global environment the first one left *)
Theorem C01_done_state_ok : forall rho m, minv m -> genv_rel3 rho m ->
  minv (with_stack m tempty (sp m)) /\ genv_rel3 rho (with_stack m tempty (sp m)).
Proof. exact done_state_ok. Qed.
Print Assumptions C01_done_state_ok.

(* non-vacuity: (((lambda (x) (lambda (y) (if y x 'no))) '(1 2)) #t) — the inner closure captures
   x, ESCAPES from the activation that created it and is applied afterwards — satisfies the
   hypotheses on the empty machine and has the reference value (1 2) ... *)
Example C01_fragment3_example :
  wf3 ex4_e [] /\ minv (vm_empty 8192) /\ genv_rel3 rho3_empty (vm_empty 8192) /\
  ref_eval3 bsem_not [] [] rho3_empty ex4_e (R3Base (RDatum ex2_list)) rho3_empty.
Proof. exact ex4_hypotheses. Qed.
(* ... and the model evaluates it to (1 2) with the registers of the start *)
Example C01_fragment3_example_run :
  transform_expr TRANSFORM_FUEL (vm_empty 8192) (cell_of3 ex4_e) = Ok (cell_of3 ex4_e) /\
  match eval other_builtin 200 (cell_of3 ex4_e) (vm_empty 8192) with
  | ROk (Done c) s' => c = ex2_list /\ sp s' = 0 /\ bp s' = 0 /\ ep s' = USIZE_MAX
  | _ => False
  end.
Proof. vm_compute. repeat split. Qed.
(* a session of two forms: (define loop (lambda (x) (if x (loop #f) 'done))) then (loop #t) — a
   named procedure called by name from a later expression, recursive through its global, every
   call of the second form a tail call: reference values #<void> and done ... *)
Example C01_fragment3_session :
  wf3 ex5_def [] /\ wf3 ex5_call [] /\
  ref_eval3 bsem_not [] [] rho3_empty ex5_def (R3Base (RDatum CVoid)) ex5_rho /\
  ref_eval3 bsem_not [] [] ex5_rho ex5_call (R3Base (RDatum (CSym (S_ "done")))) ex5_rho.
Proof. exact ex5_hypotheses. Qed.
(* ... and the model, run on the two forms in sequence, answers #<void> and done *)
Example C01_fragment3_session_run :
  transform_expr TRANSFORM_FUEL (vm_empty 8192) (cell_of3 ex5_def) = Ok (cell_of3 ex5_def) /\
  match eval other_builtin 200 (cell_of3 ex5_def) (vm_empty 8192) with
  | ROk (Done c1) s1 => c1 = CVoid /\
      transform_expr TRANSFORM_FUEL s1 (cell_of3 ex5_call) = Ok (cell_of3 ex5_call) /\
      match eval other_builtin 200 (cell_of3 ex5_call) s1 with
      | ROk (Done c2) s2 => c2 = CSym (S_ "done") /\ sp s2 = 0 /\ bp s2 = 0 /\ ep s2 = USIZE_MAX
      | _ => False
      end
  | _ => False
  end.
Proof. vm_compute. repeat split. Qed.

(* The full statement, kept visible.  OPEN.  Proved: the fragment of C01_fragment_correct
   (constants, quote, if, global variables, global define / set!, builtin application), its
   extension C01_fragment2_correct (lambda expressions applied in place with local variables,
   CALL and TCALL), the extension C01_fragment3_correct (closures as values: lambda
   expressions in any position capturing variables of enclosing lambdas, application of
   closures, procedures named by (define f (lambda ...)) and called by name from later
   expressions, recursion through the global), the extension C01_fragment4_correct (lambda bodies
   of several expressions) and the extension C01_fragment6_correct (`set!` on local variables,
   captured or not, against a reference semantics with a store of locations), each up to Vm::eval
   (C01_eval_fragment, C01_eval_fragment2, C01_eval_fragment3, C01_eval_fragment4,
   C01_eval_fragment6 and their _done forms; C01_done_state_ok / _ok4 / _ok6 for sessions).  The
   machine invariant [minv] these theorems assume holds for the booted machine and every state of
   a session (R2: C01_booted_minv, C01_session_minv, by preservation), so on the booted machine the
   remaining premises are: the reference environment describes the globals the expression uses
   ([genv_rel*]; proved for ALL builtin names right after load_builtins, C01_load_builtins_ok, not
   after the prelude), the specification of the builtins used ([builtin_ok], proved for `not`), and
   that the macro expander leaves the form alone (explicit [transform_expr] premise).
   The (define (f x1 ... xn) body ...) spelling of a top-level procedure definition IS covered (work
   package c01e): C01_define_spelling (for a non-primitive symbol name, a proper list of symbol
   formals and a non-empty body the compiler treats it, as an M-computation, exactly as
   (define f (lambda (x1 ... xn) body ...)) — same code, same machine, same error — with one level of
   fuel less; the free-symbol analysis of the define form equals that of the lambda expression),
   C01_sugar_compile6, C01_eval_fragment6_sugar and C01_eval_fragment6_sugar_session (fragment 6's
   theorems about the sugared datum).  The spelling with a dotted formal list
   (define (f . args) ...) is NOT the same computation: the "define" arm of the free-symbol analysis
   binds the rest symbol, the "lambda" arm does not.
   For variadic lambdas only the machine lemma is proved: C01_vararg_rest_list (VARARG binds the rest
   parameter to a fresh proper list of the surplus argument values in order); they are not part of
   the fragments.
   Not covered: internal definitions, variadic lambdas (as expressions of the fragment), builtins
   applied to closures, closure results in the _done forms, quasiquote, define-syntax, the
   derived forms of the prelude (they are macros: `let`, `begin`, `cond`, ... expand into the core
   forms of the fragments, but the expander is not part of the proved pipeline), builtins with
   effects other than allocation (set-car!, vector-set!, display, call/cc, apply, eval), and the
   defect classes below. *)
Definition C01_compile_correct_stmt : Prop :=
  forall (reference : list text -> list N) (forms : list text),
    (* for every session of the generator grammar outside the recorded defect classes *)
    run_session forms = reference forms.

(* Refutation witnesses: the model (as the implementation) gives, for these sessions,
   an answer R7RS does not prescribe: unquote of a captured variable inside a nested
   lambda is "not bound"; a quasiquoted vector literal accumulates across
   evaluations; a top-level (begin (define ..)) defines nothing; the prelude's `or`
   captures a user variable named var1; a macro use inside a quasiquote template is
   expanded; a dotted unquote is left unevaluated. *)
Definition witness_session : list text :=
  map S_ ["(define (f x) (lambda () `(,x)))"; "((f 1))"; "(define (g) `#(1 2))"; "(g)"; "(g)";
          "(begin (define z 1))"; "z"; "(let ((var1 5)) (or #f var1))"; "`(and 1 2)";
          "`(a . ,(+ 1 2))"]%string.
Theorem C01_refuted_witnesses :
  run_session witness_session =
  S_ "SESSION | OK #<void> | ERR | OK #<void> | OK #(1 2) | OK #(1 2 1 2) | OK #<void> | ERR | OK #f | OK (if 1 2 #f) | OK (a unquote (+ 1 2)) LOG"%string.
Proof. vm_compute. reflexivity. Qed.
Print Assumptions C01_refuted_witnesses.

(* ====================================================================================== R2 *)
(* R2 — the machine invariant [minv] (heap_inv + ginv + sp < scap) for the BOOTED machine and for
   every state a session can reach, BY PRESERVATION (the generated prelude is never evaluated
   in the kernel).  [minv] alone is not inductive (restore_continuation sets sp from a saved
   continuation; nothing in minv speaks about continuations).  The invariant that every
   monadic computation of the model preserves is
       rinv s  :=  finv s /\ J s
   [finv]: Proofs/FlatProofs.v (C02: contains lex_inv, hence heap_inv), preserved by the
   compiler, every instruction, every builtin (FlatAll.v).  [J] (Proofs/KeepCalc.v): ginv,
   sp < scap, and "every captured continuation saved its stack up to its own sp"; preserved by
   every primitive of the state monad, the compiler on ANY datum (KeepCompile.v), every builtin
   of the real table (KeepListVec.v, KeepPkg.v), every instruction, the run loop including the
   error path, Vm::eval and the boot sequence (KeepRun.v, BootMinv.v). *)
From MW Require Proofs.FlatProofs Proofs.FlatAll Proofs.KeepCalc Proofs.KeepCompile Proofs.KeepRun
  Proofs.BootMinv Proofs.BootGenv Proofs.BootCorollaries Proofs.FragmentBoot.

Theorem C01_J_unfold : forall s, KeepCalc.J s <->
  ginv s /\ sp s < scap s /\
  (forall cid k, tget (conts (st s)) cid = Some k -> k_sp k < len (k_stack k)).
Proof. exact FragmentBoot.J_unfold. Qed.
Print Assumptions C01_J_unfold.

Theorem C01_rinv_minv : forall s, FlatProofs.finv s /\ KeepCalc.J s -> minv s.
Proof. exact BootMinv.rinv_minv. Qed.
Print Assumptions C01_rinv_minv.

Theorem C01_rinv_empty : forall c, 0 < c -> FlatProofs.finv (vm_empty c) /\ KeepCalc.J (vm_empty c).
Proof. exact BootMinv.rinv_empty. Qed.
Print Assumptions C01_rinv_empty.
Example C01_rinv_empty_example : BootMinv.rinv (vm_empty 8192) /\ minv (vm_empty 8192).
Proof. split; [apply BootMinv.rinv_empty; reflexivity|apply BootMinv.rinv_minv, BootMinv.rinv_empty; reflexivity]. Qed.

(* the compiler, on ANY datum, with any fuel, lambda under construction and tail flag: success
   or compile error, the state satisfies J again (finv: C02_compile_bc_ok) *)
Theorem C01_compile_preserves_J : forall f l tail e s, KeepCalc.J s ->
  match compile_expression f l tail e s with ROk _ s' | RErr _ _ s' => KeepCalc.J s' | _ => True end.
Proof. exact BootMinv.compile_J_plain. Qed.
Print Assumptions C01_compile_preserves_J.

(* one instruction of the real machine (any opcode, including CALL/TCALL of any builtin of the
   generated table, of `apply`, `eval`, call/cc and of a continuation) *)
Theorem C01_step_preserves_J : forall s, KeepCalc.J s ->
  match run_one other_builtin s with ROk _ s' | RErr _ _ s' => KeepCalc.J s' | _ => True end.
Proof. exact BootMinv.run_one_J_plain. Qed.
Print Assumptions C01_step_preserves_J.

(* Vm::eval of ANY datum (not only fragment expressions), any fuel: whenever a machine is left
   — a value, a run-time error (registers reset, stack cleared), a compile error — it satisfies
   the invariant again *)
Theorem C01_eval_preserves_rinv : forall fuel e s, FlatProofs.finv s /\ KeepCalc.J s ->
  match eval other_builtin fuel e s with
  | ROk _ s' | RErr _ _ s' => FlatProofs.finv s' /\ KeepCalc.J s'
  | _ => True end.
Proof. exact BootMinv.eval_rinv_plain. Qed.
Print Assumptions C01_eval_preserves_rinv.

(* the sliced interface (prepare_eval, then run_count with a budget) *)
Theorem C01_prepare_eval_preserves_rinv : forall e s, FlatProofs.finv s /\ KeepCalc.J s ->
  match prepare_eval e s with
  | ROk _ s' | RErr _ _ s' => FlatProofs.finv s' /\ KeepCalc.J s'
  | _ => True end.
Proof. exact BootMinv.prepare_eval_rinv_plain. Qed.
Print Assumptions C01_prepare_eval_preserves_rinv.
Theorem C01_run_count_preserves_rinv : forall fuel count s, FlatProofs.finv s /\ KeepCalc.J s ->
  match run_count other_builtin fuel count s with
  | ROk _ s' | RErr _ _ s' => FlatProofs.finv s' /\ KeepCalc.J s'
  | _ => True end.
Proof. exact BootMinv.run_count_rinv_plain. Qed.
Print Assumptions C01_run_count_preserves_rinv.

(* non-vacuity: ((lambda (x) (set! x 2) x) 1) — a body of two expressions and `set!` on a local
   variable, OUTSIDE every proved fragment — evaluates on the empty machine to 2 and the final
   state satisfies the invariant (by the theorem), hence minv *)
Example C01_eval_preserves_example :
  exists s', eval other_builtin 200 BootCorollaries.bx_datum (vm_empty 8192) = ROk (Done (CNum (Num.Fixnum 2))) s' /\
             BootMinv.rinv s' /\ minv s'.
Proof. exact BootCorollaries.bx_done. Qed.

(* Vm::load_builtins (builtin/mod.rs:35-57) from ANY minv state succeeds, keeps minv and the
   registers, only extends the machine, and binds EVERY registered builtin name to a global slot
   holding a pointer to an allocated VBuiltin cell with the index of the name in the generated
   table ([builtin_rho x] = Some (RBuiltin i) iff the i-th entry of the table is named x; the
   names are pairwise distinct: BootGenv.builtin_names_nodup) *)
Theorem C01_load_builtins_ok : forall s, minv s ->
  exists s0, load_builtins s = ROk tt s0 /\ minv s0 /\ cext s s0 /\
             sp s0 = sp s /\ bp s0 = bp s /\ ep s0 = ep s /\ out_log s0 = out_log s /\
             genv_rel BootGenv.builtin_rho s0 /\ genv_rel3 BootGenv.builtin_rho3 s0.
Proof. exact BootGenv.load_builtins_ok. Qed.
Print Assumptions C01_load_builtins_ok.
Theorem C01_builtin_rho_unfold : forall x i, BootGenv.builtin_rho3 x = Some (R3Base (RBuiltin i)) <->
  exists e, nth_error Gen.Builtins.builtin_table (N.to_nat i) = Some e /\ fst e = x.
Proof. exact FragmentBoot.builtin_rho3_unfold. Qed.
Print Assumptions C01_builtin_rho_unfold.
Theorem C01_load_builtins_preserves_rinv : forall s, FlatProofs.finv s /\ KeepCalc.J s ->
  match load_builtins s with
  | ROk _ s' | RErr _ _ s' => FlatProofs.finv s' /\ KeepCalc.J s'
  | _ => True end.
Proof. exact BootMinv.load_builtins_rinv_plain. Qed.
Print Assumptions C01_load_builtins_preserves_rinv.
(* non-vacuity: the boot sequence without the prelude text (load_builtins over the whole
   generated table, from vm_empty 8192) *)
Example C01_load_builtins_example :
  exists s, boot_with [] = Some s /\ load_builtins (vm_empty 8192) = ROk tt s /\ BootMinv.rinv s /\ minv s /\
            genv_rel BootGenv.builtin_rho s /\ genv_rel3 BootGenv.builtin_rho3 s.
Proof. exact BootCorollaries.boot_bare. Qed.

(* the boot sequence with ANY prelude text, and the machine of Vm::new *)
Theorem C01_boot_rinv : forall prelude s, boot_with prelude = Some s -> FlatProofs.finv s /\ KeepCalc.J s.
Proof. exact BootMinv.boot_with_rinv. Qed.
Print Assumptions C01_boot_rinv.
Theorem C01_booted_minv : forall s, booted = Some s -> minv s.
Proof. exact BootMinv.booted_minv. Qed.
Print Assumptions C01_booted_minv.
(* every state of a session: any number of Vm::eval calls from the booted machine, with any
   data, any fuels, whatever their outcomes *)
Theorem C01_session_minv : forall s0 s, booted = Some s0 -> FlatAll.evals s0 s -> minv s.
Proof. exact BootMinv.session_minv. Qed.
Print Assumptions C01_session_minv.

(* C01_eval_fragment3 on the booted machine: the premise [minv] is discharged (the same holds on
   every state of a session: Proofs/BootCorollaries.v eval_fragment3_session, FragmentBoot.v eval_fragment4_session, and
   C01_eval_fragment6_session below for the largest fragment).  What remains: the reference environment rho must describe (part of) the
   machine's globals ([genv_rel3 rho s]; the empty environment always does), and the macro
   expander must leave the form alone (explicit premise, as before). *)
Theorem C01_eval_fragment3_booted :
  forall (ob : N -> M vcell) (bsem : N -> list rval -> option rval),
  (forall b, builtin_ok ob bsem b) -> (forall b, builtin_envs ob bsem b) ->
  forall e rho r rho' s,
  booted = Some s ->
  wf3 e [] -> ref_eval3 bsem [] [] rho e r rho' -> genv_rel3 rho s ->
  transform_expr TRANSFORM_FUEL s (cell_of3 e) = Ok (cell_of3 e) ->
  exists n m, (forall fuel, (n <= fuel)%nat -> eval ob fuel (cell_of3 e) s = halt_result m) /\
    vrep3 m (acc m) r /\ genv_rel3 rho' m /\ minv m /\ cext s m /\
    sp m = sp s /\ bp m = bp s /\ ep m = ep s /\ out_log m = out_log s.
Proof. exact BootCorollaries.eval_fragment3_booted. Qed.
Print Assumptions C01_eval_fragment3_booted.
(* non-vacuity on the machine with the builtins loaded (boot without the prelude text): (not '#f)
   with the operator read from the GLOBAL `not` that load_builtins bound; all hypotheses of
   C01_eval_fragment3 hold with the reference environment of ALL builtin names, and the model
   computes #t *)
Example C01_builtins_loaded_example :
  exists s, load_builtins (vm_empty 8192) = ROk tt s /\ minv s /\ genv_rel3 BootGenv.builtin_rho3 s /\
    wf3 BootCorollaries.bn_e [] /\
    ref_eval3 bsem_not [] [] BootGenv.builtin_rho3 BootCorollaries.bn_e (R3Base (RDatum (CBool true))) BootGenv.builtin_rho3 /\
    transform_expr TRANSFORM_FUEL s (cell_of3 BootCorollaries.bn_e) = Ok (cell_of3 BootCorollaries.bn_e).
Proof. exact BootCorollaries.bn_hypotheses. Qed.
Example C01_builtins_loaded_example_run :
  match load_builtins (vm_empty 8192) with
  | ROk _ s => match eval other_builtin 200 (cell_of3 BootCorollaries.bn_e) s with
               | ROk (Done c) s' => c = CBool true /\ sp s' = 0 /\ bp s' = 0 /\ ep s' = USIZE_MAX
               | _ => False end
  | _ => False end.
Proof. exact BootCorollaries.bn_run. Qed.

(* ====================================================================================== fragment 4 *)
(* Fragment 4 = fragment 3 + lambda BODIES OF SEVERAL EXPRESSIONS, (lambda (x ...) e1 e2 ... ek), k >= 1
   (Proofs/Closures4.v, CompileStatic4.v, CompileCorrect4.v, EvalFragment4.v; `begin` is not a core
   form of the compiler, compile.rs:424-460 loops over the body): e1 .. e(k-1) are compiled in
   NON-tail position and evaluated for effect, their value stays in %acc and is overwritten; ek is
   compiled in tail position.  No ei is a (define ...) form (no internal definitions:
   internally_defined_symbols is then empty whatever k, so the environment map is that of fragment 3).
   Reference semantics [ref_eval4]: the closure-application rule evaluates the body list with the
   same left-to-right list judgement as operands ([ref_evals4], global environment threaded) and
   returns the LAST value.  Everything else as fragment 3. *)
From MW Require Import Proofs.Closures4 Proofs.CompileStatic4 Proofs.CompileCorrect4 Proofs.EvalFragment4.

Theorem C01_fragment4_static : forall e sc, wf4 e sc ->
  forall f l tail s, (cell_size (cell_of4 e) < f)%nat -> hdr4 l sc s -> minv s ->
  exists l' s' code, compile_expression f l tail (cell_of4 e) s = ROk l' s' /\
    fwd l' = fwd l ++ code /\ same_hdr l l' /\ minv s' /\ cext s s' /\ same_regs s s' /\
    envs (st s') = envs (st s).
Proof. exact fragment4_static. Qed.
Print Assumptions C01_fragment4_static.

(* well-formedness of a lambda with a body list, spelled out *)
Theorem C01_wf4_lam_unfold : forall sc ps fs bodies, wf4 (ZLam ps fs bodies) sc <->
  bodies <> [] /\
  (forall x, In x ps -> is_primitive_symbol (CSym x) = false) /\
  (forall b, In b bodies -> is_define4 b = false) /\
  free_symbols (lam_cells ps (map cell_of4 bodies)) = Ok (map CSym fs) /\
  (forall x, In x (flat_map allvars4 bodies) -> In x ps \/ bound_in sc x = false \/ In x fs) /\
  Forall (fun b => wf4 b (ps ++ capnames sc fs)) bodies.
Proof. exact wf4_lam. Qed.
Print Assumptions C01_wf4_lam_unfold.

Theorem C01_fragment4_correct :
  forall (ob : N -> M vcell) (bsem : N -> list rval -> option rval),
  (forall b, builtin_ok ob bsem b) -> (forall b, builtin_envs ob bsem b) ->
  forall sc lv rho e r rho', ref_eval4 bsem sc lv rho e r rho' ->
  forall f l tail s l' s' code, wf4 e sc -> (cell_size (cell_of4 e) < f)%nat -> hdr4 l sc s -> minv s ->
    compile_expression f l tail (cell_of4 e) s = ROk l' s' -> fwd l' = fwd l ++ code ->
    forall m lp bc,
      cext s' m -> minv m -> code_in m lp bc -> seg bc (len (fwd l)) code -> ip m = (lp, len (fwd l)) ->
      genv_rel4 rho m -> lrel4 lv m -> (tail = true -> tframe m) ->
      ok_n4 ob m lp (len (fwd l) + len code) r rho' \/ (tail = true /\ ok_t4 ob m r rho').
Proof. exact fragment4_correct. Qed.
Print Assumptions C01_fragment4_correct.

Theorem C01_ok_n4_unfold : forall ob m lp q r rho', ok_n4 ob m lp q r rho' <->
  exists n m', RunProofs.steps ob n m = Some m' /\ frame2 m m' /\ minv m' /\ ip m' = (lp, q) /\
    vrep4 m' (acc m') r /\ genv_rel4 rho' m'.
Proof. exact ok_n4_unfold. Qed.
Print Assumptions C01_ok_n4_unfold.
Theorem C01_ok_t4_unfold : forall ob m r rho', ok_t4 ob m r rho' <->
  exists n m' k e i b, RunProofs.steps ob n m = Some m' /\ frame_at m k e i b /\ rext m m' /\ minv m' /\
    vrep4 m' (acc m') r /\ genv_rel4 rho' m' /\
    sp m' = bp m - k /\ ep m' = e /\ ip m' = i /\ bp m' = b /\ out_log m' = out_log m /\
    (forall j, j <= bp m - k -> sget m' j = sget m j).
Proof. exact ok_t4_unfold. Qed.
Print Assumptions C01_ok_t4_unfold.
(* the body loop of the model's compile_lambda is [compile_bodies] (tail flag true exactly for the
   last expression), which is what the code object of a closure value was compiled by *)
Theorem C01_compile_bodies_is_body_loop : forall f bodies lam s,
  body_loop4 (compile_expression f) (fold_right CPair CNil bodies) lam s = compile_bodies f lam bodies s.
Proof. exact compile_bodies_is_body_loop. Qed.
Print Assumptions C01_compile_bodies_is_body_loop.

Theorem C01_eval_fragment4 :
  forall (ob : N -> M vcell) (bsem : N -> list rval -> option rval),
  (forall b, builtin_ok ob bsem b) -> (forall b, builtin_envs ob bsem b) ->
  forall e rho r rho' s,
  wf4 e [] -> ref_eval4 bsem [] [] rho e r rho' -> minv s -> genv_rel4 rho s ->
  transform_expr TRANSFORM_FUEL s (cell_of4 e) = Ok (cell_of4 e) ->
  exists n m, (forall fuel, (n <= fuel)%nat -> eval ob fuel (cell_of4 e) s = halt_result m) /\
    vrep4 m (acc m) r /\ genv_rel4 rho' m /\ minv m /\ cext s m /\
    sp m = sp s /\ bp m = bp s /\ ep m = ep s /\ out_log m = out_log s.
Proof. exact eval_fragment4. Qed.
Print Assumptions C01_eval_fragment4.

Theorem C01_eval_fragment4_done :
  forall (ob : N -> M vcell) (bsem : N -> list rval -> option rval),
  (forall b, builtin_ok ob bsem b) -> (forall b, builtin_envs ob bsem b) ->
  forall e rho b rho' s,
  wf4 e [] -> ref_eval4 bsem [] [] rho e (R4Base b) rho' -> minv s -> genv_rel4 rho s ->
  transform_expr TRANSFORM_FUEL s (cell_of4 e) = Ok (cell_of4 e) ->
  exists n m,
    vrep (acc m) b (hp m) (st m) /\ genv_rel4 rho' m /\ minv m /\ cext s m /\
    sp m = sp s /\ bp m = bp s /\ ep m = ep s /\ out_log m = out_log s /\
    (forall fuel, (n <= fuel)%nat -> eval ob fuel (cell_of4 e) s = halt_result m) /\
    (halt_result m <> RNoFuel \/ (no_ptr_cells (hp m) /\ (rcost b <= cell_fuel m)%nat) ->
     forall fuel, (n <= fuel)%nat ->
       eval ob fuel (cell_of4 e) s = ROk (Done (rcell b)) (with_stack m tempty (sp m))).
Proof. exact eval_fragment4_done. Qed.
Print Assumptions C01_eval_fragment4_done.

Theorem C01_done_state_ok4 : forall rho m, minv m -> genv_rel4 rho m ->
  minv (with_stack m tempty (sp m)) /\ genv_rel4 rho (with_stack m tempty (sp m)).
Proof. exact done_state_ok4. Qed.
Print Assumptions C01_done_state_ok4.

(* non-vacuity: ((lambda (x) 'ignored x) '(1 2)) — a body of two expressions, the first evaluated
   for effect — has the reference value (1 2), the hypotheses hold on the empty machine ... *)
Example C01_fragment4_example :
  wf4 ex6_e [] /\ minv (vm_empty 8192) /\ genv_rel4 rho4_empty (vm_empty 8192) /\
  ref_eval4 bsem_not [] [] rho4_empty ex6_e (R4Base (RDatum ex2_list)) rho4_empty.
Proof. exact ex6_hypotheses. Qed.
(* ... and the model evaluates it to (1 2) with the registers of the start *)
Example C01_fragment4_example_run :
  transform_expr TRANSFORM_FUEL (vm_empty 8192) (cell_of4 ex6_e) = Ok (cell_of4 ex6_e) /\
  match eval other_builtin 200 (cell_of4 ex6_e) (vm_empty 8192) with
  | ROk (Done c) s' => c = ex2_list /\ sp s' = 0 /\ bp s' = 0 /\ ep s' = USIZE_MAX
  | _ => False
  end.
Proof. exact ex6_run. Qed.
(* a session: (define g #f), then ((lambda (x) (set! g x) (if g 'yes 'no)) #t) — the non-tail body
   expression has an effect on a global that the tail expression observes: reference values
   #<void> and yes ... *)
Example C01_fragment4_session :
  wf4 ex7_def [] /\ wf4 ex7_call [] /\ minv (vm_empty 8192) /\ genv_rel4 rho4_empty (vm_empty 8192) /\
  ref_eval4 bsem_not [] [] rho4_empty ex7_def (R4Base (RDatum CVoid)) ex7_rho /\
  ref_eval4 bsem_not [] [] ex7_rho ex7_call (R4Base (RDatum (CSym (S_ "yes")))) ex7_rho'.
Proof. exact ex7_hypotheses. Qed.
(* ... and the model, run on the two forms in sequence, answers #<void> and yes *)
Example C01_fragment4_session_run :
  transform_expr TRANSFORM_FUEL (vm_empty 8192) (cell_of4 ex7_def) = Ok (cell_of4 ex7_def) /\
  match eval other_builtin 200 (cell_of4 ex7_def) (vm_empty 8192) with
  | ROk (Done c1) s1 => c1 = CVoid /\
      transform_expr TRANSFORM_FUEL s1 (cell_of4 ex7_call) = Ok (cell_of4 ex7_call) /\
      match eval other_builtin 200 (cell_of4 ex7_call) s1 with
      | ROk (Done c2) s2 => c2 = CSym (S_ "yes") /\ sp s2 = 0 /\ bp s2 = 0 /\ ep s2 = USIZE_MAX
      | _ => False
      end
  | _ => False
  end.
Proof. exact ex7_run. Qed.

(* ====================================================================================== set! on locals: machine level *)
(* `set!` on a LOCAL variable (a parameter of the running lambda: direct slot of the activation
   environment; or a variable captured from an enclosing lambda: reached through ONE pointer).
   Proofs/FrameSteps5.v, StoreLocal5.v, Closures5.v.  Machine-level facts (used by fragment 6
   below): the compile shape, the instruction MOV %acc (lexical slot i), and the frame condition
   [frameL (loc_one e j)]: everything [frame] says, and every existing environment payload
   keeps its length and all its slots EXCEPT slot j of environment e.  [cext], [frame], [minv],
   [code_in] survive the store; what fails is exactly the environment clause of [rext] / [frame2],
   on which the closure values of fragments 3 and 4 (which pin the CONTENT of each captured slot)
   depend. *)
From MW Require Proofs.FrameSteps5 Proofs.Closures5 Proofs.StoreLocal5.

(* (set! x e) for a name bound by the environment map of the lambda under construction compiles
   to: the code of e; MOV %acc (lexical slot i); MOV_IMMEDIATE #<void> %acc.  No global slot is
   created (only the symbol is interned) *)
Theorem C01_compile_set_local : forall sc x i (ce : cell) f l tail s l1 s1 code,
  is_primitive_symbol (CSym x) = false -> pindex x sc = Some i -> hdr3 l sc s ->
  compile_expression f l false ce s = ROk l1 s1 -> fwd l1 = fwd l ++ code -> same_hdr l l1 ->
  minv s1 -> cext s s1 ->
  exists l2 s2,
    compile_expression (S f) l tail (CPair SET_ (CPair (CSym x) (CPair ce CNil))) s = ROk l2 s2 /\
    fwd l2 = fwd l ++ code ++ [VOp OMov; VAcc; VLexSlot i; VOp OMovImmediate; VVoid; VAcc] /\
    same_hdr l l2 /\ minv s2 /\ cext s1 s2 /\ same_regs s1 s2 /\ st s2 = st s1 /\
    g_bind s2 = g_bind s1 /\ g_slots s2 = g_slots s1.
Proof. exact FrameSteps5.compile_set_local. Qed.
Print Assumptions C01_compile_set_local.

(* the location of slot i of the running activation, spelled out *)
Theorem C01_loc_of_unfold : forall m i e j, StoreLocal5.loc_of m i e j <->
  exists eid slots v, allocated (hp m) (ep m) /\ cell_at (hp m) (ep m) = VLexEnv eid /\
    eid < next_id (st m) /\ tget (envs (st m)) eid = Some slots /\ list_get slots i = Some v /\
    (((forall a k, v <> VLexPtr a k) /\ e = eid /\ j = i) \/
     (exists a, v = VLexPtr a j /\ allocated (hp m) a /\ cell_at (hp m) a = VLexEnv e /\
        exists sl w, e < next_id (st m) /\ tget (envs (st m)) e = Some sl /\ list_get sl j = Some w /\
                     forall a' k, w <> VLexPtr a' k)).
Proof. intros; reflexivity. Qed.
Print Assumptions C01_loc_of_unfold.

(* MOV %acc (lexical slot i); MOV_IMMEDIATE #<void> %acc: two instructions, the location of slot
   i now holds the old %acc, %acc is #<void>, everything else — the stack, the registers, the
   globals, every other slot of every existing environment, the location map of the running
   activation — is as before *)
Theorem C01_store_local_tail : forall (ob : N -> M vcell) m1 lp bc p i e j,
  minv m1 -> code_in m1 lp bc -> seg bc p [VOp OMov; VAcc; VLexSlot i; VOp OMovImmediate; VVoid; VAcc] ->
  ip m1 = (lp, p) -> StoreLocal5.loc_of m1 i e j -> (forall a k, acc m1 <> VLexPtr a k) ->
  exists m3, RunProofs.steps ob 2 m1 = Some m3 /\ StoreLocal5.frameL (StoreLocal5.loc_one e j) m1 m3 /\ minv m3 /\
    ip m3 = (lp, p + 6) /\ acc m3 = VVoid /\
    (exists sl, tget (envs (st m3)) e = Some sl /\ list_get sl j = Some (acc m1)) /\
    g_slots m3 = g_slots m1 /\
    (forall i' e' j', StoreLocal5.loc_of m1 i' e' j' -> StoreLocal5.loc_of m3 i' e' j').
Proof. exact StoreLocal5.store_local_tail. Qed.
Print Assumptions C01_store_local_tail.
Theorem C01_frameL_unfold : forall L m m', StoreLocal5.frameL L m m' <->
  frame m m' /\
  (forall e sl, e < next_id (st m) -> tget (envs (st m)) e = Some sl ->
     exists sl', tget (envs (st m')) e = Some sl' /\ len sl' = len sl /\
       forall k, ~ L e k -> list_get sl' k = list_get sl k).
Proof. exact FragmentBoot.frameL_unfold. Qed.
Print Assumptions C01_frameL_unfold.

(* non-vacuity, as model runs on the empty machine: the COUNTER without numeric builtins
   ((lambda (n) ((lambda (inc) (inc) (inc)) (lambda () (set! n (if n #f #t)) n))) #f)
   — n is captured by the thunk, assigned through the pointer, both calls see the same location —
   answers #f after two toggles, #t after one and after three *)
Example C01_counter_run :
  match eval other_builtin 300 Closures5.counter_datum (vm_empty 8192) with
  | ROk (Done c) s' => c = CBool false /\ sp s' = 0 /\ bp s' = 0 /\ ep s' = USIZE_MAX
  | _ => False
  end /\
  match eval other_builtin 300 Closures5.counter1_datum (vm_empty 8192) with
  | ROk (Done c) s' => c = CBool true /\ sp s' = 0 /\ bp s' = 0 /\ ep s' = USIZE_MAX
  | _ => False
  end /\
  match eval other_builtin 300 Closures5.counter3_datum (vm_empty 8192) with
  | ROk (Done c) s' => c = CBool true /\ sp s' = 0 /\ bp s' = 0 /\ ep s' = USIZE_MAX
  | _ => False
  end.
Proof. split; [exact Closures5.counter_run|split; [exact Closures5.counter1_run|exact Closures5.counter3_run]]. Qed.

(* ====================================================================================== fragment 6 *)
(* Fragment 6 = fragment 4 + `set!` ON LOCAL VARIABLES, captured or not, against a reference
   semantics with a STORE OF LOCATIONS (Proofs/Closures6.v, CompileStatic6.v, CompileCorrect6.v,
   EvalFragment6.v).  [WSet x e] assigns the location of x when the scope binds x, the global x
   otherwise.  [ref_eval6 bsem sc lv sg rho e r sg' rho']: the environment lv maps the names sc to
   LOCATIONS (naturals), the store sg (a list, growing) maps locations to values; a variable reads
   sg[lv[i]]; a local set! updates it; a lambda captures the LOCATIONS of its free variables
   ([R6Clo ps cs bodies clocs]); a closure application allocates fresh locations for the
   parameters at the end of the store.
   Machine side: a location map mu (location -> heap address of the activation environment that
   owns the variable, slot), growing at every ENTER of a closure; [store_rel mu sg m]: the slot
   mu(l) holds a direct (non-pointer) representation of sg[l], and mu is injective on
   (environment id, slot); a closure value is represented by pointer slots only ([vrep6]: the
   captured slot i is the pointer mu(clocs[i])), so it survives assignments; [lrel6]: slot i of
   the running activation is direct and IS mu(lv[i]), or holds the pointer mu(lv[i]).  The frame
   condition "existing environment payloads unchanged" of fragments 2-4 ([rext], [frame2]) is
   weakened to [wext] / [frame6]: lengths kept, pointer slots unchanged, direct slots stay direct. *)
From MW Require Import Proofs.Closures6 Proofs.CompileStatic6 Proofs.CompileCorrect6 Proofs.EvalFragment6.

(* the rules of the reference semantics that involve the store (constructors of ref_eval6) *)
Theorem C01_ref_eval6_store_rules : forall (bsem : N -> list rval -> option rval),
  (forall sc lv sg rho x i l r, pindex x sc = Some i -> nth_error lv (N.to_nat i) = Some l ->
     nth_error sg l = Some r -> ref_eval6 bsem sc lv sg rho (WVar x) r sg rho) /\
  (forall sc lv sg rho x e r sg1 rho1 i l, pindex x sc = Some i -> nth_error lv (N.to_nat i) = Some l ->
     ref_eval6 bsem sc lv sg rho e r sg1 rho1 -> (l < length sg1)%nat ->
     ref_eval6 bsem sc lv sg rho (WSet x e) (R6Base (RDatum CVoid)) (sset6 sg1 l r) rho1) /\
  (forall sc lv sg rho ps fs bodies clocs,
     Forall2 (fun x l => exists i, pindex x sc = Some i /\ nth_error lv (N.to_nat i) = Some l) (capnames6 sc fs) clocs ->
     ref_eval6 bsem sc lv sg rho (WLam ps fs bodies) (R6Clo ps (capnames6 sc fs) bodies clocs) sg rho) /\
  (forall sc lv sg rho f args rs sg1 rho1 ps cs bodies clocs sg2 rho2 vs pre r sg3 rho3,
     ref_evals6 bsem sc lv sg rho args rs sg1 rho1 ->
     ref_eval6 bsem sc lv sg1 rho1 f (R6Clo ps cs bodies clocs) sg2 rho2 ->
     length rs = length ps ->
     ref_evals6 bsem (ps ++ cs) (seq (length sg2) (length rs) ++ clocs) (sg2 ++ rs) rho2 bodies vs sg3 rho3 ->
     vs = pre ++ [r] ->
     ref_eval6 bsem sc lv sg rho (WApp f args) r sg3 rho3).
Proof. exact FragmentBoot.ref_eval6_store_rules. Qed.
Print Assumptions C01_ref_eval6_store_rules.

Theorem C01_fragment6_static : forall e sc, wf6 e sc ->
  forall f l tail s, (cell_size (cell_of6 e) < f)%nat -> hdr6 l sc s -> minv s ->
  exists l' s' code, compile_expression f l tail (cell_of6 e) s = ROk l' s' /\
    fwd l' = fwd l ++ code /\ same_hdr l l' /\ minv s' /\ cext s s' /\ same_regs s s' /\
    envs (st s') = envs (st s).
Proof. exact fragment6_static. Qed.
Print Assumptions C01_fragment6_static.

Theorem C01_fragment6_correct :
  forall (ob : N -> M vcell) (bsem : N -> list rval -> option rval),
  (forall b, builtin_ok ob bsem b) -> (forall b, builtin_envs ob bsem b) ->
  forall sc lv sg rho e r sg' rho', ref_eval6 bsem sc lv sg rho e r sg' rho' ->
  forall f l tail s l' s' code, wf6 e sc -> (cell_size (cell_of6 e) < f)%nat -> hdr6 l sc s -> minv s ->
    compile_expression f l tail (cell_of6 e) s = ROk l' s' -> fwd l' = fwd l ++ code ->
    forall m mu lp bc,
      cext s' m -> minv m -> code_in m lp bc -> seg bc (len (fwd l)) code -> ip m = (lp, len (fwd l)) ->
      genv_rel6 mu rho m -> lrel6 mu lv m -> store_rel mu sg m -> (tail = true -> tframe m) ->
      ok_n6 ob mu sg' m lp (len (fwd l) + len code) r rho' \/ (tail = true /\ ok_t6 ob mu sg' m r rho').
Proof. exact fragment6_correct. Qed.
Print Assumptions C01_fragment6_correct.

Theorem C01_ok_n6_unfold : forall ob mu sg' m lp q r rho', ok_n6 ob mu sg' m lp q r rho' <->
  exists n m' mu', RunProofs.steps ob n m = Some m' /\ (exists more, mu' = mu ++ more) /\ frame6 m m' /\ minv m' /\
    ip m' = (lp, q) /\ vrep6 mu' m' (acc m') r /\ genv_rel6 mu' rho' m' /\ store_rel mu' sg' m'.
Proof. exact ok_n6_unfold. Qed.
Print Assumptions C01_ok_n6_unfold.
Theorem C01_ok_t6_unfold : forall ob mu sg' m r rho', ok_t6 ob mu sg' m r rho' <->
  exists n m' mu' k e i b, RunProofs.steps ob n m = Some m' /\ (exists more, mu' = mu ++ more) /\
    frame_at m k e i b /\ wext m m' /\ minv m' /\
    vrep6 mu' m' (acc m') r /\ genv_rel6 mu' rho' m' /\ store_rel mu' sg' m' /\
    sp m' = bp m - k /\ ep m' = e /\ ip m' = i /\ bp m' = b /\ out_log m' = out_log m /\
    (forall j, j <= bp m - k -> sget m' j = sget m j).
Proof. exact ok_t6_unfold. Qed.
Print Assumptions C01_ok_t6_unfold.
Theorem C01_frame6_unfold : forall m m', frame6 m m' <-> frame m m' /\
  forall e sl, e < next_id (st m) -> tget (envs (st m)) e = Some sl ->
    exists sl', tget (envs (st m')) e = Some sl' /\ len sl' = len sl /\
      (forall k a j, list_get sl k = Some (VLexPtr a j) -> list_get sl' k = Some (VLexPtr a j)) /\
      (forall k w, list_get sl k = Some w -> (forall a j, w <> VLexPtr a j) ->
         exists w', list_get sl' k = Some w' /\ (forall a j, w' <> VLexPtr a j)).
Proof. exact frame6_unfold. Qed.
Print Assumptions C01_frame6_unfold.
Theorem C01_vrep6_closure_unfold : forall mu m v ps cs bodies clocs, vrep6 mu m v (R6Clo ps cs bodies clocs) <->
  exists cp lamp cep ceid cslots, v = VPtr cp /\
    allocated (hp m) cp /\ cell_at (hp m) cp = VClosure lamp cep /\
    allocated (hp m) cep /\ cell_at (hp m) cep = VLexEnv ceid /\ ceid < next_id (st m) /\
    tget (envs (st m)) ceid = Some cslots /\ len cslots = len ps + len cs /\
    length clocs = length cs /\ closure_code6 m lamp ps cs bodies /\
    all_idx6 (fun i l => exists a j, nth_error mu l = Some (a, j) /\ list_get cslots i = Some (VLexPtr a j))
             clocs (len ps).
Proof. exact vrep6_closure_unfold. Qed.
Print Assumptions C01_vrep6_closure_unfold.
Theorem C01_store_rel_unfold : forall mu sg m, store_rel mu sg m <->
  length mu = length sg /\
  (forall l a j r, nth_error mu l = Some (a, j) -> nth_error sg l = Some r ->
     exists eid sl w, allocated (hp m) a /\ cell_at (hp m) a = VLexEnv eid /\ eid < next_id (st m) /\
       tget (envs (st m)) eid = Some sl /\ list_get sl j = Some w /\ (forall a' j', w <> VLexPtr a' j') /\ vrep6 mu m w r) /\
  (forall l1 l2 a1 a2 j eid, nth_error mu l1 = Some (a1, j) -> nth_error mu l2 = Some (a2, j) ->
     cell_at (hp m) a1 = VLexEnv eid -> cell_at (hp m) a2 = VLexEnv eid -> l1 = l2).
Proof. exact store_rel_unfold. Qed.
Print Assumptions C01_store_rel_unfold.
Theorem C01_lrel6_unfold : forall mu lv m, lrel6 mu lv m <->
  forall i l, nth_error lv (N.to_nat i) = Some l ->
  exists eid slots v a j, allocated (hp m) (ep m) /\ cell_at (hp m) (ep m) = VLexEnv eid /\
    eid < next_id (st m) /\ tget (envs (st m)) eid = Some slots /\ list_get slots i = Some v /\
    nth_error mu l = Some (a, j) /\
    (((forall a' j', v <> VLexPtr a' j') /\ a = ep m /\ j = i) \/ v = VLexPtr a j).
Proof. exact lrel6_unfold. Qed.
Print Assumptions C01_lrel6_unfold.

(* Vm::eval on a top-level expression of fragment 6, from any state whose globals and store are
   represented (in particular the empty store with the empty location map) *)
Theorem C01_eval_fragment6 :
  forall (ob : N -> M vcell) (bsem : N -> list rval -> option rval),
  (forall b, builtin_ok ob bsem b) -> (forall b, builtin_envs ob bsem b) ->
  forall e mu sg rho r sg' rho' s,
  wf6 e [] -> ref_eval6 bsem [] [] sg rho e r sg' rho' -> minv s -> genv_rel6 mu rho s -> store_rel mu sg s ->
  transform_expr TRANSFORM_FUEL s (cell_of6 e) = Ok (cell_of6 e) ->
  exists n m mu', (forall fuel, (n <= fuel)%nat -> eval ob fuel (cell_of6 e) s = halt_result m) /\
    (exists more, mu' = mu ++ more) /\ vrep6 mu' m (acc m) r /\ genv_rel6 mu' rho' m /\ store_rel mu' sg' m /\
    minv m /\ cext s m /\ sp m = sp s /\ bp m = bp s /\ ep m = ep s /\ out_log m = out_log s.
Proof. exact eval_fragment6. Qed.
Print Assumptions C01_eval_fragment6.

Theorem C01_eval_fragment6_done :
  forall (ob : N -> M vcell) (bsem : N -> list rval -> option rval),
  (forall b, builtin_ok ob bsem b) -> (forall b, builtin_envs ob bsem b) ->
  forall e mu sg rho b sg' rho' s,
  wf6 e [] -> ref_eval6 bsem [] [] sg rho e (R6Base b) sg' rho' -> minv s -> genv_rel6 mu rho s -> store_rel mu sg s ->
  transform_expr TRANSFORM_FUEL s (cell_of6 e) = Ok (cell_of6 e) ->
  exists n m mu', (exists more, mu' = mu ++ more) /\
    vrep (acc m) b (hp m) (st m) /\ genv_rel6 mu' rho' m /\ store_rel mu' sg' m /\ minv m /\ cext s m /\
    sp m = sp s /\ bp m = bp s /\ ep m = ep s /\ out_log m = out_log s /\
    (forall fuel, (n <= fuel)%nat -> eval ob fuel (cell_of6 e) s = halt_result m) /\
    (halt_result m <> RNoFuel \/ (no_ptr_cells (hp m) /\ (rcost b <= cell_fuel m)%nat) ->
     forall fuel, (n <= fuel)%nat ->
       eval ob fuel (cell_of6 e) s = ROk (Done (rcell b)) (with_stack m tempty (sp m))).
Proof. exact eval_fragment6_done. Qed.
Print Assumptions C01_eval_fragment6_done.

(* sessions compose: globals AND store stay represented in the state a Done evaluation returns *)
Theorem C01_done_state_ok6 : forall mu sg rho m, minv m -> genv_rel6 mu rho m -> store_rel mu sg m ->
  minv (with_stack m tempty (sp m)) /\ genv_rel6 mu rho (with_stack m tempty (sp m)) /\
  store_rel mu sg (with_stack m tempty (sp m)).
Proof. exact done_state_ok6. Qed.
Print Assumptions C01_done_state_ok6.

(* on the booted machine and every session state (R2) *)
Theorem C01_eval_fragment6_session :
  forall (ob : N -> M vcell) (bsem : N -> list rval -> option rval),
  (forall b, builtin_ok ob bsem b) -> (forall b, builtin_envs ob bsem b) ->
  forall e mu sg rho r sg' rho' s0 s,
  booted = Some s0 -> FlatAll.evals s0 s ->
  wf6 e [] -> ref_eval6 bsem [] [] sg rho e r sg' rho' -> genv_rel6 mu rho s -> store_rel mu sg s ->
  transform_expr TRANSFORM_FUEL s (cell_of6 e) = Ok (cell_of6 e) ->
  exists n m mu', (forall fuel, (n <= fuel)%nat -> eval ob fuel (cell_of6 e) s = halt_result m) /\
    (exists more, mu' = mu ++ more) /\ vrep6 mu' m (acc m) r /\ genv_rel6 mu' rho' m /\ store_rel mu' sg' m /\
    minv m /\ cext s m /\ sp m = sp s /\ bp m = bp s /\ ep m = ep s /\ out_log m = out_log s.
Proof. exact FragmentBoot.eval_fragment6_session. Qed.
Print Assumptions C01_eval_fragment6_session.

(* non-vacuity (a): ((lambda (n) ((lambda (u) n) (set! n #t))) #f) — set! on a parameter the
   running lambda owns (direct slot), in operand position, observed afterwards through a closure
   that captured n (pointer slot): reference value #t, final store [#t; #<void>] ... *)
Example C01_fragment6_example :
  wf6 exa6 [] /\ minv (vm_empty 8192) /\ genv_rel6 [] rho6_empty (vm_empty 8192) /\ store_rel [] [] (vm_empty 8192) /\
  ref_eval6 bsem_not [] [] [] rho6_empty exa6 (vB6 true) [vB6 true; vVoid6] rho6_empty.
Proof. exact exa6_hypotheses. Qed.
Example C01_fragment6_example_run :
  transform_expr TRANSFORM_FUEL (vm_empty 8192) (cell_of6 exa6) = Ok (cell_of6 exa6) /\
  match eval other_builtin 300 (cell_of6 exa6) (vm_empty 8192) with
  | ROk (Done c) s' => c = CBool true /\ sp s' = 0 /\ bp s' = 0 /\ ep s' = USIZE_MAX
  | _ => False
  end.
Proof. exact exa6_run. Qed.
(* (b) THE COUNTER ((lambda (n) ((lambda (inc) (inc) (inc)) (lambda () (set! n (if n #f #t)) n))) #f)
   is an expression of the fragment (counter6; its datum is what the reader produces for the text),
   satisfies every hypothesis on the empty machine, and has the reference value #f with the final
   store [#f; <the thunk, capturing location 0>]: every call of the thunk toggles location 0
   through the pointer slot of its activation ... *)
Example C01_counter6 :
  match Parse.parse_text counter6_src with Ok (d, _) => d = cell_of6 counter6 | _ => False end /\
  wf6 counter6 [] /\ minv (vm_empty 8192) /\ genv_rel6 [] rho6_empty (vm_empty 8192) /\ store_rel [] [] (vm_empty 8192) /\
  ref_eval6 bsem_not [] [] [] rho6_empty counter6 (vB6 false) [vB6 false; thunk_val6] rho6_empty /\
  ref_eval6 bsem_not [] [] [] rho6_empty counter6_1 (vB6 true) [vB6 true; thunk_val6] rho6_empty /\
  ref_eval6 bsem_not [] [] [] rho6_empty counter6_3 (vB6 true) [vB6 true; thunk_val6] rho6_empty.
Proof.
  split; [exact counter6_parse|].
  destruct counter6_hypotheses as (H1 & H2 & H3 & H4 & H5).
  repeat (split; [assumption|]). split; [exact counter6_1_ref|exact counter6_3_ref].
Qed.
(* ... and the model answers #f (two calls), #t (one call), #t (three calls) *)
Example C01_counter6_run :
  (transform_expr TRANSFORM_FUEL (vm_empty 8192) (cell_of6 counter6) = Ok (cell_of6 counter6) /\
   match eval other_builtin 300 (cell_of6 counter6) (vm_empty 8192) with
   | ROk (Done c) s' => c = CBool false /\ sp s' = 0 /\ bp s' = 0 /\ ep s' = USIZE_MAX
   | _ => False
   end) /\
  (transform_expr TRANSFORM_FUEL (vm_empty 8192) (cell_of6 counter6_1) = Ok (cell_of6 counter6_1) /\
   match eval other_builtin 300 (cell_of6 counter6_1) (vm_empty 8192) with
   | ROk (Done c) s' => c = CBool true /\ sp s' = 0 /\ bp s' = 0 /\ ep s' = USIZE_MAX
   | _ => False
   end) /\
  (transform_expr TRANSFORM_FUEL (vm_empty 8192) (cell_of6 counter6_3) = Ok (cell_of6 counter6_3) /\
   match eval other_builtin 300 (cell_of6 counter6_3) (vm_empty 8192) with
   | ROk (Done c) s' => c = CBool true /\ sp s' = 0 /\ bp s' = 0 /\ ep s' = USIZE_MAX
   | _ => False
   end).
Proof. split; [exact counter6_run|split; [exact counter6_1_run|exact counter6_3_run]]. Qed.

(* ============================================================ the (define (f x1 ... xn) body ...) spelling
   (work package c01e, Proofs/DefineSugar.v, DefineSugar6.v, DefineSugarBoot.v).
   compile_define (compile.rs:235-296) hands the whole define form to compile_lambda with
   is_define = true: the formals are the cdr of the head, the free-symbol analysis runs on the
   define form (its "define" arm pushes the formals exactly as the "lambda" arm does for a proper
   list of symbols; the fuel of the analysis is irrelevant above the size of the datum,
   C01_free_symbols_fuel).  [desugar_define] is the syntactic translation on data:
   (define (x . formals) . body) |-> (define x (lambda formals . body)), anything else unchanged.
   C01_define_spelling: for a symbol name that is not a primitive symbol, a proper list of symbol
   formals and a non-empty body, compile_expression on the sugared datum IS compile_expression on
   the translated datum with one more level of fuel — the same M-computation: same emitted code,
   same lambda objects, same final machine, same error.  Vm::compile gives compile_expression the
   fuel S (S (size of the datum)) and the sugared datum is SMALLER than its translation, so the
   eval-level theorem is re-assembled from the fragment-6 theorems for the lambda expression
   (C01_sugar_compile6) and the generic HALT-exit lemma C01_eval_of_exec6. *)
From MW Require Import Proofs.DefineSugar Proofs.DefineSugar6.
From MW Require Proofs.DefineSugarBoot.

Theorem C01_free_symbols_fuel : forall f1 c env free, (cell_size c < f1)%nat ->
  forall f2, (cell_size c < f2)%nat -> ffs f1 c env free = ffs f2 c env free.
Proof. exact ffs_fuel. Qed.
Print Assumptions C01_free_symbols_fuel.

Theorem C01_desugar_define_unfold : forall x ps fs bodies,
  sugar6 x ps bodies = CPair DEFINE_ (CPair (CPair (CSym x) (syms_of ps)) (fold_right CPair CNil (map cell_of6 bodies))) /\
  desugar_define (sugar6 x ps bodies) = cell_of6 (WDefine x (WLam ps fs bodies)).
Proof. intros x ps fs bodies. split; reflexivity. Qed.
Print Assumptions C01_desugar_define_unfold.

Theorem C01_define_spelling : forall x ps bs, bs <> [] -> is_primitive_symbol (CSym x) = false ->
  forall f l tail s,
    compile_expression (S f) l tail (sugar_cell x ps bs) s =
    compile_expression (S (S f)) l tail (desugar_define (sugar_cell x ps bs)) s.
Proof. exact define_spelling. Qed.
Print Assumptions C01_define_spelling.

(* compile-and-run correctness of the sugared form (the statement of C01_fragment6_static and
   C01_fragment6_correct for (define x (lambda ...)), about the SUGARED datum), for every fuel
   the lambda expression needs *)
Theorem C01_sugar_compile6 :
  forall (ob : N -> M vcell) (bsem : N -> list rval -> option rval),
  (forall b, builtin_ok ob bsem b) -> (forall b, builtin_envs ob bsem b) ->
  forall sc lv sg rho x ps fs bodies r1 sg1 rho1,
  wf6 (WDefine x (WLam ps fs bodies)) sc ->
  ref_eval6 bsem sc lv sg rho (WLam ps fs bodies) r1 sg1 rho1 ->
  forall f l tail s, (cell_size (cell_of6 (WLam ps fs bodies)) <= f)%nat -> hdr6 l sc s -> minv s ->
  exists l' s' code, compile_expression (S f) l tail (sugar6 x ps bodies) s = ROk l' s' /\
    fwd l' = fwd l ++ code /\ same_hdr l l' /\ minv s' /\ cext s s' /\ same_regs s s' /\
    envs (st s') = envs (st s) /\
    forall m mu lp bc,
      cext s' m -> minv m -> code_in m lp bc -> seg bc (len (fwd l)) code -> ip m = (lp, len (fwd l)) ->
      genv_rel6 mu rho m -> lrel6 mu lv m -> store_rel mu sg m -> (tail = true -> tframe m) ->
      ok_n6 ob mu sg1 m lp (len (fwd l) + len code) (R6Base (RDatum CVoid)) (upd6 rho1 x r1) \/
      (tail = true /\ ok_t6 ob mu sg1 m (R6Base (RDatum CVoid)) (upd6 rho1 x r1)).
Proof. exact sugar_compile6. Qed.
Print Assumptions C01_sugar_compile6.

(* Vm::eval of ANY datum whose top-level compilation succeeded with code that runs correctly *)
Theorem C01_eval_of_exec6 :
  forall (ob : N -> M vcell) (c : cell) mu sg rho r sg' rho' s l1 sA code,
  minv s -> genv_rel6 mu rho s -> store_rel mu sg s ->
  transform_expr TRANSFORM_FUEL s c = Ok c ->
  compile_expression (S (S (cell_size c))) top_lam true c s = ROk l1 sA ->
  fwd l1 = fwd top_lam ++ code -> same_hdr top_lam l1 -> minv sA -> cext s sA -> same_regs s sA ->
  envs (st sA) = envs (st s) ->
  (forall m mu0 lp bc,
      cext sA m -> minv m -> code_in m lp bc -> seg bc (len (fwd top_lam)) code -> ip m = (lp, len (fwd top_lam)) ->
      genv_rel6 mu0 rho m -> lrel6 mu0 [] m -> store_rel mu0 sg m -> (true = true -> tframe m) ->
      ok_n6 ob mu0 sg' m lp (len (fwd top_lam) + len code) r rho' \/ (true = true /\ ok_t6 ob mu0 sg' m r rho')) ->
  exists n m mu', (forall fuel, (n <= fuel)%nat -> eval ob fuel c s = halt_result m) /\
    (exists more, mu' = mu ++ more) /\ vrep6 mu' m (acc m) r /\ genv_rel6 mu' rho' m /\ store_rel mu' sg' m /\
    minv m /\ cext s m /\ sp m = sp s /\ bp m = bp s /\ ep m = ep s /\ out_log m = out_log s.
Proof. exact eval_of_exec6. Qed.
Print Assumptions C01_eval_of_exec6.

(* C01_eval_fragment6 for the top-level form (define (x p1 ... pn) b1 ... bk) *)
Theorem C01_eval_fragment6_sugar :
  forall (ob : N -> M vcell) (bsem : N -> list rval -> option rval),
  (forall b, builtin_ok ob bsem b) -> (forall b, builtin_envs ob bsem b) ->
  forall x ps fs bodies mu sg rho r sg' rho' s,
  wf6 (WDefine x (WLam ps fs bodies)) [] ->
  ref_eval6 bsem [] [] sg rho (WDefine x (WLam ps fs bodies)) r sg' rho' ->
  minv s -> genv_rel6 mu rho s -> store_rel mu sg s ->
  transform_expr TRANSFORM_FUEL s (sugar6 x ps bodies) = Ok (sugar6 x ps bodies) ->
  exists n m mu', (forall fuel, (n <= fuel)%nat -> eval ob fuel (sugar6 x ps bodies) s = halt_result m) /\
    (exists more, mu' = mu ++ more) /\ vrep6 mu' m (acc m) r /\ genv_rel6 mu' rho' m /\ store_rel mu' sg' m /\
    minv m /\ cext s m /\ sp m = sp s /\ bp m = bp s /\ ep m = ep s /\ out_log m = out_log s.
Proof. exact eval_fragment6_sugar. Qed.
Print Assumptions C01_eval_fragment6_sugar.

(* ... on the booted machine and every session state (R2) *)
Theorem C01_eval_fragment6_sugar_session :
  forall (ob : N -> M vcell) (bsem : N -> list rval -> option rval),
  (forall b, builtin_ok ob bsem b) -> (forall b, builtin_envs ob bsem b) ->
  forall x ps fs bodies mu sg rho r sg' rho' s0 s,
  booted = Some s0 -> FlatAll.evals s0 s ->
  wf6 (WDefine x (WLam ps fs bodies)) [] ->
  ref_eval6 bsem [] [] sg rho (WDefine x (WLam ps fs bodies)) r sg' rho' -> genv_rel6 mu rho s -> store_rel mu sg s ->
  transform_expr TRANSFORM_FUEL s (sugar6 x ps bodies) = Ok (sugar6 x ps bodies) ->
  exists n m mu', (forall fuel, (n <= fuel)%nat -> eval ob fuel (sugar6 x ps bodies) s = halt_result m) /\
    (exists more, mu' = mu ++ more) /\ vrep6 mu' m (acc m) r /\ genv_rel6 mu' rho' m /\ store_rel mu' sg' m /\
    minv m /\ cext s m /\ sp m = sp s /\ bp m = bp s /\ ep m = ep s /\ out_log m = out_log s.
Proof. exact DefineSugarBoot.eval_fragment6_sugar_session. Qed.
Print Assumptions C01_eval_fragment6_sugar_session.

(* non-vacuity: (define (flip b) (if b #f #t)) — the datum the reader produces for the text is the
   sugared datum of the fragment-6 expression (define flip (lambda (b) (if b #f #t))); every
   hypothesis of C01_eval_fragment6_sugar holds on the empty machine; reference value #<void>,
   final global environment flip |-> the closure ... *)
Example C01_define_sugar_example :
  match Parse.parse_text DefineSugarBoot.flip_src6 with
  | Ok (d, _) => d = sugar6 DefineSugarBoot.flip6 [DefineSugarBoot.b6] DefineSugarBoot.flip_bodies6
  | _ => False end /\
  wf6 DefineSugarBoot.flip_def6 [] /\ minv (vm_empty 8192) /\ genv_rel6 [] rho6_empty (vm_empty 8192) /\
  store_rel [] [] (vm_empty 8192) /\
  ref_eval6 bsem_not [] [] [] rho6_empty DefineSugarBoot.flip_def6 vVoid6 []
            (upd6 rho6_empty DefineSugarBoot.flip6 DefineSugarBoot.flip_val6) /\
  transform_expr TRANSFORM_FUEL (vm_empty 8192) (sugar6 DefineSugarBoot.flip6 [DefineSugarBoot.b6] DefineSugarBoot.flip_bodies6)
    = Ok (sugar6 DefineSugarBoot.flip6 [DefineSugarBoot.b6] DefineSugarBoot.flip_bodies6).
Proof. split; [exact DefineSugarBoot.flip6_parse|exact DefineSugarBoot.flip6_hypotheses]. Qed.
(* ... and the model: the sugared form then (flip #f) answer #<void> then #t, as does the translated
   form; the two compilations give the same lambda object, heap and global slots *)
Example C01_define_sugar_example_run :
  (match eval other_builtin 300 (sugar6 DefineSugarBoot.flip6 [DefineSugarBoot.b6] DefineSugarBoot.flip_bodies6) (vm_empty 8192) with
   | ROk (Done c) s1 => c = CVoid /\
       match eval other_builtin 300 (cell_of6 DefineSugarBoot.flip_call6) s1 with
       | ROk (Done c') s2 => c' = CBool true /\ sp s2 = 0 /\ bp s2 = 0 /\ ep s2 = USIZE_MAX
       | _ => False
       end
   | _ => False
   end) /\
  (match eval other_builtin 300 (desugar_define (sugar6 DefineSugarBoot.flip6 [DefineSugarBoot.b6] DefineSugarBoot.flip_bodies6)) (vm_empty 8192) with
   | ROk (Done c) s1 => c = CVoid /\
       match eval other_builtin 300 (cell_of6 DefineSugarBoot.flip_call6) s1 with
       | ROk (Done c') s2 => c' = CBool true /\ sp s2 = 0 /\ bp s2 = 0 /\ ep s2 = USIZE_MAX
       | _ => False
       end
   | _ => False
   end).
Proof. exact DefineSugarBoot.flip6_run. Qed.
Example C01_define_spelling_example :
  match compile_expression 50 (lambda_new []) true (sugar6 DefineSugarBoot.flip6 [DefineSugarBoot.b6] DefineSugarBoot.flip_bodies6) (vm_empty 8192),
        compile_expression 51 (lambda_new []) true (desugar_define (sugar6 DefineSugarBoot.flip6 [DefineSugarBoot.b6] DefineSugarBoot.flip_bodies6)) (vm_empty 8192) with
  | ROk l1 s1, ROk l2 s2 => l1 = l2 /\ hp s1 = hp s2 /\ g_slots s1 = g_slots s2 /\ fwd l1 <> []
  | _, _ => False
  end.
Proof. exact DefineSugarBoot.flip6_spelling_run. Qed.

(* ============================================================ VARARG: the contents of the rest list
   (work package c01e, Proofs/VarArgList.v, VarArgExamples.v).  A lambda with a rest parameter is
   compiled to VARARG ; ENTER ; body ; RET; C04_vararg_frame (Props/C04.v) gives the frame VARARG
   leaves on the frame of CALL / TCALL.  Here, as one step of the real machine and with the frame
   facts repeated: the pointer left in the slot of the rest parameter (base + L) is the head of a
   FRESH PROPER LIST — every spine cell is allocated by this instruction and was not allocated
   before — whose elements are the surplus actual arguments (the stack slots base+L .. base+m) in
   order; every cell allocated before is untouched ([hext]) and the heap invariant is kept.  An
   element is what Heap::put makes of the stack value ([helem]): a pointer is stored as itself, any
   other value in an allocated cell holding it. *)
From MW Require Proofs.VarArgProofs Proofs.VarArgList Proofs.VarArgExamples.

Theorem C01_helem_unfold : forall h a v, VarArgList.helem h a v <->
  (v = VPtr a \/ ((forall q, v <> VPtr q) /\ allocated h a /\ cell_at h a = v)).
Proof. intros h a v. reflexivity. Qed.
Print Assumptions C01_helem_unfold.

Theorem C01_hlist_unfold : forall h0 h p vs, VarArgList.hlist h0 h p vs <->
  match vs with
  | [] => allocated h p /\ ~ allocated h0 p /\ cell_at h p = VNil
  | v :: vs' => exists a d, allocated h p /\ ~ allocated h0 p /\ cell_at h p = VPair a d /\
                            VarArgList.helem h a v /\ VarArgList.hlist h0 h d vs'
  end.
Proof. exact VarArgList.hlist_unfold. Qed.
Print Assumptions C01_hlist_unfold.

Theorem C01_vararg_rest_list : forall (ob : N -> M vcell) s0 s l m,
  read_opcode s0 = ROk OVarArg s ->
  cur_lambda s = ROk l s ->
  1 <= len (l_args l) -> len (l_args l) - 1 <= m ->    (* at least the fixed arguments *)
  m + 3 <= sp s -> sget s (sp s - 2) = VArgc m ->       (* the frame CALL / TCALL left *)
  sp s + 1 < scap s -> heap_inv (hp s) ->
  let L := len (l_args l) in
  let base := sp s - 3 - m in
  exists p s',
    run_one ob s0 = ROk false s' /\
    sp s' = base + L + 3 /\ VarArgProofs.same_regs s s' /\
    (forall j, j + 1 <= base + L -> sget s' j = sget s j) /\
    sget s' (base + L) = VPtr p /\
    sget s' (base + L + 1) = VArgc L /\
    sget s' (base + L + 2) = sget s (sp s - 1) /\
    sget s' (base + L + 3) = sget s (sp s) /\
    heap_inv (hp s') /\ QuoteHeapProofs.hext (hp s) (hp s') /\
    VarArgList.hlist (hp s) (hp s') p (map (fun j => sget s (base + L + N.of_nat j)) (seq 0 (N.to_nat (m + 1 - L)))).
Proof. exact VarArgList.vararg_step_rest_list. Qed.
Print Assumptions C01_vararg_rest_list.

(* non-vacuity: the model run on ((lambda (a . rest) rest) 1 2 3) from the empty machine reaches,
   14 instructions after prepare_eval, the VARARG of the callee in a state that satisfies every
   hypothesis (3 actual arguments, L = 2) ... *)
Example C01_vararg_example :
  prepare_eval VarArgExamples.va_e (vm_empty 8192) = ROk tt VarArgExamples.va_m0 /\
  RunProofs.steps other_builtin 14 VarArgExamples.va_m0 = Some VarArgExamples.va_s0 /\
  read_opcode VarArgExamples.va_s0 = ROk OVarArg VarArgExamples.va_s /\
  cur_lambda VarArgExamples.va_s = ROk VarArgExamples.va_l VarArgExamples.va_s /\
  len (l_args VarArgExamples.va_l) = 2 /\ 3 + 3 <= sp VarArgExamples.va_s /\
  sget VarArgExamples.va_s (sp VarArgExamples.va_s - 2) = VArgc 3 /\
  sp VarArgExamples.va_s + 1 < scap VarArgExamples.va_s /\ heap_inv (hp VarArgExamples.va_s).
Proof.
  split; [exact (proj1 VarArgExamples.va_reach)|]. split; [exact (proj1 (proj2 VarArgExamples.va_reach))|].
  exact VarArgExamples.va_hypotheses.
Qed.
(* ... and the evaluations return the rest lists: (2 3), (1 2), (), (3) *)
Example C01_vararg_example_run :
  VarArgExamples.result_of VarArgExamples.va_src = VarArgExamples.datum_of (S_ "(2 3)"%string) /\
  VarArgExamples.result_of (S_ "((lambda args args) 1 2)"%string) = VarArgExamples.datum_of (S_ "(1 2)"%string) /\
  VarArgExamples.result_of (S_ "((lambda (a . rest) rest) 1)"%string) = VarArgExamples.datum_of (S_ "()"%string) /\
  VarArgExamples.result_of (S_ "((lambda (a b . rest) rest) 1 2 3)"%string) = VarArgExamples.datum_of (S_ "(3)"%string) /\
  VarArgExamples.datum_of (S_ "(2 3)"%string) <> None.
Proof. exact VarArgExamples.va_runs. Qed.
