(* C17 — syntax-rules is sound where supported and always terminates.
   Model: Model/Transform.v (marwood/src/vm/transform.rs as written, with fix F15 in
   check_template_syntax; compile.rs:78-118 driver).  Specification: Model/SRSpec.v
   (R7RS 4.3.2).  Only statements; proofs are in Proofs/TransformProofs.v and
   Proofs/ExpandProofs.v.                                                          *)
From Coq Require Import String.
From MW Require Import Model.Base Model.Datum Model.Parse Model.TransformDef Model.Transform Model.SRSpec
  Proofs.TransformProofs Proofs.ExpandProofs.
Open Scope N_scope.

(* ------------------------------------------------------------------ the property *)
(* for one definition datum [d] and one use [u]: definition and expansion terminate
   without panic, and the outcome is a reported error or exactly the R7RS expansion
   (uses whose ellipsis variables matched different lengths are excluded) *)
(* [sound_on] is defined in Proofs/TransformProofs.v (it is needed by the refutation
   lemmas); restated here so that the statement is visible: *)
Example sound_on_is : forall d u, sound_on d u =
  match transform_try_new d with
  | Ok tr =>
      match transform_apply tr u with
      | Ok c => spec_of_transform tr u = SpecOk c \/ spec_of_transform tr u = SpecExcluded
      | Err _ => True
      | Panic _ | NoFuel => False
      end
  | Err _ => True
  | Panic _ | NoFuel => False
  end.
Proof. reflexivity. Qed.

Definition C17_full : Prop := forall d u, sound_on d u.      (* FALSE on the pinned and on the repaired tree: see the refutations *)

(* ------------------------------------------------------------------ the main theorems *)
(* C17_main (formerly OPEN as C17_main_stmt): on the supported fragment (SRSpec.supported,
   decidable: every rule of the transformer built by try_new is in S_pat / S_tmpl with no
   pattern variable twice, the ellipsis is an identifier, and the use is in S_use for every
   rule) the whole pipeline -- try_new, the rule loop, pattern_match, expand with the entry
   point's fuel -- terminates without panic and returns a reported error or exactly the R7RS
   expansion.  No further hypothesis.  Proofs/ExpandProofs.v: main_sound, composed from
   define_total, first_matching_rule (hence match_sound_complete), build_shape (Pattern::build
   records exactly the pattern variables, flagged when directly followed by the ellipsis),
   smatch_shape and expand_sound. *)
Theorem C17_main : forall d u, supported d u = true -> sound_on d u.
Proof. exact main_sound. Qed.
Print Assumptions C17_main.

(* stronger form: on the supported fragment the model of Transform::transform equals the
   specification function, whatever the extra fuel ([transform_expand], the entry point used
   by the other packages, = transform_apply_fuel): the R7RS expansion when a rule
   R7RS-matches, a reported error exactly when none does.  Sound, complete, terminating.
   (hypotheses satisfiable: C17_supported_nonvacuous below) *)
Theorem C17_supported_exact : forall d tr u extra,
  transform_try_new d = Ok tr -> supported_tr tr u = true ->
  transform_apply_fuel extra tr u =
  match spec_of_transform tr u with SpecOk c => Ok c | _ => Err E_OTHER end.
Proof. exact apply_supported. Qed.
Print Assumptions C17_supported_exact.

(* C17_expand_sound (formerly OPEN as C17_expand_sound_stmt): expand on S_tmpl equals the
   specification's instantiation, within the fuel the entry point hands it, and leaves every
   cursor reset.  Proofs/ExpandProofs.v: ell_run (one `x ...` group: one item per round of
   get_expanded_binding, then the cursor is reset), expand_sound_sized (all cursors None
   between elements; fuel cell_size t * (length bindings + 2) suffices). *)
Theorem C17_expand_sound :
  forall (pat : pattern) (ell : cell) (se : senv) (t : cell),
    is_symbol ell = true ->
    tmpl_ok (is_expanded_variable pat) ell false t = true ->
    (forall x, is_symbol x = true -> is_variable pat x = true <-> exists b, slookup se x = Some b) ->
    (forall x, is_symbol x = true -> is_expanded_variable pat x = true <-> exists l, slookup se x = Some (BMany l)) ->
    no_dup (map fst se) = true ->
    (forall x l, slookup se x = Some (BMany l) -> exists fs, l = map BOne fs) ->
    exists c, sinst ell t se = SOk c /\
      expand ell pat (flat se) (expand_fuel t (flat se)) t (env_new pat) = Ok (Some c, env_new pat).
Proof. exact expand_sound. Qed.
Print Assumptions C17_expand_sound.

(* the hypotheses of C17_expand_sound are exactly what a successful definition and match in
   the supported fragment provide (used by C17_main) *)
Theorem C17_selected_rule_facts : forall lits ell pat pk pd ud se,
  is_symbol ell = true ->
  build pd (mk_pattern (CPair pk pd) [] [] ell lits UNDERSCORE) = Ok pat ->
  S_match lits ell pd ud = true -> no_dup (pvars lits ell pd) = true ->
  smatch lits ell pd ud = Some se ->
  (forall x, is_symbol x = true -> is_variable pat x = true <-> exists b, slookup se x = Some b) /\
  (forall x, is_symbol x = true -> is_expanded_variable pat x = true <-> exists l, slookup se x = Some (BMany l)) /\
  no_dup (map fst se) = true /\
  (forall x l, slookup se x = Some (BMany l) -> exists fs, l = map BOne fs).
Proof. exact selected_rule_facts. Qed.
Print Assumptions C17_selected_rule_facts.

(* ------------------------------------------------------------------ proved *)
(* definition-time analysis terminates (it has no fuel) and never panics, for every datum *)
Theorem C17_define_total : forall d,
  match transform_try_new d with Ok _ | Err _ => True | Panic _ | NoFuel => False end.
Proof. exact define_total. Qed.
Print Assumptions C17_define_total.

(* the matcher is sound AND complete on S_match (pattern and use): with the fuel the entry
   point uses it returns exactly the R7RS match, the bindings being the flat, in-order
   reading of the R7RS environment appended to the incoming ones *)
Theorem C17_match_sound_complete : forall lits ell, is_symbol ell = true ->
  forall p u env, S_match lits ell p u = true ->
  pattern_match lits ell (pm_fuel p) p u env =
  Ok (option_map (fun se => env ++ flat se) (smatch lits ell p u)).
Proof. exact match_sound_complete. Qed.
Print Assumptions C17_match_sound_complete.

(* first matching rule: on the supported fragment the rule loop of Transform::transform
   selects exactly the first rule whose pattern R7RS-matches the use, hands [expand] the
   flat reading of the R7RS environment, and reports an error when no rule matches *)
Theorem C17_first_matching_rule : forall tr u extra, supported_tr tr u = true ->
  transform_apply_fuel extra tr u =
  match spec_select (tr_literals tr) (tr_ellipsis tr) (tr_rules tr) u with
  | None => Err E_OTHER
  | Some (pat, tmpl, se) =>
      match expand (tr_ellipsis tr) pat (flat se) (expand_fuel tmpl (flat se) + extra) tmpl (env_new pat) with
      | Ok (Some c, _) => Ok c
      | Ok (None, _) => Err E_OTHER
      | Err e => Err e
      | Panic s => Panic s
      | NoFuel => NoFuel
      end
  end.
Proof. exact first_matching_rule. Qed.
Print Assumptions C17_first_matching_rule.


(* expand on ellipsis-free templates (identifiers, non-vector data, proper lists nested to
   any depth): with fuel twice the size of the template it returns the specification's
   instantiation and leaves the cursors untouched, provided every identifier does (the
   leaf hypothesis; it holds for identifiers that are not pattern variables and for
   variables bound outside any ellipsis: leaf_not_variable, leaf_plain_variable) *)
Theorem C17_expand_plain : forall ell pat bs se,
  (forall x, is_symbol x = true -> s_is_ell ell x = false ->
     exists c, sinst ell x se = SOk c /\ forall f its, expand ell pat bs (S f) x its = Ok (Some c, its)) ->
  forall t, tmpl_ok (fun _ => false) ell false t = true ->
  exists c, sinst ell t se = SOk c /\
  forall f its, (2 * cell_size t <= f)%nat -> expand ell pat bs f t its = Ok (Some c, its).
Proof. exact expand_plain. Qed.
Print Assumptions C17_expand_plain.

(* ------------------------------------------------------------------ refuted *)
(* [refuted d u] := supported d u = false /\ ~ sound_on d u.  One concrete witness per
   recorded class outside the fragment; each is replayed on the implementation by the check
   (lib/props/c17.py CORPUS). *)
Theorem C17_refuted_nested_ellipsis : exists d u, refuted d u.
Proof. exact ex_refuted_nested_ellipsis. Qed.
Print Assumptions C17_refuted_nested_ellipsis.

Theorem C17_refuted_var_twice_under_ellipsis : exists d u, refuted d u.
Proof. exact ex_refuted_var_twice. Qed.
Print Assumptions C17_refuted_var_twice_under_ellipsis.

(* never terminates (NoFuel in the model stands for the hang of the real loop) *)
Theorem C17_refuted_var_twice_hang : exists d u, supported d u = false /\
  exists tr, transform_try_new d = Ok tr /\ transform_apply tr u = NoFuel.
Proof. exact ex_refuted_var_twice_hang. Qed.
Print Assumptions C17_refuted_var_twice_hang.

Theorem C17_refuted_vector_template : exists d u, refuted d u.
Proof. exact ex_refuted_vector_template. Qed.
Print Assumptions C17_refuted_vector_template.

Theorem C17_refuted_dotted_template : exists d u, refuted d u.
Proof. exact ex_refuted_dotted_template. Qed.
Print Assumptions C17_refuted_dotted_template.

Theorem C17_refuted_ellipsis_var_without_ellipsis : exists d u, refuted d u.
Proof. exact ex_refuted_ellipsis_var_without_ellipsis. Qed.
Print Assumptions C17_refuted_ellipsis_var_without_ellipsis.

Theorem C17_refuted_stale_cursor : exists d u, refuted d u.
Proof. exact ex_refuted_stale_cursor. Qed.
Print Assumptions C17_refuted_stale_cursor.

Theorem C17_refuted_dotted_pattern_fallthrough : exists d u, refuted d u.
Proof. exact ex_refuted_dotted_pattern_fallthrough. Qed.
Print Assumptions C17_refuted_dotted_pattern_fallthrough.

Theorem C17_refuted_dotted_pattern_binding : exists d u, refuted d u.
Proof. exact ex_refuted_dotted_pattern_binding. Qed.
Print Assumptions C17_refuted_dotted_pattern_binding.

Theorem C17_refuted_ellipsis_tail_zero_items : exists d u, refuted d u.
Proof. exact ex_refuted_ellipsis_tail_zero_items. Qed.
Print Assumptions C17_refuted_ellipsis_tail_zero_items.

Theorem C17_refuted_vector_pattern_literal : exists d u, refuted d u.
Proof. exact ex_refuted_vector_pattern_literal. Qed.
Print Assumptions C17_refuted_vector_pattern_literal.

(* F15 is fixed: the non-terminating template is rejected at definition time *)
Theorem C17_f15_rejected_at_definition :
  exists e, transform_try_new (defn "() ((_ a) '(a ...))") = Err e.
Proof. exact f15_rejected. Qed.
Print Assumptions C17_f15_rejected_at_definition.

(* ------------------------------------------------------------------ non-vacuity *)
(* the hypothesis of C17_main is satisfiable on a three-rule transformer with literals, a
   nested pattern, a fixed tail after the ellipsis and ellipsis templates *)
Example C17_supported_nonvacuous :
  let d := defn "(else) ((_ a) '(one a)) ((_ a b ... else (c d)) '(d (a) (b ...) c b ...)) ((_ x ...) '(x ...))" in
  let u := rd "(m 1 2 3 else (4 5))" in
  supported d u = true /\ sound_on d u /\
  (exists tr, transform_try_new d = Ok tr /\ transform_apply tr u = Ok (rd "'(5 (1) (2 3) 4 2 3)")).
Proof. exact supported_example. Qed.

(* the hypotheses of C17_expand_sound hold (and its conclusion is the R7RS expansion) for the
   rule selected for a use of a transformer whose template has a nested list and two ellipsis
   groups, one variable expanded twice *)
Example C17_expand_sound_nonvacuous :
  let d := defn "(else) ((_ a b ... else (c d)) '(d (a) (b ...) c b ...))" in
  let u := rd "(m 1 2 3 else (4 5))" in
  exists tr pat tmpl se,
    transform_try_new d = Ok tr /\
    spec_select (tr_literals tr) (tr_ellipsis tr) (tr_rules tr) u = Some (pat, tmpl, se) /\
    tmpl = rd "'(d (a) (b ...) c b ...)" /\
    se = [(rd "a", BOne (rd "1")); (rd "b", BMany [BOne (rd "2"); BOne (rd "3")]);
          (rd "c", BOne (rd "4")); (rd "d", BOne (rd "5"))] /\
    is_symbol (tr_ellipsis tr) = true /\
    tmpl_ok (is_expanded_variable pat) (tr_ellipsis tr) false tmpl = true /\
    (forall x, is_symbol x = true -> is_variable pat x = true <-> exists b, slookup se x = Some b) /\
    (forall x, is_symbol x = true -> is_expanded_variable pat x = true <-> exists l, slookup se x = Some (BMany l)) /\
    no_dup (map fst se) = true /\
    (forall x l, slookup se x = Some (BMany l) -> exists fs, l = map BOne fs) /\
    expand (tr_ellipsis tr) pat (flat se) (expand_fuel tmpl (flat se)) tmpl (env_new pat) =
      Ok (Some (rd "'(5 (1) (2 3) 4 2 3)"), env_new pat).
Proof. exact expand_sound_example. Qed.

Example C17_S_match_nonvacuous :
  S_match [CSym (S_ "else")] DOTS (rd "(a b ... else (c d))") (rd "(1 2 3 else (4 5))") = true /\
  S_match [] DOTS (rd "(a ... b)") (rd "(1)") = false.
Proof. exact s_match_example. Qed.
