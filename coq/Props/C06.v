(* C06 — total API (reader part): every text handed to the scanner, the reader, the
   datum-by-datum loop or the bracket highlighter yields a value or an error value,
   never a panic and never a hang.  Statements only; proofs in Proofs/LexProofs.v,
   Proofs/ParseTotal.v, Proofs/ParseAllTotal.v, Proofs/HighlightProofs.v.
   Model: Model/Lex.v (lex.rs), Model/Parse.v (parse.rs), Model/NumFmt.v
   (number.rs parse_with_exactness and the num crates it runs), Model/Highlight.v
   (syntax.rs), Model/Wire.v (parse_all).  [Panic] and [NoFuel] are explicit
   outcomes of the model ([out] in Model/Base.v).

   On the pinned tree the reader was NOT total in a debug build: a token directly
   after a number prefix (#d #x #e ...) is handed to Number::parse_with_exactness
   whatever its type, and Ratio<i32>::from_str_radix + reduce overflowed on a signed
   denominator ("#d1/-2147483648", found while proving this file).  Repaired by
   fix e424813 (signed denominators are not numbers); the model follows the fix and
   the reader is now proved total on every text. *)
From MW Require Import Model.Base Model.F64 Model.Num Model.NumFmt Model.Datum Model.Lex Model.Parse
  Model.Highlight Model.Wire Model.VmTypes Model.VmBase Model.Vm Model.Builtins
  Proofs.LexProofs Proofs.ParseProofs Proofs.ParseTotal Proofs.ParseAllTotal Proofs.HighlightProofs
  Proofs.BuiltinCoverage.
From MW Require Gen.Builtins.
From Coq Require Import Lia.
Open Scope N_scope.

(* the scanner: tokens or an error *)
Theorem C06_scan_total : forall t, (exists ts, scan t = Ok ts) \/ (exists e, scan t = Err e).
Proof. exact scan_total. Qed.
Print Assumptions C06_scan_total.

(* the reader on EVERY text: a datum (and the remaining text) or an error value; in
   particular none of the panic sites 1-5 of Model/Parse.v and Model/Lex.v, no panic
   of the number parser (Ratio<i32> arithmetic included), enough fuel *)
Theorem C06_parse_text_total : forall t,
  (exists d r, parse_text t = Ok (d, r)) \/ (exists e, parse_text t = Err e).
Proof. exact parse_text_total_full. Qed.
Print Assumptions C06_parse_text_total.

(* Number::parse_with_exactness (debug build) on ANY text, for a valid radix: a
   number or "not a number" *)
Theorem C06_parse_with_exactness_total : forall sp ex r, (2 <= r <= 36)%Z ->
  exists o, parse_with_exactness sp ex r = Ok o.
Proof. intros sp ex r Hr. apply parse_with_exactness_safe; [exact Hr|]. apply rational_ok_all. lia. Qed.
Print Assumptions C06_parse_with_exactness_total.

(* the parser proper on scanner output never runs out of the fuel it is given *)
Theorem C06_parse_fuel_enough : forall t ts, scan t = Ok ts ->
  safe (parse (parse_fuel ts) t ts).
Proof. intros t ts Hs. apply parse_fuel_enough; [exact Hs|apply known_C06_never]. Qed.
Print Assumptions C06_parse_fuel_enough.

(* the remaining text is strictly shorter: the datum-by-datum loop terminates *)
Theorem C06_parse_text_rest : forall t d s, parse_text t = Ok (d, Some s) ->
  (length s < length t)%nat.
Proof. intros t d s H. exact (proj2 (parse_text_rest t d s (known_C06_never t) H)). Qed.
Print Assumptions C06_parse_text_rest.

(* the datum-by-datum loop (interface 5): a sequence of data, then END or an error;
   never PANIC, never NOFUEL *)
Theorem C06_parse_all_total : forall t,
  exists ds e, reads t ds e /\
    forall acc, parse_all (S (length t)) t acc = acc ++ flat_map show_datum ds ++ show_end e.
Proof. intros t. exact (parse_all_total t (known_C06_never t)). Qed.
Print Assumptions C06_parse_all_total.

(* the bracket highlighter *)
Theorem C06_highlight_total : forall t index, exists r, highlight t index = Ok r.
Proof. exact highlight_total. Qed.
Print Assumptions C06_highlight_total.

(* coverage of the builtin-call correspondence, over the table GENERATED from
   /repo/marwood/src/vm/builtin/*.rs on every run: a registered builtin whose dispatch
   reaches the "no model" fall-through (site 99) is one of the explicitly listed names
   (libm, rand, time, terminal size), for which only the implementation is observed ... *)
Theorem C06_builtin_coverage : forall b, b < N.of_nat (length Gen.Builtins.builtin_table) ->
  run_builtin pkg_builtin b (vm_empty 16) = RPanic 99 ->
  exists s, In s unmodelled_names /\ text_is (builtin_name b) s = true.
Proof. exact builtin_coverage. Qed.
Print Assumptions C06_builtin_coverage.

(* ... and the list names nothing that has a model *)
Theorem C06_unmodelled_list_exact : forall s, In s unmodelled_names ->
  exists b, In b ids /\ text_is (builtin_name b) s = true /\ unmodelled b = true.
Proof. exact unmodelled_list_exact. Qed.
Print Assumptions C06_unmodelled_list_exact.

(* non-vacuity: a text with every kind of token is outside the class and is read;
   an unterminated string is an error value; the loop reads three data *)
Example C06_example :
  (* (a #xFF "s\x41;" #\x41 #e1.5 #(1) . b) c *)
  let t := [40;97;32;35;120;70;70;32;34;115;92;120;52;49;59;34;32;35;92;120;52;49;32;
            35;101;49;46;53;32;35;40;49;41;32;46;32;98;41;32;99] in
  (exists d, parse_text t = Ok (d, Some [99])) /\
  parse_text [34;97] = Err E_INCOMPLETE /\
  parse_text [35;100;49;47;45;50] = Ok (CSym [49;47;45;50], None) /\
  (exists r, highlight [40;97;41] 3 = Ok r).
Proof.
  cbv zeta. split; [eexists; vm_compute; reflexivity|].
  split; [vm_compute; reflexivity|]. split; [vm_compute; reflexivity|].
  eexists; vm_compute; reflexivity.
Qed.

(* ---------------------------------------------------------------------------------
   total API (evaluator part), for the two FRAGMENTS of the language whose compile + run
   correctness is proved in C01 (Proofs/CompileCorrect.v, Proofs/CompileCorrect2.v).
   These are theorems about the MODEL's Vm.eval (Model/Vm.v) on those fragments only; they
   say nothing about the rest of the language (closures that capture or escape, named
   procedures, quasiquote, macros, the derived forms of the prelude, builtins without a
   specification). *)
From MW Require Import Model.Compile Model.Heap Proofs.RunProofs Proofs.CompileCorrect Proofs.CompileCorrect2
  Proofs.FragmentCorollaries.

(* a result of Vm.eval other than NoFuel is the result for every larger fuel (NoFuel stands
   for "does not finish within the fuel of the model") *)
Theorem C06_eval_fuel_monotone : forall (ob : N -> M vcell) f g e s, (f <= g)%nat ->
  eval ob f e s <> RNoFuel -> eval ob g e s = eval ob f e s.
Proof. exact eval_fuel_mono. Qed.
Print Assumptions C06_eval_fuel_monotone.

(* the generic step: if for every sufficient fuel the evaluation of e on s is the HALT exit of
   a machine whose %acc represents a reference value r, then NO fuel makes it a panic *)
Theorem C06_eval_halt_no_panic : forall (ob : N -> M vcell) e s n m r,
  (forall fuel, (n <= fuel)%nat -> eval ob fuel e s = halt_result m) ->
  vrep (acc m) r (hp m) (st m) ->
  forall fuel k, eval ob fuel e s <> RPanic k.
Proof. exact eval_halt_no_panic. Qed.
Print Assumptions C06_eval_halt_no_panic.

(* Fragment 1 (constants, quote, if, global variables, global define / set!, application of
   an expression that evaluates to a builtin).  Under exactly the premises of
   C01_eval_fragment — every builtin satisfies its specification [builtin_ok ob bsem b] (true
   for every table with the empty specification, proved for the real `not`), e is well formed,
   the reference semantics gives e a value r in the global environment rho, the machine s
   satisfies [minv] (interning invariant of the heap, injective global slots, sp < capacity;
   proved for the empty machine, NOT for the booted one) and agrees with rho, the macro
   expander leaves the form alone — Vm.eval does not panic, for ANY fuel (in particular none
   of the unwrap / expect / index sites of the compiler and of the run loop is reached) *)
Theorem C06_fragment_no_panic :
  forall (ob : N -> M vcell) (bsem : N -> list rval -> option rval),
  (forall b, builtin_ok ob bsem b) ->
  forall e rho r rho' s,
  wf_expr e -> ref_eval bsem rho e r rho' -> minv s -> genv_rel rho s ->
  transform_expr TRANSFORM_FUEL s (cell_of e) = Ok (cell_of e) ->
  forall fuel k, eval ob fuel (cell_of e) s <> RPanic k.
Proof. exact fragment_no_panic. Qed.
Print Assumptions C06_fragment_no_panic.

(* ... more precisely, for any fuel the outcome is NoFuel (of the run loop, or of the final
   get_as_cell whose fuel is an artefact of the model) or Done of the reference value: never
   an error value either *)
Theorem C06_fragment_outcome :
  forall (ob : N -> M vcell) (bsem : N -> list rval -> option rval),
  (forall b, builtin_ok ob bsem b) ->
  forall e rho r rho' s,
  wf_expr e -> ref_eval bsem rho e r rho' -> minv s -> genv_rel rho s ->
  transform_expr TRANSFORM_FUEL s (cell_of e) = Ok (cell_of e) ->
  forall fuel, eval ob fuel (cell_of e) s = RNoFuel \/
               exists s', eval ob fuel (cell_of e) s = ROk (Done (rcell r)) s'.
Proof. exact fragment_outcome. Qed.
Print Assumptions C06_fragment_outcome.

(* Fragment 2 (fragment 1 + lambda expressions applied in place with local variables, CALL
   and TCALL), under exactly the premises of C01_eval_fragment2 (additionally: a builtin with
   a specified result leaves the lexical environments alone, [builtin_envs]) *)
Theorem C06_fragment2_no_panic :
  forall (ob : N -> M vcell) (bsem : N -> list rval -> option rval),
  (forall b, builtin_ok ob bsem b) -> (forall b, builtin_envs ob bsem b) ->
  forall e rho r rho' s,
  wf_expr2 e [] -> ref_eval2 bsem [] [] rho e r rho' -> minv s -> genv_rel rho s ->
  transform_expr TRANSFORM_FUEL s (cell_of2 e) = Ok (cell_of2 e) ->
  forall fuel k, eval ob fuel (cell_of2 e) s <> RPanic k.
Proof. exact fragment2_no_panic. Qed.
Print Assumptions C06_fragment2_no_panic.

Theorem C06_fragment2_outcome :
  forall (ob : N -> M vcell) (bsem : N -> list rval -> option rval),
  (forall b, builtin_ok ob bsem b) -> (forall b, builtin_envs ob bsem b) ->
  forall e rho r rho' s,
  wf_expr2 e [] -> ref_eval2 bsem [] [] rho e r rho' -> minv s -> genv_rel rho s ->
  transform_expr TRANSFORM_FUEL s (cell_of2 e) = Ok (cell_of2 e) ->
  forall fuel, eval ob fuel (cell_of2 e) s = RNoFuel \/
               exists s', eval ob fuel (cell_of2 e) s = ROk (Done (rcell r)) s'.
Proof. exact fragment2_outcome. Qed.
Print Assumptions C06_fragment2_outcome.

(* non-vacuity: the premises hold for (if (define x '(#t)) x #f) and for
   ((lambda (x y) (if x y 'no)) #t '(1 2)) on the empty machine with the real builtin table and
   the specification of `not` (C01_fragment_example, C01_fragment2_example); hence no fuel
   makes their evaluation panic, and with fuel 100 the model computes a Done result *)
Example C06_fragment_no_panic_example :
  (forall fuel k, eval Builtins.other_builtin fuel (cell_of ex_e) (vm_empty 8192) <> RPanic k) /\
  (forall fuel k, eval Builtins.other_builtin fuel (cell_of2 ex2_e) (vm_empty 8192) <> RPanic k) /\
  match eval Builtins.other_builtin 100 (cell_of ex_e) (vm_empty 8192) with
  | ROk (Done c) _ => c = ex_datum | _ => False end /\
  match eval Builtins.other_builtin 100 (cell_of2 ex2_e) (vm_empty 8192) with
  | ROk (Done c) _ => c = ex2_list | _ => False end.
Proof.
  split; [|split; [|split; vm_compute; reflexivity]].
  - destruct ex_hypotheses as (Hwf & MI & G & HR).
    refine (C06_fragment_no_panic Builtins.other_builtin bsem_not builtin_ok_not ex_e _ _ _ _ Hwf HR MI G _).
    vm_compute. reflexivity.
  - destruct ex2_hypotheses as (Hwf & MI & G & HR).
    refine (C06_fragment2_no_panic Builtins.other_builtin bsem_not builtin_ok_not builtin_envs_not ex2_e _ _ _ _
              Hwf HR MI G _).
    vm_compute. reflexivity.
Qed.

(* Fragment 3 (fragment 2 + closures as values: lambda expressions in any position capturing
   variables of enclosing lambdas, application of closures, named procedures by
   (define f (lambda ...)), recursion through the global), under exactly the premises of
   C01_eval_fragment3, for a reference value that is a datum or a builtin procedure *)
From MW Require Import Proofs.Closures3 Proofs.EvalFragment3.
Theorem C06_fragment3_no_panic :
  forall (ob : N -> M vcell) (bsem : N -> list rval -> option rval),
  (forall b, builtin_ok ob bsem b) -> (forall b, builtin_envs ob bsem b) ->
  forall e rho b rho' s,
  wf3 e [] -> ref_eval3 bsem [] [] rho e (R3Base b) rho' -> minv s -> genv_rel3 rho s ->
  transform_expr TRANSFORM_FUEL s (cell_of3 e) = Ok (cell_of3 e) ->
  forall fuel k, eval ob fuel (cell_of3 e) s <> RPanic k.
Proof. exact fragment3_no_panic. Qed.
Print Assumptions C06_fragment3_no_panic.

Theorem C06_fragment3_outcome :
  forall (ob : N -> M vcell) (bsem : N -> list rval -> option rval),
  (forall b, builtin_ok ob bsem b) -> (forall b, builtin_envs ob bsem b) ->
  forall e rho b rho' s,
  wf3 e [] -> ref_eval3 bsem [] [] rho e (R3Base b) rho' -> minv s -> genv_rel3 rho s ->
  transform_expr TRANSFORM_FUEL s (cell_of3 e) = Ok (cell_of3 e) ->
  forall fuel, eval ob fuel (cell_of3 e) s = RNoFuel \/
               exists s', eval ob fuel (cell_of3 e) s = ROk (Done (rcell b)) s'.
Proof. exact fragment3_outcome. Qed.
Print Assumptions C06_fragment3_outcome.

(* non-vacuity: (((lambda (x) (lambda (y) (if y x 'no))) '(1 2)) #t) on the empty machine *)
Example C06_fragment3_no_panic_example :
  (forall fuel k, eval Builtins.other_builtin fuel (cell_of3 ex4_e) (vm_empty 8192) <> RPanic k) /\
  match eval Builtins.other_builtin 200 (cell_of3 ex4_e) (vm_empty 8192) with
  | ROk (Done c) _ => c = ex2_list | _ => False end.
Proof.
  split; [|vm_compute; reflexivity].
  destruct ex4_hypotheses as (Hwf & MI & G & HR).
  refine (C06_fragment3_no_panic Builtins.other_builtin bsem_not builtin_ok_not builtin_envs_not ex4_e _ _ _ _
            Hwf HR MI G _).
  vm_compute. reflexivity.
Qed.

(* ====================================================================== *)
(* The VM as a whole (WP-c06d): no dangling reference, decodable code.

   Invariant [NoPanicBase.wfm s]: the heap satisfies heap_inv; every symbol bound in the global
   environment has a slot; EVERY cell value stored anywhere in s — heap cells, all stack slots, %acc,
   global slots, vector and environment payloads, the bytecode of every code object, the saved stack
   and saved ip of every continuation — is [vwf]: a VStr/VVec/VLambda/VLexEnv/VCont names an existing
   Rc payload, the lambda pointer of a VClosure and of a VIp is a heap cell holding a VLambda whose
   code exists, a VIp index is >= 1, a VGSlot is a slot of the global environment; saved stacks fit the
   stack Vec; every code object starts with an opcode.  It holds for the machine of Vm::new, is kept
   by load_builtins, by the compiler on ANY datum, by every instruction, every builtin of the
   generated table and by Vm::eval (with finv /\ J of C01/C02), and it excludes the panic sites
   X = 11 12 13 41 42 43 45 46 47 48 49 50 51 of Model/Vm.v / Heap.v ([xsiteb]); 12 = Heap::put_cell of a
   procedure / continuation / macro object, excluded since the repairs of the findings eval-object-in-constant
   and eval-object-as-define-name (below): every cell the compiler and the builtins store is a datum.
   NOT excluded (they need the stack discipline of compiled code, see docs/WP-c06d.md): 10 (only
   through %ep), 14, 40, 44;
   the sites of the library builtins (20-23, 30-33, 99, 150-153, 200-207) are outside X.
   [num_panics_ok] (NoPanicPkg.v) = the twelve value-level number functions of the table never answer
   a Panic whose site number lies in X (their sites are 20-23 and 200-207): C06_num_panics_ok. *)
From MW Require Import Model.Gc Proofs.SymtabProofs Proofs.FlatProofs Proofs.FlatAll Proofs.KeepCalc
  Proofs.NoPanicBase Proofs.NoPanicPkg Proofs.NoPanicNum Proofs.NoPanicAll Proofs.NoPanicFinal.

Theorem C06_excluded_sites_unfold : forall k, xsiteb k = true <->
  (k = 11 \/ k = 12 \/ k = 13 \/ k = 41 \/ k = 42 \/ k = 43 \/ k = 45 \/ k = 46 \/ k = 47 \/ k = 48 \/ k = 49 \/ k = 50 \/ k = 51).
Proof. exact xsiteb_unfold. Qed.
Print Assumptions C06_excluded_sites_unfold.

Theorem C06_vm_invariant_empty : forall c, 0 < c -> wfm (vm_empty c) /\ finv (vm_empty c) /\ J (vm_empty c).
Proof. exact winv_empty. Qed.
Print Assumptions C06_vm_invariant_empty.

(* one instruction, any opcode, any builtin table that keeps the invariant: the invariant again (also on
   the error exit, where additionally ip >= 1 — what stack_trace needs), or a panic outside X *)
Theorem C06_step_no_vm_panic : forall (ob : N -> M vcell),
  (forall b s, wfm s -> npost okp s (ob b s) vwf) ->
  forall s, wfm s -> lamcell s (fst (ip s)) -> J s -> finv s ->
  match run_one ob s with
  | ROk _ s' => wfm s' /\ lamcell s' (fst (ip s'))
  | RErr _ _ s' => wfm s' /\ 1 <= snd (ip s') /\ lamcell s' (fst (ip s'))
  | RPanic k => xsiteb k = false
  | RNoFuel => True
  end.
Proof. exact step_no_vm_panic. Qed.
Print Assumptions C06_step_no_vm_panic.

(* the error path: building the stack trace never fails (site 51) and never panics in X (41 49 50) *)
Theorem C06_stack_trace_no_vm_panic : forall s, wfm s -> 1 <= snd (ip s) -> lamcell s (fst (ip s)) ->
  match stack_trace s with Ok _ => True | Err _ => False | Panic k => xsiteb k = false | NoFuel => True end.
Proof. exact stack_trace_no_vm_panic. Qed.
Print Assumptions C06_stack_trace_no_vm_panic.

Theorem C06_num_panics_ok : num_panics_ok.
Proof. exact num_panics_ok_holds. Qed.
Print Assumptions C06_num_panics_ok.

(* every builtin of the generated table *)
Theorem C06_builtin_no_vm_panic : forall b s, wfm s ->
  match Builtins.other_builtin b s with
  | ROk v s' => wfm s' /\ vwf s' v
  | RErr _ _ s' => wfm s'
  | RPanic k => xsiteb k = false
  | RNoFuel => True
  end.
Proof. exact builtin_no_vm_panic_u. Qed.
Print Assumptions C06_builtin_no_vm_panic.

(* the compiler (macro expansion included) on ANY datum *)
Theorem C06_prepare_eval_no_vm_panic : forall e s, wfm s ->
  match prepare_eval e s with
  | ROk _ s' => wfm s' /\ lamcell s' (fst (ip s'))
  | RErr _ _ s' => wfm s'
  | RPanic k => xsiteb k = false
  | RNoFuel => True
  end.
Proof. exact prepare_eval_no_vm_panic. Qed.
Print Assumptions C06_prepare_eval_no_vm_panic.

(* Vm::eval of ANY datum, any fuel, from any state satisfying the invariant *)
Theorem C06_eval_vm_outcome : forall fuel e s, wfm s -> finv s -> J s ->
  match eval Builtins.other_builtin fuel e s with
  | ROk _ s' => wfm s' /\ finv s' /\ J s'
  | RErr _ _ s' => wfm s' /\ finv s' /\ J s'
  | RPanic k => xsiteb k = false
  | RNoFuel => True
  end.
Proof. exact eval_vm_outcome_u. Qed.
Print Assumptions C06_eval_vm_outcome.

Theorem C06_boot_invariant : forall prelude s0 s, boot_with prelude = Some s0 -> evals s0 s ->
  wfm s /\ finv s /\ J s.
Proof. exact boot_invariant_u. Qed.
Print Assumptions C06_boot_invariant.

(* the headline: from the machine booted with ANY prelude text (in particular [booted]) and from every
   session state, evaluation of ANY datum with ANY fuel never panics at a site of X *)
Theorem C06_eval_no_vm_panic : forall prelude s0 s fuel e k,
  boot_with prelude = Some s0 -> evals s0 s -> eval Builtins.other_builtin fuel e s = RPanic k ->
  k <> 11 /\ k <> 12 /\ k <> 13 /\ k <> 41 /\ k <> 42 /\ k <> 43 /\ k <> 45 /\ k <> 46 /\ k <> 47 /\ k <> 48 /\ k <> 49 /\ k <> 50 /\ k <> 51.
Proof. exact eval_no_vm_panic_u. Qed.
Print Assumptions C06_eval_no_vm_panic.

Theorem C06_eval_no_vm_panic_booted : forall s0 s fuel e k,
  booted = Some s0 -> evals s0 s -> eval Builtins.other_builtin fuel e s = RPanic k ->
  k <> 11 /\ k <> 12 /\ k <> 13 /\ k <> 41 /\ k <> 42 /\ k <> 43 /\ k <> 45 /\ k <> 46 /\ k <> 47 /\ k <> 48 /\ k <> 49 /\ k <> 50 /\ k <> 51.
Proof. exact eval_no_vm_panic_booted. Qed.
Print Assumptions C06_eval_no_vm_panic_booted.

(* OPEN: no panic at all.  Needs the stack discipline of compiled code (sites 10 14 40 44) and the
   numeric / allocation classes of C08, C14, C15. *)
Definition C06_eval_no_panic_stmt : Prop :=
  forall s0 s fuel e k, booted = Some s0 -> evals s0 s -> eval Builtins.other_builtin fuel e s <> RPanic k.

(* FINDING eval-object-in-constant, REPAIRED (repo commit "fix: eval rejects a procedure, continuation or
   macro object inside quoted data"): `eval` hands a datum that contains a procedure OBJECT to the compiler;
   quote / vector literal / quasiquote called Heap::put_cell on it: panic!("unexpected lambda") (site 12).
   compile_quote and the tail of compile_quasiquote now test is_datum ([cell_is_datum], Model/Compile.v)
   and answer an error.
   [run_text t fuel] = parse t, evaluate its datum on boot_with [] (all builtins loaded);
   [run_text_booted] = the same on [booted] (with the prelude); [is_error] = Vm::eval returned Err.
   The former witness (eval (cons 'quote (cons car '()))) and the five shapes of the finding
   ([obj_witness_texts]: quote / vector literal / quasiquote of a procedure, of a continuation, of a macro)
   are errors now; the datum of the witness contains no object, the object is made at run time. *)
Theorem C06_repaired_eval_object_in_constant :
  is_error (run_text obj_witness_text 200) = true /\
  forallb (fun t => is_error (run_text_booted t 2000)) obj_witness_texts = true /\
  match parse_text obj_witness_text with Ok (d, None) => datum_has_object d = false | _ => False end.
Proof. exact repaired_eval_object_in_constant. Qed.
Print Assumptions C06_repaired_eval_object_in_constant.

(* the constant of ANY quote form (d ANY cell, objects included), in any state: the compiler cannot
   panic at site 12 there; the only panic left is site 11, which is in X *)
Theorem C06_quote_constant_panic : forall f l tail d s k,
  compile_expression (S f) l tail (QuoteHeapProofs.quote_of d) s = RPanic k -> k = 11.
Proof. exact quote_constant_panic. Qed.
Print Assumptions C06_quote_constant_panic.

(* FINDING eval-object-as-define-name, REPAIRED (repo commit "fix: define rejects a non-symbol name in the
   (define (name . formals) body) form"): compile_define took the car of the head of
   (define (name . formals) body) as the symbol without testing that it is a symbol and called
   Heap::put_cell on it: a procedure object there was panic!("unexpected lambda") (site 12).
   The former witness (eval (cons 'define (cons (cons car '()) '(1)))) and [defname_witness_texts]
   (a procedure, a continuation, a macro as the name; (define (1 x) 1), which was silently accepted)
   are errors now.  With both repairs site 12 is in X: C06_eval_no_vm_panic. *)
Theorem C06_repaired_eval_object_as_define_name :
  is_error (run_text defname_witness_text 200) = true /\
  forallb (fun t => is_error (run_text_booted t 2000)) defname_witness_texts = true /\
  match parse_text defname_witness_text with Ok (d, None) => datum_has_object d = false | _ => False end.
Proof. exact repaired_eval_object_as_define_name. Qed.
Print Assumptions C06_repaired_eval_object_as_define_name.

(* non-vacuity: the invariant holds on the machine of Vm::new and on boot_with [] (all builtins loaded);
   a program with a variadic closure, apply, call/cc and a builtin passed as a value,
   (call/cc (lambda (k) (k ((lambda (f . r) (apply f r)) car '(1 2))))), runs to a value there *)
Example C06_vm_invariant_example :
  (wfm (vm_empty 8192) /\ finv (vm_empty 8192) /\ J (vm_empty 8192)) /\
  (forall s, boot_with [] = Some s -> wfm s /\ finv s /\ J s) /\
  match run_text ok_example_text 400 with Some (ROk (Done _) _) => True | _ => False end.
Proof.
  split; [apply C06_vm_invariant_empty; reflexivity|]. split; [|exact ok_example_run].
  intros s B. exact (C06_boot_invariant [] s s B (evals_refl s)).
Qed.

(* ======================================================================================================
   WP-c06e — towards the sites D = {10 14 40 44} (the frame / environment discipline of compiled code).
   LOCAL theorems (Proofs/NoPanicEnv.v): per operation / instruction, under the local preconditions
     [ep_ok s n]      %ep is an environment object with >= n slots (nothing asked for n = 0),
     [lex_okb l]      every VLexSlot operand of the code object is below len (l_envmap l)   (decidable),
     [closure_paired] %acc is a closure whose environment object has len (l_envmap code) slots,
     [frame_at]       (C04) bp+1..bp+4 hold Argc n / Ep / Ip / Bp and n <= bp,
   together with the whole-machine invariant [finv] (kept by every instruction: C06_eval_vm_outcome).
   What is still missing for excluding D from C06_eval_no_vm_panic is ONE whole-machine statement,
   kept OPEN below ([C06_frame_discipline_stmt]): that these local preconditions hold at every
   instruction boundary of every evaluation.  [disc_okb] is that candidate invariant as an executable
   monitor; C06_discipline_example runs it along 13 evaluations instruction by instruction.
   ====================================================================================================== *)
From MW Require Import Proofs.TailProofs Proofs.ScopeProofs Proofs.EnvProofs Proofs.NoPanicEnv Proofs.NoPanicEnvEx.

(* sites 44 and 10 through %ep: a lexical load / store below the size of the current environment is TOTAL
   (no panic, no error), through the (at most one) VLexPtr indirection *)
Theorem C06_lex_load_total : forall s n k,
  finv s -> ep_ok s n -> k < n -> exists v, load_lex_slot k s = ROk v s /\ no_lexptr v.
Proof. exact load_lex_slot_total. Qed.
Print Assumptions C06_lex_load_total.

Theorem C06_lex_store_total : forall s n k v,
  finv s -> ep_ok s n -> k < n ->
  exists s', store_lex_slot k v s = ROk tt s' /\ ep_ok s' n /\ hp s' = hp s /\ ep s' = ep s.
Proof. exact store_lex_slot_total. Qed.
Print Assumptions C06_lex_store_total.

(* the three instructions that carry lexical-slot operands (MOV, MOV-immediate, PUSH): in a code object that
   passes [lex_okb], with an ok %ep, the only panics left are a raw out-of-range VPtr operand (10) and an
   unknown global slot (45, excluded by wfm): never 44, never 10 through %ep *)
Theorem C06_lex_instr_env_sites : forall ob s l op s0 k,
  finv s -> code_at s = Some l -> lex_okb l = true -> ep_ok s (len (l_envmap l)) ->
  read_opcode s = ROk op s0 -> lex_instr op = true ->
  run_one ob s = RPanic k -> k = 10 \/ k = 45.
Proof. exact lex_instr_env_sites. Qed.
Print Assumptions C06_lex_instr_env_sites.

(* CLOSURE: building the closure environment panics only by the usize underflow of load_arg (40) when the
   IofEnvironment entries of the envmap are below the size of the current environment *)
Theorem C06_closure_env_panic : forall s n envmap k,
  ep_ok s n -> iof_okb n envmap = true -> build_closure_environment envmap s = RPanic k -> k = 40.
Proof. exact build_closure_environment_panic. Qed.
Print Assumptions C06_closure_env_panic.

(* CLOSURE pairs the code object with an environment object of exactly len envmap slots *)
Theorem C06_closure_pairs : forall s r s',
  heap_inv (hp s) -> store_wf (st s) -> closure_body s = ROk r s' ->
  exists lp lid l ei env,
    heap_deref (hp s') (acc s') = Ok (VClosure lp ei) /\
    heap_get (hp s) lp = Ok (VLambda lid) /\ tget (lams (st s)) lid = Some l /\
    env_at s' ei = Some (next_id (st s), env) /\ len env = len (l_envmap l).
Proof. exact closure_pairs. Qed.
Print Assumptions C06_closure_pairs.

(* ENTER of a paired closure: no slot-index panic (44), no heap-index panic (10); only the underflow 40 *)
Theorem C06_enter_paired_panic : forall s l k,
  closure_paired s l -> enter_frame s = RPanic k -> k = 40.
Proof. exact enter_panic_only_underflow. Qed.
Print Assumptions C06_enter_paired_panic.

(* ... and it establishes [ep_ok] for the callee: a NEW environment of exactly len envmap slots *)
Theorem C06_enter_establishes_ep : forall s l r s',
  heap_inv (hp s) -> store_wf (st s) -> closure_paired s l -> enter_frame s = ROk r s' ->
  ep_ok s' (len (l_envmap l)) /\
  exists env, env_at s' (ep s') = Some (next_id (st s), env) /\ len env = len (l_envmap l).
Proof. exact enter_establishes_ep. Qed.
Print Assumptions C06_enter_establishes_ep.

(* ENTER right after a well-formed CALL (argc arguments, VArgc, VEp, VIp on the stack: len args + 3 <= sp) of a
   paired closure whose BArgument indices are arguments ([arg_okb], decidable): NO panic at all — in particular
   not the sp - 4 / bp - k underflows (40) *)
Theorem C06_enter_total_no_panic : forall s l k,
  closure_paired s l -> arg_okb l = true -> len (l_args l) + 3 <= sp s -> enter_frame s <> RPanic k.
Proof. exact enter_total_no_panic. Qed.
Print Assumptions C06_enter_total_no_panic.

(* the monitor's ENTER clause implies these hypotheses *)
Theorem C06_enter_monitor_sound : forall s l lam cep,
  next_op s l = Some OEnter -> closureb s l = true ->
  heap_deref (hp s) (acc s) = Ok (VClosure lam cep) ->
  exists l2, closure_paired s l2 /\ arg_okb l2 = true /\ len (l_args l2) + 3 <= sp s.
Proof. exact closureb_enter_sound. Qed.
Print Assumptions C06_enter_monitor_sound.

(* site 40 at RET and load_arg: total in a frame (C04 frame_at); RET restores the saved %ep %ip %bp *)
Theorem C06_ret_total : forall s n e i b,
  frame_at s n e i b -> bp s + 4 < scap s ->
  ret_body s = ROk false (with_bp (with_ip (with_ep (with_sp s (bp s - n)) e) i) b).
Proof. exact ret_total. Qed.
Print Assumptions C06_ret_total.

Theorem C06_ret_restores_ep_ok : forall s n e i b eid l m,
  frame_at s n e i b -> bp s + 4 < scap s -> env_at s e = Some (eid, l) -> m <= len l ->
  exists s', ret_body s = ROk false s' /\ ep_ok s' m /\ ip s' = i /\ bp s' = b /\ sp s' = bp s - n.
Proof. exact ret_restores_ep_ok. Qed.
Print Assumptions C06_ret_restores_ep_ok.

Theorem C06_load_arg_total : forall s n e i b k,
  frame_at s n e i b -> bp s + 1 < scap s -> k < n ->
  load_arg k s = ROk (sget s (bp s - n + k + 1)) s.
Proof. exact load_arg_total. Qed.
Print Assumptions C06_load_arg_total.

(* the executable monitor implies the local preconditions *)
Theorem C06_discipline_monitor_sound : forall s,
  disc_okb s = true ->
  exists l, code_at s = Some l /\ lex_okb l = true /\
    (in_body s l = true -> ep_ok s (len (l_envmap l)) /\
       exists n e i b, frame_at s n e i b /\ bp s + 4 <= sp s /\ sp s < scap s).
Proof. exact disc_okb_sound. Qed.
Print Assumptions C06_discipline_monitor_sound.

(* non-vacuity: the monitor holds at EVERY instruction boundary of 13 evaluations on boot_with [] (closures over
   mutated variables, variadic procedures, apply, call/cc escaping and re-entered, eval inside a closure,
   internal defines, tail calls with equal / more / fewer arguments), each running to HALT; and the state
   after 28 instructions of the first one is inside a closure body with a non-empty envmap, about to execute a
   MOV / PUSH: all hypotheses of C06_lex_instr_env_sites but finv (C06_eval_vm_outcome) are exhibited there *)
Example C06_discipline_example :
  forallb monitor_passes disc_texts = true /\
  match state_after (nth 0 disc_texts nil) 28 with Some s => in_body_with_env s = true | None => False end.
Proof. split; [exact discipline_on_examples|exact reachable_in_body_state]. Qed.

(* OPEN (the bytecode-verifier theorem): the sites of D are unreachable too.  It follows from the theorems
   above + C04 (tcall_frame_effect, C04_tcall_vararg_enter) once [disc_okb] (strengthened by: the cells
   between bp+5 and sp, the arguments below bp and every cell popped by CONS / VPUSH / VARARG / a builtin
   are VALUES; every saved (VEp e, VIp lp i) pair below sp is ok for the code object lp) is shown to hold
   at every instruction boundary: for the code the compiler emits (pushes and pops balanced per
   expression) and across CALL / TCALL / RET / apply / call/cc / continuation re-entry / eval. *)
Definition C06_frame_discipline_stmt : Prop :=
  forall prelude s0 s fuel e k,
    boot_with prelude = Some s0 -> evals s0 s -> eval Builtins.other_builtin fuel e s = RPanic k ->
    k <> 10 /\ k <> 14 /\ k <> 40 /\ k <> 44.

(* towards the static half of C06_frame_discipline_stmt: the two places where the compiler takes its indices
   from.  The operand emitted for a variable reference in lambda l is below len (l_envmap l) when it is a
   lexical slot; the envmap the compiler builds for a lambda expression has argument entries that are
   arguments ([arg_okb]) and IofEnvironment entries below the size of the ENCLOSING lambda's envmap, i.e. of
   the environment CLOSURE runs with ([iof_okb]).  (Propagating them to every stored code object is the
   compile walk named in docs/WP-c06e.md.) *)
Theorem C06_location_operand_lex : forall l sym s v s',
  location_operand l sym s = ROk v s' -> lex_slotb (len (l_envmap l)) v = true.
Proof. exact location_operand_lex. Qed.
Print Assumptions C06_location_operand_lex.

Theorem C06_lambda_from_iof_static : forall args internal iof free va,
  arg_okb (lambda_from_iof args internal iof free va) = true /\
  iof_okb (len (l_envmap iof)) (l_envmap (lambda_from_iof args internal iof free va)) = true.
Proof. exact lambda_from_iof_static. Qed.
Print Assumptions C06_lambda_from_iof_static.
