(* C06 — total API (reader part): every text handed to the scanner, the reader, the
   datum-by-datum loop or the bracket highlighter yields a value or an error value,
   never a panic and never a hang.  Statements only; proofs in Proofs/LexProofs.v,
   Proofs/ParseTotal.v, Proofs/ParseAllTotal.v, Proofs/HighlightProofs.v.
   Model: Model/Lex.v (lex.rs), Model/Parse.v (parse.rs), Model/NumFmt.v
   (number.rs parse_with_exactness and the num crates it runs), Model/Highlight.v
   (syntax.rs), Model/Wire.v (parse_all).  [Panic] and [NoFuel] are explicit
   outcomes of the model ([out] in Model/Base.v).

   On the pinned tree the reader is NOT total in a debug build: a token directly
   after a number prefix (#d #x #e ...) is handed to Number::parse_with_exactness
   whatever its type, and Ratio<i32>::from_str_radix + reduce overflows on a signed
   denominator when the reduced numerator or denominator is i32::MIN
   ("#d1/-2147483648").  [known_C06] is that class (decidable), C06_parse_text_total
   is proved over its complement, C06_parse_text_refuted_ratio_reader is the witness,
   and C06_parse_text_full_if_rational_ok says that the class is the ONLY obstacle. *)
From MW Require Import Model.Base Model.F64 Model.Num Model.NumFmt Model.Datum Model.Lex Model.Parse
  Model.Highlight Model.Wire
  Proofs.LexProofs Proofs.ParseProofs Proofs.ParseTotal Proofs.ParseAllTotal Proofs.HighlightProofs.
Open Scope N_scope.

(* the scanner: tokens or an error *)
Theorem C06_scan_total : forall t, (exists ts, scan t = Ok ts) \/ (exists e, scan t = Err e).
Proof. exact scan_total. Qed.
Print Assumptions C06_scan_total.

(* the full statement for the reader.  REFUTED on the pinned tree (debug build) by
   C06_parse_text_refuted_ratio_reader; it follows from C06_parse_text_full_if_rational_ok
   once parse_rational is repaired. *)
Definition C06_parse_text_full : Prop :=
  forall t, (exists d r, parse_text t = Ok (d, r)) \/ (exists e, parse_text t = Err e).

(* the reader over the complement of the known class: a datum (and the remaining
   text) or an error value; in particular none of the panic sites 1-5 of
   Model/Parse.v and Model/Lex.v, no panic of the number parser, enough fuel *)
Theorem C06_parse_text_total : forall t, known_C06 t = false ->
  (exists d r, parse_text t = Ok (d, r)) \/ (exists e, parse_text t = Err e).
Proof. exact parse_text_total. Qed.
Print Assumptions C06_parse_text_total.

Theorem C06_parse_text_refuted_ratio_reader :
  exists t, known_C06 t = true /\ parse_text t = Panic P_I32_OVERFLOW.
Proof. exact parse_text_refuted. Qed.
Print Assumptions C06_parse_text_refuted_ratio_reader.

(* the class is the only obstacle: if Number::parse_rational never panics, the
   full statement holds *)
Theorem C06_parse_text_full_if_rational_ok :
  (forall sp r, In r [2; 8; 10; 16]%Z -> forall s, parse_rational Debug sp r <> Panic s) ->
  C06_parse_text_full.
Proof. exact parse_text_total_of_rational_ok. Qed.
Print Assumptions C06_parse_text_full_if_rational_ok.

(* Number::parse_with_exactness (debug build) on ANY text, for a valid radix: a
   number or "not a number", under the same side condition on that text *)
Theorem C06_parse_with_exactness_total : forall sp ex r, (2 <= r <= 36)%Z ->
  (forall s, parse_rational Debug sp r <> Panic s) ->
  exists o, parse_with_exactness sp ex r = Ok o.
Proof. exact parse_with_exactness_safe. Qed.
Print Assumptions C06_parse_with_exactness_total.

(* the parser proper on scanner output never runs out of the fuel it is given *)
Theorem C06_parse_fuel_enough : forall t ts, scan t = Ok ts -> known_C06 t = false ->
  safe (parse (parse_fuel ts) t ts).
Proof. exact parse_fuel_enough. Qed.
Print Assumptions C06_parse_fuel_enough.

(* the remaining text is again outside the class and strictly shorter *)
Theorem C06_parse_text_rest : forall t d s, known_C06 t = false -> parse_text t = Ok (d, Some s) ->
  known_C06 s = false /\ (length s < length t)%nat.
Proof. exact parse_text_rest. Qed.
Print Assumptions C06_parse_text_rest.

(* the datum-by-datum loop (interface 5): a sequence of data, then END or an error;
   never PANIC, never NOFUEL *)
Theorem C06_parse_all_total : forall t, known_C06 t = false ->
  exists ds e, reads t ds e /\
    forall acc, parse_all (S (length t)) t acc = acc ++ flat_map show_datum ds ++ show_end e.
Proof. exact parse_all_total. Qed.
Print Assumptions C06_parse_all_total.

(* the bracket highlighter *)
Theorem C06_highlight_total : forall t index, exists r, highlight t index = Ok r.
Proof. exact highlight_total. Qed.
Print Assumptions C06_highlight_total.

(* non-vacuity: a text with every kind of token is outside the class and is read;
   an unterminated string is an error value; the loop reads three data *)
Example C06_example :
  (* (a #xFF "s\x41;" #\x41 #e1.5 #(1) . b) c *)
  let t := [40;97;32;35;120;70;70;32;34;115;92;120;52;49;59;34;32;35;92;120;52;49;32;
            35;101;49;46;53;32;35;40;49;41;32;46;32;98;41;32;99] in
  known_C06 t = false /\
  (exists d, parse_text t = Ok (d, Some [99])) /\
  parse_text [34;97] = Err E_INCOMPLETE /\
  parse_text [35;100;49;47;45;50] = Ok (CNum (Rational (-1) 2), None) /\
  (exists r, highlight [40;97;41] 3 = Ok r).
Proof.
  cbv zeta. split; [vm_compute; reflexivity|]. split; [eexists; vm_compute; reflexivity|].
  split; [vm_compute; reflexivity|]. split; [vm_compute; reflexivity|].
  eexists; vm_compute; reflexivity.
Qed.
