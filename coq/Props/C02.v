(* C02 — lexical scoping: innermost binding wins, closures share mutable locations.
   Statements only (proofs: Proofs/ScopeProofs.v).  Model: Model/Compile.v
   (environment.rs:94-135 EnvironmentMap::new_from_iof, lambda.rs:118-126
   binding_location) and Model/Vm.v (run.rs:394-437 slot loads/stores, 518-578
   closure/activation environments).  Symbols are interned heap pointers (C18).

   Compile time.  A lambda [l] is built from its immediately enclosing lambda [iof]
   with formals [args], internally defined names [internal] and the reported free
   symbols [free].  The four theorems below say that a name denotes, in this order:
   its own parameter — the first of that name —, else an internal definition of this
   body, else the binding the ENCLOSING lambda resolves lexically (by induction over
   the nesting: the innermost enclosing binder), else the global.                 *)
From MW Require Import Model.Base Model.Datum Model.VmTypes Model.Heap Model.VmBase Model.Compile Model.Vm
  Proofs.ScopeProofs.
Open Scope N_scope.

Theorem C02_own_parameter_wins : forall args internal free iof vararg sym i,
  fidx (sym_is sym) args = Some i ->
  binding_location (lambda_from_iof args internal iof free vararg) sym = LEnvironment i /\
  exists a, nth_error args (N.to_nat i) = Some a /\
            nth_error (l_envmap (lambda_from_iof args internal iof free vararg)) (N.to_nat i)
            = Some (a, BArgument i).
Proof. exact resolve_own_parameter. Qed.
Print Assumptions C02_own_parameter_wins.

Theorem C02_internal_definition_next : forall args internal free iof vararg sym j,
  fidx (sym_is sym) args = None ->
  fidx (sym_is sym) internal = Some j ->
  binding_location (lambda_from_iof args internal iof free vararg) sym = LEnvironment (len args + j) /\
  exists a, nth_error internal (N.to_nat j) = Some a /\
            nth_error (l_envmap (lambda_from_iof args internal iof free vararg)) (N.to_nat (len args + j))
            = Some (a, BInternalDefinition).
Proof. exact resolve_internal_definition. Qed.
Print Assumptions C02_internal_definition_next.

Theorem C02_enclosing_binding_or_global : forall args internal free iof vararg sym,
  fidx (sym_is sym) args = None ->
  fidx (sym_is sym) internal = None ->
  match fidx (is_sym sym) (free_part iof free) with
  | Some k =>
      binding_location (lambda_from_iof args internal iof free vararg) sym
        = LEnvironment (len args + len internal + k) /\
      exists e, nth_error (free_part iof free) (N.to_nat k) = Some e /\ fst e = sym /\
        ((exists slot, envmap_slot (l_envmap iof) sym = Some slot /\ snd e = BIofEnvironment slot) \/
         (envmap_slot (l_envmap iof) sym = None /\
          exists n, fidx (sym_is sym) (l_args iof) = Some n /\ snd e = BIofArgument n))
  | None => binding_location (lambda_from_iof args internal iof free vararg) sym = LGlobal
  end.
Proof. exact resolve_captured. Qed.
Print Assumptions C02_enclosing_binding_or_global.

(* a reported free symbol that the enclosing lambda resolves lexically IS captured
   (never silently global) — the completeness of the free-symbol REPORT itself is the
   quasiquote finding (C02 qq-free-var) and otherwise tied by the correspondence *)
Theorem C02_captured_if_reported : forall args internal free iof vararg sym,
  fidx (sym_is sym) args = None -> fidx (sym_is sym) internal = None ->
  In sym free -> (exists p, sym = VPtr p) ->
  (envmap_slot (l_envmap iof) sym <> None \/ fidx (sym_is sym) (l_args iof) <> None) ->
  exists k, binding_location (lambda_from_iof args internal iof free vararg) sym = LEnvironment k.
Proof. exact captured_if_reported. Qed.
Print Assumptions C02_captured_if_reported.

(* Run time.  CLOSURE fills each slot of the new closure environment from its source:
   a variable captured from the creating activation's environment becomes a POINTER
   to the location that variable denotes there (an existing pointer is copied flat, a
   direct cell is pointed to), so closure and activation share one location. *)
Theorem C02_closure_environment_slots : forall envmap s r s',
  build_closure_environment envmap s = ROk r s' ->
  s' = s /\ Forall2 (fun e v => closure_slot s (snd e) v) envmap r.
Proof. exact closure_environment_slots. Qed.
Print Assumptions C02_closure_environment_slots.

Theorem C02_closure_shares_location : forall s j cur eid l,
  env_at s (ep s) = Some (eid, l) -> list_get l j = Some cur ->
  forall v, v = match cur with VLexPtr _ _ => cur | _ => VLexPtr (ep s) j end ->
  match v with
  | VLexPtr q k2 => match env_at s q with Some (e2, _) => Some (e2, k2) | None => None end
  | _ => None
  end = location s (ep s) j.
Proof. exact closure_shares_location. Qed.
Print Assumptions C02_closure_shares_location.

(* a reference reads, and an assignment writes, exactly the location the slot
   denotes; hence an assignment through one name is seen through every other name
   of the same location (inner closures, the creating activation, later calls) *)
Theorem C02_load_reads_location : forall s k e j l v,
  location s (ep s) k = Some (e, j) ->
  tget (envs (st s)) e = Some l -> list_get l j = Some v ->
  load_lex_slot k s = ROk v s.
Proof. exact load_reads_location. Qed.
Print Assumptions C02_load_reads_location.

Theorem C02_store_writes_location : forall s k e j l v,
  location s (ep s) k = Some (e, j) ->
  tget (envs (st s)) e = Some l -> j < len l ->
  store_lex_slot k v s = ROk tt (with_store s (set_env (st s) e (list_set l j v))).
Proof. exact store_writes_location. Qed.
Print Assumptions C02_store_writes_location.

Theorem C02_shared_location_visible : forall s k v e j l s1 k',
  location s (ep s) k = Some (e, j) ->
  tget (envs (st s)) e = Some l -> j < len l ->
  store_lex_slot k v s = ROk tt s1 ->
  location s1 (ep s1) k' = Some (e, j) ->
  load_lex_slot k' s1 = ROk v s1.
Proof. exact shared_location_visible. Qed.
Print Assumptions C02_shared_location_visible.

(* OPEN (kept visible): separate activations get separate locations and a binding
   outlives its creator follow from ENTER allocating a fresh environment object per
   activation on the heap (Model/Vm.v enter_frame; Proofs/TailProofs.v
   enter_frame_effect shows the stack side); the whole-machine invariant that makes
   every LexPtr lead to a non-pointer cell is stated but not proved here. *)
Definition C02_locations_flat_stmt : Prop :=
  forall (s : vm) p k q k2 eid l,
    env_at s p = Some (eid, l) -> list_get l k = Some (VLexPtr q k2) ->
    exists e2 l2 v, env_at s q = Some (e2, l2) /\ list_get l2 k2 = Some v /\
                    match v with VLexPtr _ _ => False | _ => True end.
