(* C02 — lexical scoping — PLACEHOLDER written by work package "ref" (Python side: generators, reference
   interpreter, property module).  The theorems of this property are written by the
   integrator and REPLACE this file; the single statement below only shows that the
   executable model evaluates one tiny session of wire interface 70 to the expected
   canonical line, so that `./check C02` can run its correspondence part.
   DESIGN.md section 5 C02 lists the intended theorems (free_symbols_complete, envmap_chain, location_invariant, C02_refuted_qq). *)
From Coq Require Import NArith List.
From MW Require Import Model.Base Model.Wire.
Import ListNotations.
Open Scope N_scope.

(* session ((lambda (x) ((lambda (x) x) 2)) 1)  ==>  "SESSION | OK 2 LOG" *)
Theorem C02_placeholder_innermost_wins_once :
  run_case [70;1;35;40;40;108;97;109;98;100;97;32;40;120;41;32;40;40;108;97;109;98;100;97;32;40;120;41;32;120;41;32;50;41;41;32;49;41]
  = [83;69;83;83;73;79;78;32;124;32;79;75;32;50;32;76;79;71].
Proof. vm_compute. reflexivity. Qed.
Print Assumptions C02_placeholder_innermost_wins_once.
