(* C02 — lexical scoping: innermost binding wins, closures share mutable locations.
   Statements only (proofs: Proofs/ScopeProofs.v).  Model: Model/Compile.v
   (environment.rs:94-135 EnvironmentMap::new_from_iof, lambda.rs:118-126
   binding_location) and Model/Vm.v (run.rs:394-437 slot loads/stores, 518-578
   closure/activation environments).  Symbols are interned heap pointers (C18).

   Compile time.  A lambda [l] is built from its immediately enclosing lambda [iof]
   with formals [args], internally defined names [internal] and the reported free
   symbols [free].  The four theorems below say that a name denotes, in this order:
   its own parameter — the first of that name —, else an internal definition of this
   body, else the binding the ENCLOSING lambda resolves lexically (by induction over
   the nesting: the innermost enclosing binder), else the global.                 *)
From Coq Require Import FMapPositive.
From MW Require Import Model.Base Model.Datum Model.VmTypes Model.Heap Model.Gc Model.VmBase Model.Compile Model.Vm
  Model.Builtins
  Proofs.SymtabProofs Proofs.ScopeProofs Proofs.EnvProofs Proofs.FlatProofs Proofs.FlatCompile Proofs.FlatAll.
Open Scope N_scope.

Theorem C02_own_parameter_wins : forall args internal free iof vararg sym i,
  fidx (sym_is sym) args = Some i ->
  binding_location (lambda_from_iof args internal iof free vararg) sym = LEnvironment i /\
  exists a, nth_error args (N.to_nat i) = Some a /\
            nth_error (l_envmap (lambda_from_iof args internal iof free vararg)) (N.to_nat i)
            = Some (a, BArgument i).
Proof. exact resolve_own_parameter. Qed.
Print Assumptions C02_own_parameter_wins.

Theorem C02_internal_definition_next : forall args internal free iof vararg sym j,
  fidx (sym_is sym) args = None ->
  fidx (sym_is sym) internal = Some j ->
  binding_location (lambda_from_iof args internal iof free vararg) sym = LEnvironment (len args + j) /\
  exists a, nth_error internal (N.to_nat j) = Some a /\
            nth_error (l_envmap (lambda_from_iof args internal iof free vararg)) (N.to_nat (len args + j))
            = Some (a, BInternalDefinition).
Proof. exact resolve_internal_definition. Qed.
Print Assumptions C02_internal_definition_next.

Theorem C02_enclosing_binding_or_global : forall args internal free iof vararg sym,
  fidx (sym_is sym) args = None ->
  fidx (sym_is sym) internal = None ->
  match fidx (is_sym sym) (free_part iof free) with
  | Some k =>
      binding_location (lambda_from_iof args internal iof free vararg) sym
        = LEnvironment (len args + len internal + k) /\
      exists e, nth_error (free_part iof free) (N.to_nat k) = Some e /\ fst e = sym /\
        ((exists slot, envmap_slot (l_envmap iof) sym = Some slot /\ snd e = BIofEnvironment slot) \/
         (envmap_slot (l_envmap iof) sym = None /\
          exists n, fidx (sym_is sym) (l_args iof) = Some n /\ snd e = BIofArgument n))
  | None => binding_location (lambda_from_iof args internal iof free vararg) sym = LGlobal
  end.
Proof. exact resolve_captured. Qed.
Print Assumptions C02_enclosing_binding_or_global.

(* a reported free symbol that the enclosing lambda resolves lexically IS captured
   (never silently global) — the completeness of the free-symbol REPORT itself is the
   quasiquote finding (C02 qq-free-var) and otherwise tied by the correspondence *)
Theorem C02_captured_if_reported : forall args internal free iof vararg sym,
  fidx (sym_is sym) args = None -> fidx (sym_is sym) internal = None ->
  In sym free -> (exists p, sym = VPtr p) ->
  (envmap_slot (l_envmap iof) sym <> None \/ fidx (sym_is sym) (l_args iof) <> None) ->
  exists k, binding_location (lambda_from_iof args internal iof free vararg) sym = LEnvironment k.
Proof. exact captured_if_reported. Qed.
Print Assumptions C02_captured_if_reported.

(* Run time.  CLOSURE fills each slot of the new closure environment from its source:
   a variable captured from the creating activation's environment becomes a POINTER
   to the location that variable denotes there (an existing pointer is copied flat, a
   direct cell is pointed to), so closure and activation share one location. *)
Theorem C02_closure_environment_slots : forall envmap s r s',
  build_closure_environment envmap s = ROk r s' ->
  s' = s /\ Forall2 (fun e v => closure_slot s (snd e) v) envmap r.
Proof. exact closure_environment_slots. Qed.
Print Assumptions C02_closure_environment_slots.

Theorem C02_closure_shares_location : forall s j cur eid l,
  env_at s (ep s) = Some (eid, l) -> list_get l j = Some cur ->
  forall v, v = match cur with VLexPtr _ _ => cur | _ => VLexPtr (ep s) j end ->
  match v with
  | VLexPtr q k2 => match env_at s q with Some (e2, _) => Some (e2, k2) | None => None end
  | _ => None
  end = location s (ep s) j.
Proof. exact closure_shares_location. Qed.
Print Assumptions C02_closure_shares_location.

(* a reference reads, and an assignment writes, exactly the location the slot
   denotes; hence an assignment through one name is seen through every other name
   of the same location (inner closures, the creating activation, later calls) *)
Theorem C02_load_reads_location : forall s k e j l v,
  location s (ep s) k = Some (e, j) ->
  tget (envs (st s)) e = Some l -> list_get l j = Some v ->
  load_lex_slot k s = ROk v s.
Proof. exact load_reads_location. Qed.
Print Assumptions C02_load_reads_location.

Theorem C02_store_writes_location : forall s k e j l v,
  location s (ep s) k = Some (e, j) ->
  tget (envs (st s)) e = Some l -> j < len l ->
  store_lex_slot k v s = ROk tt (with_store s (set_env (st s) e (list_set l j v))).
Proof. exact store_writes_location. Qed.
Print Assumptions C02_store_writes_location.

Theorem C02_shared_location_visible : forall s k v e j l s1 k',
  location s (ep s) k = Some (e, j) ->
  tget (envs (st s)) e = Some l -> j < len l ->
  store_lex_slot k v s = ROk tt s1 ->
  location s1 (ep s1) k' = Some (e, j) ->
  load_lex_slot k' s1 = ROk v s1.
Proof. exact shared_location_visible. Qed.
Print Assumptions C02_shared_location_visible.

(* ---- Activations (Proofs/EnvProofs.v).  An environment is a heap cell [VLexEnv eid]
   (its ADDRESS is what %ep, closures and pointers name) plus the Rc payload [eid].
   [heap_inv] (C18) says the free list holds exactly the free cells; [store_wf] that the
   Rc ids in use are below [next_id]; [allocated h a] = a < hlen h and not Free.

   ENTER on a closure puts the activation environment at an address that was NOT
   allocated before the instruction, under an id never used before; every environment
   object of the state before is still there, unchanged, elsewhere. *)
Theorem C02_enter_fresh_env : forall s lam cep r s',
  heap_inv (hp s) -> store_wf (st s) ->
  heap_deref (hp s) (acc s) = Ok (VClosure lam cep) ->
  enter_frame s = ROk r s' ->
  exists env,
    env_at s' (ep s') = Some (next_id (st s), env) /\
    ~ allocated (hp s) (ep s') /\ allocated (hp s') (ep s') /\
    tget (envs (st s)) (next_id (st s)) = None /\
    heap_inv (hp s') /\ store_wf (st s') /\ next_id (st s') = next_id (st s) + 1 /\
    (forall a, allocated (hp s) a ->
               a <> ep s' /\ allocated (hp s') a /\ cell_at (hp s') a = cell_at (hp s) a) /\
    (forall e, e <> next_id (st s) -> tget (envs (st s')) e = tget (envs (st s)) e) /\
    (forall p x, env_at s p = Some x ->
               p <> ep s' /\ fst x <> next_id (st s) /\ env_at s' p = Some x).
Proof. exact enter_fresh_env. Qed.
Print Assumptions C02_enter_fresh_env.

Example C02_example_enter_fresh_env :
  heap_inv (hp (ex_vm (VBool false))) /\ store_wf (st (ex_vm (VBool false))) /\
  heap_deref (hp (ex_vm (VBool false))) (acc (ex_vm (VBool false))) = Ok (VClosure 0 1) /\
  enter_frame (ex_vm (VBool false)) = ROk false ex_s1 /\ ep ex_s1 = 3 /\
  env_at ex_s1 3 = Some (2, [VBool false; VLexPtr 1 1]).
Proof.
  split; [exact ex_heap_inv|]. split; [exact ex_store_wf|]. split; [reflexivity|]. exact ex_enter_1.
Qed.

(* separate activations get separate environments: when ENTER runs again while the
   environment of an earlier activation still exists, the new one is another heap cell
   with another payload, and the earlier one is untouched *)
Theorem C02_separate_activations : forall s1 r1 s1' s2 r2 s2' lam cep x1,
  enter_frame s1 = ROk r1 s1' ->
  env_at s1' (ep s1') = Some x1 ->
  heap_inv (hp s2) -> store_wf (st s2) ->
  heap_deref (hp s2) (acc s2) = Ok (VClosure lam cep) ->
  env_at s2 (ep s1') = Some x1 ->
  enter_frame s2 = ROk r2 s2' ->
  exists x2, env_at s2' (ep s2') = Some x2 /\ env_at s2' (ep s1') = Some x1 /\
             ep s2' <> ep s1' /\ fst x2 <> fst x1.
Proof. exact separate_activations. Qed.
Print Assumptions C02_separate_activations.

(* two calls of the SAME closure: environments at 3 and 4, payloads 2 and 3 *)
Example C02_example_separate_activations :
  enter_frame (ex_vm (VBool false)) = ROk false ex_s1 /\
  env_at ex_s1 (ep ex_s1) = Some (2, [VBool false; VLexPtr 1 1]) /\
  heap_deref (hp ex_s2) (acc ex_s2) = Ok (VClosure 0 1) /\
  env_at ex_s2 (ep ex_s1) = Some (2, [VBool false; VLexPtr 1 1]) /\
  enter_frame ex_s2 = ROk false ex_s2' /\ ep ex_s1 = 3 /\ ep ex_s2' = 4 /\
  env_at ex_s2' 4 = Some (3, [VNil; VLexPtr 1 1]).
Proof. vm_compute. auto 10. Qed.

(* the frame property of an assignment: exactly one slot of one environment payload —
   the location the slot denotes — is rewritten; heap, %ep and every other environment
   object stay as they were *)
Theorem C02_store_frame : forall k v s u s',
  store_lex_slot k v s = ROk u s' ->
  exists e j l, location s (ep s) k = Some (e, j) /\ tget (envs (st s)) e = Some l /\ j < len l /\
    hp s' = hp s /\ ep s' = ep s /\
    tget (envs (st s')) e = Some (list_set l j v) /\
    (forall j', j' <> j -> list_get (list_set l j v) j' = list_get l j') /\
    (forall e', e' <> e -> tget (envs (st s')) e' = tget (envs (st s)) e') /\
    (forall p e' l', e' <> e -> env_at s p = Some (e', l') -> env_at s' p = Some (e', l')).
Proof. exact store_frame. Qed.
Print Assumptions C02_store_frame.

(* ... hence an assignment to an OWN slot (parameter, internal definition: the slot is
   its own location) of one activation leaves the other activation's environment as it
   was, and every variable read there gives the same value unless it names that very
   location (a captured variable shared on purpose) *)
Theorem C02_store_own_slot_separate : forall k v s u s' eid other x,
  location s (ep s) k = Some (eid, k) ->
  env_at s other = Some x -> fst x <> eid ->
  store_lex_slot k v s = ROk u s' ->
  env_at s' other = Some x /\
  forall k' w, load_lex_slot k' (with_ep s other) = ROk w (with_ep s other) ->
               location s other k' <> Some (eid, k) ->
               load_lex_slot k' (with_ep s' other) = ROk w (with_ep s' other).
Proof. exact store_own_slot_separate. Qed.
Print Assumptions C02_store_own_slot_separate.

(* the second activation assigns its parameter; the first activation's still reads #f *)
Example C02_example_store_separate : exists s3,
  store_lex_slot 0 (VChar 65) ex_s2' = ROk tt s3 /\
  location ex_s2' (ep ex_s2') 0 = Some (3, 0) /\
  env_at s3 4 = Some (3, [VChar 65; VLexPtr 1 1]) /\
  load_lex_slot 0 (with_ep ex_s2' 3) = ROk (VBool false) (with_ep ex_s2' 3).
Proof. exact ex_store_2. Qed.

(* a binding outlives its creator: RET restores %sp %ep %ip %bp from the frame and
   touches neither the heap nor any environment payload; every environment object (in
   particular the returning activation's, to which the closures created in it point),
   every closure cell and every slot read through them is as before *)
Theorem C02_binding_outlives_creator : forall ob s s0 r s',
  read_opcode s = ROk ORet s0 -> run_one ob s = ROk r s' ->
  hp s' = hp s /\ st s' = st s /\
  (forall p, env_at s' p = env_at s p) /\
  (forall a lam env, heap_get (hp s) a = Ok (VClosure lam env) ->
                     heap_get (hp s') a = Ok (VClosure lam env) /\ env_at s' env = env_at s env) /\
  (forall env k v, load_lex_slot k (with_ep s env) = ROk v (with_ep s env) ->
                   load_lex_slot k (with_ep s' env) = ROk v (with_ep s' env)).
Proof. exact binding_outlives_creator. Qed.
Print Assumptions C02_binding_outlives_creator.

Example C02_example_binding_outlives_creator : exists s0 s',
  read_opcode ex_s1 = ROk ORet s0 /\ run_one ex_ob ex_s1 = ROk false s' /\
  ep s' = USIZE_MAX /\ sp s' = 0 /\ heap_get (hp ex_s1) 2 = Ok (VClosure 0 1) /\
  load_lex_slot 0 (with_ep ex_s1 3) = ROk (VBool false) (with_ep ex_s1 3).
Proof. exact ex_ret. Qed.

(* ---- Locations are flat, as an INVARIANT.  [lex_inv s]: heap_inv, store_wf, every
   value of every environment payload is a non-pointer or a pointer to a non-pointer
   slot of an existing environment object ([flat_envs]), and no LexPtr VALUE sits in the
   stack or in %acc.  It holds in the machine of Vm::new, implies the statement below
   for that state, and is preserved by ENTER, CLOSURE, RET, PUSH %acc, JMP, JNT, HALT and
   by an assignment of a non-pointer; under it a variable reference never yields a
   pointer (so the value a MOV assigns is a non-pointer). *)
Theorem C02_flat_initial : forall c, 0 < c -> lex_inv (vm_empty c).
Proof. exact lex_inv_empty. Qed.
Print Assumptions C02_flat_initial.

Theorem C02_flat_of_invariant : forall s, lex_inv s ->
  forall p k q k2 eid l,
    env_at s p = Some (eid, l) -> list_get l k = Some (VLexPtr q k2) ->
    exists e2 l2 v, env_at s q = Some (e2, l2) /\ list_get l2 k2 = Some v /\
                    match v with VLexPtr _ _ => False | _ => True end.
Proof. exact lex_inv_flat. Qed.
Print Assumptions C02_flat_of_invariant.

Theorem C02_flat_preserved_enter : forall s r s', lex_inv s -> enter_frame s = ROk r s' -> lex_inv s'.
Proof. exact lex_inv_enter. Qed.
Print Assumptions C02_flat_preserved_enter.

Theorem C02_flat_preserved_step : forall ob s op s0 r s',
  lex_inv s -> read_opcode s = ROk op s0 -> scoped_op op = true ->
  run_one ob s = ROk r s' -> lex_inv s'.
Proof. exact lex_inv_step. Qed.
Print Assumptions C02_flat_preserved_step.

Theorem C02_flat_preserved_store : forall s k v u s',
  lex_inv s -> no_lexptr v -> store_lex_slot k v s = ROk u s' -> lex_inv s'.
Proof. exact lex_inv_store. Qed.
Print Assumptions C02_flat_preserved_store.

Theorem C02_load_never_pointer : forall s k v s',
  flat s -> load_lex_slot k s = ROk v s' -> no_lexptr v.
Proof. exact load_lex_slot_clean. Qed.
Print Assumptions C02_load_never_pointer.

(* the invariant holds of the example machine; ENTER creates a real pointer (slot 1 of the
   activation environment points to slot 1 of the closure environment, which holds #t) *)
Example C02_example_flat :
  lex_inv (ex_vm (VBool false)) /\ enter_frame (ex_vm (VBool false)) = ROk false ex_s1 /\
  env_at ex_s1 3 = Some (2, [VBool false; VLexPtr 1 1]) /\ lex_inv ex_s1 /\
  scoped_op OEnter = true /\ scoped_op OClosureAcc = true /\ scoped_op ORet = true.
Proof.
  assert (H : lex_inv (ex_vm (VBool false))) by (apply ex_lex_inv; exact I).
  destruct ex_enter_1 as (E1 & _ & E3).
  split; [exact H|]. split; [exact E1|]. split; [exact E3|].
  split; [exact (lex_inv_enter _ _ _ H E1)|]. auto.
Qed.

(* The statement as first written (kept visible, NOT weakened).  It quantifies over every
   machine state, reachable or not, and in that form it is FALSE
   (C02_locations_flat_unrestricted_refuted: a hand-made environment whose slot points to
   itself).  What is proved instead is its restriction to the states that matter, and that
   is now UNCONDITIONAL for the machine of marwood:
     - [C02_locations_flat_eval]: the body of this statement holds in every state reached by
       Vm::eval of ANY datum (with the real builtin table [other_builtin] of
       Model/Builtins.v) from a state satisfying the invariant [finv] (Proofs/FlatProofs.v);
     - [C02_finv_initial], [C02_boot_finv], [C02_booted_finv]: [finv] holds of the machine of
       Vm::new before and after load_builtins + the prelude (by preservation, [booted] is
       never evaluated);
     - [C02_locations_flat_session]: hence it holds in every state a front end can reach
       from the booted machine by any sequence of evaluations, whatever their outcomes.
   The three hypotheses of the run-level theorems further down ([builtins_ok ob],
   [pres b_eval no_lexptr], [pres (prepare_eval e) T]) are discharged by
   [C02_builtins_ok], [C02_b_eval_finv], [C02_prepare_eval_finv]: the compiler only emits
   [bc_ok] bytecode ([C02_compile_bc_ok] ...) and every library builtin keeps [finv]
   (Proofs/FlatCompile.v, FlatListVec.v, FlatPkg.v, FlatAll.v).  Nothing about flatness
   stays conditional; the builtins WITHOUT a model (libm, rand, time, terminal size: the
   list of Proofs/BuiltinCoverage.v) answer [panic 99] in the model and are covered as such. *)
Definition C02_locations_flat_stmt : Prop :=
  forall (s : vm) p k q k2 eid l,
    env_at s p = Some (eid, l) -> list_get l k = Some (VLexPtr q k2) ->
    exists e2 l2 v, env_at s q = Some (e2, l2) /\ list_get l2 k2 = Some v /\
                    match v with VLexPtr _ _ => False | _ => True end.

Theorem C02_locations_flat_unrestricted_refuted : ~ C02_locations_flat_stmt.
Proof. exact flat_not_universal. Qed.
Print Assumptions C02_locations_flat_unrestricted_refuted.

(* ---- flatness over the WHOLE instruction set (Proofs/FlatProofs.v).
   [finv s] = [lex_inv s] and no VLexPtr VALUE in any heap cell, global slot, vector payload,
   saved continuation stack or bytecode operand, and every code object satisfies [bc_ok]:
   the destination operand of MOV / MOV-immediate is never a raw heap pointer (so no
   instruction overwrites the heap cell of an environment object).
   [builtins_ok ob] = every builtin (as dispatched by run_builtin) keeps [finv] — also when it
   fails — and returns a value that is not a VLexPtr. *)
Theorem C02_finv_initial : forall c, 0 < c -> finv (vm_empty c).
Proof. exact finv_empty. Qed.
Print Assumptions C02_finv_initial.

Theorem C02_finv_lex_inv : forall s, finv s -> lex_inv s.
Proof. exact fi_lex. Qed.
Print Assumptions C02_finv_lex_inv.

(* one instruction, ANY opcode (extends C02_flat_preserved_step): success path ... *)
Theorem C02_flat_preserved_step_all : forall ob s r s',
  builtins_ok ob -> finv s -> run_one ob s = ROk r s' -> finv s'.
Proof. exact finv_step. Qed.
Print Assumptions C02_flat_preserved_step_all.

(* ... and error path (the machine keeps running after a failed evaluation) *)
Theorem C02_flat_preserved_step_err : forall ob s e msg s',
  builtins_ok ob -> finv s -> run_one ob s = RErr e msg s' -> finv s'.
Proof. exact finv_step_err. Qed.
Print Assumptions C02_flat_preserved_step_err.

(* every opcode except CALL / TCALL: no hypothesis on the builtins at all
   (MOV, MOV-immediate, PUSH operand, PUSH-immediate, PUSH %acc, CONS, VPUSH, CLOSURE, ENTER,
   RET, VARARG, JMP, JNT, HALT) *)
Theorem C02_flat_preserved_step_nocall : forall ob s op s0 r s',
  finv s -> read_opcode s = ROk op s0 -> calls op = false -> run_one ob s = ROk r s' -> finv s'.
Proof. exact finv_step_nocall. Qed.
Print Assumptions C02_flat_preserved_step_nocall.

(* the run loop, by induction on the fuel: whatever the outcome (value, yield at the budget,
   error with the registers reset) the final state satisfies the invariant *)
Theorem C02_flat_preserved_run : forall ob fuel count s res s',
  builtins_ok ob -> finv s -> run_count ob fuel count s = ROk res s' -> finv s'.
Proof. exact run_count_finv. Qed.
Print Assumptions C02_flat_preserved_run.

(* locations_flat for every state reachable by running code from an invariant state *)
Theorem C02_locations_flat : forall ob fuel count s res s',
  builtins_ok ob -> finv s -> run_count ob fuel count s = ROk res s' ->
  forall p k q k2 eid l,
    env_at s' p = Some (eid, l) -> list_get l k = Some (VLexPtr q k2) ->
    exists e2 l2 v, env_at s' q = Some (e2, l2) /\ list_get l2 k2 = Some v /\
                    match v with VLexPtr _ _ => False | _ => True end.
Proof. exact locations_flat_reachable. Qed.
Print Assumptions C02_locations_flat.

(* whole evaluations (Vm::eval = compile, install, run) under the same hypothesis on the
   compiler: prepare_eval keeps the invariant *)
Theorem C02_flat_preserved_eval : forall ob fuel e s res s',
  builtins_ok ob -> pres (prepare_eval e) T -> finv s -> eval ob fuel e s = ROk res s' -> finv s'.
Proof. exact eval_finv. Qed.
Print Assumptions C02_flat_preserved_eval.

(* the hypothesis on the builtins reduced to the table [other_builtin] and to `eval`:
   apply, call/cc (which saves the stack in a continuation), error, display and write are
   proved here *)
Theorem C02_builtins_ok_of : forall ob,
  (forall b, pres (ob b) no_lexptr) -> pres b_eval no_lexptr -> builtins_ok ob.
Proof. exact builtins_ok_of. Qed.
Print Assumptions C02_builtins_ok_of.

(* the condition on bytecode is decidable *)
Theorem C02_bc_okb_sound : forall bc, bc_okb bc = true -> bc_ok bc.
Proof. exact bc_okb_sound. Qed.
Print Assumptions C02_bc_okb_sound.

(* non-vacuity: a machine with a code object installed ((cons #t '()) by hand: MOV-immediate,
   PUSH %acc, PUSH-immediate, CONS, HALT) satisfies the invariant; its first instruction is a
   MOV-immediate (not covered by C02_flat_preserved_step), it runs, and the invariant holds
   afterwards *)
Example C02_example_step_all :
  finv fx_vm /\ bc_ok fx_code /\
  exists s0 r s', read_opcode fx_vm = ROk OMovImmediate s0 /\ run_one fx_ob fx_vm = ROk r s' /\
                  acc s' = VBool true /\ finv s'.
Proof.
  split; [exact fx_finv|]. split; [apply bc_okb_sound; reflexivity|].
  assert (E1 : match read_opcode fx_vm with ROk o _ => Some o | _ => None end = Some OMovImmediate)
    by (vm_compute; reflexivity).
  assert (E2 : match run_one fx_ob fx_vm with ROk b s => Some (acc s) | _ => None end = Some (VBool true))
    by (vm_compute; reflexivity).
  destruct (read_opcode fx_vm) as [o s0| | |] eqn:R1; try discriminate E1. injection E1 as ->.
  destruct (run_one fx_ob fx_vm) as [r s'| | |] eqn:R2; try discriminate E2. injection E2 as E2.
  exists s0, r, s'. split; [reflexivity|]. split; [reflexivity|]. split; [exact E2|].
  exact (finv_step_nocall fx_ob fx_vm OMovImmediate s0 r s' fx_finv R1 eq_refl R2).
Qed.


(* ---- the compiler, the builtin table, whole evaluations, boot: the hypotheses discharged
   (Proofs/FlatCompile.v, FlatListVec.v, FlatPkg.v, FlatAll.v).
   [good bc] is the invariant of the REVERSED bytecode of a lambda under construction: no
   VLexPtr cell; a raw pointer operand only directly after MOV-immediate / JNT / JMP /
   PUSH-immediate; the cell after a MOV / MOV-immediate opcode is not an opcode.  The compiler
   CANNOT emit a VLexPtr operand or a MOV into a raw VPtr destination: [bc_ok] is exactly
   right for reachable code, nothing had to be weakened. *)
Theorem C02_good_bc_ok : forall bc, good bc -> bc_ok (rev bc).
Proof. exact good_bc_ok. Qed.
Print Assumptions C02_good_bc_ok.

(* compile_expression of ANY datum in ANY invariant state, onto any good unfinished lambda
   (e.g. an empty one): the state afterwards satisfies the invariant — also after a compile
   error —, the result is good and its finished bytecode satisfies bc_ok *)
Theorem C02_compile_bc_ok : forall f l tail e s,
  finv s -> good (l_bc l) ->
  match compile_expression f l tail e s with
  | ROk l' s' => finv s' /\ good (l_bc l') /\ bc_ok (l_bc (lambda_finish l'))
  | RErr _ _ s' => finv s'
  | _ => True
  end.
Proof. exact compile_bc_ok. Qed.
Print Assumptions C02_compile_bc_ok.

Theorem C02_compile_quasiquote_bc_ok : forall f l e d s,
  finv s -> good (l_bc l) ->
  match compile_quasiquote f l e d s with
  | ROk l' s' => finv s' /\ good (l_bc l') /\ bc_ok (l_bc (lambda_finish l'))
  | RErr _ _ s' => finv s'
  | _ => True
  end.
Proof. exact compile_quasiquote_bc_ok. Qed.
Print Assumptions C02_compile_quasiquote_bc_ok.

Theorem C02_compile_runnable_bc_ok : forall e s,
  finv s ->
  match compile_runnable e s with
  | ROk l s' => finv s' /\ bc_ok (l_bc (lambda_finish l))
  | RErr _ _ s' => finv s'
  | _ => True
  end.
Proof. exact compile_runnable_bc_ok. Qed.
Print Assumptions C02_compile_runnable_bc_ok.

(* quoted data: Heap::put_cell / maybe_put_cell of any datum keep the invariant *)
Theorem C02_put_cell_finv : forall c, pres (put_cell_m c) (fun v => exists a, v = VPtr a).
Proof. exact pres_put_cell_m. Qed.
Print Assumptions C02_put_cell_finv.

(* (H3) Vm::prepare_eval — transform, compile, install, set %ip — keeps the invariant *)
Theorem C02_prepare_eval_finv : forall e, pres (prepare_eval e) T.
Proof. exact prepare_eval_finv. Qed.
Print Assumptions C02_prepare_eval_finv.

(* (H2) the `eval` builtin *)
Theorem C02_b_eval_finv : pres b_eval no_lexptr.
Proof. exact b_eval_finv. Qed.
Print Assumptions C02_b_eval_finv.

(* (H1) every library builtin of the real table keeps the invariant (also when it fails)
   and returns a value that is not a VLexPtr; with apply, call/cc, error, display, write
   (FlatProofs) and eval: *)
Theorem C02_other_builtin_finv : forall b, pres (other_builtin b) no_lexptr.
Proof. exact pres_other_builtin. Qed.
Print Assumptions C02_other_builtin_finv.

Theorem C02_builtins_ok : builtins_ok other_builtin.
Proof. exact builtins_ok_other. Qed.
Print Assumptions C02_builtins_ok.

(* UNCONDITIONAL: Vm::eval of any datum from an invariant state ends in an invariant state,
   whatever the outcome (value, error, compile error) ... *)
Theorem C02_flat_preserved_eval_all : forall fuel e s res s',
  finv s -> eval other_builtin fuel e s = ROk res s' -> finv s'.
Proof. exact eval_finv_all. Qed.
Print Assumptions C02_flat_preserved_eval_all.

(* ... likewise sliced execution (prepare_eval, then run_count with a budget) ... *)
Theorem C02_flat_preserved_run_all : forall fuel count s res s',
  finv s -> run_count other_builtin fuel count s = ROk res s' -> finv s'.
Proof. exact run_finv. Qed.
Print Assumptions C02_flat_preserved_run_all.

(* ... and locations are flat there *)
Theorem C02_locations_flat_eval : forall fuel e s res s',
  finv s -> eval other_builtin fuel e s = ROk res s' ->
  forall p k q k2 eid l,
    env_at s' p = Some (eid, l) -> list_get l k = Some (VLexPtr q k2) ->
    exists e2 l2 v, env_at s' q = Some (e2, l2) /\ list_get l2 k2 = Some v /\
                    match v with VLexPtr _ _ => False | _ => True end.
Proof. exact eval_locations_flat. Qed.
Print Assumptions C02_locations_flat_eval.

(* boot: Vm::new = load_builtins on the empty machine, then every form of the prelude text.
   Whatever the prelude, a machine that boots satisfies the invariant — proved by
   preservation; [booted] is not evaluated *)
Theorem C02_boot_finv : forall prelude s, boot_with prelude = Some s -> finv s.
Proof. exact boot_with_finv. Qed.
Print Assumptions C02_boot_finv.

Theorem C02_booted_finv : forall s, booted = Some s -> finv s.
Proof. exact booted_finv. Qed.
Print Assumptions C02_booted_finv.

(* every state reachable from the booted machine by any sequence of evaluations *)
Theorem C02_locations_flat_session : forall s0 s,
  booted = Some s0 -> evals s0 s ->
  forall p k q k2 eid l,
    env_at s p = Some (eid, l) -> list_get l k = Some (VLexPtr q k2) ->
    exists e2 l2 v, env_at s q = Some (e2, l2) /\ list_get l2 k2 = Some v /\
                    match v with VLexPtr _ _ => False | _ => True end.
Proof. exact session_locations_flat. Qed.
Print Assumptions C02_locations_flat_session.

(* non-vacuity.  ((lambda (x) ((lambda (y) (lambda () (if x y x))) 2)) 1) on the machine of
   Vm::new (before load_builtins): it evaluates to a procedure, the final state holds a real
   VLexPtr in an environment payload (the innermost closure captures x through a pointer),
   satisfies the invariant and is flat *)
Example C02_example_eval_flat :
  exists c s', eval other_builtin 200 fa_datum (vm_empty 64) = ROk (Done c) s' /\
               has_lexptr s' = true /\ finv s' /\ flat s'.
Proof. exact fa_example. Qed.

(* the compiler on the same datum: four code objects are installed, all pass the boolean
   checker bc_okb as well; the entry code is PUSH-immediate argc 0, MOV-immediate <lambda>
   %acc, CALL, HALT *)
Example C02_example_compile_bc_ok :
  exists l s', compile_runnable fa_datum (vm_empty 64) = ROk l s' /\
    l_bc (lambda_finish l) = [VOp OPushImmediate; VArgc 0; VOp OMovImmediate; VPtr 5; VAcc; VOp OCallAcc; VOp OHalt] /\
    PositiveMap.cardinal (lams (st s')) = 4%nat /\
    forallb (fun p => bc_okb (l_bc (snd p))) (PositiveMap.elements (lams (st s'))) = true /\
    bc_ok (l_bc (lambda_finish l)) /\ finv s'.
Proof. exact fa_compile. Qed.

(* boot_with succeeds on the empty prelude (load_builtins over the whole generated table) *)
Example C02_example_boot : exists s, boot_with [] = Some s /\ finv s.
Proof. exact fa_boot_bare. Qed.
