(* C18 — symbols are interned: same name iff eq?, across collections and conversions.
   Proofs in Proofs/SymtabProofs.v (heap invariant) and Proofs/SymbolProofs.v (name
   encoding).  eq? on symbols is equality of heap addresses (compare.rs:29); every route
   that produces a symbol (literal, quoted datum, string->symbol, macro output, eval)
   allocates it through Heap::put / put_cell. *)
From Coq Require Import String.
From MW Require Import Model.Base Model.Datum Model.Lex Model.Parse Model.VmTypes Model.Heap Model.Gc
  Model.SymbolB Proofs.GcProofs Proofs.SymtabProofs Proofs.SymbolProofs
  Model.VmBase Model.ListVec Model.Vm Model.Builtins Proofs.SymbolRoutes.
Open Scope N_scope.

(* symtab_inv is [hi_symtab] of [heap_inv]: symtab n = Some a iff cell a is allocated and
   holds the symbol n.  It holds initially and is preserved by every heap operation. *)
Theorem C18_inv_new : forall c, 0 < c -> heap_inv (heap_new c).
Proof. exact heap_inv_new. Qed.
Print Assumptions C18_inv_new.
Theorem C18_inv_grow : forall h, heap_inv h -> heap_inv (heap_grow h).
Proof. exact heap_inv_grow. Qed.
Print Assumptions C18_inv_grow.
Theorem C18_inv_alloc : forall h p h', heap_inv h -> heap_alloc h = (p, h') ->
  heap_inv h' /\ p < hlen h' /\ cell_at h' p = VUndef /\ g_get (gcmap h') p = GAllocated
  /\ symtab h' = symtab h
  /\ (forall a, a <> p -> g_get (gcmap h') a = g_get (gcmap (match free_list h with [] => heap_grow h | _ => h end)) a).
Proof. exact heap_inv_alloc. Qed.
Print Assumptions C18_inv_alloc.
Theorem C18_inv_put : forall h v r h', heap_inv h -> heap_put h v = (r, h') -> heap_inv h'.
Proof. exact heap_inv_put. Qed.
Print Assumptions C18_inv_put.
Theorem C18_inv_maybe_put : forall h v r h', heap_inv h -> heap_maybe_put h v = (r, h') -> heap_inv h'.
Proof. exact heap_inv_maybe_put. Qed.
Print Assumptions C18_inv_maybe_put.
Theorem C18_inv_put_cell : forall c h s v h' s',
  heap_inv h -> put_cell h s c = Ok (v, h', s') -> heap_inv h'.
Proof. exact heap_inv_put_cell. Qed.
Print Assumptions C18_inv_put_cell.
Theorem C18_inv_maybe_put_cell : forall c h s v h' s',
  heap_inv h -> maybe_put_cell h s c = Ok (v, h', s') -> heap_inv h'.
Proof. exact heap_inv_maybe_put_cell. Qed.
Print Assumptions C18_inv_maybe_put_cell.
Theorem C18_inv_free : forall h p h', heap_inv h -> g_get (gcmap h) p <> GFree ->
  heap_free h p = Ok h' -> heap_inv h'.
Proof. exact heap_inv_free. Qed.
Print Assumptions C18_inv_free.
Theorem C18_inv_sweep : forall h h', heap_inv h -> sweep h = Ok h' -> heap_inv h'.
Proof. exact heap_inv_sweep. Qed.
Print Assumptions C18_inv_sweep.

(* two live symbol cells have the same name iff they are the same cell *)
Theorem C18_same_name_iff_same_cell : forall h a a' n n',
  heap_inv h -> allocated h a -> allocated h a' ->
  cell_at h a = VSym n -> cell_at h a' = VSym n' -> (n = n' <-> a = a').
Proof. exact same_name_iff_same_cell. Qed.
Print Assumptions C18_same_name_iff_same_cell.

(* interning: put of a symbol yields an allocated cell holding it; a second put of the
   same name yields the same cell and leaves the heap unchanged *)
Theorem C18_put_interns : forall h n r h', heap_inv h -> heap_put h (VSym n) = (r, h') ->
  exists p, r = VPtr p /\ allocated h' p /\ cell_at h' p = VSym n
            /\ heap_put h' (VSym n) = (VPtr p, h').
Proof. exact heap_put_sym. Qed.
Print Assumptions C18_put_interns.

(* across collections: a reachable symbol keeps cell and table entry (an unreachable one
   has no live reference left to compare with) *)
Theorem C18_gc_preserves_symbols : forall vd fuel order v h' a n,
  heap_inv (hp v) -> no_used (hp v) ->
  collect vd fuel order v = Ok h' ->
  a < hlen (hp v) -> reach_from (hp v) (st v) (root order v) a ->
  g_get (gcmap (hp v)) a <> GFree -> cell_at (hp v) a = VSym n ->
  symtab_find (symtab h') n = Some a /\ cell_at h' a = VSym n /\ g_get (gcmap h') a = GAllocated.
Proof. exact gc_preserves_symbols. Qed.
Print Assumptions C18_gc_preserves_symbols.

(* ---- conversions.  [string_to_symbol] is the code AFTER fix F10 (symbol.rs: `\` is written
   \x5c;), [string_to_symbol_pinned] the pinned code. *)
Theorem C18_symbol_string_roundtrip : forall s,
  Forall (fun c => is_scalar c = true) s -> symbol_to_string (string_to_symbol s) = Ok s.
Proof. exact symbol_string_roundtrip. Qed.
Print Assumptions C18_symbol_string_roundtrip.

(* what the fix repaired: on the pinned tree "a\b" came back with a backspace *)
Theorem C18_symbol_string_roundtrip_pinned_refuted :
  exists s, Forall (fun c => is_scalar c = true) s /\ symbol_to_string (string_to_symbol_pinned s) <> Ok s.
Proof. exact symbol_string_roundtrip_pinned_refuted. Qed.
Print Assumptions C18_symbol_string_roundtrip_pinned_refuted.

(* (string->symbol (symbol->string y)) is y: full statement, false on the tree *)
Definition C18_string_symbol_roundtrip_full : Prop :=
  forall y t, symbol_to_string y = Ok t -> string_to_symbol t = y.

(* it holds for every symbol string->symbol makes, and for every reader symbol outside the
   two recorded classes (first character not identifier-initial; contains a backslash) *)
Theorem C18_string_symbol_roundtrip_made : forall s y,
  Forall (fun c => is_scalar c = true) s -> y = string_to_symbol s ->
  exists t, symbol_to_string y = Ok t /\ string_to_symbol t = y.
Proof. exact string_symbol_roundtrip_made. Qed.
Print Assumptions C18_string_symbol_roundtrip_made.

Theorem C18_string_symbol_roundtrip_main : forall y, plain_identifier y = true ->
  symbol_to_string y = Ok y /\ string_to_symbol y = y.
Proof. exact string_symbol_roundtrip_plain. Qed.
Print Assumptions C18_string_symbol_roundtrip_main.

(* open finding non-initial-first-char: the reader symbol + is not (string->symbol "+") *)
Theorem C18_refuted_first_char :
  exists y t, known_first_char_not_initial y = true /\ symbol_to_string y = Ok t /\ string_to_symbol t <> y.
Proof. exact string_symbol_roundtrip_refuted_first_char. Qed.
Print Assumptions C18_refuted_first_char.

(* open finding backslash-in-reader-symbol *)
Theorem C18_refuted_backslash :
  exists y, known_backslash_in_symbol y = true /\
    forall t, symbol_to_string y = Ok t -> string_to_symbol t <> y.
Proof. exact string_symbol_roundtrip_refuted_backslash. Qed.
Print Assumptions C18_refuted_backslash.

(* non-vacuity: interning two names and one of them again on a fresh heap *)
Example C18_example :
  let h0 := heap_new 8 in
  let '(a, h1) := heap_put h0 (VSym [102;111;111]) in
  let '(b, h2) := heap_put h1 (VSym [98;97;114]) in
  let '(c, h3) := heap_put h2 (VSym [102;111;111]) in
  a = VPtr 0 /\ b = VPtr 1 /\ c = VPtr 0 /\ symtab_find (symtab h3) [98;97;114] = Some 1.
Proof. vm_compute. repeat split. Qed.
Example C18_example_roundtrip :
  symbol_to_string (string_to_symbol [97; 32; 92; 955]) = Ok [97; 32; 92; 955]
  /\ plain_identifier [108; 105; 115; 116; 45; 62; 118] = true.
Proof. vm_compute. split; reflexivity. Qed.

(* ---- ONE statement across the two routes that make a symbol, for all names (work package
   c19c, Proofs/SymbolRoutes.v).
     reader route:  a literal / quoted symbol — the reader makes Cell::Symbol(spelling y)
                    ([reader_symbol_name]), stored with Heap::put_cell;
     builtin route: (string->symbol str), str holding t — the builtin returns
                    VCell::Symbol(string_to_symbol t) by value ([C18_builtin_route_value]) and the
                    CALL wrapper stores it with Heap::maybe_put.
   Whatever the order: both results are pointers to allocated symbol cells of the final heap,
   eq? (Vm::eqv) on them answers exactly "the same cell", and they ARE the same cell iff the
   encoded name of t is the spelling y. *)
Theorem C18_same_name_same_symbol : forall h st0 y t,
  heap_inv h ->
  (forall vr h1 st1 vb h2,
     put_cell h st0 (CSym (reader_symbol_name y)) = Ok (vr, h1, st1) ->
     heap_maybe_put h1 (VSym (string_to_symbol t)) = (vb, h2) ->
     exists p q, vr = VPtr p /\ vb = VPtr q /\ heap_inv h2 /\ allocated h2 p /\ allocated h2 q /\
       cell_at h2 p = VSym y /\ cell_at h2 q = VSym (string_to_symbol t) /\
       (p = q <-> string_to_symbol t = y) /\
       (forall s, hp s = h2 -> eqv vr vb s = ROk (p =? q) s /\ eqv vb vr s = ROk (p =? q) s)) /\
  (forall vb h1 vr h2 st2,
     heap_maybe_put h (VSym (string_to_symbol t)) = (vb, h1) ->
     put_cell h1 st0 (CSym (reader_symbol_name y)) = Ok (vr, h2, st2) ->
     exists p q, vr = VPtr p /\ vb = VPtr q /\ heap_inv h2 /\ allocated h2 p /\ allocated h2 q /\
       cell_at h2 p = VSym y /\ cell_at h2 q = VSym (string_to_symbol t) /\
       (p = q <-> string_to_symbol t = y) /\
       (forall s, hp s = h2 -> eqv vr vb s = ROk (p =? q) s /\ eqv vb vr s = ROk (p =? q) s)).
Proof. exact same_name_same_symbol. Qed.
Print Assumptions C18_same_name_same_symbol.

(* the core: two puts of symbols in a row *)
Theorem C18_two_puts : forall h n1 n2 v1 h1 v2 h2,
  heap_inv h -> heap_put h (VSym n1) = (v1, h1) -> heap_put h1 (VSym n2) = (v2, h2) ->
  exists p q, v1 = VPtr p /\ v2 = VPtr q /\ heap_inv h2 /\ allocated h2 p /\ allocated h2 q /\
    cell_at h2 p = VSym n1 /\ cell_at h2 q = VSym n2 /\ (p = q <-> n1 = n2).
Proof. exact two_puts. Qed.
Print Assumptions C18_two_puts.

(* "string->symbol of a name yields a symbol eq? to the symbol read from the same spelling":
   for every plain identifier, in both orders *)
Theorem C18_same_spelling_same_symbol : forall h st0 y,
  heap_inv h -> plain_identifier y = true ->
  (forall vr h1 st1 vb h2,
     put_cell h st0 (CSym (reader_symbol_name y)) = Ok (vr, h1, st1) ->
     heap_maybe_put h1 (VSym (string_to_symbol y)) = (vb, h2) ->
     vr = vb /\ exists p, vr = VPtr p /\ allocated h2 p /\ cell_at h2 p = VSym y /\
       forall s, hp s = h2 -> eqv vr vb s = ROk true s) /\
  (forall vb h1 vr h2 st2,
     heap_maybe_put h (VSym (string_to_symbol y)) = (vb, h1) ->
     put_cell h1 st0 (CSym (reader_symbol_name y)) = Ok (vr, h2, st2) ->
     vr = vb /\ exists p, vr = VPtr p /\ allocated h2 p /\ cell_at h2 p = VSym y /\
       forall s, hp s = h2 -> eqv vr vb s = ROk true s).
Proof. exact same_spelling_same_symbol. Qed.
Print Assumptions C18_same_spelling_same_symbol.

(* ... and NOT for every spelling: the reader symbol + and (string->symbol "+") are two cells,
   eq? answers #f (open finding non-initial-first-char, cf. C18_refuted_first_char) *)
Theorem C18_same_spelling_refuted_first_char :
  exists y, known_first_char_not_initial y = true /\
    forall h st0 vr h1 st1 vb h2, heap_inv h ->
      put_cell h st0 (CSym (reader_symbol_name y)) = Ok (vr, h1, st1) ->
      heap_maybe_put h1 (VSym (string_to_symbol y)) = (vb, h2) ->
      vr <> vb /\ forall s, hp s = h2 -> eqv vr vb s = ROk false s.
Proof. exact same_spelling_refuted_first_char. Qed.
Print Assumptions C18_same_spelling_refuted_first_char.

(* the builtin route is string_to_symbol: Model/Builtins.b_string_symbol answers the symbol
   BY VALUE with the encoded name of the string's contents and leaves the heap alone *)
Theorem C18_builtin_route_value : forall s r s',
  b_string_symbol s = ROk r s' ->
  hp s' = hp s /\ exists sid t, tget (strs (st s')) sid = Some t /\ r = VSym (string_to_symbol t).
Proof. exact b_string_symbol_value. Qed.
Print Assumptions C18_builtin_route_value.

(* non-vacuity: the two routes on a fresh heap, and through the whole VM model *)
Example C18_routes_example :
  let h0 := heap_new 8 in
  match put_cell h0 store_empty (CSym (reader_symbol_name [102;111;111])) with
  | Ok (vr, h1, _) =>
      let '(vb, h2) := heap_maybe_put h1 (VSym (string_to_symbol [102;111;111])) in
      let '(vp, h3) := heap_maybe_put h2 (VSym (string_to_symbol [43])) in
      match put_cell h3 store_empty (CSym (reader_symbol_name [43])) with
      | Ok (vq, _, _) => vr = VPtr 0 /\ vb = VPtr 0 /\ vp = VPtr 1 /\ vq = VPtr 2
      | _ => False
      end
  | _ => False
  end.
Proof. vm_compute. repeat split. Qed.
Example C18_routes_on_the_vm :
  match boot_with [] with
  | Some s0 =>
      fst (eval_text_all 10
             (S_ "(eq? 'foo (string->symbol ""foo"")) (eq? (string->symbol ""a-b"") 'a-b) (eq? '+ (string->symbol ""+""))"%string)
             s0 [])
      = [FOk (CBool true); FOk (CBool true); FOk (CBool false)]
  | None => False
  end.
Proof. vm_compute. reflexivity. Qed.
