(* C08 — exact arithmetic is exact; inexactness is never silently dropped.
   Only statements, each closed by [exact] of a lemma proved in Proofs/, with its
   assumptions printed.  The model is Model/NumArith.v (number.rs, builtin/number.rs)
   over Model/Ratio32.v (num-rational / num-integer on Ratio<i32>); ⟦x⟧ = [qv x] : Q,
   well-formedness = [wfb] (i64 range; reduced Ratio<i32> with positive denominator;
   a BigInt may carry a small value), exactness = [is_exact].  [p] is the build
   profile (Debug: overflow panics, Release: wraps): theorems hold for both.      *)
From Coq Require Import ZArith QArith Qround Qabs List.
From MW Require Import Model.Base Model.F64 Model.Num Model.Ratio32 Model.NumArith Model.NumSpec
  Proofs.GcdProofs Proofs.Ratio32Proofs Proofs.NumProofs Proofs.NumDivProofs Proofs.NumInexactProofs
  Proofs.CmpProofs Proofs.NumUnaryProofs Proofs.NumPowProofs Proofs.NumFoldProofs Proofs.NumIntRatProofs.
Import ListNotations.
Open Scope Z_scope.

(* ---- the full-strength statement (false on the pinned tree: see the refutations) *)
Definition C08_full : Prop :=
  forall p (op : profile -> num -> num -> out num) (opq : Q -> Q -> Q),
    In (op, opq) [(num_add, Qplus); (num_sub, Qminus); (num_mul, Qmult); (num_div, Qdiv)] ->
    forall a b, wfb a = true -> wfb b = true -> is_exact a = true -> is_exact b = true ->
    (opq = Qdiv -> ~ (qv b == 0)%Q) ->
    exists r, op p a b = Ok r /\ wfb r = true /\
      (is_exact r = true -> (qv r == opq (qv a) (qv b))%Q) /\
      (is_exact r = false -> forall x, wfb x = true -> is_exact x = true -> ~ (qv x == opq (qv a) (qv b))%Q).

(* ---- num-integer / num-rational on Ratio<i32> (and Ratio<i64>) against Z and Q *)

(* Stein's binary gcd as ported = Z.gcd, for every pair whose gcd is representable
   (i.e. except gcd(MIN,0), gcd(0,MIN), gcd(MIN,MIN), where the code panics/wraps) *)
Theorem C08_ratio_gcd : forall p w m n, 2 <= w ->
  in_int w m = true -> in_int w n = true -> gcd_safe w m n ->
  igcd p w m n = Ok (Z.gcd m n).
Proof. exact igcd_spec. Qed.
Print Assumptions C08_ratio_gcd.

(* Ratio::new on a positive denominator: lowest terms, same value, never panics *)
Theorem C08_ratio_reduce : forall p w n d, 2 <= w -> in_int w n = true -> in_int w d = true -> 0 < d ->
  exists n' d', rreduce p w (n, d) = Ok (n', d') /\ rwf w (n', d') /\ n' * d = n * d'.
Proof. exact rreduce_pos. Qed.
Print Assumptions C08_ratio_reduce.

(* checked_add / checked_sub: None, or the reduced exact sum / difference *)
Theorem C08_ratio_checked_addsub : forall (sub : bool) p w a b, 2 <= w -> rok w a -> rok w b ->
  rchecked_addsub sub p w a b = Ok None \/
  exists r, rchecked_addsub sub p w a b = Ok (Some r) /\ rwf w r /\
            (rq r == if sub then rq a - rq b else rq a + rq b)%Q.
Proof. exact rchecked_addsub_spec. Qed.
Print Assumptions C08_ratio_checked_addsub.

Theorem C08_ratio_checked_mul : forall p w a b, 2 <= w -> rok w a -> rok w b ->
  rchecked_mul p w a b = Ok None \/
  exists r, rchecked_mul p w a b = Ok (Some r) /\ rwf w r /\ (rq r == rq a * rq b)%Q.
Proof. exact rchecked_mul_spec. Qed.
Print Assumptions C08_ratio_checked_mul.

(* ---- op_exact: an exact result never differs from the true value and is well-formed;
   all 9 exact representation pairs (Fixnum / BigInt / Rational, incl. a BigInt carrying a
   small value and integer-valued n/1), both profiles *)
Theorem C08_add_exact : forall p a b r,
  wfb a = true -> wfb b = true -> is_exact a = true -> is_exact b = true ->
  num_add p a b = Ok r -> is_exact r = true -> wfb r = true /\ (qv r == qv a + qv b)%Q.
Proof. exact add_exact. Qed.
Print Assumptions C08_add_exact.

Theorem C08_sub_exact : forall p a b r,
  wfb a = true -> wfb b = true -> is_exact a = true -> is_exact b = true ->
  num_sub p a b = Ok r -> is_exact r = true -> wfb r = true /\ (qv r == qv a - qv b)%Q.
Proof. exact sub_exact. Qed.
Print Assumptions C08_sub_exact.

Theorem C08_mul_exact : forall p a b r,
  wfb a = true -> wfb b = true -> is_exact a = true -> is_exact b = true ->
  num_mul p a b = Ok r -> is_exact r = true -> wfb r = true /\ (qv r == qv a * qv b)%Q.
Proof. exact mul_exact. Qed.
Print Assumptions C08_mul_exact.

(* + - * never panic, err or hang on well-formed exact operands *)
Theorem C08_addsubmul_total : forall p a b,
  wfb a = true -> wfb b = true -> is_exact a = true -> is_exact b = true ->
  (exists r, num_add p a b = Ok r) /\ (exists r, num_sub p a b = Ok r) /\ (exists r, num_mul p a b = Ok r).
Proof. exact addsubmul_total. Qed.
Print Assumptions C08_addsubmul_total.

(* ---- quotient / remainder on exact integers in any representation (Fixnum, BigInt,
   n/1): the truncating results, also for i64::MIN by -1 (after fix F12).  The pair of two
   integer-valued rationals is excluded: it runs num-rational's unchecked Div/Rem on i32
   and is part of the recorded class ratio32-overflow-panic (MIN/1 by -1/1). *)
Theorem C08_quotient_exact : forall p a b za zb,
  wfb a = true -> wfb b = true ->
  int_of a = Some za -> int_of b = Some zb -> zb <> 0 -> both_rational a b = false ->
  exists r, num_quotient p a b = Ok (Some r) /\ int_of r = Some (Z.quot za zb).
Proof. exact quotient_exact. Qed.
Print Assumptions C08_quotient_exact.

Theorem C08_remainder_exact : forall p a b za zb,
  wfb a = true -> wfb b = true ->
  int_of a = Some za -> int_of b = Some zb -> zb <> 0 ->
  (forall n d, b <> Rational n d) ->
  exists r, num_rem p a b = Ok (Some r) /\ int_of r = Some (Z.rem za zb).
Proof. exact remainder_exact. Qed.
Print Assumptions C08_remainder_exact.

(* remainder with an integer-valued Rational divisor too (Fixnum % n/1 on Rational64, BigInt % n/1):
   everything except two integer-valued rationals and i64::MIN % -1/1 (which panics) *)
Theorem C08_remainder_exact_gen : forall p a b za zb,
  wfb a = true -> wfb b = true ->
  int_of a = Some za -> int_of b = Some zb -> zb <> 0 -> both_rational a b = false ->
  rem_known a b = false ->
  exists r, num_rem p a b = Ok (Some r) /\ int_of r = Some (Z.rem za zb) /\ wfb r = true.
Proof. exact remainder_exact_gen. Qed.
Print Assumptions C08_remainder_exact_gen.

(* ---- refutations of C08_full: one machine-checked witness per recorded class; the same
   witnesses are in the corpus of lib/props/c08.py and replayed on the implementation *)

(* ratio32-overflow-panic: (/ 1 -2147483648) panics under Debug and is the ill-formed
   exact value -1/-2147483648 under Release *)
Theorem C08_refuted_ratio32_overflow :
  exists a b, wfb a = true /\ wfb b = true /\ is_exact a = true /\ is_exact b = true /\
    (exists s, num_div Debug a b = Panic s) /\
    (exists r, num_div Release a b = Ok r /\ is_exact r = true /\ wfb r = false).
Proof.
  exists (Fixnum 1), (Fixnum (- 2 ^ 31)). repeat split; try reflexivity.
  - eexists. vm_compute. reflexivity.
  - eexists. split; [vm_compute; reflexivity|split; reflexivity].
Qed.
Print Assumptions C08_refuted_ratio32_overflow.

(* the other members named by the property: (/ -2147483648 -1) is the wrong exact value
   -2147483648 under Release; abs, expt, floor panic under Debug *)
Theorem C08_refuted_ratio32_overflow_more :
  num_div Release (Fixnum (- 2 ^ 31)) (Fixnum (-1)) = Ok (Rational (- 2 ^ 31) 1) /\
  (exists s, num_div Debug (Fixnum (- 2 ^ 31)) (Fixnum (-1)) = Panic s) /\
  (exists s, num_abs Debug (Rational (- 2 ^ 31) 3) = Panic s) /\
  (exists s, num_pow Debug (Rational 1 2) 40 = Panic s) /\
  (exists s, num_floor Debug (Rational (- 2 ^ 31) 3) = Panic s) /\
  (exists s, num_quotient Debug (Rational (- 2 ^ 31) 1) (Rational (-1) 1) = Panic s).
Proof. repeat split; try (eexists; vm_compute; reflexivity). Qed.
Print Assumptions C08_refuted_ratio32_overflow_more.

(* float-fallback-representable: 4294967296 times 1/2 is inexact although 2147483648 is an integer *)
Definition inexact_result (o : out num) : bool :=
  match o with Ok r => negb (is_exact r) | _ => false end.

Theorem C08_refuted_float_fallback :
  exists a b, wfb a = true /\ wfb b = true /\ is_exact a = true /\ is_exact b = true /\
    (forall p, inexact_result (num_mul p a b) = true) /\
    (qv (Fixnum (2 ^ 31)) == qv a * qv b)%Q /\ wfb (Fixnum (2 ^ 31)) = true.
Proof.
  exists (Fixnum (2 ^ 32)), (Rational 1 2). repeat split; try reflexivity.
  all: try (intros []; vm_compute; reflexivity).
Qed.
Print Assumptions C08_refuted_float_fallback.

(* bigint-small-repr-dependence: the same value 5 as a BigInt and as a Fixnum *)
Theorem C08_refuted_bigint_repr :
  (qv (BigInt 5) == qv (Fixnum 5))%Q /\
  num_add Debug (Fixnum 5) (Rational 1 2) = Ok (Rational 11 2) /\
  inexact_result (num_add Debug (BigInt 5) (Rational 1 2)) = true.
Proof. split; [reflexivity|]. split; vm_compute; reflexivity. Qed.
Print Assumptions C08_refuted_bigint_repr.

(* ---- OPEN (stated, not proved; checked by the Python oracle on every run only) ------- *)
(* / on exact operands (all 9 representation pairs, both profiles): an exact result is
   well-formed and is the true quotient.  Covers Rational32::new(l, r) with r of either sign
   and checked_div with its manual reduce.  The hypothesis "the Debug build does not panic"
   is the recorded class ratio32-overflow-panic (C08_refuted_ratio32_overflow): under it the
   Release build computes the same, well-formed value. *)
Theorem C08_div_exact : forall p a b r,
  wfb a = true -> wfb b = true -> is_exact a = true -> is_exact b = true -> ~ (qv b == 0)%Q ->
  (forall s, num_div Debug a b <> Panic s) ->
  num_div p a b = Ok r -> is_exact r = true -> wfb r = true /\ (qv r * qv b == qv a)%Q.
Proof. exact div_exact. Qed.
Print Assumptions C08_div_exact.

(* num-rational's checked_div on positive-denominator operands, any width: unless the Debug
   build panics (gcd(0, MIN)) the answer is None or the reduced exact quotient *)
Theorem C08_ratio_checked_div : forall p w a b, 2 <= w -> rok w a -> rok w b -> fst b <> 0 ->
  (exists s, rchecked_div Debug w a b = Panic s) \/
  rchecked_div p w a b = Ok None \/
  exists r, rchecked_div p w a b = Ok (Some r) /\ rwf w r /\ (rq r * rq b == rq a)%Q.
Proof. exact rchecked_div_spec. Qed.
Print Assumptions C08_ratio_checked_div.

(* Ratio::new with a denominator of either sign *)
Theorem C08_ratio_reduce_signed : forall p w n d, 2 <= w ->
  in_int w n = true -> in_int w d = true -> d <> 0 ->
  (exists s, rreduce Debug w (n, d) = Panic s) \/
  exists n' d', rreduce p w (n, d) = Ok (n', d') /\ rwf w (n', d') /\ n' * d = n * d'.
Proof. exact rreduce_gen. Qed.
Print Assumptions C08_ratio_reduce_signed.

(* op_inexact_only_if for +.  The statement as first written (kept, REFUTED below) quantifies
   over an arbitrary [known_fallback], so it is false for known_fallback := nothing.  Corrected:
   [add_takes_fallback a b] spells out, without running the code, the overflow conditions
   under which Add leaves the exact representations (operand outside i32 next to a Rational;
   BigInt next to a non-integer Rational; lcm / scaled numerators / sum outside i32 in
   checked_add); [representable v] decides whether some well-formed exact number has the value
   v; [add_known_fallback] is their conjunction = the recorded classes
   float-fallback-representable and bigint-small-repr-dependence for +, and nothing else
   (C08_add_known_fallback_tight).
   The same is proved uniformly for + - * below (C08_op_*, C08_full_addsubmul_outside).
   ... and for / (C08_div_outcome, C08_full_outside).
   The variadic procedures, abs floor ceiling truncate round numerator denominator expt: see the
   section "Work package c08b" at the end of this file.  STILL OPEN: when a fold is inexact. *)
Definition C08_inexact_only_if_stmt : Prop := forall p a b r (known_fallback : num -> num -> bool),
  wfb a = true -> wfb b = true -> is_exact a = true -> is_exact b = true ->
  known_fallback a b = false -> num_add p a b = Ok r -> is_exact r = false ->
  forall x, wfb x = true -> is_exact x = true -> ~ (qv x == qv a + qv b)%Q.

(* the result of + on exact operands is inexact exactly on the explicit overflow conditions *)
Theorem C08_add_inexact_iff : forall p a b r,
  wfb a = true -> wfb b = true -> is_exact a = true -> is_exact b = true ->
  num_add p a b = Ok r -> is_exact r = negb (add_takes_fallback a b).
Proof. exact add_inexact_iff. Qed.
Print Assumptions C08_add_inexact_iff.

Theorem C08_inexact_only_if : forall p a b r,
  wfb a = true -> wfb b = true -> is_exact a = true -> is_exact b = true ->
  add_known_fallback a b = false -> num_add p a b = Ok r -> is_exact r = false ->
  forall x, wfb x = true -> is_exact x = true -> ~ (qv x == qv a + qv b)%Q.
Proof. exact add_inexact_only_if. Qed.
Print Assumptions C08_inexact_only_if.

(* every member of the class is an instance of the defect: inexact although representable *)
Theorem C08_add_known_fallback_tight : forall p a b r,
  wfb a = true -> wfb b = true -> is_exact a = true -> is_exact b = true ->
  add_known_fallback a b = true -> num_add p a b = Ok r ->
  is_exact r = false /\ exists x, wfb x = true /\ is_exact x = true /\ (qv x == qv a + qv b)%Q.
Proof. exact add_known_fallback_tight. Qed.
Print Assumptions C08_add_known_fallback_tight.

(* [representable] is exact: sound and complete for "some well-formed exact number has value v" *)
Theorem C08_representable_sound : forall x v,
  wfb x = true -> is_exact x = true -> (qv x == v)%Q -> representable v = true.
Proof. exact representable_sound. Qed.
Print Assumptions C08_representable_sound.
Theorem C08_representable_complete : forall v, representable v = true ->
  exists x, wfb x = true /\ is_exact x = true /\ (qv x == v)%Q.
Proof. exact representable_complete. Qed.
Print Assumptions C08_representable_complete.

(* checked_add / checked_sub answer None exactly when one of the four intermediate values
   leaves the machine width *)
Theorem C08_ratio_checked_addsub_none_iff : forall (sub : bool) p w a b, 2 <= w -> rok w a -> rok w b ->
  if addsub_fits sub w a b then exists r, rchecked_addsub sub p w a b = Ok (Some r)
  else rchecked_addsub sub p w a b = Ok None.
Proof. exact rchecked_addsub_fits. Qed.
Print Assumptions C08_ratio_checked_addsub_none_iff.

(* ---- + - * uniformly: [op_takes_fallback o a b] are the explicit overflow conditions of the
   three operators, [op_known_fallback o a b] = fallback taken although the true result is
   representable = the recorded classes float-fallback-representable and
   bigint-small-repr-dependence, exactly (tightness below) *)
Theorem C08_op_inexact_iff : forall o p a b r,
  wfb a = true -> wfb b = true -> is_exact a = true -> is_exact b = true ->
  op_fn o p a b = Ok r -> is_exact r = negb (op_takes_fallback o a b).
Proof. exact op_inexact_iff. Qed.
Print Assumptions C08_op_inexact_iff.

Theorem C08_op_known_fallback_tight : forall o p a b r,
  wfb a = true -> wfb b = true -> is_exact a = true -> is_exact b = true ->
  op_known_fallback o a b = true -> op_fn o p a b = Ok r ->
  is_exact r = false /\
  exists x, wfb x = true /\ is_exact x = true /\ (qv x == op_q o (qv a) (qv b))%Q.
Proof. exact op_known_fallback_tight. Qed.
Print Assumptions C08_op_known_fallback_tight.

(* C08_full for + - * (op_fn o = num_add / num_sub / num_mul, op_q o = Qplus / Qminus / Qmult)
   on the complement of the decidable defect class: the operation is total, the result is
   well-formed, an exact result is the true value, an inexact result is justified *)
Theorem C08_full_addsubmul_outside : forall o p a b,
  wfb a = true -> wfb b = true -> is_exact a = true -> is_exact b = true ->
  op_known_fallback o a b = false ->
  exists r, op_fn o p a b = Ok r /\ wfb r = true /\
    (is_exact r = true -> (qv r == op_q o (qv a) (qv b))%Q) /\
    (is_exact r = false ->
     forall x, wfb x = true -> is_exact x = true -> ~ (qv x == op_q o (qv a) (qv b))%Q).
Proof. exact op_full_outside. Qed.
Print Assumptions C08_full_addsubmul_outside.

Theorem C08_ratio_checked_mul_none_iff : forall p w a b, 2 <= w -> rok w a -> rok w b ->
  if mul_fits w a b then exists r, rchecked_mul p w a b = Ok (Some r)
  else rchecked_mul p w a b = Ok None.
Proof. exact rchecked_mul_fits. Qed.
Print Assumptions C08_ratio_checked_mul_none_iff.

(* ---- / : the Debug build panics (class ratio32-overflow-panic), or the result exists in both
   profiles and is inexact exactly on the explicit conditions [div_takes_fallback] (operands
   outside i32; checked_div = None, given as the pure function [div_pure]) *)
Theorem C08_div_outcome : forall p a b,
  wfb a = true -> wfb b = true -> is_exact a = true -> is_exact b = true -> ~ (qv b == 0)%Q ->
  (exists s, num_div Debug a b = Panic s) \/
  exists r, num_div p a b = Ok r /\ is_exact r = negb (div_takes_fallback a b).
Proof. exact div_outcome. Qed.
Print Assumptions C08_div_outcome.

Theorem C08_div_known_fallback_tight : forall p a b r,
  wfb a = true -> wfb b = true -> is_exact a = true -> is_exact b = true -> ~ (qv b == 0)%Q ->
  (forall s, num_div Debug a b <> Panic s) ->
  div_known_fallback a b = true -> num_div p a b = Ok r ->
  is_exact r = false /\ exists x, wfb x = true /\ is_exact x = true /\ (qv x == qv a / qv b)%Q.
Proof. exact div_known_fallback_tight. Qed.
Print Assumptions C08_div_known_fallback_tight.

(* ---- C08_full, word for word, for all four operators and both profiles, with ONE extra
   hypothesis: the operand pair is outside the decidable class [known] of its operator
   (+ - *: fallback although representable; /: that, or the Debug build panics).  The classes
   are the recorded findings ratio32-overflow-panic, float-fallback-representable and
   bigint-small-repr-dependence; by the *_tight theorems every member of the fallback classes
   really is a defect instance, so the hypothesis cannot be narrowed. *)
Theorem C08_full_outside : forall p (op : profile -> num -> num -> out num) (opq : Q -> Q -> Q)
    (known : num -> num -> bool),
  In (op, opq, known)
     [(num_add, Qplus, op_known_fallback AAdd); (num_sub, Qminus, op_known_fallback ASub);
      (num_mul, Qmult, op_known_fallback AMul); (num_div, Qdiv, div_known)] ->
  forall a b, wfb a = true -> wfb b = true -> is_exact a = true -> is_exact b = true ->
  (opq = Qdiv -> ~ (qv b == 0)%Q) ->
  known a b = false ->
  exists r, op p a b = Ok r /\ wfb r = true /\
    (is_exact r = true -> (qv r == opq (qv a) (qv b))%Q) /\
    (is_exact r = false ->
     forall x, wfb x = true -> is_exact x = true -> ~ (qv x == opq (qv a) (qv b))%Q).
Proof. exact full_outside. Qed.
Print Assumptions C08_full_outside.

(* 2147483648 + -1/1 is the float 2147483647.0 although 2147483647 is a Fixnum *)
Theorem C08_inexact_only_if_refuted : ~ C08_inexact_only_if_stmt.
Proof.
  intros H.
  destruct (addsubmul_total Debug (Fixnum (2 ^ 31)) (Rational (-1) 1) eq_refl eq_refl eq_refl eq_refl)
    as [[r Hr] _].
  pose proof (add_inexact_iff Debug (Fixnum (2 ^ 31)) (Rational (-1) 1) r eq_refl eq_refl eq_refl eq_refl Hr) as X.
  assert (K : add_takes_fallback (Fixnum (2 ^ 31)) (Rational (-1) 1) = true) by (vm_compute; reflexivity).
  rewrite K in X. cbn [negb] in X.
  apply (H Debug (Fixnum (2 ^ 31)) (Rational (-1) 1) r (fun _ _ => false)
           eq_refl eq_refl eq_refl eq_refl eq_refl Hr X (Fixnum (2 ^ 31 - 1)) eq_refl eq_refl).
  vm_compute. reflexivity.
Qed.
Print Assumptions C08_inexact_only_if_refuted.

(* modulo = flooring remainder.  The statement as first written (kept below, now REFUTED) is
   false in one arm: Fixnum modulo an integer-valued Rational (number.rs:870-878 runs the
   remainder on Rational64, then Rational32 + Rational32).  [modulo_known] is exactly that
   class: (1) i64::MIN by -1/1 panics (MIN % -1, both profiles); (2) rem + divisor outside
   i32: checked_add answers None, modulo continues on floats and the result is inexact.
   Outside it the theorem holds for every pair of integer representations, both profiles.
   Two integer-valued Rationals: C08_modulo_exact_rr below. *)
Definition C08_modulo_exact_stmt : Prop := forall p a b za zb,
  wfb a = true -> wfb b = true -> int_of a = Some za -> int_of b = Some zb -> zb <> 0 ->
  both_rational a b = false ->
  exists r, num_modulo p a b = Ok (Some r) /\ int_of r = Some (za mod zb).

Theorem C08_modulo_exact : forall p a b za zb,
  wfb a = true -> wfb b = true -> int_of a = Some za -> int_of b = Some zb -> zb <> 0 ->
  both_rational a b = false -> modulo_known a b = false ->
  exists r, num_modulo p a b = Ok (Some r) /\ int_of r = Some (za mod zb).
Proof. exact modulo_exact. Qed.
Print Assumptions C08_modulo_exact.

(* (modulo 2147483646 2147483647/1) is the float 2147483646.0 in both profiles *)
Theorem C08_modulo_exact_refuted : ~ C08_modulo_exact_stmt.
Proof.
  intros H.
  assert (Nz : 2 ^ 31 - 1 <> 0) by (intros E; discriminate E).
  destruct (H Debug (Fixnum (2 ^ 31 - 2)) (Rational (2 ^ 31 - 1) 1) (2 ^ 31 - 2) (2 ^ 31 - 1)
              eq_refl eq_refl eq_refl eq_refl Nz eq_refl) as [r [Hr Ir]].
  assert (E : inexact_result (match num_modulo Debug (Fixnum (2 ^ 31 - 2)) (Rational (2 ^ 31 - 1) 1) with
                              | Ok (Some x) => Ok x | _ => NoFuel end) = true) by (vm_compute; reflexivity).
  rewrite Hr in E. clear Hr. destruct r as [z|z|n d|f]; cbn in E, Ir; discriminate.
Qed.
Print Assumptions C08_modulo_exact_refuted.

(* the other member of the class: (modulo -9223372036854775808 -1/1) panics in both profiles *)
Theorem C08_modulo_refuted_min : forall p,
  num_modulo p (Fixnum (- 2 ^ 63)) (Rational (-1) 1) = Panic P_DIVOVF.
Proof. intros []; vm_compute; reflexivity. Qed.
Print Assumptions C08_modulo_refuted_min.

(* ---- non-vacuity *)
Example C08_example_mixed :
  num_add Release (Fixnum 5) (Rational 1 2) = Ok (Rational 11 2) /\
  num_mul Debug (Rational (2 ^ 31 - 1) 2) (Fixnum 2) = Ok (Rational (2 ^ 31 - 1) 1) /\
  num_sub Debug (Fixnum (- 2 ^ 63)) (Fixnum 1) = Ok (BigInt (- 2 ^ 63 - 1)) /\
  num_quotient Debug (Fixnum (- 2 ^ 63)) (Fixnum (-1)) = Ok (Some (BigInt (2 ^ 63))) /\
  rchecked_addsub false Debug 32 (1, 3) (1, 6) = Ok (Some (1, 2)) /\
  igcd Debug 32 (- 2 ^ 31) 6 = Ok 2.
Proof. repeat split; vm_compute; reflexivity. Qed.

(* C08_div_exact: the hypotheses hold on negative divisors, BigInt operands, the manual-reduce
   route of checked_div; the excluded class is not empty *)
Example C08_example_div :
  (forall s, num_div Debug (Fixnum 6) (Fixnum (-4)) <> Panic s) /\
  num_div Release (Fixnum 6) (Fixnum (-4)) = Ok (Rational (-3) 2) /\
  (forall s, num_div Debug (Rational 3 4) (Rational (-9) 8) <> Panic s) /\
  num_div Debug (Rational 3 4) (Rational (-9) 8) = Ok (Rational (-2) 3) /\
  num_div Debug (BigInt 10) (Rational 4 3) = Ok (Rational 15 2) /\
  num_div Release (Rational (2 ^ 31 - 1) 2) (Fixnum (2 ^ 31 - 1)) = Ok (Rational 1 2) /\
  (exists s, num_div Debug (Fixnum 0) (Rational (- 2 ^ 31) 3) = Panic s).
Proof.
  repeat split; try (intros s; vm_compute; discriminate); try (vm_compute; reflexivity).
  eexists; vm_compute; reflexivity.
Qed.

(* C08_inexact_only_if: a justified inexact sum (2^32 + 1/2: fallback taken, not representable,
   so the hypotheses of the theorem hold), and members of the defect class *)
Example C08_example_inexact :
  add_takes_fallback (Fixnum (2 ^ 32)) (Rational 1 2) = true /\
  add_known_fallback (Fixnum (2 ^ 32)) (Rational 1 2) = false /\
  inexact_result (num_add Debug (Fixnum (2 ^ 32)) (Rational 1 2)) = true /\
  add_known_fallback (Rational (2 ^ 31 - 1) 2) (Rational (2 ^ 31 - 1) 3) = false /\
  inexact_result (num_add Release (Rational (2 ^ 31 - 1) 2) (Rational (2 ^ 31 - 1) 3)) = true /\
  add_known_fallback (Fixnum (2 ^ 31)) (Rational (-1) 1) = true /\
  add_known_fallback (BigInt 5) (Rational 1 2) = true /\
  add_known_fallback (Rational (2 ^ 31 - 1) 1) (Rational 1 1) = true /\
  add_takes_fallback (Fixnum 5) (Rational 1 2) = false.
Proof. repeat split; vm_compute; reflexivity. Qed.

(* C08_full_addsubmul_outside / C08_op_*: for * and -, a justified fallback (outside the class,
   inexact), the witness of C08_refuted_float_fallback inside the class, exact cases outside *)
Example C08_example_ops :
  op_takes_fallback AMul (Fixnum (2 ^ 32)) (Rational 1 3) = true /\
  op_known_fallback AMul (Fixnum (2 ^ 32)) (Rational 1 3) = false /\
  inexact_result (num_mul Debug (Fixnum (2 ^ 32)) (Rational 1 3)) = true /\
  op_known_fallback AMul (Fixnum (2 ^ 32)) (Rational 1 2) = true /\
  op_known_fallback ASub (Rational 1 2) (Fixnum (2 ^ 31)) = false /\
  inexact_result (num_sub Release (Rational 1 2) (Fixnum (2 ^ 31))) = true /\
  op_known_fallback ASub (Rational (- 2 ^ 31) 1) (Fixnum 1) = true /\
  op_takes_fallback ASub (Rational 7 2) (Fixnum 3) = false /\
  num_sub Debug (Rational 7 2) (Fixnum 3) = Ok (Rational 1 2) /\
  op_takes_fallback AMul (Rational (2 ^ 31 - 1) 2) (Fixnum 2) = false.
Proof. repeat split; vm_compute; reflexivity. Qed.

(* C08_full_outside on / : outside the class with an exact result, outside with a justified
   inexact result ((/ 4294967296 3)), inside by fallback ((/ 4294967296 2)), inside by panic *)
Example C08_example_div_full :
  div_known (Fixnum 6) (Fixnum (-4)) = false /\ div_takes_fallback (Fixnum 6) (Fixnum (-4)) = false /\
  div_known (Fixnum (2 ^ 32)) (Fixnum 3) = false /\
  inexact_result (num_div Debug (Fixnum (2 ^ 32)) (Fixnum 3)) = true /\
  div_known_fallback (Fixnum (2 ^ 32)) (Fixnum 2) = true /\
  div_known (Rational 1 (2 ^ 31 - 1)) (Rational 2 3) = false /\
  inexact_result (num_div Release (Rational 1 (2 ^ 31 - 1)) (Rational 2 3)) = true /\
  div_debug_panics (Fixnum 1) (Fixnum (- 2 ^ 31)) = true /\
  div_known (Rational 3 4) (Rational (-9) 8) = false.
Proof. repeat split; vm_compute; reflexivity. Qed.

(* C08_modulo_exact: hypotheses satisfiable on each interesting arm, incl. Fixnum by n/1 *)
Example C08_example_modulo :
  modulo_known (Fixnum (-7)) (Rational 3 1) = false /\
  num_modulo Debug (Fixnum (-7)) (Rational 3 1) = Ok (Some (Rational 2 1)) /\
  modulo_known (Fixnum (- 2 ^ 63)) (Fixnum (-1)) = false /\
  num_modulo Release (Fixnum (- 2 ^ 63)) (Fixnum (-1)) = Ok (Some (Fixnum 0)) /\
  num_modulo Debug (BigInt (2 ^ 70 + 2)) (Rational (-5) 1) = Ok (Some (BigInt (-4))) /\
  num_modulo Release (Fixnum (2 ^ 40 + 1)) (Rational (- 2 ^ 31) 1) = Ok (Some (Rational (- 2 ^ 31 + 1) 1)) /\
  modulo_known (Fixnum (2 ^ 31 - 2)) (Rational (2 ^ 31 - 1) 1) = true /\
  rem_known (Fixnum (-7)) (Rational 3 1) = false /\
  num_rem Debug (Fixnum (-7)) (Rational 3 1) = Ok (Some (Rational (-1) 1)).
Proof. repeat split; vm_compute; reflexivity. Qed.


(* ========================================================================================
   Work package c08b: abs numerator denominator / floor ceiling truncate round / expt / the
   variadic procedures / quotient remainder modulo of two integer-valued Rationals.
   Shape of every group: [x_known] is the decidable, spelled-out class of operands on which the
   Debug build panics (an i32 overflow inside a num-rational primitive = the recorded finding
   ratio32-overflow-panic); outside it the result exists in BOTH profiles, is exact,
   well-formed and is the true value; "Debug panics <-> class" is a theorem.  None of the unary
   operations ever answers an inexact number on an exact operand.
   ======================================================================================== *)

(* ---- 1. abs, numerator, denominator *)
(* class: a Rational whose numerator is i32::MIN (Ratio::abs negates it) *)
Theorem C08_abs_exact : forall p a, wfb a = true -> is_exact a = true -> abs_known a = false ->
  exists r, num_abs p a = Ok r /\ is_exact r = true /\ wfb r = true /\ (qv r == Qabs (qv a))%Q.
Proof. exact abs_exact. Qed.
Print Assumptions C08_abs_exact.

Theorem C08_abs_debug_panics_iff : forall a, wfb a = true -> is_exact a = true ->
  ((exists s, num_abs Debug a = Panic s) <-> abs_known a = true).
Proof. exact abs_debug_panics_iff. Qed.
Print Assumptions C08_abs_debug_panics_iff.

(* inside the class the Release build returns its negative operand: a wrong exact value *)
Theorem C08_abs_known_outcome : forall a, wfb a = true -> abs_known a = true ->
  num_abs Debug a = Panic P_OVERFLOW /\ num_abs Release a = Ok a /\ (qv a < 0)%Q.
Proof. exact abs_known_outcome. Qed.
Print Assumptions C08_abs_known_outcome.

(* numerator / denominator: exact integers n, d > 0 in lowest terms with value n/d; total,
   profile independent *)
Theorem C08_numden_exact : forall a, wfb a = true -> is_exact a = true ->
  exists n d, int_of (num_numerator a) = Some n /\ int_of (num_denominator a) = Some d /\
    wfb (num_numerator a) = true /\ wfb (num_denominator a) = true /\
    is_exact (num_numerator a) = true /\ is_exact (num_denominator a) = true /\
    0 < d /\ Z.gcd n d = 1 /\ (qv a == n # Z.to_pos d)%Q.
Proof. exact numden_exact. Qed.
Print Assumptions C08_numden_exact.

Example C08_example_abs_numden :
  abs_known (Rational (-7) 3) = false /\ num_abs Release (Rational (-7) 3) = Ok (Rational 7 3) /\
  num_abs Debug (Fixnum (- 2 ^ 63)) = Ok (BigInt (2 ^ 63)) /\
  abs_known (Rational (- 2 ^ 31) 3) = true /\
  num_numerator (Rational (-7) 3) = Fixnum (-7) /\ num_denominator (Rational (-7) 3) = Fixnum 3 /\
  num_denominator (BigInt (2 ^ 70)) = Fixnum 1.
Proof. repeat split; vm_compute; reflexivity. Qed.

(* ---- 2. floor ceiling truncate round.  Specifications: Qfloor / Qceiling of the standard
   library, Qtruncate x = numerator quot denominator (= rounding toward zero,
   C08_truncate_toward_zero), Qround_away x = sign(x) * floor(|x| + 1/2). *)
Theorem C08_truncate_exact : forall a, wfb a = true -> is_exact a = true ->
  exists r, num_truncate a = Ok r /\ is_exact r = true /\ wfb r = true /\
    int_of r = Some (Qtruncate (qv a)).
Proof. exact truncate_exact. Qed.
Print Assumptions C08_truncate_exact.

Theorem C08_truncate_toward_zero : forall x,
  Qtruncate x = if Qnum x <? 0 then Qceiling x else Qfloor x.
Proof. exact Qtruncate_spec. Qed.
Print Assumptions C08_truncate_toward_zero.

(* floor class: negative Rational n/d with n - d < i32::MIN  (nr:181-190 computes n - d + 1) *)
Theorem C08_floor_exact : forall p a, wfb a = true -> is_exact a = true -> floor_known a = false ->
  exists r, num_floor p a = Ok r /\ is_exact r = true /\ wfb r = true /\
    int_of r = Some (Qfloor (qv a)).
Proof. exact floor_exact. Qed.
Print Assumptions C08_floor_exact.

Theorem C08_floor_debug_panics_iff : forall a, wfb a = true -> is_exact a = true ->
  ((exists s, num_floor Debug a = Panic s) <-> floor_known a = true).
Proof. exact floor_debug_panics_iff. Qed.
Print Assumptions C08_floor_debug_panics_iff.

(* ceiling class: non-negative Rational n/d with n + d > i32::MAX  (nr:194-204: n + d - 1) *)
Theorem C08_ceiling_exact : forall p a, wfb a = true -> is_exact a = true -> ceil_known a = false ->
  exists r, num_ceil p a = Ok r /\ is_exact r = true /\ wfb r = true /\
    int_of r = Some (Qceiling (qv a)).
Proof. exact ceil_exact. Qed.
Print Assumptions C08_ceiling_exact.

Theorem C08_ceiling_debug_panics_iff : forall a, wfb a = true -> is_exact a = true ->
  ((exists s, num_ceil Debug a = Panic s) <-> ceil_known a = true).
Proof. exact ceil_debug_panics_iff. Qed.
Print Assumptions C08_ceiling_debug_panics_iff.

(* round: NO class — never panics, never overflows on a well-formed operand, both profiles;
   the value is round-half-AWAY-FROM-ZERO *)
Theorem C08_round_exact : forall p a, wfb a = true -> is_exact a = true ->
  exists r, num_round p a = Ok r /\ is_exact r = true /\ wfb r = true /\
    int_of r = Some (Qround_away (qv a)).
Proof. exact round_exact. Qed.
Print Assumptions C08_round_exact.

(* FINDING round-half-away (noted "kept as is" by the num package; here machine-checked):
   R7RS 6.2.6 `round` rounds to even on a tie; (round 5/2) answers 3 (R7RS: 2), (round 1/2) 1
   (R7RS: 0), (round -5/2) -3 (R7RS: -2); (round 7/2) = 4 agrees.  Qround_even is the R7RS
   function.  The model follows num-rational's Ratio::round ("Rounds half-way cases away from
   zero", nr:208) which number.rs:289 calls. *)
Theorem C08_round_differs_r7rs : forall p,
  num_round p (Rational 5 2) = Ok (Rational 3 1) /\ Qround_even (qv (Rational 5 2)) = 2 /\
  num_round p (Rational 1 2) = Ok (Rational 1 1) /\ Qround_even (qv (Rational 1 2)) = 0 /\
  num_round p (Rational (-5) 2) = Ok (Rational (-3) 1) /\ Qround_even (qv (Rational (-5) 2)) = -2 /\
  num_round p (Rational 7 2) = Ok (Rational 4 1) /\ Qround_even (qv (Rational 7 2)) = 4.
Proof. exact round_differs_r7rs. Qed.
Print Assumptions C08_round_differs_r7rs.

(* ... and that is the whole difference: the answer is the R7RS value exactly outside the decidable
   class [round_r7rs_known] = a Rational n/2 whose truncation n quot 2 is even (1/2, 5/2, -5/2,
   9/2 ...; not 3/2, 7/2) *)
Theorem C08_round_r7rs_iff : forall p a, wfb a = true -> is_exact a = true ->
  exists r z, num_round p a = Ok r /\ int_of r = Some z /\
    (z = Qround_even (qv a) <-> round_r7rs_known a = false).
Proof. exact round_r7rs_iff. Qed.
Print Assumptions C08_round_r7rs_iff.

Example C08_example_round_r7rs :
  round_r7rs_known (Rational 5 2) = true /\ round_r7rs_known (Rational (-5) 2) = true /\
  round_r7rs_known (Rational 7 2) = false /\ round_r7rs_known (Rational (-3) 2) = false /\
  round_r7rs_known (Rational 5 3) = false /\ round_r7rs_known (Fixnum 4) = false.
Proof. repeat split; vm_compute; reflexivity. Qed.

(* the builtin procedures abs floor ceiling truncate round numerator denominator are these
   functions applied to their single argument *)
Theorem C08_unary_builtin : forall u p x,
  b_unary u p [ANum x] = do r <- unop_fn u p x; Ok (RNum r).
Proof. exact b_unary_num. Qed.
Print Assumptions C08_unary_builtin.

Example C08_example_rounding :
  floor_known (Rational (-7) 2) = false /\ num_floor Debug (Rational (-7) 2) = Ok (Rational (-4) 1) /\
  ceil_known (Rational (-7) 2) = false /\ num_ceil Debug (Rational (-7) 2) = Ok (Rational (-3) 1) /\
  num_ceil Release (Rational 7 2) = Ok (Rational 4 1) /\
  num_truncate (Rational (-7) 2) = Ok (Rational (-3) 1) /\
  num_round Debug (Rational (-7) 3) = Ok (Rational (-2) 1) /\
  num_round Release (Rational (2 ^ 31 - 1) 2) = Ok (Rational (2 ^ 30) 1) /\
  (* members of the classes, with the wrong exact values of the Release build *)
  floor_known (Rational (- 2 ^ 31) 3) = true /\
  num_floor Release (Rational (- 2 ^ 31) 3) = Ok (Rational 715827882 1) /\
  floor_known (Rational (- 2 ^ 31) 1) = true /\
  ceil_known (Rational (2 ^ 31 - 1) 2) = true /\
  num_ceil Release (Rational (2 ^ 31 - 1) 2) = Ok (Rational (-1073741824) 1) /\
  b_unary UFloor Debug [ANum (Rational (-7) 2)] = Ok (RNum (Rational (-4) 1)).
Proof. repeat split; vm_compute; reflexivity. Qed.

(* ---- 3. expt.  i32::pow / i64::pow as ported (square-and-multiply, every product checked):
   the power when it fits, else the Debug build panics; checked_pow = Some exactly when it fits.
   [nonsq w]: 2^(w-1) is not a perfect square (C08_nonsq: true for 32 and 64) *)
Theorem C08_int_pow : forall p w b e, 2 <= w -> nonsq w -> 0 <= e <= POW_EXP_MAX ->
  ipow p w b e =
  if in_int w (b ^ e) then Ok (b ^ e)
  else match p with Debug => Panic P_OVERFLOW | Release => ipow Release w b e end.
Proof. exact ipow_spec. Qed.
Print Assumptions C08_int_pow.

Theorem C08_checked_pow : forall w b e, 2 <= w -> nonsq w -> 0 <= e <= POW_EXP_MAX ->
  ichecked_pow w b e = if in_int w (b ^ e) then Some (b ^ e) else None.
Proof. exact ichecked_pow_spec. Qed.
Print Assumptions C08_checked_pow.

Theorem C08_nonsq : nonsq 32 /\ nonsq 64.
Proof. exact (conj nonsq32 nonsq64). Qed.
Print Assumptions C08_nonsq.

(* Fixnum base: a Fixnum exactly when the power fits i64, else the BigInt; never a panic *)
Theorem C08_expt_fixnum : forall p z e, 0 <= e <= U32_MAX ->
  num_pow p (Fixnum z) e = Ok (if in_i64 (z ^ e) then Fixnum (z ^ e) else BigInt (z ^ e)).
Proof. exact pow_fixnum. Qed.
Print Assumptions C08_expt_fixnum.

(* any exact base, u32 exponent.  [pow_known]: Rational n/d, e <= i32::MAX and n^e or d^e
   outside i32; [pow_libm]: Rational base and e > i32::MAX (number.rs:332 calls powf: libm is
   not modelled, the model answers Err E_LIBM: C08_expt_libm) *)
Theorem C08_expt_exact : forall p a e, wfb a = true -> is_exact a = true -> 0 <= e <= U32_MAX ->
  pow_known a e = false -> pow_libm a e = false ->
  exists r, num_pow p a e = Ok r /\ is_exact r = true /\ wfb r = true /\ (qv r == qv a ^ e)%Q.
Proof. exact pow_exact. Qed.
Print Assumptions C08_expt_exact.

Theorem C08_expt_debug_panics_iff : forall a e, wfb a = true -> is_exact a = true -> 0 <= e <= U32_MAX ->
  ((exists s, num_pow Debug a e = Panic s) <-> pow_known a e = true).
Proof. exact pow_debug_panics_iff. Qed.
Print Assumptions C08_expt_debug_panics_iff.

Theorem C08_expt_libm : forall p a e, pow_libm a e = true -> num_pow p a e = Err E_LIBM.
Proof. exact pow_libm_outcome. Qed.
Print Assumptions C08_expt_libm.

(* the builtin: an exact integer exponent in any representation (Fixnum, BigInt, k/1) whose value
   is a u32 reaches Number::pow; any other integer exponent is an error, never a value *)
Theorem C08_expt_builtin : forall p x e k, wfb e = true -> int_of e = Some k -> 0 <= k <= U32_MAX ->
  b_expt p [ANum x; ANum e] = do r <- num_pow p x k; Ok (RNum r).
Proof. exact b_expt_num. Qed.
Print Assumptions C08_expt_builtin.

Theorem C08_expt_out_of_range : forall p x e k, wfb e = true -> int_of e = Some k ->
  ~ (0 <= k <= U32_MAX) -> b_expt p [ANum x; ANum e] = Err E_OTHER.
Proof. exact b_expt_out_of_range. Qed.
Print Assumptions C08_expt_out_of_range.

Example C08_example_expt :
  num_pow Debug (Fixnum (-2)) 63 = Ok (Fixnum (- 2 ^ 63)) /\
  num_pow Debug (Fixnum 2) 63 = Ok (BigInt (2 ^ 63)) /\
  num_pow Release (Fixnum 3) 40 = Ok (BigInt 12157665459056928801) /\
  pow_known (Rational (-2) 3) 19 = false /\
  num_pow Debug (Rational (-2) 3) 19 = Ok (Rational (-524288) 1162261467) /\
  pow_known (Rational (-2) 3) 20 = true /\
  pow_known (Rational 1 2) 40 = true /\
  (* the Release build inside the class: the ill-formed exact 1/0 *)
  num_pow Release (Rational 1 2) 40 = Ok (Rational 1 0) /\
  b_expt Debug [ANum (Rational 2 3); ANum (Rational 3 1)] = Ok (RNum (Rational 8 27)) /\
  b_expt Release [ANum (Fixnum 2); ANum (BigInt 100)] = Ok (RNum (BigInt (2 ^ 100))) /\
  pow_libm (Rational 1 1) (2 ^ 31) = true.
Proof. repeat split; vm_compute; reflexivity. Qed.

(* ---- 4. the variadic procedures on exact well-formed arguments ([exact_wf]).  An inexact
   accumulator stays inexact, so an exact final result means that every step was exact; then it is
   the n-ary operation.  Qsum / Qprod: fold_right Qplus 0 / Qmult 1. *)
Theorem C08_plus_exact : forall p l r, Forall exact_wf l ->
  b_plus p (map ANum l) = Ok (RNum r) -> is_exact r = true ->
  wfb r = true /\ (qv r == Qsum (map qv l))%Q.
Proof. exact plus_exact. Qed.
Print Assumptions C08_plus_exact.

Theorem C08_plus_total : forall p l, Forall exact_wf l -> exists r, b_plus p (map ANum l) = Ok (RNum r).
Proof. exact plus_total. Qed.
Print Assumptions C08_plus_total.

Theorem C08_multiply_exact : forall p l r, Forall exact_wf l ->
  b_multiply p (map ANum l) = Ok (RNum r) -> is_exact r = true ->
  wfb r = true /\ (qv r == Qprod (map qv l))%Q.
Proof. exact multiply_exact. Qed.
Print Assumptions C08_multiply_exact.

Theorem C08_multiply_total : forall p l, Forall exact_wf l ->
  exists r, b_multiply p (map ANum l) = Ok (RNum r).
Proof. exact multiply_total. Qed.
Print Assumptions C08_multiply_total.

(* (- a) = -a, (- a b c ...) = a - (b + c + ...) : Qminus_nary *)
Theorem C08_minus_exact : forall p a others r, exact_wf a -> Forall exact_wf others ->
  b_minus p (map ANum (a :: others)) = Ok (RNum r) -> is_exact r = true ->
  wfb r = true /\ (qv r == Qminus_nary (qv a) (map qv others))%Q.
Proof. exact minus_exact. Qed.
Print Assumptions C08_minus_exact.

(* / takes one or two arguments (builtin/number.rs:209-226); an exact zero divisor is an error *)
Theorem C08_divide_exact : forall p x y r, exact_wf x -> exact_wf y -> ~ (qv y == 0)%Q ->
  (forall s, num_div Debug x y <> Panic s) ->
  b_divide p [ANum x; ANum y] = Ok (RNum r) -> is_exact r = true ->
  wfb r = true /\ (qv r * qv y == qv x)%Q.
Proof. exact divide_exact. Qed.
Print Assumptions C08_divide_exact.

Theorem C08_reciprocal_exact : forall p y r, exact_wf y -> ~ (qv y == 0)%Q ->
  (forall s, num_div Debug (Fixnum 1) y <> Panic s) ->
  b_divide p [ANum y] = Ok (RNum r) -> is_exact r = true ->
  wfb r = true /\ (qv r * qv y == 1)%Q.
Proof. exact reciprocal_exact. Qed.
Print Assumptions C08_reciprocal_exact.

Theorem C08_divide_zero : forall p x y, exact_wf y -> (qv y == 0)%Q ->
  b_divide p [ANum x; ANum y] = Err E_OTHER /\ b_divide p [ANum y] = Err E_OTHER.
Proof. exact b_divide_zero. Qed.
Print Assumptions C08_divide_zero.

(* the builtin / is Number::div on its operands, so C08_div_outcome / C08_full_outside apply *)
Theorem C08_divide_builtin : forall p x y, exact_wf y -> ~ (qv y == 0)%Q ->
  b_divide p [ANum x; ANum y] = (do r <- num_div p x y; Ok (RNum r)) /\
  b_divide p [ANum y] = (do r <- num_div p (Fixnum 1) y; Ok (RNum r)).
Proof. intros p x y H N. exact (conj (b_divide_2 p x y H N) (b_divide_1 p y H N)). Qed.
Print Assumptions C08_divide_builtin.

(* min / max of n >= 2 exact arguments: one of the arguments (hence exact and well-formed; no
   representation change) bounding all of them; total in both profiles *)
Theorem C08_minmax_nary : forall (is_max : bool) p l, (2 <= length l)%nat -> Forall exact_wf l ->
  exists m, b_minmax is_max p (map ANum l) = Ok (RNum m) /\ In m l /\
    Forall (fun x => mm_le is_max x m) l.
Proof. exact minmax_nary. Qed.
Print Assumptions C08_minmax_nary.

(* member of float-fallback-representable that exists only for folds: every step of
   (+ 1/2 1/2 4294967296) is justified (2^32 + 1/2 is not representable), the final sum
   4294967297 is a Fixnum, the result is the float 4294967297.0 — in both profiles *)
Theorem C08_plus_fold_inexact_representable : forall p,
  inexact_res (b_plus p [ANum (Rational 1 2); ANum (Rational 1 2); ANum (Fixnum (2 ^ 32))]) = true /\
  (qv (Fixnum (2 ^ 32 + 1)) == Qsum (map qv [Rational 1 2; Rational 1 2; Fixnum (2 ^ 32)]))%Q /\
  wfb (Fixnum (2 ^ 32 + 1)) = true.
Proof. exact plus_fold_inexact_representable. Qed.
Print Assumptions C08_plus_fold_inexact_representable.

Example C08_example_folds :
  b_plus Debug [ANum (BigInt (2 ^ 70)); ANum (Rational 1 2); ANum (Fixnum 3); ANum (Rational 1 2)]
    = Ok (RNum (BigInt (2 ^ 70 + 4))) /\
  b_multiply Debug [ANum (Rational 2 3); ANum (Fixnum 3); ANum (Rational 5 2)] = Ok (RNum (Rational 5 1)) /\
  b_minus Debug [ANum (Rational 2 3); ANum (Fixnum 3); ANum (Rational 5 3)] = Ok (RNum (Rational (-4) 1)) /\
  b_minus Release [ANum (Rational 2 3)] = Ok (RNum (Rational (-2) 3)) /\
  b_divide Release [ANum (Rational 2 3)] = Ok (RNum (Rational 3 2)) /\
  b_divide Release [ANum (Fixnum 6); ANum (Rational (-4) 3)] = Ok (RNum (Rational (-9) 2)) /\
  b_minmax true Release [ANum (Fixnum 6); ANum (Rational 13 2); ANum (BigInt 5)] = Ok (RNum (Rational 13 2)) /\
  b_minmax false Debug [ANum (Fixnum 6); ANum (Rational 13 2); ANum (BigInt 5); ANum (Rational 11 2)]
    = Ok (RNum (BigInt 5)) /\
  exact_wf (Rational 13 2) /\ exact_wf (BigInt 5).
Proof. repeat split; vm_compute; reflexivity. Qed.

(* ---- 5. quotient / remainder / modulo of TWO integer-valued Rationals (ln/1 by rn/1): the pair
   excluded by [both_rational a b = false] from C08_quotient_exact, C08_remainder_exact_gen,
   C08_modulo_exact.  quotient class [quotient_rr_known], g = gcd(ln, rn):
   rn = MIN and ln in {0, MIN} (|MIN| in Integer::gcd), or rn < 0 and ln/g = MIN or rn/g = MIN
   (Ratio::new negates both components: e.g. MIN/1 by -1/1).  Panics in Debug; the Release build
   answers MIN for (quotient MIN/1 -1/1) — a wrong exact value (example below). *)
Theorem C08_quotient_exact_rr : forall p a b za zb,
  wfb a = true -> wfb b = true -> int_of a = Some za -> int_of b = Some zb -> zb <> 0 ->
  both_rational a b = true -> quotient_rr_known a b = false ->
  exists r, num_quotient p a b = Ok (Some r) /\ int_of r = Some (Z.quot za zb) /\ wfb r = true.
Proof. exact quotient_exact_rr. Qed.
Print Assumptions C08_quotient_exact_rr.

Theorem C08_quotient_rr_debug_panics_iff : forall a b za zb,
  wfb a = true -> wfb b = true -> int_of a = Some za -> int_of b = Some zb -> zb <> 0 ->
  both_rational a b = true ->
  ((exists s, num_quotient Debug a b = Panic s) <-> quotient_rr_known a b = true).
Proof. exact quotient_rr_debug_panics_iff. Qed.
Print Assumptions C08_quotient_rr_debug_panics_iff.

(* remainder: the only excluded pair is MIN/1 by -1/1, which panics in BOTH profiles *)
Theorem C08_remainder_exact_rr : forall p a b za zb,
  wfb a = true -> wfb b = true -> int_of a = Some za -> int_of b = Some zb -> zb <> 0 ->
  both_rational a b = true -> rem_rr_known a b = false ->
  exists r, num_rem p a b = Ok (Some r) /\ int_of r = Some (Z.rem za zb) /\ wfb r = true.
Proof. exact remainder_exact_rr. Qed.
Print Assumptions C08_remainder_exact_rr.

Theorem C08_remainder_rr_known_panics : forall p a b, rem_rr_known a b = true ->
  wfb a = true -> wfb b = true -> both_rational a b = true ->
  forall za zb, int_of a = Some za -> int_of b = Some zb -> num_rem p a b = Panic P_DIVOVF.
Proof. exact remainder_rr_known_panics. Qed.
Print Assumptions C08_remainder_rr_known_panics.

(* modulo: class = that pair, or rem + divisor outside i32 (checked_add = None: the result is then
   inexact, never a wrong exact value: C08_modulo_rr_known_inexact) *)
Theorem C08_modulo_exact_rr : forall p a b za zb,
  wfb a = true -> wfb b = true -> int_of a = Some za -> int_of b = Some zb -> zb <> 0 ->
  both_rational a b = true -> modulo_rr_known a b = false ->
  exists r, num_modulo p a b = Ok (Some r) /\ int_of r = Some (za mod zb) /\ wfb r = true.
Proof. exact modulo_exact_rr. Qed.
Print Assumptions C08_modulo_exact_rr.

Theorem C08_modulo_rr_known_inexact : forall p a b za zb,
  wfb a = true -> wfb b = true -> int_of a = Some za -> int_of b = Some zb -> zb <> 0 ->
  both_rational a b = true -> rem_rr_known a b = false -> modulo_rr_known a b = true ->
  exists o, num_modulo p a b = Ok o /\ forall r, o = Some r -> is_exact r = false.
Proof. exact modulo_rr_known_inexact. Qed.
Print Assumptions C08_modulo_rr_known_inexact.

Example C08_example_int_rationals :
  quotient_rr_known (Rational (-7) 1) (Rational 2 1) = false /\
  num_quotient Debug (Rational (-7) 1) (Rational 2 1) = Ok (Some (Rational (-3) 1)) /\
  quotient_rr_known (Rational (- 2 ^ 31) 1) (Rational (-2) 1) = false /\
  num_quotient Debug (Rational (- 2 ^ 31) 1) (Rational (-2) 1) = Ok (Some (Rational (2 ^ 30) 1)) /\
  quotient_rr_known (Rational (- 2 ^ 31) 1) (Rational (-1) 1) = true /\
  num_quotient Release (Rational (- 2 ^ 31) 1) (Rational (-1) 1) = Ok (Some (Rational (- 2 ^ 31) 1)) /\
  quotient_rr_known (Rational 3 1) (Rational (- 2 ^ 31) 1) = true /\
  num_rem Release (Rational (-7) 1) (Rational 2 1) = Ok (Some (Rational (-1) 1)) /\
  modulo_rr_known (Rational (-7) 1) (Rational 2 1) = false /\
  num_modulo Debug (Rational (-7) 1) (Rational 2 1) = Ok (Some (Rational 1 1)) /\
  num_modulo Release (Rational 7 1) (Rational (-2) 1) = Ok (Some (Rational (-1) 1)) /\
  modulo_rr_known (Rational (2 ^ 31 - 2) 1) (Rational (2 ^ 31 - 1) 1) = true /\
  rem_rr_known (Rational (2 ^ 31 - 2) 1) (Rational (2 ^ 31 - 1) 1) = false.
Proof. repeat split; vm_compute; reflexivity. Qed.
