(* C08 — exact arithmetic is exact (statements filled in below). *)
From MW Require Import Model.Base Model.Num Model.Ratio32 Model.NumArith.
Open Scope Z_scope.

Example C08_example_sum : num_add Debug (Fixnum 5) (Rational 1 2) = Ok (Rational 11 2).
Proof. vm_compute. reflexivity. Qed.
