(* C08 — exact arithmetic is exact; inexactness is never silently dropped.
   Only statements, each closed by [exact] of a lemma proved in Proofs/, with its
   assumptions printed.  The model is Model/NumArith.v (number.rs, builtin/number.rs)
   over Model/Ratio32.v (num-rational / num-integer on Ratio<i32>); ⟦x⟧ = [qv x] : Q,
   well-formedness = [wfb] (i64 range; reduced Ratio<i32> with positive denominator;
   a BigInt may carry a small value), exactness = [is_exact].  [p] is the build
   profile (Debug: overflow panics, Release: wraps): theorems hold for both.      *)
From Coq Require Import ZArith QArith List.
From MW Require Import Model.Base Model.F64 Model.Num Model.Ratio32 Model.NumArith Model.NumSpec
  Proofs.GcdProofs Proofs.Ratio32Proofs Proofs.NumProofs Proofs.NumDivProofs Proofs.NumInexactProofs.
Import ListNotations.
Open Scope Z_scope.

(* ---- the full-strength statement (false on the pinned tree: see the refutations) *)
Definition C08_full : Prop :=
  forall p (op : profile -> num -> num -> out num) (opq : Q -> Q -> Q),
    In (op, opq) [(num_add, Qplus); (num_sub, Qminus); (num_mul, Qmult); (num_div, Qdiv)] ->
    forall a b, wfb a = true -> wfb b = true -> is_exact a = true -> is_exact b = true ->
    (opq = Qdiv -> ~ (qv b == 0)%Q) ->
    exists r, op p a b = Ok r /\ wfb r = true /\
      (is_exact r = true -> (qv r == opq (qv a) (qv b))%Q) /\
      (is_exact r = false -> forall x, wfb x = true -> is_exact x = true -> ~ (qv x == opq (qv a) (qv b))%Q).

(* ---- num-integer / num-rational on Ratio<i32> (and Ratio<i64>) against Z and Q *)

(* Stein's binary gcd as ported = Z.gcd, for every pair whose gcd is representable
   (i.e. except gcd(MIN,0), gcd(0,MIN), gcd(MIN,MIN), where the code panics/wraps) *)
Theorem C08_ratio_gcd : forall p w m n, 2 <= w ->
  in_int w m = true -> in_int w n = true -> gcd_safe w m n ->
  igcd p w m n = Ok (Z.gcd m n).
Proof. exact igcd_spec. Qed.
Print Assumptions C08_ratio_gcd.

(* Ratio::new on a positive denominator: lowest terms, same value, never panics *)
Theorem C08_ratio_reduce : forall p w n d, 2 <= w -> in_int w n = true -> in_int w d = true -> 0 < d ->
  exists n' d', rreduce p w (n, d) = Ok (n', d') /\ rwf w (n', d') /\ n' * d = n * d'.
Proof. exact rreduce_pos. Qed.
Print Assumptions C08_ratio_reduce.

(* checked_add / checked_sub: None, or the reduced exact sum / difference *)
Theorem C08_ratio_checked_addsub : forall (sub : bool) p w a b, 2 <= w -> rok w a -> rok w b ->
  rchecked_addsub sub p w a b = Ok None \/
  exists r, rchecked_addsub sub p w a b = Ok (Some r) /\ rwf w r /\
            (rq r == if sub then rq a - rq b else rq a + rq b)%Q.
Proof. exact rchecked_addsub_spec. Qed.
Print Assumptions C08_ratio_checked_addsub.

Theorem C08_ratio_checked_mul : forall p w a b, 2 <= w -> rok w a -> rok w b ->
  rchecked_mul p w a b = Ok None \/
  exists r, rchecked_mul p w a b = Ok (Some r) /\ rwf w r /\ (rq r == rq a * rq b)%Q.
Proof. exact rchecked_mul_spec. Qed.
Print Assumptions C08_ratio_checked_mul.

(* ---- op_exact: an exact result never differs from the true value and is well-formed;
   all 9 exact representation pairs (Fixnum / BigInt / Rational, incl. a BigInt carrying a
   small value and integer-valued n/1), both profiles *)
Theorem C08_add_exact : forall p a b r,
  wfb a = true -> wfb b = true -> is_exact a = true -> is_exact b = true ->
  num_add p a b = Ok r -> is_exact r = true -> wfb r = true /\ (qv r == qv a + qv b)%Q.
Proof. exact add_exact. Qed.
Print Assumptions C08_add_exact.

Theorem C08_sub_exact : forall p a b r,
  wfb a = true -> wfb b = true -> is_exact a = true -> is_exact b = true ->
  num_sub p a b = Ok r -> is_exact r = true -> wfb r = true /\ (qv r == qv a - qv b)%Q.
Proof. exact sub_exact. Qed.
Print Assumptions C08_sub_exact.

Theorem C08_mul_exact : forall p a b r,
  wfb a = true -> wfb b = true -> is_exact a = true -> is_exact b = true ->
  num_mul p a b = Ok r -> is_exact r = true -> wfb r = true /\ (qv r == qv a * qv b)%Q.
Proof. exact mul_exact. Qed.
Print Assumptions C08_mul_exact.

(* + - * never panic, err or hang on well-formed exact operands *)
Theorem C08_addsubmul_total : forall p a b,
  wfb a = true -> wfb b = true -> is_exact a = true -> is_exact b = true ->
  (exists r, num_add p a b = Ok r) /\ (exists r, num_sub p a b = Ok r) /\ (exists r, num_mul p a b = Ok r).
Proof. exact addsubmul_total. Qed.
Print Assumptions C08_addsubmul_total.

(* ---- quotient / remainder on exact integers in any representation (Fixnum, BigInt,
   n/1): the truncating results, also for i64::MIN by -1 (after fix F12).  The pair of two
   integer-valued rationals is excluded: it runs num-rational's unchecked Div/Rem on i32
   and is part of the recorded class ratio32-overflow-panic (MIN/1 by -1/1). *)
Theorem C08_quotient_exact : forall p a b za zb,
  wfb a = true -> wfb b = true ->
  int_of a = Some za -> int_of b = Some zb -> zb <> 0 -> both_rational a b = false ->
  exists r, num_quotient p a b = Ok (Some r) /\ int_of r = Some (Z.quot za zb).
Proof. exact quotient_exact. Qed.
Print Assumptions C08_quotient_exact.

Theorem C08_remainder_exact : forall p a b za zb,
  wfb a = true -> wfb b = true ->
  int_of a = Some za -> int_of b = Some zb -> zb <> 0 ->
  (forall n d, b <> Rational n d) ->
  exists r, num_rem p a b = Ok (Some r) /\ int_of r = Some (Z.rem za zb).
Proof. exact remainder_exact. Qed.
Print Assumptions C08_remainder_exact.

(* remainder with an integer-valued Rational divisor too (Fixnum % n/1 on Rational64, BigInt % n/1):
   everything except two integer-valued rationals and i64::MIN % -1/1 (which panics) *)
Theorem C08_remainder_exact_gen : forall p a b za zb,
  wfb a = true -> wfb b = true ->
  int_of a = Some za -> int_of b = Some zb -> zb <> 0 -> both_rational a b = false ->
  rem_known a b = false ->
  exists r, num_rem p a b = Ok (Some r) /\ int_of r = Some (Z.rem za zb) /\ wfb r = true.
Proof. exact remainder_exact_gen. Qed.
Print Assumptions C08_remainder_exact_gen.

(* ---- refutations of C08_full: one machine-checked witness per recorded class; the same
   witnesses are in the corpus of lib/props/c08.py and replayed on the implementation *)

(* ratio32-overflow-panic: (/ 1 -2147483648) panics under Debug and is the ill-formed
   exact value -1/-2147483648 under Release *)
Theorem C08_refuted_ratio32_overflow :
  exists a b, wfb a = true /\ wfb b = true /\ is_exact a = true /\ is_exact b = true /\
    (exists s, num_div Debug a b = Panic s) /\
    (exists r, num_div Release a b = Ok r /\ is_exact r = true /\ wfb r = false).
Proof.
  exists (Fixnum 1), (Fixnum (- 2 ^ 31)). repeat split; try reflexivity.
  - eexists. vm_compute. reflexivity.
  - eexists. split; [vm_compute; reflexivity|split; reflexivity].
Qed.
Print Assumptions C08_refuted_ratio32_overflow.

(* the other members named by the property: (/ -2147483648 -1) is the wrong exact value
   -2147483648 under Release; abs, expt, floor panic under Debug *)
Theorem C08_refuted_ratio32_overflow_more :
  num_div Release (Fixnum (- 2 ^ 31)) (Fixnum (-1)) = Ok (Rational (- 2 ^ 31) 1) /\
  (exists s, num_div Debug (Fixnum (- 2 ^ 31)) (Fixnum (-1)) = Panic s) /\
  (exists s, num_abs Debug (Rational (- 2 ^ 31) 3) = Panic s) /\
  (exists s, num_pow Debug (Rational 1 2) 40 = Panic s) /\
  (exists s, num_floor Debug (Rational (- 2 ^ 31) 3) = Panic s) /\
  (exists s, num_quotient Debug (Rational (- 2 ^ 31) 1) (Rational (-1) 1) = Panic s).
Proof. repeat split; try (eexists; vm_compute; reflexivity). Qed.
Print Assumptions C08_refuted_ratio32_overflow_more.

(* float-fallback-representable: 4294967296 times 1/2 is inexact although 2147483648 is an integer *)
Definition inexact_result (o : out num) : bool :=
  match o with Ok r => negb (is_exact r) | _ => false end.

Theorem C08_refuted_float_fallback :
  exists a b, wfb a = true /\ wfb b = true /\ is_exact a = true /\ is_exact b = true /\
    (forall p, inexact_result (num_mul p a b) = true) /\
    (qv (Fixnum (2 ^ 31)) == qv a * qv b)%Q /\ wfb (Fixnum (2 ^ 31)) = true.
Proof.
  exists (Fixnum (2 ^ 32)), (Rational 1 2). repeat split; try reflexivity.
  all: try (intros []; vm_compute; reflexivity).
Qed.
Print Assumptions C08_refuted_float_fallback.

(* bigint-small-repr-dependence: the same value 5 as a BigInt and as a Fixnum *)
Theorem C08_refuted_bigint_repr :
  (qv (BigInt 5) == qv (Fixnum 5))%Q /\
  num_add Debug (Fixnum 5) (Rational 1 2) = Ok (Rational 11 2) /\
  inexact_result (num_add Debug (BigInt 5) (Rational 1 2)) = true.
Proof. split; [reflexivity|]. split; vm_compute; reflexivity. Qed.
Print Assumptions C08_refuted_bigint_repr.

(* ---- OPEN (stated, not proved; checked by the Python oracle on every run only) ------- *)
(* / on exact operands (all 9 representation pairs, both profiles): an exact result is
   well-formed and is the true quotient.  Covers Rational32::new(l, r) with r of either sign
   and checked_div with its manual reduce.  The hypothesis "the Debug build does not panic"
   is the recorded class ratio32-overflow-panic (C08_refuted_ratio32_overflow): under it the
   Release build computes the same, well-formed value. *)
Theorem C08_div_exact : forall p a b r,
  wfb a = true -> wfb b = true -> is_exact a = true -> is_exact b = true -> ~ (qv b == 0)%Q ->
  (forall s, num_div Debug a b <> Panic s) ->
  num_div p a b = Ok r -> is_exact r = true -> wfb r = true /\ (qv r * qv b == qv a)%Q.
Proof. exact div_exact. Qed.
Print Assumptions C08_div_exact.

(* num-rational's checked_div on positive-denominator operands, any width: unless the Debug
   build panics (gcd(0, MIN)) the answer is None or the reduced exact quotient *)
Theorem C08_ratio_checked_div : forall p w a b, 2 <= w -> rok w a -> rok w b -> fst b <> 0 ->
  (exists s, rchecked_div Debug w a b = Panic s) \/
  rchecked_div p w a b = Ok None \/
  exists r, rchecked_div p w a b = Ok (Some r) /\ rwf w r /\ (rq r * rq b == rq a)%Q.
Proof. exact rchecked_div_spec. Qed.
Print Assumptions C08_ratio_checked_div.

(* Ratio::new with a denominator of either sign *)
Theorem C08_ratio_reduce_signed : forall p w n d, 2 <= w ->
  in_int w n = true -> in_int w d = true -> d <> 0 ->
  (exists s, rreduce Debug w (n, d) = Panic s) \/
  exists n' d', rreduce p w (n, d) = Ok (n', d') /\ rwf w (n', d') /\ n' * d = n * d'.
Proof. exact rreduce_gen. Qed.
Print Assumptions C08_ratio_reduce_signed.

(* op_inexact_only_if for +.  The statement as first written (kept, REFUTED below) quantifies
   over an arbitrary [known_fallback], so it is false for known_fallback := nothing.  Corrected:
   [add_takes_fallback a b] spells out, without running the code, the overflow conditions
   under which Add leaves the exact representations (operand outside i32 next to a Rational;
   BigInt next to a non-integer Rational; lcm / scaled numerators / sum outside i32 in
   checked_add); [representable v] decides whether some well-formed exact number has the value
   v; [add_known_fallback] is their conjunction = the recorded classes
   float-fallback-representable and bigint-small-repr-dependence for +, and nothing else
   (C08_add_known_fallback_tight).
   The same is proved uniformly for + - * below (C08_op_*, C08_full_addsubmul_outside).
   ... and for / (C08_div_outcome, C08_full_outside).
   STILL OPEN: the variadic folds of the builtins (+ - * / applied to argument lists), modulo's
   inexactness, abs floor ceiling truncate numerator denominator expt. *)
Definition C08_inexact_only_if_stmt : Prop := forall p a b r (known_fallback : num -> num -> bool),
  wfb a = true -> wfb b = true -> is_exact a = true -> is_exact b = true ->
  known_fallback a b = false -> num_add p a b = Ok r -> is_exact r = false ->
  forall x, wfb x = true -> is_exact x = true -> ~ (qv x == qv a + qv b)%Q.

(* the result of + on exact operands is inexact exactly on the explicit overflow conditions *)
Theorem C08_add_inexact_iff : forall p a b r,
  wfb a = true -> wfb b = true -> is_exact a = true -> is_exact b = true ->
  num_add p a b = Ok r -> is_exact r = negb (add_takes_fallback a b).
Proof. exact add_inexact_iff. Qed.
Print Assumptions C08_add_inexact_iff.

Theorem C08_inexact_only_if : forall p a b r,
  wfb a = true -> wfb b = true -> is_exact a = true -> is_exact b = true ->
  add_known_fallback a b = false -> num_add p a b = Ok r -> is_exact r = false ->
  forall x, wfb x = true -> is_exact x = true -> ~ (qv x == qv a + qv b)%Q.
Proof. exact add_inexact_only_if. Qed.
Print Assumptions C08_inexact_only_if.

(* every member of the class is an instance of the defect: inexact although representable *)
Theorem C08_add_known_fallback_tight : forall p a b r,
  wfb a = true -> wfb b = true -> is_exact a = true -> is_exact b = true ->
  add_known_fallback a b = true -> num_add p a b = Ok r ->
  is_exact r = false /\ exists x, wfb x = true /\ is_exact x = true /\ (qv x == qv a + qv b)%Q.
Proof. exact add_known_fallback_tight. Qed.
Print Assumptions C08_add_known_fallback_tight.

(* [representable] is exact: sound and complete for "some well-formed exact number has value v" *)
Theorem C08_representable_sound : forall x v,
  wfb x = true -> is_exact x = true -> (qv x == v)%Q -> representable v = true.
Proof. exact representable_sound. Qed.
Print Assumptions C08_representable_sound.
Theorem C08_representable_complete : forall v, representable v = true ->
  exists x, wfb x = true /\ is_exact x = true /\ (qv x == v)%Q.
Proof. exact representable_complete. Qed.
Print Assumptions C08_representable_complete.

(* checked_add / checked_sub answer None exactly when one of the four intermediate values
   leaves the machine width *)
Theorem C08_ratio_checked_addsub_none_iff : forall (sub : bool) p w a b, 2 <= w -> rok w a -> rok w b ->
  if addsub_fits sub w a b then exists r, rchecked_addsub sub p w a b = Ok (Some r)
  else rchecked_addsub sub p w a b = Ok None.
Proof. exact rchecked_addsub_fits. Qed.
Print Assumptions C08_ratio_checked_addsub_none_iff.

(* ---- + - * uniformly: [op_takes_fallback o a b] are the explicit overflow conditions of the
   three operators, [op_known_fallback o a b] = fallback taken although the true result is
   representable = the recorded classes float-fallback-representable and
   bigint-small-repr-dependence, exactly (tightness below) *)
Theorem C08_op_inexact_iff : forall o p a b r,
  wfb a = true -> wfb b = true -> is_exact a = true -> is_exact b = true ->
  op_fn o p a b = Ok r -> is_exact r = negb (op_takes_fallback o a b).
Proof. exact op_inexact_iff. Qed.
Print Assumptions C08_op_inexact_iff.

Theorem C08_op_known_fallback_tight : forall o p a b r,
  wfb a = true -> wfb b = true -> is_exact a = true -> is_exact b = true ->
  op_known_fallback o a b = true -> op_fn o p a b = Ok r ->
  is_exact r = false /\
  exists x, wfb x = true /\ is_exact x = true /\ (qv x == op_q o (qv a) (qv b))%Q.
Proof. exact op_known_fallback_tight. Qed.
Print Assumptions C08_op_known_fallback_tight.

(* C08_full for + - * (op_fn o = num_add / num_sub / num_mul, op_q o = Qplus / Qminus / Qmult)
   on the complement of the decidable defect class: the operation is total, the result is
   well-formed, an exact result is the true value, an inexact result is justified *)
Theorem C08_full_addsubmul_outside : forall o p a b,
  wfb a = true -> wfb b = true -> is_exact a = true -> is_exact b = true ->
  op_known_fallback o a b = false ->
  exists r, op_fn o p a b = Ok r /\ wfb r = true /\
    (is_exact r = true -> (qv r == op_q o (qv a) (qv b))%Q) /\
    (is_exact r = false ->
     forall x, wfb x = true -> is_exact x = true -> ~ (qv x == op_q o (qv a) (qv b))%Q).
Proof. exact op_full_outside. Qed.
Print Assumptions C08_full_addsubmul_outside.

Theorem C08_ratio_checked_mul_none_iff : forall p w a b, 2 <= w -> rok w a -> rok w b ->
  if mul_fits w a b then exists r, rchecked_mul p w a b = Ok (Some r)
  else rchecked_mul p w a b = Ok None.
Proof. exact rchecked_mul_fits. Qed.
Print Assumptions C08_ratio_checked_mul_none_iff.

(* ---- / : the Debug build panics (class ratio32-overflow-panic), or the result exists in both
   profiles and is inexact exactly on the explicit conditions [div_takes_fallback] (operands
   outside i32; checked_div = None, given as the pure function [div_pure]) *)
Theorem C08_div_outcome : forall p a b,
  wfb a = true -> wfb b = true -> is_exact a = true -> is_exact b = true -> ~ (qv b == 0)%Q ->
  (exists s, num_div Debug a b = Panic s) \/
  exists r, num_div p a b = Ok r /\ is_exact r = negb (div_takes_fallback a b).
Proof. exact div_outcome. Qed.
Print Assumptions C08_div_outcome.

Theorem C08_div_known_fallback_tight : forall p a b r,
  wfb a = true -> wfb b = true -> is_exact a = true -> is_exact b = true -> ~ (qv b == 0)%Q ->
  (forall s, num_div Debug a b <> Panic s) ->
  div_known_fallback a b = true -> num_div p a b = Ok r ->
  is_exact r = false /\ exists x, wfb x = true /\ is_exact x = true /\ (qv x == qv a / qv b)%Q.
Proof. exact div_known_fallback_tight. Qed.
Print Assumptions C08_div_known_fallback_tight.

(* ---- C08_full, word for word, for all four operators and both profiles, with ONE extra
   hypothesis: the operand pair is outside the decidable class [known] of its operator
   (+ - *: fallback although representable; /: that, or the Debug build panics).  The classes
   are the recorded findings ratio32-overflow-panic, float-fallback-representable and
   bigint-small-repr-dependence; by the *_tight theorems every member of the fallback classes
   really is a defect instance, so the hypothesis cannot be narrowed. *)
Theorem C08_full_outside : forall p (op : profile -> num -> num -> out num) (opq : Q -> Q -> Q)
    (known : num -> num -> bool),
  In (op, opq, known)
     [(num_add, Qplus, op_known_fallback AAdd); (num_sub, Qminus, op_known_fallback ASub);
      (num_mul, Qmult, op_known_fallback AMul); (num_div, Qdiv, div_known)] ->
  forall a b, wfb a = true -> wfb b = true -> is_exact a = true -> is_exact b = true ->
  (opq = Qdiv -> ~ (qv b == 0)%Q) ->
  known a b = false ->
  exists r, op p a b = Ok r /\ wfb r = true /\
    (is_exact r = true -> (qv r == opq (qv a) (qv b))%Q) /\
    (is_exact r = false ->
     forall x, wfb x = true -> is_exact x = true -> ~ (qv x == opq (qv a) (qv b))%Q).
Proof. exact full_outside. Qed.
Print Assumptions C08_full_outside.

(* 2147483648 + -1/1 is the float 2147483647.0 although 2147483647 is a Fixnum *)
Theorem C08_inexact_only_if_refuted : ~ C08_inexact_only_if_stmt.
Proof.
  intros H.
  destruct (addsubmul_total Debug (Fixnum (2 ^ 31)) (Rational (-1) 1) eq_refl eq_refl eq_refl eq_refl)
    as [[r Hr] _].
  pose proof (add_inexact_iff Debug (Fixnum (2 ^ 31)) (Rational (-1) 1) r eq_refl eq_refl eq_refl eq_refl Hr) as X.
  assert (K : add_takes_fallback (Fixnum (2 ^ 31)) (Rational (-1) 1) = true) by (vm_compute; reflexivity).
  rewrite K in X. cbn [negb] in X.
  apply (H Debug (Fixnum (2 ^ 31)) (Rational (-1) 1) r (fun _ _ => false)
           eq_refl eq_refl eq_refl eq_refl eq_refl Hr X (Fixnum (2 ^ 31 - 1)) eq_refl eq_refl).
  vm_compute. reflexivity.
Qed.
Print Assumptions C08_inexact_only_if_refuted.

(* modulo = flooring remainder.  The statement as first written (kept below, now REFUTED) is
   false in one arm: Fixnum modulo an integer-valued Rational (number.rs:870-878 runs the
   remainder on Rational64, then Rational32 + Rational32).  [modulo_known] is exactly that
   class: (1) i64::MIN by -1/1 panics (MIN % -1, both profiles); (2) rem + divisor outside
   i32: checked_add answers None, modulo continues on floats and the result is inexact.
   Outside it the theorem holds for every pair of integer representations, both profiles.
   STILL OPEN: abs floor ceiling truncate numerator denominator expt. *)
Definition C08_modulo_exact_stmt : Prop := forall p a b za zb,
  wfb a = true -> wfb b = true -> int_of a = Some za -> int_of b = Some zb -> zb <> 0 ->
  both_rational a b = false ->
  exists r, num_modulo p a b = Ok (Some r) /\ int_of r = Some (za mod zb).

Theorem C08_modulo_exact : forall p a b za zb,
  wfb a = true -> wfb b = true -> int_of a = Some za -> int_of b = Some zb -> zb <> 0 ->
  both_rational a b = false -> modulo_known a b = false ->
  exists r, num_modulo p a b = Ok (Some r) /\ int_of r = Some (za mod zb).
Proof. exact modulo_exact. Qed.
Print Assumptions C08_modulo_exact.

(* (modulo 2147483646 2147483647/1) is the float 2147483646.0 in both profiles *)
Theorem C08_modulo_exact_refuted : ~ C08_modulo_exact_stmt.
Proof.
  intros H.
  assert (Nz : 2 ^ 31 - 1 <> 0) by (intros E; discriminate E).
  destruct (H Debug (Fixnum (2 ^ 31 - 2)) (Rational (2 ^ 31 - 1) 1) (2 ^ 31 - 2) (2 ^ 31 - 1)
              eq_refl eq_refl eq_refl eq_refl Nz eq_refl) as [r [Hr Ir]].
  assert (E : inexact_result (match num_modulo Debug (Fixnum (2 ^ 31 - 2)) (Rational (2 ^ 31 - 1) 1) with
                              | Ok (Some x) => Ok x | _ => NoFuel end) = true) by (vm_compute; reflexivity).
  rewrite Hr in E. clear Hr. destruct r as [z|z|n d|f]; cbn in E, Ir; discriminate.
Qed.
Print Assumptions C08_modulo_exact_refuted.

(* the other member of the class: (modulo -9223372036854775808 -1/1) panics in both profiles *)
Theorem C08_modulo_refuted_min : forall p,
  num_modulo p (Fixnum (- 2 ^ 63)) (Rational (-1) 1) = Panic P_DIVOVF.
Proof. intros []; vm_compute; reflexivity. Qed.
Print Assumptions C08_modulo_refuted_min.

(* ---- non-vacuity *)
Example C08_example_mixed :
  num_add Release (Fixnum 5) (Rational 1 2) = Ok (Rational 11 2) /\
  num_mul Debug (Rational (2 ^ 31 - 1) 2) (Fixnum 2) = Ok (Rational (2 ^ 31 - 1) 1) /\
  num_sub Debug (Fixnum (- 2 ^ 63)) (Fixnum 1) = Ok (BigInt (- 2 ^ 63 - 1)) /\
  num_quotient Debug (Fixnum (- 2 ^ 63)) (Fixnum (-1)) = Ok (Some (BigInt (2 ^ 63))) /\
  rchecked_addsub false Debug 32 (1, 3) (1, 6) = Ok (Some (1, 2)) /\
  igcd Debug 32 (- 2 ^ 31) 6 = Ok 2.
Proof. repeat split; vm_compute; reflexivity. Qed.

(* C08_div_exact: the hypotheses hold on negative divisors, BigInt operands, the manual-reduce
   route of checked_div; the excluded class is not empty *)
Example C08_example_div :
  (forall s, num_div Debug (Fixnum 6) (Fixnum (-4)) <> Panic s) /\
  num_div Release (Fixnum 6) (Fixnum (-4)) = Ok (Rational (-3) 2) /\
  (forall s, num_div Debug (Rational 3 4) (Rational (-9) 8) <> Panic s) /\
  num_div Debug (Rational 3 4) (Rational (-9) 8) = Ok (Rational (-2) 3) /\
  num_div Debug (BigInt 10) (Rational 4 3) = Ok (Rational 15 2) /\
  num_div Release (Rational (2 ^ 31 - 1) 2) (Fixnum (2 ^ 31 - 1)) = Ok (Rational 1 2) /\
  (exists s, num_div Debug (Fixnum 0) (Rational (- 2 ^ 31) 3) = Panic s).
Proof.
  repeat split; try (intros s; vm_compute; discriminate); try (vm_compute; reflexivity).
  eexists; vm_compute; reflexivity.
Qed.

(* C08_inexact_only_if: a justified inexact sum (2^32 + 1/2: fallback taken, not representable,
   so the hypotheses of the theorem hold), and members of the defect class *)
Example C08_example_inexact :
  add_takes_fallback (Fixnum (2 ^ 32)) (Rational 1 2) = true /\
  add_known_fallback (Fixnum (2 ^ 32)) (Rational 1 2) = false /\
  inexact_result (num_add Debug (Fixnum (2 ^ 32)) (Rational 1 2)) = true /\
  add_known_fallback (Rational (2 ^ 31 - 1) 2) (Rational (2 ^ 31 - 1) 3) = false /\
  inexact_result (num_add Release (Rational (2 ^ 31 - 1) 2) (Rational (2 ^ 31 - 1) 3)) = true /\
  add_known_fallback (Fixnum (2 ^ 31)) (Rational (-1) 1) = true /\
  add_known_fallback (BigInt 5) (Rational 1 2) = true /\
  add_known_fallback (Rational (2 ^ 31 - 1) 1) (Rational 1 1) = true /\
  add_takes_fallback (Fixnum 5) (Rational 1 2) = false.
Proof. repeat split; vm_compute; reflexivity. Qed.

(* C08_full_addsubmul_outside / C08_op_*: for * and -, a justified fallback (outside the class,
   inexact), the witness of C08_refuted_float_fallback inside the class, exact cases outside *)
Example C08_example_ops :
  op_takes_fallback AMul (Fixnum (2 ^ 32)) (Rational 1 3) = true /\
  op_known_fallback AMul (Fixnum (2 ^ 32)) (Rational 1 3) = false /\
  inexact_result (num_mul Debug (Fixnum (2 ^ 32)) (Rational 1 3)) = true /\
  op_known_fallback AMul (Fixnum (2 ^ 32)) (Rational 1 2) = true /\
  op_known_fallback ASub (Rational 1 2) (Fixnum (2 ^ 31)) = false /\
  inexact_result (num_sub Release (Rational 1 2) (Fixnum (2 ^ 31))) = true /\
  op_known_fallback ASub (Rational (- 2 ^ 31) 1) (Fixnum 1) = true /\
  op_takes_fallback ASub (Rational 7 2) (Fixnum 3) = false /\
  num_sub Debug (Rational 7 2) (Fixnum 3) = Ok (Rational 1 2) /\
  op_takes_fallback AMul (Rational (2 ^ 31 - 1) 2) (Fixnum 2) = false.
Proof. repeat split; vm_compute; reflexivity. Qed.

(* C08_full_outside on / : outside the class with an exact result, outside with a justified
   inexact result ((/ 4294967296 3)), inside by fallback ((/ 4294967296 2)), inside by panic *)
Example C08_example_div_full :
  div_known (Fixnum 6) (Fixnum (-4)) = false /\ div_takes_fallback (Fixnum 6) (Fixnum (-4)) = false /\
  div_known (Fixnum (2 ^ 32)) (Fixnum 3) = false /\
  inexact_result (num_div Debug (Fixnum (2 ^ 32)) (Fixnum 3)) = true /\
  div_known_fallback (Fixnum (2 ^ 32)) (Fixnum 2) = true /\
  div_known (Rational 1 (2 ^ 31 - 1)) (Rational 2 3) = false /\
  inexact_result (num_div Release (Rational 1 (2 ^ 31 - 1)) (Rational 2 3)) = true /\
  div_debug_panics (Fixnum 1) (Fixnum (- 2 ^ 31)) = true /\
  div_known (Rational 3 4) (Rational (-9) 8) = false.
Proof. repeat split; vm_compute; reflexivity. Qed.

(* C08_modulo_exact: hypotheses satisfiable on each interesting arm, incl. Fixnum by n/1 *)
Example C08_example_modulo :
  modulo_known (Fixnum (-7)) (Rational 3 1) = false /\
  num_modulo Debug (Fixnum (-7)) (Rational 3 1) = Ok (Some (Rational 2 1)) /\
  modulo_known (Fixnum (- 2 ^ 63)) (Fixnum (-1)) = false /\
  num_modulo Release (Fixnum (- 2 ^ 63)) (Fixnum (-1)) = Ok (Some (Fixnum 0)) /\
  num_modulo Debug (BigInt (2 ^ 70 + 2)) (Rational (-5) 1) = Ok (Some (BigInt (-4))) /\
  num_modulo Release (Fixnum (2 ^ 40 + 1)) (Rational (- 2 ^ 31) 1) = Ok (Some (Rational (- 2 ^ 31 + 1) 1)) /\
  modulo_known (Fixnum (2 ^ 31 - 2)) (Rational (2 ^ 31 - 1) 1) = true /\
  rem_known (Fixnum (-7)) (Rational 3 1) = false /\
  num_rem Debug (Fixnum (-7)) (Rational 3 1) = Ok (Some (Rational (-1) 1)).
Proof. repeat split; vm_compute; reflexivity. Qed.
