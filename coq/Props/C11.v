(* C11 — reader discipline: total, exact spans, one datum per parse, incompleteness
   found.  Statements only; proofs in Proofs/LexProofs.v and Proofs/ParseProofs.v.
   Model: Model/Lex.v (lex.rs), Model/Parse.v (parse.rs).                       *)
From MW Require Import Model.Base Model.F64 Model.Num Model.NumFmt Model.Datum Model.Lex Model.Parse
  Proofs.LexProofs Proofs.ParseProofs.
Open Scope N_scope.

(* the scanner terminates on every text with tokens or an error: never a panic,
   never out of fuel *)
Theorem C11_scan_total : forall t, (exists ts, scan t = Ok ts) \/ (exists e, scan t = Err e).
Proof. exact scan_total. Qed.
Print Assumptions C11_scan_total.

(* tokens tile the text: each token is a non-empty run of whole characters lying
   exactly at its byte span; between tokens only whitespace and comments *)
Theorem C11_tokens_tile_text : forall t ts, scan t = Ok ts -> toks_at 0 t ts.
Proof. exact scan_wf. Qed.
Print Assumptions C11_tokens_tile_text.

(* non-empty, in bounds, on character boundaries *)
Theorem C11_token_span : forall t ts k, scan t = Ok ts -> In k ts ->
  (exists pre mid post, t = pre ++ mid ++ post /\ mid <> [] /\
     t_start k = 0 + blen pre /\ t_end k = t_start k + blen mid) /\
  t_start k < t_end k /\ t_end k <= 0 + blen t.
Proof.
  intros t ts k Hs Hin. split.
  - exact (toks_at_in _ _ _ _ (scan_wf _ _ Hs) Hin).
  - destruct (toks_at_bounds _ _ _ _ (scan_wf _ _ Hs) Hin) as (_ & H1 & H2). auto.
Qed.
Print Assumptions C11_token_span.

(* strictly ordered *)
Theorem C11_tokens_ordered : forall t ts, scan t = Ok ts -> ordered_from 0 ts.
Proof. intros t ts Hs. exact (toks_at_ordered _ _ _ (scan_wf _ _ Hs)). Qed.
Print Assumptions C11_tokens_ordered.

(* parsing consumes exactly the tokens of one datum: a non-empty prefix [used],
   whatever follows it; and every proper prefix of [used] — the token list of the
   text cut at a token boundary inside the datum — is reported Incomplete, while
   the complete datum never is *)
Theorem C11_parse_one_datum : forall fuel t ts d rest,
  parse fuel t ts = Ok (d, rest) ->
  exists used, ts = used ++ rest /\ used <> [] /\
    (forall rest', parse fuel t (used ++ rest') = Ok (d, rest')) /\
    (forall u1 u2, used = u1 ++ u2 -> u2 <> [] -> parse fuel t u1 = Err E_INCOMPLETE).
Proof. intros fuel t. exact (proj1 (parse_good fuel t)). Qed.
Print Assumptions C11_parse_one_datum.

(* the remaining text reported by parse_text is the suffix of the input that
   starts at the first byte of the next token; None iff no token remains *)
Theorem C11_remaining_is_suffix : forall t d r,
  parse_text t = Ok (d, r) ->
  exists ts used rest,
    scan t = Ok ts /\ ts = used ++ rest /\ used <> [] /\
    parse (parse_fuel ts) t ts = Ok (d, rest) /\
    match r with
    | None => rest = []
    | Some s => exists k rest' pre, rest = k :: rest' /\ t = pre ++ s /\ blen pre = t_start k
    end.
Proof. exact parse_text_remaining. Qed.
Print Assumptions C11_remaining_is_suffix.

(* non-vacuity *)
Example C11_example :
  parse_text [40;97;32;46;32;98;41;32;99] = Ok (CPair (CSym [97]) (CSym [98]), Some [99])
  /\ parse_text [40;97;32;46;32;98] = Err E_INCOMPLETE.
Proof. split; vm_compute; reflexivity. Qed.
