(* C04 — PLACEHOLDER (work package vmchk): the integrator replaces this file with the
   real statements (tcall_reuses_frame, compile_tail, derived_tail, loop_space).
   One trivially true fact about the model so that the check flow runs. *)
From MW Require Import Model.Base Model.VmTypes Model.VmBase.
Open Scope N_scope.

Theorem C04_placeholder_initial_capacity : scap (vm_empty 8192) = 256 /\ sp (vm_empty 8192) = 0.
Proof. split; reflexivity. Qed.
Print Assumptions C04_placeholder_initial_capacity.
