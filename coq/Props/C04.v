(* C04 — calls in tail position run in constant stack space.
   Statements only (proofs: Proofs/TailProofs.v, Proofs/DerivedTail.v).
   Model: Model/Vm.v [tcall_frame] (run.rs:204-235), [enter_frame] (run.rs:237-265),
   Model/Compile.v, and the GENERATED prelude (Gen/Prelude.v) for the derived forms. *)
From MW Require Import Model.Base Model.Datum Model.VmTypes Model.Heap Model.VmBase Model.Compile Model.Vm
  Model.Builtins Proofs.TailProofs Proofs.DerivedTail.
Open Scope N_scope.

(* A procedure invoked with n arguments at base pointer bp owns the slots
       bp-n+1 .. bp (arguments), bp+1 = Argc n, bp+2 = Ep, bp+3 = Ip, bp+4 = Bp
   and its BASE is bp - n.  TCALL with m new arguments (any m, equal to n or not:
   both branches of the instruction) rebuilds the frame on the SAME base, keeps the
   caller's return information (e, i, b), and leaves sp = base + m + 3; everything
   at or below the base is untouched. *)
Theorem C04_tcall_reuses_frame : forall lam s n e i b m,
  frame_at s n e i b ->
  sget s (sp s) = VArgc m -> bp s + 4 + m < sp s -> sp s < scap s ->
  let base := bp s - n in
  exists T,
    tcall_frame lam s = ROk false (with_ip (with_bp (with_stack s T (base + m + 3)) b) (lam, 0)) /\
    (forall j, j < m -> slot T (base + 1 + j) = sget s (sp s - m + j)) /\
    slot T (base + m + 1) = VArgc m /\ slot T (base + m + 2) = VEp e /\
    slot T (base + m + 3) = VIp (fst i) (snd i) /\
    (forall j, j <= base -> slot T j = sget s j).
Proof. exact tcall_frame_effect. Qed.
Print Assumptions C04_tcall_reuses_frame.

(* ENTER pushes exactly one slot (the caller's base pointer) and makes bp = sp - 3,
   for plain lambdas and closures alike.  Together with the theorem above: after
   TCALL + ENTER the new frame has base pointer base + m, hence the SAME base, and
   sp = base + m + 4 — a function of the callee's argument count only, not of how
   many tail calls preceded.  A loop of tail calls therefore runs at a stack height
   bounded by base + max m + 4 + (temporaries of one body), independent of the
   number of iterations. *)
Theorem C04_enter_pushes_one_slot : forall s r s',
  enter_frame s = ROk r s' -> sp s + 1 < scap s ->
  r = false /\ sp s' = sp s + 1 /\ bp s' + 3 = sp s /\ 3 <= sp s /\
  stack s' = tset (stack s) (sp s + 1) (VBp (bp s)) /\ scap s' = scap s /\
  ip s' = ip s /\ acc s' = acc s /\ g_bind s' = g_bind s /\ g_slots s' = g_slots s /\
  out_log s' = out_log s.
Proof. exact enter_frame_effect. Qed.
Print Assumptions C04_enter_pushes_one_slot.

(* Derived forms: for every composition (depth one: all contexts and both leaves;
   depth two and three: see Proofs/DerivedTail.v for the enumerated sub-product) of
   the tail contexts of if, cond (incl. =>, else), case (incl. =>, else), and, or,
   when, unless, let, let*, letrec, named let and begin, expanding with the macros of
   the generated prelude and compiling with the model compiler emits TCALL for every
   call of the marker k placed in the R7RS tail position and CALL for every call of
   the marker j placed in non-tail positions, in every lambda the compilation
   creates — and at least one TCALL of k is emitted (the check is not vacuous). *)
Theorem C04_derived_tail : forall s1 sk sj form,
  prepare = Some (s1, sk, sj) -> In form all_forms -> check_form s1 sk sj form = true.
Proof. exact derived_tail. Qed.
Print Assumptions C04_derived_tail.
