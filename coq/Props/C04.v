(* C04 — calls in tail position run in constant stack space.
   Statements only (proofs: Proofs/TailProofs.v, Proofs/DerivedTail.v).
   Model: Model/Vm.v [tcall_frame] (run.rs:204-235), [enter_frame] (run.rs:237-265),
   Model/Compile.v, and the GENERATED prelude (Gen/Prelude.v) for the derived forms. *)
From MW Require Import Model.Base Model.Datum Model.VmTypes Model.Heap Model.VmBase Model.Compile Model.Vm
  Model.Builtins Proofs.TailProofs Proofs.DerivedTail Proofs.VarArgProofs.
Open Scope N_scope.

(* A procedure invoked with n arguments at base pointer bp owns the slots
       bp-n+1 .. bp (arguments), bp+1 = Argc n, bp+2 = Ep, bp+3 = Ip, bp+4 = Bp
   and its BASE is bp - n.  TCALL with m new arguments (any m, equal to n or not:
   both branches of the instruction) rebuilds the frame on the SAME base, keeps the
   caller's return information (e, i, b), and leaves sp = base + m + 3; everything
   at or below the base is untouched. *)
Theorem C04_tcall_reuses_frame : forall lam s n e i b m,
  frame_at s n e i b ->
  sget s (sp s) = VArgc m -> bp s + 4 + m < sp s -> sp s < scap s ->
  let base := bp s - n in
  exists T,
    tcall_frame lam s = ROk false (with_ip (with_bp (with_stack s T (base + m + 3)) b) (lam, 0)) /\
    (forall j, j < m -> slot T (base + 1 + j) = sget s (sp s - m + j)) /\
    slot T (base + m + 1) = VArgc m /\ slot T (base + m + 2) = VEp e /\
    slot T (base + m + 3) = VIp (fst i) (snd i) /\
    (forall j, j <= base -> slot T j = sget s j).
Proof. exact tcall_frame_effect. Qed.
Print Assumptions C04_tcall_reuses_frame.

(* ENTER pushes exactly one slot (the caller's base pointer) and makes bp = sp - 3,
   for plain lambdas and closures alike.  Together with the theorem above: after
   TCALL + ENTER the new frame has base pointer base + m, hence the SAME base, and
   sp = base + m + 4 — a function of the callee's argument count only, not of how
   many tail calls preceded.  A loop of tail calls therefore runs at a stack height
   bounded by base + max m + 4 + (temporaries of one body), independent of the
   number of iterations. *)
Theorem C04_enter_pushes_one_slot : forall s r s',
  enter_frame s = ROk r s' -> sp s + 1 < scap s ->
  r = false /\ sp s' = sp s + 1 /\ bp s' + 3 = sp s /\ 3 <= sp s /\
  stack s' = tset (stack s) (sp s + 1) (VBp (bp s)) /\ scap s' = scap s /\
  ip s' = ip s /\ acc s' = acc s /\ g_bind s' = g_bind s /\ g_slots s' = g_slots s /\
  out_log s' = out_log s.
Proof. exact enter_frame_effect. Qed.
Print Assumptions C04_enter_pushes_one_slot.

(* Derived forms: for every composition (depth one: all contexts and both leaves;
   depth two and three: see Proofs/DerivedTail.v for the enumerated sub-product) of
   the tail contexts of if, cond (incl. =>, else), case (incl. =>, else), and, or,
   when, unless, let, let*, letrec, named let and begin, expanding with the macros of
   the generated prelude and compiling with the model compiler emits TCALL for every
   call of the marker k placed in the R7RS tail position and CALL for every call of
   the marker j placed in non-tail positions, in every lambda the compilation
   creates — and at least one TCALL of k is emitted (the check is not vacuous). *)
Theorem C04_derived_tail : forall s1 sk sj form,
  prepare = Some (s1, sk, sj) -> In form all_forms -> check_form s1 sk sj form = true.
Proof. exact derived_tail. Qed.
Print Assumptions C04_derived_tail.

(* ------------------------------------------------------------------------------------
   VARIADIC procedures (work package c19b).  (lambda args ..) /\
 (lambda (a . rest) ..) compile
   to  VARARG ; ENTER ; body ; RET  (Model/Compile.v compile_lambda): VARARG runs BEFORE
   ENTER on the frame CALL /\
 TCALL left.  [vararg_frame] (Proofs/VarArgProofs.v) is the VARARG
   arm of Vm.run_one verbatim: *)
Theorem C04_vararg_is_the_instruction : forall ob s s0,
  read_opcode s = ROk OVarArg s0 -> run_one ob s = vararg_frame s0.
Proof. exact run_one_vararg. Qed.
Print Assumptions C04_vararg_is_the_instruction.

(* VARARG on a frame with m actual arguments, for a lambda with L formals INCLUDING the rest
   parameter (L - 1 <= m): whatever m (both arms of run.rs:296-323: one optional argument is
   converted in place; otherwise Ip, Ep, Argc and the m-(L-1) optional arguments are popped,
   collected into a heap list, and the list, Argc L, Ep, Ip are pushed) the frame stays on the
   same base, the fixed arguments and everything below are untouched, slot base+L holds a
   pointer (the rest list), and sp = base + L + 3: a function of L only.  No register other
   than sp changes (only the stack above the fixed arguments and the heap). *)
Theorem C04_vararg_frame : forall s l m,
  cur_lambda s = ROk l s ->
  1 <= len (l_args l) -> len (l_args l) - 1 <= m ->
  m + 3 <= sp s -> sget s (sp s - 2) = VArgc m ->
  sp s + 1 < scap s ->
  let L := len (l_args l) in
  let base := sp s - 3 - m in
  exists p s',
    vararg_frame s = ROk false s' /\
    sp s' = base + L + 3 /\ same_regs s s' /\
    (forall j, j + 1 <= base + L -> sget s' j = sget s j) /\
    sget s' (base + L) = VPtr p /\
    sget s' (base + L + 1) = VArgc L /\
    sget s' (base + L + 2) = sget s (sp s - 1) /\
    sget s' (base + L + 3) = sget s (sp s).
Proof. exact vararg_frame_effect. Qed.
Print Assumptions C04_vararg_frame.

(* A tail call to a variadic procedure: TCALL ; VARARG ; ENTER (k1, k2: the instruction
   indices, immaterial).  From a frame [frame_at s n e i b] with m new arguments on top, the
   three instructions re-establish the frame invariant with n := L, the SAME return
   information (e, i, b) and the SAME base bp - n; sp = base + L + 4.  Neither m nor the
   caller's n nor the number of earlier iterations appears in the height: by induction a loop
   of variadic (self-)tail-calls runs in constant stack space.  The first L-1 arguments are
   the fixed parameters; slot base+L is the rest list; the stack at or below the base is
   untouched. *)
Theorem C04_tcall_vararg_enter : forall lam lid l s n e i b m k1 k2,
  frame_at s n e i b ->
  sget s (sp s) = VArgc m -> bp s + 4 + m < sp s -> sp s < scap s ->
  heap_get (hp s) lam = Ok (VLambda lid) -> tget (lams (st s)) lid = Some l ->
  1 <= len (l_args l) -> len (l_args l) - 1 <= m ->
  let L := len (l_args l) in
  let base := bp s - n in
  exists s1 s2,
    tcall_frame lam s = ROk false s1 /\
    vararg_frame (with_ip s1 (lam, k1)) = ROk false s2 /\
    sp s2 = base + L + 3 /\
    (forall j, j + 1 < L -> sget s2 (base + 1 + j) = sget s (sp s - m + j)) /\
    (exists p, sget s2 (base + L) = VPtr p) /\
    (forall j, j <= base -> sget s2 j = sget s j) /\
    (forall r s3, enter_frame (with_ip s2 (lam, k2)) = ROk r s3 ->
       frame_at s3 L e i b /\ bp s3 - L = base /\ sp s3 = base + L + 4).
Proof. exact tcall_vararg_enter. Qed.
Print Assumptions C04_tcall_vararg_enter.

(* the same invariant for a fixed-arity callee (TCALL ; ENTER), which the two theorems at the
   top of this file give only in pieces *)
Theorem C04_tcall_enter_invariant : forall lam s n e i b m k,
  frame_at s n e i b ->
  sget s (sp s) = VArgc m -> bp s + 4 + m < sp s -> sp s < scap s ->
  let base := bp s - n in
  exists s1, tcall_frame lam s = ROk false s1 /\
    (forall r s2, enter_frame (with_ip s1 (lam, k)) = ROk r s2 ->
       frame_at s2 m e i b /\ bp s2 - m = base /\ sp s2 = base + m + 4).
Proof. exact tcall_enter_invariant. Qed.
Print Assumptions C04_tcall_enter_invariant.

(* Non-vacuity: a machine holding a variadic lambda with L = 2 formals (a . rest), a current
   frame with n = 2 arguments at bp = 2 (base 0) and m new arguments on top.  For m = 1
   (no optional argument), m = 2 (one: in place) and m = 3, 5 (general arm) the hypotheses
   hold, ENTER succeeds, and the frame ends at sp = 6, bp = 2 every time. *)
Definition ex_vararg_lambda : lambda :=
  emit_op (emit_op (emit_op (mk_lambda false true [] [VPtr 0; VPtr 0] [] None) OVarArg) OEnter) ORet.
Definition ex_vararg_state (args : list vcell) : option (N * vm) :=
  match put_lambda ex_vararg_lambda (vm_empty 64) with
  | ROk (VPtr lp) s0 =>
      let m := len args in
      let stk := write_slots ([VBool true; VBool false; VArgc 2; VEp 7; VIp 9 4; VBp 0; VChar 120] ++ args ++ [VArgc m])
                             1 tempty in
      Some (lp, with_acc (with_bp (with_stack s0 stk (8 + m)) 2) (VPtr lp))
  | _ => None
  end.
Definition ex_vararg_check (args : list vcell) : Prop :=
  match ex_vararg_state args with
  | Some (lam, s) =>
      frame_at s 2 7 (9, 4) 0 /\ sget s (sp s) = VArgc (len args) /\
      bp s + 4 + len args < sp s /\ sp s < scap s /\
      (exists lid l, heap_get (hp s) lam = Ok (VLambda lid) /\ tget (lams (st s)) lid = Some l /\
                     len (l_args l) = 2) /\
      match tcall_frame lam s with
      | ROk _ s1 =>
          match vararg_frame (with_ip s1 (lam, 1)) with
          | ROk _ s2 =>
              match enter_frame (with_ip s2 (lam, 2)) with
              | ROk _ s3 => sp s3 = 6 /\ bp s3 = 2 /\ frame_at s3 2 7 (9, 4) 0
              | _ => False
              end
          | _ => False
          end
      | _ => False
      end
  | None => False
  end.
Ltac ex_vararg_solve :=
  vm_compute; repeat split; try reflexivity; try (let X := fresh in intro X; discriminate X);
  do 2 eexists; repeat split.
Example vararg_loop_no_optional : ex_vararg_check [VChar 97].
Proof. ex_vararg_solve. Qed.
Example vararg_loop_one_optional : ex_vararg_check [VChar 97; VChar 98].
Proof. ex_vararg_solve. Qed.
Example vararg_loop_two_optional : ex_vararg_check [VChar 97; VChar 98; VChar 99].
Proof. ex_vararg_solve. Qed.
Example vararg_loop_four_optional : ex_vararg_check [VChar 97; VChar 98; VChar 99; VChar 100; VChar 101].
Proof. ex_vararg_solve. Qed.
