(* C04 — calls in tail position run in constant stack space.
   Statements only (proofs: Proofs/TailProofs.v, Proofs/DerivedTail.v).
   Model: Model/Vm.v [tcall_frame] (run.rs:204-235), [enter_frame] (run.rs:237-265),
   Model/Compile.v, and the GENERATED prelude (Gen/Prelude.v) for the derived forms. *)
From MW Require Import Model.Base Model.Datum Model.VmTypes Model.Heap Model.VmBase Model.Compile Model.Vm
  Model.Builtins Proofs.TailProofs Proofs.DerivedTail Proofs.VarArgProofs.
Open Scope N_scope.

(* A procedure invoked with n arguments at base pointer bp owns the slots
       bp-n+1 .. bp (arguments), bp+1 = Argc n, bp+2 = Ep, bp+3 = Ip, bp+4 = Bp
   and its BASE is bp - n.  TCALL with m new arguments (any m, equal to n or not:
   both branches of the instruction) rebuilds the frame on the SAME base, keeps the
   caller's return information (e, i, b), and leaves sp = base + m + 3; everything
   at or below the base is untouched. *)
Theorem C04_tcall_reuses_frame : forall lam s n e i b m,
  frame_at s n e i b ->
  sget s (sp s) = VArgc m -> bp s + 4 + m < sp s -> sp s < scap s ->
  let base := bp s - n in
  exists T,
    tcall_frame lam s = ROk false (with_ip (with_bp (with_stack s T (base + m + 3)) b) (lam, 0)) /\
    (forall j, j < m -> slot T (base + 1 + j) = sget s (sp s - m + j)) /\
    slot T (base + m + 1) = VArgc m /\ slot T (base + m + 2) = VEp e /\
    slot T (base + m + 3) = VIp (fst i) (snd i) /\
    (forall j, j <= base -> slot T j = sget s j).
Proof. exact tcall_frame_effect. Qed.
Print Assumptions C04_tcall_reuses_frame.

(* ENTER pushes exactly one slot (the caller's base pointer) and makes bp = sp - 3,
   for plain lambdas and closures alike.  Together with the theorem above: after
   TCALL + ENTER the new frame has base pointer base + m, hence the SAME base, and
   sp = base + m + 4 — a function of the callee's argument count only, not of how
   many tail calls preceded.  A loop of tail calls therefore runs at a stack height
   bounded by base + max m + 4 + (temporaries of one body), independent of the
   number of iterations. *)
Theorem C04_enter_pushes_one_slot : forall s r s',
  enter_frame s = ROk r s' -> sp s + 1 < scap s ->
  r = false /\ sp s' = sp s + 1 /\ bp s' + 3 = sp s /\ 3 <= sp s /\
  stack s' = tset (stack s) (sp s + 1) (VBp (bp s)) /\ scap s' = scap s /\
  ip s' = ip s /\ acc s' = acc s /\ g_bind s' = g_bind s /\ g_slots s' = g_slots s /\
  out_log s' = out_log s.
Proof. exact enter_frame_effect. Qed.
Print Assumptions C04_enter_pushes_one_slot.

(* Derived forms: for every composition (depth one: all contexts and both leaves;
   depth two and three: see Proofs/DerivedTail.v for the enumerated sub-product) of
   the tail contexts of if, cond (incl. =>, else), case (incl. =>, else), and, or,
   when, unless, let, let*, letrec, named let and begin, expanding with the macros of
   the generated prelude and compiling with the model compiler emits TCALL for every
   call of the marker k placed in the R7RS tail position and CALL for every call of
   the marker j placed in non-tail positions, in every lambda the compilation
   creates — and at least one TCALL of k is emitted (the check is not vacuous). *)
Theorem C04_derived_tail : forall s1 sk sj form,
  prepare = Some (s1, sk, sj) -> In form all_forms -> check_form s1 sk sj form = true.
Proof. exact derived_tail. Qed.
Print Assumptions C04_derived_tail.

(* ------------------------------------------------------------------------------------
   VARIADIC procedures (work package c19b).  (lambda args ..) /\
 (lambda (a . rest) ..) compile
   to  VARARG ; ENTER ; body ; RET  (Model/Compile.v compile_lambda): VARARG runs BEFORE
   ENTER on the frame CALL /\
 TCALL left.  [vararg_frame] (Proofs/VarArgProofs.v) is the VARARG
   arm of Vm.run_one verbatim: *)
Theorem C04_vararg_is_the_instruction : forall ob s s0,
  read_opcode s = ROk OVarArg s0 -> run_one ob s = vararg_frame s0.
Proof. exact run_one_vararg. Qed.
Print Assumptions C04_vararg_is_the_instruction.

(* VARARG on a frame with m actual arguments, for a lambda with L formals INCLUDING the rest
   parameter (L - 1 <= m): whatever m (both arms of run.rs:296-323: one optional argument is
   converted in place; otherwise Ip, Ep, Argc and the m-(L-1) optional arguments are popped,
   collected into a heap list, and the list, Argc L, Ep, Ip are pushed) the frame stays on the
   same base, the fixed arguments and everything below are untouched, slot base+L holds a
   pointer (the rest list), and sp = base + L + 3: a function of L only.  No register other
   than sp changes (only the stack above the fixed arguments and the heap). *)
Theorem C04_vararg_frame : forall s l m,
  cur_lambda s = ROk l s ->
  1 <= len (l_args l) -> len (l_args l) - 1 <= m ->
  m + 3 <= sp s -> sget s (sp s - 2) = VArgc m ->
  sp s + 1 < scap s ->
  let L := len (l_args l) in
  let base := sp s - 3 - m in
  exists p s',
    vararg_frame s = ROk false s' /\
    sp s' = base + L + 3 /\ same_regs s s' /\
    (forall j, j + 1 <= base + L -> sget s' j = sget s j) /\
    sget s' (base + L) = VPtr p /\
    sget s' (base + L + 1) = VArgc L /\
    sget s' (base + L + 2) = sget s (sp s - 1) /\
    sget s' (base + L + 3) = sget s (sp s).
Proof. exact vararg_frame_effect. Qed.
Print Assumptions C04_vararg_frame.

(* A tail call to a variadic procedure: TCALL ; VARARG ; ENTER (k1, k2: the instruction
   indices, immaterial).  From a frame [frame_at s n e i b] with m new arguments on top, the
   three instructions re-establish the frame invariant with n := L, the SAME return
   information (e, i, b) and the SAME base bp - n; sp = base + L + 4.  Neither m nor the
   caller's n nor the number of earlier iterations appears in the height: by induction a loop
   of variadic (self-)tail-calls runs in constant stack space.  The first L-1 arguments are
   the fixed parameters; slot base+L is the rest list; the stack at or below the base is
   untouched. *)
Theorem C04_tcall_vararg_enter : forall lam lid l s n e i b m k1 k2,
  frame_at s n e i b ->
  sget s (sp s) = VArgc m -> bp s + 4 + m < sp s -> sp s < scap s ->
  heap_get (hp s) lam = Ok (VLambda lid) -> tget (lams (st s)) lid = Some l ->
  1 <= len (l_args l) -> len (l_args l) - 1 <= m ->
  let L := len (l_args l) in
  let base := bp s - n in
  exists s1 s2,
    tcall_frame lam s = ROk false s1 /\
    vararg_frame (with_ip s1 (lam, k1)) = ROk false s2 /\
    sp s2 = base + L + 3 /\
    (forall j, j + 1 < L -> sget s2 (base + 1 + j) = sget s (sp s - m + j)) /\
    (exists p, sget s2 (base + L) = VPtr p) /\
    (forall j, j <= base -> sget s2 j = sget s j) /\
    (forall r s3, enter_frame (with_ip s2 (lam, k2)) = ROk r s3 ->
       frame_at s3 L e i b /\ bp s3 - L = base /\ sp s3 = base + L + 4).
Proof. exact tcall_vararg_enter. Qed.
Print Assumptions C04_tcall_vararg_enter.

(* the same invariant for a fixed-arity callee (TCALL ; ENTER), which the two theorems at the
   top of this file give only in pieces *)
Theorem C04_tcall_enter_invariant : forall lam s n e i b m k,
  frame_at s n e i b ->
  sget s (sp s) = VArgc m -> bp s + 4 + m < sp s -> sp s < scap s ->
  let base := bp s - n in
  exists s1, tcall_frame lam s = ROk false s1 /\
    (forall r s2, enter_frame (with_ip s1 (lam, k)) = ROk r s2 ->
       frame_at s2 m e i b /\ bp s2 - m = base /\ sp s2 = base + m + 4).
Proof. exact tcall_enter_invariant. Qed.
Print Assumptions C04_tcall_enter_invariant.

(* Non-vacuity: a machine holding a variadic lambda with L = 2 formals (a . rest), a current
   frame with n = 2 arguments at bp = 2 (base 0) and m new arguments on top.  For m = 1
   (no optional argument), m = 2 (one: in place) and m = 3, 5 (general arm) the hypotheses
   hold, ENTER succeeds, and the frame ends at sp = 6, bp = 2 every time. *)
Definition ex_vararg_lambda : lambda :=
  emit_op (emit_op (emit_op (mk_lambda false true [] [VPtr 0; VPtr 0] [] None) OVarArg) OEnter) ORet.
Definition ex_vararg_state (args : list vcell) : option (N * vm) :=
  match put_lambda ex_vararg_lambda (vm_empty 64) with
  | ROk (VPtr lp) s0 =>
      let m := len args in
      let stk := write_slots ([VBool true; VBool false; VArgc 2; VEp 7; VIp 9 4; VBp 0; VChar 120] ++ args ++ [VArgc m])
                             1 tempty in
      Some (lp, with_acc (with_bp (with_stack s0 stk (8 + m)) 2) (VPtr lp))
  | _ => None
  end.
Definition ex_vararg_check (args : list vcell) : Prop :=
  match ex_vararg_state args with
  | Some (lam, s) =>
      frame_at s 2 7 (9, 4) 0 /\ sget s (sp s) = VArgc (len args) /\
      bp s + 4 + len args < sp s /\ sp s < scap s /\
      (exists lid l, heap_get (hp s) lam = Ok (VLambda lid) /\ tget (lams (st s)) lid = Some l /\
                     len (l_args l) = 2) /\
      match tcall_frame lam s with
      | ROk _ s1 =>
          match vararg_frame (with_ip s1 (lam, 1)) with
          | ROk _ s2 =>
              match enter_frame (with_ip s2 (lam, 2)) with
              | ROk _ s3 => sp s3 = 6 /\ bp s3 = 2 /\ frame_at s3 2 7 (9, 4) 0
              | _ => False
              end
          | _ => False
          end
      | _ => False
      end
  | None => False
  end.
Ltac ex_vararg_solve :=
  vm_compute; repeat split; try reflexivity; try (let X := fresh in intro X; discriminate X);
  do 2 eexists; repeat split.
Example vararg_loop_no_optional : ex_vararg_check [VChar 97].
Proof. ex_vararg_solve. Qed.
Example vararg_loop_one_optional : ex_vararg_check [VChar 97; VChar 98].
Proof. ex_vararg_solve. Qed.
Example vararg_loop_two_optional : ex_vararg_check [VChar 97; VChar 98; VChar 99].
Proof. ex_vararg_solve. Qed.
Example vararg_loop_four_optional : ex_vararg_check [VChar 97; VChar 98; VChar 99; VChar 100; VChar 101].
Proof. ex_vararg_solve. Qed.

(* ====================================================================================== loop_space
   THE WHOLE-LOOP INDUCTION (work package c04c; Proofs/LoopSpace.v, LoopExec.v, LoopEval.v,
   LoopWalk.v, LoopBuiltins.v).  The theorems above are about single instructions; here the
   compile-and-run theorem of the closure fragment (C01_fragment3_correct: lambda, closures, calls
   by name, recursion through a global, if, define / set! on globals, builtins) is re-proved with
   the stack pointer of EVERY intermediate state bounded by a static measure of the reference
   derivation in which a call in TAIL position does not add anything per call.               *)
From Coq Require Import String.
From MW Require Import Proofs.RunProofs Proofs.CompileCorrect Proofs.FrameSteps Proofs.CompileCorrect2 Proofs.Closures3
  Proofs.LoopSpace Proofs.LoopExec Proofs.LoopEval Proofs.LoopWalk.
From MW Require Proofs.LoopBuiltins.

(* [hw ob n s]: the high-water mark of sp over the states s = s_0 .. s_n of the first n
   instructions.  It bounds every state reached, and it is attained. *)
Theorem C04_hw_unfold : forall ob n s, hw ob (S n) s =
  match Vm.run_one ob s with ROk false s' => N.max (sp s) (hw ob n s') | _ => sp s end.
Proof. reflexivity. Qed.
Print Assumptions C04_hw_unfold.
Theorem C04_hw_bounds : forall ob n s k s', (k <= n)%nat -> steps ob k s = Some s' -> sp s' <= hw ob n s.
Proof. exact hw_bounds. Qed.
Print Assumptions C04_hw_bounds.
Theorem C04_hw_attained : forall ob n s s1, steps ob n s = Some s1 ->
  exists k s', (k <= n)%nat /\ steps ob k s = Some s' /\ sp s' = hw ob n s.
Proof. exact hw_attained. Qed.
Print Assumptions C04_hw_attained.

(* The static measure: [dref3 bsem tail sc lv rho e r rho' dl dn dt] is the reference judgement
   ref_eval3 of the closure fragment (Proofs/Closures3.v) for an expression in tail position or
   not, indexed by  dn (growth above the stack pointer at entry, not counting what procedures
   called in tail position do),  dt (how far the frames of TAIL-called procedures reach above the
   BASE of the current frame)  and  dl (a certain growth).  It is the same judgement: forgetting
   the measures gives ref_eval3, and every reference derivation has measures. *)
Theorem C04_depth_sound : forall bsem tl sc lv rho e r rho' dl dn dt,
  dref3 bsem tl sc lv rho e r rho' dl dn dt -> ref_eval3 bsem sc lv rho e r rho'.
Proof. exact dref3_ref. Qed.
Print Assumptions C04_depth_sound.
Theorem C04_depth_total : forall bsem sc lv rho e r rho', ref_eval3 bsem sc lv rho e r rho' ->
  forall tl, exists dl dn dt, dref3 bsem tl sc lv rho e r rho' dl dn dt.
Proof. exact ref_dref3. Qed.
Print Assumptions C04_depth_total.
(* THE rule: a call of a closure with parameters ps.  In tail position (tl = true) the body's
   measures enter dt by a MAXIMUM — len args + 4 + dnb above the base, whatever the number of
   tail calls that preceded; not in tail position the same quantity is counted above the stack
   pointer at the call (the hypothesis of C04_exec_bounded_code asks sp + dt <= hi there), and
   the certain growth dl includes the callee's frame. *)
Theorem C04_depth_call_rule : forall bsem tl sc lv rho f args rs rho1 ps cs body cvals rho2 r rho3
    dla dna dlf dnf dtf dlb dnb dtb,
  drefs3 bsem sc lv rho args rs rho1 dla dna ->
  dref3 bsem false sc lv rho1 f (R3Clo ps cs body cvals) rho2 dlf dnf dtf ->
  List.length rs = List.length ps ->
  dref3 bsem true (ps ++ cs) (rs ++ cvals) rho2 body r rho3 dlb dnb dtb ->
  dref3 bsem tl sc lv rho (YApp f args) r rho3
        (N.max (N.max dla (len args + 1 + dlf)) (if tl then 0 else len args + 4 + dlb))
        (N.max dna (len args + 1 + N.max dnf dtf))
        (N.max (len args + 4 + dnb) dtb).
Proof. exact D3_app_closure. Qed.
Print Assumptions C04_depth_call_rule.

(* the outcomes: ok_n3 / ok_t3 of C01 plus  lo <= hw <= hi  for the same run *)
Theorem C04_ok_n3b_unfold : forall ob m lp q r rho' lo hi, ok_n3b ob m lp q r rho' lo hi <->
  exists n m', steps ob n m = Some m' /\ (lo <= hw ob n m /\ hw ob n m <= hi) /\ frame2 m m' /\ minv m' /\
    ip m' = (lp, q) /\ vrep3 m' (acc m') r /\ genv_rel3 rho' m'.
Proof. reflexivity. Qed.
Print Assumptions C04_ok_n3b_unfold.
Theorem C04_ok_t3b_unfold : forall ob m r rho' lo hi, ok_t3b ob m r rho' lo hi <->
  exists n m' k e i b, steps ob n m = Some m' /\ (lo <= hw ob n m /\ hw ob n m <= hi) /\
    frame_at m k e i b /\ rext m m' /\ minv m' /\ vrep3 m' (acc m') r /\ genv_rel3 rho' m' /\
    sp m' = bp m - k /\ ep m' = e /\ ip m' = i /\ bp m' = b /\ out_log m' = out_log m /\
    (forall j, j <= bp m - k -> sget m' j = sget m j).
Proof. reflexivity. Qed.
Print Assumptions C04_ok_t3b_unfold.
Theorem C04_tbound_unfold : forall tail m dt hi, tbound tail m dt hi <->
  if tail then exists k e i b, frame_at m k e i b /\ bp m + 4 <= sp m /\ bp m - k + dt <= hi
  else sp m + dt <= hi.
Proof. reflexivity. Qed.
Print Assumptions C04_tbound_unfold.

(* exec_bounded, code level (by induction on the indexed derivation): for every derivation and
   EVERY successful compilation of e with the tail flag of the derivation, on every later machine
   holding the code (hypotheses of C01_fragment3_correct), for every hi with  sp + dn <= hi  and
   (base of the current frame, resp. sp) + dt <= hi:  the code runs to its end (or, tail code, to
   the state the RET of the frame produces) and the high-water mark of sp over the run is between
   sp + dl and hi. *)
Theorem C04_exec_bounded_code : forall ob bsem,
  (forall b, builtin_ok ob bsem b) -> (forall b, builtin_envs ob bsem b) ->
  forall tl sc lv rho e r rho' dl dn dt, dref3 bsem tl sc lv rho e r rho' dl dn dt ->
  forall f l s l' s' code, wf3 e sc -> (cell_size (cell_of3 e) < f)%nat -> hdr3 l sc s -> minv s ->
    compile_expression f l tl (cell_of3 e) s = ROk l' s' -> fwd l' = fwd l ++ code ->
  forall m lp bc hi,
    cext s' m -> minv m -> code_in m lp bc -> seg bc (len (fwd l)) code -> ip m = (lp, len (fwd l)) ->
    genv_rel3 rho m -> lrel3 lv m -> sp m + dn <= hi -> tbound tl m dt hi ->
    ok_n3b ob m lp (len (fwd l) + len code) r rho' (sp m + dl) hi \/
    (tl = true /\ ok_t3b ob m r rho' (sp m + dl) hi).
Proof. exact compile_correct3b. Qed.
Print Assumptions C04_exec_bounded_code.

(* exec_bounded, Vm::eval: a top-level expression (compiled in tail position of the entry
   procedure, whose frame has base sp s): HALT exit as in C01_eval_fragment3, and EVERY state of
   the run has sp <= sp s + max (4 + dn) dt, and some state has sp >= sp s + 4 + dl. *)
Theorem C04_exec_bounded : forall ob bsem,
  (forall b, builtin_ok ob bsem b) -> (forall b, builtin_envs ob bsem b) ->
  forall e rho r rho' s dl dn dt,
  wf3 e [] -> dref3 bsem true [] [] rho e r rho' dl dn dt -> minv s -> genv_rel3 rho s ->
  transform_expr TRANSFORM_FUEL s (cell_of3 e) = Ok (cell_of3 e) ->
  exists k m m0 m6,
    prepare_eval (cell_of3 e) s = ROk tt m0 /\ sp m0 = sp s /\ steps ob k m0 = Some m6 /\
    Vm.run_one ob m6 = ROk true m /\
    (forall fuel, (S k <= fuel)%nat -> eval ob fuel (cell_of3 e) s = halt_result m) /\
    vrep3 m (acc m) r /\ genv_rel3 rho' m /\ minv m /\ sp m = sp s /\
    (forall j s', (j <= k)%nat -> steps ob j m0 = Some s' -> sp s' <= sp s + N.max (4 + dn) dt) /\
    (exists j s', (j <= k)%nat /\ steps ob j m0 = Some s' /\ sp s + 4 + dl <= sp s').
Proof. exact exec_bounded. Qed.
Print Assumptions C04_exec_bounded.

(* ------------------------------------------------------------------------------------ the loop
   walk_def  = (define walk (lambda (l) (if l (walk (l)) 'done)))      a self call in tail position
   cnt_def   = (define cnt (lambda (l) (if l ((lambda (r) r) (cnt (l))) 'done)))   the twin: the
               recursive call is an OPERAND
   chain n   = #f for n = 0, a thunk (lambda () t) whose captured t is chain (n-1) otherwise: the
               "list" the loop walks ((l) is its cdr, #f its end).  A quoted list walked with cdr
               is NOT available: C04_builtin_ok_cdr_refuted below.
   No builtin procedure occurs, so the theorems hold for every builtin table (bsem_none).       *)
Theorem C04_programs_are_the_texts :
  parses_to (S_ "(define walk (lambda (l) (if l (walk (l)) 'done)))"%string) walk_def /\
  parses_to (S_ "(walk c)"%string) walk_call /\
  parses_to (S_ "(define cnt (lambda (l) (if l ((lambda (r) r) (cnt (l))) 'done)))"%string) cnt_def /\
  parses_to (S_ "(if (cnt c) 'yes 'no)"%string) cnt_top /\
  parses_to (S_ "(define mk (lambda (t) (lambda () t)))"%string) mk_def /\
  parses_to (S_ "(define c #f)"%string) c_def /\
  parses_to (S_ "(set! c (mk c))"%string) c_step.
Proof. exact programs_parse. Qed.
Print Assumptions C04_programs_are_the_texts.

(* the measures of the loop body do not depend on the number of iterations *)
Theorem C04_walk_depth_constant : forall bsem rho, rho (S_ "walk"%string) = Some walk_clo -> forall n,
  exists dl dn dt, dref3 bsem true [S_ "l"%string] [chain n] rho walk_body v_done rho dl dn dt /\ dn <= 4 /\ dt <= 9.
Proof. exact walk_body_depth. Qed.
Print Assumptions C04_walk_depth_constant.

(* C04 loop_space: on every machine whose globals walk and c hold the procedure and a chain of n
   thunks, (walk c) — n iterations of the loop, every one a TCALL — evaluates to `done` and NO
   state of the run has its stack pointer more than 9 slots above the start, whatever n. *)
Theorem C04_loop_space : forall ob bsem,
  (forall b, builtin_ok ob bsem b) -> (forall b, builtin_envs ob bsem b) ->
  forall n rho s,
  rho (S_ "walk"%string) = Some walk_clo -> rho (S_ "c"%string) = Some (chain n) -> minv s -> genv_rel3 rho s ->
  transform_expr TRANSFORM_FUEL s (cell_of3 walk_call) = Ok (cell_of3 walk_call) ->
  exists k m m0 m6,
    prepare_eval (cell_of3 walk_call) s = ROk tt m0 /\ sp m0 = sp s /\ steps ob k m0 = Some m6 /\
    Vm.run_one ob m6 = ROk true m /\
    (forall fuel, (S k <= fuel)%nat -> eval ob fuel (cell_of3 walk_call) s = halt_result m) /\
    vrep3 m (acc m) v_done /\ genv_rel3 rho m /\ minv m /\ sp m = sp s /\
    (forall j s', (j <= k)%nat -> steps ob j m0 = Some s' -> sp s' <= sp s + 9).
Proof. exact walk_loop_space. Qed.
Print Assumptions C04_loop_space.

(* the twin grows: some state of the run of (if (cnt c) 'yes 'no) has its stack pointer at least
   9 + 5 n slots above the start (one frame of 5 slots per pending call), so the bound above is
   not an artefact of the measure *)
Theorem C04_nontail_grows : forall ob bsem,
  (forall b, builtin_ok ob bsem b) -> (forall b, builtin_envs ob bsem b) ->
  forall n rho s,
  rho (S_ "cnt"%string) = Some cnt_clo -> rho (S_ "c"%string) = Some (chain n) -> minv s -> genv_rel3 rho s ->
  transform_expr TRANSFORM_FUEL s (cell_of3 cnt_top) = Ok (cell_of3 cnt_top) ->
  exists k m m0 m6,
    prepare_eval (cell_of3 cnt_top) s = ROk tt m0 /\ sp m0 = sp s /\ steps ob k m0 = Some m6 /\
    Vm.run_one ob m6 = ROk true m /\
    (forall fuel, (S k <= fuel)%nat -> eval ob fuel (cell_of3 cnt_top) s = halt_result m) /\
    vrep3 m (acc m) (R3Base (RDatum (CSym (S_ "yes"%string)))) /\ sp m = sp s /\
    (exists j s', (j <= k)%nat /\ steps ob j m0 = Some s' /\ sp s + 9 + 5 * N.of_nat n <= sp s').
Proof. exact cnt_stack_grows. Qed.
Print Assumptions C04_nontail_grows.

(* The hypotheses hold on the real machine: [chain_session n] runs, from `vm_empty 8192` with the
   builtin table loaded, the forms walk_def, cnt_def, mk_def, c_def and n times (set! c (mk c))
   (each must end with Done and be left alone by the macro expander); the state it returns
   satisfies minv and represents walk, cnt, mk and c = chain n — for every n. *)
Theorem C04_chain_session_ok : forall n s, chain_session n = Some s ->
  minv s /\ exists rho, genv_rel3 rho s /\
    rho (S_ "walk"%string) = Some walk_clo /\ rho (S_ "cnt"%string) = Some cnt_clo /\
    rho (S_ "mk"%string) = Some mk_clo /\ rho (S_ "c"%string) = Some (chain n).
Proof. exact chain_session_ok. Qed.
Print Assumptions C04_chain_session_ok.

Theorem C04_loop_space_session : forall n s, chain_session n = Some s ->
  transform_expr TRANSFORM_FUEL s (cell_of3 walk_call) = Ok (cell_of3 walk_call) ->
  exists k m m0 m6,
    prepare_eval (cell_of3 walk_call) s = ROk tt m0 /\ sp m0 = sp s /\ steps other_builtin k m0 = Some m6 /\
    Vm.run_one other_builtin m6 = ROk true m /\
    (forall fuel, (S k <= fuel)%nat -> eval other_builtin fuel (cell_of3 walk_call) s = halt_result m) /\
    vrep3 m (acc m) v_done /\ minv m /\ sp m = sp s /\
    (forall j s', (j <= k)%nat -> steps other_builtin j m0 = Some s' -> sp s' <= sp s + 9).
Proof. exact walk_session_space. Qed.
Print Assumptions C04_loop_space_session.

Theorem C04_nontail_grows_session : forall n s, chain_session n = Some s ->
  transform_expr TRANSFORM_FUEL s (cell_of3 cnt_top) = Ok (cell_of3 cnt_top) ->
  exists k m m0 m6,
    prepare_eval (cell_of3 cnt_top) s = ROk tt m0 /\ sp m0 = sp s /\ steps other_builtin k m0 = Some m6 /\
    Vm.run_one other_builtin m6 = ROk true m /\
    (forall fuel, (S k <= fuel)%nat -> eval other_builtin fuel (cell_of3 cnt_top) s = halt_result m) /\
    vrep3 m (acc m) (R3Base (RDatum (CSym (S_ "yes"%string)))) /\ sp m = sp s /\
    (exists j s', (j <= k)%nat /\ steps other_builtin j m0 = Some s' /\ sp s + 9 + 5 * N.of_nat n <= sp s').
Proof. exact cnt_session_grows. Qed.
Print Assumptions C04_nontail_grows_session.

(* FINDING: the builtin hypothesis of the fragment theorems (builtin_ok, C01) is FALSE for cdr:
   cdr answers the address in the cdr FIELD of the pair cell, which may hold a pointer cell
   (get_as_cell follows it), while vrep demands at most one indirection.  So a loop walking a
   quoted list with cdr is outside the proved fragment, and the loop above is driven by closures. *)
Theorem C04_builtin_ok_cdr_refuted : forall bsem r,
  bsem LoopBuiltins.B_CDR [RDatum (CPair (CBool true) CNil)] = Some r ->
  ~ builtin_ok other_builtin bsem LoopBuiltins.B_CDR.
Proof. exact LoopBuiltins.builtin_ok_cdr_refuted. Qed.
Print Assumptions C04_builtin_ok_cdr_refuted.

(* Non-vacuity, on the model machine (vm_compute; `measures n` = for the state of chain_session n:
   (hw - sp s, value, final sp) of (walk c) and of (if (cnt c) 'yes 'no), both checked to be left
   alone by the macro expander — the remaining hypothesis of the two _session theorems): chains of
   1, 5 and 50 thunks.  The loop: the SAME maximum 9 = the proved bound; the twin: 9 + 5 n. *)
Example C04_loop_space_1 : measures 1 = Some ((9, CSym (S_ "done"%string), 0), (14, CSym (S_ "yes"%string), 0)).
Proof. exact measures_1. Qed.
Example C04_loop_space_5 : measures 5 = Some ((9, CSym (S_ "done"%string), 0), (34, CSym (S_ "yes"%string), 0)).
Proof. exact measures_5. Qed.
Example C04_loop_space_50 : measures 50 = Some ((9, CSym (S_ "done"%string), 0), (259, CSym (S_ "yes"%string), 0)).
Proof. exact measures_50. Qed.

(* MUTUAL recursion: (define ping (lambda (l) (if l (pong (l)) 'done))) and
   (define pong (lambda (l) (if l (ping (l)) 'done))): n alternating tail calls, the same bound;
   the model on chains of 1, 5, 50 thunks: maximum 9 every time. *)
Theorem C04_loop_space_mutual : forall ob bsem,
  (forall b, builtin_ok ob bsem b) -> (forall b, builtin_envs ob bsem b) ->
  forall n rho s,
  rho (S_ "ping"%string) = Some ping_clo -> rho (S_ "pong"%string) = Some pong_clo ->
  rho (S_ "c"%string) = Some (chain n) -> minv s -> genv_rel3 rho s ->
  transform_expr TRANSFORM_FUEL s (cell_of3 ping_call) = Ok (cell_of3 ping_call) ->
  exists k m m0 m6,
    prepare_eval (cell_of3 ping_call) s = ROk tt m0 /\ sp m0 = sp s /\ steps ob k m0 = Some m6 /\
    Vm.run_one ob m6 = ROk true m /\
    (forall fuel, (S k <= fuel)%nat -> eval ob fuel (cell_of3 ping_call) s = halt_result m) /\
    vrep3 m (acc m) v_done /\ genv_rel3 rho m /\ minv m /\ sp m = sp s /\
    (forall j s', (j <= k)%nat -> steps ob j m0 = Some s' -> sp s' <= sp s + 9).
Proof. exact pingpong_loop_space. Qed.
Print Assumptions C04_loop_space_mutual.
Example C04_loop_space_mutual_run :
  pingpong_measure 1 = Some (9, CSym (S_ "done"%string), 0) /\
  pingpong_measure 5 = Some (9, CSym (S_ "done"%string), 0) /\
  pingpong_measure 50 = Some (9, CSym (S_ "done"%string), 0).
Proof. exact pingpong_measures. Qed.
