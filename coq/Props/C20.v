(* C20 — the REPL highlighter marks exactly the matching bracket and nothing else.
   Only statements, each closed by [exact] of a lemma proved in Proofs/, with its
   assumptions printed.  The model is Model/Highlight.v over Model/Lex.v.       *)
From MW Require Import Model.Base Model.Lex Model.Highlight Proofs.LexProofs Proofs.HighlightProofs.
Open Scope N_scope.

(* neither call panics or hangs, for any text and any cursor (past the end, inside
   a multi-byte character) *)
Theorem C20_highlight_total : forall t index, exists r, highlight t index = Ok r.
Proof. exact highlight_total. Qed.
Print Assumptions C20_highlight_total.

(* the output is the text unchanged, or the text with one escape pair around one
   whole token [p] — and which of the two is decided by the cursor token and its
   match *)
Theorem C20_highlight_shape : forall t index,
  match scan t with
  | Ok ts =>
      match find_token_at_cursor ts index with
      | Some cur =>
          match find_matching_bracket ts cur with
          | Some p => exists pre mid post,
              t = pre ++ mid ++ post /\ mid <> [] /\
              t_start p = blen pre /\ t_end p = blen pre + blen mid /\
              highlight t index = Ok (pre ++ ESC_ON ++ mid ++ ESC_OFF ++ post)
          | None => highlight t index = Ok t
          end
      | None => highlight t index = Ok t
      end
  | _ => highlight t index = Ok t
  end.
Proof. exact highlight_spec. Qed.
Print Assumptions C20_highlight_shape.

(* the cursor token is the token covering the cursor, else the one covering the
   previous byte *)
Theorem C20_cursor_token : forall ts index k t,
  find_token_at_cursor ts index = Some (k, t) ->
  nth_error ts k = Some t /\
  (t_start t <= index < t_end t \/ (0 < index /\ t_start t <= index - 1 < t_end t)).
Proof. exact find_token_at_cursor_spec. Qed.
Print Assumptions C20_cursor_token.

(* from a closing bracket the counter scan returns exactly the bracket that the
   standard left-to-right stack matching pops at that position; `#(` counts as an
   opening bracket ([kind_of]); holds for arbitrary, also unbalanced, token lists *)
Theorem C20_backward_is_stack_partner : forall ts j t p,
  nth_error ts j = Some t -> kind_of t = KClose ->
  (find_matching_bracket ts (j, t) = Some p <-> exists i, partner ts i j /\ nth_error ts i = Some p).
Proof. exact backward_partner. Qed.
Print Assumptions C20_backward_is_stack_partner.

(* from an opening bracket (or vector opener) it returns the first closing bracket
   that pops it, and nothing when no closing bracket pops it *)
Theorem C20_forward_is_stack_partner : forall ts i t,
  nth_error ts i = Some t -> kind_of t = KOpen ->
  match find_matching_bracket ts (i, t) with
  | Some p => exists j, nth_error ts j = Some p /\ partner ts i j /\
                        forall j', (i < j' < j)%nat -> ~ partner ts i j'
  | None => forall j, ~ partner ts i j
  end.
Proof. exact forward_partner. Qed.
Print Assumptions C20_forward_is_stack_partner.

(* tokens other than brackets have no partner: text unchanged *)
Theorem C20_non_bracket_unchanged : forall ts b,
  kind_of (snd b) = KOther -> find_matching_bracket ts b = None.
Proof.
  intros ts b H. unfold find_matching_bracket. unfold kind_of in H.
  destruct (norm_ty (t_ty (snd b))); try reflexivity; discriminate.
Qed.
Print Assumptions C20_non_bracket_unchanged.

(* the bracket-check predicate never panics and is true only if a bracket token
   lies within one position of the cursor *)
Theorem C20_check_sound : forall t index,
  (exists b, highlight_check t index = Ok b) /\
  (highlight_check t index = Ok true ->
   exists ts k, scan t = Ok ts /\ In k ts /\ is_paren k = true /\
                t_start k <= index /\ index <= t_end k + 1).
Proof. exact highlight_check_sound. Qed.
Print Assumptions C20_check_sound.

(* brackets inside strings, character literals and comments are not tokens of
   bracket type: every token is a run of whole characters and the stretches between
   tokens are whitespace/comments (shared with C11) *)
Theorem C20_tokens_tile_text : forall t ts, scan t = Ok ts -> toks_at 0 t ts.
Proof. exact scan_wf. Qed.
Print Assumptions C20_tokens_tile_text.

(* non-vacuity: a concrete text where a vector opener takes part in the nesting *)
Example C20_example :
  highlight [40;35;40;97;41;41] 5 = Ok ([27;91;52;109;40;27;91;48;109] ++ [35;40;97;41;41])
  /\ highlight [40;35;40;97;41;41] 0 = Ok ([40;35;40;97;41] ++ [27;91;52;109;41;27;91;48;109]).
Proof. split; vm_compute; reflexivity. Qed.
