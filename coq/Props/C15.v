(* C15 — string and character procedures index by character over all of Unicode.
   Only statements, each closed by [exact] of a lemma proved in Proofs/StrProofs.v, with
   its assumptions printed.  The model is Model/Str.v (builtin/string.rs, builtin/char.rs
   as written, with the fix: commits named there) over Gen/CaseTables.v.               *)
From MW Require Import Model.Base Model.F64 Model.Num Model.Datum Model.TransformDef
  Model.VmTypes Model.Heap Model.VmBase Model.Str Proofs.StrProofs.
Open Scope N_scope.

(* ---- the byte-offset code against the vector-of-scalars specification ---- *)

(* string-ref: the i-th scalar value, an error exactly when i is not below the length *)
Theorem C15_string_ref_spec : forall t i,
  string_ref_core t i = match spec_ref t i with Some c => Ok c | None => Err E_OTHER end.
Proof. exact string_ref_core_spec. Qed.
Print Assumptions C15_string_ref_spec.

Theorem C15_string_ref_errors_iff_invalid : forall t i,
  (exists e, string_ref_core t i = Err e) <-> len t <= i.
Proof. exact string_ref_errors_iff_invalid. Qed.
Print Assumptions C15_string_ref_errors_iff_invalid.

(* string-set!: replace_range over the byte range of the old character puts the new
   character at position i whatever the two byte widths; error iff i >= length; never a
   panic (the range is on character boundaries) *)
Theorem C15_string_set_spec : forall t i c,
  string_set_core t i c = if i <? len t then Ok (spec_set t i c) else Err E_OTHER.
Proof. exact string_set_core_spec. Qed.
Print Assumptions C15_string_set_spec.

(* ... and exactly the addressed character changes *)
Theorem C15_string_set_frame : forall t i c j,
  i < len t ->
  length (spec_set t i c) = length t /\
  nth_error (spec_set t i c) (N.to_nat j) = if j =? i then Some c else nth_error t (N.to_nat j).
Proof. intros t i c j H. split; [now apply spec_set_length | now apply spec_set_nth]. Qed.
Print Assumptions C15_string_set_frame.

(* substring / string-copy / string->list: the characters start..end-1, an error exactly
   when not 0 <= start <= end <= length (after aaefa9e), never a panic *)
Theorem C15_substring_spec : forall t start end_,
  args_ok start end_ ->
  substring_core t start end_ =
  if range_ok t start end_ then Ok (spec_sub t (range_start start) (range_end t end_)) else Err E_OTHER.
Proof. exact substring_core_spec. Qed.
Print Assumptions C15_substring_spec.

Theorem C15_substring_chars : forall t a b j,
  a <= b -> b <= len t ->
  nth_error (spec_sub t a b) (N.to_nat j) = if j <? b - a then nth_error t (N.to_nat (a + j)) else None.
Proof. exact spec_sub_nth. Qed.
Print Assumptions C15_substring_chars.

(* string-fill!: the characters start..end-1 become c, everything else and the length stay *)
Theorem C15_string_fill_spec : forall t start end_ c,
  args_ok start end_ ->
  string_fill_core t start end_ c =
  if range_ok t start end_ then Ok (spec_fill t (range_start start) (range_end t end_) c) else Err E_OTHER.
Proof. exact string_fill_core_spec. Qed.
Print Assumptions C15_string_fill_spec.

Theorem C15_string_fill_frame : forall t a b c j,
  a <= b -> b <= len t -> j < len t ->
  length (spec_fill t a b c) = length t /\
  nth_error (spec_fill t a b c) (N.to_nat j) = if (a <=? j) && (j <? b) then Some c else nth_error t (N.to_nat j).
Proof. intros. split; [now apply spec_fill_length | now apply spec_fill_nth]. Qed.
Print Assumptions C15_string_fill_frame.

(* the order `<`/`==` of Rust's str (bytewise on UTF-8) is the lexicographic order on the
   scalar values, for every pair of texts *)
Theorem C15_str_order_is_code_point_order : forall x y, str_cmp x y = lex_cmp x y.
Proof. exact str_cmp_code_points. Qed.
Print Assumptions C15_str_order_is_code_point_order.

Theorem C15_lex_order_characterised : forall a b,
  (lex_cmp a b = Eq <-> a = b) /\
  (lex_cmp a b = Lt <->
   exists p, (exists y q, a = p /\ b = p ++ y :: q) \/
             (exists x y q1 q2, a = p ++ x :: q1 /\ b = p ++ y :: q2 /\ x < y)).
Proof. intros a b. split; [apply lex_cmp_eq | apply lex_cmp_lt]. Qed.
Print Assumptions C15_lex_order_characterised.

(* ---- the builtins as the VM calls them (arguments and argc on the stack) ---- *)
Theorem C15_string_ref_refines : forall s sid t iv,
  stack_ok s -> tget (strs (st s)) sid = Some t -> imm iv ->
  let r := run_builtin string_ref [VStr sid; iv] s in
  match as_index iv with
  | Some i =>
      match spec_ref t i with
      | Some c => returns r s (VChar c) (st s)
      | None => fails r s
      end
  | None => fails r s
  end.
Proof. exact string_ref_refines. Qed.
Print Assumptions C15_string_ref_refines.

(* non-vacuity: a four-character string of widths 1,2,4,1 *)
Example C15_ex_set :
  string_set_core [97; 955; 128054; 122] 1 128512 = Ok [97; 128512; 128054; 122]
  /\ string_set_core [97; 955; 128054; 122] 4 97 = Err E_OTHER
  /\ substring_core [97; 955; 128054; 122] (Some 1) (Some 3) = Ok [955; 128054]
  /\ string_fill_core [97; 955; 128054; 122] (Some 1) None 8364 = Ok [97; 8364; 8364; 8364].
Proof. vm_compute. auto. Qed.
