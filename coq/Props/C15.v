(* C15 — string and character procedures index by character over all of Unicode.
   Only statements, each closed by [exact] of a lemma proved in Proofs/StrProofs.v, with
   its assumptions printed.  The model is Model/Str.v (builtin/string.rs, builtin/char.rs
   as written, with the fix: commits named there) over Gen/CaseTables.v.               *)
From MW Require Import Model.Base Model.F64 Model.Num Model.Datum Model.TransformDef
  Model.VmTypes Model.Heap Model.VmBase Model.Str Proofs.StrProofs Proofs.StrHeapProofs.
Open Scope N_scope.

(* ---- the byte-offset code against the vector-of-scalars specification ---- *)

(* string-ref: the i-th scalar value, an error exactly when i is not below the length *)
Theorem C15_string_ref_spec : forall t i,
  string_ref_core t i = match spec_ref t i with Some c => Ok c | None => Err E_OTHER end.
Proof. exact string_ref_core_spec. Qed.
Print Assumptions C15_string_ref_spec.

Theorem C15_string_ref_errors_iff_invalid : forall t i,
  (exists e, string_ref_core t i = Err e) <-> len t <= i.
Proof. exact string_ref_errors_iff_invalid. Qed.
Print Assumptions C15_string_ref_errors_iff_invalid.

(* string-set!: replace_range over the byte range of the old character puts the new
   character at position i whatever the two byte widths; error iff i >= length; never a
   panic (the range is on character boundaries) *)
Theorem C15_string_set_spec : forall t i c,
  string_set_core t i c = if i <? len t then Ok (spec_set t i c) else Err E_OTHER.
Proof. exact string_set_core_spec. Qed.
Print Assumptions C15_string_set_spec.

(* ... and exactly the addressed character changes *)
Theorem C15_string_set_frame : forall t i c j,
  i < len t ->
  length (spec_set t i c) = length t /\
  nth_error (spec_set t i c) (N.to_nat j) = if j =? i then Some c else nth_error t (N.to_nat j).
Proof. intros t i c j H. split; [now apply spec_set_length | now apply spec_set_nth]. Qed.
Print Assumptions C15_string_set_frame.

(* substring / string-copy / string->list: the characters start..end-1, an error exactly
   when not 0 <= start <= end <= length (after aaefa9e), never a panic *)
Theorem C15_substring_spec : forall t start end_,
  args_ok start end_ ->
  substring_core t start end_ =
  if range_ok t start end_ then Ok (spec_sub t (range_start start) (range_end t end_)) else Err E_OTHER.
Proof. exact substring_core_spec. Qed.
Print Assumptions C15_substring_spec.

Theorem C15_substring_chars : forall t a b j,
  a <= b -> b <= len t ->
  nth_error (spec_sub t a b) (N.to_nat j) = if j <? b - a then nth_error t (N.to_nat (a + j)) else None.
Proof. exact spec_sub_nth. Qed.
Print Assumptions C15_substring_chars.

(* string-fill!: the characters start..end-1 become c, everything else and the length stay *)
Theorem C15_string_fill_spec : forall t start end_ c,
  args_ok start end_ ->
  string_fill_core t start end_ c =
  if range_ok t start end_ then Ok (spec_fill t (range_start start) (range_end t end_) c) else Err E_OTHER.
Proof. exact string_fill_core_spec. Qed.
Print Assumptions C15_string_fill_spec.

Theorem C15_string_fill_frame : forall t a b c j,
  a <= b -> b <= len t -> j < len t ->
  length (spec_fill t a b c) = length t /\
  nth_error (spec_fill t a b c) (N.to_nat j) = if (a <=? j) && (j <? b) then Some c else nth_error t (N.to_nat j).
Proof. intros. split; [now apply spec_fill_length | now apply spec_fill_nth]. Qed.
Print Assumptions C15_string_fill_frame.

(* the order `<`/`==` of Rust's str (bytewise on UTF-8) is the lexicographic order on the
   scalar values, for every pair of texts *)
Theorem C15_str_order_is_code_point_order : forall x y, str_cmp x y = lex_cmp x y.
Proof. exact str_cmp_code_points. Qed.
Print Assumptions C15_str_order_is_code_point_order.

Theorem C15_lex_order_characterised : forall a b,
  (lex_cmp a b = Eq <-> a = b) /\
  (lex_cmp a b = Lt <->
   exists p, (exists y q, a = p /\ b = p ++ y :: q) \/
             (exists x y q1 q2, a = p ++ x :: q1 /\ b = p ++ y :: q2 /\ x < y)).
Proof. intros a b. split; [apply lex_cmp_eq | apply lex_cmp_lt]. Qed.
Print Assumptions C15_lex_order_characterised.

(* ---- the builtins as the VM calls them: [run_builtin f args s] pushes the arguments and
   argc on the model stack of [s] and runs the model of the Rust function.  [returns r s v x]:
   the call returned v, the Rc store is x, heap and stack pointer are those of s.
   [fails r s]: an error was returned, store and heap are those of s.  [imm v]: v is not a
   heap pointer (numbers, characters, strings are passed as such).                      ---- *)

Theorem C15_string_length_refines : forall s sid t,
  stack_ok s -> tget (strs (st s)) sid = Some t ->
  returns (run_builtin string_length [VStr sid] s) s (VNum (num_of_usize (len t))) (st s).
Proof. exact string_length_refines. Qed.
Print Assumptions C15_string_length_refines.

Theorem C15_string_ref_refines : forall s sid t iv,
  stack_ok s -> tget (strs (st s)) sid = Some t -> imm iv ->
  let r := run_builtin string_ref [VStr sid; iv] s in
  match as_index iv with
  | Some i =>
      match spec_ref t i with
      | Some c => returns r s (VChar c) (st s)
      | None => fails r s
      end
  | None => fails r s
  end.
Proof. exact string_ref_refines. Qed.
Print Assumptions C15_string_ref_refines.

Theorem C15_string_ref_errors_iff_invalid_vm : forall s sid t iv i,
  stack_ok s -> tget (strs (st s)) sid = Some t -> imm iv -> as_index iv = Some i ->
  (fails (run_builtin string_ref [VStr sid; iv] s) s <-> len t <= i).
Proof. exact string_ref_errors_iff_invalid_vm. Qed.
Print Assumptions C15_string_ref_errors_iff_invalid_vm.

(* string-set!: only the string sid changes in the store (set_str), and in it exactly
   position i (C15_string_set_frame) *)
Theorem C15_string_set_refines : forall s sid t iv c,
  stack_ok s -> tget (strs (st s)) sid = Some t -> imm iv ->
  let r := run_builtin string_set [VStr sid; iv; VChar c] s in
  match as_index iv with
  | Some i =>
      if i <? len t then returns r s VVoid (set_str (st s) sid (spec_set t i c)) else fails r s
  | None => fails r s
  end.
Proof. exact string_set_refines. Qed.
Print Assumptions C15_string_set_refines.

Theorem C15_string_set_errors_iff_invalid : forall s sid t iv i c,
  stack_ok s -> tget (strs (st s)) sid = Some t -> imm iv -> as_index iv = Some i ->
  (fails (run_builtin string_set [VStr sid; iv; VChar c] s) s <-> len t <= i).
Proof. exact string_set_errors_iff_invalid. Qed.
Print Assumptions C15_string_set_errors_iff_invalid.

(* the store after a mutation / an allocation: exactly one entry differs *)
Theorem C15_store_frame : forall x i t j,
  tget (strs (set_str x i t)) j = (if j =? i then Some t else tget (strs x) j) /\
  tget (strs (snd (new_str x t))) j = (if j =? next_id x then Some t else tget (strs x) j).
Proof. intros. split; [apply set_str_strs | apply new_str_strs]. Qed.
Print Assumptions C15_store_frame.

Theorem C15_string_copy_refines : forall s sid t a b,
  stack_ok s -> tget (strs (st s)) sid = Some t -> opt_imm a -> opt_imm b ->
  let r := run_builtin string_copy (VStr sid :: range_args a b) s in
  match range_decode a b with
  | Some (start, end_) =>
      if range_ok t start end_
      then returns r s (VStr (next_id (st s)))
             (snd (new_str (st s) (spec_sub t (range_start start) (range_end t end_))))
      else fails r s
  | None => fails r s
  end.
Proof. exact string_copy_refines. Qed.
Print Assumptions C15_string_copy_refines.

Theorem C15_string_copy_errors_iff_invalid : forall s sid t a b start end_,
  stack_ok s -> tget (strs (st s)) sid = Some t -> opt_imm a -> opt_imm b ->
  range_decode a b = Some (start, end_) ->
  (fails (run_builtin string_copy (VStr sid :: range_args a b) s) s <-> range_ok t start end_ = false).
Proof. exact string_copy_errors_iff_invalid. Qed.
Print Assumptions C15_string_copy_errors_iff_invalid.

Theorem C15_substring_refines : forall s sid t x y,
  stack_ok s -> tget (strs (st s)) sid = Some t -> imm x -> imm y ->
  let r := run_builtin (substring 3) [VStr sid; x; y] s in
  match as_index x, as_index y with
  | Some i, Some j =>
      if range_ok t (Some i) (Some j)
      then returns r s (VStr (next_id (st s))) (snd (new_str (st s) (spec_sub t i j)))
      else fails r s
  | _, _ => fails r s
  end.
Proof. exact substring_refines. Qed.
Print Assumptions C15_substring_refines.

Theorem C15_string_fill_refines : forall s sid t c a b,
  stack_ok s -> tget (strs (st s)) sid = Some t -> opt_imm a -> opt_imm b ->
  let r := run_builtin string_fill (VStr sid :: VChar c :: range_args a b) s in
  match range_decode a b with
  | Some (start, end_) =>
      if range_ok t start end_
      then returns r s VVoid
             (set_str (st s) sid (spec_fill t (range_start start) (range_end t end_) c))
      else fails r s
  | None => fails r s
  end.
Proof. exact string_fill_refines. Qed.
Print Assumptions C15_string_fill_refines.

Theorem C15_string_fill_errors_iff_invalid : forall s sid t c a b start end_,
  stack_ok s -> tget (strs (st s)) sid = Some t -> opt_imm a -> opt_imm b ->
  range_decode a b = Some (start, end_) ->
  (fails (run_builtin string_fill (VStr sid :: VChar c :: range_args a b) s) s
   <-> range_ok t start end_ = false).
Proof. exact string_fill_errors_iff_invalid. Qed.
Print Assumptions C15_string_fill_errors_iff_invalid.

(* string->list: the selected characters, last first, go to the heap list builder *)
Theorem C15_string_list_refines : forall s sid t a b,
  stack_ok s -> tget (strs (st s)) sid = Some t -> opt_imm a -> opt_imm b ->
  let r := run_builtin string_list (VStr sid :: range_args a b) s in
  match range_decode a b with
  | Some (start, end_) =>
      if range_ok t start end_
      then exists s2, st s2 = st s /\ hp s2 = hp s /\ sp s2 = sp s /\
             r = (dom nl <- hput VNil;
                  chars_to_list (rev (spec_sub t (range_start start) (range_end t end_))) nl) s2
      else fails r s
  | None => fails r s
  end.
Proof. exact string_list_refines. Qed.
Print Assumptions C15_string_list_refines.

Theorem C15_string_vector_refines : forall s sid t,
  stack_ok s -> tget (strs (st s)) sid = Some t ->
  returns (run_builtin string_vector [VStr sid] s) s (VVec (next_id (st s)))
    (snd (new_vec (st s) (map VChar t))).
Proof. exact string_vector_refines. Qed.
Print Assumptions C15_string_vector_refines.

Theorem C15_vector_string_refines : forall s vid l,
  stack_ok s -> tget (vecs (st s)) vid = Some l -> Forall imm l ->
  let r := run_builtin vector_string [VVec vid] s in
  match chars_of l with
  | Some cs => returns r s (VStr (next_id (st s))) (snd (new_str (st s) cs))
  | None => fails r s
  end.
Proof. exact vector_string_refines. Qed.
Print Assumptions C15_vector_string_refines.

(* list->string on a proper list of characters held in the heap; the bound on the length
   is the list's acyclicity (every pair occupies its own heap cell) *)
Theorem C15_list_string_refines : forall s arg v cs,
  stack_ok s -> heap_deref (hp s) arg = Ok v -> heap_chars (hp s) v cs ->
  (length cs <= N.to_nat (hlen (hp s)))%nat ->
  returns (run_builtin list_string [arg] s) s (VStr (next_id (st s))) (snd (new_str (st s) cs)).
Proof. exact list_string_refines. Qed.
Print Assumptions C15_list_string_refines.

Theorem C15_string_refines : forall s cs,
  stack_ok s ->
  returns (run_builtin string_ (map VChar cs) s) s (VStr (next_id (st s))) (snd (new_str (st s) cs)).
Proof. exact string_refines. Qed.
Print Assumptions C15_string_refines.

Theorem C15_make_string_refines : forall s kv oc,
  stack_ok s -> imm kv ->
  let r := run_builtin make_string (kv :: fill_arg oc) s in
  match as_usize kv with
  | Some k => returns r s (VStr (next_id (st s)))
                (snd (new_str (st s) (repeat (fill_char oc) (N.to_nat k))))
  | None => fails r s
  end.
Proof. exact make_string_refines. Qed.
Print Assumptions C15_make_string_refines.

Theorem C15_string_append_refines : forall s sids ts,
  stack_ok s -> Forall2 (lookup s) sids ts ->
  returns (run_builtin string_append (map VStr sids) s) s (VStr (next_id (st s)))
    (snd (new_str (st s) (concat ts))).
Proof. exact string_append_refines. Qed.
Print Assumptions C15_string_append_refines.

(* the ordering and equality predicates: every adjacent pair of arguments related by the
   lexicographic order on scalar values (cmp_holds o = the relation named by o) *)
Theorem C15_string_cmp_refines : forall o s sids ts,
  stack_ok s -> Forall2 (lookup s) sids ts -> sids <> [] ->
  returns (run_builtin (string_cmp o) (map VStr sids) s) s
    (VBool (chain (fun x y => cmp_holds o (lex_cmp x y)) ts)) (st s).
Proof. exact string_cmp_refines. Qed.
Print Assumptions C15_string_cmp_refines.

(* the -ci variants: the same after std's str::to_lowercase (oracle tables + Final_Sigma) *)
Theorem C15_string_ci_cmp_refines : forall o s sids ts,
  stack_ok s -> Forall2 (lookup s) sids ts -> sids <> [] ->
  returns (run_builtin (string_ci_cmp o) (map VStr sids) s) s
    (VBool (chain (fun x y => cmp_holds o (lex_cmp (str_to_lowercase x) (str_to_lowercase y))) ts)) (st s).
Proof. exact string_ci_cmp_refines. Qed.
Print Assumptions C15_string_ci_cmp_refines.

Theorem C15_string_case_refines : forall s sid t,
  stack_ok s -> tget (strs (st s)) sid = Some t ->
  returns (run_builtin string_upcase [VStr sid] s) s (VStr (next_id (st s)))
    (snd (new_str (st s) (str_to_uppercase t))) /\
  returns (run_builtin string_downcase [VStr sid] s) s (VStr (next_id (st s)))
    (snd (new_str (st s) (str_to_lowercase t))) /\
  returns (run_builtin string_foldcase [VStr sid] s) s (VStr (next_id (st s)))
    (snd (new_str (st s) (str_to_lowercase t))).
Proof.
  intros s sid t H1 H2. split; [|split].
  - exact (string_upcase_refines s sid t H1 H2).
  - exact (string_downcase_refines s sid t H1 H2).
  - exact (string_foldcase_refines s sid t H1 H2).
Qed.
Print Assumptions C15_string_case_refines.

(* characters *)
Theorem C15_char_to_integer_refines : forall s c,
  stack_ok s -> returns (run_builtin char_to_integer [VChar c] s) s (VNum (Fixnum (Z.of_N c))) (st s).
Proof. exact char_to_integer_refines. Qed.
Print Assumptions C15_char_to_integer_refines.

Theorem C15_integer_to_char_refines : forall s n,
  stack_ok s ->
  let r := run_builtin integer_to_char [VNum n] s in
  match (if num_is_integer n then num_to_u32 n else None) with
  | Some u => if is_scalar u then returns r s (VChar u) (st s) else fails r s
  | None => fails r s
  end.
Proof. exact integer_to_char_refines. Qed.
Print Assumptions C15_integer_to_char_refines.

(* for an exact integer: an error exactly below 0, on the surrogates, above 0x10FFFF *)
Theorem C15_integer_to_char_errors_iff_invalid : forall s z,
  stack_ok s ->
  let r := run_builtin integer_to_char [VNum (Fixnum z)] s in
  if ((0 <=? z) && (z <? 0xD800) || (0xDFFF <? z) && (z <? 0x110000))%Z
  then returns r s (VChar (Z.to_N z)) (st s) else fails r s.
Proof. exact integer_to_char_fixnum. Qed.
Print Assumptions C15_integer_to_char_errors_iff_invalid.

Theorem C15_integer_char_roundtrip : forall s c,
  stack_ok s -> is_scalar c = true ->
  returns (run_builtin integer_to_char [VNum (Fixnum (Z.of_N c))] s) s (VChar c) (st s).
Proof. exact integer_char_roundtrip. Qed.
Print Assumptions C15_integer_char_roundtrip.

(* predicates and case mapping of characters: the oracle tables of std *)
Theorem C15_char_pred_refines : forall p s c,
  stack_ok s -> returns (run_builtin (char_pred p) [VChar c] s) s (VBool (p c)) (st s).
Proof. exact char_pred_refines. Qed.
Print Assumptions C15_char_pred_refines.

Theorem C15_char_map_refines : forall f s c,
  stack_ok s -> returns (run_builtin (char_map f) [VChar c] s) s (VChar (f c)) (st s).
Proof. exact char_map_refines. Qed.
Print Assumptions C15_char_map_refines.

Theorem C15_char_comp_refines : forall comp s cs,
  stack_ok s -> cs <> [] ->
  returns (run_builtin (char_comp comp) (map VChar cs) s) s (VBool (chain comp cs)) (st s).
Proof. exact char_comp_refines. Qed.
Print Assumptions C15_char_comp_refines.

(* no panic *)
Theorem C15_index_procedures_no_panic : forall s sid t,
  stack_ok s -> tget (strs (st s)) sid = Some t ->
  (forall iv, imm iv -> no_panic (run_builtin string_ref [VStr sid; iv] s)) /\
  (forall iv c, imm iv -> no_panic (run_builtin string_set [VStr sid; iv; VChar c] s)) /\
  (forall a b, opt_imm a -> opt_imm b -> no_panic (run_builtin string_copy (VStr sid :: range_args a b) s)) /\
  (forall c a b, opt_imm a -> opt_imm b ->
     no_panic (run_builtin string_fill (VStr sid :: VChar c :: range_args a b) s)).
Proof.
  intros s sid t H1 H2. repeat split; intros.
  - now apply (string_ref_no_panic s sid t).
  - now apply (string_set_no_panic s sid t).
  - now apply (string_copy_no_panic s sid t).
  - now apply (string_fill_no_panic s sid t).
Qed.
Print Assumptions C15_index_procedures_no_panic.

(* (the theorems about integer->char and make-string mention the Float arm of the number
   conversions, whose Flocq definitions carry the standard real-number axioms) *)
Theorem C15_integer_to_char_no_panic : forall s n,
  stack_ok s -> no_panic (run_builtin integer_to_char [VNum n] s).
Proof. exact integer_to_char_no_panic. Qed.
Print Assumptions C15_integer_to_char_no_panic.

Theorem C15_cores_no_panic : forall t,
  (forall i, exists r, string_ref_core t i = Ok r \/ string_ref_core t i = Err E_OTHER) /\
  (forall i c, exists r, string_set_core t i c = Ok r \/ string_set_core t i c = Err E_OTHER) /\
  (forall a b, args_ok a b ->
     exists r, substring_core t a b = Ok r \/ substring_core t a b = Err E_OTHER) /\
  (forall a b c, args_ok a b ->
     exists r, string_fill_core t a b c = Ok r \/ string_fill_core t a b c = Err E_OTHER).
Proof. exact cores_no_panic. Qed.
Print Assumptions C15_cores_no_panic.

(* the second half of string->list: from a well-formed heap ([hwf]: free list in range and
   duplicate free, length a positive multiple of the chunk size) the list builder returns a
   pointer to a proper list holding exactly the given characters; the Rc store is untouched *)
Theorem C15_string_list_heap : forall s cs,
  hwf (hp s) ->
  exists v v' s', (dom nl <- hput VNil; chars_to_list (rev cs) nl) s = ROk v s' /\
                  st s' = st s /\ sp s' = sp s /\
                  heap_deref (hp s') v = Ok v' /\ heap_chars (hp s') v' cs.
Proof. exact string_list_heap. Qed.
Print Assumptions C15_string_list_heap.

(* [hwf] holds of a new machine's heap and is kept by every allocation of a plain value *)
Theorem C15_heap_wf_established : forall c, 0 < c -> hwf (heap_new c).
Proof. exact heap_new_wf. Qed.
Print Assumptions C15_heap_wf_established.

(* non-vacuity: a four-character string of widths 1,2,4,1 *)
Example C15_ex_set :
  string_set_core [97; 955; 128054; 122] 1 128512 = Ok [97; 128512; 128054; 122]
  /\ string_set_core [97; 955; 128054; 122] 4 97 = Err E_OTHER
  /\ substring_core [97; 955; 128054; 122] (Some 1) (Some 3) = Ok [955; 128054]
  /\ string_fill_core [97; 955; 128054; 122] (Some 1) None 8364 = Ok [97; 8364; 8364; 8364].
Proof. vm_compute. auto. Qed.

Example C15_ex_order :
  str_cmp [0xFFFF] [0x10000] = Lt /\ lex_cmp [97; 955] [97; 955; 0] = Lt /\ str_cmp [233] [101; 769] = Gt.
Proof. vm_compute. auto. Qed.

(* the hypotheses of the VM-level theorems are satisfiable: the machine of the wire model
   with one pool string *)
Example C15_ex_vm :
  let s := with_store (vm_empty 64) (snd (new_str store_empty [97; 955; 128054])) in
  stack_ok s /\ tget (strs (st s)) 0 = Some [97; 955; 128054] /\
  (exists s', run_builtin string_ref [VStr 0; VNum (Fixnum 2)] s = ROk (VChar 128054) s') /\
  (exists e m s', run_builtin string_ref [VStr 0; VNum (Fixnum 3)] s = RErr e m s').
Proof. vm_compute. repeat split; eauto. Qed.
