(* C03 — garbage collection is unobservable and never reclaims a live object.
   Statements only; proofs in Proofs/GcProofs.v, Proofs/SymtabProofs.v, Proofs/PmapProofs.v.
   The model is Model/Gc.v (gc.rs, heap.rs:76-83/335-511, run.rs:482-508 as written) over
   Model/VmTypes.v / Model/Heap.v.  The theorems are about the heap, the collector and the
   root enumeration as functions of a machine state; the run loop is not modelled here:
   roots_complete / no_dangling / step_respects_heap_iso are OPEN (stated at the end), and
   schedule-unobservability of whole programs is carried by the correspondence check. *)
From Coq Require Import Permutation.
From MW Require Import Model.Base Model.Num Model.VmTypes Model.Heap Model.Gc
  Proofs.GcProofs Proofs.SymtabProofs Proofs.PmapProofs.
Open Scope N_scope.

(* the anchored "two bits per cell" mechanism: the packed byte map of gc.rs behaves as the
   abstract table the collector model uses *)
Theorem C03_packed_map_get_set : forall m i s m', pmap_wf m -> pmap_set m i s = Ok m' ->
  pmap_wf m' /\ forall j, pmap_get m' j = if i =? j then Ok (Some s) else pmap_get m j.
Proof. exact pmap_get_set. Qed.
Print Assumptions C03_packed_map_get_set.

Theorem C03_packed_map_new : forall size m, pmap_new size = Ok m ->
  pmap_wf m /\ forall j, pmap_get m j = Ok (if j <? size then Some GFree else None).
Proof. exact pmap_new_spec. Qed.
Print Assumptions C03_packed_map_new.

(* mark_exact: from a map with no Used cell, after marking the roots (in any iteration
   order [order] of the bindings table) a cell is Used iff it is inside the heap and
   reachable from the roots through [cref] — whatever the fuel, provided marking returned *)
Theorem C03_mark_exact : forall vd fuel order v m0 m',
  (forall a, g_is_used m0 a = false) ->
  mark_roots vd fuel order v m0 = Ok m' ->
  forall a, g_is_used m' a = true <->
            (a < hlen (hp v) /\ reach_from (hp v) (st v) (root order v) a).
Proof. exact mark_exact. Qed.
Print Assumptions C03_mark_exact.

(* the HashMap iteration order does not matter *)
Theorem C03_order_irrelevant : forall v order a, Permutation order (map fst (g_bind v)) ->
  (reach_from (hp v) (st v) (root order v) a <-> reach v a).
Proof. exact reach_perm. Qed.
Print Assumptions C03_order_irrelevant.

(* mark_fuel_enough: fuel = number of unmarked cells + 1 suffices for every call of mark
   (Rc payloads nested at most vd deep and present), hence for the whole root enumeration
   with the fuel run_gc computes once *)
Theorem C03_mark_fuel_enough : forall h s vd, heap_closed h s vd ->
  forall f p m, (unmarked h m < f)%nat -> exists m', mark h s vd f p m = Ok m'.
Proof. exact mark_fuel_enough. Qed.
Print Assumptions C03_mark_fuel_enough.

Theorem C03_mark_roots_total : forall vd fuel order v m0,
  roots_closed vd v -> (unmarked (hp v) m0 < fuel)%nat ->
  exists m', mark_roots vd fuel order v m0 = Ok m'.
Proof. exact mark_roots_total. Qed.
Print Assumptions C03_mark_roots_total.

(* sweep_exact: sweep never fails; exactly the Allocated cells become Free, are overwritten
   with Undefined, pushed on the free list once (ascending, so the highest is popped first)
   and lose their symbol-table entry iff they held a symbol; Used cells become Allocated and
   are otherwise untouched; nothing else changes *)
Theorem C03_sweep_exact : forall h, exists h', sweep h = Ok h' /\ hlen h' = hlen h /\ chunk h' = chunk h
  /\ (forall a, g_get (gcmap h') a =
        if a <? hlen h then swept_state (g_get (gcmap h) a) else g_get (gcmap h) a)
  /\ (forall a, cell_at h' a =
        if (a <? hlen h) && st_alloc (g_get (gcmap h) a) then VUndef else cell_at h a)
  /\ free_list h' = rev (filter (fun a => st_alloc (g_get (gcmap h) a))
                                (range_asc 0 (N.to_nat (hlen h)))) ++ free_list h
  /\ (forall name, symtab_find (symtab h') name =
        if existsb (fun a => st_alloc (g_get (gcmap h) a) && holds_sym (cell_at h a) name)
                   (range_asc 0 (N.to_nat (hlen h)))
        then None else symtab_find (symtab h) name).
Proof. exact sweep_exact. Qed.
Print Assumptions C03_sweep_exact.

(* gc_preserves_live: a collection (mark from the roots + sweep) leaves every reachable
   cell allocated with its contents unchanged ... *)
Theorem C03_gc_preserves_live : forall vd fuel order v h',
  no_used (hp v) ->
  collect vd fuel order v = Ok h' ->
  forall a, a < hlen (hp v) -> reach_from (hp v) (st v) (root order v) a ->
    g_get (gcmap h') a = GAllocated /\ cell_at h' a = cell_at (hp v) a.
Proof. exact gc_preserves_live. Qed.
Print Assumptions C03_gc_preserves_live.

(* ... reclaims every unreachable one ... *)
Theorem C03_gc_reclaims_garbage : forall vd fuel order v h',
  no_used (hp v) ->
  collect vd fuel order v = Ok h' ->
  forall a, a < hlen (hp v) -> ~ reach_from (hp v) (st v) (root order v) a ->
    g_get (gcmap h') a = GFree
    /\ cell_at h' a = (if st_alloc (g_get (gcmap (hp v)) a) then VUndef else cell_at (hp v) a).
Proof. exact gc_reclaims_garbage. Qed.
Print Assumptions C03_gc_reclaims_garbage.

(* ... and a reachable symbol keeps its cell and its symbol-table entry (identity) *)
Theorem C03_gc_preserves_symbols : forall vd fuel order v h' a n,
  heap_inv (hp v) -> no_used (hp v) ->
  collect vd fuel order v = Ok h' ->
  a < hlen (hp v) -> reach_from (hp v) (st v) (root order v) a ->
  g_get (gcmap (hp v)) a <> GFree -> cell_at (hp v) a = VSym n ->
  symtab_find (symtab h') n = Some a /\ cell_at h' a = VSym n /\ g_get (gcmap h') a = GAllocated.
Proof. exact gc_preserves_symbols. Qed.
Print Assumptions C03_gc_preserves_symbols.

(* the heap invariant (free list = free cells without duplicates, interning table exact)
   survives a collection when no reachable address is dangling *)
Theorem C03_heap_inv_collect : forall vd fuel order v h',
  heap_inv (hp v) -> no_used (hp v) ->
  (forall a, a < hlen (hp v) -> reach_from (hp v) (st v) (root order v) a ->
             g_get (gcmap (hp v)) a <> GFree) ->
  collect vd fuel order v = Ok h' -> heap_inv h'.
Proof. exact heap_inv_collect. Qed.
Print Assumptions C03_heap_inv_collect.

(* ---- non-vacuity: a concrete state (GcProofs.ex_vm) meets the hypotheses; the collection
   keeps {0,1,2,4,5}, frees the unreachable cycle 3 and pushes it on the free list *)
Example C03_example_hyps :
  no_used (hp ex_vm) /\ roots_closed 2 ex_vm
  /\ (unmarked (hp ex_vm) (gcmap (hp ex_vm)) < 9)%nat.
Proof.
  split; [apply no_used_by_elements; reflexivity|]. split; [|vm_compute; auto].
  split; [|split; [|split; [reflexivity|vm_compute; reflexivity]]].
  - intros a Ha. change (hlen (hp ex_vm)) with 8 in Ha.
    assert (H : forallb (fun a => cell_closed (st ex_vm) 2 (cell_at (hp ex_vm) a)) (range_asc 0 8) = true)
      by reflexivity.
    rewrite forallb_forall in H. apply H. apply in_range_asc. cbn. split; [apply N.le_0_l|exact Ha].
  - intros x Hx. vm_compute in Hx. destruct Hx as [<-|[<-|[]]]; reflexivity.
Qed.
Example C03_example_run : exists h',
  collect 2 9 [] ex_vm = Ok h'
  /\ map (fun a => g_get (gcmap h') a) [0;1;2;3;4;5;6;7]
     = [GAllocated; GAllocated; GAllocated; GFree; GAllocated; GAllocated; GFree; GFree]
  /\ free_list h' = [3; 7; 6] /\ cell_at h' 3 = VUndef /\ cell_at h' 0 = VPair 1 2
  /\ symtab_find (symtab h') [97] = Some 1.
Proof. eexists. split; [vm_compute; reflexivity|]. vm_compute. repeat split. Qed.

(* ---- OPEN (depend on the run-loop model `step`, built by another package).  Stated over
   an arbitrary step function and dereference trace so that the statement is fixed here. *)
(* roots_complete: every heap address the next instruction dereferences is reachable
   from the roots of the state it runs in.  PROVED for the dereference traces of lexical
   accesses, ENTER, CALL/TCALL, CLOSURE and the operand load of MOV/PUSH (theorems
   C03_roots_complete_* at the end of this file); OPEN for the builtins *)
Definition roots_complete_stmt (step : vm -> out (vm * bool)) (derefs : vm -> list N) : Prop :=
  forall v a, In a (derefs v) -> reach v a.
(* OPEN no_dangling: reachable addresses are allocated, as an invariant of step *)
Definition no_dangling (v : vm) : Prop :=
  forall a, reach v a -> a < hlen (hp v) -> g_get (gcmap (hp v)) a = GAllocated.
Definition no_dangling_stmt (step : vm -> out (vm * bool)) : Prop :=
  forall v v' halt, no_dangling v -> step v = Ok (v', halt) -> no_dangling v'.
(* OPEN step_respects_heap_iso: step commutes with a renaming of heap addresses that is the
   identity on live cells (a freed cell is reused, so runs under different schedules diverge
   in addresses only) *)
Definition step_respects_heap_iso_stmt (step : vm -> out (vm * bool))
           (iso : (N -> N) -> vm -> vm -> Prop) : Prop :=
  forall f v1 v2 v1' halt, iso f v1 v2 -> step v1 = Ok (v1', halt) ->
    exists f' v2', step v2 = Ok (v2', halt) /\ iso f' v1' v2'.

(* ---- roots_complete, first concrete instance (Proofs/RootsProofs.v): a variable
   reference or assignment of the machine of Model/Vm.v (load_lex_slot / store_lex_slot,
   run.rs:394-401 and 424-437).  [lex_derefs k v] = the addresses the access hands to
   Heap::get: %ep and, when slot k of the current environment is a pointer, the
   environment it leads to.  (1) they are reachable from the roots run_gc marks — this IS
   [roots_complete_stmt] for that dereference trace, whatever the step function;
   (2) the trace is complete: the access depends on the heap only through those cells.
   Qualified names: EnvProofs has its own example machine. *)
From MW Require Model.VmBase Model.Vm Proofs.ScopeProofs Proofs.EnvProofs Proofs.RootsProofs.

Theorem C03_roots_complete_lex_access : forall step k,
  roots_complete_stmt step (RootsProofs.lex_derefs k).
Proof. intros step k v a. exact (RootsProofs.lex_derefs_reachable k v a). Qed.
Print Assumptions C03_roots_complete_lex_access.

Theorem C03_lex_load_depends_on_derefs : forall k s s2 v,
  st s2 = st s -> ep s2 = ep s -> hlen (hp s2) = hlen (hp s) ->
  (forall a, In a (RootsProofs.lex_derefs k s) -> cell_at (hp s2) a = cell_at (hp s) a) ->
  Vm.load_lex_slot k s = VmBase.ROk v s -> Vm.load_lex_slot k s2 = VmBase.ROk v s2.
Proof. exact RootsProofs.load_depends_on_derefs. Qed.
Print Assumptions C03_lex_load_depends_on_derefs.

Theorem C03_lex_store_depends_on_derefs : forall k v s s2 u s',
  st s2 = st s -> ep s2 = ep s -> hlen (hp s2) = hlen (hp s) ->
  (forall a, In a (RootsProofs.lex_derefs k s) -> cell_at (hp s2) a = cell_at (hp s) a) ->
  Vm.store_lex_slot k v s = VmBase.ROk u s' ->
  exists s2', Vm.store_lex_slot k v s2 = VmBase.ROk tt s2' /\ st s2' = st s' /\ hp s2' = hp s2.
Proof. exact RootsProofs.store_depends_on_derefs. Qed.
Print Assumptions C03_lex_store_depends_on_derefs.

Example C03_example_lex_access :
  RootsProofs.lex_derefs 1 EnvProofs.ex_s1 = [3; 1] /\
  Vm.load_lex_slot 1 EnvProofs.ex_s1 = VmBase.ROk (VBool true) EnvProofs.ex_s1.
Proof. exact RootsProofs.ex_lex_derefs. Qed.

(* ---- roots_complete, further instances (Proofs/RootsProofs2.v): the addresses ENTER,
   CALL / TCALL, CLOSURE and the operand load of MOV / PUSH hand to Heap::get lie in [reach]
   of the root set mark_roots marks — [roots_complete_stmt] for these traces, whatever the
   step function.  ENTER: %acc's pointer, then the lambda and the closure environment of the
   closure cell; CALL/TCALL: %acc's pointer; CLOSURE: %acc's pointer and %ep; operand load:
   the code object %ip.0, a raw pointer operand of it, or the addresses of a lexical access. *)
From MW Require Proofs.RootsProofs2 Proofs.FlatProofs.

Theorem C03_roots_complete_enter : forall step, roots_complete_stmt step RootsProofs2.enter_derefs.
Proof. intros step v a. exact (RootsProofs2.enter_derefs_reachable v a). Qed.
Print Assumptions C03_roots_complete_enter.

Theorem C03_enter_derefs_complete : forall s lam cep r s',
  Heap.heap_deref (hp s) (acc s) = Ok (VClosure lam cep) -> Vm.enter_frame s = VmBase.ROk r s' ->
  In lam (RootsProofs2.enter_derefs s) /\ In cep (RootsProofs2.enter_derefs s).
Proof. exact RootsProofs2.enter_derefs_complete. Qed.
Print Assumptions C03_enter_derefs_complete.

Theorem C03_roots_complete_call : forall step, roots_complete_stmt step RootsProofs2.call_derefs.
Proof. intros step v a. exact (RootsProofs2.call_derefs_reachable v a). Qed.
Print Assumptions C03_roots_complete_call.

Theorem C03_roots_complete_closure : forall step, roots_complete_stmt step RootsProofs2.closure_derefs.
Proof. intros step v a. exact (RootsProofs2.closure_derefs_reachable v a). Qed.
Print Assumptions C03_roots_complete_closure.

Theorem C03_roots_complete_operand : forall step, roots_complete_stmt step RootsProofs2.operand_derefs.
Proof. intros step v a. exact (RootsProofs2.operand_derefs_reachable v a). Qed.
Print Assumptions C03_roots_complete_operand.

Theorem C03_operand_derefs_complete : forall s p v s',
  Vm.read_operand s = VmBase.ROk (VPtr p) s' -> VmBase.hget p s' = VmBase.ROk v s' ->
  In p (RootsProofs2.operand_derefs s).
Proof. exact RootsProofs2.operand_derefs_complete. Qed.
Print Assumptions C03_operand_derefs_complete.

(* non-vacuity: ENTER on the example machine dereferences %acc = 2 (the closure cell), then
   the lambda at 0 and the closure environment at 1 *)
Example C03_example_enter_derefs :
  RootsProofs2.enter_derefs (EnvProofs.ex_vm (VBool false)) = [2; 0; 1].
Proof. exact RootsProofs2.ex_enter_derefs. Qed.

(* ==== the end-to-end argument for the concrete step [Vm.run_one] (Proofs/GcObsProofs.v,
   GcIso.v, GcIsoPrim.v, GcIsoStep.v, GcIsoSched.v, GcIsoEx.v) ==== *)
From MW Require Proofs.GcObsProofs Proofs.GcIso Proofs.GcIsoPrim Proofs.GcIsoStep Proofs.GcIsoSched
  Proofs.GcIsoEx.

(* (1) what a collection changes: the state after agrees with the state before on the
   registers, payload tables, globals, stack up to sp, heap length and on EVERY cell reachable
   from the roots; the reachable set itself is unchanged *)
Theorem C03_gc_agree : forall vd fuel order v h',
  no_used (hp v) -> Permutation order (map fst (g_bind v)) ->
  collect vd fuel order v = Ok h' -> GcObsProofs.agree_on_reach v (VmBase.with_heap v h').
Proof. exact GcObsProofs.gc_agree. Qed.
Print Assumptions C03_gc_agree.

Theorem C03_reach_collect : forall vd fuel order v h' a,
  no_used (hp v) -> Permutation order (map fst (g_bind v)) ->
  collect vd fuel order v = Ok h' -> (reach (VmBase.with_heap v h') a <-> reach v a).
Proof. exact GcObsProofs.reach_collect. Qed.
Print Assumptions C03_reach_collect.

Theorem C03_agree_reach : forall s1 s2 a, GcObsProofs.agree_on_reach s1 s2 -> (reach s2 a <-> reach s1 a).
Proof. exact GcObsProofs.reach_agree. Qed.
Print Assumptions C03_agree_reach.

(* (3) no_dangling is ESTABLISHED by a collection: afterwards every reachable address inside
   the heap is an allocated cell, and the successors of a reachable cell are allocated with
   their contents intact — no reachable cell points to a freed cell *)
Theorem C03_no_dangling_collect : forall vd fuel order v h',
  no_used (hp v) -> Permutation order (map fst (g_bind v)) ->
  collect vd fuel order v = Ok h' -> no_dangling (VmBase.with_heap v h').
Proof. exact GcObsProofs.no_dangling_collect. Qed.
Print Assumptions C03_no_dangling_collect.

Theorem C03_no_dangling_edges : forall vd fuel order v h' a b,
  no_used (hp v) -> Permutation order (map fst (g_bind v)) ->
  collect vd fuel order v = Ok h' ->
  reach v a -> a < hlen (hp v) -> cref (st v) (cell_at h' a) b -> b < hlen (hp v) ->
  g_get (gcmap h') b = GAllocated /\ cell_at h' b = cell_at (hp v) b.
Proof. exact GcObsProofs.no_dangling_edges. Qed.
Print Assumptions C03_no_dangling_edges.

(* (2) step_respects_heap_iso for [run_one], instruction classes MOV, MOV-immediate, PUSH,
   PUSH %acc, PUSH-immediate, JMP, JNT, RET, HALT ([GcIsoStep.covered]; side conditions: no
   frame-relative read above %sp, no raw heap pointer as MOV destination, RET on a complete
   frame).  [GcIso.srel W s1 s2]: s2 is s1 with every live address renamed by [wf W] (cells,
   stack up to the bound, registers, globals, live payloads; jump targets in bytecode are NOT
   renamed).  [outcome]: a normal or error result of s1 whose heap still fits a usize is
   matched by s2 with the same flag / error class and message, in related states of an
   extended world.  Any builtin table. *)
Theorem C03_run_one_iso : forall ob W s1 s2,
  GcIso.srel W s1 s2 -> GcIsoStep.covered s1 ->
  GcIsoPrim.outcome W (@GcIsoPrim.eqr bool) (Vm.run_one ob s1) (Vm.run_one ob s2).
Proof. exact GcIsoStep.run_one_iso. Qed.
Print Assumptions C03_run_one_iso.

(* the OPEN statement [step_respects_heap_iso_stmt], corrected: restricted to the covered
   instructions and to a result heap that fits a usize (the model's heap is unbounded, the
   null address USIZE_MAX must stay outside it) *)
Theorem C03_step_respects_heap_iso_covered : forall ob f v1 v2 v1' halt,
  GcIsoSched.heap_iso f v1 v2 -> GcIsoStep.covered v1 -> GcIsoPrim.bounded v1' ->
  GcIsoSched.step_of ob v1 = Ok (v1', halt) ->
  exists f' v2', GcIsoSched.step_of ob v2 = Ok (v2', halt) /\ GcIsoSched.heap_iso f' v1' v2'.
Proof. exact GcIsoSched.step_respects_heap_iso_covered. Qed.
Print Assumptions C03_step_respects_heap_iso_covered.

(* live addresses are allocated on both sides: no_dangling as part of the invariant *)
Theorem C03_srel_live_allocated : forall W s1 s2 a, GcIso.srel W s1 s2 -> GcIso.wa W a ->
  allocated (hp s1) a /\ allocated (hp s2) (GcIso.wf W a).
Proof. exact GcIsoSched.srel_live_allocated. Qed.
Print Assumptions C03_srel_live_allocated.

(* a collection on the right-hand machine keeps the relation when the world is tight (every
   live address is reachable from the roots the collector marks) and nothing reachable is free *)
Theorem C03_collect_srel : forall W s1 s2 vd fuel order h',
  GcIso.srel W s1 s2 -> GcIsoSched.tight W s2 -> GcIsoSched.reach_allocated s2 ->
  no_used (hp s2) -> Permutation order (map fst (g_bind s2)) ->
  collect vd fuel order s2 = Ok h' -> GcIso.srel W s1 (VmBase.with_heap s2 h').
Proof. exact GcIsoSched.collect_srel. Qed.
Print Assumptions C03_collect_srel.

(* (4) schedules: for every schedule (true = collect before that instruction) and every
   collector [gc] that keeps "related" (C03_collect_srel gives this for [collect] on tight
   worlds), if the plain run executes covered instructions only, the scheduled run ends the
   same way (same HALT flag, same error class and message) in a related state *)
Theorem C03_sched_unobservable : forall ob (gc : vm -> vm -> Prop),
  (forall s1 s2 s2', GcIsoSched.related s1 s2 -> gc s2 s2' -> GcIsoSched.related s1 s2') ->
  (forall s1 s2, GcIsoSched.related s1 s2 -> exists s2', gc s2 s2') ->
  forall sched s1 s2,
  GcIsoSched.related s1 s2 -> GcIsoSched.plain_ok ob (length sched) s1 ->
  match GcIsoSched.run_plain ob (length sched) s1 with
  | VmBase.ROk b s1' => exists s2', GcIsoSched.run_sched ob gc sched s2 (VmBase.ROk b s2') /\ GcIsoSched.related s1' s2'
  | VmBase.RErr e msg s1' => exists s2', GcIsoSched.run_sched ob gc sched s2 (VmBase.RErr e msg s2') /\ GcIsoSched.related s1' s2'
  | _ => True
  end.
Proof. exact GcIsoSched.sched_unobservable. Qed.
Print Assumptions C03_sched_unobservable.

(* non-vacuity: the machine GcIsoEx.ix_vm (code object PUSH %acc; HALT in cell 0) is related to
   itself, its two instructions are covered, and the plain run halts with sp = 1 *)
Example C03_example_iso : forall ob,
  GcIsoSched.related GcIsoEx.ix_vm GcIsoEx.ix_vm /\ GcIsoSched.plain_ok ob 2 GcIsoEx.ix_vm
  /\ exists s', GcIsoSched.run_plain ob 2 GcIsoEx.ix_vm = VmBase.ROk true s'
                /\ VmBase.sget s' 1 = VUndef /\ sp s' = 1.
Proof. exact GcIsoEx.ix_ok. Qed.
(* non-vacuity of C03_gc_agree: on GcProofs.ex_vm the collection frees cell 3 and the states agree *)
Example C03_example_gc_agree : exists h',
  collect 2 9 [] ex_vm = Ok h' /\ GcObsProofs.agree_on_reach ex_vm (VmBase.with_heap ex_vm h')
  /\ g_get (gcmap h') 3 = GFree /\ g_get (gcmap (hp ex_vm)) 3 = GAllocated.
Proof.
  destruct C03_example_run as (h' & E & _). exists h'. split; [exact E|]. split.
  - apply (C03_gc_agree 2 9 [] ex_vm h'); [apply C03_example_hyps|constructor|exact E].
  - vm_compute in E. injection E as <-. split; reflexivity.
Qed.

(* ====================================================================================
   Work package c03c: allocation, calls, closures, continuations (Proofs/GcIsoAlloc.v,
   GcIsoHmi.v, GcIsoPayload.v, GcIsoStep2.v, GcIsoCall.v, GcIsoClos.v, GcIsoAll.v,
   GcIsoSched2.v, GcIsoBuiltin.v). *)
From MW Require Proofs.GcIsoAlloc Proofs.GcIsoHmi Proofs.GcIsoPayload Proofs.GcIsoStep2 Proofs.GcIsoCall
  Proofs.GcIsoClos Proofs.GcIsoAll Proofs.GcIsoSched2 Proofs.GcIsoEx2.

(* extending a world by a pair of addresses: p1 not live, p2 not the image of a live address,
   both allocated in the new heaps, holding related cells; every cell allocated before is
   untouched.  The two addresses may differ: each heap hands out its own first free cell. *)
Theorem C03_srel_alloc : forall W s1 s2 h1 h2 p1 p2,
  GcIso.srel W s1 s2 -> ~ GcIso.wa W p1 -> (forall a, GcIso.wa W a -> GcIso.wf W a <> p2) ->
  heap_inv h1 -> heap_inv h2 -> hlen h1 <= GcIso.NULL ->
  (forall a, allocated (hp s1) a -> allocated h1 a /\ cell_at h1 a = cell_at (hp s1) a) ->
  (forall a, allocated (hp s2) a -> allocated h2 a /\ cell_at h2 a = cell_at (hp s2) a) ->
  allocated h1 p1 -> allocated h2 p2 ->
  cell_at h2 p2 = GcIso.vmap (GcIso.wf W) (cell_at h1 p1) -> GcIso.vlive W (cell_at h1 p1) ->
  GcIso.srel (GcIsoAlloc.wext W p1 p2) (VmBase.with_heap s1 h1) (VmBase.with_heap s2 h2).
Proof. exact GcIsoAlloc.srel_alloc. Qed.
Print Assumptions C03_srel_alloc.

(* Heap::put on related values: both sides succeed, the results are related pointers in an
   extended world (a symbol may be interned on one side and fresh on the other) *)
Theorem C03_hput_iso : forall W v1 v2, GcIso.vr W v1 v2 ->
  GcIsoPrim.sim W GcIso.vr (VmBase.hput v1) (VmBase.hput v2).
Proof. exact GcIsoAlloc.sim_hput. Qed.
Print Assumptions C03_hput_iso.

Theorem C03_hmaybe_put_iso : forall W v1 v2, GcIso.vr W v1 v2 ->
  GcIsoPrim.sim W GcIso.vr (VmBase.hmaybe_put v1) (VmBase.hmaybe_put v2).
Proof. exact GcIsoPayload.sim_hmaybe_put. Qed.
Print Assumptions C03_hmaybe_put_iso.

(* fresh payloads: the id is the same on both sides and joins the world *)
Theorem C03_env_new_iso : forall W l1 l2, GcIso.lr W l1 l2 ->
  GcIsoPrim.sim W GcIso.vr (Vm.env_new l1) (Vm.env_new l2).
Proof. exact GcIsoPayload.sim_env_new. Qed.
Print Assumptions C03_env_new_iso.
Theorem C03_vec_new_iso : forall W l1 l2, GcIso.lr W l1 l2 ->
  GcIsoPrim.sim W GcIso.vr (VmBase.vec_new l1) (VmBase.vec_new l2).
Proof. exact GcIsoPayload.sim_vec_new. Qed.
Print Assumptions C03_vec_new_iso.
Theorem C03_to_continuation_iso : forall W,
  GcIsoPrim.sim W GcIso.vr Vm.to_continuation Vm.to_continuation.
Proof. exact GcIsoPayload.sim_to_continuation. Qed.
Print Assumptions C03_to_continuation_iso.
(* restoring a live continuation whose saved %sp is inside its saved stack: the saved slots are
   renamed pointwise *)
Theorem C03_restore_continuation_iso : forall W cid, GcIso.wi W (GcIso.PCont cid) ->
  GcIsoHmi.simg W (GcIsoCall.cont_ok cid) (@GcIsoPrim.anyr unit unit)
                (Vm.restore_continuation cid) (Vm.restore_continuation cid).
Proof. exact GcIsoCall.simg_restore_continuation. Qed.
Print Assumptions C03_restore_continuation_iso.

(* the whole instruction set.  [covered_all ob s1] adds to [covered]: CONS, VPUSH, VARARG, ENTER
   unconditionally; CLOSURE when the argument indices of the closure map are inside the frame;
   CALL when the callee is a closure, a lambda, a continuation whose saved %sp is inside its
   saved stack, or a builtin b with [bsim ob b] (run_builtin ob b is a simulation and keeps the
   heap invariant); TCALL the same, with a frame below %sp. *)
Theorem C03_run_one_iso_all : forall ob W s1 s2,
  GcIso.srel W s1 s2 -> GcIsoAll.covered_all ob s1 ->
  GcIsoPrim.outcome W (@GcIsoPrim.eqr bool) (Vm.run_one ob s1) (Vm.run_one ob s2).
Proof. exact GcIsoAll.run_one_iso_all. Qed.
Print Assumptions C03_run_one_iso_all.

Theorem C03_covered_covered_all : forall ob s, GcIsoStep.covered s -> GcIsoAll.covered_all ob s.
Proof. exact GcIsoAll.covered_covered_all. Qed.
Print Assumptions C03_covered_covered_all.

Theorem C03_sched_unobservable_all : forall ob (gc : vm -> vm -> Prop),
  (forall s1 s2 s2', GcIsoSched.related s1 s2 -> gc s2 s2' -> GcIsoSched.related s1 s2') ->
  (forall s1 s2, GcIsoSched.related s1 s2 -> exists s2', gc s2 s2') ->
  forall sched s1 s2,
  GcIsoSched.related s1 s2 -> GcIsoSched2.plain_ok_all ob (length sched) s1 ->
  match GcIsoSched.run_plain ob (length sched) s1 with
  | VmBase.ROk b s1' => exists s2', GcIsoSched.run_sched ob gc sched s2 (VmBase.ROk b s2') /\ GcIsoSched.related s1' s2'
  | VmBase.RErr e msg s1' => exists s2', GcIsoSched.run_sched ob gc sched s2 (VmBase.RErr e msg s2') /\ GcIsoSched.related s1' s2'
  | _ => True
  end.
Proof. exact GcIsoSched2.sched_unobservable_all. Qed.
Print Assumptions C03_sched_unobservable_all.

(* non-vacuity: ax_vm1 and ax_vm2 run PUSH %acc; PUSH %acc; CONS; HALT; they are related, their
   first free cells differ (1 / 2), all four instructions are covered; the left run allocates
   cells 1 2 3 and ends with %acc = VPtr 3, the right one grows its heap and ends with VPtr 7 *)
Example C03_example_alloc : forall ob,
  GcIsoSched.related GcIsoEx2.ax_vm1 GcIsoEx2.ax_vm2 /\ GcIsoSched2.plain_ok_all ob 4 GcIsoEx2.ax_vm1
  /\ (exists s', GcIsoSched.run_plain ob 4 GcIsoEx2.ax_vm1 = VmBase.ROk true s' /\ acc s' = VPtr 3 /\ hlen (hp s') = 4)
  /\ (exists s', GcIsoSched.run_plain ob 4 GcIsoEx2.ax_vm2 = VmBase.ROk true s' /\ acc s' = VPtr 7 /\ hlen (hp s') = 8).
Proof. exact GcIsoEx2.ax_ok. Qed.
Example C03_example_alloc_free :
  free_list (hp GcIsoEx2.ax_vm1) = [1; 2; 3] /\ free_list (hp GcIsoEx2.ax_vm2) = [2; 3].
Proof. exact GcIsoEx2.ax_free. Qed.

(* builtins: [bsim ob b] = run_builtin ob b is a simulation (related results from related
   states) and keeps the heap invariant; it is the side condition of CALL / TCALL of a builtin
   in [covered_all].  Discharged for the real table (Model/Builtins.other_builtin, ids of
   Gen/Builtins.v) for cons, not, null?, pair?, boolean?, symbol?, vector?, port?, and for
   call/cc with any table. *)
From MW Require Model.ListVec Model.Builtins Proofs.GcIsoBuiltin.
Theorem C03_type_pred_iso : forall W p, GcIsoBuiltin.shape_only p ->
  GcIsoPrim.sim W GcIso.vr (ListVec.type_pred p) (ListVec.type_pred p).
Proof. exact GcIsoBuiltin.sim_type_pred. Qed.
Print Assumptions C03_type_pred_iso.
Theorem C03_builtin_cons_iso : GcIsoCall.bsim Builtins.other_builtin 24.
Proof. exact GcIsoBuiltin.bsim_cons. Qed.
Print Assumptions C03_builtin_cons_iso.
Theorem C03_builtin_not_iso : GcIsoCall.bsim Builtins.other_builtin 83.
Proof. exact GcIsoBuiltin.bsim_not. Qed.
Print Assumptions C03_builtin_not_iso.
Theorem C03_builtin_null_iso : GcIsoCall.bsim Builtins.other_builtin 84.
Proof. exact GcIsoBuiltin.bsim_null. Qed.
Print Assumptions C03_builtin_null_iso.
Theorem C03_builtin_pair_iso : GcIsoCall.bsim Builtins.other_builtin 85.
Proof. exact GcIsoBuiltin.bsim_pair. Qed.
Print Assumptions C03_builtin_pair_iso.
Theorem C03_builtin_boolean_iso : GcIsoCall.bsim Builtins.other_builtin 77.
Proof. exact GcIsoBuiltin.bsim_boolean. Qed.
Print Assumptions C03_builtin_boolean_iso.
Theorem C03_builtin_symbol_iso : GcIsoCall.bsim Builtins.other_builtin 89.
Proof. exact GcIsoBuiltin.bsim_symbol. Qed.
Print Assumptions C03_builtin_symbol_iso.
Theorem C03_builtin_vector_iso : GcIsoCall.bsim Builtins.other_builtin 90.
Proof. exact GcIsoBuiltin.bsim_vector. Qed.
Print Assumptions C03_builtin_vector_iso.
Theorem C03_builtin_port_iso : GcIsoCall.bsim Builtins.other_builtin 86.
Proof. exact GcIsoBuiltin.bsim_port. Qed.
Print Assumptions C03_builtin_port_iso.
Theorem C03_builtin_call_cc_iso : forall ob, GcIsoCall.bsim ob 97.
Proof. exact GcIsoBuiltin.bsim_call_cc. Qed.
Print Assumptions C03_builtin_call_cc_iso.

(* OPEN (c03c): the collector on an arbitrary world.  Under [gc_natural s2] (no VLexPtr / VIp in
   a heap cell, no VLexEnv value outside a heap cell, global slots are pointers or carry no
   address: the invariant under which the collector's edges are the natural ones) a collection
   on s2 keeps the relation for the world shrunk to the addresses whose image is reachable.
   Proved only for tight worlds (C03_collect_srel).  Without the invariant the statement is
   false: a live cell holding VLexPtr e i keeps e alive in W but the collector frees wf W e. *)
Definition C03_collect_shrink_stmt : Prop :=
  forall W s1 s2 vd fuel order h',
  GcIso.srel W s1 s2 -> GcIsoSched2.gc_natural s2 -> GcIsoSched.reach_allocated s2 ->
  no_used (hp s2) -> Permutation order (map fst (g_bind s2)) ->
  collect vd fuel order s2 = Ok h' ->
  exists W', (forall a, GcIso.wa W' a -> GcIso.wa W a /\ GcIso.wf W' a = GcIso.wf W a /\ reach s2 (GcIso.wf W a))
             /\ GcIso.srel W' s1 (VmBase.with_heap s2 h').

(* ================================================================= c03d: the collector on arbitrary worlds *)
From MW Require Proofs.GcIsoCollect Proofs.GcIsoSched3 Proofs.GcIsoEx3.

(* (a)+(b) reachability is preserved by the renaming.  [nlive W s1] / [held W s1] is the natural
   liveness closure of the LEFT machine over addresses and payload values (roots: binding keys,
   %ip.0, %ep, %acc, stack[0..=sp], global slots; edges: every address of a held value, the cell
   of a live address of W, the payload of a held VVec / VCont / VLambda, the environment of a
   live cell holding VLexEnv; bytecode positions after JMP / JNT are NOT edges).  Under
   [gc_natural s2] the renamed image of every live address is reached by the collector on s2,
   and everything the collector follows from the image of a held value is reached. *)
Theorem C03_reach_iso : forall W s1 s2, GcIso.srel W s1 s2 -> GcIsoSched2.gc_natural s2 ->
  (forall a, GcIsoCollect.nlive W s1 a -> GcIso.wa W a -> reach s2 (GcIso.wf W a)) /\
  (forall v, GcIsoCollect.held W s1 v ->
     GcIso.vlive W v /\ forall b, vref (st s2) (GcIso.vmap (GcIso.wf W) v) b -> reach s2 b).
Proof. exact GcIsoCollect.reach_iso. Qed.
Print Assumptions C03_reach_iso.

(* (c) the world restricted to the closure ([wshrink]: live addresses, held payload ids, same
   renaming, wtop = %sp) relates s1 to the collected s2 *)
Theorem C03_collect_shrink_world : forall W s1 s2 vd fuel order h',
  GcIso.srel W s1 s2 -> GcIsoSched2.gc_natural s2 -> GcIsoSched.reach_allocated s2 ->
  no_used (hp s2) -> Permutation order (map fst (g_bind s2)) ->
  collect vd fuel order s2 = Ok h' ->
  (forall a, GcIso.wa (GcIsoCollect.wshrink W s1) a ->
     GcIso.wa W a /\ GcIso.wf (GcIsoCollect.wshrink W s1) a = GcIso.wf W a /\ reach s2 (GcIso.wf W a))
  /\ GcIso.srel (GcIsoCollect.wshrink W s1) s1 (VmBase.with_heap s2 h').
Proof. intros W s1 s2 vd fuel order h' R G. exact (GcIsoCollect.collect_shrink W s1 s2 R G vd fuel order h'). Qed.
Print Assumptions C03_collect_shrink_world.

(* the statement left OPEN by c03c *)
Theorem C03_collect_shrink : forall W s1 s2 vd fuel order h',
  GcIso.srel W s1 s2 -> GcIsoSched2.gc_natural s2 -> GcIsoSched.reach_allocated s2 ->
  no_used (hp s2) -> Permutation order (map fst (g_bind s2)) ->
  collect vd fuel order s2 = Ok h' ->
  exists W', (forall a, GcIso.wa W' a -> GcIso.wa W a /\ GcIso.wf W' a = GcIso.wf W a /\ reach s2 (GcIso.wf W a))
             /\ GcIso.srel W' s1 (VmBase.with_heap s2 h').
Proof.
  intros W s1 s2 vd fuel order h' R G ND NU P C. exists (GcIsoCollect.wshrink W s1).
  exact (GcIsoCollect.collect_shrink W s1 s2 R G vd fuel order h' ND NU P C).
Qed.
Print Assumptions C03_collect_shrink.
Theorem C03_collect_shrink_closed : C03_collect_shrink_stmt.
Proof. exact C03_collect_shrink. Qed.
Print Assumptions C03_collect_shrink_closed.

(* a real collection keeps [related] *)
Theorem C03_collects_related : forall s1 s2 s2',
  GcIsoSched.related s1 s2 -> GcIsoSched2.gc_natural s2 -> GcIsoSched.reach_allocated s2 ->
  no_used (hp s2) -> GcIsoSched3.collects s2 s2' -> GcIsoSched.related s1 s2'.
Proof. exact GcIsoSched3.collects_related. Qed.
Print Assumptions C03_collects_related.

(* (e) the schedule theorem with the REAL collector ([collects]: Gc.collect with any fuels and any
   order of the binding keys).  The collector hypotheses of C03_sched_unobservable_all are gone;
   what is assumed instead is an invariant [Nv] of the right machine that implies [gc_ready]
   (gc_natural, nothing reachable is free, no Used mark, the collection returns Ok) and is kept
   by run_one and by a collection.  OPEN (d): [Nv := gc_ready] itself is not proved invariant. *)
Theorem C03_sched_unobservable_natural : forall ob (Nv : vm -> Prop),
  (forall s, Nv s -> GcIsoSched3.gc_ready s) ->
  (forall s s', Nv s -> Vm.run_one ob s = VmBase.ROk false s' -> Nv s') ->
  (forall s s', Nv s -> GcIsoSched3.collects s s' -> Nv s') ->
  forall sched s1 s2,
  GcIsoSched.related s1 s2 -> Nv s2 -> GcIsoSched2.plain_ok_all ob (length sched) s1 ->
  match GcIsoSched.run_plain ob (length sched) s1 with
  | VmBase.ROk b s1' => exists s2', GcIsoSched.run_sched ob GcIsoSched3.collects sched s2 (VmBase.ROk b s2') /\ GcIsoSched.related s1' s2'
  | VmBase.RErr e msg s1' => exists s2', GcIsoSched.run_sched ob GcIsoSched3.collects sched s2 (VmBase.RErr e msg s2') /\ GcIsoSched.related s1' s2'
  | _ => True
  end.
Proof. exact GcIsoSched3.sched_unobservable_natural. Qed.
Print Assumptions C03_sched_unobservable_natural.

(* non-vacuity: cx_vm has two allocated cells, the code object (cell 0, %ip) and '() (cell 1,
   referenced by nothing).  The world cx_W contains both, so it is not tight.  All hypotheses of
   C03_collect_shrink hold; the collection frees cell 1; the shrunk world keeps 0 and drops 1. *)
Example C03_example_shrink : exists h',
  collect 2 3 [] GcIsoEx3.cx_vm = Ok h' /\ g_get (gcmap h') 1 = GFree /\
  GcIso.wa GcIsoEx3.cx_W 1 /\ ~ reach GcIsoEx3.cx_vm 1 /\ ~ GcIsoSched.tight GcIsoEx3.cx_W GcIsoEx3.cx_vm /\
  GcIso.srel (GcIsoCollect.wshrink GcIsoEx3.cx_W GcIsoEx3.cx_vm) GcIsoEx3.cx_vm (VmBase.with_heap GcIsoEx3.cx_vm h') /\
  ~ GcIso.wa (GcIsoCollect.wshrink GcIsoEx3.cx_W GcIsoEx3.cx_vm) 1 /\
  GcIso.wa (GcIsoCollect.wshrink GcIsoEx3.cx_W GcIsoEx3.cx_vm) 0.
Proof. exact GcIsoEx3.cx_example. Qed.
Example C03_example_shrink_hyps :
  GcIso.srel GcIsoEx3.cx_W GcIsoEx3.cx_vm GcIsoEx3.cx_vm /\ GcIsoSched2.gc_natural GcIsoEx3.cx_vm /\
  GcIsoSched3.gc_ready GcIsoEx3.cx_vm.
Proof. exact (conj GcIsoEx3.cx_srel (conj GcIsoEx3.cx_natural GcIsoEx3.cx_ready)). Qed.

(* a collection keeps the three state conditions of [gc_ready]: gc_natural (no allocated cell
   appears or changes), nothing reachable is free, no Used mark left *)
Theorem C03_collects_ready3 : forall s s',
  GcIsoSched3.ready3 s -> GcIsoSched3.collects s s' -> GcIsoSched3.ready3 s'.
Proof. exact GcIsoSched3.collects_ready3. Qed.
Print Assumptions C03_collects_ready3.

(* the schedule theorem with the invariant instantiated: no hypothesis about the collector's
   effect is left.  Remaining hypotheses, OPEN as facts of the machine: (d) [ready3] is kept by
   run_one; the marking fuels suffice (a collection of a [ready3] state returns). *)
Theorem C03_sched_unobservable_ready3 : forall ob,
  (forall s s', GcIsoSched3.ready3 s -> Vm.run_one ob s = VmBase.ROk false s' -> GcIsoSched3.ready3 s') ->
  (forall s, GcIsoSched3.ready3 s -> exists s', GcIsoSched3.collects s s') ->
  forall sched s1 s2,
  GcIsoSched.related s1 s2 -> GcIsoSched3.ready3 s2 -> GcIsoSched2.plain_ok_all ob (length sched) s1 ->
  match GcIsoSched.run_plain ob (length sched) s1 with
  | VmBase.ROk b s1' => exists s2', GcIsoSched.run_sched ob GcIsoSched3.collects sched s2 (VmBase.ROk b s2') /\ GcIsoSched.related s1' s2'
  | VmBase.RErr e msg s1' => exists s2', GcIsoSched.run_sched ob GcIsoSched3.collects sched s2 (VmBase.RErr e msg s2') /\ GcIsoSched.related s1' s2'
  | _ => True
  end.
Proof. exact GcIsoSched3.sched_unobservable_ready3. Qed.
Print Assumptions C03_sched_unobservable_ready3.

(* OPEN (c03d): (d) gc_natural / ready3 as an invariant of run_one for the instruction set of
   [covered_all].  Not proved, and as stated (for EVERY ready3 state) probably too strong:
   [gc_natural] allows %acc = VPair a d (a cell constructor that compiled code never leaves in a
   register), and MOV %acc into a global slot then yields a slot that is not [slot_ok].  The
   invariant to be proved is [ready3] strengthened by what compiled code guarantees; this is why
   C03_sched_unobservable_natural is parametric in the invariant [Nv]. *)
Definition C03_ready3_step_stmt (ob : N -> VmBase.M vcell) : Prop :=
  forall s s', GcIsoSched3.ready3 s -> GcIsoAll.covered_all ob s ->
    Vm.run_one ob s = VmBase.ROk false s' -> GcIsoSched3.ready3 s'.
