(* C10 — written data reads back as the same data.
   Only statements, each closed by [exact] of a lemma proved in Proofs/, with its
   assumptions printed.  Model: Model/Datum.v (printer), NumFmt.v, Lex.v, Parse.v,
   Heap.v.  The statements mention the parser, whose number-literal decoder contains
   Flocq binary64 computations, hence the standard real-number axioms in the reports. *)
From Coq Require Import String ZArith List Bool Lia.
From Flocq Require Import IEEE754.BinarySingleNaN.
From MW Require Import Model.Base Model.F64 Model.Num Model.Digits Model.F64Fmt Model.NumFmt
  Model.Datum Model.Lex Model.Parse
  Model.VmTypes Model.Heap Model.Gc
  Proofs.NumFmtProofs Proofs.WriteReadProofs Proofs.WriteReadList Proofs.SymtabProofs Proofs.QuoteHeapProofs.
Open Scope N_scope.

(* ---------------------------------------------------------------- characters *)
(* (a) for EVERY code point c (in particular every Unicode scalar value): the written
   form of the character c reads back as c, nothing remains *)
Theorem C10_char_write_read : forall c : cp, parse_text (write (CChar c)) = Ok (CChar c, None).
Proof. exact char_write_read. Qed.
Print Assumptions C10_char_write_read.

(* ... in context: followed by the end of the text, a space or a ')' (what follows an
   atom in a written datum) it is scanned as exactly one Char token; and the literal
   decoder inverts the printer *)
Theorem C10_char_token : forall (c : cp) post, delim post ->
  exists body, write_escaped_char c = 35 :: 92 :: body /\
    lex1 35 (92 :: body ++ post) = STok TChar (write_escaped_char c) post.
Proof. exact lex1_char. Qed.
Print Assumptions C10_char_token.
Theorem C10_char_decode : forall c : cp, parse_char (write_escaped_char c) = Ok (CChar c).
Proof. exact parse_char_write. Qed.
Print Assumptions C10_char_decode.

(* the named arms of char.rs:32-40 after the is_control test are unreachable *)
Theorem C10_char_printer_cases : forall c : cp,
  (c = 32 /\ write_escaped_char c = S_ "#\space") \/
  (c = 10 /\ write_escaped_char c = S_ "#\newline") \/
  (is_control c = true /\ c <> 10 /\ write_escaped_char c = [35; 92; 120] ++ show_hex c) \/
  (is_control c = false /\ c <> 32 /\ write_escaped_char c = [35; 92; c]).
Proof. exact write_escaped_char_cases. Qed.
Print Assumptions C10_char_printer_cases.

(* the hexadecimal spelling used by #\x.. and \x..; inverts, for every value below 2^32 *)
Theorem C10_show_hex_inverse : forall n, n < 4294967296 ->
  parse_hex_u32 (show_hex n) 0 = Some n /\ forallb is_hex (show_hex n) = true /\ show_hex n <> [].
Proof. exact show_hex_inverse. Qed.
Print Assumptions C10_show_hex_inverse.

(* ------------------------------------------------------------------- strings *)
(* (b) for every text s of scalar values: the inner text of the written string decodes
   to s; the written form is ONE String token whatever follows; it reads back *)
Theorem C10_string_decode : forall s : text, Forall (fun c => is_scalar c = true) s ->
  parse_string (flat_map write_string_char s) = Ok (CStr s).
Proof. exact parse_string_write. Qed.
Print Assumptions C10_string_decode.
Theorem C10_string_token : forall (s : text) post,
  lex1 34 (flat_map write_string_char s ++ 34 :: post) = STok TString (write (CStr s)) post.
Proof. exact lex1_string. Qed.
Print Assumptions C10_string_token.
Theorem C10_string_write_read : forall s : text, Forall (fun c => is_scalar c = true) s ->
  parse_text (write (CStr s)) = Ok (CStr s, None).
Proof. exact string_write_read. Qed.
Print Assumptions C10_string_write_read.

(* ------------------------------------- booleans, symbols, exact numbers, floats *)
(* an atom whose written form is one leaf token (also when a delimiter follows) that
   the parser turns into a' reads back as a' *)
Theorem C10_atom_reads : forall a a', atom_ok a a' -> parse_text (write a) = Ok (a', None).
Proof. exact atom_parse_text. Qed.
Print Assumptions C10_atom_reads.

Theorem C10_bool_atom : forall b, atom_ok (CBool b) (CBool b).
Proof. exact atom_bool. Qed.
Print Assumptions C10_bool_atom.
Theorem C10_char_atom : forall c, atom_ok (CChar c) (CChar c).
Proof. exact atom_char. Qed.
Print Assumptions C10_char_atom.
Theorem C10_string_atom : forall s, Forall (fun c => is_scalar c = true) s -> atom_ok (CStr s) (CStr s).
Proof. exact atom_string. Qed.
Print Assumptions C10_string_atom.
(* symbols of the reader: the spelling scans to one Symbol token, or to one Number token
   that fails the radix-10 parse (+ - ... -x 1+ a;b .a 1/0 ...) *)
Theorem C10_symbol_atom : forall s, reader_symbol s -> atom_ok (CSym s) (CSym s).
Proof. exact atom_symbol. Qed.
Print Assumptions C10_symbol_atom.
(* exact numbers in every representation (fixnum, bignum also carrying a small value,
   reduced rational): read back as the same number, exact, in its normal representation *)
Theorem C10_exact_atom : forall n, exact_wf n -> atom_ok (CNum n) (CNum (reread n)).
Proof. exact atom_exact. Qed.
Print Assumptions C10_exact_atom.
Theorem C10_reread_same_number : forall n, exact_wf n ->
  num_is_exact (reread n) = true /\
  (num_numer (reread n) * num_denom n = num_numer n * num_denom (reread n))%Z /\
  (0 < num_denom (reread n))%Z.
Proof. exact reread_same_value. Qed.
Print Assumptions C10_reread_same_number.
(* finite doubles: RELATIVE to the three OPEN statements of Props/C16.v about the
   executable specification of std's float formatting/parsing (restated here) *)
Definition C10_std_roundtrip_stmt : Prop :=
  forall x : f64, is_finite x = true -> dec2flt (num_display (Float x)) = Some x.
Definition C10_display_point_stmt : Prop :=
  forall x : f64, is_finite x = true ->
    f64_ltb F_1E10 x = false -> float_is_integer x = false -> In 46%N (fmt_display x).
Definition C10_no_inner_minus_stmt : Prop :=
  forall x : f64, is_finite x = true -> ~ In 45%N (tl (num_display (Float x))).
Theorem C10_float_atom : C10_std_roundtrip_stmt -> C10_display_point_stmt -> C10_no_inner_minus_stmt ->
  forall x : f64, is_finite x = true -> atom_ok (CNum (Float x)) (CNum (Float x)).
Proof. exact atom_float. Qed.
Print Assumptions C10_float_atom.

(* ------------------------------------------------------- the composite theorem *)
(* (e) [readable d]: booleans, characters, strings of scalar values, reader symbols, exact
   numbers in every representation, finite doubles, (), pairs — hence proper and improper
   lists and quote forms — and vectors of such, NESTED WITHOUT BOUND.
   write_read: reading the written form gives the datum back (exact numbers in the
   representation the reader produces: [reread_cell], same value and exactness by
   C10_reread_same_number; floats bit-identical), and NOTHING remains.
   Relative to the three statements about std's float formatting (used for float atoms
   only; a datum without floats needs none of them, see C10_write_read_exact below). *)
Theorem C10_write_read :
  C10_std_roundtrip_stmt -> C10_display_point_stmt -> C10_no_inner_minus_stmt ->
  forall d, readable d -> parse_text (write d) = Ok (reread_cell d, None).
Proof. exact write_read. Qed.
Print Assumptions C10_write_read.

(* write_stable: writing the re-read datum gives the same text *)
Theorem C10_write_stable : forall d, readable d -> write (reread_cell d) = write d.
Proof. exact write_stable. Qed.
Print Assumptions C10_write_stable.

(* data whose exact numbers are in normal representation read back LITERALLY *)
Theorem C10_reread_normal : forall d, normal d -> reread_cell d = d.
Proof. exact reread_cell_normal. Qed.
Print Assumptions C10_reread_normal.

(* the invariant behind write_read, usable in any context: wherever the written form of d
   stands in a text, followed by a delimiter, the scanner yields a block of tokens for it
   and continues behind it, and the parser turns exactly that block into the datum *)
Theorem C10_write_read_in_context :
  C10_std_roundtrip_stmt -> C10_display_point_stmt -> C10_no_inner_minus_stmt ->
  forall d, readable d -> wr_ok d (reread_cell d).
Proof. intros H1 H2 H3 d Hr. exact (proj1 (readable_all_ok H1 H2 H3 d Hr)). Qed.
Print Assumptions C10_write_read_in_context.

(* ------------------------------------------------------------ datum <-> heap *)
(* (d) quote_eval at the datum <-> heap level: on every heap satisfying the interning
   invariant of C18, Heap::put_cell stores every heap datum (everything but the
   print-only variants Continuation/Macro/Procedure, on which it panics) and
   Heap::get_as_cell gives the datum back UNCHANGED, for every sufficient fuel *)
Theorem C10_quote_heap_roundtrip : forall (bname : N -> text) d h s, heap_datum d -> heap_inv h ->
  exists v h' s', put_cell h s d = Ok (v, h', s') /\ heap_inv h' /\
    exists n, forall fuel, (n <= fuel)%nat -> get_as_cell bname h' s' fuel v = Ok d.
Proof. exact put_get_roundtrip. Qed.
Print Assumptions C10_quote_heap_roundtrip.

(* ... and the compiler (compile.rs): (quote d) is compiled by storing d with
   Heap::maybe_put_cell and emitting MOV_IMMEDIATE <value> %acc; the operand reads d back
   ([reads]: get_as_cell gives d on the resulting heap AND on every later extension of it,
   i.e. after whatever the rest of the compilation and the run allocate) *)
From MW Require Import Model.VmBase Model.Compile.
Theorem C10_compile_quote : forall (bname : N -> text) f l tail d (s : vm), heap_datum d -> heap_inv (hp s) ->
  exists v s', compile_expression (S f) l tail (quote_of d) s
                 = ROk (emit (emit (emit_op l OMovImmediate) v) VAcc) s' /\
    heap_inv (hp s') /\ reads bname v d (hp s') (st s').
Proof. exact compile_quote_reads. Qed.
Print Assumptions C10_compile_quote.

(* OPEN only up to the MODEL's fuels (checked in-kernel on the examples below and on every case
   of wire interface 8 by the correspondence check): evaluating (quote d) on the machine BOOTED
   with the prelude returns d.
   PROVED (C10_quote_eval_vm, C10_quote_eval_vm_outcome, C10_quote_eval_vm_empty below): the
   same for EVERY machine state satisfying the invariant [minv] of C01 — in particular the
   empty machine [vm_empty c], c > 0 — and every builtin table: the macro expander leaves
   (quote d) alone (proved, on every machine), compile_runnable / put_lambda succeed, the run
   through PUSH Argc 0 / MOV / CALL / ENTER / MOV_IMMEDIATE / RET / HALT reaches the HALT exit,
   and the final conversion yields d unless the fuel of the model's get_as_cell runs out.
   PROVED (work package c01d; C10_quote_eval_vm_booted, C10_quote_eval_vm_session,
   C10_quote_eval_cell_booted at the end of the (quote d) block): [minv] of the booted machine and
   of every state of a session started from it (C01_booted_minv / C01_session_minv: by
   preservation of finv /\ J through load_builtins and the evaluation of every prelude form,
   without evaluating [booted]); hence the statement below holds on the booted machine UP TO
   NoFuel: eval_cell (quote_form d) s0 is RNoFuel or ROk (Done d) s1.
   STILL OPEN (model artefacts, not marwood issues): (2) the fuel premise of the final conversion
   ([halt_result m <> RNoFuel], or no pointer chains in the heap and rcost d <= heap size + 1):
   the model's get_as_cell carries a fuel that the Rust does not have (docs/WP-c01b.md R1), and
   heap size + 1 is not always enough (C01_cell_fuel_insufficient); (3) that the fixed EVAL_FUEL
   of eval_cell is sufficient (the run takes a constant number of instructions n; the theorem
   gives "for every fuel >= n" without computing n). *)
From MW Require Import Model.VmBase Model.Vm Model.Builtins Model.WireDatum.
From MW Require Import Proofs.RunProofs Proofs.CompileCorrect Proofs.CellFuelProofs Proofs.FragmentCorollaries.
Definition C10_quote_eval_vm_stmt : Prop :=
  forall s0 d, booted = Some s0 -> heap_datum d ->
    exists s1, eval_cell (quote_form d) s0 = ROk (Done d) s1.

(* the quote form handed to Vm::eval by the wire interface is the one of the theorems below *)
Theorem C10_quote_form_eq : forall d, quote_form d = quote_of d.
Proof. intros d. reflexivity. Qed.
Print Assumptions C10_quote_form_eq.

(* Vm::eval of (quote d), for every datum d with a heap representation, every builtin table ob
   and EVERY machine state s satisfying [minv s] (Proofs/CompileCorrect.v: the interning invariant
   [heap_inv] of the heap, global slots allocated injectively, sp < stack capacity; proved for
   the empty machine [vm_empty c], c > 0, see C10_quote_eval_vm_empty; NOT proved for
   [booted]).  No premise on the macro expander, the builtins or the global environment.
   There are a step count n and a machine m that extends s (heap / Rc tables / global
   bindings only grow) with the sp, bp, ep and output log of s, such that for every fuel >= n
   the evaluation is the HALT exit of m [halt_result m]: the conversion of %acc by
   Heap::get_as_cell and the wiping of the stack.  That conversion carries, IN THE MODEL ONLY,
   a fuel (heap size + 1) bounding the depth of the traversal (docs/WP-c01b.md R1; the Rust has
   none): unless it runs out — in particular when no heap cell holds a pointer and
   rcost d = 1 + dcost d is at most heap size + 1 — the result is Done d. *)
Theorem C10_quote_eval_vm : forall (ob : N -> M vcell) d s, heap_datum d -> minv s ->
  exists n m, cext s m /\ sp m = sp s /\ bp m = bp s /\ ep m = ep s /\ out_log m = out_log s /\
    (forall fuel, (n <= fuel)%nat -> eval ob fuel (quote_of d) s = halt_result m) /\
    (halt_result m <> RNoFuel \/ (no_ptr_cells (hp m) /\ (rcost (RDatum d) <= cell_fuel m)%nat) ->
     forall fuel, (n <= fuel)%nat ->
       eval ob fuel (quote_of d) s = ROk (Done d) (with_stack m tempty (sp m))).
Proof. exact quote_eval_vm. Qed.
Print Assumptions C10_quote_eval_vm.

(* for an ARBITRARY fuel (e.g. the EVAL_FUEL of eval_cell) the evaluation on a [minv] state is
   NoFuel (of the run loop or of the final conversion) or Done d: never an error, a panic or
   another datum *)
Theorem C10_quote_eval_vm_outcome : forall (ob : N -> M vcell) d s, heap_datum d -> minv s ->
  forall fuel, eval ob fuel (quote_of d) s = RNoFuel \/
               exists s1, eval ob fuel (quote_of d) s = ROk (Done d) s1.
Proof. exact quote_eval_vm_outcome. Qed.
Print Assumptions C10_quote_eval_vm_outcome.
Theorem C10_quote_eval_cell_outcome : forall d s, heap_datum d -> minv s ->
  eval_cell (quote_form d) s = RNoFuel \/ exists s1, eval_cell (quote_form d) s = ROk (Done d) s1.
Proof. intros d s Hd MI. exact (quote_eval_vm_outcome other_builtin d s Hd MI EVAL_FUEL). Qed.
Print Assumptions C10_quote_eval_cell_outcome.

(* the instance for the empty machine of any positive capacity *)
Theorem C10_quote_eval_vm_empty : forall (ob : N -> M vcell) d c, heap_datum d -> 0 < c ->
  exists n m, cext (vm_empty c) m /\ sp m = 0 /\ bp m = 0 /\ ep m = USIZE_MAX /\ out_log m = [] /\
    (forall fuel, (n <= fuel)%nat -> eval ob fuel (quote_of d) (vm_empty c) = halt_result m) /\
    (halt_result m <> RNoFuel \/ (no_ptr_cells (hp m) /\ (rcost (RDatum d) <= cell_fuel m)%nat) ->
     forall fuel, (n <= fuel)%nat ->
       eval ob fuel (quote_of d) (vm_empty c) = ROk (Done d) (with_stack m tempty (sp m))).
Proof. exact quote_eval_vm_empty. Qed.
Print Assumptions C10_quote_eval_vm_empty.

(* non-vacuity: the hypotheses hold for the datum of C10_example_heap on the empty machine, and
   the model computes (quote d) to d there with the real builtin table *)
Example C10_example_quote_eval_vm_empty :
  let d := CVec [new_list [CSym QUOTE; CSym (S_ "a")]; new_improper_list [CChar 955; CStr [34; 10]] (CNum (BigInt 5))] in
  heap_datum d /\ minv (vm_empty 8192) /\
  match eval other_builtin 100 (quote_of d) (vm_empty 8192) with
  | ROk (Done c) s' => c = d /\ sp s' = 0 /\ bp s' = 0 /\ ep s' = USIZE_MAX
  | _ => False
  end.
Proof. cbv zeta. split; [exact qex_heap_datum|]. split; [apply minv_vm_empty; reflexivity|exact qex_run]. Qed.

(* work package c01d: the premise [minv] discharged for the BOOTED machine (C01_booted_minv) and
   for every state of a session started from it (any number of Vm::eval calls with any data,
   fuels and outcomes: FlatAll.evals) *)
From MW Require Proofs.FlatAll Proofs.BootMinv Proofs.BootCorollaries.
Theorem C10_quote_eval_vm_session : forall (ob : N -> M vcell) d s0 s,
  booted = Some s0 -> FlatAll.evals s0 s -> heap_datum d ->
  exists n m, cext s m /\ sp m = sp s /\ bp m = bp s /\ ep m = ep s /\ out_log m = out_log s /\
    (forall fuel, (n <= fuel)%nat -> eval ob fuel (quote_of d) s = halt_result m) /\
    (halt_result m <> RNoFuel \/ (no_ptr_cells (hp m) /\ (rcost (RDatum d) <= cell_fuel m)%nat) ->
     forall fuel, (n <= fuel)%nat ->
       eval ob fuel (quote_of d) s = ROk (Done d) (with_stack m tempty (sp m))).
Proof. exact BootCorollaries.quote_eval_vm_session. Qed.
Print Assumptions C10_quote_eval_vm_session.
Theorem C10_quote_eval_vm_booted : forall (ob : N -> M vcell) d s, booted = Some s -> heap_datum d ->
  exists n m, cext s m /\ sp m = sp s /\ bp m = bp s /\ ep m = ep s /\ out_log m = out_log s /\
    (forall fuel, (n <= fuel)%nat -> eval ob fuel (quote_of d) s = halt_result m) /\
    (halt_result m <> RNoFuel \/ (no_ptr_cells (hp m) /\ (rcost (RDatum d) <= cell_fuel m)%nat) ->
     forall fuel, (n <= fuel)%nat ->
       eval ob fuel (quote_of d) s = ROk (Done d) (with_stack m tempty (sp m))).
Proof. exact BootCorollaries.quote_eval_vm_booted. Qed.
Print Assumptions C10_quote_eval_vm_booted.
(* the body of C10_quote_eval_vm_stmt up to the model's fuels: never an error, a panic or
   another datum *)
Theorem C10_quote_eval_cell_booted : forall s0 d, booted = Some s0 -> heap_datum d ->
  eval_cell (quote_form d) s0 = RNoFuel \/ exists s1, eval_cell (quote_form d) s0 = ROk (Done d) s1.
Proof. intros s0 d B Hd. exact (BootCorollaries.quote_eval_cell_booted d s0 B Hd). Qed.
Print Assumptions C10_quote_eval_cell_booted.
(* non-vacuity (never a statement that matches on [booted]): the boot sequence without the
   prelude text — load_builtins over the whole generated table from vm_empty 8192 — yields a
   machine satisfying minv, and the model computes (quote d) to d there *)
Example C10_example_quote_eval_vm_builtins :
  exists s, boot_with [] = Some s /\ heap_datum qex_datum /\ minv s /\
    match eval other_builtin 100 (quote_of qex_datum) s with
    | ROk (Done c) s' => c = qex_datum /\ sp s' = 0 /\ bp s' = 0 /\ ep s' = USIZE_MAX
    | _ => False
    end.
Proof. exact BootCorollaries.qb_example. Qed.

(* ------------------------------------------------ the recorded defect class *)
(* prefix-path-symbol: the reader produces, through the number-prefix path, a symbol
   that is not a reader symbol and whose written form reads back as something else *)
Theorem C10_refuted_prefix_path_symbol :
  exists (t : text) (d : cell),
    parse_text t = Ok (d, None) /\ (exists s, d = CSym s /\ ~ reader_symbol s) /\
    parse_text (write d) <> Ok (d, None).
Proof. exact prefix_path_symbol_witness. Qed.
Print Assumptions C10_refuted_prefix_path_symbol.

(* ------------------------------------------------------------- non-vacuity *)
Example C10_example_chars :
  parse_text (write (CChar 955)) = Ok (CChar 955, None) /\ write (CChar 127) = S_ "#\x7f" /\
  write (CChar 120) = S_ "#\x" /\ write (CChar 0x10FFFF) = [35; 92; 0x10FFFF].
Proof. repeat split; vm_compute; reflexivity. Qed.
Example C10_example_string :
  write (CStr [34; 92; 10; 127; 955; 7]) = [34; 92; 34; 92; 92; 92; 110; 92; 120; 55; 102; 59; 955; 92; 97; 34].
Proof. vm_compute. reflexivity. Qed.
Example C10_example_symbols :
  reader_symbol (S_ "+") /\ reader_symbol (S_ "...") /\ reader_symbol (S_ "-x") /\ reader_symbol (S_ "1+")
  /\ reader_symbol (S_ "a;b") /\ reader_symbol (S_ "1/0") /\ reader_symbol [955; 0x3000].
Proof.
  repeat split; eexists; eexists; (split; [reflexivity|]);
    first [left; vm_compute; reflexivity | right; split; vm_compute; reflexivity].
Qed.
(* the float clause on doubles given by bit pattern: 1e10 + ulp (printed with {:e}), 0.1,
   -0.0, 2^53, the smallest subnormal *)
Example C10_example_floats :
  forallb (fun b => match parse_text (write (CNum (Float (f64_of_bits b)))) with
                    | Ok (CNum (Float y), None) => Z.eqb (f64_bits y) b
                    | _ => false end)
    [0x4202a05f20000001; 0x3fb999999999999a; 0x8000000000000000; 0x4340000000000000; 1]%Z = true.
Proof. vm_compute. reflexivity. Qed.
Example C10_example_exact :
  exact_wf (BigInt 5) /\ reread (BigInt 5) = Fixnum 5 /\ exact_wf (Rational (-2147483648) 3).
Proof. repeat split; vm_compute; try reflexivity; discriminate. Qed.

Example C10_example_composite :
  let d := CVec [new_list [CSym QUOTE; CSym (S_ "a")]; new_improper_list [CChar 955; CStr [34; 10]] (CNum (BigInt 5));
                 CNum (Rational (-1) 2); CNil; CBool true; CSym (S_ "...")] in
  readable d /\ write d = S_ "#('a (#\" ++ [955] ++ S_ " ""\""\n"" . 5) -1/2 () #t ...)" /\
  parse_text (write d) = Ok (reread_cell d, None) /\ reread_cell d <> d /\ write (reread_cell d) = write d.
Proof.
  cbv zeta. split; [|split; [|split; [|split]]].
  - cbn. repeat split; try (repeat constructor; fail); try lia.
    + eexists; eexists; split; [reflexivity|left; vm_compute; reflexivity].
    + eexists; eexists; split; [reflexivity|left; vm_compute; reflexivity].
    + eexists; eexists; split; [reflexivity|left; vm_compute; reflexivity].
  - vm_compute. reflexivity.
  - vm_compute. reflexivity.
  - vm_compute. discriminate.
  - vm_compute. reflexivity.
Qed.
Example C10_example_heap :
  let d := CVec [new_list [CSym QUOTE; CSym (S_ "a")]; new_improper_list [CChar 955; CStr [34; 10]] (CNum (BigInt 5))] in
  heap_datum d /\ heap_inv (heap_new 8192) /\
  match put_cell (heap_new 8192) store_empty d with
  | Ok (v, h, s) => get_as_cell (fun _ => []) h s 20 v = Ok d
  | _ => False
  end.
Proof. cbv zeta. split; [cbn; tauto|]. split; [apply heap_inv_new; reflexivity|vm_compute; reflexivity]. Qed.
(* the model machine booted with the prelude evaluates (quote d) to d: the wire line of
   interface 8 shows the dump of d twice (also for the prefix-path symbol 12) *)
Example C10_example_quote_eval_vm :
  let d := CVec [new_list [CSym QUOTE; CSym (S_ "a")]; new_improper_list [CChar 955; CStr [34; 10]] (CNum (BigInt 5));
                 CNum (Float (f64_of_bits 0x3ff8000000000000)); CSym (S_ "12")] in
  run_quote_eval d = S_ "I" ++ dump d ++ S_ " Q" ++ dump d.
Proof. vm_compute. reflexivity. Qed.
