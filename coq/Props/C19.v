(* C19 — depth is limited by memory, not by the host's native stack.

   WHAT IS PROVED HERE AND WHAT IS NOT.  A Gallina function cannot exhaust a native stack,
   so "the process is never aborted by native stack exhaustion" is not a statement about
   the model.  What the model does carry is the native RECURSION DEPTH of each recursive
   pass of marwood as a function of its input (Model/Depth.v: the models of the passes,
   instrumented so that a recursive call adds one and a loop iteration adds nothing, in
   units of the frames that carry a verif_depth::Guard in marwood).  For every pass and
   direction of nesting the theorems below give one of

     depth_bounded   fam d :  exists K, forall k, d (fam k) <= K
     depth_unbounded fam d :  forall K, d (fam (S K)) > K          (fam k = witness of nesting k)

   [depth_unbounded] decides the scenario NEGATIVELY only together with an observation:
   every guarded frame occupies a positive number of bytes of a finite native stack, so
   some nesting aborts the process; that the abort actually happens at the depths of the
   property's grid (10^3, 10^4, 10^5; main thread / 2 MiB thread; debug / release) is
   OBSERVED by replaying the witness family in an isolated child process
   (harness/src/bin/mwdepth.rs, lib/props/c19.py), not proved.  C19 is partial in exactly
   this sense.  The theorems are tied to marwood by the depth correspondence: the depth
   counters of the real functions equal these depth functions on generated nested data.

   Theorems are closed by [exact] of a lemma of Proofs/DepthProofs.v.                       *)
From Coq Require Import String.
From MW Require Import Model.Base Model.F64 Model.Num Model.NumArith Model.Datum Model.Lex Model.Parse
  Model.TransformDef Model.Transform Model.VmTypes Model.Heap Model.VmBase Model.Compile Model.Gc
  Model.Depth Proofs.DepthProofs Proofs.DepthProofs2.
Open Scope nat_scope.

(* the property at full strength, in the model's vocabulary: every pass has bounded native
   depth in every direction.  FALSE on the pinned tree: refuted below pass by pass. *)
Definition C19_full : Prop :=
  depth_bounded nest_car display_depth /\ depth_bounded nest_car drop_depth /\
  depth_bounded nest_car maybe_put_cell_depth /\ depth_bounded chain_cdr maybe_put_cell_depth /\
  depth_bounded chain_cdr drop_depth /\ depth_bounded nest_app (fun e => fst (compile_depth e)).

(* ------------------------------------------------------------------ reader *)
(* parse / parse_list / parse_vector (parse.rs:57-202) on the token list of "((( )))",
   "#(#(#( )))", "'''a": two frames per list level, one per quote *)
Theorem C19_parse_car_unbounded :
  depth_unbounded (fun k => (nest_car_text k, nest_car_tokens k)) (fun x => parse_depth_on (fst x) (snd x)).
Proof. exact parse_car_unbounded. Qed.
Print Assumptions C19_parse_car_unbounded.
Example parse_car_witness_is_the_scan : scan (nest_car_text 25) = Ok (nest_car_tokens 25).
Proof. vm_compute. reflexivity. Qed.
Example parse_car_depth_40 : parse_text_d (nest_car_text 40) = (80, Ok (nest_car 39)).
Proof. vm_compute. reflexivity. Qed.

Theorem C19_parse_vector_unbounded :
  depth_unbounded (fun k => (nest_vec_text k, nest_vec_tokens k)) (fun x => parse_depth_on (fst x) (snd x)).
Proof. exact parse_vec_unbounded. Qed.
Print Assumptions C19_parse_vector_unbounded.
Example parse_vec_witness_is_the_scan : scan (nest_vec_text 25) = Ok (nest_vec_tokens 25).
Proof. vm_compute. reflexivity. Qed.

Theorem C19_parse_quote_unbounded :
  depth_unbounded (fun k => (quote_chain_text k, quote_chain_tokens k)) (fun x => parse_depth_on (fst x) (snd x)).
Proof. exact parse_quote_unbounded. Qed.
Print Assumptions C19_parse_quote_unbounded.
Example parse_quote_witness_is_the_scan : scan (quote_chain_text 25) = Ok (quote_chain_tokens 25).
Proof. vm_compute. reflexivity. Qed.

(* a long flat list is read in three frames: the loop of parse_list *)
Theorem C19_parse_cdr_bounded :
  depth_bounded (fun k => (chain_cdr_text k, chain_cdr_tokens k)) (fun x => parse_depth_on (fst x) (snd x)).
Proof. exact parse_cdr_bounded. Qed.
Print Assumptions C19_parse_cdr_bounded.
Example parse_cdr_witness_is_the_scan : scan (chain_cdr_text 25) = Ok (chain_cdr_tokens 25).
Proof. vm_compute. reflexivity. Qed.
Example parse_cdr_depth_40 : fst (parse_text_d (chain_cdr_text 40)) = 3.
Proof. vm_compute. reflexivity. Qed.

(* --------------------------------------------- transform, compile, free symbols *)
(* Vm::transform on (f (f (f x))) with no macro in scope *)
Theorem C19_transform_nested_unbounded : forall c K fuel, fuel >= K + 2 ->
  fst (transform_d fuel (vm_empty c) (nest_app (S K))) > K.
Proof. exact transform_nested_unbounded. Qed.
Print Assumptions C19_transform_nested_unbounded.
Example transform_nested_30 : transform_d 100 (vm_empty 8) (nest_app 30) = (31, Ok (nest_app 30)).
Proof. vm_compute. reflexivity. Qed.

(* compile_expression through compile_runtime_procedure_application *)
Theorem C19_compile_nested_unbounded : depth_unbounded nest_app (fun e => fst (compile_depth e)).
Proof. exact compile_nested_unbounded. Qed.
Print Assumptions C19_compile_nested_unbounded.
Example compile_nested_30 : compile_depth (nest_app 30) = (31, 0).
Proof. vm_compute. reflexivity. Qed.

(* compile_quasiquote on `(a (a (a b))) *)
Theorem C19_quasiquote_nested_unbounded : forall K fuel, fuel >= K + 2 ->
  fst (cq_d fuel (nest_qq (S K)) 0) > K.
Proof. exact cq_nested_unbounded. Qed.
Print Assumptions C19_quasiquote_nested_unbounded.

(* find_free_symbols (called by compile_lambda on every lambda body) *)
Theorem C19_free_symbols_nested_unbounded : depth_unbounded nest_app ffs_depth.
Proof. exact ffs_nested_unbounded. Qed.
Print Assumptions C19_free_symbols_nested_unbounded.
Example ffs_nested_30 : ffs_depth (nest_app 30) = 31.
Proof. vm_compute. reflexivity. Qed.

(* ----------------------------------------------------------- datum -> heap *)
(* put_cell calls put_cell on the car AND on the cdr: a flat list of n elements costs 2n+1
   frames — quoting a long list recurses as deep as a nested one *)
Theorem C19_put_cell_car_unbounded : depth_unbounded nest_car maybe_put_cell_depth.
Proof. exact put_car_unbounded. Qed.
Print Assumptions C19_put_cell_car_unbounded.
Theorem C19_put_cell_cdr_unbounded : depth_unbounded chain_cdr maybe_put_cell_depth.
Proof. exact put_cdr_unbounded. Qed.
Print Assumptions C19_put_cell_cdr_unbounded.
Theorem C19_put_cell_vector_unbounded : depth_unbounded nest_vec maybe_put_cell_depth.
Proof. exact put_vec_unbounded. Qed.
Print Assumptions C19_put_cell_vector_unbounded.
Theorem C19_put_cell_quote_unbounded : depth_unbounded quote_chain maybe_put_cell_depth.
Proof. exact put_quote_unbounded. Qed.
Print Assumptions C19_put_cell_quote_unbounded.
Example put_cell_depths : (maybe_put_cell_depth (nest_car 30), maybe_put_cell_depth (chain_cdr 30)) = (61, 61).
Proof. vm_compute. reflexivity. Qed.

(* ----------------------------------------------------------- heap -> datum *)
(* get_as_cell on the heap image of ((( ))): exactly 2k+2 frames, and the datum comes back *)
Theorem C19_get_as_cell_car_exact : forall bname s n k fuel, k <= n -> fuel >= 3 * k + 2 ->
  gac_d bname (car_heap n) s fuel (VPtr (N.of_nat k)) = (2 * k + 2, Ok (nest_car k)).
Proof. exact gac_car_exact. Qed.
Print Assumptions C19_get_as_cell_car_exact.
(* ... and on the heap image of a flat list: at most 4 frames whatever the length *)
Theorem C19_get_as_cell_cdr_bounded : forall bname s n k fuel, k <= n ->
  fst (gac_d bname (cdr_heap n) s fuel (VPtr (N.of_nat k))) <= 4.
Proof. exact gac_cdr_le. Qed.
Print Assumptions C19_get_as_cell_cdr_bounded.
Example get_as_cell_cdr_30 :
  gac_d (fun _ => []) (cdr_heap 30) store_empty 200 (VPtr 30) = (4, Ok (chain_cdr 30)).
Proof. vm_compute. reflexivity. Qed.
(* the witness heaps are the shape put_cell builds (checked on an instance; in general by
   the correspondence run) *)
Example car_heap_is_put_cell_shape :
  match maybe_put_cell (heap_new 64) store_empty (nest_car 12) with
  | Ok (v, h, s) => fst (gac_d (fun _ => []) h s 200 v) = 2 * 12 + 2
  | _ => False
  end.
Proof. vm_compute. reflexivity. Qed.

(* ------------------------------------------------------------------ marker *)
Theorem C19_mark_car_unbounded : forall s vd n k fuel, k <= n -> fuel >= k ->
  fst (mark_d (car_heap n) s vd fuel (N.of_nat k) tempty) >= S k.
Proof. exact mark_car_ge. Qed.
Print Assumptions C19_mark_car_unbounded.
(* iterative along the cdr, from any address and any marking state *)
Theorem C19_mark_cdr_bounded : forall s vd n fuel p m,
  fst (mark_d (cdr_heap n) s vd fuel p m) <= 2.
Proof. exact mark_cdr_le. Qed.
Print Assumptions C19_mark_cdr_bounded.
Example mark_depths_30 :
  (fst (mark_d (car_heap 30) store_empty 3 100 30 tempty), fst (mark_d (cdr_heap 30) store_empty 3 100 30 tempty))
  = (31, 2).
Proof. vm_compute. reflexivity. Qed.

(* ------------------------------------------------------------------ equal? *)
(* two disjoint copies of ((( ))) at odd / even addresses: two frames per level *)
Theorem C19_equal_car_unbounded : forall prof s n i fuel, 1 <= i -> i <= n -> fuel >= 2 * i ->
  fst (equal_d prof (car2_heap n) s fuel (VPtr (N.of_nat (2 * i - 1))) (VPtr (N.of_nat (2 * i)))) >= 2 * i - 1.
Proof. exact equal_car_ge. Qed.
Print Assumptions C19_equal_car_unbounded.
Example equal_depths_30 :
  (equal_d Debug (car2_heap 30) store_empty 200 (VPtr 59) (VPtr 60),
   equal_d Debug (cdr2_heap 30) store_empty 200 (VPtr 59) (VPtr 60)) = ((59, Ok true), (3, Ok true)).
Proof. vm_compute. reflexivity. Qed.

(* ----------------------------------------------------------------- printer *)
Theorem C19_display_car_unbounded : depth_unbounded nest_car display_depth.
Proof. exact display_car_unbounded. Qed.
Print Assumptions C19_display_car_unbounded.
Theorem C19_display_vector_unbounded : depth_unbounded nest_vec display_depth.
Proof. exact display_vec_unbounded. Qed.
Print Assumptions C19_display_vector_unbounded.
Theorem C19_display_quote_unbounded : depth_unbounded quote_chain display_depth.
Proof. exact display_quote_unbounded. Qed.
Print Assumptions C19_display_quote_unbounded.
Theorem C19_display_cdr_bounded : depth_bounded chain_cdr display_depth.
Proof. exact display_cdr_bounded. Qed.
Print Assumptions C19_display_cdr_bounded.

(* ------------------------------------------------ implicit Drop (and Clone) *)
(* Pair(Box<Cell>, Box<Cell>): the drop glue recurses into BOTH boxes — a flat list of n
   elements is dropped n+1 frames deep *)
Theorem C19_drop_car_unbounded : depth_unbounded nest_car drop_depth.
Proof. exact drop_car_unbounded. Qed.
Print Assumptions C19_drop_car_unbounded.
Theorem C19_drop_cdr_unbounded : depth_unbounded chain_cdr drop_depth.
Proof. exact drop_cdr_unbounded. Qed.
Print Assumptions C19_drop_cdr_unbounded.
Theorem C19_drop_vector_unbounded : depth_unbounded nest_vec drop_depth.
Proof. exact drop_vec_unbounded. Qed.
Print Assumptions C19_drop_vector_unbounded.
Theorem C19_drop_quote_unbounded : depth_unbounded quote_chain drop_depth.
Proof. exact drop_quote_unbounded. Qed.
Print Assumptions C19_drop_quote_unbounded.

(* ------------------------------------------------------ refutation of C19_full *)
Theorem C19_refuted : ~ C19_full.
Proof. exact (fun H => unbounded_not_bounded _ _ _ display_car_unbounded (proj1 H)). Qed.
Print Assumptions C19_refuted.

(* ------------------------------------- formerly OPEN (work package c19b): now proved *)
(* get_as_cell on the heap image of #(#(#( () ))): exactly 2k+2 frames (get_as_cell(Ptr) ->
   get_as_cell(Vector) per level), and the datum comes back *)
Theorem C19_get_as_cell_vector_exact : forall bname n k fuel, k <= n -> fuel >= 2 * k + 2 ->
  gac_d bname (vec_heap n) (vec_store n) fuel (VPtr (N.of_nat k)) = (2 * k + 2, Ok (nest_vec k)).
Proof. exact gac_vec_exact. Qed.
Print Assumptions C19_get_as_cell_vector_exact.
Theorem C19_get_as_cell_vector_unbounded : forall bname k fuel, fuel >= 3 * k + 2 ->
  fst (gac_d bname (vec_heap k) (vec_store k) fuel (VPtr (N.of_nat k))) > k.
Proof. exact gac_vec_unbounded. Qed.
Print Assumptions C19_get_as_cell_vector_unbounded.

(* mark through nested vectors: two frames per level (mark -> mark_vcell per element -> mark) *)
Theorem C19_mark_vector_ge : forall vd n k fuel, k <= n -> fuel >= k -> vd >= 1 ->
  fst (mark_d (vec_heap n) (vec_store n) vd fuel (N.of_nat k) tempty) >= 2 * k + 1.
Proof. exact mark_vec_ge. Qed.
Print Assumptions C19_mark_vector_ge.
Theorem C19_mark_vector_unbounded : forall vd k fuel, fuel >= 2 * k + 2 -> vd >= 1 ->
  fst (mark_d (vec_heap k) (vec_store k) vd fuel (N.of_nat k) tempty) > k.
Proof. exact mark_vec_unbounded. Qed.
Print Assumptions C19_mark_vector_unbounded.
Example vector_depths_20 :
  gac_d (fun _ => []) (vec_heap 20) (vec_store 20) 100 (VPtr 20) = (42, Ok (nest_vec 20)) /\
  fst (mark_d (vec_heap 20) (vec_store 20) 5 100 20 tempty) = 41.
Proof. vm_compute. split; reflexivity. Qed.

(* equal? along the cdr, after the two fixes in compare.rs (the final cdrs are compared by a
   nested call of equal; numbers compare exactness-aware): two disjoint equal lists of i
   elements, i >= 2, are compared in EXACTLY 3 frames whatever i — equal -> compare_pair ->
   equal (on a car, or on the two final cdrs: () against () answers through eqv at once);
   compare_pair's loop follows both cdr chains in one frame.  (i = 1: eqv answers, 1 frame.) *)
Theorem C19_equal_cdr_bounded : forall prof s n i fuel, 1 <= i -> i <= n ->
  fst (equal_d prof (cdr2_heap n) s fuel (VPtr (N.of_nat (2 * i - 1))) (VPtr (N.of_nat (2 * i)))) <= 3.
Proof. exact equal_cdr_le. Qed.
Print Assumptions C19_equal_cdr_bounded.
Theorem C19_equal_cdr_exact : forall prof s n i fuel, 2 <= i -> i <= n -> fuel >= i + 2 ->
  equal_d prof (cdr2_heap n) s fuel (VPtr (N.of_nat (2 * i - 1))) (VPtr (N.of_nat (2 * i))) = (3, Ok true).
Proof. exact equal_cdr_exact. Qed.
Print Assumptions C19_equal_cdr_exact.
(* the general form: on every heap whose pairs have leaf cars (neither pair nor vector) and
   whose cdrs are not vectors — lists of atoms of any length, proper or improper, equal or
   not, sharing or not — equal? of two addresses never exceeds 3 frames *)
Theorem C19_equal_flat_bounded : forall prof s h, flat_heap h -> forall fuel p q,
  (forall x, heap_get h p = Ok x -> is_vvec x = false) ->
  fst (equal_d prof h s fuel (VPtr p) (VPtr q)) <= 3.
Proof. exact equal_flat_le. Qed.
Print Assumptions C19_equal_flat_bounded.
Example cdr2_heap_is_flat : flat_heap (cdr2_heap 30).
Proof. exact (cdr2_heap_flat 30). Qed.
(* an improper and a proper flat list of different lengths: still 3 frames, answer #f *)
Example equal_flat_improper :
  let h := heap_of_fun (fun i => match i with 0 => VNil | 1 => VNum (Fixnum 7) | 2 => VPair 1 1
                                  | 3 => VPair 1 2 | 4 => VPair 1 0 | 5 => VPair 1 4 | _ => VPair 1 5 end)%N 7 in
  equal_d Debug h store_empty 50 (VPtr 3) (VPtr 6) = (3, Ok false).
Proof. vm_compute. reflexivity. Qed.

(* ---------------------------------------------------------------------- OPEN *)
(* Not proved (exercised by the correspondence and the grid only):
   - get_as_cell / mark / equal? through quote chains, equal? through nested vectors;
   - mark through a chain of closures / of continuations is unbounded (needs the lambda and
     environment payloads of Model/Vm.v in the witness heap);
   - the VM run loop adds no native frame per Scheme call (non-tail recursion, closure and
     continuation chains at run time): run.rs is a loop by inspection; not modelled here. *)
