(* C19 — depth is limited by memory, not by the host's native stack.

   WHAT IS PROVED HERE AND WHAT IS NOT.  A Gallina function cannot exhaust a native stack,
   so "the process is never aborted by native stack exhaustion" is not a statement about
   the model.  What the model does carry is the native RECURSION DEPTH of each recursive
   pass of marwood as a function of its input (Model/Depth.v: the models of the passes,
   instrumented so that a recursive call adds one and a loop iteration adds nothing, in
   units of the frames that carry a verif_depth::Guard in marwood).  For every pass and
   direction of nesting the theorems below give one of

     depth_bounded   fam d :  exists K, forall k, d (fam k) <= K
     depth_unbounded fam d :  forall K, d (fam (S K)) > K          (fam k = witness of nesting k)

   [depth_unbounded] decides the scenario NEGATIVELY only together with an observation:
   every guarded frame occupies a positive number of bytes of a finite native stack, so
   some nesting aborts the process; that the abort actually happens at the depths of the
   property's grid (10^3, 10^4, 10^5; main thread / 2 MiB thread; debug / release) is
   OBSERVED by replaying the witness family in an isolated child process
   (harness/src/bin/mwdepth.rs, lib/props/c19.py), not proved.  C19 is partial in exactly
   this sense.  The theorems are tied to marwood by the depth correspondence: the depth
   counters of the real functions equal these depth functions on generated nested data.

   Theorems are closed by [exact] of a lemma of Proofs/DepthProofs.v.                       *)
From Coq Require Import String.
From MW Require Import Model.Base Model.F64 Model.Num Model.NumArith Model.Datum Model.Lex Model.Parse
  Model.TransformDef Model.Transform Model.VmTypes Model.Heap Model.VmBase Model.Compile Model.Gc
  Model.Depth Proofs.DepthProofs Proofs.DepthProofs2 Proofs.DepthProofs3 Proofs.DepthProofs4
  Model.Vm Model.Builtins.
Open Scope nat_scope.

(* the property at full strength, in the model's vocabulary: every pass has bounded native
   depth in every direction.  FALSE on the pinned tree: refuted below pass by pass. *)
Definition C19_full : Prop :=
  depth_bounded nest_car display_depth /\ depth_bounded nest_car drop_depth /\
  depth_bounded nest_car maybe_put_cell_depth /\ depth_bounded chain_cdr maybe_put_cell_depth /\
  depth_bounded chain_cdr drop_depth /\ depth_bounded nest_app (fun e => fst (compile_depth e)).

(* ------------------------------------------------------------------ reader *)
(* parse / parse_list / parse_vector (parse.rs:57-202) on the token list of "((( )))",
   "#(#(#( )))", "'''a": two frames per list level, one per quote *)
Theorem C19_parse_car_unbounded :
  depth_unbounded (fun k => (nest_car_text k, nest_car_tokens k)) (fun x => parse_depth_on (fst x) (snd x)).
Proof. exact parse_car_unbounded. Qed.
Print Assumptions C19_parse_car_unbounded.
Example parse_car_witness_is_the_scan : scan (nest_car_text 25) = Ok (nest_car_tokens 25).
Proof. vm_compute. reflexivity. Qed.
Example parse_car_depth_40 : parse_text_d (nest_car_text 40) = (80, Ok (nest_car 39)).
Proof. vm_compute. reflexivity. Qed.

Theorem C19_parse_vector_unbounded :
  depth_unbounded (fun k => (nest_vec_text k, nest_vec_tokens k)) (fun x => parse_depth_on (fst x) (snd x)).
Proof. exact parse_vec_unbounded. Qed.
Print Assumptions C19_parse_vector_unbounded.
Example parse_vec_witness_is_the_scan : scan (nest_vec_text 25) = Ok (nest_vec_tokens 25).
Proof. vm_compute. reflexivity. Qed.

Theorem C19_parse_quote_unbounded :
  depth_unbounded (fun k => (quote_chain_text k, quote_chain_tokens k)) (fun x => parse_depth_on (fst x) (snd x)).
Proof. exact parse_quote_unbounded. Qed.
Print Assumptions C19_parse_quote_unbounded.
Example parse_quote_witness_is_the_scan : scan (quote_chain_text 25) = Ok (quote_chain_tokens 25).
Proof. vm_compute. reflexivity. Qed.

(* a long flat list is read in three frames: the loop of parse_list *)
Theorem C19_parse_cdr_bounded :
  depth_bounded (fun k => (chain_cdr_text k, chain_cdr_tokens k)) (fun x => parse_depth_on (fst x) (snd x)).
Proof. exact parse_cdr_bounded. Qed.
Print Assumptions C19_parse_cdr_bounded.
Example parse_cdr_witness_is_the_scan : scan (chain_cdr_text 25) = Ok (chain_cdr_tokens 25).
Proof. vm_compute. reflexivity. Qed.
Example parse_cdr_depth_40 : fst (parse_text_d (chain_cdr_text 40)) = 3.
Proof. vm_compute. reflexivity. Qed.

(* --------------------------------------------- transform, compile, free symbols *)
(* Vm::transform on (f (f (f x))) with no macro in scope *)
Theorem C19_transform_nested_unbounded : forall c K fuel, fuel >= K + 2 ->
  fst (transform_d fuel (vm_empty c) (nest_app (S K))) > K.
Proof. exact transform_nested_unbounded. Qed.
Print Assumptions C19_transform_nested_unbounded.
Example transform_nested_30 : transform_d 100 (vm_empty 8) (nest_app 30) = (31, Ok (nest_app 30)).
Proof. vm_compute. reflexivity. Qed.

(* compile_expression through compile_runtime_procedure_application *)
Theorem C19_compile_nested_unbounded : depth_unbounded nest_app (fun e => fst (compile_depth e)).
Proof. exact compile_nested_unbounded. Qed.
Print Assumptions C19_compile_nested_unbounded.
Example compile_nested_30 : compile_depth (nest_app 30) = (31, 0).
Proof. vm_compute. reflexivity. Qed.

(* compile_quasiquote on `(a (a (a b))) *)
Theorem C19_quasiquote_nested_unbounded : forall K fuel, fuel >= K + 2 ->
  fst (cq_d fuel (nest_qq (S K)) 0) > K.
Proof. exact cq_nested_unbounded. Qed.
Print Assumptions C19_quasiquote_nested_unbounded.

(* find_free_symbols (called by compile_lambda on every lambda body) *)
Theorem C19_free_symbols_nested_unbounded : depth_unbounded nest_app ffs_depth.
Proof. exact ffs_nested_unbounded. Qed.
Print Assumptions C19_free_symbols_nested_unbounded.
Example ffs_nested_30 : ffs_depth (nest_app 30) = 31.
Proof. vm_compute. reflexivity. Qed.

(* ----------------------------------------------------------- datum -> heap *)
(* put_cell calls put_cell on the car AND on the cdr: a flat list of n elements costs 2n+1
   frames — quoting a long list recurses as deep as a nested one *)
Theorem C19_put_cell_car_unbounded : depth_unbounded nest_car maybe_put_cell_depth.
Proof. exact put_car_unbounded. Qed.
Print Assumptions C19_put_cell_car_unbounded.
Theorem C19_put_cell_cdr_unbounded : depth_unbounded chain_cdr maybe_put_cell_depth.
Proof. exact put_cdr_unbounded. Qed.
Print Assumptions C19_put_cell_cdr_unbounded.
Theorem C19_put_cell_vector_unbounded : depth_unbounded nest_vec maybe_put_cell_depth.
Proof. exact put_vec_unbounded. Qed.
Print Assumptions C19_put_cell_vector_unbounded.
Theorem C19_put_cell_quote_unbounded : depth_unbounded quote_chain maybe_put_cell_depth.
Proof. exact put_quote_unbounded. Qed.
Print Assumptions C19_put_cell_quote_unbounded.
Example put_cell_depths : (maybe_put_cell_depth (nest_car 30), maybe_put_cell_depth (chain_cdr 30)) = (61, 61).
Proof. vm_compute. reflexivity. Qed.

(* ----------------------------------------------------------- heap -> datum *)
(* get_as_cell on the heap image of ((( ))): exactly 2k+2 frames, and the datum comes back *)
Theorem C19_get_as_cell_car_exact : forall bname s n k fuel, k <= n -> fuel >= 3 * k + 2 ->
  gac_d bname (car_heap n) s fuel (VPtr (N.of_nat k)) = (2 * k + 2, Ok (nest_car k)).
Proof. exact gac_car_exact. Qed.
Print Assumptions C19_get_as_cell_car_exact.
(* ... and on the heap image of a flat list: at most 4 frames whatever the length *)
Theorem C19_get_as_cell_cdr_bounded : forall bname s n k fuel, k <= n ->
  fst (gac_d bname (cdr_heap n) s fuel (VPtr (N.of_nat k))) <= 4.
Proof. exact gac_cdr_le. Qed.
Print Assumptions C19_get_as_cell_cdr_bounded.
Example get_as_cell_cdr_30 :
  gac_d (fun _ => []) (cdr_heap 30) store_empty 200 (VPtr 30) = (4, Ok (chain_cdr 30)).
Proof. vm_compute. reflexivity. Qed.
(* the witness heaps are the shape put_cell builds (checked on an instance; in general by
   the correspondence run) *)
Example car_heap_is_put_cell_shape :
  match maybe_put_cell (heap_new 64) store_empty (nest_car 12) with
  | Ok (v, h, s) => fst (gac_d (fun _ => []) h s 200 v) = 2 * 12 + 2
  | _ => False
  end.
Proof. vm_compute. reflexivity. Qed.

(* ------------------------------------------------------------------ marker *)
Theorem C19_mark_car_unbounded : forall s vd n k fuel, k <= n -> fuel >= k ->
  fst (mark_d (car_heap n) s vd fuel (N.of_nat k) tempty) >= S k.
Proof. exact mark_car_ge. Qed.
Print Assumptions C19_mark_car_unbounded.
(* iterative along the cdr, from any address and any marking state *)
Theorem C19_mark_cdr_bounded : forall s vd n fuel p m,
  fst (mark_d (cdr_heap n) s vd fuel p m) <= 2.
Proof. exact mark_cdr_le. Qed.
Print Assumptions C19_mark_cdr_bounded.
Example mark_depths_30 :
  (fst (mark_d (car_heap 30) store_empty 3 100 30 tempty), fst (mark_d (cdr_heap 30) store_empty 3 100 30 tempty))
  = (31, 2).
Proof. vm_compute. reflexivity. Qed.

(* ------------------------------------------------------------------ equal? *)
(* two disjoint copies of ((( ))) at odd / even addresses: two frames per level *)
Theorem C19_equal_car_unbounded : forall prof s n i fuel, 1 <= i -> i <= n -> fuel >= 2 * i ->
  fst (equal_d prof (car2_heap n) s fuel (VPtr (N.of_nat (2 * i - 1))) (VPtr (N.of_nat (2 * i)))) >= 2 * i - 1.
Proof. exact equal_car_ge. Qed.
Print Assumptions C19_equal_car_unbounded.
Example equal_depths_30 :
  (equal_d Debug (car2_heap 30) store_empty 200 (VPtr 59) (VPtr 60),
   equal_d Debug (cdr2_heap 30) store_empty 200 (VPtr 59) (VPtr 60)) = ((59, Ok true), (3, Ok true)).
Proof. vm_compute. reflexivity. Qed.

(* ----------------------------------------------------------------- printer *)
Theorem C19_display_car_unbounded : depth_unbounded nest_car display_depth.
Proof. exact display_car_unbounded. Qed.
Print Assumptions C19_display_car_unbounded.
Theorem C19_display_vector_unbounded : depth_unbounded nest_vec display_depth.
Proof. exact display_vec_unbounded. Qed.
Print Assumptions C19_display_vector_unbounded.
Theorem C19_display_quote_unbounded : depth_unbounded quote_chain display_depth.
Proof. exact display_quote_unbounded. Qed.
Print Assumptions C19_display_quote_unbounded.
Theorem C19_display_cdr_bounded : depth_bounded chain_cdr display_depth.
Proof. exact display_cdr_bounded. Qed.
Print Assumptions C19_display_cdr_bounded.

(* ------------------------------------------------ implicit Drop (and Clone) *)
(* Pair(Box<Cell>, Box<Cell>): the drop glue recurses into BOTH boxes — a flat list of n
   elements is dropped n+1 frames deep *)
Theorem C19_drop_car_unbounded : depth_unbounded nest_car drop_depth.
Proof. exact drop_car_unbounded. Qed.
Print Assumptions C19_drop_car_unbounded.
Theorem C19_drop_cdr_unbounded : depth_unbounded chain_cdr drop_depth.
Proof. exact drop_cdr_unbounded. Qed.
Print Assumptions C19_drop_cdr_unbounded.
Theorem C19_drop_vector_unbounded : depth_unbounded nest_vec drop_depth.
Proof. exact drop_vec_unbounded. Qed.
Print Assumptions C19_drop_vector_unbounded.
Theorem C19_drop_quote_unbounded : depth_unbounded quote_chain drop_depth.
Proof. exact drop_quote_unbounded. Qed.
Print Assumptions C19_drop_quote_unbounded.

(* ------------------------------------------------------ refutation of C19_full *)
Theorem C19_refuted : ~ C19_full.
Proof. exact (fun H => unbounded_not_bounded _ _ _ display_car_unbounded (proj1 H)). Qed.
Print Assumptions C19_refuted.

(* ------------------------------------- formerly OPEN (work package c19b): now proved *)
(* get_as_cell on the heap image of #(#(#( () ))): exactly 2k+2 frames (get_as_cell(Ptr) ->
   get_as_cell(Vector) per level), and the datum comes back *)
Theorem C19_get_as_cell_vector_exact : forall bname n k fuel, k <= n -> fuel >= 2 * k + 2 ->
  gac_d bname (vec_heap n) (vec_store n) fuel (VPtr (N.of_nat k)) = (2 * k + 2, Ok (nest_vec k)).
Proof. exact gac_vec_exact. Qed.
Print Assumptions C19_get_as_cell_vector_exact.
Theorem C19_get_as_cell_vector_unbounded : forall bname k fuel, fuel >= 3 * k + 2 ->
  fst (gac_d bname (vec_heap k) (vec_store k) fuel (VPtr (N.of_nat k))) > k.
Proof. exact gac_vec_unbounded. Qed.
Print Assumptions C19_get_as_cell_vector_unbounded.

(* mark through nested vectors: two frames per level (mark -> mark_vcell per element -> mark) *)
Theorem C19_mark_vector_ge : forall vd n k fuel, k <= n -> fuel >= k -> vd >= 1 ->
  fst (mark_d (vec_heap n) (vec_store n) vd fuel (N.of_nat k) tempty) >= 2 * k + 1.
Proof. exact mark_vec_ge. Qed.
Print Assumptions C19_mark_vector_ge.
Theorem C19_mark_vector_unbounded : forall vd k fuel, fuel >= 2 * k + 2 -> vd >= 1 ->
  fst (mark_d (vec_heap k) (vec_store k) vd fuel (N.of_nat k) tempty) > k.
Proof. exact mark_vec_unbounded. Qed.
Print Assumptions C19_mark_vector_unbounded.
Example vector_depths_20 :
  gac_d (fun _ => []) (vec_heap 20) (vec_store 20) 100 (VPtr 20) = (42, Ok (nest_vec 20)) /\
  fst (mark_d (vec_heap 20) (vec_store 20) 5 100 20 tempty) = 41.
Proof. vm_compute. split; reflexivity. Qed.

(* equal? along the cdr, after the two fixes in compare.rs (the final cdrs are compared by a
   nested call of equal; numbers compare exactness-aware): two disjoint equal lists of i
   elements, i >= 2, are compared in EXACTLY 3 frames whatever i — equal -> compare_pair ->
   equal (on a car, or on the two final cdrs: () against () answers through eqv at once);
   compare_pair's loop follows both cdr chains in one frame.  (i = 1: eqv answers, 1 frame.) *)
Theorem C19_equal_cdr_bounded : forall prof s n i fuel, 1 <= i -> i <= n ->
  fst (equal_d prof (cdr2_heap n) s fuel (VPtr (N.of_nat (2 * i - 1))) (VPtr (N.of_nat (2 * i)))) <= 3.
Proof. exact equal_cdr_le. Qed.
Print Assumptions C19_equal_cdr_bounded.
Theorem C19_equal_cdr_exact : forall prof s n i fuel, 2 <= i -> i <= n -> fuel >= i + 2 ->
  equal_d prof (cdr2_heap n) s fuel (VPtr (N.of_nat (2 * i - 1))) (VPtr (N.of_nat (2 * i))) = (3, Ok true).
Proof. exact equal_cdr_exact. Qed.
Print Assumptions C19_equal_cdr_exact.
(* the general form: on every heap whose pairs have leaf cars (neither pair nor vector) and
   whose cdrs are not vectors — lists of atoms of any length, proper or improper, equal or
   not, sharing or not — equal? of two addresses never exceeds 3 frames *)
Theorem C19_equal_flat_bounded : forall prof s h, flat_heap h -> forall fuel p q,
  (forall x, heap_get h p = Ok x -> is_vvec x = false) ->
  fst (equal_d prof h s fuel (VPtr p) (VPtr q)) <= 3.
Proof. exact equal_flat_le. Qed.
Print Assumptions C19_equal_flat_bounded.
Example cdr2_heap_is_flat : flat_heap (cdr2_heap 30).
Proof. exact (cdr2_heap_flat 30). Qed.
(* an improper and a proper flat list of different lengths: still 3 frames, answer #f *)
Example equal_flat_improper :
  let h := heap_of_fun (fun i => match i with 0 => VNil | 1 => VNum (Fixnum 7) | 2 => VPair 1 1
                                  | 3 => VPair 1 2 | 4 => VPair 1 0 | 5 => VPair 1 4 | _ => VPair 1 5 end)%N 7 in
  equal_d Debug h store_empty 50 (VPtr 3) (VPtr 6) = (3, Ok false).
Proof. vm_compute. reflexivity. Qed.

(* ------------------------------------------- formerly OPEN (work package c19c): quote chains *)
(* ''''a is (quote (quote (quote (quote a)))): every quote is a two-element list.  Heap image
   [qt_heap n] (Proofs/DepthProofs3.v): 0 = (), 1 = quote, 2 = a, level j at address 2j+2.
   get_as_cell: exactly two frames per quote (get_as_cell(Ptr) -> get_as_cell(Pair), whose loop
   walks (quote x) and calls get_as_cell(Ptr x)), and the datum comes back *)
Theorem C19_get_as_cell_quote_exact : forall bname s n j fuel, j <= n -> fuel >= 4 * j + 2 ->
  gac_d bname (qt_heap n) s fuel (VPtr (N.of_nat (2 * j + 2))) = (2 * j + 2, Ok (quote_chain j)).
Proof. exact gac_quote_exact. Qed.
Print Assumptions C19_get_as_cell_quote_exact.
Theorem C19_get_as_cell_quote_unbounded : forall bname s k fuel, fuel >= 4 * k + 2 ->
  fst (gac_d bname (qt_heap k) s fuel (VPtr (N.of_nat (2 * k + 2)))) > k.
Proof. exact gac_quote_unbounded. Qed.
Print Assumptions C19_get_as_cell_quote_unbounded.
(* mark: one frame per quote (the cdr of (quote x) is followed in the loop, x is a nested call) *)
Theorem C19_mark_quote_ge : forall s vd n j fuel, j <= n -> fuel >= 2 * j ->
  fst (mark_d (qt_heap n) s vd fuel (N.of_nat (2 * j + 2)) tempty) >= S j.
Proof. exact mark_quote_ge. Qed.
Print Assumptions C19_mark_quote_ge.
(* the witness heap has the depth of what put_cell builds for ''''a (instance; in general by the
   correspondence run), and mark's bound is attained *)
Example quote_heap_is_put_cell_shape :
  match maybe_put_cell (heap_new 64) store_empty (quote_chain 12) with
  | Ok (v, h, s) => gac_d (fun _ => []) h s 200 v = (2 * 12 + 2, Ok (quote_chain 12))
  | _ => False
  end.
Proof. vm_compute. reflexivity. Qed.
Example quote_depths_20 :
  gac_d (fun _ => []) (qt_heap 20) store_empty 100 (VPtr 42) = (42, Ok (quote_chain 20)) /\
  fst (mark_d (qt_heap 20) store_empty 3 100 42 tempty) = 21.
Proof. vm_compute. split; reflexivity. Qed.

(* equal? on two disjoint copies of ''''a in one heap ([qt2_heap n]: `quote` and `a` interned,
   hence shared; the copies of level j at [qL j], [qR j]): EXACTLY 2j+1 frames (equal ->
   compare_pair -> equal on the quoted datum), answer #t *)
Theorem C19_equal_quote_exact : forall prof s n j fuel, j <= n -> fuel >= 3 * j + 1 ->
  equal_d prof (qt2_heap n) s fuel (VPtr (qL j)) (VPtr (qR j)) = (2 * j + 1, Ok true).
Proof. exact equal_quote_exact. Qed.
Print Assumptions C19_equal_quote_exact.
Theorem C19_equal_quote_unbounded : forall prof s k fuel, fuel >= 3 * k + 4 ->
  fst (equal_d prof (qt2_heap (S k)) s fuel (VPtr (qL (S k))) (VPtr (qR (S k)))) > k.
Proof. exact equal_quote_unbounded. Qed.
Print Assumptions C19_equal_quote_unbounded.
Example equal_quote_20 :
  (qL 20, qR 20) = (81%N, 82%N) /\
  equal_d Debug (qt2_heap 20) store_empty 100 (VPtr 81) (VPtr 82) = (41, Ok true).
Proof. vm_compute. split; reflexivity. Qed.
(* the same depth on two copies of ''''a stored by put_cell in one heap *)
Example equal_quote_put_cell_shape :
  match maybe_put_cell (heap_new 64) store_empty (quote_chain 12) with
  | Ok (v1, h1, s1) =>
      match maybe_put_cell h1 s1 (CPair (CSym QUOTE) (CPair (quote_chain 11) CNil)) with
      | Ok (v2, h2, s2) => v1 <> v2 /\ equal_d Debug h2 s2 100 v1 v2 = (2 * 12 + 1, Ok true)
      | _ => False
      end
  | _ => False
  end.
Proof. vm_compute. split; [discriminate|reflexivity]. Qed.

(* ------------------------------------------------------ equal? through nested vectors *)
(* two disjoint copies of #(#(#( () ))) ([vec2_heap n], [vec2_store n]; level i at 2i-1, 2i):
   EXACTLY 2i+1 frames (equal -> compare_vector -> equal per element), answer #t *)
Theorem C19_equal_vector_exact : forall prof n i fuel, 1 <= i -> i <= n -> fuel >= i + 1 ->
  equal_d prof (vec2_heap n) (vec2_store n) fuel (VPtr (N.of_nat (2 * i - 1))) (VPtr (N.of_nat (2 * i)))
  = (2 * i + 1, Ok true).
Proof. exact equal_vec_exact. Qed.
Print Assumptions C19_equal_vector_exact.
Theorem C19_equal_vector_unbounded : forall prof k fuel, fuel >= k + 2 ->
  fst (equal_d prof (vec2_heap (S k)) (vec2_store (S k)) fuel
         (VPtr (N.of_nat (2 * S k - 1))) (VPtr (N.of_nat (2 * S k)))) > k.
Proof. exact equal_vec_unbounded. Qed.
Print Assumptions C19_equal_vector_unbounded.
Example equal_vector_20 :
  equal_d Debug (vec2_heap 20) (vec2_store 20) 100 (VPtr 39) (VPtr 40) = (41, Ok true).
Proof. vm_compute. reflexivity. Qed.
Example equal_vector_put_cell_shape :
  match maybe_put_cell (heap_new 64) store_empty (nest_vec 12) with
  | Ok (v1, h1, s1) =>
      match maybe_put_cell h1 s1 (nest_vec 12) with
      | Ok (v2, h2, s2) => v1 <> v2 /\ equal_d Debug h2 s2 100 v1 v2 = (2 * 12 + 1, Ok true)
      | _ => False
      end
  | _ => False
  end.
Proof. vm_compute. split; [discriminate|reflexivity]. Qed.

(* ------------------------------------------- mark through closure and continuation chains *)
(* a closure whose environment holds a closure whose environment holds ...  The witness
   [clo_heap n] / [clo_store n] (Proofs/DepthProofs4.v) has the layout OClosureAcc builds for
   (define (mk c) (lambda () c)) (mk (mk (mk ...))): level k = frame environment of mk
   [Ptr previous closure] at 3k-2, the closure's environment [LexPtr (3k-2) 0] at 3k-1, the
   closure at 3k.  FIVE frames per closure: mark(closure) -> mark(environment) ->
   mark_vcell(LexPtr) -> mark(frame environment) -> mark_vcell(Ptr) -> mark(next closure) *)
Theorem C19_mark_closure_ge : forall vd n k fuel, k <= n -> fuel >= 3 * k -> vd >= 1 ->
  fst (mark_d (clo_heap n) (clo_store n) vd fuel (N.of_nat (3 * k)) tempty) >= 5 * k + 1.
Proof. exact mark_closure_ge. Qed.
Print Assumptions C19_mark_closure_ge.
Theorem C19_mark_closure_unbounded : forall vd k fuel, fuel >= 3 * k + 3 -> vd >= 1 ->
  fst (mark_d (clo_heap (S k)) (clo_store (S k)) vd fuel (N.of_nat (3 * S k)) tempty) > k.
Proof. exact mark_closure_unbounded. Qed.
Print Assumptions C19_mark_closure_unbounded.
Example mark_closure_20 : fst (mark_d (clo_heap 20) (clo_store 20) 5 100 60 tempty) = 101.
Proof. vm_compute. reflexivity. Qed.

(* the chain the VM MODEL builds by running the program (no prelude needed): result in acc *)
Definition mark_depth_of_acc (prog : text) : option (vcell * nat) :=
  match boot_with [] with
  | Some s0 =>
      let '(_, s1) := eval_text_all 10 prog s0 [] in
      match acc s1 with
      | VPtr p => Some (cell_at (hp s1) p, fst (mark_d (hp s1) (st s1) 5 1000 p tempty))
      | _ => None
      end
  | None => None
  end.
(* k closures around the number 0: 5 frames per closure (the innermost slot holds an immediate:
   mark_vcell returns at once, 4 frames for that level) + the frame of the first mark *)
Example closure_chain_built_by_the_vm :
  match mark_depth_of_acc (S_ "(define (mk c) (lambda () c)) (mk (mk (mk (mk (mk 0)))))"%string) with
  | Some (VClosure _ _, d) => d = 5 * 5
  | _ => False
  end.
Proof. vm_compute. reflexivity. Qed.
Example closure_chain_built_by_the_vm_8 :
  match mark_depth_of_acc
          (S_ "(define (mk c) (lambda () c)) (mk (mk (mk (mk (mk (mk (mk (mk 0))))))))"%string) with
  | Some (VClosure _ _, d) => d = 5 * 8
  | _ => False
  end.
Proof. vm_compute. reflexivity. Qed.

(* a continuation whose saved stack holds the previous continuation ...  Witness [cont_heap n] /
   [cont_store n]: the layout of (define (mk n acc) (if (= n 0) acc (mk (- n 1) (call/cc
   (lambda (c) c))))) — mk is a tail loop, every captured stack is the one frame of mk whose
   slot acc points to the previous continuation object.  TWO frames per continuation:
   mark(continuation) -> mark_vcell(stack slot) -> mark(previous continuation) *)
Theorem C19_mark_continuation_ge : forall vd n k fuel, k <= n -> fuel >= k -> vd >= 1 ->
  fst (mark_d (cont_heap n) (cont_store n) vd fuel (N.of_nat (k + 1)) tempty) >= 2 * k + 1.
Proof. exact mark_cont_ge. Qed.
Print Assumptions C19_mark_continuation_ge.
Theorem C19_mark_continuation_unbounded : forall vd k fuel, fuel >= k + 1 -> vd >= 1 ->
  fst (mark_d (cont_heap (S k)) (cont_store (S k)) vd fuel (N.of_nat (S k + 1)) tempty) > k.
Proof. exact mark_cont_unbounded. Qed.
Print Assumptions C19_mark_continuation_unbounded.
Example mark_continuation_20 : fst (mark_d (cont_heap 20) (cont_store 20) 5 100 21 tempty) = 41.
Proof. vm_compute. reflexivity. Qed.
Example continuation_chain_built_by_the_vm :
  match mark_depth_of_acc
          (S_ "(define (mk n acc) (if (= n 0) acc (mk (- n 1) (call/cc (lambda (c) c))))) (mk 3 #f)"%string),
        mark_depth_of_acc
          (S_ "(define (mk n acc) (if (= n 0) acc (mk (- n 1) (call/cc (lambda (c) c))))) (mk 9 #f)"%string) with
  | Some (VCont _, d3), Some (VCont _, d9) => d3 = 2 * 3 + 4 /\ d9 = 2 * 9 + 4
  | _, _ => False
  end.
Proof. vm_compute. split; reflexivity. Qed.

(* ---------------------------------------------------------------------- OPEN *)
(* Not proved (exercised by the correspondence and the grid only):
   - the VM run loop adds no native frame per Scheme call (non-tail recursion, closure and
     continuation chains at run time): run.rs is a loop by inspection; not modelled here;
   - mark through quote / closure / continuation chains is a LOWER bound (the marking state
     threaded through the traversal is not characterised); the instances above show the bounds
     are attained on the witness heaps (quote: j+1, closure: 5k+1, continuation: 2k+1);
   - that the witness heaps are, for EVERY k, what put_cell / the VM build (shown on instances
     by vm_compute; in general by the correspondence run). *)
