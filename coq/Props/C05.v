(* C05 — first-class continuations: escape, re-entry and cross-evaluation invocation.
   Statements only (proofs: Proofs/VmProofs.v).  Model: Model/Vm.v (b_call_cc,
   resolve_callee, to_continuation, restore_continuation = builtin/procedure.rs
   119-134, run.rs 157-166 / 189-198, continuation.rs, stack.rs 184-200), for ANY
   table [ob] of the other builtin procedures.                                   *)
From MW Require Import Model.Base Model.Datum Model.VmTypes Model.Heap Model.VmBase Model.Vm
  Proofs.HeapProofs Proofs.VmProofs.
Open Scope N_scope.

(* Capture.  The machine is at a CALL/TCALL (instruction pointer already past it)
   with the receiver and Argc 1 on the stack.  call/cc pops both, saves slots
   0..=sp, sp, ep, bp and that instruction pointer — the address of the instruction
   AFTER the call — in a fresh continuation object on the heap, pushes a pointer to
   it and Argc 1, moves the instruction pointer back onto the call and hands the
   receiver to the caller, which puts it in %acc: the machine is now exactly in the
   state of the ordinary application (receiver k), so a receiver that returns
   normally behaves like an ordinary call.  Nothing else changes. *)
Theorem C05_capture_state : forall s proc pv,
  heap_wf (hp s) ->
  sget s (sp s) = VArgc 1 -> 2 <= sp s -> sp s < scap s ->
  sget s (sp s - 1) = proc -> heap_deref (hp s) proc = Ok pv -> is_procedure pv = true ->
  snd (ip s) <> 0 ->
  let s0 := with_sp s (sp s - 2) in
  let k := mk_cont (stack_to_sp s0) (sp s0) (ep s) (ip s) (bp s) in
  let cid := next_id (st s) in
  exists kp s', b_call_cc s = ROk proc s' /\
    tget (conts (st s')) cid = Some k /\
    heap_get (hp s') kp = Ok (VCont cid) /\
    (forall q, q <> kp -> tget (cells (hp s')) q = tget (cells (hp s)) q) /\
    sp s' = sp s /\ sget s' (sp s') = VArgc 1 /\ sget s' (sp s' - 1) = VPtr kp /\
    ip s' = (fst (ip s), snd (ip s) - 1) /\
    bp s' = bp s /\ ep s' = ep s /\ acc s' = acc s /\ scap s' = scap s /\
    g_bind s' = g_bind s /\ g_slots s' = g_slots s /\ out_log s' = out_log s /\
    (forall j, j < sp s - 1 -> sget s' j = sget s j).
Proof. exact capture_state. Qed.
Print Assumptions C05_capture_state.

(* Invocation.  From ANY state — any call depth, any later evaluation, any heap —
   whose CALL/TCALL finds the continuation in %acc with n >= 1 arguments, v being
   the last one pushed: the stack slots below the saved length, sp, bp, ep and ip are
   the captured ones (operands already evaluated at capture time keep their values:
   they are in the saved slots), %acc = v, and heap, Rc payloads (strings, vectors,
   environments), globals, output log are UNCHANGED (mutations made since capture
   stay visible).  The computation in progress is abandoned: its frames lie above
   the restored sp. *)
Theorem C05_k_invoke : forall ob s cid k n,
  heap_deref (hp s) (acc s) = Ok (VCont cid) ->
  tget (conts (st s)) cid = Some k ->
  sget s (sp s) = VArgc n -> n <> 0 -> 2 <= sp s -> sp s < scap s ->
  len (k_stack k) <= scap s ->
  resolve_callee ob s =
    ROk CDone (mk_vm (hp s) (st s) (g_bind s) (g_slots s)
                     (write_slots (k_stack k) 0 (stack s)) (scap s)
                     (k_sp k) (k_bp k) (k_ep k) (k_ip k) (sget s (sp s - 1)) (out_log s)).
Proof. exact k_invoke. Qed.
Print Assumptions C05_k_invoke.

(* the restored slots, read back *)
Theorem C05_restored_slot : forall s k j,
  match tget (write_slots (k_stack k) 0 (stack s)) j with Some v => v | None => VUndef end =
  if j <? len (k_stack k) then nth (N.to_nat j) (k_stack k) VUndef else sget s j.
Proof. exact restored_slot. Qed.
Print Assumptions C05_restored_slot.

(* any number of times: invoking leaves the continuation object (and the whole heap
   and store) untouched *)
Theorem C05_k_reusable : forall ob s cid k n s' c,
  heap_deref (hp s) (acc s) = Ok (VCont cid) ->
  tget (conts (st s)) cid = Some k ->
  sget s (sp s) = VArgc n -> n <> 0 -> 2 <= sp s -> sp s < scap s ->
  len (k_stack k) <= scap s ->
  resolve_callee ob s = ROk c s' -> tget (conts (st s')) cid = Some k /\ hp s' = hp s.
Proof. exact k_reusable. Qed.
Print Assumptions C05_k_reusable.

(* a continuation applied to no argument is reported as an error *)
Theorem C05_k_zero_args : forall ob s cid,
  heap_deref (hp s) (acc s) = Ok (VCont cid) ->
  sget s (sp s) = VArgc 0 -> 1 <= sp s -> sp s < scap s ->
  exists s', resolve_callee ob s = RErr E_OTHER [] s'.
Proof. exact k_zero_args. Qed.
Print Assumptions C05_k_zero_args.
