(* C05 — first-class continuations: escape, re-entry and cross-evaluation invocation.
   Statements only (proofs: Proofs/VmProofs.v).  Model: Model/Vm.v (b_call_cc,
   resolve_callee, to_continuation, restore_continuation = builtin/procedure.rs
   119-134, run.rs 157-166 / 189-198, continuation.rs, stack.rs 184-200), for ANY
   table [ob] of the other builtin procedures.                                   *)
From MW Require Import Model.Base Model.Datum Model.VmTypes Model.Heap Model.Gc Model.VmBase Model.Vm
  Model.Builtins Proofs.HeapProofs Proofs.VmProofs Proofs.SymtabProofs Proofs.QuoteHeapProofs
  Proofs.RunProofs Proofs.CompileCorrect Proofs.ContProofs Proofs.ContExample
  Proofs.MonoBase Proofs.MonoCompile Proofs.MonoStep Proofs.MonoBuiltins Proofs.MonoCont Proofs.MonoTcall
  Proofs.MonoExample.
Open Scope N_scope.

(* Capture.  The machine is at a CALL/TCALL (instruction pointer already past it)
   with the receiver and Argc 1 on the stack.  call/cc pops both, saves slots
   0..=sp, sp, ep, bp and that instruction pointer — the address of the instruction
   AFTER the call — in a fresh continuation object on the heap, pushes a pointer to
   it and Argc 1, moves the instruction pointer back onto the call and hands the
   receiver to the caller, which puts it in %acc: the machine is now exactly in the
   state of the ordinary application (receiver k), so a receiver that returns
   normally behaves like an ordinary call.  Nothing else changes. *)
Theorem C05_capture_state : forall s proc pv,
  heap_wf (hp s) ->
  sget s (sp s) = VArgc 1 -> 2 <= sp s -> sp s < scap s ->
  sget s (sp s - 1) = proc -> heap_deref (hp s) proc = Ok pv -> is_procedure pv = true ->
  snd (ip s) <> 0 ->
  let s0 := with_sp s (sp s - 2) in
  let k := mk_cont (stack_to_sp s0) (sp s0) (ep s) (ip s) (bp s) in
  let cid := next_id (st s) in
  exists kp s', b_call_cc s = ROk proc s' /\
    tget (conts (st s')) cid = Some k /\
    heap_get (hp s') kp = Ok (VCont cid) /\
    (forall q, q <> kp -> tget (cells (hp s')) q = tget (cells (hp s)) q) /\
    sp s' = sp s /\ sget s' (sp s') = VArgc 1 /\ sget s' (sp s' - 1) = VPtr kp /\
    ip s' = (fst (ip s), snd (ip s) - 1) /\
    bp s' = bp s /\ ep s' = ep s /\ acc s' = acc s /\ scap s' = scap s /\
    g_bind s' = g_bind s /\ g_slots s' = g_slots s /\ out_log s' = out_log s /\
    (forall j, j < sp s - 1 -> sget s' j = sget s j).
Proof. exact capture_state. Qed.
Print Assumptions C05_capture_state.

(* Invocation.  From ANY state — any call depth, any later evaluation, any heap —
   whose CALL/TCALL finds the continuation in %acc with n >= 1 arguments, v being
   the last one pushed: the stack slots below the saved length, sp, bp, ep and ip are
   the captured ones (operands already evaluated at capture time keep their values:
   they are in the saved slots), %acc = v, and heap, Rc payloads (strings, vectors,
   environments), globals, output log are UNCHANGED (mutations made since capture
   stay visible).  The computation in progress is abandoned: its frames lie above
   the restored sp. *)
Theorem C05_k_invoke : forall ob s cid k n,
  heap_deref (hp s) (acc s) = Ok (VCont cid) ->
  tget (conts (st s)) cid = Some k ->
  sget s (sp s) = VArgc n -> n <> 0 -> 2 <= sp s -> sp s < scap s ->
  len (k_stack k) <= scap s ->
  resolve_callee ob s =
    ROk CDone (mk_vm (hp s) (st s) (g_bind s) (g_slots s)
                     (write_slots (k_stack k) 0 (stack s)) (scap s)
                     (k_sp k) (k_bp k) (k_ep k) (k_ip k) (sget s (sp s - 1)) (out_log s)).
Proof. exact k_invoke. Qed.
Print Assumptions C05_k_invoke.

(* the restored slots, read back *)
Theorem C05_restored_slot : forall s k j,
  match tget (write_slots (k_stack k) 0 (stack s)) j with Some v => v | None => VUndef end =
  if j <? len (k_stack k) then nth (N.to_nat j) (k_stack k) VUndef else sget s j.
Proof. exact restored_slot. Qed.
Print Assumptions C05_restored_slot.

(* any number of times: invoking leaves the continuation object (and the whole heap
   and store) untouched *)
Theorem C05_k_reusable : forall ob s cid k n s' c,
  heap_deref (hp s) (acc s) = Ok (VCont cid) ->
  tget (conts (st s)) cid = Some k ->
  sget s (sp s) = VArgc n -> n <> 0 -> 2 <= sp s -> sp s < scap s ->
  len (k_stack k) <= scap s ->
  resolve_callee ob s = ROk c s' -> tget (conts (st s')) cid = Some k /\ hp s' = hp s.
Proof. exact k_reusable. Qed.
Print Assumptions C05_k_reusable.

(* a continuation applied to no argument is reported as an error *)
Theorem C05_k_zero_args : forall ob s cid,
  heap_deref (hp s) (acc s) = Ok (VCont cid) ->
  sget s (sp s) = VArgc 0 -> 1 <= sp s -> sp s < scap s ->
  exists s', resolve_callee ob s = RErr E_OTHER [] s'.
Proof. exact k_zero_args. Qed.
Print Assumptions C05_k_zero_args.


(* =================================================================================
   The three clauses of the property as STATE EQUATIONS (proofs: Proofs/ContProofs.v;
   the concrete run of the examples: Proofs/ContExample.v).

   Vocabulary (definitions of ContProofs.v, spelled out by the _unfold theorems):
   [at_callcc ob m lp i bc tail fp pv]  m is AT the CALL (tail = false) or TCALL instruction
        i of the code object at heap address lp, %acc holds a builtin whose procedure is
        call/cc (builtin/procedure.rs call_cc), the stack top is [VPtr fp; Argc 1] and heap
        cell fp holds the procedure pv (the receiver);
   [s_cap m lp i fp]   the state one instruction later; [k_cap m lp i] the continuation it saved;
   [called s lp i lamp]  the state the CALL instruction (lp, i) produces from s when the callee
        is the code object lamp: ip past the call, %ep and the return address pushed;
   [in_cc_frame m lp i mr]  mr is inside the frame CALL + ENTER built for the receiver;
   [at_invoke s cid tail]  s is AT a CALL / TCALL, %acc holds the continuation cid, the stack
        top is [v; Argc n], n >= 1;
   [klive cid k s]   the continuation object cid = k is still in the machine (conts table) and
        the stack vector is at least as long as the saved stack (it never shrinks).
   ================================================================================= *)
Theorem C05_s_cap_unfold : forall m lp i fp,
  s_cap m lp i fp =
  let s := with_ip m (lp, i + 1) in
  let k := mk_cont (stack_to_sp (with_sp s (sp s - 2))) (sp s - 2) (ep s) (ip s) (bp s) in
  let s1 := with_heap (with_store (with_sp s (sp s - 2)) (snd (new_cont (st s) k)))
                      (snd (heap_put (hp s) (VCont (next_id (st s))))) in
  with_acc (with_ip (pushed (pushed s1 (fst (heap_put (hp s) (VCont (next_id (st s)))))) (VArgc 1))
                    (lp, i + 1 - 1)) (VPtr fp).
Proof. reflexivity. Qed.
Print Assumptions C05_s_cap_unfold.

Theorem C05_k_cap_unfold : forall m lp i,
  k_cap m lp i = mk_cont (stack_to_sp (with_sp m (sp m - 2))) (sp m - 2) (ep m) (lp, i + 1) (bp m).
Proof. reflexivity. Qed.
Print Assumptions C05_k_cap_unfold.

Theorem C05_called_unfold : forall s lp i lamp,
  called s lp i lamp =
  with_ip (pushed (pushed (with_ip s (lp, i + 1)) (VEp (ep s))) (VIp lp (i + 1))) (lamp, 0).
Proof. reflexivity. Qed.
Print Assumptions C05_called_unfold.

Theorem C05_inv_state_unfold : forall s k,
  inv_state s k =
  mk_vm (hp s) (st s) (g_bind s) (g_slots s) (write_slots (k_stack k) 0 (stack s)) (scap s)
        (k_sp k) (k_bp k) (k_ep k) (k_ip k) (sget s (sp s - 1)) (out_log s).
Proof. reflexivity. Qed.
Print Assumptions C05_inv_state_unfold.

(* (a) (call/cc f) IS the call (f k).  ONE instruction after the CALL / TCALL of call/cc
   the machine is at the SAME instruction again (b_call_cc steps %ip back), %acc holds the
   receiver and the stack top is [k; Argc 1]: literally the state in which the ordinary
   application (f k) executes its CALL / TCALL — whatever kind of procedure f is. *)
Theorem C05_callcc_step : forall ob m lp i bc tail fp pv,
  at_callcc ob m lp i bc tail fp pv -> run_one ob m = ROk false (s_cap m lp i fp).
Proof. exact callcc_step. Qed.
Print Assumptions C05_callcc_step.

(* that state, field by field (heap_inv: the free list / symbol table invariant of
   Proofs/SymtabProofs.v; it holds in every state the real machine reaches, Proofs/FlatAll.v):
   the continuation object is in a FRESH heap cell kp and holds slots 0..=sp-2 (the stack
   below the receiver), sp-2, %ep, %bp and the address of the instruction AFTER the call;
   the receiver is where it was; nothing else changed (cext: heap and Rc tables only grew). *)
Theorem C05_callcc_state : forall ob m lp i bc tail fp pv,
  at_callcc ob m lp i bc tail fp pv -> heap_inv (hp m) -> allocated (hp m) fp ->
  let sc := s_cap m lp i fp in
  let k := k_cap m lp i in
  let cid := next_id (st m) in
  exists kp,
    allocated (hp sc) kp /\ cell_at (hp sc) kp = VCont cid /\ ~ allocated (hp m) kp /\
    tget (conts (st sc)) cid = Some k /\ next_id (st sc) = cid + 1 /\
    (forall j, j <> cid -> tget (conts (st sc)) j = tget (conts (st m)) j) /\
    k_sp k = sp m - 2 /\ k_ep k = ep m /\ k_ip k = (lp, i + 1) /\ k_bp k = bp m /\
    len (k_stack k) = sp m - 2 + 1 /\
    (forall j, j <= sp m - 2 -> nth (N.to_nat j) (k_stack k) VUndef = sget m j) /\
    ip sc = (lp, i) /\ code_in sc lp bc /\ acc sc = VPtr fp /\ heap_get (hp sc) fp = Ok pv /\
    sp sc = sp m /\ scap sc = scap m /\
    sget sc (sp sc) = VArgc 1 /\ sget sc (sp sc - 1) = VPtr kp /\
    (forall j, j <> sp m -> j <> sp m - 1 -> sget sc j = sget m j) /\
    bp sc = bp m /\ ep sc = ep m /\ g_bind sc = g_bind m /\ g_slots sc = g_slots m /\
    out_log sc = out_log m /\
    heap_inv (hp sc) /\ cext m sc /\ envs (st sc) = envs (st m).
Proof. exact s_cap_spec. Qed.
Print Assumptions C05_callcc_state.

(* f a closure (every (lambda ...) expression evaluates to one): the second instruction is
   the ordinary CALL of f — the same function [called] of the state that describes the CALL
   of that closure from ANY state (last clause): same frame, with k as the argument. *)
Theorem C05_callcc_is_call : forall ob m lp i bc fp lamp cep,
  at_callcc ob m lp i bc false fp (VClosure lamp cep) -> heap_inv (hp m) -> allocated (hp m) fp ->
  let sc := s_cap m lp i fp in
  run_one ob m = ROk false sc /\
  ip sc = (lp, i) /\ acc sc = VPtr fp /\ heap_get (hp sc) fp = Ok (VClosure lamp cep) /\
  sget sc (sp sc) = VArgc 1 /\
  (exists kp, sget sc (sp sc - 1) = VPtr kp /\ cell_at (hp sc) kp = VCont (next_id (st m)) /\
              tget (conts (st sc)) (next_id (st m)) = Some (k_cap m lp i)) /\
  run_one ob sc = ROk false (called sc lp i lamp) /\
  (forall m' lp' i' bc' a, code_in m' lp' bc' -> ip m' = (lp', i') -> seg bc' i' [VOp OCallAcc] ->
     acc m' = VPtr a -> heap_get (hp m') a = Ok (VClosure lamp cep) ->
     run_one ob m' = ROk false (called m' lp' i' lamp)).
Proof. exact callcc_is_call. Qed.
Print Assumptions C05_callcc_is_call.

(* the frame of the called state: return address = the instruction after the call/cc site,
   saved %ep, Argc 1, the argument k, and the stack below as it was *)
Theorem C05_callcc_called_frame : forall ob m lp i bc fp pv lamp,
  at_callcc ob m lp i bc false fp pv -> heap_inv (hp m) -> allocated (hp m) fp ->
  let c := called (s_cap m lp i fp) lp i lamp in
  sp c = sp m + 2 /\ bp c = bp m /\ ep c = ep m /\ ip c = (lamp, 0) /\ acc c = VPtr fp /\
  sget c (sp m + 2) = VIp lp (i + 1) /\ sget c (sp m + 1) = VEp (ep m) /\ sget c (sp m) = VArgc 1 /\
  (exists kp, sget c (sp m - 1) = VPtr kp /\ cell_at (hp c) kp = VCont (next_id (st m))) /\
  (forall j, j <= sp m - 2 -> sget c j = sget m j) /\
  hp c = hp (s_cap m lp i fp) /\ st c = st (s_cap m lp i fp) /\ scap m <= scap c.
Proof. exact called_slots. Qed.
Print Assumptions C05_callcc_called_frame.

(* f a closure-less lambda: the same, the callee is the lambda itself *)
Theorem C05_callcc_lambda : forall ob m lp i bc fp lid,
  at_callcc ob m lp i bc false fp (VLambda lid) -> heap_inv (hp m) -> allocated (hp m) fp ->
  steps ob 2 m = Some (called (s_cap m lp i fp) lp i fp).
Proof. exact callcc_lambda. Qed.
Print Assumptions C05_callcc_lambda.

(* f another continuation k2: (call/cc k2) invokes k2 with the NEW continuation as its value:
   two instructions lead to k2's saved stack and registers with %acc = k *)
Theorem C05_callcc_cont : forall ob m lp i bc tail fp cid2 k2,
  at_callcc ob m lp i bc tail fp (VCont cid2) -> heap_inv (hp m) -> allocated (hp m) fp ->
  klive cid2 k2 m -> cid2 < next_id (st m) ->
  exists kp, sget (s_cap m lp i fp) (sp m - 1) = VPtr kp /\
    cell_at (hp (s_cap m lp i fp)) kp = VCont (next_id (st m)) /\
    steps ob 2 m = Some (inv_state (s_cap m lp i fp) k2) /\
    acc (inv_state (s_cap m lp i fp) k2) = VPtr kp.
Proof. exact callcc_cont. Qed.
Print Assumptions C05_callcc_cont.

(* f a builtin procedure b2: it runs on the captured state, i.e. with the one argument k on
   the stack, and its (boxed) result goes to %acc like for any builtin call *)
Theorem C05_callcc_builtin : forall ob m lp i bc tail fp b2 r m2 v' h',
  at_callcc ob m lp i bc tail fp (VBuiltin b2) -> heap_inv (hp m) -> allocated (hp m) fp ->
  run_builtin ob b2 (with_ip (s_cap m lp i fp) (lp, i + 1)) = ROk r m2 ->
  (match r with VPtr _ => (r, hp m2) | _ => heap_maybe_put (hp m2) r end) = (v', h') ->
  steps ob 2 m = Some (with_acc (with_heap m2 h') v').
Proof. exact callcc_builtin. Qed.
Print Assumptions C05_callcc_builtin.

(* invoking a continuation is ONE instruction (C05_k_invoke at the level of run_one) *)
Theorem C05_invoke_step : forall ob s cid k tail,
  at_invoke s cid tail -> klive cid k s -> run_one ob s = ROk false (inv_state s k).
Proof. exact step_invoke. Qed.
Print Assumptions C05_invoke_step.

(* the receiver's frame: what ENTER leaves (the conclusions of FrameSteps.step_enter_closure /
   CompileCorrect.step_enter_top have this shape) is [in_cc_frame], and code that respects its
   frame ([frame], the frame condition of C01_fragment_correct / C01_fragment2_correct) keeps it *)
Theorem C05_in_cc_frame_unfold : forall m lp i mr,
  in_cc_frame m lp i mr <->
  bp mr = sp m - 1 /\ sget mr (sp m) = VArgc 1 /\ sget mr (sp m + 1) = VEp (ep m) /\
  sget mr (sp m + 2) = VIp lp (i + 1) /\ sget mr (sp m + 3) = VBp (bp m) /\
  (forall j, j <= sp m - 2 -> sget mr j = sget m j) /\ sp m + 3 < scap mr.
Proof.
  intros. split.
  - intros [H1 H2 H3 H4 H5 H6 H7]. repeat split; assumption.
  - intros (H1 & H2 & H3 & H4 & H5 & H6 & H7). constructor; assumption.
Qed.
Print Assumptions C05_in_cc_frame_unfold.

Theorem C05_enter_in_cc_frame : forall ob m lp i bc fp pv lamp m',
  at_callcc ob m lp i bc false fp pv -> heap_inv (hp m) -> allocated (hp m) fp ->
  let c := called (s_cap m lp i fp) lp i lamp in
  bp m' = sp c - 3 -> sget m' (sp c + 1) = VBp (bp c) ->
  (forall j, j <> sp c + 1 -> sget m' j = sget c j) -> sp c + 1 < scap m' ->
  in_cc_frame m lp i m'.
Proof. exact enter_in_cc_frame. Qed.
Print Assumptions C05_enter_in_cc_frame.

Theorem C05_in_cc_frame_preserved : forall m lp i a b,
  in_cc_frame m lp i a -> sp m + 3 <= sp a -> frame a b -> sp b < scap b -> in_cc_frame m lp i b.
Proof. exact in_cc_frame_preserved. Qed.
Print Assumptions C05_in_cc_frame_preserved.

(* (b) "continues as if call/cc had returned v", as a state equation.
   m: the machine at the CALL of call/cc.  mr: the receiver about to return normally — at its
   RET, inside the frame built on the captured state, %acc = v.  s': ANY later machine — any
   call depth, a later top-level evaluation, heap / store / globals mutated at will — in which
   the continuation object is still there ([klive]) and which is about to apply it to v.
   Then the state after the invocation (s_inv) and the state after the normal return (s_ret)
   agree on sp, bp, ep, ip — the instruction after the call/cc site —, %acc = v and every
   stack slot up to sp ([same_cont_state]); heap, Rc payloads, globals, output log and stack
   capacity of s_inv are those of s' (mutations since the capture stay visible); and the
   continuation is still live in s_inv: the theorem applies again to s_inv and to every later
   state that keeps it (any number of times). *)
Theorem C05_invoke_equals_return : forall ob m lp i bc fp pv mr lq iq bq s' tail' v,
  at_callcc ob m lp i bc false fp pv ->
  in_cc_frame m lp i mr -> code_in mr lq bq -> ip mr = (lq, iq) -> seg bq iq [VOp ORet] -> acc mr = v ->
  klive (next_id (st m)) (k_cap m lp i) s' -> at_invoke s' (next_id (st m)) tail' ->
  sget s' (sp s' - 1) = v ->
  exists s_ret s_inv,
    run_one ob mr = ROk false s_ret /\ run_one ob s' = ROk false s_inv /\
    (sp s_inv = sp s_ret /\ bp s_inv = bp s_ret /\ ep s_inv = ep s_ret /\ ip s_inv = ip s_ret /\
     acc s_inv = acc s_ret /\ forall j, j <= sp s_ret -> sget s_inv j = sget s_ret j) /\
    sp s_ret = sp m - 2 /\ bp s_ret = bp m /\ ep s_ret = ep m /\ ip s_ret = (lp, i + 1) /\ acc s_ret = v /\
    (forall j, j <= sp m - 2 -> sget s_ret j = sget m j) /\
    hp s_inv = hp s' /\ st s_inv = st s' /\ g_bind s_inv = g_bind s' /\ g_slots s_inv = g_slots s' /\
    out_log s_inv = out_log s' /\ scap s_inv = scap s' /\
    klive (next_id (st m)) (k_cap m lp i) s_inv.
Proof. exact invoke_equals_return. Qed.
Print Assumptions C05_invoke_equals_return.

(* [klive] holds in the captured state, is kept by invoking (any continuation), and by every
   cext-style extension that also keeps the continuation table and the stack vector ([kext]);
   a machine whose heap was MUTATED (set-car!, vector-set!) is not a cext-extension, which is
   why the theorem above asks for [klive] only *)
Theorem C05_klive_captured : forall ob m lp i bc tail fp pv,
  at_callcc ob m lp i bc tail fp pv -> heap_inv (hp m) -> allocated (hp m) fp ->
  klive (next_id (st m)) (k_cap m lp i) (s_cap m lp i fp) /\
  next_id (st m) < next_id (st (s_cap m lp i fp)).
Proof. exact klive_s_cap. Qed.
Print Assumptions C05_klive_captured.

Theorem C05_klive_after_invoke : forall cid k s k', klive cid k s -> klive cid k (inv_state s k').
Proof. exact klive_inv_state. Qed.
Print Assumptions C05_klive_after_invoke.

Theorem C05_kext_klive : forall cid k s s',
  klive cid k s -> cid < next_id (st s) ->
  cext s s' -> (forall j, j < next_id (st s) -> tget (conts (st s')) j = tget (conts (st s)) j) ->
  scap s <= scap s' -> klive cid k s'.
Proof. intros cid k s s' K C X Kc Cap. apply (kext_klive cid k s s' K C). constructor; assumption. Qed.
Print Assumptions C05_kext_klive.

(* (c) an escape discards the frames pushed since the capture: whatever the depth of the
   invoking state, sp / bp / ep / ip and the stack up to sp are those of the capture (= those
   after the normal return, C05_invoke_equals_return); the slots above are dead *)
Theorem C05_escape_discards : forall ob m lp i bc tail fp pv s' tail',
  at_callcc ob m lp i bc tail fp pv ->
  klive (next_id (st m)) (k_cap m lp i) s' -> at_invoke s' (next_id (st m)) tail' ->
  exists s_inv, run_one ob s' = ROk false s_inv /\
    sp s_inv = sp m - 2 /\ bp s_inv = bp m /\ ep s_inv = ep m /\ ip s_inv = (lp, i + 1) /\
    (forall j, j <= sp m - 2 -> sget s_inv j = sget m j) /\
    (forall j, sp m - 2 < j -> sget s_inv j = sget s' j).
Proof. exact escape_discards. Qed.
Print Assumptions C05_escape_discards.

Theorem C05_escape_depth_independent : forall ob m lp i bc tail fp pv s1 s2 t1 t2,
  at_callcc ob m lp i bc tail fp pv ->
  klive (next_id (st m)) (k_cap m lp i) s1 -> at_invoke s1 (next_id (st m)) t1 ->
  klive (next_id (st m)) (k_cap m lp i) s2 -> at_invoke s2 (next_id (st m)) t2 ->
  exists r1 r2, run_one ob s1 = ROk false r1 /\ run_one ob s2 = ROk false r2 /\
    sp r1 = sp r2 /\ bp r1 = bp r2 /\ ep r1 = ep r2 /\ ip r1 = ip r2 /\
    forall j, j <= sp r2 -> sget r1 j = sget r2 j.
Proof. exact escape_depth_independent. Qed.
Print Assumptions C05_escape_depth_independent.

(* ---------------------------------------------------------------------------------
   Non-vacuity: a real run on the machine of Vm::new without the prelude (boot_with []:
   load_builtins on vm_empty 8192), real builtin table.
     form 0  (define kk #f)
     form 1  (if (call/cc (lambda (k) (set! kk k) 'a)) 1 2)
     form 2  (kk 'a)
   cx_m = form 1 after 9 instructions: at the CALL of call/cc (code object 290, instruction
   11), receiver = the closure in heap cell 293; cx_mr = after 16 instructions: the receiver at
   its RET with %acc = the symbol a (cell 288); cx_s' = form 2 — a LATER top-level evaluation
   on the machine form 1 left — after 8 instructions: at the TCALL of kk with the argument a.
   All hypotheses of C05_callcc_is_call and C05_invoke_equals_return hold of them. *)
Example C05_example_callcc :
  at_callcc other_builtin cx_m 290 11 (cx_bc cx_m 290) false 293 (VClosure 289 292) /\
  heap_inv (hp cx_m) /\ allocated (hp cx_m) 293.
Proof. exact (conj cx_at_callcc (conj cx_m_heap_inv cx_fp_allocated)). Qed.

Example C05_example_invoke :
  at_callcc other_builtin cx_m 290 11 (cx_bc cx_m 290) false 293 (VClosure 289 292) /\
  in_cc_frame cx_m 290 11 cx_mr /\
  (code_in cx_mr 289 (cx_bc cx_mr 289) /\ ip cx_mr = (289, 13) /\
   seg (cx_bc cx_mr 289) 13 [VOp ORet] /\ acc cx_mr = VPtr 288 /\
   heap_get (hp cx_mr) 288 = Ok (VSym [97])) /\
  klive (next_id (st cx_m)) (k_cap cx_m 290 11) cx_s' /\
  at_invoke cx_s' (next_id (st cx_m)) true /\
  sget cx_s' (sp cx_s' - 1) = VPtr 288 /\
  (* the invoking state is another evaluation on a grown heap with a re-bound global *)
  (hlen (hp cx_m) <= hlen (hp cx_s') /\ next_id (st cx_m) + 2 < next_id (st cx_s') /\
   g_slots cx_s' <> g_slots cx_m /\ fst (ip cx_s') <> fst (ip cx_m)).
Proof.
  exact (conj cx_at_callcc (conj cx_in_cc_frame (conj cx_mr_at_ret (conj cx_klive
          (conj cx_at_invoke (conj cx_arg cx_later)))))).
Qed.

(* and the model indeed computes what the theorems say: the instruction after the normal
   return and the instruction after the later invocation both sit at (290, 12) with sp = 4,
   bp = 0, %acc = a; both evaluations then complete with the value 1 *)
Example C05_example_run :
  (match steps other_builtin 1 cx_mr, steps other_builtin 1 cx_s' with
   | Some a, Some b => ip a = (290, 12) /\ ip b = (290, 12) /\ sp a = 4 /\ sp b = 4 /\ bp a = 0 /\ bp b = 0 /\
                       acc a = VPtr 288 /\ acc b = VPtr 288
   | _, _ => False end) /\
  (match eval other_builtin 1000 (cx_dat cx_F1) cx_s0, eval other_builtin 1000 (cx_dat cx_F2) cx_s1 with
   | ROk (Done a) _, ROk (Done b) _ => a = b /\ write a = [49]
   | _, _ => False end).
Proof. vm_compute. repeat split. Qed.


(* =================================================================================
   [klive] is PRESERVED by everything the machine does (proofs: Proofs/MonoBase.v,
   MonoCompile.v, MonoStep.v, MonoBuiltins.v, MonoCont.v), for the real builtin table
   [other_builtin]: continuation objects are only ever ADDED to the Rc table (to_continuation,
   at the fresh id next_id; no instruction, builtin or compilation removes or overwrites one)
   and the stack vector never shrinks (C07_cap_monotone).  Hence a continuation captured in one
   top-level evaluation is live in every later state: later in the same evaluation, after it
   ended (with a value, a run-time failure or a compile-time failure), and at any point of any
   later evaluation — which makes C05_invoke_equals_return / C05_escape_discards applicable
   "from a later top-level evaluation, any number of times" with no side condition.
   ================================================================================= *)
(* the relation every instruction / builtin / compilation / evaluation satisfies *)
Theorem C05_kmono_unfold : forall s s',
  kmono s s' <->
  (scap s <= scap s' /\ next_id (st s) <= next_id (st s') /\
   forall j, j < next_id (st s) -> tget (conts (st s')) j = tget (conts (st s)) j).
Proof.
  intros s s'. split.
  - intros [H1 [H2 H3]]. auto.
  - intros (H1 & H2 & H3). split; [exact H1|split; [exact H2|exact H3]].
Qed.
Print Assumptions C05_kmono_unfold.

Theorem C05_step_kmono : forall s,
  match run_one other_builtin s with
  | ROk _ s' => kmono s s' | RErr _ _ s' => kmono s s' | _ => True end.
Proof. intros s. pose proof (km_run_one other_builtin km_other_builtin s) as H. destruct (run_one other_builtin s); exact H. Qed.
Print Assumptions C05_step_kmono.

Theorem C05_builtin_kmono : forall b s,
  match run_builtin other_builtin b s with
  | ROk _ s' => kmono s s' | RErr _ _ s' => kmono s s' | _ => True end.
Proof. intros b s. pose proof (km_run_builtin other_builtin km_other_builtin b s) as H. destruct (run_builtin other_builtin b s); exact H. Qed.
Print Assumptions C05_builtin_kmono.

Theorem C05_prepare_eval_kmono : forall e s,
  match prepare_eval e s with
  | ROk _ s' => kmono s s' | RErr _ _ s' => kmono s s' | _ => True end.
Proof. intros e s. pose proof (prepare_eval_kmono e s) as H. destruct (prepare_eval e s); exact H. Qed.
Print Assumptions C05_prepare_eval_kmono.

Theorem C05_eval_kmono : forall fuel e s,
  match eval other_builtin fuel e s with
  | ROk _ s' => kmono s s' | RErr _ _ s' => kmono s s' | _ => True end.
Proof. intros fuel e s. pose proof (eval_kmono other_builtin km_other_builtin fuel e s) as H. destruct (eval other_builtin fuel e s); exact H. Qed.
Print Assumptions C05_eval_kmono.

(* klive through one instruction, one compilation, one whole evaluation (any outcome) *)
Theorem C05_klive_kmono : forall cid k s s',
  klive cid k s -> cid < next_id (st s) -> kmono s s' -> klive cid k s' /\ cid < next_id (st s').
Proof. exact klive_kmono. Qed.
Print Assumptions C05_klive_kmono.

Theorem C05_klive_step : forall cid k s r s',
  klive cid k s -> cid < next_id (st s) -> run_one other_builtin s = ROk r s' ->
  klive cid k s' /\ cid < next_id (st s').
Proof. exact (klive_step other_builtin km_other_builtin). Qed.
Print Assumptions C05_klive_step.

Theorem C05_klive_prepare_eval : forall cid k s c u s',
  klive cid k s -> cid < next_id (st s) -> prepare_eval c s = ROk u s' ->
  klive cid k s' /\ cid < next_id (st s').
Proof. exact klive_prepare. Qed.
Print Assumptions C05_klive_prepare_eval.

Theorem C05_klive_eval : forall cid k s fuel c res s',
  klive cid k s -> cid < next_id (st s) -> eval other_builtin fuel c s = ROk res s' ->
  klive cid k s' /\ cid < next_id (st s').
Proof. exact (klive_eval other_builtin km_other_builtin). Qed.
Print Assumptions C05_klive_eval.

(* [later ob s s']: s' is reached from s by any sequence of single instructions, run-loop
   slices (to HALT, to a failure, or to the end of a budget), compilations and whole
   evaluations *)
Theorem C05_later_unfold : forall ob s s',
  later ob s s' <->
  (s' = s \/
   (exists r s1, run_one ob s = ROk r s1 /\ later ob s1 s') \/
   (exists fuel cyc count res s1, run_loop ob fuel cyc count s = ROk res s1 /\ later ob s1 s') \/
   (exists c u s1, prepare_eval c s = ROk u s1 /\ later ob s1 s') \/
   (exists fuel c res s1, eval ob fuel c s = ROk res s1 /\ later ob s1 s')).
Proof.
  intros ob s s'. split.
  - intros H. destruct H as [s|s r s1 s' H L|s fuel cyc count res s1 s' H L|s c u s1 s' H L|s fuel c res s1 s' H L].
    + left. reflexivity.
    + right. left. eauto.
    + right. right. left. eauto 8.
    + right. right. right. left. eauto.
    + right. right. right. right. eauto 8.
  - intros [->|[(r & s1 & H & L)|[(fuel & cyc & count & res & s1 & H & L)|[(c & u & s1 & H & L)|(fuel & c & res & s1 & H & L)]]]].
    + apply lt_refl.
    + eapply lt_step; eassumption.
    + eapply lt_run; eassumption.
    + eapply lt_prepare; eassumption.
    + eapply lt_eval; eassumption.
Qed.
Print Assumptions C05_later_unfold.

Theorem C05_later_kmono : forall s s', later other_builtin s s' -> kmono s s'.
Proof. exact (later_kmono other_builtin km_other_builtin). Qed.
Print Assumptions C05_later_kmono.

Theorem C05_klive_later : forall cid k s s',
  klive cid k s -> cid < next_id (st s) -> later other_builtin s s' ->
  klive cid k s' /\ cid < next_id (st s').
Proof. exact (klive_later other_builtin km_other_builtin). Qed.
Print Assumptions C05_klive_later.

(* the capture makes the continuation live — no heap hypothesis (cf. C05_klive_captured) *)
Theorem C05_klive_captured_any : forall ob m lp i bc tail fp pv,
  at_callcc ob m lp i bc tail fp pv ->
  klive (next_id (st m)) (k_cap m lp i) (s_cap m lp i fp) /\
  next_id (st m) < next_id (st (s_cap m lp i fp)).
Proof. exact klive_s_cap_any. Qed.
Print Assumptions C05_klive_captured_any.

(* a continuation captured at m (s_cap = the state one instruction later, C05_callcc_step) is
   live in EVERY later state *)
Theorem C05_captured_live_later : forall m lp i bc tail fp pv s',
  at_callcc other_builtin m lp i bc tail fp pv ->
  later other_builtin (s_cap m lp i fp) s' -> klive (next_id (st m)) (k_cap m lp i) s'.
Proof. exact (captured_live_later other_builtin km_other_builtin). Qed.
Print Assumptions C05_captured_live_later.

(* C05_invoke_equals_return with the liveness hypothesis REPLACED by "s' comes later": any
   state of any later evaluation that applies k to v.  The invoked state s_inv is again
   "later", so the theorem applies to every state after it: any number of times. *)
Theorem C05_invoke_equals_return_later : forall m lp i bc fp pv mr lq iq bq s' tail' v,
  at_callcc other_builtin m lp i bc false fp pv ->
  in_cc_frame m lp i mr -> code_in mr lq bq -> ip mr = (lq, iq) -> seg bq iq [VOp ORet] -> acc mr = v ->
  later other_builtin (s_cap m lp i fp) s' -> at_invoke s' (next_id (st m)) tail' ->
  sget s' (sp s' - 1) = v ->
  exists s_ret s_inv,
    run_one other_builtin mr = ROk false s_ret /\ run_one other_builtin s' = ROk false s_inv /\
    (sp s_inv = sp s_ret /\ bp s_inv = bp s_ret /\ ep s_inv = ep s_ret /\ ip s_inv = ip s_ret /\
     acc s_inv = acc s_ret /\ forall j, j <= sp s_ret -> sget s_inv j = sget s_ret j) /\
    sp s_ret = sp m - 2 /\ bp s_ret = bp m /\ ep s_ret = ep m /\ ip s_ret = (lp, i + 1) /\ acc s_ret = v /\
    (forall j, j <= sp m - 2 -> sget s_ret j = sget m j) /\
    hp s_inv = hp s' /\ st s_inv = st s' /\ g_bind s_inv = g_bind s' /\ g_slots s_inv = g_slots s' /\
    out_log s_inv = out_log s' /\ scap s_inv = scap s' /\
    later other_builtin (s_cap m lp i fp) s_inv.
Proof. exact (invoke_equals_return_later other_builtin km_other_builtin). Qed.
Print Assumptions C05_invoke_equals_return_later.

Theorem C05_escape_discards_later : forall m lp i bc tail fp pv s' tail',
  at_callcc other_builtin m lp i bc tail fp pv ->
  later other_builtin (s_cap m lp i fp) s' -> at_invoke s' (next_id (st m)) tail' ->
  exists s_inv, run_one other_builtin s' = ROk false s_inv /\
    sp s_inv = sp m - 2 /\ bp s_inv = bp m /\ ep s_inv = ep m /\ ip s_inv = (lp, i + 1) /\
    (forall j, j <= sp m - 2 -> sget s_inv j = sget m j) /\
    (forall j, sp m - 2 < j -> sget s_inv j = sget s' j).
Proof. exact (escape_discards_later other_builtin km_other_builtin). Qed.
Print Assumptions C05_escape_discards_later.

(* non-vacuity: in the session of ContExample.v the invoking state cx_s' (form 2 at its TCALL
   of kk) IS later than the capture in form 1 — the rest of evaluation 1 as one run-loop slice,
   the compilation of form 2, eight instructions of evaluation 2 — so every hypothesis of
   C05_invoke_equals_return_later holds, and liveness of the continuation in cx_s' FOLLOWS *)
Example C05_example_later :
  at_callcc other_builtin cx_m 290 11 (cx_bc cx_m 290) false 293 (VClosure 289 292) /\
  in_cc_frame cx_m 290 11 cx_mr /\
  later other_builtin (s_cap cx_m 290 11 293) cx_s' /\
  at_invoke cx_s' (next_id (st cx_m)) true /\
  sget cx_s' (sp cx_s' - 1) = VPtr 288 /\
  klive (next_id (st cx_m)) (k_cap cx_m 290 11) cx_s'.
Proof.
  split; [exact cx_at_callcc|]. split; [exact cx_in_cc_frame|]. split; [exact cx_later_chain|].
  split; [exact cx_at_invoke|]. split; [exact cx_arg|].
  exact (C05_captured_live_later _ _ _ _ _ _ _ _ cx_at_callcc cx_later_chain).
Qed.


(* =================================================================================
   call/cc in TAIL position (a TCALL site; proofs: Proofs/MonoTcall.v).  The saved instruction
   pointer (lp, i+1) is the RET that follows the TCALL in the body of the procedure containing
   the site.  A tail-called receiver REPLACES that procedure's frame (TCALL reuses it in place
   when the argument counts agree and rebuilds it otherwise) and its own RET returns to the
   caller's caller.  Invoking k restores the containing procedure's frame; ONE more instruction,
   that RET, pops it.  So the equality with the receiver's normal return holds one RET later.
   [site_frame m n e0 l0 i0 b0]: the frame of the containing procedure at m;
   [in_tcc_frame m n e0 l0 i0 b0 mr n']: mr sits in a frame (of n' arguments) that returns to
   the same place.  That TCALL + ENTER of a closure produce such a frame is NOT derived here
   (TailProofs.tcall_frame_effect is the lemma to instantiate): it is a hypothesis, checked on
   the example below by computation.
   ================================================================================= *)
Theorem C05_site_frame_unfold : forall m n e0 l0 i0 b0,
  site_frame m n e0 l0 i0 b0 <->
  (sget m (bp m + 1) = VArgc n /\ sget m (bp m + 2) = VEp e0 /\ sget m (bp m + 3) = VIp l0 i0 /\
   sget m (bp m + 4) = VBp b0 /\ n <= bp m /\ bp m + 4 <= sp m - 2).
Proof.
  intros. split.
  - intros [H1 H2 H3 H4 H5 H6]. auto 8.
  - intros (H1 & H2 & H3 & H4 & H5 & H6). constructor; assumption.
Qed.
Print Assumptions C05_site_frame_unfold.

Theorem C05_in_tcc_frame_unfold : forall m n e0 l0 i0 b0 mr n',
  in_tcc_frame m n e0 l0 i0 b0 mr n' <->
  (sget mr (bp mr + 1) = VArgc n' /\ n' <= bp mr /\ bp mr - n' = bp m - n /\
   sget mr (bp mr + 2) = VEp e0 /\ sget mr (bp mr + 3) = VIp l0 i0 /\ sget mr (bp mr + 4) = VBp b0 /\
   (forall j, j <= bp m - n -> sget mr j = sget m j) /\ bp mr + 4 < scap mr).
Proof.
  intros. split.
  - intros [H1 H2 H3 H4 H5 H6 H7 H8]. auto 10.
  - intros (H1 & H2 & H3 & H4 & H5 & H6 & H7 & H8). constructor; assumption.
Qed.
Print Assumptions C05_in_tcc_frame_unfold.

(* m: AT the TCALL of call/cc, followed by RET; mr: the tail-called receiver at its RET with
   %acc = v; s': any state (klive) applying k to v in which the code object of the site is still
   there.  Then  mr --RET--> s_ret,  s' --invoke--> s_inv (at that RET) --RET--> s_inv2,  and
   s_inv2, s_ret agree on sp, bp, ep, ip, acc and every slot <= sp; they are the registers of
   the containing procedure's CALLER: sp = bp m - n, bp = b0, ep = e0, ip = (l0, i0), acc = v. *)
Theorem C05_invoke_equals_return_tcall : forall ob m lp i bc fp pv n e0 l0 i0 b0 mr n' lq iq bq s' tail' v,
  at_callcc ob m lp i bc true fp pv -> seg bc (i + 1) [VOp ORet] ->
  site_frame m n e0 l0 i0 b0 ->
  in_tcc_frame m n e0 l0 i0 b0 mr n' -> code_in mr lq bq -> ip mr = (lq, iq) -> seg bq iq [VOp ORet] -> acc mr = v ->
  klive (next_id (st m)) (k_cap m lp i) s' -> at_invoke s' (next_id (st m)) tail' ->
  sget s' (sp s' - 1) = v -> code_in s' lp bc ->
  exists s_ret s_inv s_inv2,
    run_one ob mr = ROk false s_ret /\ run_one ob s' = ROk false s_inv /\ run_one ob s_inv = ROk false s_inv2 /\
    (sp s_inv2 = sp s_ret /\ bp s_inv2 = bp s_ret /\ ep s_inv2 = ep s_ret /\ ip s_inv2 = ip s_ret /\
     acc s_inv2 = acc s_ret /\ forall j, j <= sp s_ret -> sget s_inv2 j = sget s_ret j) /\
    ip s_inv = (lp, i + 1) /\
    sp s_ret = bp m - n /\ bp s_ret = b0 /\ ep s_ret = e0 /\ ip s_ret = (l0, i0) /\ acc s_ret = v /\
    (forall j, j <= bp m - n -> sget s_ret j = sget m j) /\
    hp s_inv2 = hp s' /\ st s_inv2 = st s' /\ g_bind s_inv2 = g_bind s' /\ g_slots s_inv2 = g_slots s' /\
    out_log s_inv2 = out_log s' /\ scap s_inv2 = scap s' /\
    klive (next_id (st m)) (k_cap m lp i) s_inv2.
Proof. exact invoke_equals_return_tcall. Qed.
Print Assumptions C05_invoke_equals_return_tcall.

(* non-vacuity: ((lambda (f) (call/cc f)) (lambda (k) (set! kk k) 'a)) after (define kk #f),
   then (kk 'a) in a later evaluation.  tx_m: at the TCALL of call/cc (code object 291,
   instruction 10, RET at 11) inside the frame of (lambda (f) ...) (1 argument, returns to
   (293, 6)); tx_mr: the tail-called receiver at its RET (code object 289, instruction 13);
   tx_s': form 2 at its TCALL of kk.  All hypotheses hold; one RET after tx_mr and two
   instructions after tx_s' the machines agree: ip (293, 6), sp 0, bp 0, %acc = a. *)
Example C05_example_tcall :
  at_callcc other_builtin tx_m 291 10 (cx_bc tx_m 291) true 295 (VClosure 289 294) /\
  seg (cx_bc tx_m 291) (10 + 1) [VOp ORet] /\
  site_frame tx_m 1 USIZE_MAX 293 6 0 /\ in_tcc_frame tx_m 1 USIZE_MAX 293 6 0 tx_mr 1 /\
  (code_in tx_mr 289 (cx_bc tx_mr 289) /\ ip tx_mr = (289, 13) /\
   seg (cx_bc tx_mr 289) 13 [VOp ORet] /\ acc tx_mr = VPtr 288) /\
  klive (next_id (st tx_m)) (k_cap tx_m 291 10) tx_s' /\ at_invoke tx_s' (next_id (st tx_m)) true /\
  sget tx_s' (sp tx_s' - 1) = VPtr 288 /\ code_in tx_s' 291 (cx_bc tx_m 291) /\
  (match steps other_builtin 1 tx_mr, steps other_builtin 2 tx_s' with
   | Some a, Some b => ip a = (293, 6) /\ ip b = (293, 6) /\ sp a = 0 /\ sp b = 0 /\ bp a = 0 /\ bp b = 0 /\
                       acc a = VPtr 288 /\ acc b = VPtr 288
   | _, _ => False end).
Proof.
  split; [exact tx_at_callcc|]. split; [exact tx_ret_after|]. split; [exact tx_site_frame|].
  split; [exact tx_in_tcc_frame|]. split; [exact tx_mr_at_ret|]. split; [exact tx_klive|].
  split; [exact tx_at_invoke|]. split; [exact tx_arg|]. split; [exact tx_code_later|].
  vm_compute. repeat split.
Qed.
