(* C05 — first-class continuations — PLACEHOLDER written by work package "ref" (Python side: generators, reference
   interpreter, property module).  The theorems of this property are written by the
   integrator and REPLACE this file; the single statement below only shows that the
   executable model evaluates one tiny session of wire interface 70 to the expected
   canonical line, so that `./check C05` can run its correspondence part.
   DESIGN.md section 5 C05 lists the intended theorems (capture_state, callcc_is_call, k_invoke, k_reusable, ...). *)
From Coq Require Import NArith List.
From MW Require Import Model.Base Model.Wire.
Import ListNotations.
Open Scope N_scope.

(* session (+ 1 (call/cc (lambda (k) (k 41))))  ==>  "SESSION | OK 42 LOG" *)
Theorem C05_placeholder_escape_once :
  run_case [70;1;35;40;43;32;49;32;40;99;97;108;108;47;99;99;32;40;108;97;109;98;100;97;32;40;107;41;32;40;107;32;52;49;41;41;41;41]
  = [83;69;83;83;73;79;78;32;124;32;79;75;32;52;50;32;76;79;71].
Proof. vm_compute. reflexivity. Qed.
Print Assumptions C05_placeholder_escape_once.
