(* C13 — sliced execution is equivalent to uninterrupted execution.
   Statements only (proofs: Proofs/RunProofs.v).  Model: Model/Vm.v [run_count]
   (marwood/src/vm/run.rs run_count after the fix d7fdcd1: the budget is tested
   after the instruction executed), for ANY table of builtin procedures [ob].
   The model's run loop contains no collector: a collection is unobservable (C03),
   so equality of the final MODEL states means equality of values, failures, output
   and global effects of the implementation.                                      *)
From MW Require Import Model.Base Model.Datum Model.VmTypes Model.VmBase Model.Vm Model.Builtins
  Proofs.RunProofs Proofs.RunProofs2.
Open Scope N_scope.

(* progress: a slice with a positive budget b hands control back (Yield) exactly
   when b instructions executed without halting or failing, and then in the state
   reached by those b instructions — in particular at least one instruction ran *)
Theorem C13_slice_progress : forall ob b s s',
  0 < b ->
  (run_count ob (N.to_nat b) (Some b) s = ROk Yield s' <-> steps ob (N.to_nat b) s = Some s').
Proof. exact slice_yields_after_budget. Qed.
Print Assumptions C13_slice_progress.

(* composition: budget a then budget b is budget a+b *)
Theorem C13_slices_compose : forall ob a b s s1,
  0 < a -> 0 < b ->
  run_count ob (N.to_nat a) (Some a) s = ROk Yield s1 ->
  run_count ob (N.to_nat (a + b)) (Some (a + b)) s = run_count ob (N.to_nat b) (Some b) s1.
Proof. exact slices_compose. Qed.
Print Assumptions C13_slices_compose.

(* equivalence and eventual completion: whenever the uninterrupted run completes
   (with a value or a failure) within [fuel] instructions, resuming with ANY list of
   positive budgets whose sum is at least [fuel] completes with the very same result
   and the very same final machine state (heap, globals, output log, registers) *)
Theorem C13_slices_equal_run : forall ob bs fuel s r,
  run_count ob fuel None s = r -> r <> RNoFuel ->
  Forall (fun b => 0 < b) bs -> N.of_nat fuel <= total bs ->
  run_slices ob bs s = r.
Proof. exact slices_equal_run. Qed.
Print Assumptions C13_slices_equal_run.

(* an uninterrupted run never reports "budget exhausted" *)
Theorem C13_run_never_yields : forall ob fuel cyc s s', run_loop ob fuel cyc None s <> ROk Yield s'.
Proof. exact run_none_not_yield. Qed.
Print Assumptions C13_run_never_yields.


(* =================================================================================
   End to end, at the level of Vm::eval / Vm::prepare_eval (proofs: Proofs/RunProofs2.v).
   [eval_sliced ob bs c s]: prepare_eval c once (a compile error ends the evaluation at
   once, exactly as in [eval]), then run_count b1, run_count b2, ... — each slice resumes the
   machine the previous one handed back — until a slice returns a value or a failure.

   The collector.  The Rust run_count calls run_gc when its PER-SLICE cycle counter reaches
   a multiple of 8192, when a slice yields, fails or completes, and prepare_eval calls it
   after a compile error (vm/run.rs:25-64, vm/mod.rs:107-122): a sliced run collects at
   different moments than an uninterrupted one, so the RAW heaps of the implementation
   (free list, addresses handed out later) may differ between the two.  The model's
   [run_loop] contains no collector at all (Model/Vm.v; the collector is Model/Gc.v); that is
   sound because a collection is unobservable (C03: it preserves every reachable cell and
   only returns unreachable ones to the free list).  Equality of the final MODEL machines
   below therefore means: same value / same failure (class, message, stack trace), same
   globals, same output log, same registers, and the same reachable heap.
   ================================================================================= *)
Theorem C13_eval_sliced_unfold : forall ob bs c s,
  eval_sliced ob bs c s =
  match prepare_eval c s with
  | ROk _ s' => run_slices ob bs s'
  | RErr e m s' => ROk (Failed e m None) s'
  | RPanic k => RPanic k
  | RNoFuel => RNoFuel
  end.
Proof. reflexivity. Qed.
Print Assumptions C13_eval_sliced_unfold.

(* for every budget sequence bs, all positive, with enough total: the sliced evaluation
   returns what Vm::eval returns — Done c / Failed e msg trace AND the final machine *)
Theorem C13_eval_sliced_equals_eval : forall ob bs fuel c s r,
  eval ob fuel c s = r -> r <> RNoFuel ->
  Forall (fun b => 0 < b) bs -> N.of_nat fuel <= total bs ->
  eval_sliced ob bs c s = r.
Proof. exact eval_sliced_equals_eval. Qed.
Print Assumptions C13_eval_sliced_equals_eval.

(* the same with the twelve fields of the machine spelled out *)
Theorem C13_eval_sliced_same_state : forall ob bs fuel c s out s1,
  eval ob fuel c s = ROk out s1 ->
  Forall (fun b => 0 < b) bs -> N.of_nat fuel <= total bs ->
  exists s2, eval_sliced ob bs c s = ROk out s2 /\
    hp s2 = hp s1 /\ st s2 = st s1 /\ g_bind s2 = g_bind s1 /\ g_slots s2 = g_slots s1 /\
    stack s2 = stack s1 /\ scap s2 = scap s1 /\ sp s2 = sp s1 /\ bp s2 = bp s1 /\ ep s2 = ep s1 /\
    ip s2 = ip s1 /\ acc s2 = acc s1 /\ out_log s2 = out_log s1.
Proof. exact eval_sliced_same_state. Qed.
Print Assumptions C13_eval_sliced_same_state.

(* it always completes: the outcome is never "budget exhausted" *)
Theorem C13_eval_sliced_completes : forall ob bs fuel c s out s1,
  eval ob fuel c s = ROk out s1 ->
  Forall (fun b => 0 < b) bs -> N.of_nat fuel <= total bs ->
  out <> Yield /\ eval_sliced ob bs c s = ROk out s1.
Proof. exact eval_sliced_completes. Qed.
Print Assumptions C13_eval_sliced_completes.

(* non-vacuity on vm_empty 8192, real builtin table, budgets 3 1 2 5 100:
   ((lambda (a b) (if a b 'no)) #t '(1 2)) completes with (1 2), and
   (if (define x '(#t)) (nosuch 1) 2) fails after one completed effect; in both cases the
   hypotheses hold and the sliced evaluation computes the very result and machine of eval *)
Example C13_example_sliced :
  Forall (fun b => 0 < b) [3; 1; 2; 5; 100] /\ N.of_nat 100 <= total [3; 1; 2; 5; 100] /\
  (exists c s1, eval other_builtin 100 rx_ok (vm_empty 8192) = ROk (Done c) s1 /\ write c = [40; 49; 32; 50; 41] /\
     eval_sliced other_builtin [3; 1; 2; 5; 100] rx_ok (vm_empty 8192) = ROk (Done c) s1 /\
     (* the first three slices really are interruptions *)
     (exists y, run_count other_builtin 3 (Some 3) (rx_state (prepare_eval rx_ok (vm_empty 8192)) (vm_empty 8192)) = ROk Yield y)) /\
  (exists e msg t s1, eval other_builtin 100 rx_fail (vm_empty 8192) = ROk (Failed e msg (Some t)) s1 /\
     eval_sliced other_builtin [3; 1; 2; 5; 100] rx_fail (vm_empty 8192) = ROk (Failed e msg (Some t)) s1).
Proof.
  split; [repeat constructor|]. split; [vm_compute; discriminate|]. split.
  - eexists. eexists. split; [vm_compute; reflexivity|]. split; [vm_compute; reflexivity|].
    split; [vm_compute; reflexivity|]. eexists. vm_compute. reflexivity.
  - eexists. eexists. eexists. eexists. split; vm_compute; reflexivity.
Qed.
