(* C13 — sliced execution is equivalent to uninterrupted execution.
   Statements only (proofs: Proofs/RunProofs.v).  Model: Model/Vm.v [run_count]
   (marwood/src/vm/run.rs run_count after the fix d7fdcd1: the budget is tested
   after the instruction executed), for ANY table of builtin procedures [ob].
   The model's run loop contains no collector: a collection is unobservable (C03),
   so equality of the final MODEL states means equality of values, failures, output
   and global effects of the implementation.                                      *)
From MW Require Import Model.Base Model.Datum Model.VmTypes Model.VmBase Model.Vm Proofs.RunProofs.
Open Scope N_scope.

(* progress: a slice with a positive budget b hands control back (Yield) exactly
   when b instructions executed without halting or failing, and then in the state
   reached by those b instructions — in particular at least one instruction ran *)
Theorem C13_slice_progress : forall ob b s s',
  0 < b ->
  (run_count ob (N.to_nat b) (Some b) s = ROk Yield s' <-> steps ob (N.to_nat b) s = Some s').
Proof. exact slice_yields_after_budget. Qed.
Print Assumptions C13_slice_progress.

(* composition: budget a then budget b is budget a+b *)
Theorem C13_slices_compose : forall ob a b s s1,
  0 < a -> 0 < b ->
  run_count ob (N.to_nat a) (Some a) s = ROk Yield s1 ->
  run_count ob (N.to_nat (a + b)) (Some (a + b)) s = run_count ob (N.to_nat b) (Some b) s1.
Proof. exact slices_compose. Qed.
Print Assumptions C13_slices_compose.

(* equivalence and eventual completion: whenever the uninterrupted run completes
   (with a value or a failure) within [fuel] instructions, resuming with ANY list of
   positive budgets whose sum is at least [fuel] completes with the very same result
   and the very same final machine state (heap, globals, output log, registers) *)
Theorem C13_slices_equal_run : forall ob bs fuel s r,
  run_count ob fuel None s = r -> r <> RNoFuel ->
  Forall (fun b => 0 < b) bs -> N.of_nat fuel <= total bs ->
  run_slices ob bs s = r.
Proof. exact slices_equal_run. Qed.
Print Assumptions C13_slices_equal_run.

(* an uninterrupted run never reports "budget exhausted" *)
Theorem C13_run_never_yields : forall ob fuel cyc s s', run_loop ob fuel cyc None s <> ROk Yield s'.
Proof. exact run_none_not_yield. Qed.
Print Assumptions C13_run_never_yields.
