(* C16 — number->string and string->number are mutually inverse.
   Only statements, each closed by [exact] of a lemma proved in Proofs/, with its
   assumptions printed.  The model is Model/NumFmt.v + F64Fmt.v + NumProc.v (the code
   AFTER the two fix: commits: sign-magnitude radix printers, validated radix).
   The statements mention the whole procedures, whose float arms are Flocq binary64
   computations, hence the standard real-number axioms in every report below.    *)
From Coq Require Import ZArith List Bool.
From MW Require Import Model.Base Model.F64 Model.Num Model.Digits Model.F64Fmt Model.NumFmt
  Model.Datum Model.NumProc Model.Lex Model.Parse
  Proofs.DigitsProofs Proofs.NumFmtProofs Proofs.LiteralProofs.
Open Scope Z_scope.

(* digit strings invert, every radix >= 2, every n >= 0 *)
Theorem C16_digits_roundtrip : forall r n, 2 <= r -> 0 <= n -> of_digits r (to_digits r n) = n.
Proof. exact digits_roundtrip. Qed.
Print Assumptions C16_digits_roundtrip.

(* ... and as characters: the unsigned rendering reads back, radix 2..36 *)
Theorem C16_digit_text_roundtrip : forall r n, 2 <= r <= 36 -> 0 <= n ->
  digits_value r (show_nat_radix r n) 0 = Some n.
Proof. exact digits_value_show. Qed.
Print Assumptions C16_digit_text_roundtrip.

(* (string->number (number->string z r) r) for every exact z (fixnum, bignum of any
   size, reduced rational of either sign) and r in {2, 8, 10, 16}, the radix given
   in any representation pop_usize accepts: the result is the number [reread z]... *)
Theorem C16_exact_roundtrip : forall n r rc,
  exact_wf n -> In r [2; 8; 10; 16] -> pop_usize rc = Ok r ->
  number_string [CNum n; rc] = Ok (CStr (exact_text r n)) /\
  string_number [CStr (exact_text r n); rc] = Ok (CNum (reread n)).
Proof. exact exact_roundtrip. Qed.
Print Assumptions C16_exact_roundtrip.

(* ... which is exact and has the same value (cross-multiplied, denominators > 0) *)
Theorem C16_reread_same_number : forall n, exact_wf n ->
  num_is_exact (reread n) = true /\
  num_numer (reread n) * num_denom n = num_numer n * num_denom (reread n) /\
  0 < num_denom (reread n).
Proof. exact reread_same_value. Qed.
Print Assumptions C16_reread_same_number.

(* the one-argument forms work in radix 10 *)
Theorem C16_exact_roundtrip_default : forall n, exact_wf n ->
  number_string [CNum n] = Ok (CStr (exact_text 10 n)) /\
  string_number [CStr (exact_text 10 n)] = Ok (CNum (reread n)).
Proof. exact exact_roundtrip_default. Qed.
Print Assumptions C16_exact_roundtrip_default.

(* a numeric literal denotes what string->number gives its spelling: for ANY spelling
   that the scanner reads as one Number or Symbol token (hex spellings that start
   with a letter are Symbol tokens and still reach Number::parse), after #b #o #d #x *)
Theorem C16_literal_is_string_to_number : forall r c rest ty,
  is_prefix_radix r -> lex1 c rest = STok ty (c :: rest) [] -> (ty = TNumber \/ ty = TSymbol) ->
  parse_text (radix_prefix r ++ c :: rest) =
    (do v <- string_to_number Debug (c :: rest) r;
     Ok (match v with CNum n => CNum n | _ => CSym (c :: rest) end, None)).
Proof. exact literal_is_string_to_number. Qed.
Print Assumptions C16_literal_is_string_to_number.

(* every printed spelling of an exact number is such a spelling, and the literal is
   the number itself *)
Theorem C16_exact_literal : forall r n rc,
  is_prefix_radix r -> exact_wf n -> pop_usize rc = Ok r ->
  parse_text (radix_prefix r ++ exact_text r n) = Ok (CNum (reread n), None) /\
  string_number [CStr (exact_text r n); rc] = Ok (CNum (reread n)).
Proof. exact exact_literal. Qed.
Print Assumptions C16_exact_literal.

(* radix guard (after fix F13): string->number with a radix outside 2..36 is an
   error, for every radix argument — never a panic *)
Theorem C16_radix_guard : forall s rc,
  (exists r, pop_usize rc = Ok r /\ 2 <= r <= 36) \/ string_number [CStr s; rc] = Err E_OTHER.
Proof. exact string_number_no_radix_panic. Qed.
Print Assumptions C16_radix_guard.

(* non-vacuity: -5 in radix 2 (the witness of the repaired defect), a bignum, a
   negative rational in radix 16, and the literal #x-ff *)
Example C16_example_neg :
  number_string [CNum (Fixnum (-5)); CNum (Fixnum 2)] = Ok (CStr [45; 49; 48; 49]%N) /\
  string_number [CStr [45; 49; 48; 49]%N; CNum (Fixnum 2)] = Ok (CNum (Fixnum (-5))).
Proof. split; vm_compute; reflexivity. Qed.
Example C16_example_rat :
  exact_wf (Rational (-255) 16) /\
  number_string [CNum (Rational (-255) 16); CNum (Fixnum 16)] = Ok (CStr [45; 102; 102; 47; 49; 48]%N) /\
  string_number [CStr [45; 102; 102; 47; 49; 48]%N; CNum (Fixnum 16)] = Ok (CNum (Rational (-255) 16)).
Proof. repeat split; vm_compute; reflexivity. Qed.
Example C16_example_literal :
  parse_text ([35; 120; 45; 102; 102]%N) = Ok (CNum (Fixnum (-255)), None)
  /\ parse_text ([35; 120; 102; 102]%N) = Ok (CNum (Fixnum 255), None).
Proof. split; vm_compute; reflexivity. Qed.
Example C16_example_guard :
  string_number [CStr [49]%N; CNum (Fixnum 37)] = Err E_OTHER /\
  string_number [CStr [49]%N; CNum (BigInt 4294967306)] = Err E_OTHER.
Proof. split; vm_compute; reflexivity. Qed.
