(* C16 — number->string and string->number are mutually inverse.
   Only statements, each closed by [exact] of a lemma proved in Proofs/, with its
   assumptions printed.  The model is Model/NumFmt.v + F64Fmt.v + NumProc.v (the code
   AFTER the two fix: commits: sign-magnitude radix printers, validated radix).
   The statements mention the whole procedures, whose float arms are Flocq binary64
   computations, hence the standard real-number axioms in every report below.    *)
From Coq Require Import ZArith List Bool.
From MW Require Import Model.Base Model.F64 Model.Num Model.Digits Model.F64Fmt Model.NumFmt
  Model.Datum Model.NumProc Model.Lex Model.Parse
  Proofs.DigitsProofs Proofs.NumFmtProofs Proofs.LiteralProofs.
Open Scope Z_scope.

(* digit strings invert, every radix >= 2, every n >= 0 *)
Theorem C16_digits_roundtrip : forall r n, 2 <= r -> 0 <= n -> of_digits r (to_digits r n) = n.
Proof. exact digits_roundtrip. Qed.
Print Assumptions C16_digits_roundtrip.

(* ... and as characters: the unsigned rendering reads back, radix 2..36 *)
Theorem C16_digit_text_roundtrip : forall r n, 2 <= r <= 36 -> 0 <= n ->
  digits_value r (show_nat_radix r n) 0 = Some n.
Proof. exact digits_value_show. Qed.
Print Assumptions C16_digit_text_roundtrip.

(* (string->number (number->string z r) r) for every exact z (fixnum, bignum of any
   size, reduced rational of either sign) and r in {2, 8, 10, 16}, the radix given
   in any representation pop_usize accepts: the result is the number [reread z]... *)
Theorem C16_exact_roundtrip : forall n r rc,
  exact_wf n -> In r [2; 8; 10; 16] -> pop_usize rc = Ok r ->
  number_string [CNum n; rc] = Ok (CStr (exact_text r n)) /\
  string_number [CStr (exact_text r n); rc] = Ok (CNum (reread n)).
Proof. exact exact_roundtrip. Qed.
Print Assumptions C16_exact_roundtrip.

(* ... which is exact and has the same value (cross-multiplied, denominators > 0) *)
Theorem C16_reread_same_number : forall n, exact_wf n ->
  num_is_exact (reread n) = true /\
  num_numer (reread n) * num_denom n = num_numer n * num_denom (reread n) /\
  0 < num_denom (reread n).
Proof. exact reread_same_value. Qed.
Print Assumptions C16_reread_same_number.

(* the one-argument forms work in radix 10 *)
Theorem C16_exact_roundtrip_default : forall n, exact_wf n ->
  number_string [CNum n] = Ok (CStr (exact_text 10 n)) /\
  string_number [CStr (exact_text 10 n)] = Ok (CNum (reread n)).
Proof. exact exact_roundtrip_default. Qed.
Print Assumptions C16_exact_roundtrip_default.

(* a numeric literal denotes what string->number gives its spelling: for ANY spelling
   that the scanner reads as one Number or Symbol token (hex spellings that start
   with a letter are Symbol tokens and still reach Number::parse), after #b #o #d #x *)
Theorem C16_literal_is_string_to_number : forall r c rest ty,
  is_prefix_radix r -> lex1 c rest = STok ty (c :: rest) [] -> (ty = TNumber \/ ty = TSymbol) ->
  parse_text (radix_prefix r ++ c :: rest) =
    (do v <- string_to_number Debug (c :: rest) r;
     Ok (match v with CNum n => CNum n | _ => CSym (c :: rest) end, None)).
Proof. exact literal_is_string_to_number. Qed.
Print Assumptions C16_literal_is_string_to_number.

(* every printed spelling of an exact number is such a spelling, and the literal is
   the number itself *)
Theorem C16_exact_literal : forall r n rc,
  is_prefix_radix r -> exact_wf n -> pop_usize rc = Ok r ->
  parse_text (radix_prefix r ++ exact_text r n) = Ok (CNum (reread n), None) /\
  string_number [CStr (exact_text r n); rc] = Ok (CNum (reread n)).
Proof. exact exact_literal. Qed.
Print Assumptions C16_exact_literal.

(* radix guard (after fix F13): string->number with a radix outside 2..36 is an
   error, for every radix argument — never a panic *)
Theorem C16_radix_guard : forall s rc,
  (exists r, pop_usize rc = Ok r /\ 2 <= r <= 36) \/ string_number [CStr s; rc] = Err E_OTHER.
Proof. exact string_number_no_radix_panic. Qed.
Print Assumptions C16_radix_guard.

(* non-vacuity: -5 in radix 2 (the witness of the repaired defect), a bignum, a
   negative rational in radix 16, and the literal #x-ff *)
Example C16_example_neg :
  number_string [CNum (Fixnum (-5)); CNum (Fixnum 2)] = Ok (CStr [45; 49; 48; 49]%N) /\
  string_number [CStr [45; 49; 48; 49]%N; CNum (Fixnum 2)] = Ok (CNum (Fixnum (-5))).
Proof. split; vm_compute; reflexivity. Qed.
Example C16_example_rat :
  exact_wf (Rational (-255) 16) /\
  number_string [CNum (Rational (-255) 16); CNum (Fixnum 16)] = Ok (CStr [45; 102; 102; 47; 49; 48]%N) /\
  string_number [CStr [45; 102; 102; 47; 49; 48]%N; CNum (Fixnum 16)] = Ok (CNum (Rational (-255) 16)).
Proof. repeat split; vm_compute; reflexivity. Qed.
Example C16_example_literal :
  parse_text ([35; 120; 45; 102; 102]%N) = Ok (CNum (Fixnum (-255)), None)
  /\ parse_text ([35; 120; 102; 102]%N) = Ok (CNum (Fixnum 255), None).
Proof. split; vm_compute; reflexivity. Qed.
Example C16_example_guard :
  string_number [CStr [49]%N; CNum (Fixnum 37)] = Err E_OTHER /\
  string_number [CStr [49]%N; CNum (BigInt 4294967306)] = Err E_OTHER.
Proof. split; vm_compute; reflexivity. Qed.

(* ------------------------------------------------------------------ floats *)
From Flocq Require Import IEEE754.BinarySingleNaN.
From MW Require Import Proofs.FloatProofs.

(* OPEN (not proved in general; checked in-kernel on the palette below and sampled
   against the real std by every run of the check): the decimal that the
   specification of std's formatting prints converts back, under the specification of
   std's parsing, to the same double.  Both sides are executable definitions of
   Model/F64Fmt.v; the statement is closed and decidable per double. *)
Definition C16_std_roundtrip_stmt : Prop :=
  forall x : f64, is_finite x = true -> dec2flt (num_display (Float x)) = Some x.
(* OPEN: a non-integer double at most 1e10 prints with a decimal point *)
Definition C16_display_point_stmt : Prop :=
  forall x : f64, is_finite x = true ->
    f64_ltb F_1E10 x = false -> float_is_integer x = false -> In 46%N (fmt_display x).

(* marwood's part, proved: whichever of {:e} / {:.1} / {} the printer chooses, the
   text has an 'e' or a '.' and no '/', is rejected by the i64, BigInt and rational
   parsers and reaches the float parser; hence, given the two statements about std,
   every finite double round-trips in radix 10 *)
Theorem C16_float_roundtrip : C16_std_roundtrip_stmt -> C16_display_point_stmt ->
  forall x : f64, is_finite x = true ->
    number_string [CNum (Float x)] = Ok (CStr (num_display (Float x))) /\
    string_number [CStr (num_display (Float x))] = Ok (CNum (Float x)).
Proof. exact float_roundtrip. Qed.
Print Assumptions C16_float_roundtrip.

Theorem C16_float_text_reaches_float_parser : forall p t, float_text_ok t ->
  number_parse p t 10 = Ok (match dec2flt t with Some f => Some (Float f) | None => None end).
Proof. exact number_parse_float_text. Qed.
Print Assumptions C16_float_text_reaches_float_parser.

(* the two OPEN statements hold on a palette of doubles given by bit pattern: zeros,
   subnormals, binade boundaries, 1e10 +- ulp, 2^53, 2^63, 1e22, 1e23 (a tie), the
   2^50+0.25 tie, max; checked by the kernel *)
Definition palette_bits : list Z :=
  [0; 0x8000000000000000; 1; 2; 0x8000000000000001; 0x000fffffffffffff; 0x0010000000000000;
   0x0010000000000001; 0x7fefffffffffffff; 0xffefffffffffffff; 0x3ff0000000000000; 0xbff0000000000000;
   0x3fe0000000000000; 0x3fb999999999999a; 0x3fd3333333333333; 0x4202a05f20000000; 0x4202a05f1fffffff;
   0x4202a05f20000001; 0xc202a05f20000000; 0x4340000000000000; 0x433fffffffffffff; 0x4340000000000001;
   0x43e0000000000000; 0x43dfffffffffffff; 0x43e0000000000001; 0x444b1ae4d6e2ef50; 0x44b52d02c7e14af6;
   0x44b52d02c7e14af5; 0x4310000000000001; 0x3ff8000000000000; 0xc04535c28f5c28f6; 0x3e7ad7f29abcaf48;
   0x7e37e43c8800759c; 0x0000000000000004; 0x4000000000000000; 0x4024000000000000; 0x3ff0000000000001;
   0x3fefffffffffffff; 0x41dfffffffe00000; 0x41dfffffffc00000].
Definition roundtrips (b : Z) : bool :=
  let x := f64_of_bits b in
  match dec2flt (num_display (Float x)) with
  | Some y => Z.eqb (f64_bits y) b
  | None => false
  end.
Example C16_std_roundtrip_palette : forallb roundtrips palette_bits = true.
Proof. vm_compute. reflexivity. Qed.

(* OPEN: no '-' after the first character of the printed form of a finite double
   (the {:e} exponent is never negative because {:e} is used only above 1e10) *)
Definition C16_no_inner_minus_stmt : Prop :=
  forall x : f64, is_finite x = true -> ~ In 45%N (tl (num_display (Float x))).

From MW Require Import Proofs.FloatLiteralProofs.
Open Scope Z_scope.

(* proved: such a printed form is scanned as ONE Number token (its characters are
   digits . e and a leading -), and after #d it is a literal for what string->number
   gives it *)
Theorem C16_float_spelling_scan : forall x : f64, is_finite x = true ->
  ~ In 45%N (tl (num_display (Float x))) ->
  scan (num_display (Float x)) = Ok [mk_token 0 (blen (num_display (Float x))) TNumber].
Proof. exact float_spelling_scan. Qed.
Print Assumptions C16_float_spelling_scan.

Theorem C16_float_literal : forall x : f64, is_finite x = true ->
  ~ In 45%N (tl (num_display (Float x))) ->
  parse_text (radix_prefix 10 ++ num_display (Float x)) =
    (do v <- string_to_number Debug (num_display (Float x)) 10;
     Ok (match v with CNum n => CNum n | _ => CSym (num_display (Float x)) end, None)).
Proof. exact float_literal. Qed.
Print Assumptions C16_float_literal.

(* ... and on 120 pseudo-random finite doubles (a 64-bit linear congruential sequence
   of bit patterns, the exponent field forced below 0x7ff), the three OPEN statements,
   checked by the kernel on every run *)
Definition lcg (b : Z) : Z := (b * 6364136223846793005 + 1442695040888963407) mod 2 ^ 64.
Definition finite_bits (b : Z) : Z :=
  if (b / 2 ^ 52) mod 2048 =? 2047 then b - 2 ^ 62 else b.
Fixpoint lcg_seq (n : nat) (b : Z) : list Z :=
  match n with O => [] | S k => finite_bits b :: lcg_seq k (lcg b) end.
(* the three statements on one double, the text computed once; in the branch where
   display_point applies, num_display IS fmt_display *)
Definition open_stmts_hold (b : Z) : bool :=
  let x := f64_of_bits b in
  let t := num_display (Float x) in
  (match dec2flt t with Some y => Z.eqb (f64_bits y) b | None => false end)
  && (if negb (f64_ltb F_1E10 x) && negb (float_is_integer x) then existsb (N.eqb 46) t else true)
  && negb (existsb (N.eqb 45) (tl t)).
Example C16_open_stmts_sample : forallb open_stmts_hold (lcg_seq 120 0x9e3779b97f4a7c15) = true.
Proof. vm_compute. reflexivity. Qed.
Example C16_open_stmts_palette : forallb open_stmts_hold palette_bits = true.
Proof. vm_compute. reflexivity. Qed.
